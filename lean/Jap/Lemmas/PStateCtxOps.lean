import Jap.Core.PStateCtx
import Jap.Gen.Brackets
import Jap.Gen.PState
/-!
The bracket skeletons of the public operations (jsonargparse/_core.py, _actions.py, _typehints.py as they are now),
written over the REGENERATED tables: `cm mgr var v body` is `with mgr(var := v): body`, and whether that is a bracket
whose reset sits in a `finally`, a bracket whose reset is skipped by an exception, or a plain write that stays is
looked up in Gen/Brackets on every build.  Dropping a `try/finally` from a context manager of /repo therefore turns
the bracket of every skeleton that uses it into one that leaks, and the `decide` obligations of Props/C09 fail.

Locations: context variables by name; `parser.print_config`, `parser.args` (application parser), `sub.print_config`,
`sub.args` (a sub-command parser), `os.cwd`, `argparse.Namespace`; `action.default` (rewritten by the help formatter
for the substitution and put back — in a `finally` since cb986b8; whether it is, is the regenerated fact
`Gen.PState.helpDefaultFinally`).
-/
namespace Jap.PState.Ctx

/-- (place of the reset, what is restored) of context manager `mgr` for `var`, from the regenerated Gen/Brackets -/
def rowOf (mgr var : String) : Option (String × String) :=
  (Jap.Gen.Brackets.brackets.find? fun r => r.2.1 == mgr && r.2.2.1 == var).map fun r => (r.2.2.2.1, r.2.2.2.2)

/-- `with mgr(var := v): body`, as the regenerated table describes the manager -/
def cm (mgr var : String) (v : Nat) (body : Prog) : Prog :=
  match rowOf mgr var with
  | some (place, src) =>
    if place == "finally" && src == "self" then .bracket true var v body
    else if place == "after" && src == "self" then .bracket false var v body
    else .seq (.set var v) body
  | none => .seq (.set var v) body

def seqs : List Prog → Prog
  | [] => .skip
  | [p] => p
  | p :: ps => .seq p (seqs ps)

/-- the context variables that are set on entry and never reset (carriers of Core/PState: written before read) -/
def unresetVars : List String := ["parse_kwargs", "subclass_arg_parser", "dump_kwargs"]

/-- the restored locations: every context variable of the package (regenerated list) except the three above and
    `current_mro` (moved forward only inside `mro_context`, not touched by the skeletons), and the object / process
    attributes that an operation must leave as it found them -/
def restoredLocs : List String :=
  ((Jap.Gen.PState.ctxSets.map (·.1)).eraseDups.filter fun x => !unresetVars.contains x && x != "current_mro") ++
    ["os.cwd", "argparse.Namespace", "parser.print_config", "sub.print_config", "action.default"]

/-! ### skeletons -/

/-- adapting a typed value (`adapt_typehints` / `get_class_parser`): what it reads -/
def adapt : Prog :=
  seqs [.read "parent_parser", .read "nested_links", .read "lenient_check", .read "load_value_mode", .read "sub_defaults",
        .read "allow_default_instance", .read "class_instantiators"]

/-- `ActionTypeHint.serialize`: dump_kwargs_context, then the serialising adapt reads it back -/
def serialize (dk : Nat) : Prog := cm "dump_kwargs_context" "dump_kwargs" dk (.seq (.read "dump_kwargs") adapt)

/-- `validate(cfg)` -/
def validate (p : Nat) : Prog :=
  cm "parser_context" "load_value_mode" 1 (seqs [.read "lenient_check", cm "parser_context" "parent_parser" p adapt, .read "lenient_check"])

/-- `ActionTypeHint.add_sub_defaults` -/
def addSubDefaults : Prog := cm "ActionTypeHint.sub_defaults_context" "sub_defaults" 1 adapt

mutual
/-- `get_defaults()`: per default config file change_to_path_dir + parser_context(parent_parser) + skip_print_config
    around `_parse_common`, then the sub-defaults -/
def getDefaults : Nat → Nat → Prog
  | 0, _ => seqs [.read "parent_parsers", addSubDefaults]
  | n + 1, p =>
    seqs [.read "parent_parsers",
          cm "change_to_path_dir" "os.cwd" 1 (cm "change_to_path_dir" "current_path_dir" 1 (cm "parser_context" "parent_parser" p
            (seqs [cm "parser_context" "load_value_mode" 1 (.read "previous_config"),
                   .tryCatch (cm "_ActionPrintConfig.skip_print_config" "print_config_skip" 1 (parseCommon n p)) .raise]))),
          addSubDefaults]

/-- `dump(cfg, …)`; `sd`: skip_default (fetches the defaults and serialises them too) -/
def dump : Nat → Nat → Nat → Bool → Prog
  | 0, p, dk, _ =>
    seqs [cm "parser_context" "load_value_mode" 1 (seqs [validate p, serialize dk]), cm "parser_context" "parent_parser" p .skip]
  | n + 1, p, dk, sd =>
    seqs [cm "parser_context" "load_value_mode" 1
            (seqs [validate p, serialize dk, if sd then seqs [getDefaults n p, serialize (dk + 2)] else .skip]),
          cm "parser_context" "parent_parser" p .skip]

/-- `print_config_if_requested` -/
def printConfigIfRequested : Nat → Nat → Prog
  | 0, _ => .skip
  | n + 1, p =>
    .ifEq "parser.print_config" 0 .skip
      (.ifEq "print_config_skip" 0
        (seqs [cm "parser_context" "lenient_check" 1 (dump n p 1 true), .set "parser.print_config" 0, .raise])
        .skip)

/-- `_parse_common` -/
def parseCommon : Nat → Nat → Prog
  | 0, p => seqs [cm "parser_context" "lenient_check" 1 addSubDefaults, cm "parser_context" "parent_parser" p (validate p)]
  | n + 1, p =>
    seqs [cm "_ActionSubCommands.not_single_subcommand" "single_subcommand" 0 .skip,
          cm "parser_context" "lenient_check" 1 addSubDefaults,
          printConfigIfRequested n p,
          cm "parser_context" "parent_parser" p (seqs [.tryCatch (cm "skip_apply_links" "apply_config_skip" 1 .skip) .raise, validate p])]
end

/-- what one element of an argv does -/
inductive Tok where
  /-- an option with a typed value: `parse_argv_item` reads subclass_arg_parser, the value is adapted -/
  | typed
  /-- an option routed to a per-class parser: a nested parse_args on a FRESH parser (its attributes are not carriers) -/
  | nested
  /-- `--print_config[=flags]` -/
  | printConfig (flags : Nat)
  /-- `--cfg FILE`: previous_config_context, change_to_path_dir, a nested parse of the same parser -/
  | cfgFile
  /-- `--help`: the formatter rewrites `action.default` for the substitution, puts it back, exits -/
  | help
  /-- `--x.help Class`: reads `parser.args`, exits -/
  | classHelp
  /-- a value that is rejected -/
  | bad
deriving DecidableEq, Repr

def allToks : List Tok := [.typed, .nested, .printConfig 5, .cfgFile, .help, .classHelp, .bad]

/-- `format_help()` -/
def formatHelp (n p : Nat) : Prog :=
  seqs [.tryCatch (getDefaults n p) .skip,
        cm "parser_context" "parent_parser" p (cm "parser_context" "defaults_cache" 1
          (seqs [.read "defaults_cache",
                 -- _expand_help: action.default := the default-config value, help string (extra_help may raise), put back
                 .bracket Jap.Gen.PState.helpDefaultFinally "action.default" 7 (seqs [.read "action.default", adapt])]))]

def tokProg (n p : Nat) (args : String) : Tok → Prog
  | .typed => seqs [.read "subclass_arg_parser", adapt]
  | .nested =>
    seqs [.read "subclass_arg_parser", adapt,
          cm "_ActionSubCommands.parse_kwargs_context" "parse_kwargs" 2
            (cm "parser_context" "parent_parser" 99 (cm "parser_context" "lenient_check" 1
              (cm "ActionTypeHint.subclass_arg_context" "subclass_arg_parser" 99 adapt)))]
  | .printConfig f => .set "parser.print_config" f
  | .cfgFile =>
    cm "previous_config_context" "previous_config" 1 (cm "change_to_path_dir" "os.cwd" 1 (cm "change_to_path_dir" "current_path_dir" 1
      (seqs [cm "parser_context" "load_value_mode" 1 (.read "previous_config"),
             cm "parser_context" "parent_parser" p (cm "parser_context" "lenient_check" 1 adapt), parseCommon n p])))
  | .help => seqs [formatHelp n p, .raise]
  | .classHelp => seqs [.read args, .raise]
  | .bad => .raise

/-- `parse_known_args` around the elements of the argv -/
def parseKnownArgs (p : Nat) (body : Prog) : Prog :=
  .tryCatch
    (cm "patch_namespace" "argparse.Namespace" 1 (cm "parser_context" "parent_parser" p (cm "parser_context" "lenient_check" 1
      (cm "ActionTypeHint.subclass_arg_context" "subclass_arg_parser" p body))))
    .raise

/-- nested `parse_args` of a sub-command parser (called by the sub-command action, which reads parse_kwargs):
    its own `args`, its own `finally` -/
def subParseArgs (n p : Nat) (toks : List Tok) : Prog :=
  seqs [.read "parse_kwargs", .set "sub.args" 4,
        .scoped "sub.print_config"
          (.tryCatch (seqs [cm "_ActionSubCommands.parse_kwargs_context" "parse_kwargs" 3
                              (parseKnownArgs (p + 1) (seqs (toks.map (tokProg n p "sub.args"))))]) .raise)]

/-- `parse_args(argv, env=…, defaults=…)` of the application parser; `sub`: the argv names a sub-command -/
def parseArgs (n p kw : Nat) (toks : List Tok) (sub : Option (List Tok)) : Prog :=
  seqs [.set "parser.args" 3,
        .scoped "parser.print_config"
          (.tryCatch
            (seqs [cm "parser_context" "load_value_mode" 1 (getDefaults n p),
                   cm "_ActionSubCommands.parse_kwargs_context" "parse_kwargs" kw
                     (parseKnownArgs p (seqs (toks.map (tokProg n p "parser.args") ++ [match sub with
                        | some st => subParseArgs n p st
                        | none => .skip]))),
                   parseCommon (n + 3) p])
            .raise)]

/-- `parse_object` / `parse_string` / `parse_path` / `parse_env` -/
def parseOther (n p : Nat) : Prog :=
  .tryCatch
    (seqs [cm "change_to_path_dir" "os.cwd" 1 (cm "change_to_path_dir" "current_path_dir" 1
             (cm "parser_context" "load_value_mode" 1 (.read "previous_config"))),
           cm "parser_context" "load_value_mode" 1 (getDefaults n p),
           cm "parser_context" "parent_parser" p (cm "parser_context" "lenient_check" 1 adapt),
           parseCommon (n + 3) p])
    .raise

/-- `instantiate_classes(cfg)` -/
def instantiate (p : Nat) : Prog :=
  seqs [cm "parser_context" "parent_parser" p (cm "parser_context" "nested_links" 1 (cm "parser_context" "class_instantiators" 1 adapt)),
        cm "parser_context" "load_value_mode" 1 (cm "parser_context" "class_instantiators" 1 adapt)]

/-- the operations of the property's quantifier, for the argv shapes of length ≤ 2 over `allToks` (with and without a
    sub-command), all keyword combinations of dump -/
def publicOps (p : Nat) : List Prog :=
  let argvs : List (List Tok) := [[]] ++ allToks.map (fun t => [t]) ++ (allToks.flatMap fun a => allToks.map fun b => [a, b])
  (argvs.map fun a => parseArgs 4 p 1 a none) ++ (argvs.map fun a => parseArgs 4 p 2 [.typed] (some a)) ++
    [parseOther 4 p, getDefaults 4 p, validate p, instantiate p, formatHelp 4 p,
     dump 5 p 0 false, dump 5 p 1 true, dump 5 p 0 true]

end Jap.PState.Ctx

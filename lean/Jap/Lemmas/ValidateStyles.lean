import Jap.Core.Validate
import Jap.Lemmas.Validate
/-!
Helper lemmas for C07: the four declaration constructors yield the same action table on well-formed field lists;
the parse fold reads the whole-group option of a table only for the items that use it.
-/
namespace Jap.Validate

/-! ## well-formed field lists -/

/-- a field with a default (declared, or `None` derived for an Optional annotation) is not named `_...`: such parameters are
    skipped by `_add_signature_parameter` -/
def wfField (f : Field) : Bool := !((normOptD f.ty f.default).isSome && f.name.front = '_')

def wfFields (fields : List Field) : Bool := !fields.isEmpty && fields.all wfField

theorem sigParam_wf {f : Field} (h : wfField f = true) : sigParam f = some (normOpt f) := by
  unfold wfField at h
  unfold sigParam normOpt
  simp only [Bool.not_eq_true'] at h
  simp only [h, Bool.false_eq_true, if_false]

theorem filterMap_sigParam : ∀ {fields : List Field}, fields.all wfField = true → fields.filterMap sigParam = fields.map normOpt
  | [], _ => rfl
  | f :: r, h => by
    simp only [List.all_cons, Bool.and_eq_true] at h
    simp only [List.filterMap_cons, sigParam_wf h.1, List.map_cons]
    rw [filterMap_sigParam h.2]

/-! ## the tables -/

theorem inner_entry_eq (key : String) (f : Field) :
    ({ (addArgument f.name f.name f.ty f.default).1 with
        dest := key ++ "." ++ (addArgument f.name f.name f.ty f.default).1.dest,
        optKeys := (addArgument f.name f.name f.ty f.default).1.optKeys.map (fun o => key ++ "." ++ o) } : Entry)
      = (addArgument f.name (key ++ "." ++ f.name) f.ty f.default).1 := by
  unfold addArgument
  by_cases h : hasPlus f.ty = true
  · simp [h, String.append_assoc]
  · simp [h]

theorem inner_required_eq (key : String) : ∀ (fields : List Field),
    ((fields.map fun f => (addArgument f.name f.name f.ty f.default).2).flatten).map (fun x => key ++ "." ++ x)
      = (fields.map fun f => (addArgument f.name (key ++ "." ++ f.name) f.ty f.default).2).flatten
  | [] => rfl
  | f :: r => by
    simp only [List.map_cons, List.flatten_cons, List.map_append, inner_required_eq key r]
    congr 1
    unfold addArgument
    cases f.default <;> simp

theorem declInner_eq (key : String) (fields : List Field) :
    declInnerParser key fields = { declDotted key fields with whole := some key } := by
  unfold declInnerParser declDotted
  simp only [List.map_map, Table.mk.injEq, and_true]
  refine ⟨?_, ?_⟩
  · apply List.map_congr_left
    intro f _
    exact inner_entry_eq key f
  · exact inner_required_eq key fields

theorem declClass_eq (key : String) {fields : List Field} (h : wfFields fields = true) :
    declClassArgs key fields = { declDotted key (fields.map normOpt) with whole := some key } := by
  simp only [wfFields, Bool.and_eq_true, Bool.not_eq_true'] at h
  unfold declClassArgs declDotted
  simp only [filterMap_sigParam h.2, h.1, Bool.false_eq_true, if_false, List.map_map]

/-! ## the parse fold does not look at the whole-group option unless an item uses it -/

def isStr : Val → Bool
  | .str _ => true
  | _ => false

/-- the item assigns the group as a whole: the `--key` option, its environment variable, or a string for the group key
    in a configuration (which only the styles with an `_ActionConfigLoad` try to load) -/
def Item.usesWhole (key : String) : Item → Bool
  | .wholeOpt _ => true
  | .wholeEnv _ => true
  | .tree kvs => kvs.any (fun kv => kv.1 = key && isStr kv.2)
  | .opt _ _ => false

/-- the group key never holds a string -/
def NoStr (key : String) (cfg : KV) : Prop := ∀ v, (key, v) ∈ cfg → isStr v = false

theorem mem_insert {k : String} {v : Val} : ∀ {l : KV} {x : String × Val}, x ∈ insert k v l → x = (k, v) ∨ x ∈ l
  | [], x, h => by simp [insert] at h; exact Or.inl h
  | (k0, v0) :: r, x, h => by
    unfold insert at h
    by_cases h0 : k0 = k
    · simp only [h0, if_true, List.mem_cons] at h
      rcases h with h | h
      · exact Or.inl h
      · exact Or.inr (List.mem_cons_of_mem _ h)
    · simp only [h0, if_false, List.mem_cons] at h
      rcases h with h | h
      · exact Or.inr (by rw [h]; exact List.mem_cons_self)
      · rcases mem_insert h with h1 | h1
        · exact Or.inl h1
        · exact Or.inr (List.mem_cons_of_mem _ h1)

theorem noStr_insert_key {key : String} {v : Val} {l : KV} (h : NoStr key l) (hv : isStr v = false) :
    NoStr key (insert key v l) := by
  intro v' hm
  rcases mem_insert hm with h1 | h1
  · cases h1; exact hv
  · exact h v' h1

theorem noStr_insert_other {key k : String} {v : Val} {l : KV} (h : NoStr key l) (hk : k ≠ key) :
    NoStr key (insert k v l) := by
  intro v' hm
  rcases mem_insert hm with h1 | h1
  · cases h1; exact absurd rfl hk
  · exact h v' h1

theorem noStr_setG {key name : String} {v : Val} {cfg : KV} (h : NoStr key cfg) : NoStr key (setG key name v cfg) :=
  noStr_insert_key h rfl

/-- the same table with another whole-group option -/
def Table.withWhole (t : Table) (w : Option String) : Table := { t with whole := w }

theorem applyOpt_whole (ld : String → Val) (t : Table) (w : Option String) (key k : String) (raw : Val) (cfg : KV) :
    applyOpt ld (t.withWhole w) key k raw cfg = applyOpt ld t key k raw cfg := rfl

theorem applyGroup_whole (ld : String → Val) (t : Table) (w : Option String) (key : String) :
    ∀ (gkvs cfg : KV), applyGroup ld (t.withWhole w) key gkvs cfg = applyGroup ld t key gkvs cfg
  | [], cfg => rfl
  | (n, x) :: r, cfg => by
    unfold applyGroup
    have he : (t.withWhole w).entries = t.entries := rfl
    rw [he]
    cases t.entries.find? (fun e => e.name = n) with
    | none =>
      simp only []
      by_cases hl : leafless x = true
      · simp only [hl, if_true]; exact applyGroup_whole ld t w key r cfg
      · simp only [hl]; exact applyGroup_whole ld t w key r _
    | some e =>
      simp only []
      cases x with
      | null => exact applyGroup_whole ld t w key r _
      | bool b => simp only []; cases adapt ld e.ty (.bool b) with
        | none => rfl
        | some v => exact applyGroup_whole ld t w key r _
      | int i => simp only []; cases adapt ld e.ty (.int i) with
        | none => rfl
        | some v => exact applyGroup_whole ld t w key r _
      | str s => simp only []; cases adapt ld e.ty (.str s) with
        | none => rfl
        | some v => exact applyGroup_whole ld t w key r _
      | flt f => simp only []; cases adapt ld e.ty (.flt f) with
        | none => rfl
        | some v => exact applyGroup_whole ld t w key r _
      | list xs => simp only []; cases adapt ld e.ty (.list xs) with
        | none => rfl
        | some v => exact applyGroup_whole ld t w key r _
      | dict d => simp only []; cases adapt ld e.ty (.dict d) with
        | none => rfl
        | some v => exact applyGroup_whole ld t w key r _

theorem applyGroup_noStr {ld : String → Val} {t : Table} {key : String} :
    ∀ {gkvs cfg cfg' : KV}, NoStr key cfg → applyGroup ld t key gkvs cfg = .ok cfg' → NoStr key cfg'
  | [], cfg, cfg', h, he => by
    simp only [applyGroup, Except.ok.injEq] at he
    subst he; exact h
  | (n, x) :: r, cfg, cfg', h, he => by
    unfold applyGroup at he
    cases hf : t.entries.find? (fun e => e.name = n) with
    | none =>
      simp only [hf] at he
      by_cases hl : leafless x = true
      · simp only [hl, if_true] at he; exact applyGroup_noStr h he
      · simp only [hl] at he; exact applyGroup_noStr (noStr_setG h) he
    | some e =>
      simp only [hf] at he
      cases x with
      | null => exact applyGroup_noStr (noStr_setG h) he
      | bool b => simp only [] at he; cases ha : adapt ld e.ty (.bool b) with
        | none => simp [ha] at he
        | some v => simp only [ha] at he; exact applyGroup_noStr (noStr_setG h) he
      | int i => simp only [] at he; cases ha : adapt ld e.ty (.int i) with
        | none => simp [ha] at he
        | some v => simp only [ha] at he; exact applyGroup_noStr (noStr_setG h) he
      | str s => simp only [] at he; cases ha : adapt ld e.ty (.str s) with
        | none => simp [ha] at he
        | some v => simp only [ha] at he; exact applyGroup_noStr (noStr_setG h) he
      | flt f => simp only [] at he; cases ha : adapt ld e.ty (.flt f) with
        | none => simp [ha] at he
        | some v => simp only [ha] at he; exact applyGroup_noStr (noStr_setG h) he
      | list xs => simp only [] at he; cases ha : adapt ld e.ty (.list xs) with
        | none => simp [ha] at he
        | some v => simp only [ha] at he; exact applyGroup_noStr (noStr_setG h) he
      | dict d => simp only [] at he; cases ha : adapt ld e.ty (.dict d) with
        | none => simp [ha] at he
        | some v => simp only [ha] at he; exact applyGroup_noStr (noStr_setG h) he

theorem applyTree_whole {ld : String → Val} {t : Table} {w : Option String} {key : String} :
    ∀ (kvs cfg : KV), kvs.any (fun kv => kv.1 = key && isStr kv.2) = false →
    applyTree ld (t.withWhole w) key kvs cfg = applyTree ld t key kvs cfg
  | [], cfg, _ => rfl
  | (k, v) :: r, cfg, h => by
    simp only [List.any_cons, Bool.or_eq_false_iff] at h
    obtain ⟨h1, h2⟩ := h
    unfold applyTree
    by_cases hk : k = key
    · simp only [hk, if_true]
      cases v with
      | dict gkvs =>
        simp only []
        rw [applyGroup_whole]
        cases applyGroup ld t key gkvs cfg with
        | error e => rfl
        | ok cfg' => exact applyTree_whole r cfg' h2
      | str s => simp [hk, isStr] at h1
      | null => exact applyTree_whole r _ h2
      | bool b => exact applyTree_whole r _ h2
      | int i => exact applyTree_whole r _ h2
      | flt f => exact applyTree_whole r _ h2
      | list xs => exact applyTree_whole r _ h2
    · simp only [hk, if_false]
      by_cases hl : leafless v = true
      · simp only [hl, if_true]; exact applyTree_whole r cfg h2
      · simp only [hl]; exact applyTree_whole r _ h2

theorem applyTree_noStr {ld : String → Val} {t : Table} {key : String} :
    ∀ {kvs cfg cfg' : KV}, kvs.any (fun kv => kv.1 = key && isStr kv.2) = false → NoStr key cfg →
    applyTree ld t key kvs cfg = .ok cfg' → NoStr key cfg'
  | [], cfg, cfg', _, h, he => by
    simp only [applyTree, Except.ok.injEq] at he
    subst he; exact h
  | (k, v) :: r, cfg, cfg', hany, h, he => by
    simp only [List.any_cons, Bool.or_eq_false_iff] at hany
    obtain ⟨h1, h2⟩ := hany
    unfold applyTree at he
    by_cases hk : k = key
    · simp only [hk, if_true] at he
      cases v with
      | dict gkvs =>
        simp only [] at he
        cases hg : applyGroup ld t key gkvs cfg with
        | error e => simp [hg] at he
        | ok cfg1 =>
          simp only [hg] at he
          exact applyTree_noStr h2 (applyGroup_noStr h hg) he
      | str s => simp [hk, isStr] at h1
      | null => exact applyTree_noStr h2 (noStr_insert_key h rfl) he
      | bool b => exact applyTree_noStr h2 (noStr_insert_key h rfl) he
      | int i => exact applyTree_noStr h2 (noStr_insert_key h rfl) he
      | flt f => exact applyTree_noStr h2 (noStr_insert_key h rfl) he
      | list xs => exact applyTree_noStr h2 (noStr_insert_key h rfl) he
    · simp only [hk, if_false] at he
      by_cases hl : leafless v = true
      · simp only [hl, if_true] at he; exact applyTree_noStr h2 h he
      · simp only [hl] at he; exact applyTree_noStr h2 (noStr_insert_other h hk) he

theorem applyItems_whole {ld : String → Val} {t : Table} {w : Option String} {key : String} :
    ∀ (items : List Item) (cfg : KV), (∀ it ∈ items, Item.usesWhole key it = false) → NoStr key cfg →
    applyItems ld (t.withWhole w) key items cfg = applyItems ld t key items cfg ∧
    ∀ cfg', applyItems ld t key items cfg = .ok cfg' → NoStr key cfg'
  | [], cfg, _, h => ⟨rfl, fun cfg' he => by simp only [applyItems, Except.ok.injEq] at he; subst he; exact h⟩
  | it :: r, cfg, hu, h => by
    have hit := hu it List.mem_cons_self
    have hr : ∀ it' ∈ r, Item.usesWhole key it' = false := fun it' hm => hu it' (List.mem_cons_of_mem _ hm)
    have hstep : applyItem ld (t.withWhole w) key cfg it = applyItem ld t key cfg it ∧
        ∀ cfg1, applyItem ld t key cfg it = .ok cfg1 → NoStr key cfg1 := by
      cases it with
      | opt k raw =>
        refine ⟨rfl, ?_⟩
        intro cfg1 he
        simp only [applyItem, applyOpt] at he
        cases hf : findEntry t k with
        | none => simp [hf] at he
        | some e =>
          simp only [hf] at he
          split at he
          · simp only [Except.ok.injEq] at he; subst he; exact noStr_setG h
          · simp at he
      | wholeOpt v => simp [Item.usesWhole] at hit
      | wholeEnv v => simp [Item.usesWhole] at hit
      | tree kvs =>
        simp only [Item.usesWhole] at hit
        exact ⟨applyTree_whole kvs cfg hit, fun cfg1 he => applyTree_noStr hit h he⟩
    unfold applyItems
    rw [hstep.1]
    cases he : applyItem ld t key cfg it with
    | error e => exact ⟨rfl, fun cfg' h' => by simp at h'⟩
    | ok cfg1 =>
      simp only []
      exact applyItems_whole r cfg1 hr (hstep.2 cfg1 he)

/-! ## `validate` looks at the whole-group flag of a group only for a string value -/

/-- a level with one group has no list-typed argument an append key could be consumed by -/
theorem appendSlot_group (key : String) (w : Bool) (lf : Fields) (k : String) :
    appendSlot [(key, Node.group w lf)] k = none := by
  unfold appendSlot
  cases plusBase k with
  | none => rfl
  | some b =>
    simp only [assoc]
    by_cases h : key = b
    · simp [h, appendable]
    · simp [h]

theorem walk_group_whole {ld : String → Val} {key : String} {w1 w2 : Bool} {lf : Fields} {pre : Path} {cut : Nat} :
    ∀ (cfg : KV), NoStr key cfg →
    walk ld pre cut [(key, .group w1 lf)] none cfg = walk ld pre cut [(key, .group w2 lf)] none cfg
  | [], _ => by rw [walk_nil, walk_nil]
  | (k, v) :: r, h => by
    rw [walk_cons, walk_cons]
    have hr : NoStr key r := fun v' hm => h v' (List.mem_cons_of_mem _ hm)
    rw [walk_group_whole r hr]
    congr 1
    unfold entry slotOf
    by_cases hk : key = k
    · subst hk
      simp only [assoc, if_true]
      cases v with
      | dict gkvs => rw [chkVal_group_dict, chkVal_group_dict]
      | str s => have := h (.str s) List.mem_cons_self; simp [isStr] at this
      | null => rw [chkVal, chkVal] <;> simp
      | bool b => rw [chkVal, chkVal] <;> simp
      | int i => rw [chkVal, chkVal] <;> simp
      | flt f => rw [chkVal, chkVal] <;> simp
      | list xs => rw [chkVal, chkVal] <;> simp
    · simp only [assoc, hk, if_false, subOf, appendSlot_group]

theorem validate_group_whole {ld : String → Val} {key : String} (w1 w2 : Bool) (lf : Fields) {cfg : KV}
    (h : NoStr key cfg) : validate ld [(key, .group w1 lf)] cfg = validate ld [(key, .group w2 lf)] cfg := by
  rw [validate_eq, validate_eq]
  have hs : ∀ w, selected [(key, Node.group w lf)] cfg = none := by intro w; simp [selected, subOf]
  rw [hs w1, hs w2, walk_group_whole cfg h]
  congr 1

theorem noStr_defaults7 (key : String) (t : Table) : NoStr key (defaults7 key t) := by
  intro v hm
  simp only [defaults7, List.mem_singleton, Prod.mk.injEq] at hm
  rw [hm.2]; rfl

/-- **the parse result does not depend on the whole-group option of the table when no item uses it** -/
theorem parse7_whole {ld : String → Val} {t : Table} {w : Option String} {key : String} {items : List Item}
    (hu : ∀ it ∈ items, Item.usesWhole key it = false) :
    parse7 ld (t.withWhole w) key items = parse7 ld t key items := by
  unfold parse7
  have hd : defaults7 key (t.withWhole w) = defaults7 key t := rfl
  obtain ⟨h1, h2⟩ := applyItems_whole (ld := ld) (t := t) (w := w) items (defaults7 key t) hu (noStr_defaults7 key t)
  rw [hd, h1]
  cases he : applyItems ld t key items (defaults7 key t) with
  | error e => rfl
  | ok cfg =>
    simp only []
    have hv : validate ld (specOf key (t.withWhole w)) cfg = validate ld (specOf key t) cfg :=
      validate_group_whole _ _ _ (h2 cfg he)
    rw [hv]

end Jap.Validate

/-
Helper lemmas for the value-flow part of E5 (`Jap.Core.GraphFlow`): what `applyLinks` / `icLoop` preserve
(`Good`: every value written by a link and every logged argument is `goodValue` of its link; an applied link has
its key present), that they never touch the constructor log except through `construct`, and that a session
without writes outside cfg starts every call from the call's own applied set.
-/
import Jap.Core.GraphFlow
import Jap.Lemmas.Graph

namespace Jap.Graph

theorem mem_setVal {k : String} {v : Val} : ∀ {m : List (String × Val)} {kv : String × Val},
    kv ∈ setVal k v m → kv = (k, v) ∨ kv ∈ m
  | [], kv, h => by simp [setVal] at h; exact Or.inl h
  | (k', v') :: r, kv, h => by
    unfold setVal at h
    by_cases hk : k' = k
    · simp only [hk, if_true, List.mem_cons] at h
      rcases h with h | h
      · exact Or.inl h
      · exact Or.inr (List.mem_cons_of_mem _ h)
    · simp only [hk, if_false, List.mem_cons] at h
      rcases h with h | h
      · exact Or.inr (h ▸ List.mem_cons_self)
      · rcases mem_setVal h with h | h
        · exact Or.inl h
        · exact Or.inr (List.mem_cons_of_mem _ h)

theorem setVal_self (k : String) (v : Val) : ∀ (m : List (String × Val)), (k, v) ∈ setVal k v m
  | [] => by simp [setVal]
  | (k', v') :: r => by
    unfold setVal
    by_cases hk : k' = k
    · simp [hk]
    · simp only [hk, if_false]; exact List.mem_cons_of_mem _ (setVal_self k v r)

theorem setVal_keeps (k : String) (v : Val) (k' : String) : ∀ (m : List (String × Val)),
    (∃ v', (k', v') ∈ m) → ∃ v', (k', v') ∈ setVal k v m
  | [], h => by obtain ⟨_, h⟩ := h; simp at h
  | (k0, v0) :: r, ⟨v', h⟩ => by
    unfold setVal
    by_cases hk : k0 = k
    · simp only [hk, if_true]
      rcases List.mem_cons.mp h with h | h
      · have : k' = k := by rw [← hk]; exact (Prod.mk.inj h).1
        exact ⟨v, this ▸ List.mem_cons_self⟩
      · exact ⟨v', List.mem_cons_of_mem _ h⟩
    · simp only [hk, if_false]
      rcases List.mem_cons.mp h with h | h
      · exact ⟨v', h ▸ List.mem_cons_self⟩
      · obtain ⟨w, hw⟩ := setVal_keeps k v k' r ⟨v', h⟩
        exact ⟨w, List.mem_cons_of_mem _ hw⟩

/-- a pair already present with the value being written stays -/
theorem setVal_keeps_pair (k k' : String) (v : Val) : ∀ (m : List (String × Val)), (k', v) ∈ m → (k', v) ∈ setVal k v m
  | [], h => by simp at h
  | (k0, v0) :: r, h => by
    unfold setVal
    by_cases hk : k0 = k
    · simp only [hk, if_true]
      rcases List.mem_cons.mp h with h | h
      · have : k' = k := by rw [← hk]; exact (Prod.mk.inj h).1
        exact this ▸ List.mem_cons_self
      · exact List.mem_cons_of_mem _ h
    · simp only [hk, if_false]
      rcases List.mem_cons.mp h with h | h
      · exact h ▸ List.mem_cons_self
      · exact List.mem_cons_of_mem _ (setVal_keeps_pair k k' v r h)

theorem mem_writeAll {v : Val} : ∀ {ks : List String} {m : List (String × Val)} {kv : String × Val},
    kv ∈ writeAll v ks m → (kv.1 ∈ ks ∧ kv.2 = v) ∨ kv ∈ m
  | [], _, _, h => Or.inr h
  | k :: r, m, kv, h => by
    unfold writeAll at h
    rcases mem_writeAll h with ⟨h1, h2⟩ | h
    · exact Or.inl ⟨List.mem_cons_of_mem _ h1, h2⟩
    · rcases mem_setVal h with h | h
      · exact Or.inl ⟨by rw [h]; exact List.mem_cons_self, by rw [h]⟩
      · exact Or.inr h

theorem writeAll_keeps_pair (v : Val) (k' : String) : ∀ (ks : List String) (m : List (String × Val)),
    (k', v) ∈ m → (k', v) ∈ writeAll v ks m
  | [], _, h => h
  | k :: r, m, h => by
    unfold writeAll
    exact writeAll_keeps_pair v k' r _ (setVal_keeps_pair k k' v m h)

/-- every position of the list holds the value afterwards -/
theorem writeAll_self (v : Val) : ∀ (ks : List String) (m : List (String × Val)), ∀ k ∈ ks, (k, v) ∈ writeAll v ks m
  | [], _, _, h => by simp at h
  | k0 :: r, m, k, h => by
    unfold writeAll
    rcases List.mem_cons.mp h with h | h
    · subst h
      exact writeAll_keeps_pair v k r _ (setVal_self k v m)
    · exact writeAll_self v r _ k h

theorem writeAll_keeps (v : Val) (k' : String) : ∀ (ks : List String) (m : List (String × Val)),
    (∃ v', (k', v') ∈ m) → ∃ v', (k', v') ∈ writeAll v ks m
  | [], _, h => h
  | k :: r, m, h => by
    unfold writeAll
    exact writeAll_keeps v k' r _ (setVal_keeps k v k' m h)

/-! ### `set_target_value`: positions written below a list of specs -/

theorem mem_listSlots_of (tdest ck : String) : ∀ (items : List (Option (List String))) (j0 j : Nat) (it : Option (List String)),
    items[j]? = some it → itemHas ck it = true → itemKey tdest (j0 + j) ck ∈ listSlots tdest ck j0 items
  | [], _, _, _, h, _ => by simp at h
  | x :: r, j0, 0, it, h, hh => by
    simp only [List.getElem?_cons_zero, Option.some.injEq] at h
    subst h
    simp [listSlots, hh]
  | x :: r, j0, j + 1, it, h, hh => by
    simp only [List.getElem?_cons_succ] at h
    have := mem_listSlots_of tdest ck r (j0 + 1) j it h hh
    unfold listSlots
    apply List.mem_append_right
    have e : j0 + 1 + j = j0 + (j + 1) := by omega
    rw [e] at this
    exact this

theorem listSlots_mem (tdest ck : String) : ∀ (items : List (Option (List String))) (j0 : Nat) (k : String),
    k ∈ listSlots tdest ck j0 items → ∃ j it, items[j]? = some it ∧ itemHas ck it = true ∧ k = itemKey tdest (j0 + j) ck
  | [], _, _, h => by simp [listSlots] at h
  | x :: r, j0, k, h => by
    unfold listSlots at h
    rcases List.mem_append.mp h with h | h
    · by_cases hx : itemHas ck x = true
      · simp only [hx, if_true, List.mem_singleton] at h
        exact ⟨0, x, by simp, hx, by simpa using h⟩
      · simp [hx] at h
    · obtain ⟨j, it, h1, h2, h3⟩ := listSlots_mem tdest ck r (j0 + 1) k h
      refine ⟨j + 1, it, by simpa using h1, h2, ?_⟩
      have e : j0 + 1 + j = j0 + (j + 1) := by omega
      rw [← e]; exact h3

theorem keyMatchesL_append (d t x : List Char) (h : keyMatchesL d t = true) : keyMatchesL d (t ++ '.' :: x) = true := by
  unfold keyMatchesL at h ⊢
  simp only [Bool.or_eq_true, beq_iff_eq] at h ⊢
  right
  rcases h with h | h
  · subst h
    rw [List.isPrefixOf_iff_prefix]
    exact ⟨x, by simp⟩
  · rw [List.isPrefixOf_iff_prefix] at h ⊢
    obtain ⟨y, hy⟩ := h
    exact ⟨y ++ '.' :: x, by rw [← hy]; simp⟩

theorem feeds_itemKey (d tdest ck : String) (j : Nat) (h : feeds d tdest = true) : feeds d (itemKey tdest j ck) = true := by
  unfold feeds keyMatches at h ⊢
  have : (itemKey tdest j ck).toList = tdest.toList ++ '.' :: ('#' :: (toString j).toList ++ '.' :: ck.toList) := by
    simp [itemKey, String.toList_append]
  rw [this]
  exact keyMatchesL_append _ _ _ h


variable (F : String → List Val → Val) (links : List FLink)

/-! ### the log and the built list change only in `construct` -/

theorem applyOne_frame (target : Option String) (cfg : Cfg) (i : Nat) :
    (applyOne F links target cfg i).built = cfg.built ∧ (applyOne F links target cfg i).log = cfg.log := by
  unfold applyOne
  cases links[i]? with
  | none => exact ⟨rfl, rfl⟩
  | some l => by_cases h : wanted target l <;> simp [h]

theorem foldl_applyOne_frame (target : Option String) : ∀ (pend : List Nat) (cfg : Cfg),
    (pend.foldl (applyOne F links target) cfg).built = cfg.built ∧
    (pend.foldl (applyOne F links target) cfg).log = cfg.log
  | [], _ => ⟨rfl, rfl⟩
  | i :: r, cfg => by
    simp only [List.foldl_cons]
    obtain ⟨h1, h2⟩ := foldl_applyOne_frame target r (applyOne F links target cfg i)
    obtain ⟨h3, h4⟩ := applyOne_frame F links target cfg i
    exact ⟨h1.trans h3, h2.trans h4⟩

theorem applyLinks_frame (order : List String) (target : Option String) (cfg : Cfg) :
    (applyLinks F links order target cfg).built = cfg.built ∧ (applyLinks F links order target cfg).log = cfg.log := by
  unfold applyLinks
  by_cases he : links.isEmpty
  · simp [he]
  · simp only [he, Bool.false_eq_true, if_false]
    cases target with
    | none => exact foldl_applyOne_frame F links none _ cfg
    | some d => exact foldl_applyOne_frame F links (some d) _ cfg

/-- constructor log of the component loop: exactly the class components, in sequence order -/
theorem icLoop_log : ∀ (comps : List (String × Bool)) (cfg : Cfg),
    (icLoop F links comps cfg).log.map (·.1) = cfg.log.map (·.1) ++ (comps.filter (·.2)).map (·.1)
  | [], cfg => by simp [icLoop]
  | (d, isC) :: r, cfg => by
    unfold icLoop
    rw [icLoop_log r]
    have hf := (applyLinks_frame F links [] (some d) cfg).2
    cases isC with
    | false => simp [hf]
    | true => simp [construct, hf]

theorem icLoop_built : ∀ (comps : List (String × Bool)) (cfg : Cfg),
    (icLoop F links comps cfg).built = cfg.built ++ (comps.filter (·.2)).map (·.1)
  | [], cfg => by simp [icLoop]
  | (d, isC) :: r, cfg => by
    unfold icLoop
    rw [icLoop_built r]
    have hf := (applyLinks_frame F links [] (some d) cfg).1
    cases isC with
    | false => simp [hf]
    | true => simp [construct, hf]

/-! ### values -/

theorem readSource_built (cfg : Cfg) (s : String × Option String) (h : s.1 ∈ cfg.built) :
    readSource cfg s = goodSource s := by
  unfold readSource goodSource
  have : cfg.built.contains s.1 = true := by simpa using h
  cases s.2 <;> simp [h]

theorem linkValue_good (cfg : Cfg) (l : FLink) (h : ∀ s ∈ l.sources, s.1 ∈ cfg.built) :
    linkValue F cfg l = goodValue F l := by
  unfold linkValue goodValue
  congr 1
  exact List.map_congr_left (fun s hs => readSource_built cfg s (h s hs))

/-- invariant of the component loop -/
structure Good (cfg : Cfg) : Prop where
  vals : ∀ kv ∈ cfg.vals, ∃ l ∈ links, kv.1 ∈ targetSlots l ∧ kv.2 = goodValue F l
  log : ∀ e ∈ cfg.log, ∀ kv ∈ e.2, ∃ l ∈ links, kv.1 ∈ targetSlots l ∧ kv.2 = goodValue F l
  app : ∀ i ∈ cfg.applied, ∀ l, links[i]? = some l → ∀ k ∈ targetSlots l, ∃ v, (k, v) ∈ cfg.vals

theorem Good.parsed : Good F links Cfg.parsed :=
  ⟨by intro kv h; simp [Cfg.parsed] at h, by intro e h; simp [Cfg.parsed] at h, by intro i h; simp [Cfg.parsed] at h⟩

theorem applyOne_good (d : String) (cfg : Cfg) (i : Nat) (hg : Good F links cfg) (hr : ReadyAt links cfg.built d) :
    Good F links (applyOne F links (some d) cfg i) ∧
    (∀ x ∈ cfg.applied, x ∈ (applyOne F links (some d) cfg i).applied) ∧
    (∀ l, links[i]? = some l → feeds d l.target = true → i ∈ (applyOne F links (some d) cfg i).applied) := by
  unfold applyOne
  cases hl : links[i]? with
  | none => exact ⟨hg, fun x hx => hx, by intro l h; cases h⟩
  | some l =>
    have hmem : l ∈ links := List.mem_of_getElem? hl
    by_cases hw : wanted (some d) l
    · have hfeeds : feeds d l.target = true := hw
      have hval : linkValue F cfg l = goodValue F l := linkValue_good F cfg l (hr l hmem hfeeds)
      simp only [hw, if_true]
      refine ⟨⟨?_, hg.log, ?_⟩, fun x hx => List.mem_append_left _ hx, fun _ _ _ => List.mem_append_right _ (by simp)⟩
      · intro kv hkv
        rcases mem_writeAll hkv with ⟨h1, h2⟩ | h
        · exact ⟨l, hmem, h1, by rw [h2, hval]⟩
        · exact hg.vals kv h
      · intro j hj l' hl' k hk
        rcases List.mem_append.mp hj with hj | hj
        · exact writeAll_keeps _ _ _ _ (hg.app j hj l' hl' k hk)
        · simp at hj
          subst hj
          rw [hl] at hl'
          cases hl'
          exact ⟨_, writeAll_self _ _ _ k hk⟩
    · have hw' : wanted (some d) l = false := by simpa using hw
      simp only [hw', Bool.false_eq_true, if_false]
      refine ⟨hg, fun x hx => hx, ?_⟩
      intro l' hl' hf
      cases hl'
      exact absurd hf (by simpa [wanted] using hw)

theorem foldl_applyOne_good (d : String) : ∀ (pend : List Nat) (cfg : Cfg), Good F links cfg → ReadyAt links cfg.built d →
    Good F links (pend.foldl (applyOne F links (some d)) cfg) ∧
    (∀ x ∈ cfg.applied, x ∈ (pend.foldl (applyOne F links (some d)) cfg).applied) ∧
    (∀ i ∈ pend, ∀ l, links[i]? = some l → feeds d l.target = true → i ∈ (pend.foldl (applyOne F links (some d)) cfg).applied)
  | [], cfg, hg, _ => ⟨hg, fun _ hx => hx, by intro i hi; simp at hi⟩
  | i :: r, cfg, hg, hr => by
    simp only [List.foldl_cons]
    obtain ⟨g1, m1, a1⟩ := applyOne_good F links d cfg i hg hr
    have hb : (applyOne F links (some d) cfg i).built = cfg.built := (applyOne_frame F links (some d) cfg i).1
    obtain ⟨g2, m2, a2⟩ := foldl_applyOne_good d r (applyOne F links (some d) cfg i) g1 (by rw [hb]; exact hr)
    refine ⟨g2, fun x hx => m2 x (m1 x hx), ?_⟩
    intro j hj l hl hf
    rcases List.mem_cons.mp hj with rfl | hj
    · exact m2 _ (a1 l hl hf)
    · exact a2 j hj l hl hf

/-- `apply_instantiation_links(target=d)` with all sources of `d`'s links instantiated: values stay good and every
    link feeding `d` has its key set afterwards -/
theorem applyLinks_good (d : String) (cfg : Cfg) (hg : Good F links cfg) (hr : ReadyAt links cfg.built d) :
    Good F links (applyLinks F links [] (some d) cfg) ∧
    ∀ l ∈ links, feeds d l.target = true → ∀ k ∈ targetSlots l,
      ∃ v, (k, v) ∈ (applyLinks F links [] (some d) cfg).vals := by
  unfold applyLinks
  by_cases he : links.isEmpty
  · have : links = [] := by simpa using he
    subst this
    exact ⟨by simpa using hg, by intro l hl; simp at hl⟩
  · simp only [he, Bool.false_eq_true, if_false]
    obtain ⟨g, m, a⟩ := foldl_applyOne_good F links d (pendingLinks links cfg.applied) cfg hg hr
    refine ⟨g, ?_⟩
    intro l hl hf
    obtain ⟨i, hi⟩ := List.mem_iff_getElem?.mp hl
    have hlt : i < links.length := (List.getElem?_eq_some_iff.mp hi).1
    have hin : i ∈ ((pendingLinks links cfg.applied).foldl (applyOne F links (some d)) cfg).applied := by
      by_cases hap : i ∈ cfg.applied
      · exact m i hap
      · apply a i _ l hi hf
        unfold pendingLinks
        simp [List.mem_filter, hlt, hap]
    exact g.app i hin l hi

theorem construct_good (d : String) (cfg : Cfg) (hg : Good F links cfg) : Good F links (construct d cfg) := by
  refine ⟨hg.vals, ?_, hg.app⟩
  intro e he kv hkv
  simp only [construct, List.mem_append, List.mem_singleton] at he
  rcases he with he | he
  · exact hg.log e he kv hkv
  · subst he
    exact hg.vals kv (List.mem_filter.mp hkv).1

/-- the component loop under `SourcesReady` -/
theorem icLoop_good : ∀ (comps : List (String × Bool)) (cfg : Cfg), Good F links cfg → SourcesReady links cfg.built comps →
    Good F links (icLoop F links comps cfg) ∧
    (∀ e ∈ cfg.log, e ∈ (icLoop F links comps cfg).log) ∧
    (∀ d, (d, true) ∈ comps → ∃ e ∈ (icLoop F links comps cfg).log, e.1 = d ∧
        ∀ l ∈ links, feeds d l.target = true → ∀ k ∈ targetSlots l, feeds d k = true → ∃ v, (k, v) ∈ e.2)
  | [], cfg, hg, _ => ⟨hg, fun _ h => h, by intro d h; simp at h⟩
  | (d, isC) :: r, cfg, hg, hs => by
    obtain ⟨hr, hrest⟩ := hs
    obtain ⟨g1, p1⟩ := applyLinks_good F links d cfg hg hr
    have hb : (applyLinks F links [] (some d) cfg).built = cfg.built := (applyLinks_frame F links [] (some d) cfg).1
    have hl : (applyLinks F links [] (some d) cfg).log = cfg.log := (applyLinks_frame F links [] (some d) cfg).2
    unfold icLoop
    cases isC with
    | false =>
      simp only [Bool.false_eq_true, if_false] at hrest ⊢
      obtain ⟨g2, k2, e2⟩ := icLoop_good r _ g1 (by rw [hb]; exact hrest)
      refine ⟨g2, fun e he => k2 e (by rw [hl]; exact he), ?_⟩
      intro d' hd'
      rcases List.mem_cons.mp hd' with h | h
      · cases h
      · exact e2 d' h
    | true =>
      simp only [if_true] at hrest ⊢
      have g1' := construct_good F links d _ g1
      obtain ⟨g2, k2, e2⟩ := icLoop_good r (construct d (applyLinks F links [] (some d) cfg)) g1'
        (by simp only [construct, hb]; exact hrest)
      refine ⟨g2, ?_, ?_⟩
      · intro e he
        apply k2
        simp only [construct, List.mem_append, hl]
        exact Or.inl he
      · intro d' hd'
        rcases List.mem_cons.mp hd' with h | h
        · cases h
          refine ⟨(d, (applyLinks F links [] (some d) cfg).vals.filter (fun kv => feeds d kv.1)), k2 _ (by simp [construct]), rfl, ?_⟩
          intro l hl' hf k hk hfk
          obtain ⟨v, hv⟩ := p1 l hl' hf k hk
          exact ⟨v, List.mem_filter.mpr ⟨hv, hfk⟩⟩
        · exact e2 d' h

/-! ### sessions -/

theorem session_no_writes (order : List String) (comps : List (String × Bool)) :
    ∀ (carried : List Nat) (calls : List (Cfg × Option Nat)),
      session [] F links order comps carried calls = calls.map (fun c => c.1.applied)
  | _, [] => rfl
  | carried, (cfg, fail) :: rest => by
    simp only [session, startCfg, List.isEmpty_nil, if_true, List.map_cons]
    rw [session_no_writes order comps carried rest]

end Jap.Graph

/-! ### from the order theorems to `SourcesReady` -/
namespace Jap.Graph

/-- when exactly the key `w` matches `c`, the rank of `c` is the position of `w` -/
theorem rank_eq_idxOf_owner {κ γ : Type} [DecidableEq κ] (m : κ → γ → Bool) (c : γ) (w : κ) : ∀ (order : List κ),
    (∀ k ∈ order, m k c = true ↔ k = w) → rank m order c = order.idxOf w
  | [], _ => rfl
  | k :: r, h => by
    have hk := h k List.mem_cons_self
    have hr := rank_eq_idxOf_owner m c w r (fun k' hk' => h k' (List.mem_cons_of_mem _ hk'))
    by_cases hkw : k = w
    · have hm : m k c = true := hk.mpr hkw
      subst hkw
      simp [rank, hm]
    · have : m k c = false := by
        cases hm : m k c with
        | false => rfl
        | true => exact absurd (hk.mp hm) hkw
      have hb : (k == w) = false := by simpa using hkw
      simp [rank, this, List.idxOf_cons, hb, hr]

/-- components are placed along the order of their owner keys -/
theorem owned_positions (es : List (String × String)) (o seq0 : List String) (owner : String → String)
    (h : topo es = .ok o) (hown : ∀ k ∈ o, ∀ c ∈ seq0, keyMatches k c = true ↔ k = owner c) :
    ∀ e ∈ es, ∀ s ∈ seq0, ∀ c ∈ seq0, owner s = e.1 → owner c = e.2 →
      (reorder id o seq0).idxOf s < (reorder id o seq0).idxOf c := by
  intro e he s hs c hc hos hoc
  have hfwd := (topo_ok_names es o h).2 e he
  have hr : reorder id o seq0 = reorderRec (fun k c => keyMatches k (id c)) o seq0 := reorderBy_eq _ _ _
  rw [hr]
  have hperm := reorderRec_perm (fun k c => keyMatches k (id c)) o seq0
  have hrank : ∀ x ∈ seq0, rank (fun k c => keyMatches k (id c)) o x = o.idxOf (owner x) := by
    intro x hx
    exact rank_eq_idxOf_owner _ x (owner x) o (fun k hk => hown k hk x hx)
  apply idxOf_lt_of_sorted (fun c => rank (fun k c => keyMatches k (id c)) o c) _ _ _
    (reorderRec_sorted _ o seq0) (hperm.mem_iff.mpr hs) (hperm.mem_iff.mpr hc)
  show rank _ o s < rank _ o c
  rw [hrank s hs, hrank c hc, hos, hoc]
  exact hfwd

theorem pair_unique {α β : Type} : ∀ (l : List (α × β)) (a : α) (b b' : β), (l.map (·.1)).Nodup →
    (a, b) ∈ l → (a, b') ∈ l → b = b'
  | [], _, _, _, _, h, _ => by simp at h
  | x :: r, a, b, b', hnd, h1, h2 => by
    simp only [List.map_cons, List.nodup_cons] at hnd
    rcases List.mem_cons.mp h1 with h1 | h1 <;> rcases List.mem_cons.mp h2 with h2 | h2
    · rw [← h1] at h2; exact ((Prod.mk.inj h2).2).symm ▸ rfl
    · exact absurd (List.mem_map.mpr ⟨(a, b'), h2, rfl⟩) (by rw [← h1] at hnd; exact hnd.1)
    · exact absurd (List.mem_map.mpr ⟨(a, b), h1, rfl⟩) (by rw [← h2] at hnd; exact hnd.1)
    · exact pair_unique r a b b' hnd.2 h1 h2

theorem sourcesReady_of_positions (links : List FLink) (comps : List (String × Bool))
    (hnd : (comps.map (·.1)).Nodup)
    (hpos : ∀ l ∈ links, ∀ c ∈ comps, feeds c.1 l.target = true → ∀ s ∈ l.sources,
      (s.1, true) ∈ comps ∧ (comps.map (·.1)).idxOf s.1 < (comps.map (·.1)).idxOf c.1) :
    SourcesReady links [] comps := by
  have key : ∀ (post pre : List (String × Bool)), comps = pre ++ post →
      SourcesReady links ((pre.filter (·.2)).map (·.1)) post := by
    intro post
    induction post with
    | nil => intro _ _; trivial
    | cons x r ih =>
      intro pre hc
      obtain ⟨d, isC⟩ := x
      refine ⟨?_, ?_⟩
      · intro l hl hf s hs
        have hdm : (d, isC) ∈ comps := by rw [hc]; simp
        obtain ⟨hmem, hlt⟩ := hpos l hl (d, isC) hdm hf s hs
        have hsplit : comps.map (·.1) = pre.map (·.1) ++ d :: r.map (·.1) := by rw [hc]; simp
        have hidx := (idx_split hnd hsplit).1
        simp only at hlt
        rw [hidx] at hlt
        have hin : s.1 ∈ pre.map (·.1) := by
          apply Classical.byContradiction
          intro hn
          rw [hsplit, List.idxOf_append, if_neg hn] at hlt
          omega
        obtain ⟨y, hy, hy1⟩ := List.mem_map.mp hin
        obtain ⟨y1, y2⟩ := y
        simp only at hy1
        subst hy1
        have hyc : (s.1, y2) ∈ comps := by rw [hc]; exact List.mem_append_left _ hy
        have : y2 = true := pair_unique comps s.1 y2 true hnd hyc hmem
        subst this
        exact List.mem_map.mpr ⟨(s.1, true), List.mem_filter.mpr ⟨hy, rfl⟩, rfl⟩
      · have := ih (pre ++ [(d, isC)]) (by rw [hc]; simp)
        cases isC with
        | false => simpa [List.filter_append] using this
        | true => simpa [List.filter_append] using this
  simpa using key comps [] rfl

/-- acyclic link set with owned keys ⇒ the sources are ready along the component sequence the code walks -/
theorem sourcesReady_of_order (links : List FLink) (setOrder dests seq : List String)
    (isClass : String → Bool) (owner : String → String)
    (h : componentOrder (links.map FLink.toLink) setOrder dests = .ok seq)
    (hnd : dests.Nodup)
    (hown : ∀ k ∈ (build (instantiationEdges (links.map FLink.toLink) setOrder)).nodes, ∀ c ∈ dests,
      keyMatches k c = true ↔ k = owner c)
    (hsrc : ∀ l ∈ links, ∀ s ∈ l.sources, s.1 ∈ dests ∧ isClass s.1 = true ∧ owner s.1 = s.1)
    (hcons : ∀ l ∈ links, ∀ c ∈ dests, feeds c l.target = true → owner c = targetNode l.target) :
    SourcesReady links [] (seq.map fun d => (d, isClass d)) := by
  cases links with
  | nil =>
    -- no links: nothing to be ready for
    have triv : ∀ (built : List String) (cs : List (String × Bool)), SourcesReady [] built cs := by
      intro built cs
      induction cs generalizing built with
      | nil => trivial
      | cons x r ih => obtain ⟨d, b⟩ := x; exact ⟨by intro l hl; simp at hl, ih _⟩
    exact triv _ _
  | cons l0 lrest =>
    unfold componentOrder at h
    cases ho : instantiationOrder ((l0 :: lrest).map FLink.toLink) setOrder with
    | error e => rw [ho] at h; simp at h
    | ok order =>
      rw [ho] at h
      simp only [Except.ok.injEq] at h
      have ho' : topo (instantiationEdges ((l0 :: lrest).map FLink.toLink) setOrder) = .ok order := by
        simpa [instantiationOrder] using ho
      have hpermN := (topo_ok_names _ order ho').1
      have hseqPerm : seq.Perm dests := by
        rw [← h]
        have h1 : reorder id order (sortDesc depth dests) = reorderRec (fun k c => keyMatches k (id c)) order (sortDesc depth dests) :=
          reorderBy_eq _ _ _
        rw [h1]
        refine (reorderRec_perm _ order _).trans ?_
        exact sortDesc_perm depth dests
      have hmemS : ∀ x, x ∈ sortDesc depth dests ↔ x ∈ dests := fun x => mem_sortDesc depth x dests
      have hmap : (seq.map fun d => (d, isClass d)).map (·.1) = seq := by simp [List.map_map, Function.comp_def]
      apply sourcesReady_of_positions
      · rw [hmap]; exact hseqPerm.nodup_iff.mpr hnd
      · intro l hl c hc hf s hs
        obtain ⟨cd, hcd, rfl⟩ := List.mem_map.mp hc
        have hcd' : cd ∈ dests := hseqPerm.mem_iff.mp hcd
        obtain ⟨hsd, hsc, hso⟩ := hsrc l hl s hs
        have hsseq : s.1 ∈ seq := hseqPerm.mem_iff.mpr hsd
        refine ⟨List.mem_map.mpr ⟨s.1, hsseq, by rw [hsc]⟩, ?_⟩
        rw [hmap]
        have hedge : (s.1, targetNode l.target) ∈ instantiationEdges ((l0 :: lrest).map FLink.toLink) setOrder := by
          apply List.mem_append_left
          exact mem_linkEdges s.1 _ (FLink.toLink l) (List.mem_map.mpr ⟨l, hl, rfl⟩)
            (List.mem_map.mpr ⟨s, hs, rfl⟩)
        have := owned_positions _ order (sortDesc depth dests) owner ho'
          (fun k hk c' hc' => hown k (hpermN.mem_iff.mp hk) c' ((hmemS c').mp hc'))
          (s.1, targetNode l.target) hedge s.1 ((hmemS _).mpr hsd) cd ((hmemS _).mpr hcd') hso (hcons l hl cd hcd' hf)
        rw [h] at this
        exact this

/-- the walked sequence is a permutation of the parser's components, hence duplicate-free -/
theorem sourcesReady_seq_nodup (links : List FLink) (setOrder dests seq : List String)
    (h : componentOrder (links.map FLink.toLink) setOrder dests = .ok seq) (hnd : dests.Nodup) : seq.Nodup := by
  unfold componentOrder at h
  cases ho : instantiationOrder (links.map FLink.toLink) setOrder with
  | error e => rw [ho] at h; simp at h
  | ok order =>
    rw [ho] at h
    simp only [Except.ok.injEq] at h
    rw [← h]
    have h1 : reorder id order (sortDesc depth dests) = reorderRec (fun k c => keyMatches k (id c)) order (sortDesc depth dests) :=
      reorderBy_eq _ _ _
    rw [h1]
    exact (((reorderRec_perm _ order _).trans (sortDesc_perm depth dests)).nodup_iff).mpr hnd

end Jap.Graph

import Jap.Core.PStateCtx
/-! Lemmas about bracketed code (Core/PStateCtx.lean): what is definitely written only grows, restored locations are
left at their default by every disciplined piece of code whatever way it ends, and the answer of disciplined code
is the same from any two states that agree on the restored locations. -/
namespace Jap.PState.Ctx

theorem Env.set_same (e : Env) (x : String) (v : Nat) : (e.set x v) x = v := by simp [Env.set]
theorem Env.set_other (e : Env) {x y : String} (v : Nat) (h : y ≠ x) : (e.set x v) y = e y := by simp [Env.set, h]

theorem mem_of_contains {l : List String} {x : String} (h : l.contains x = true) : x ∈ l := by
  simpa using h
theorem contains_of_mem {l : List String} {x : String} (h : x ∈ l) : l.contains x = true := by
  simpa using h

/-- what was definitely written before is definitely written afterwards -/
theorem wout_mono : ∀ (P : Prog) (W : List String) (x : String), x ∈ W → x ∈ wout W P
  | .skip, _, _, h => h
  | .raise, _, _, h => h
  | .read _, _, _, h => h
  | .set _ _, _, _, h => List.mem_cons_of_mem _ h
  | .seq a b, W, x, h => wout_mono b _ x (wout_mono a W x h)
  | .tryCatch _ _, _, _, h => h
  | .tryFinally _ f, W, x, h => wout_mono f W x h
  | .bracket _ y _ body, W, x, h => by
    have hb : x ∈ wout (y :: W) body := wout_mono body _ x (List.mem_cons_of_mem _ h)
    unfold wout
    by_cases hc : W.contains y = true
    · rw [if_pos hc]; exact hb
    · rw [if_neg hc]
      refine List.mem_filter.mpr ⟨hb, ?_⟩
      have : x ≠ y := fun hxy => hc (by subst hxy; exact contains_of_mem h)
      simpa using this
  | .scoped _ _, _, _, h => h
  | .ifEq _ _ _ _, _, _, h => h

/-- a restored location outside every open `scoped` region is left as it was, or at its default —
    by normal completion and by an exception raised anywhere -/
theorem run_keeps (R : List String) : ∀ (P : Prog) (S W : List String) (e : Env), ok R S W P = true →
    ∀ y, y ∈ R → y ∉ S → (run P e).env y = e y ∨ (run P e).env y = 0
  | .skip, _, _, _, _, _, _, _ => Or.inl rfl
  | .raise, _, _, _, _, _, _, _ => Or.inl rfl
  | .read _, _, _, _, _, _, _, _ => Or.inl rfl
  | .set x v, S, _, e, h, y, hy, hS => by
    by_cases hyx : y = x
    · subst hyx
      simp only [ok, Bool.or_eq_true, Bool.not_eq_true', beq_iff_eq] at h
      rcases h with (h | h) | h
      · have := contains_of_mem hy; rw [this] at h; cases h
      · exact absurd (mem_of_contains h) hS
      · subst h; exact Or.inr (Env.set_same e y 0)
    · exact Or.inl (Env.set_other e v hyx)
  | .seq a b, S, W, e, h, y, hy, hS => by
    simp only [ok, Bool.and_eq_true] at h
    have ha := run_keeps R a S W e h.1 y hy hS
    simp only [run]
    by_cases hr : (run a e).raised = true
    · rw [if_pos hr]; exact ha
    · rw [if_neg hr]
      have hb := run_keeps R b S (wout W a) (run a e).env h.2 y hy hS
      rcases hb with hb | hb
      · rcases ha with ha | ha
        · exact Or.inl (hb.trans ha)
        · exact Or.inr (hb.trans ha)
      · exact Or.inr hb
  | .tryCatch a c, S, W, e, h, y, hy, hS => by
    simp only [ok, Bool.and_eq_true] at h
    have ha := run_keeps R a S W e h.1 y hy hS
    simp only [run]
    by_cases hr : (run a e).raised = true
    · rw [if_pos hr]
      have hb := run_keeps R c S W (run a e).env h.2 y hy hS
      rcases hb with hb | hb
      · rcases ha with ha | ha
        · exact Or.inl (hb.trans ha)
        · exact Or.inr (hb.trans ha)
      · exact Or.inr hb
    · rw [if_neg hr]; exact ha
  | .tryFinally a f, S, W, e, h, y, hy, hS => by
    simp only [ok, Bool.and_eq_true] at h
    have ha := run_keeps R a S W e h.1 y hy hS
    have hb := run_keeps R f S W (run a e).env h.2 y hy hS
    simp only [run]
    rcases hb with hb | hb
    · rcases ha with ha | ha
      · exact Or.inl (hb.trans ha)
      · exact Or.inr (hb.trans ha)
    · exact Or.inr hb
  | .bracket fin x v body, S, W, e, h, y, hy, hS => by
    simp only [ok, Bool.and_eq_true] at h
    have hb := run_keeps R body S (x :: W) (e.set x v) h.2 y hy hS
    simp only [run]
    by_cases hc : (fin || !(run body (e.set x v)).raised) = true
    · rw [if_pos hc]
      by_cases hyx : y = x
      · subst hyx; exact Or.inl (Env.set_same _ _ _)
      · show ((run body (e.set x v)).env.set x (e x)) y = e y ∨ ((run body (e.set x v)).env.set x (e x)) y = 0
        rw [Env.set_other _ _ hyx]
        rw [Env.set_other _ _ hyx] at hb
        exact hb
    · rw [if_neg hc]
      have hfin : fin = false := by
        cases fin
        · rfl
        · simp at hc
      have hxR : R.contains x = false := by
        have := h.1
        rw [hfin] at this
        simpa using this
      have hyx : y ≠ x := by
        intro hyx
        subst hyx
        rw [contains_of_mem hy] at hxR
        cases hxR
      rw [Env.set_other _ _ hyx] at hb
      exact hb
  | .scoped x body, S, W, e, h, y, hy, hS => by
    simp only [ok, Bool.and_eq_true] at h
    simp only [run]
    by_cases hyx : y = x
    · subst hyx; exact Or.inr (Env.set_same _ _ _)
    · show ((run body e).env.set x 0) y = e y ∨ ((run body e).env.set x 0) y = 0
      rw [Env.set_other _ _ hyx]
      exact run_keeps R body (x :: S) W e h.2 y hy (by
        intro hm
        rcases List.mem_cons.mp hm with hm | hm
        · exact hyx hm
        · exact hS hm)
  | .ifEq x v t f, S, W, e, h, y, hy, hS => by
    simp only [ok, Bool.and_eq_true] at h
    simp only [run]
    by_cases hc : e x = v
    · rw [if_pos hc]; exact run_keeps R t S W e h.1.2 y hy hS
    · rw [if_neg hc]; exact run_keeps R f S W e h.2 y hy hS

/-- two states that agree on the restored and the definitely written locations -/
def Agree (R W : List String) (e e' : Env) : Prop := ∀ x, (x ∈ R ∨ x ∈ W) → e x = e' x

theorem Agree.set {R W : List String} {e e' : Env} (h : Agree R W e e') (x : String) (v : Nat) :
    Agree R (x :: W) (e.set x v) (e'.set x v) := by
  intro y hy
  by_cases hyx : y = x
  · subst hyx; rw [Env.set_same, Env.set_same]
  · rw [Env.set_other _ _ hyx, Env.set_other _ _ hyx]
    rcases hy with hy | hy
    · exact h y (Or.inl hy)
    · rcases List.mem_cons.mp hy with hy | hy
      · exact absurd hy hyx
      · exact h y (Or.inr hy)

/-- what the simulation gives for one piece of code -/
structure Sim (R W : List String) (P : Prog) (e e' : Env) : Prop where
  raised : (run P e).raised = (run P e').raised
  reads : (run P e).reads = (run P e').reads
  agree : Agree R W (run P e).env (run P e').env
  normal : (run P e).raised = false → ∀ x, x ∈ wout W P → (run P e).env x = (run P e').env x

/-- disciplined code cannot tell two states apart that agree on the restored and the definitely written locations:
    same outcome, same values read, and the states it leaves agree again (on more, when it completes normally) -/
theorem run_sim (R : List String) : ∀ (P : Prog) (S W : List String) (e e' : Env), ok R S W P = true →
    Agree R W e e' → Sim R W P e e'
  | .skip, _, _, _, _, _, hA => ⟨rfl, rfl, hA, fun _ x hx => hA x (Or.inr hx)⟩
  | .raise, _, _, _, _, _, hA => ⟨rfl, rfl, hA, fun _ x hx => hA x (Or.inr hx)⟩
  | .read x, _, W, e, e', h, hA => by
    have hx : e x = e' x := by
      simp only [ok, Bool.or_eq_true] at h
      rcases h with h | h
      · exact hA x (Or.inl (mem_of_contains h))
      · exact hA x (Or.inr (mem_of_contains h))
    exact ⟨rfl, by simp only [run, hx], hA, fun _ y hy => hA y (Or.inr hy)⟩
  | .set x v, _, W, e, e', _, hA => by
    have hS := hA.set x v
    refine ⟨rfl, rfl, fun y hy => ?_, fun _ y hy => hS y (Or.inr hy)⟩
    rcases hy with hy | hy
    · exact hS y (Or.inl hy)
    · exact hS y (Or.inr (List.mem_cons_of_mem _ hy))
  | .seq a b, S, W, e, e', h, hA => by
    simp only [ok, Bool.and_eq_true] at h
    have ha := run_sim R a S W e e' h.1 hA
    by_cases hr : (run a e).raised = true
    · have hr' : (run a e').raised = true := ha.raised ▸ hr
      refine ⟨?_, ?_, ?_, ?_⟩
      · simp only [run, if_pos hr, if_pos hr']; exact ha.raised
      · simp only [run, if_pos hr, if_pos hr']; exact ha.reads
      · simp only [run, if_pos hr, if_pos hr']; exact ha.agree
      · simp only [run, if_pos hr]; intro hn; rw [hr] at hn; cases hn
    · have hr' : ¬ (run a e').raised = true := ha.raised ▸ hr
      have hf : (run a e).raised = false := by simpa using hr
      have hA2 : Agree R (wout W a) (run a e).env (run a e').env := by
        intro x hx
        rcases hx with hx | hx
        · exact ha.agree x (Or.inl hx)
        · exact ha.normal hf x hx
      have hb := run_sim R b S (wout W a) (run a e).env (run a e').env h.2 hA2
      refine ⟨?_, ?_, ?_, ?_⟩
      · simp only [run, if_neg hr, if_neg hr']; exact hb.raised
      · simp only [run, if_neg hr, if_neg hr']; rw [ha.reads, hb.reads]
      · simp only [run, if_neg hr, if_neg hr']
        intro x hx
        rcases hx with hx | hx
        · exact hb.agree x (Or.inl hx)
        · exact hb.agree x (Or.inr (wout_mono a W x hx))
      · simp only [run, if_neg hr, if_neg hr']
        intro hn x hx
        exact hb.normal hn x hx
  | .tryCatch a c, S, W, e, e', h, hA => by
    simp only [ok, Bool.and_eq_true] at h
    have ha := run_sim R a S W e e' h.1 hA
    by_cases hr : (run a e).raised = true
    · have hr' : (run a e').raised = true := ha.raised ▸ hr
      have hc := run_sim R c S W (run a e).env (run a e').env h.2 ha.agree
      refine ⟨?_, ?_, ?_, ?_⟩
      · simp only [run, if_pos hr, if_pos hr']; exact hc.raised
      · simp only [run, if_pos hr, if_pos hr']; rw [ha.reads, hc.reads]
      · simp only [run, if_pos hr, if_pos hr']; exact hc.agree
      · simp only [run, if_pos hr, if_pos hr', wout]
        intro _ x hx
        exact hc.agree x (Or.inr hx)
    · have hr' : ¬ (run a e').raised = true := ha.raised ▸ hr
      refine ⟨?_, ?_, ?_, ?_⟩
      · simp only [run, if_neg hr, if_neg hr']; exact ha.raised
      · simp only [run, if_neg hr, if_neg hr']; exact ha.reads
      · simp only [run, if_neg hr, if_neg hr']; exact ha.agree
      · simp only [run, if_neg hr, if_neg hr', wout]
        intro _ x hx
        exact ha.agree x (Or.inr hx)
  | .tryFinally a f, S, W, e, e', h, hA => by
    simp only [ok, Bool.and_eq_true] at h
    have ha := run_sim R a S W e e' h.1 hA
    have hf := run_sim R f S W (run a e).env (run a e').env h.2 ha.agree
    refine ⟨?_, ?_, ?_, ?_⟩
    · simp only [run]; rw [ha.raised, hf.raised]
    · simp only [run]; rw [ha.reads, hf.reads]
    · simp only [run]; exact hf.agree
    · simp only [run, wout]
      intro hn x hx
      have : (run f (run a e).env).raised = false := by
        cases h1 : (run a e).raised <;> cases h2 : (run f (run a e).env).raised <;> simp_all
      exact hf.normal this x hx
  | .bracket fin x v body, S, W, e, e', h, hA => by
    simp only [ok, Bool.and_eq_true] at h
    have hb := run_sim R body S (x :: W) (e.set x v) (e'.set x v) h.2 (hA.set x v)
    by_cases hc : (fin || !(run body (e.set x v)).raised) = true
    · have hc' : (fin || !(run body (e'.set x v)).raised) = true := hb.raised ▸ hc
      refine ⟨?_, ?_, ?_, ?_⟩
      · simp only [run, if_pos hc, if_pos hc']; exact hb.raised
      · simp only [run, if_pos hc, if_pos hc']; exact hb.reads
      · simp only [run, if_pos hc, if_pos hc']
        intro y hy
        by_cases hyx : y = x
        · subst hyx; rw [Env.set_same, Env.set_same]; exact hA y hy
        · rw [Env.set_other _ _ hyx, Env.set_other _ _ hyx]
          rcases hy with hy | hy
          · exact hb.agree y (Or.inl hy)
          · exact hb.agree y (Or.inr (List.mem_cons_of_mem _ hy))
      · simp only [run, if_pos hc, if_pos hc']
        intro hn y hy
        by_cases hyx : y = x
        · subst hyx
          rw [Env.set_same, Env.set_same]
          -- x is among the definitely written only if it was before the bracket
          unfold wout at hy
          by_cases hW : W.contains y = true
          · exact hA y (Or.inr (mem_of_contains hW))
          · rw [if_neg hW] at hy
            have := (List.mem_filter.mp hy).2
            simp at this
        · rw [Env.set_other _ _ hyx, Env.set_other _ _ hyx]
          unfold wout at hy
          by_cases hW : W.contains x = true
          · rw [if_pos hW] at hy; exact hb.normal hn y hy
          · rw [if_neg hW] at hy; exact hb.normal hn y (List.mem_filter.mp hy).1
    · have hc' : ¬ (fin || !(run body (e'.set x v)).raised) = true := hb.raised ▸ hc
      have hraised : (run body (e.set x v)).raised = true := by
        cases fin <;> cases h1 : (run body (e.set x v)).raised <;> simp_all
      refine ⟨?_, ?_, ?_, ?_⟩
      · simp only [run, if_neg hc, if_neg hc']; exact hb.raised
      · simp only [run, if_neg hc, if_neg hc']; exact hb.reads
      · simp only [run, if_neg hc, if_neg hc']
        intro y hy
        rcases hy with hy | hy
        · exact hb.agree y (Or.inl hy)
        · exact hb.agree y (Or.inr (List.mem_cons_of_mem _ hy))
      · simp only [run, if_neg hc]
        intro hn
        rw [hraised] at hn
        cases hn
  | .scoped x body, S, W, e, e', h, hA => by
    simp only [ok, Bool.and_eq_true] at h
    have hb := run_sim R body (x :: S) W e e' h.2 hA
    have hag : Agree R W ((run body e).env.set x 0) ((run body e').env.set x 0) := by
      intro y hy
      by_cases hyx : y = x
      · subst hyx; rw [Env.set_same, Env.set_same]
      · rw [Env.set_other _ _ hyx, Env.set_other _ _ hyx]; exact hb.agree y hy
    refine ⟨?_, ?_, ?_, ?_⟩
    · simp only [run]; exact hb.raised
    · simp only [run]; exact hb.reads
    · simp only [run]; exact hag
    · simp only [run, wout]
      intro _ y hy
      exact hag y (Or.inr hy)
  | .ifEq x v t f, S, W, e, e', h, hA => by
    simp only [ok, Bool.and_eq_true, Bool.or_eq_true] at h
    have hx : e x = e' x := by
      rcases h.1.1 with h1 | h1
      · exact hA x (Or.inl (mem_of_contains h1))
      · exact hA x (Or.inr (mem_of_contains h1))
    by_cases hc : e x = v
    · have hc' : e' x = v := hx ▸ hc
      have ht := run_sim R t S W e e' h.1.2 hA
      refine ⟨?_, ?_, ?_, ?_⟩
      · simp only [run, if_pos hc, if_pos hc']; exact ht.raised
      · simp only [run, if_pos hc, if_pos hc']; rw [ht.reads, hx]
      · simp only [run, if_pos hc, if_pos hc']; exact ht.agree
      · simp only [run, if_pos hc, if_pos hc', wout]
        intro _ y hy
        exact ht.agree y (Or.inr hy)
    · have hc' : ¬ e' x = v := hx ▸ hc
      have hf := run_sim R f S W e e' h.2 hA
      refine ⟨?_, ?_, ?_, ?_⟩
      · simp only [run, if_neg hc, if_neg hc']; exact hf.raised
      · simp only [run, if_neg hc, if_neg hc']; rw [hf.reads, hx]
      · simp only [run, if_neg hc, if_neg hc']; exact hf.agree
      · simp only [run, if_neg hc, if_neg hc', wout]
        intro _ y hy
        exact hf.agree y (Or.inr hy)

/-- every operation re-establishes the invariant -/
theorem inv_step (R : List String) (P : Prog) (h : okOp R P = true) (e : Env) (hI : Inv R e) : Inv R (run P e).env := by
  intro y hy
  rcases run_keeps R P [] [] e h y hy (by simp) with h1 | h1
  · exact h1.trans (hI y hy)
  · exact h1

theorem inv_init (R : List String) : Inv R init := fun _ _ => rfl

theorem inv_runHist (R : List String) : ∀ (hist : List Prog), (∀ p ∈ hist, okOp R p = true) → ∀ e, Inv R e → Inv R (runHist hist e)
  | [], _, _, hI => hI
  | p :: ps, h, e, hI => by
    have hp := inv_step R p (h p (List.mem_cons_self ..)) e hI
    exact inv_runHist R ps (fun q hq => h q (List.mem_cons_of_mem _ hq)) _ hp

/-- the answer of an operation is the same from any two states satisfying the invariant -/
theorem answer_of_inv (R : List String) (P : Prog) (h : okOp R P = true) (e e' : Env) (hI : Inv R e) (hI' : Inv R e') :
    answer P e = answer P e' := by
  have hA : Agree R [] e e' := by
    intro x hx
    rcases hx with hx | hx
    · rw [hI x hx, hI' x hx]
    · cases hx
  have hs := run_sim R P [] [] e e' h hA
  simp only [answer, hs.raised, hs.reads]

/-- the answer of a disciplined operation after any history of disciplined operations is its answer on the initial state -/
theorem answer_after_history (R : List String) (P : Prog) (h : okOp R P = true) (hist : List Prog)
    (hh : ∀ q ∈ hist, okOp R q = true) : answer P (runHist hist init) = answer P init :=
  answer_of_inv R P h _ _ (inv_runHist R hist hh init (inv_init R)) (inv_init R)

/-! ## fault points: an exception raised before or after any step of any operation -/

/-- `Faulted P P'`: `P'` is `P` with an exception raised before and/or after any number of its sub-terms
    (atomic steps, whole bodies of brackets, handlers, `finally` blocks, …) -/
inductive Faulted : Prog → Prog → Prop
  | refl (P : Prog) : Faulted P P
  | after {P P' : Prog} : Faulted P P' → Faulted P (.seq P' .raise)
  | before {P P' : Prog} : Faulted P P' → Faulted P (.seq .raise P')
  | seq {a a' b b' : Prog} : Faulted a a' → Faulted b b' → Faulted (.seq a b) (.seq a' b')
  | tryCatch {a a' h h' : Prog} : Faulted a a' → Faulted h h' → Faulted (.tryCatch a h) (.tryCatch a' h')
  | tryFinally {a a' f f' : Prog} : Faulted a a' → Faulted f f' → Faulted (.tryFinally a f) (.tryFinally a' f')
  | bracket {fin : Bool} {x : String} {v : Nat} {b b' : Prog} : Faulted b b' → Faulted (.bracket fin x v b) (.bracket fin x v b')
  | inScoped {x : String} {b b' : Prog} : Faulted b b' → Faulted (.scoped x b) (.scoped x b')
  | ifEq {x : String} {v : Nat} {t t' e e' : Prog} : Faulted t t' → Faulted e e' → Faulted (.ifEq x v t e) (.ifEq x v t' e')

/-- raising exceptions changes neither what is definitely written on normal completion nor the discipline -/
theorem Faulted.same {R : List String} {P P' : Prog} (h : Faulted P P') :
    ∀ S W, wout W P' = wout W P ∧ ok R S W P' = ok R S W P := by
  induction h with
  | refl P => intro S W; exact ⟨rfl, rfl⟩
  | after _ ih => intro S W; have := ih S W; simp only [wout, ok, this.1, this.2, Bool.and_true]; exact ⟨trivial, trivial⟩
  | before _ ih => intro S W; have := ih S W; simp only [wout, ok, this.1, this.2, Bool.true_and]; exact ⟨trivial, trivial⟩
  | @seq a a' b b' _ _ iha ihb =>
    intro S W
    have ha := iha S W
    have hb := ihb S (wout W a)
    simp only [wout, ok, ha.1, ha.2, hb.1, hb.2]; exact ⟨trivial, trivial⟩
  | tryCatch _ _ iha ihh =>
    intro S W
    simp only [wout, ok, (iha S W).2, (ihh S W).2]; exact ⟨trivial, trivial⟩
  | tryFinally _ _ iha ihf =>
    intro S W
    simp only [wout, ok, (iha S W).2, (ihf S W).1, (ihf S W).2]; exact ⟨trivial, trivial⟩
  | @bracket fin x v b b' _ ih =>
    intro S W
    simp only [wout, ok, (ih S (x :: W)).1, (ih S (x :: W)).2]; exact ⟨trivial, trivial⟩
  | @inScoped x b b' _ ih =>
    intro S W
    simp only [wout, ok, (ih (x :: S) W).2]; exact ⟨trivial, trivial⟩
  | ifEq _ _ iht ihe =>
    intro S W
    simp only [wout, ok, (iht S W).2, (ihe S W).2]; exact ⟨trivial, trivial⟩

theorem Faulted.okOp {R : List String} {P P' : Prog} (h : Faulted P P') (hP : okOp R P = true) : okOp R P' = true := by
  unfold Ctx.okOp at *
  rw [(h.same (R := R) [] []).2]; exact hP

end Jap.PState.Ctx

import Jap.Core.NamespaceKeys
/-!
Algebra of the key helpers (`split_key`, `split_key_root`, `split_key_leaf`, `".".join`,
`add_clash_mark`, `del_clash_mark`): split and join are inverse, root and leaf agree with the
full split, the clash mark is added once and removed again.
-/
namespace Jap.NS.Keys

theorem splitDot_ne_nil : ∀ s, splitDot s ≠ []
  | [] => by simp [splitDot]
  | c :: r => by
    simp only [splitDot]
    split
    · simp
    · split <;> simp

theorem joinDot_cons_cons (c : Char) (h : List Char) : ∀ t, joinDot ((c :: h) :: t) = c :: joinDot (h :: t)
  | [] => rfl
  | _ :: _ => rfl

theorem joinDot_nil_cons : ∀ t : List (List Char), t ≠ [] → joinDot ([] :: t) = '.' :: joinDot t
  | [], h => absurd rfl h
  | _ :: _, _ => rfl

/-- `".".join(key.split(".")) == key` -/
theorem join_split : ∀ s, joinDot (splitDot s) = s
  | [] => rfl
  | c :: r => by
    have ih := join_split r
    simp only [splitDot]
    by_cases hc : c = '.'
    · simp only [hc, if_true]
      rw [joinDot_nil_cons _ (splitDot_ne_nil r), ih]
    · simp only [hc, if_false]
      cases hs : splitDot r with
      | nil => exact absurd hs (splitDot_ne_nil r)
      | cons h t =>
        rw [hs] at ih
        simp only []
        rw [joinDot_cons_cons, ih]

/-- no segment of `key.split(".")` contains a dot -/
theorem split_nodot : ∀ s, ∀ x ∈ splitDot s, '.' ∉ x
  | [], x, hx => by
    simp [splitDot] at hx
    simp [hx]
  | c :: r, x, hx => by
    have ih := split_nodot r
    simp only [splitDot] at hx
    by_cases hc : c = '.'
    · simp only [hc, if_true, List.mem_cons] at hx
      rcases hx with hx | hx
      · simp [hx]
      · exact ih x hx
    · simp only [hc, if_false] at hx
      cases hs : splitDot r with
      | nil => exact absurd hs (splitDot_ne_nil r)
      | cons h t =>
        rw [hs] at hx ih
        simp only [List.mem_cons] at hx
        rcases hx with hx | hx
        · subst hx
          have := ih h (by simp)
          simp only [List.mem_cons, not_or]
          exact ⟨fun e => hc e.symm, this⟩
        · exact ih x (by simp [hx])

theorem splitDot_nodot : ∀ x, '.' ∉ x → splitDot x = [x]
  | [], _ => rfl
  | c :: r, h => by
    simp only [List.mem_cons, not_or] at h
    have hc : c ≠ '.' := fun e => h.1 e.symm
    simp [splitDot, hc, splitDot_nodot r h.2]

theorem splitDot_append_dot : ∀ (x rest : List Char), '.' ∉ x → splitDot (x ++ '.' :: rest) = x :: splitDot rest
  | [], rest, _ => by simp [splitDot]
  | c :: r, rest, h => by
    simp only [List.mem_cons, not_or] at h
    have hc : c ≠ '.' := fun e => h.1 e.symm
    simp [splitDot, hc, splitDot_append_dot r rest h.2]

/-- `".".join(segs).split(".") == segs` for a non-empty list of dot-free segments -/
theorem split_join : ∀ segs : List (List Char), segs ≠ [] → (∀ x ∈ segs, '.' ∉ x) → splitDot (joinDot segs) = segs
  | [], h, _ => absurd rfl h
  | [s], _, hx => by simp [joinDot, splitDot_nodot s (hx s (by simp))]
  | s :: t :: r, _, hx => by
    simp only [joinDot]
    rw [splitDot_append_dot s _ (hx s (by simp)),
      split_join (t :: r) (by simp) (fun x h => hx x (List.mem_cons_of_mem _ h))]

/-! ### `split_key_root` -/

theorem rootPair_nodot : ∀ s, '.' ∉ (rootPair s).1
  | [] => by simp [rootPair]
  | c :: r => by
    simp only [rootPair]
    by_cases hc : c = '.'
    · simp [hc]
    · simp only [hc, if_false, List.mem_cons, not_or]
      exact ⟨fun e => hc e.symm, rootPair_nodot r⟩

/-- `".".join(split_key_root(key)) == key` -/
theorem join_splitRoot : ∀ s, joinDot (splitRoot s) = s
  | [] => rfl
  | c :: r => by
    have ih := join_splitRoot r
    unfold splitRoot at ih ⊢
    simp only [rootPair]
    by_cases hc : c = '.'
    · simp [hc, joinDot]
    · simp only [hc, if_false]
      cases hp : rootPair r with
      | mk h o =>
        rw [hp] at ih
        cases o with
        | none => simp only [joinDot] at ih ⊢; rw [ih]
        | some t => simp only [joinDot] at ih ⊢; rw [← ih]; rfl

/-- the root of `split_key_root` is the first segment of `split_key`, the rest is the other segments joined again -/
theorem root_agrees : ∀ s h t, splitDot s = h :: t →
    (rootPair s).1 = h ∧ (rootPair s).2 = (match t with | [] => none | _ :: _ => some (joinDot t))
  | [], h, t, e => by
    simp [splitDot] at e
    obtain ⟨e1, e2⟩ := e
    subst e1 e2
    simp [rootPair]
  | c :: r, h, t, e => by
    simp only [splitDot] at e
    simp only [rootPair]
    by_cases hc : c = '.'
    · simp only [hc, if_true, List.cons.injEq] at e ⊢
      obtain ⟨e1, e2⟩ := e
      refine ⟨e1, ?_⟩
      have hne := splitDot_ne_nil r
      rw [e2] at hne
      cases t with
      | nil => exact absurd rfl hne
      | cons a b => simp only []; rw [← e2, join_split]
    · simp only [hc, if_false] at e ⊢
      cases hs : splitDot r with
      | nil => exact absurd hs (splitDot_ne_nil r)
      | cons h' t' =>
        rw [hs] at e
        simp only [List.cons.injEq] at e
        obtain ⟨ih1, ih2⟩ := root_agrees r h' t' hs
        rw [ih1, ih2, ← e.1, ← e.2]
        exact ⟨rfl, rfl⟩

/-! ### `split_key_leaf` -/

theorem leafPair_nodot : ∀ s, '.' ∉ (leafPair s).2
  | [] => by simp [leafPair]
  | c :: r => by
    have ih := leafPair_nodot r
    simp only [leafPair]
    cases hp : leafPair r with
    | mk o l =>
      rw [hp] at ih
      cases o with
      | none =>
        by_cases hc : c = '.'
        · simp only [hc, if_true]; exact ih
        · simp only [hc, if_false, List.mem_cons, not_or]
          exact ⟨fun e => hc e.symm, ih⟩
      | some i => exact ih

/-- `".".join(split_key_leaf(key)) == key` -/
theorem join_splitLeaf : ∀ s, joinDot (splitLeaf s) = s
  | [] => rfl
  | c :: r => by
    have ih := join_splitLeaf r
    unfold splitLeaf at ih ⊢
    simp only [leafPair]
    cases hp : leafPair r with
    | mk o l =>
      rw [hp] at ih
      cases o with
      | none =>
        simp only [joinDot] at ih
        by_cases hc : c = '.'
        · simp [hc, joinDot, ih]
        · simp [hc, joinDot, ih]
      | some i =>
        simp only [joinDot] at ih ⊢
        rw [← ih]; rfl

/-- the leaf of `split_key_leaf` is the last segment of `split_key`, the rest is the other segments joined again -/
theorem leaf_agrees : ∀ s,
    (∀ x, splitDot s = [x] → leafPair s = (none, x)) ∧
    (∀ a b t, splitDot s = a :: b :: t →
      leafPair s = (some (joinDot (a :: b :: t).dropLast), (a :: b :: t).getLastD []))
  | [] => by
    constructor
    · intro x e; simp [splitDot] at e; simp [leafPair, e]
    · intro a b t e; simp [splitDot] at e
  | c :: r => by
    obtain ⟨ih1, ih2⟩ := leaf_agrees r
    simp only [splitDot, leafPair]
    by_cases hc : c = '.'
    · simp only [hc, if_true]
      constructor
      · intro x e
        simp only [List.cons.injEq] at e
        exact absurd e.2 (splitDot_ne_nil r)
      · intro a b t e
        simp only [List.cons.injEq] at e
        obtain ⟨ea, eb⟩ := e
        subst ea
        cases t with
        | nil =>
          rw [ih1 b eb]
          simp [joinDot]
        | cons t0 t1 =>
          rw [ih2 b t0 t1 eb]
          simp only [List.dropLast_cons_cons, List.getLastD_cons]
          rw [joinDot_nil_cons _ (by simp)]
    · simp only [hc, if_false]
      cases hs : splitDot r with
      | nil => exact absurd hs (splitDot_ne_nil r)
      | cons h t =>
        simp only []
        constructor
        · intro x e
          simp only [List.cons.injEq] at e
          obtain ⟨e1, e2⟩ := e
          subst e2
          rw [ih1 h hs]
          simp [e1]
        · intro a b t' e
          simp only [List.cons.injEq] at e
          obtain ⟨e1, e2⟩ := e
          subst e2
          rw [ih2 h b t' hs]
          simp only [List.dropLast_cons_cons, List.getLastD_cons, ← e1]
          rw [joinDot_cons_cons]

/-! ### clash marks -/

/-- `del_clash_mark(add_clash_mark(key)) == key` for a non-empty key that does not itself begin with the mark -/
theorem delMark_addMark (clash : List (List Char)) (c : Char) (r : List Char) (h : c ≠ markC) :
    delMark (addMark clash (c :: r)) = some (c :: r) := by
  unfold addMark
  split <;> simp [delMark, h]

/-- the mark is added once: `add_clash_mark` is idempotent as long as no clash name begins with the mark -/
theorem addMark_idem (clash : List (List Char)) (k : List Char)
    (hcl : ∀ n ∈ clash, n.head? ≠ some markC) : addMark clash (addMark clash k) = addMark clash k := by
  unfold addMark
  by_cases h : clash.contains k = true
  · have hn : clash.contains (markC :: k) = false := by
      cases hh : clash.contains (markC :: k) with
      | false => rfl
      | true =>
        have := hcl (markC :: k) (by simpa using hh)
        simp at this
    rw [if_pos h, if_neg (by rw [hn]; simp)]
  · rw [if_neg h, if_neg h]

/-- a key that is no clash name is stored as it is -/
theorem addMark_other (clash : List (List Char)) (k : List Char) (h : clash.contains k = false) :
    addMark clash k = k := by
  unfold addMark
  rw [if_neg (by rw [h]; simp)]

/-- `is_meta_key` only looks at the last segment of the full split -/
theorem isMetaKeyC_last (m : List (List Char)) (k : List Char) :
    isMetaKeyC m k = m.contains ((splitDot k).getLastD []) := by
  unfold isMetaKeyC
  obtain ⟨h1, h2⟩ := leaf_agrees k
  cases hs : splitDot k with
  | nil => exact absurd hs (splitDot_ne_nil k)
  | cons a t =>
    cases t with
    | nil => rw [h1 a hs]; rfl
    | cons b t' => rw [h2 a b t' hs]

end Jap.NS.Keys

/-
C01: a text the emitter's analysis allows to be written plain is read back verbatim by the plain-scalar scanner
(value position and simple-key position), and everything the writers emit passes the reader's character check.
-/
import Jap.Lemmas.EmitterQuoted

namespace Jap.Scalar

theorem isWsA_eq (d : Char) : isWsA d = (isBlank d || isBreakZ d) := by
  rw [Bool.eq_iff_iff]
  simp only [isWsA, isBlank, isBreakZ, isBreak, Bool.or_eq_true, decide_eq_true_eq]
  omega

theorem followedWs_eq (l : List Char) : followedWs l = followedBlankZ l := by
  cases l with
  | nil => rfl
  | cons d r => simp [followedWs, followedBlankZ, isWsA_eq]

/-- what may follow a plain scalar on its line: nothing (value position) or `:` + blank (simple key) -/
def TailOK (tail : List Char) : Prop := tail = [] ∨ ∃ t, tail = Char.ofNat 58 :: t ∧ followedBlankZ t = true

def EndsClean (ws suffix : List Char) : Prop :=
  match suffix with
  | [] => ws = []
  | _ :: _ => lastIs isSpaceA suffix = false

theorem plainGo_ok (au : Bool) : ∀ (suffix : List Char) (prev : Char) (acc ws tail : List Char),
    innerBlock prev suffix = false → (∀ c ∈ suffix, okChar au c = true) → (ws ≠ [] → isWsA prev = true) →
    EndsClean ws suffix → TailOK tail → plainGo acc ws (suffix ++ tail) = (acc ++ ws ++ suffix, tail) := by
  intro suffix
  induction suffix with
  | nil =>
    intro prev acc ws tail _ _ _ hend ht
    simp only [EndsClean] at hend
    subst hend
    rcases ht with rfl | ⟨t, rfl, hf⟩
    · simp [plainGo]
    · simp [plainGo, isBlank, isBreakZ, isBreak, hf]
  | cons c rest ih =>
    intro prev acc ws tail hin hok hws hend ht
    simp only [innerBlock, Bool.or_eq_false_iff] at hin
    obtain ⟨⟨hA, hB⟩, hC⟩ := hin
    obtain ⟨h9, h13, h10, h133, h8232, h8233, h0⟩ := okChar_facts au c (hok c List.mem_cons_self)
    have hok' : ∀ x ∈ rest, okChar au x = true := fun x hx => hok x (List.mem_cons_of_mem _ hx)
    by_cases hsp : c.toNat = 32
    · have hblank : isBlank c = true := by simp [isBlank, hsp]
      have hwsc : isWsA c = true := by simp [isWsA, hsp]
      have hend' : EndsClean (ws ++ [c]) rest := by
        cases rest with
        | nil => simp [EndsClean, lastIs, isSpaceA, hsp] at hend
        | cons d r => simpa [EndsClean, lastIs] using hend
      have := ih c acc (ws ++ [c]) tail hC hok' (fun _ => hwsc) hend' ht
      simp only [List.cons_append, plainGo, hblank, if_true]
      rw [this]; simp
    · have hblank : isBlank c = false := by simp [isBlank, hsp, h9]
      have hbz : isBreakZ c = false := by simp [isBreakZ, isBreak, h10, h13, h133, h8232, h8233, h0]
      have hhash : (decide (c.toNat = 35) && !ws.isEmpty) = false := by
        by_cases h35 : c.toNat = 35
        · have hp : isWsA prev = false := by simpa [h35] using hB
          have : ws = [] := by
            cases ws with
            | nil => rfl
            | cons a l => have := hws (by simp); rw [hp] at this; cases this
          simp [this]
        · simp [h35]
      have hcolon : (decide (c.toNat = 58) && followedBlankZ (rest ++ tail)) = false := by
        by_cases h58 : c.toNat = 58
        · have hf : followedWs rest = false := by simpa [h58] using hA
          cases rest with
          | nil => simp [followedWs] at hf
          | cons d r =>
            have : isWsA d = false := by simpa [followedWs] using hf
            rw [isWsA_eq] at this
            simp [followedBlankZ, this]
        · simp [h58]
      have hend' : EndsClean [] rest := by
        cases rest with
        | nil => simp [EndsClean]
        | cons d r => simpa [EndsClean, lastIs] using hend
      have := ih c (acc ++ ws ++ [c]) [] tail hC hok' (fun h => absurd rfl h) hend' ht
      simp only [List.cons_append, plainGo, hblank, hbz, hhash, hcolon, Bool.false_eq_true, if_false]
      rw [this]; simp

theorem any_false_mem {p : Char → Bool} {s : List Char} (h : s.any p = false) : ∀ c ∈ s, p c = false := by
  intro c hc
  cases hp : p c
  · rfl
  · have : s.any p = true := List.any_eq_true.mpr ⟨c, hc, hp⟩
    rw [h] at this; cases this

/-- single-line strings without special characters consist of `okChar`s -/
theorem okChars_of (au : Bool) (s : List Char) (hsp : hasSpecial au s = false) (hml : isMultiline s = false) :
    ∀ c ∈ s, okChar au c = true := by
  intro c hc
  have h1 := any_false_mem hsp c hc
  have h2 := any_false_mem hml c hc
  simp [okChar, h1, h2]

/-- what `allow_block_plain` gives for a non-empty string -/
theorem plain_facts (au : Bool) (c : Char) (rest : List Char) (hp : allowBlockPlain au (c :: rest) = true) :
    isSpaceA c = false ∧ lastIs isSpaceA (c :: rest) = false ∧ hasSpecial au (c :: rest) = false ∧
    isMultiline (c :: rest) = false ∧ blockInd (c :: rest) = false := by
  simp only [allowBlockPlain, firstIs, Bool.and_eq_true, Bool.not_eq_true', Bool.or_eq_false_iff] at hp
  obtain ⟨⟨⟨⟨⟨⟨⟨h1, _⟩, h2⟩, _⟩, _⟩, ⟨_, h3⟩⟩, h4⟩, h5⟩ := hp
  exact ⟨h1, h2, h3, h4, h5⟩

/-- a text that `analyze_scalar` allows as a block plain scalar is fetched as a plain scalar and scanned verbatim -/
theorem plain_roundtrip (au : Bool) (s tail : List Char) (hne : s ≠ []) (hp : allowBlockPlain au s = true) (ht : TailOK tail) :
    plainStartOK (s ++ tail) = true ∧ plainGo [] [] (s ++ tail) = (s, tail) := by
  cases s with
  | nil => exact absurd rfl hne
  | cons c rest =>
    obtain ⟨hfs, hls, hspec, hml, hbi⟩ := plain_facts au c rest hp
    have hok := okChars_of au (c :: rest) hspec hml
    simp only [blockInd, Bool.or_eq_false_iff] at hbi
    obtain ⟨⟨⟨⟨_, hfi⟩, hqc⟩, hdash⟩, hinner⟩ := hbi
    obtain ⟨h9, h13, h10, h133, h8232, h8233, h0⟩ := okChar_facts au c (hok c List.mem_cons_self)
    have h32 : c.toNat ≠ 32 := by simpa [isSpaceA] using hfs
    have hcolon0 : (decide (c.toNat = 58) && followedWs rest) = false := by
      by_cases h : c.toNat = 58
      · simpa [h] using hqc
      · simp [h]
    constructor
    · -- the fetch decision
      have hblank : isBlank c = false := by simp [isBlank, h32, h9]
      have hbz : isBreakZ c = false := by simp [isBreakZ, isBreak, h10, h13, h133, h8232, h8233, h0]
      have hfollow : ∀ (h : followedWs rest = false), followedBlankZ (rest ++ tail) = false := by
        intro h
        cases rest with
        | nil => simp [followedWs] at h
        | cons d r =>
          have : isWsA d = false := by simpa [followedWs] using h
          rw [isWsA_eq] at this
          simp [followedBlankZ, this]
      simp only [List.cons_append, plainStartOK, hblank, hbz, indicatorStart, hfi]
      by_cases h45 : c.toNat = 45
      · have : followedWs rest = false := by simpa [h45] using hdash
        simp [h45, hfollow this]
      · by_cases h63 : c.toNat = 63
        · have : followedWs rest = false := by simpa [h63] using hqc
          simp [h63, hfollow this]
        · by_cases h58 : c.toNat = 58
          · have : followedWs rest = false := by simpa [h58] using hqc
            simp [h58, hfollow this]
          · simp [h45, h63, h58]
    · have hin : innerBlock 'a' (c :: rest) = false := by
        have : isWsA 'a' = false := by decide
        simp only [innerBlock, hcolon0, this, hinner]
        simp
      have := plainGo_ok au (c :: rest) 'a' [] [] tail hin hok (fun h => absurd rfl h) (by simpa [EndsClean] using hls) ht
      simpa using this

end Jap.Scalar

/-
Python `==` on the modelled values (`veq`): reflexive on every value whose mappings have unique keys
(true of every Python dict and Namespace), hence `clone() == self`.
-/
import Jap.Core.Namespace
import Jap.Lemmas.Namespace
import Jap.Lemmas.NamespaceRun

namespace Jap.NS

mutual
/-- keys are pairwise different in every mapping at every depth -/
def uniqAllV : V → Prop
  | .ns kvs => uniqAllKV kvs
  | .dct kvs => uniqAllKV kvs
  | .lst xs => uniqAllL xs
  | .tup xs => uniqAllL xs
  | .none => True
  | .atom _ => True
def uniqAllKV : KV → Prop
  | [] => True
  | (k, v) :: r => k ∉ keysOf r ∧ uniqAllV v ∧ uniqAllKV r
def uniqAllL : List V → Prop
  | [] => True
  | x :: r => uniqAllV x ∧ uniqAllL r
end

theorem kvFind_cons_ne (k k' : SKey) (v v' : V) (b : KV) (h : k' ≠ k) :
    kvFind k v ((k', v') :: b) = kvFind k v b := by
  simp [kvFind, h]

theorem kvSub_cons (k : SKey) (v : V) : ∀ (a b : KV), k ∉ keysOf a → kvSub a b = true → kvSub a ((k, v) :: b) = true
  | [], _, _, _ => by simp [kvSub]
  | (k1, v1) :: r, b, hk, h => by
    simp only [kvSub, Bool.and_eq_true] at h ⊢
    have hne : k ≠ k1 := by intro e; apply hk; simp [keysOf, e]
    have hr : k ∉ keysOf r := by intro e; apply hk; simp [keysOf] at e ⊢; exact Or.inr e
    exact ⟨by rw [kvFind_cons_ne k1 k v1 v b hne]; exact h.1, kvSub_cons k v r b hr h.2⟩

mutual
theorem veq_refl : ∀ v : V, uniqAllV v → veq v v = true
  | .none, _ => by simp [veq]
  | .atom _, _ => by simp [veq]
  | .lst xs, h => by simp only [veq]; exact veqList_refl xs (by simpa [uniqAllV] using h)
  | .tup xs, h => by simp only [veq]; exact veqList_refl xs (by simpa [uniqAllV] using h)
  | .dct kvs, h => by simp only [veq, beq_self_eq_true, Bool.true_and]; exact kvSub_refl kvs (by simpa [uniqAllV] using h)
  | .ns kvs, h => by simp only [veq, beq_self_eq_true, Bool.true_and]; exact kvSub_refl kvs (by simpa [uniqAllV] using h)
theorem veqList_refl : ∀ xs : List V, uniqAllL xs → veqList xs xs = true
  | [], _ => by simp [veqList]
  | x :: r, h => by
    simp only [uniqAllL] at h
    simp [veqList, veq_refl x h.1, veqList_refl r h.2]
theorem kvSub_refl : ∀ kvs : KV, uniqAllKV kvs → kvSub kvs kvs = true
  | [], _ => by simp [kvSub]
  | (k, v) :: r, h => by
    simp only [uniqAllKV] at h
    simp only [kvSub, kvFind, if_true, Bool.and_eq_true]
    exact ⟨veq_refl v h.2.1, kvSub_cons k v r r h.1 (kvSub_refl r h.2.2)⟩
end

/-! ### every reachable state has unique keys -/

theorem mem_keysOf_insert (k x : SKey) (v : V) : ∀ kvs : KV, x ∈ keysOf (insert k v kvs) ↔ x = k ∨ x ∈ keysOf kvs
  | [] => by simp [insert, keysOf]
  | (k', v') :: r => by
    by_cases h : k' = k
    · subst h; simp [insert, keysOf]
    · have ih := mem_keysOf_insert k x v r
      simp only [keysOf] at ih
      simp only [insert, h, if_false, keysOf, List.map_cons, List.mem_cons, ih]
      constructor
      · rintro (h1 | h1 | h1)
        · exact Or.inr (Or.inl h1)
        · exact Or.inl h1
        · exact Or.inr (Or.inr h1)
      · rintro (h1 | h1 | h1)
        · exact Or.inr (Or.inl h1)
        · exact Or.inl h1
        · exact Or.inr (Or.inr h1)

theorem uniqAllKV_insert (k : SKey) (v : V) (hv : uniqAllV v) : ∀ kvs : KV, uniqAllKV kvs → uniqAllKV (insert k v kvs)
  | [], _ => by simp [insert, uniqAllKV, keysOf, hv]
  | (k', v') :: r, h => by
    simp only [uniqAllKV] at h
    by_cases hk : k' = k
    · subst hk; simp only [insert, if_true, uniqAllKV]; exact ⟨h.1, hv, h.2.2⟩
    · simp only [insert, hk, if_false, uniqAllKV]
      refine ⟨?_, h.2.1, uniqAllKV_insert k v hv r h.2.2⟩
      intro hm
      rcases (mem_keysOf_insert k k' v r).mp hm with e | e
      · exact hk e
      · exact h.1 e

theorem uniqAllKV_erase (k : SKey) : ∀ kvs : KV, uniqAllKV kvs → uniqAllKV (erase k kvs)
  | [], _ => by simp [erase, uniqAllKV]
  | (k', v') :: r, h => by
    simp only [uniqAllKV] at h
    by_cases hk : k' = k
    · simp only [erase, hk, if_true]; exact h.2.2
    · simp only [erase, hk, if_false, uniqAllKV]
      exact ⟨fun hm => h.1 (mem_keysOf_erase k k' r hm), h.2.1, uniqAllKV_erase k r h.2.2⟩

theorem uniqAllV_of_lookup (s : SKey) : ∀ (kvs : KV) (v : V), uniqAllKV kvs → lookup s kvs = some v → uniqAllV v
  | [], _, _, h => by simp [lookup] at h
  | (k', v') :: r, v, hu, h => by
    simp only [uniqAllKV] at hu
    by_cases hk : k' = s
    · simp only [lookup, hk, if_true, Option.some.injEq] at h; exact h ▸ hu.2.1
    · simp only [lookup, hk, if_false] at h; exact uniqAllV_of_lookup s r v hu.2.2 h

theorem uniqAllKV_createNested : ∀ (path : List SKey) (kvs : KV), uniqAllKV kvs → uniqAllKV (createNested path kvs)
  | [], _, h => h
  | s :: rest, kvs, h => by
    unfold createNested
    split
    · rename_i sub hl
      have hs : uniqAllKV sub := by simpa [uniqAllV] using uniqAllV_of_lookup s kvs _ h hl
      exact uniqAllKV_insert s _ (by simpa [uniqAllV] using uniqAllKV_createNested rest sub hs) kvs h
    · exact uniqAllKV_insert s _ (by simpa [uniqAllV] using uniqAllKV_createNested rest [] (by simp [uniqAllKV])) kvs h

theorem uniqAllV_updateAt (f : KV → KV) (hf : ∀ kvs, uniqAllKV kvs → uniqAllKV (f kvs)) :
    ∀ (path : List SKey) (v : V), uniqAllV v → uniqAllV (updateAt f path v)
  | [], .ns kvs, h => by simpa [updateAt, uniqAllV] using hf kvs (by simpa [uniqAllV] using h)
  | [], .dct kvs, h => by simpa [updateAt, uniqAllV] using hf kvs (by simpa [uniqAllV] using h)
  | [], .none, h => by simpa [updateAt] using h
  | [], .atom _, h => by simpa [updateAt] using h
  | [], .lst _, h => by simpa [updateAt] using h
  | [], .tup _, h => by simpa [updateAt] using h
  | s :: rest, .ns kvs, h => by
    have hk : uniqAllKV kvs := by simpa [uniqAllV] using h
    unfold updateAt
    split
    · rename_i nxt hl
      simp only [uniqAllV]
      exact uniqAllKV_insert s _ (uniqAllV_updateAt f hf rest nxt (uniqAllV_of_lookup s kvs nxt hk hl)) kvs hk
    · exact h
  | s :: rest, .dct kvs, h => by
    have hk : uniqAllKV kvs := by simpa [uniqAllV] using h
    unfold updateAt
    split
    · rename_i nxt hl
      simp only [uniqAllV]
      exact uniqAllKV_insert s _ (uniqAllV_updateAt f hf rest nxt (uniqAllV_of_lookup s kvs nxt hk hl)) kvs hk
    · exact h
  | _ :: _, .none, h => by simpa [updateAt] using h
  | _ :: _, .atom _, h => by simpa [updateAt] using h
  | _ :: _, .lst _, h => by simpa [updateAt] using h
  | _ :: _, .tup _, h => by simpa [updateAt] using h

theorem uniqAllKV_unNs (v : V) (d : KV) (hv : uniqAllV v) (hd : uniqAllKV d) : uniqAllKV (unNs v d) := by
  cases v <;> simp_all [unNs, uniqAllV]

theorem uniqAllKV_setSegs (path : List SKey) (leaf : SKey) (item : V) (root : KV) (hi : uniqAllV item) (hr : uniqAllKV root) :
    uniqAllKV (setSegs path leaf item root) := by
  unfold setSegs
  split
  · exact uniqAllKV_unNs _ _ (uniqAllV_updateAt _ (fun kvs h => uniqAllKV_insert leaf item hi kvs h) path _
      (by simpa [uniqAllV] using uniqAllKV_createNested path root hr)) hr
  · exact uniqAllKV_unNs _ _ (uniqAllV_updateAt _ (fun kvs h => uniqAllKV_insert leaf item hi kvs h) path _
      (by simpa [uniqAllV] using hr)) hr

theorem uniqAllKV_eraseAt (path : List SKey) (leaf : SKey) (root : KV) (hr : uniqAllKV root) :
    uniqAllKV (unNs (updateAt (erase leaf) path (.ns root)) root) :=
  uniqAllKV_unNs _ _ (uniqAllV_updateAt _ (fun kvs h => uniqAllKV_erase leaf kvs h) path _ (by simpa [uniqAllV] using hr)) hr

theorem uniqAllKV_delSegs (path : List SKey) (leaf : SKey) (root r' : KV) (hr : uniqAllKV root)
    (h : delSegs path leaf root = .ok r') : uniqAllKV r' := by
  unfold delSegs at h
  split at h
  · split at h
    · cases h; exact uniqAllKV_eraseAt path leaf root hr
    · cases h
  · cases h

theorem uniqAllKV_popSegs (path : List SKey) (leaf : SKey) (d : V) (root : KV) (x : V × KV) (hr : uniqAllKV root)
    (h : popSegs path leaf d root = .ok x) : uniqAllKV x.2 := by
  unfold popSegs at h
  split at h
  · cases h; exact hr
  · cases h; exact hr
  · cases h; exact hr
  · split at h
    · cases h; exact uniqAllKV_eraseAt path leaf root hr
    · cases h; exact hr
  · cases h

/-- the values an operation assigns have unique keys (true of every Python value) -/
def opUniq : Op → Prop
  | .set _ _ v => uniqAllV v
  | .setU _ _ v => uniqAllV v
  | _ => True

theorem uniqAllKV_stepC (clash : List String) (op : Op) (r : KV) (ho : opUniq op) (hr : uniqAllKV r) :
    uniqAllKV (stepC clash op r) := by
  cases op with
  | set p l v => exact uniqAllKV_setSegs _ _ v r ho hr
  | del p l =>
    simp only [stepC]
    split
    · rename_i r' h; exact uniqAllKV_delSegs _ _ r r' hr h
    · exact hr
  | pop p l =>
    simp only [stepC]
    split
    · rename_i x h; exact uniqAllKV_popSegs _ _ _ r x hr h
    · exact hr
  | setU p l v =>
    simp only [stepC]
    split
    · exact uniqAllKV_setSegs _ _ v r ho hr
    · exact hr

theorem uniqAllKV_run (clash : List String) : ∀ (ops : List Op) (r : KV), (∀ o ∈ ops, opUniq o) → uniqAllKV r →
    uniqAllKV (ops.foldl (fun acc o => stepC clash o acc) r)
  | [], _, _, hr => hr
  | o :: rest, r, ho, hr =>
    uniqAllKV_run clash rest _ (fun o' h' => ho o' (List.mem_cons_of_mem _ h'))
      (uniqAllKV_stepC clash o r (ho o List.mem_cons_self) hr)

end Jap.NS

import Jap.Core.Channels
import Jap.Lemmas.ChannelsText
import Jap.Lemmas.ChannelsKeys
import Jap.Lemmas.ChannelsAssign
import Jap.Lemmas.ChannelsEnc
/-!
Channels, decoding: under the hypotheses `Good P S`, decoding the rendering of `S` for any channel gives the
assignments `asgOf P S`, exactly (command line) or up to a permutation (document order, parser order).
-/
namespace Jap.Channels

open Jap.NS

/-! ### F. decoding a rendering gives back the settings -/

theorem pairwiseB_iff {α : Type} (r : α → α → Bool) : ∀ l : List α, pairwiseB r l = true ↔ l.Pairwise (fun a b => r a b = true)
  | [] => by simp [pairwiseB]
  | a :: l => by
    simp only [pairwiseB, Bool.and_eq_true, List.all_eq_true, List.pairwise_cons, pairwiseB_iff r l]

theorem pairwise_mem {α : Type} {R : α → α → Prop} (symm : ∀ {a b}, R a b → R b a) :
    ∀ {l : List α}, l.Pairwise R → ∀ {a b}, a ∈ l → b ∈ l → a = b ∨ R a b
  | [], _, _, _, ha, _ => by simp at ha
  | x :: l, h, a, b, ha, hb => by
    have h' := List.pairwise_cons.mp h
    rcases List.mem_cons.mp ha with ea | ha'
    · rcases List.mem_cons.mp hb with eb | hb'
      · exact Or.inl (ea.trans eb.symm)
      · subst ea; exact Or.inr (h'.1 b hb')
    · rcases List.mem_cons.mp hb with eb | hb'
      · subst eb; exact Or.inr (symm (h'.1 a ha'))
      · exact pairwise_mem symm h'.2 ha' hb'

theorem traverse_eq_map {α β : Type} (f : α → Option β) (g : α → β) : ∀ l : List α, (∀ a ∈ l, f a = some (g a)) →
    traverse f l = some (l.map g)
  | [], _ => rfl
  | a :: r, h => by
    simp [traverse, h a (by simp), traverse_eq_map f g r (fun x hx => h x (List.mem_cons_of_mem _ hx))]

theorem traverse_eq_filterMap {α β : Type} (f : α → Option β) : ∀ l : List α, (∀ a ∈ l, (f a).isSome = true) →
    traverse f l = some (l.filterMap f)
  | [], _ => rfl
  | a :: r, h => by
    have ha := h a (by simp)
    cases hf : f a with
    | none => simp [hf] at ha
    | some b =>
      simp [traverse, hf, traverse_eq_filterMap f r (fun x hx => h x (List.mem_cons_of_mem _ hx))]

theorem filterMap_eq_map {α β : Type} (f : α → Option β) (g : α → β) : ∀ l : List α, (∀ a ∈ l, f a = some (g a)) →
    l.filterMap f = l.map g
  | [], _ => rfl
  | a :: r, h => by
    simp [h a (by simp), filterMap_eq_map f g r (fun x hx => h x (List.mem_cons_of_mem _ hx))]

theorem findDecl_some (segs : List String) : ∀ (ds : List Decl) (d : Decl), findDecl segs ds = some d → d ∈ ds ∧ d.key.segs = segs
  | [], _, h => by simp [findDecl] at h
  | x :: r, d, h => by
    by_cases e : x.key.segs = segs
    · simp [findDecl, e] at h; subst h; exact ⟨by simp, e⟩
    · simp [findDecl, e] at h
      have := findDecl_some segs r d h
      exact ⟨List.mem_cons_of_mem _ this.1, this.2⟩

structure Good (P : Parser) (S : Settings) : Prop where
  wf : ∀ d ∈ P.decls, wfKey d.key = true ∧ envSafe d.key = true ∧ stripNo (destL d.key) = none
  incomp : P.decls.Pairwise (fun a b => incomparable a.key.segs b.key.segs = true)
  fold : P.decls.Pairwise (fun a b => (foldKey a.key != foldKey b.key) = true)
  decl : ∀ kv ∈ S, ∃ d, findDecl kv.1.segs P.decls = some d ∧ kindMatches d.kind kv.2 = true ∧ safeVal kv.2 = true
  distinct : S.Pairwise (fun a b => (a.1 != b.1) = true)

theorem good_of_bool (P : Parser) (S : Settings) (hp : goodParser P = true) (hs : goodSettings P S = true) : Good P S := by
  simp only [goodParser, goodSettings, Bool.and_eq_true, List.all_eq_true, pairwiseB_iff] at hp hs
  refine ⟨fun d hd => ?_, hp.1.2, hp.2, ?_, hs.2⟩
  · have := hp.1.1 d hd
    simp only [Bool.and_eq_true, Option.isNone_iff_eq_none] at this
    exact ⟨this.1.1, this.1.2, this.2⟩
  intro kv hkv
  have := hs.1 kv hkv
  cases hf : findDecl kv.1.segs P.decls with
  | none => simp [hf] at this
  | some d =>
    simp only [hf, Bool.and_eq_true] at this
    exact ⟨d, rfl, this.1, this.2⟩

theorem wfSeg_noDot {s : String} (h : wfSeg s = true) : noDot s.toList = true := by
  simp only [wfSeg, Bool.and_eq_true, List.all_eq_true, bne_iff_ne, ne_eq] at h
  simp only [noDot, List.all_eq_true, bne_iff_ne, ne_eq]
  exact fun c hc => (h.2 c hc).1.1

theorem wfKey_noDot {k : Key} (h : wfKey k = true) : ∀ s ∈ k.segs, noDot s.toList = true := by
  intro s hs
  exact wfSeg_noDot (List.all_eq_true.mp h s hs)

theorem joinDot_all (p : Char → Bool) (hp : p '.' = true) : ∀ (ws : List (List Char)), (∀ w ∈ ws, ∀ c ∈ w, p c = true) →
    ∀ c ∈ joinDot ws, p c = true
  | [], _, c, hc => by simp [joinDot] at hc
  | [w], h, c, hc => h w (by simp) c hc
  | w :: v :: r, h, c, hc => by
    simp only [joinDot, List.mem_append, List.mem_cons] at hc
    rcases hc with hc | hc | hc
    · exact h w (by simp) c hc
    · subst hc; exact hp
    · exact joinDot_all p hp (v :: r) (fun x hx => h x (by simp at hx ⊢; exact Or.inr hx)) c hc

theorem destL_notEq {k : Key} (h : wfKey k = true) : ∀ c ∈ destL k, notEq c = true := by
  apply joinDot_all notEq (by decide)
  intro w hw c hc
  obtain ⟨s, hs, rfl⟩ := List.mem_map.mp hw
  have := List.all_eq_true.mp h s hs
  simp only [wfSeg, Bool.and_eq_true, List.all_eq_true] at this
  exact (this.2 c hc).2

theorem takeWhile_stop' {p : Char → Bool} (w : List Char) (x : Char) (rest : List Char) (hw : ∀ c ∈ w, p c = true) (hx : p x = false) :
    (w ++ x :: rest).takeWhile p = w ∧ (w ++ x :: rest).dropWhile p = x :: rest := by
  rw [List.takeWhile_append_of_pos hw, List.dropWhile_append_of_pos hw]
  simp [hx]

def asg1 (P : Parser) (kv : Key × Val) : List SKey × V := (skeys P kv.1.segs, enc kv.2)

theorem asgOf_eq (P : Parser) (S : Settings) : asgOf P S = S.map (asg1 P) := rfl

/-! what the text of a variable / the loaded value of a document gives at a position of the matching kind -/

theorem argChars_nonstr (v : Val) (h : isStrVal v = false) : argChars v = valChars v := by
  cases v with
  | sc s => cases s <;> simp_all [argChars, isStrVal]
  | list xs => rfl
  | dict kvs => rfl
  | yesno w => rfl

theorem ynBool_of_word {w : YWord} {b : Bool} (h : boolWord w.word.toList = some b) : ynBool w = b := by
  simp [ynBool, h]

theorem readElem_ok (er : Bool) (x : Scalar) (hm : scalarIsStr x = er) (hs : safeScalar x = true) :
    readElem er (argChars (.sc x)) = some x := by
  subst hm
  cases x with
  | str s => simp [readElem, scalarIsStr, argChars, String.ofList_toList]
  | int i => simp [readElem, scalarIsStr, argChars, valChars, loadL_scalarChars _ hs]
  | bool b => simp [readElem, scalarIsStr, argChars, valChars, loadL_scalarChars _ hs]
  | null => simp [readElem, scalarIsStr, argChars, valChars, loadL_scalarChars _ hs]
  | num t => simp [readElem, scalarIsStr, argChars, valChars, loadL_scalarChars _ hs]

/-- an environment variable read at a position of the matching kind gives the value -/
theorem readLeafK_envChars (kind : Kind) (v : Val) (hm : kindMatches kind v = true) (hs : safeVal v = true) :
    (readLeafK kind (envChars kind v)).map enc = some (enc v) := by
  cases kind with
  | json =>
    have hn : isStrVal v = false := by
      cases v with
      | sc s => cases s <;> simp_all [kindMatches, isStrVal, scalarIsStr]
      | list xs => rfl
      | dict kvs => rfl
      | yesno w => rfl
    have hy : norm v = v := by
      cases v with
      | yesno w => simp [kindMatches] at hm
      | sc s => rfl
      | list xs => rfl
      | dict kvs => rfl
    simp only [envChars, readLeafK, argChars_nonstr v hn, loadL_valChars v hs, hy, Option.map_some]
  | raw =>
    cases v with
    | sc s =>
      cases s with
      | str x => simp [envChars, readLeafK, argChars, String.ofList_toList]
      | int i => simp [kindMatches] at hm
      | bool b => simp [kindMatches] at hm
      | null => simp [kindMatches] at hm
      | num t => simp [kindMatches] at hm
    | list xs => simp [kindMatches] at hm
    | dict kvs => simp [kindMatches] at hm
    | yesno w => simp [kindMatches] at hm
  | yesno n =>
    cases v with
    | yesno w =>
      simp only [kindMatches, Bool.and_eq_true] at hm
      cases hb : boolWord w.word.toList with
      | none => simp [hb] at hm
      | some b => simp [envChars, readLeafK, hb, enc, ynBool_of_word hb]
    | sc s => simp [kindMatches] at hm
    | list xs => simp [kindMatches] at hm
    | dict kvs => simp [kindMatches] at hm
  | nlist n er =>
    cases v with
    | list xs =>
      have := loadL_valChars (.list xs) hs
      simp only [norm] at this
      simp [envChars, readLeafK, this]
    | sc s => simp [kindMatches] at hm
    | dict kvs => simp [kindMatches] at hm
    | yesno w => simp [kindMatches] at hm

/-- the loaded value of a document / the value of an object at a position of the matching kind -/
theorem coerce_norm (kind : Kind) (v : Val) (hm : kindMatches kind v = true) :
    (coerce kind (norm v)).map enc = some (enc v) := by
  cases kind with
  | yesno n =>
    cases v with
    | yesno w => simp [coerce, norm, booleanType, enc]
    | sc s => simp [kindMatches] at hm
    | list xs => simp [kindMatches] at hm
    | dict kvs => simp [kindMatches] at hm
  | json => simp [coerce, enc_norm]
  | raw => simp [coerce, enc_norm]
  | nlist n er => simp [coerce, enc_norm]

/-! the command line -/

theorem key_ext {k k' : Key} (h : k.segs = k'.segs) : k = k' := by
  cases k; cases k'
  simp only [Key.segs, List.cons.injEq] at h
  simp [h.1, h.2]


theorem decodeArg_eq (P : Parser) (K text : List Char) (hK : ∀ c ∈ K, notEq c = true) :
    decodeArg P [String.ofList ('-' :: '-' :: (K ++ '=' :: text))] = decodeOpt P K (some text) [] := by
  have tw := takeWhile_stop' (p := notEq) K '=' text hK (by decide)
  simp only [decodeArg, String.toList_ofList, and_self, if_true, tw.1, tw.2, List.isEmpty_nil]

theorem dropWhile_all {p : Char → Bool} : ∀ (l : List Char), (∀ c ∈ l, p c = true) → l.dropWhile p = []
  | [], _ => rfl
  | c :: r, h => by
    simp [h c (by simp), dropWhile_all r (fun x hx => h x (List.mem_cons_of_mem _ hx))]

theorem decodeArg_bare (P : Parser) (K : List Char) (vals : List String) (hK : ∀ c ∈ K, notEq c = true) :
    decodeArg P (String.ofList ('-' :: '-' :: K) :: vals) = decodeOpt P K none (vals.map String.toList) := by
  simp only [decodeArg, String.toList_ofList, and_self, if_true, dropWhile_all K hK]

theorem no_notEq (K : List Char) (hK : ∀ c ∈ K, notEq c = true) : ∀ c ∈ 'n' :: 'o' :: '_' :: K, notEq c = true := by
  intro c hc
  simp only [List.mem_cons] at hc
  rcases hc with e | e | e | hc
  · subst e; decide
  · subst e; decide
  · subst e; decide
  · exact hK c hc

theorem decodeOpt_pos (P : Parser) (k : Key) (d : Decl) (e : Option (List Char)) (vals : List (List Char))
    (hno : stripNo (destL k) = none) (hf : findDecl (segsOf (destL k)) P.decls = some d) :
    decodeOpt P (destL k) e vals = (readOpt d.kind false e vals).map (fun v => (skeys P d.key.segs, enc v)) := by
  simp only [decodeOpt, negTarget, hno, hf]

theorem decodeOpt_neg (P : Parser) (k : Key) (d : Decl) (n : YN) (e : Option (List Char)) (vals : List (List Char))
    (hf : findDecl (segsOf (destL k)) P.decls = some d) (hk : d.kind = .yesno n) :
    decodeOpt P ('n' :: 'o' :: '_' :: destL k) e vals
      = (readOpt (.yesno n) true e vals).map (fun v => (skeys P d.key.segs, enc v)) := by
  simp only [decodeOpt, negTarget, stripNo, and_self, if_true, hf, hk]

theorem traverse_map {α β γ : Type} (f : β → Option γ) (r : α → β) (g : α → γ) : ∀ l : List α,
    (∀ a ∈ l, f (r a) = some (g a)) → traverse f (l.map r) = some (l.map g)
  | [], _ => rfl
  | a :: t, h => by
    simp [traverse, h a (by simp), traverse_map f r g t (fun x hx => h x (List.mem_cons_of_mem _ hx))]

theorem traverse_elems (er : Bool) : ∀ xs : List Scalar, xs.all (fun x => scalarIsStr x == er) = true → xs.all safeScalar = true →
    traverse (readElem er) ((xs.map (fun x => String.ofList (argChars (.sc x)))).map String.toList) = some xs := by
  intro xs hm hs
  rw [List.map_map]
  have := traverse_map (readElem er) (String.toList ∘ fun x => String.ofList (argChars (.sc x))) id xs (by
    intro x hx
    have h1 := List.all_eq_true.mp hm x hx
    have h2 := List.all_eq_true.mp hs x hx
    simp only [Function.comp_def, String.toList_ofList, id]
    exact readElem_ok er x (by simpa using h1) h2)
  simpa using this

theorem decodeArg_argGroup (P : Parser) (S : Settings) (g : Good P S) (kv : Key × Val) (hkv : kv ∈ S) :
    decodeArg P (argGroup (kindOf P kv.1) kv.1 kv.2) = some (asg1 P kv) := by
  obtain ⟨d, hf, hm, hsafe⟩ := g.decl kv hkv
  obtain ⟨hd, hk⟩ := findDecl_some _ _ _ hf
  have hwf : wfKey kv.1 = true := by
    have := (g.wf d hd).1
    simp only [wfKey, hk] at this ⊢
    exact this
  have hK := destL_notEq hwf
  have hno : stripNo (destL kv.1) = none := by
    have := (g.wf d hd).2.2
    rwa [key_ext hk] at this
  have hseg := segsOf_destL kv.1 (wfKey_noDot hwf)
  have hf' : findDecl (segsOf (destL kv.1)) P.decls = some d := by rw [hseg]; exact hf
  have hkind : kindOf P kv.1 = d.kind := by simp [kindOf, hf]
  have hkey : skeys P d.key.segs = skeys P kv.1.segs := by rw [hk]
  rw [hkind]
  obtain ⟨k, v⟩ := kv
  simp only at hm hsafe hK hno hf' hkey ⊢
  cases hkd : d.kind with
  | json =>
    rw [hkd] at hm
    have hn : isStrVal v = false := by
      cases v with
      | sc s => cases s <;> simp_all [kindMatches, isStrVal, scalarIsStr]
      | list xs => rfl
      | dict kvs => rfl
      | yesno w => rfl
    have hy : norm v = v := by
      cases v with
      | yesno w => simp [kindMatches] at hm
      | sc s => rfl
      | list xs => rfl
      | dict kvs => rfl
    have hg : argGroup .json k v = [String.ofList (optChars k ++ '=' :: argChars v)] := by
      cases v <;> rfl
    rw [hg]
    simp only [optChars, List.cons_append]
    rw [decodeArg_eq P (destL k) (argChars v) hK, decodeOpt_pos P k d _ _ hno hf', hkd]
    simp only [readOpt, argChars_nonstr v hn, loadL_valChars v hsafe, hy, Option.map_some, asg1, hkey]
  | raw =>
    rw [hkd] at hm
    cases v with
    | sc s =>
      cases s with
      | str x =>
        simp only [argGroup, optChars, List.cons_append]
        rw [decodeArg_eq P (destL k) _ hK, decodeOpt_pos P k d _ _ hno hf', hkd]
        simp [readOpt, argChars, String.ofList_toList, asg1, hkey]
      | int i => simp [kindMatches] at hm
      | bool b => simp [kindMatches] at hm
      | null => simp [kindMatches] at hm
      | num t => simp [kindMatches] at hm
    | list xs => simp [kindMatches] at hm
    | dict kvs => simp [kindMatches] at hm
    | yesno w => simp [kindMatches] at hm
  | yesno n =>
    rw [hkd] at hm
    cases v with
    | yesno w =>
      simp only [kindMatches, Bool.and_eq_true] at hm
      cases hb : boolWord w.word.toList with
      | none => simp [hb] at hm
      | some b =>
        have hyb := ynBool_of_word hb
        cases n with
        | bare =>
          cases b with
          | true =>
            simp only [argGroup, hyb, if_true, optChars]
            rw [decodeArg_bare P (destL k) [] hK, decodeOpt_pos P k d _ _ hno hf', hkd]
            simp [readOpt, asg1, enc, hyb, hkey]
          | false =>
            simp only [argGroup, hyb, Bool.false_eq_true, if_false, noChars]
            rw [decodeArg_bare P _ [] (no_notEq _ hK), decodeOpt_neg P k d .bare _ _ hf' hkd]
            simp [readOpt, asg1, enc, hyb, hkey]
        | opt =>
          cases hnw : w.negWord with
          | none =>
            simp only [argGroup, hnw, optChars, List.cons_append]
            rw [decodeArg_eq P (destL k) _ hK, decodeOpt_pos P k d _ _ hno hf', hkd]
            simp [readOpt, hb, asg1, enc, hyb, hkey]
          | some nw =>
            have h2 : boolWord nw.toList = some (!b) := by
              have := hm.2; simp only [hnw, hyb, beq_iff_eq] at this; exact this
            have hde := decodeArg_eq P ('n' :: 'o' :: '_' :: destL k) nw.toList (no_notEq _ hK)
            simp only [List.cons_append] at hde
            simp only [argGroup, hnw, noChars, List.cons_append]
            rw [hde, decodeOpt_neg P k d .opt _ _ hf' hkd]
            cases b <;> simp [readOpt, h2, asg1, enc, hyb, hkey]
        | one =>
          cases hnw : w.negWord with
          | none =>
            simp only [argGroup, hnw, optChars, List.cons_append]
            rw [decodeArg_eq P (destL k) _ hK, decodeOpt_pos P k d _ _ hno hf', hkd]
            simp [readOpt, hb, asg1, enc, hyb, hkey]
          | some nw =>
            have h2 : boolWord nw.toList = some (!b) := by
              have := hm.2; simp only [hnw, hyb, beq_iff_eq] at this; exact this
            have hde := decodeArg_eq P ('n' :: 'o' :: '_' :: destL k) nw.toList (no_notEq _ hK)
            simp only [List.cons_append] at hde
            simp only [argGroup, hnw, noChars, List.cons_append]
            rw [hde, decodeOpt_neg P k d .one _ _ hf' hkd]
            cases b <;> simp [readOpt, h2, asg1, enc, hyb, hkey]
    | sc s => simp [kindMatches] at hm
    | list xs => simp [kindMatches] at hm
    | dict kvs => simp [kindMatches] at hm
  | nlist n er =>
    rw [hkd] at hm
    cases v with
    | list xs =>
      simp only [kindMatches, Bool.and_eq_true] at hm
      have hs' : xs.all safeScalar = true := hsafe
      cases xs with
      | nil =>
        simp only [argGroup, optChars, List.map_nil]
        rw [decodeArg_bare P (destL k) [] hK, decodeOpt_pos P k d _ _ hno hf', hkd]
        have := hm.1
        simp only [List.length_nil] at this
        simp [readOpt, this, traverse, asg1, hkey]
      | cons x r =>
        cases r with
        | nil =>
          have hx : scalarIsStr x = er := by simpa using hm.2
          have hsx : safeScalar x = true := by simpa using hs'
          simp only [argGroup, optChars, List.cons_append]
          rw [decodeArg_eq P (destL k) _ hK, decodeOpt_pos P k d _ _ hno hf', hkd]
          have := hm.1
          simp only [List.length_cons, List.length_nil] at this
          simp [readOpt, this, readElem_ok er x hx hsx, asg1, hkey]
        | cons y r' =>
          have hg : argGroup (.nlist n er) k (.list (x :: y :: r'))
              = String.ofList (optChars k) :: (x :: y :: r').map (fun x => String.ofList (argChars (.sc x))) := rfl
          rw [hg]
          simp only [optChars]
          rw [decodeArg_bare P (destL k) _ hK, decodeOpt_pos P k d _ _ hno hf', hkd]
          have hl : n.admits ((x :: y :: r').map (fun x => String.ofList (argChars (.sc x)))).length = true := by
            simpa using hm.1
          simp only [readOpt, List.length_map] at hl ⊢
          simp only [hl, if_true, traverse_elems er (x :: y :: r') hm.2 hs', Option.map_some, asg1, hkey]
    | sc s => simp [kindMatches] at hm
    | dict kvs => simp [kindMatches] at hm
    | yesno w => simp [kindMatches] at hm

theorem decode_argv (P : Parser) (S : Settings) (g : Good P S) : decode P (render P .argv S) = some (asgOf P S) := by
  simp only [decode, render]
  exact traverse_map _ _ _ S (fun kv hkv => decodeArg_argGroup P S g kv hkv)

/-- a leaf of a document: dotted spelling or segments, text -/
theorem decodeLeafText_ok (P : Parser) (S : Settings) (g : Good P S) (kv : Key × Val) (hkv : kv ∈ S) :
    decodeLeafText P (kv.1.segs, textOf kv.2) = some (asg1 P kv) := by
  obtain ⟨d, hf, hm, hsafe⟩ := g.decl kv hkv
  have := coerce_norm d.kind kv.2 hm
  simp only [decodeLeafText, hf, textOf, String.toList_ofList, loadL_valChars kv.2 hsafe, asg1]
  cases hc : coerce d.kind (norm kv.2) with
  | none => simp [hc] at this
  | some v' => simp only [hc, Option.map_some, Option.some.injEq] at this ⊢; rw [this]

theorem decodeLeafVal_ok (P : Parser) (S : Settings) (g : Good P S) (kv : Key × Val) (hkv : kv ∈ S) :
    decodeLeafVal P (kv.1.segs, kv.2) = some (asg1 P kv) := by
  obtain ⟨d, hf, hm, _⟩ := g.decl kv hkv
  have := coerce_norm d.kind kv.2 hm
  simp only [decodeLeafVal, hf, asg1]
  cases hc : coerce d.kind (norm kv.2) with
  | none => simp [hc] at this
  | some v' => simp only [hc, Option.map_some, Option.some.injEq] at this ⊢; rw [this]

theorem segs_of_dest (P : Parser) (S : Settings) (g : Good P S) (kv : Key × Val) (hkv : kv ∈ S) :
    segsOf (dest kv.1).toList = kv.1.segs := by
  obtain ⟨d, hf, _, _⟩ := g.decl kv hkv
  obtain ⟨hd, hk⟩ := findDecl_some _ _ _ hf
  have hwf : wfKey kv.1 = true := by
    have := (g.wf d hd).1
    simp only [wfKey, hk] at this ⊢
    exact this
  simp only [dest, String.toList_ofList, segsOf_destL kv.1 (wfKey_noDot hwf)]

theorem decode_cfgDotted (P : Parser) (S : Settings) (g : Good P S) :
    decode P (render P .cfgDotted S) = some (docOrder (asgOf P S)) := by
  simp only [decode, render, List.map_map]
  rw [traverse_map (decodeLeafText P) _ (asg1 P) S]
  · rfl
  · intro kv hkv
    simp only [Function.comp_def, segs_of_dest P S g kv hkv]
    exact decodeLeafText_ok P S g kv hkv

theorem decode_objDotted (P : Parser) (S : Settings) (g : Good P S) :
    decode P (render P .objDotted S) = some (docOrder (asgOf P S)) := by
  simp only [decode, render, List.map_map]
  rw [traverse_map (decodeLeafVal P) _ (asg1 P) S]
  · rfl
  · intro kv hkv
    simp only [Function.comp_def, segs_of_dest P S g kv hkv]
    exact decodeLeafVal_ok P S g kv hkv

/-- traversing a permutation of rendered items gives a permutation of the results -/
theorem traverse_docOrder {α β γ : Type} (f : β → Option γ) (r : α → β) (g : α → γ) (l : List α) (l' : List β)
    (hp : l'.Perm (l.map r)) (h : ∀ a ∈ l, f (r a) = some (g a)) :
    traverse f l' = some (l'.filterMap f) ∧ (l'.filterMap f).Perm (l.map g) := by
  constructor
  · apply traverse_eq_filterMap
    intro b hb
    obtain ⟨a, ha, rfl⟩ := List.mem_map.mp (hp.mem_iff.mp hb)
    simp [h a ha]
  · refine (hp.filterMap f).trans ?_
    rw [List.filterMap_map, filterMap_eq_map (f ∘ r) g l (fun a ha => h a ha)]

theorem decode_cfgNested (P : Parser) (S : Settings) (g : Good P S) :
    ∃ A, decode P (render P .cfgNested S) = some A ∧ A.Perm (asgOf P S) := by
  simp only [decode, render]
  obtain ⟨h1, h2⟩ := traverse_docOrder (decodeLeafText P) (fun kv : Key × Val => (kv.1.segs, textOf kv.2)) (asg1 P) S _
    (docOrder_perm _) (fun kv hkv => decodeLeafText_ok P S g kv hkv)
  rw [h1]
  exact ⟨_, rfl, (docOrder_perm _).trans h2⟩

theorem decode_objNested (P : Parser) (S : Settings) (g : Good P S) :
    ∃ A, decode P (render P .objNested S) = some A ∧ A.Perm (asgOf P S) := by
  simp only [decode, render]
  obtain ⟨h1, h2⟩ := traverse_docOrder (decodeLeafVal P) (fun kv : Key × Val => (kv.1.segs, kv.2)) (asg1 P) S _
    (docOrder_perm _) (fun kv hkv => decodeLeafVal_ok P S g kv hkv)
  rw [h1]
  exact ⟨_, rfl, (docOrder_perm _).trans h2⟩

/-! the environment -/

def valOf (k : Key) : Settings → Option Val
  | [] => none
  | kv :: r => if kv.1 = k then some kv.2 else valOf k r

theorem valOf_mem (k : Key) : ∀ (S : Settings) (v : Val), valOf k S = some v → (k, v) ∈ S
  | [], _, h => by simp [valOf] at h
  | kv :: r, v, h => by
    by_cases e : kv.1 = k
    · simp [valOf, e] at h; subst h; subst e; simp
    · simp [valOf, e] at h; exact List.mem_cons_of_mem _ (valOf_mem k r v h)

theorem valOf_of_mem : ∀ (S : Settings), S.Pairwise (fun a b => (a.1 != b.1) = true) → ∀ kv ∈ S, valOf kv.1 S = some kv.2
  | [], _, kv, h => by simp at h
  | x :: r, hd, kv, h => by
    have hd' := List.pairwise_cons.mp hd
    rcases List.mem_cons.mp h with e | h'
    · subst e; simp [valOf]
    · have : x.1 ≠ kv.1 := by simpa using hd'.1 kv h'
      simp [valOf, this, valOf_of_mem r hd'.2 kv h']

theorem mark_name_inj (clash : List String) {a b : String} (h : mark clash a = mark clash b) : a = b :=
  congrArg SKey.name h

theorem skeys_inj (P : Parser) : ∀ {k k' : List String}, skeys P k = skeys P k' → k = k'
  | [], [], _ => rfl
  | [], _ :: _, h => by simp [skeys] at h
  | _ :: _, [], h => by simp [skeys] at h
  | a :: r, b :: r', h => by
    simp only [skeys, List.map_cons, List.cons.injEq] at h
    rw [mark_name_inj P.clash h.1, skeys_inj P (k := r) (k' := r') h.2]

theorem incomparable_self (k : List String) : incomparable k k = false := by
  have : k.isPrefixOf k = true := List.isPrefixOf_iff_prefix.mpr (List.prefix_refl _)
  simp [incomparable, this]

/-- two declared arguments with the same key are the same declaration -/
theorem decl_unique (P : Parser) (S : Settings) (g : Good P S) {d d' : Decl} (hd : d ∈ P.decls) (hd' : d' ∈ P.decls)
    (h : d.key.segs = d'.key.segs) : d = d' := by
  rcases pairwise_mem (R := fun a b : Decl => incomparable a.key.segs b.key.segs = true)
    (fun {a b} hab => by simpa [incomparable, Bool.and_comm] using hab) g.incomp hd hd' with e | r
  · exact e
  · rw [h, incomparable_self] at r
    exact absurd r (by decide)

theorem envVar_decl_inj (P : Parser) (S : Settings) (g : Good P S) {d d' : Decl} (hd : d ∈ P.decls) (hd' : d' ∈ P.decls)
    (h : envVar P.pfx d.key = envVar P.pfx d'.key) : d = d' := by
  have hl : envVarL P.pfx d.key = envVarL P.pfx d'.key := by
    have := congrArg String.toList h
    simpa [envVar, String.toList_ofList] using this
  have hf := envVarL_inj P.pfx d.key d'.key (g.wf d hd).2.1 (g.wf d' hd').2.1 hl
  rcases pairwise_mem (R := fun a b : Decl => (foldKey a.key != foldKey b.key) = true)
    (fun {a b} hab => by
      simp only [bne_iff_ne, ne_eq] at hab ⊢
      exact fun e => hab e.symm) g.fold hd hd' with e | r
  · exact e
  · simp [hf] at r

theorem decl_of_setting (P : Parser) (S : Settings) (g : Good P S) (kv : Key × Val) (hkv : kv ∈ S) :
    ∃ d ∈ P.decls, d.key = kv.1 ∧ kindMatches d.kind kv.2 = true ∧ safeVal kv.2 = true ∧ kindOf P kv.1 = d.kind := by
  obtain ⟨d, hf, hraw, hsafe⟩ := g.decl kv hkv
  obtain ⟨hd, hk⟩ := findDecl_some _ _ _ hf
  exact ⟨d, hd, key_ext hk, hraw, hsafe, by simp [kindOf, hf]⟩

/-- the text of the variable for key `k` -/
def envT (P : Parser) (k : Key) (v : Val) : String := String.ofList (envChars (kindOf P k) v)

theorem lookupS_env (P : Parser) (S : Settings) (g : Good P S) (d : Decl) (hd : d ∈ P.decls) :
    ∀ S' : Settings, (∀ kv ∈ S', kv ∈ S) →
    lookupS (envVar P.pfx d.key) (S'.map fun kv => (envVar P.pfx kv.1, envT P kv.1 kv.2)) = (valOf d.key S').map (envT P d.key)
  | [], _ => rfl
  | kv :: r, h => by
    have ih := lookupS_env P S g d hd r (fun x hx => h x (List.mem_cons_of_mem _ hx))
    obtain ⟨d', hd', hk', _, _, _⟩ := decl_of_setting P S g kv (h kv (by simp))
    by_cases e : kv.1 = d.key
    · simp [lookupS, valOf, e]
    · have : envVar P.pfx kv.1 ≠ envVar P.pfx d.key := by
        intro heq
        rw [← hk'] at heq e
        exact e (congrArg Decl.key (envVar_decl_inj P S g hd' hd heq))
      simp [lookupS, valOf, e, this, ih]

def envAsg (P : Parser) (S : Settings) (d : Decl) : Option (List SKey × V) :=
  (valOf d.key S).map (fun v => asg1 P (d.key, v))

theorem decodeEnv_eq (P : Parser) (S : Settings) (g : Good P S) :
    ∀ ds : List Decl, (∀ d ∈ ds, d ∈ P.decls) →
    decodeEnv P (S.map fun kv => (envVar P.pfx kv.1, envT P kv.1 kv.2)) ds = some (ds.filterMap (envAsg P S))
  | [], _ => rfl
  | d :: r, h => by
    have hd := h d (by simp)
    have ih := decodeEnv_eq P S g r (fun x hx => h x (List.mem_cons_of_mem _ hx))
    simp only [decodeEnv, lookupS_env P S g d hd S (fun _ h => h), List.filterMap_cons, envAsg]
    cases hv : valOf d.key S with
    | none => simp only [Option.map_none]; exact ih
    | some v =>
      have hmem := valOf_mem d.key S v hv
      obtain ⟨d', hd', hk', hraw, hsafe, hkind⟩ := decl_of_setting P S g (d.key, v) hmem
      have : d' = d := decl_unique P S g hd' hd (by rw [hk'])
      subst this
      have ht : (envT P d'.key v).toList = envChars d'.kind v := by
        simp only at hkind
        simp [envT, String.toList_ofList, hkind]
      have hr := readLeafK_envChars d'.kind v hraw hsafe
      simp only [Option.map_some, ht]
      cases hv' : readLeafK d'.kind (envChars d'.kind v) with
      | none => simp [hv'] at hr
      | some v' =>
        simp only [hv', Option.map_some, Option.some.injEq] at hr
        simp only [ih, asg1, hr]

theorem envAsg_perm (P : Parser) (S : Settings) (g : Good P S) : (P.decls.filterMap (envAsg P S)).Perm (asgOf P S) := by
  rw [asgOf_eq]
  apply (List.perm_ext_iff_of_nodup ?_ ?_).mpr
  · intro x
    simp only [List.mem_filterMap, List.mem_map, envAsg, Option.map_eq_some_iff]
    constructor
    · rintro ⟨d, _, v, hv, rfl⟩
      exact ⟨(d.key, v), valOf_mem d.key S v hv, rfl⟩
    · rintro ⟨kv, hkv, rfl⟩
      obtain ⟨d, hd, hk, _, _, _⟩ := decl_of_setting P S g kv hkv
      exact ⟨d, hd, kv.2, by rw [hk]; exact valOf_of_mem S g.distinct kv hkv, by rw [hk]⟩
  · refine List.Pairwise.filterMap (envAsg P S) ?_ g.incomp
    intro a a' hr b hb b' hb' e
    simp only [envAsg, Option.map_eq_some_iff] at hb hb'
    obtain ⟨v, _, rfl⟩ := hb
    obtain ⟨v', _, rfl⟩ := hb'
    have := skeys_inj P (congrArg Prod.fst e)
    simp only at this
    rw [this, incomparable_self] at hr
    exact absurd hr (by decide)
  · refine List.Pairwise.map (asg1 P) ?_ g.distinct
    intro a b hab e
    have := key_ext (skeys_inj P (congrArg Prod.fst e))
    simp [this] at hab

theorem decode_env (P : Parser) (S : Settings) (g : Good P S) :
    ∃ A, decode P (render P .env S) = some A ∧ A.Perm (asgOf P S) := by
  have hde := decodeEnv_eq P S g P.decls (fun _ h => h)
  simp only [envT] at hde
  simp only [decode, render, hde, Option.map_some]
  exact ⟨_, rfl, (docOrder_perm _).trans (envAsg_perm P S g)⟩

/-! ### assembling: every channel decodes to a permutation of the settings, whose keys diverge pairwise -/

theorem divAsg_asgOf (P : Parser) (S : Settings) (g : Good P S) : DivAsg (asgOf P S) := by
  rw [asgOf_eq]
  refine List.Pairwise.map (asg1 P) ?_ (List.Pairwise.and_mem.mp g.distinct)
  intro a b ⟨ha, hb, hab⟩
  obtain ⟨d, hd, hk, _, _, _⟩ := decl_of_setting P S g a ha
  obtain ⟨d', hd', hk', _, _, _⟩ := decl_of_setting P S g b hb
  have hne : d ≠ d' := by
    intro e; subst e
    rw [hk] at hk'
    simp [hk'] at hab
  rcases pairwise_mem (R := fun a b : Decl => incomparable a.key.segs b.key.segs = true)
    (fun {a b} hab => by simpa [incomparable, Bool.and_comm] using hab) g.incomp hd hd' with e | r
  · exact absurd e hne
  · rw [hk, hk'] at r
    exact diverge_skeys P _ _ r

theorem covered_asgOf (P : Parser) (S : Settings) (ns : KV) (hc : covers P S ns = true) : CoveredBy (asgOf P S) ns := by
  intro a ha
  rw [asgOf_eq] at ha
  obtain ⟨kv, hkv, rfl⟩ := List.mem_map.mp ha
  exact List.all_eq_true.mp hc kv hkv

/-- what each channel decodes to: the settings themselves, up to the order of assignment -/
theorem decode_render (P : Parser) (S : Settings) (g : Good P S) (c : Channel) :
    ∃ A, decode P (render P c S) = some A ∧ A.Perm (asgOf P S) := by
  cases c with
  | argv => exact ⟨_, decode_argv P S g, List.Perm.refl _⟩
  | cfgNested => exact decode_cfgNested P S g
  | cfgDotted => exact ⟨_, decode_cfgDotted P S g, docOrder_perm _⟩
  | objNested => exact decode_objNested P S g
  | objDotted => exact ⟨_, decode_objDotted P S g, docOrder_perm _⟩
  | env => exact decode_env P S g

/-! last writer among pairwise diverging assignments -/

theorem lastWrite_some_mem (k : List SKey) : ∀ (B : Asg) (w : V), lastWrite k B = some w → ∃ b ∈ B, b.1 = k
  | [], _, h => by simp [lastWrite] at h
  | b :: t, w, h => by
    simp only [lastWrite] at h
    cases hl2 : lastWrite k t with
    | some w' =>
      obtain ⟨b', hb', e'⟩ := lastWrite_some_mem k t w' hl2
      exact ⟨b', List.mem_cons_of_mem _ hb', e'⟩
    | none =>
      by_cases e2 : b.1 = k
      · exact ⟨b, by simp, e2⟩
      · simp [hl2, e2] at h

theorem lastWrite_of_mem (k : List SKey) (x : V) : ∀ (A : Asg), DivAsg A → (k, x) ∈ A → lastWrite k A = some x
  | [], _, h => by simp at h
  | a :: r, hd, h => by
    have hd' := List.pairwise_cons.mp hd
    simp only [lastWrite]
    rcases List.mem_cons.mp h with e | h'
    · subst e
      have : lastWrite k r = .none := by
        cases hl : lastWrite k r with
        | none => rfl
        | some w =>
          exfalso
          obtain ⟨b, hb, e'⟩ := lastWrite_some_mem k r w hl
          obtain ⟨c, a', b', p, q, h1, h2, hab⟩ := hd'.1 b hb
          rw [e'] at h2
          simp only at h1
          rw [h1] at h2
          have := List.append_cancel_left h2
          simp at this
          exact hab this.1
      simp [this]
    · rw [lastWrite_of_mem k x r hd'.2 h']

end Jap.Channels

import Jap.Core.Styles
import Jap.Lemmas.Validate
/-!
C07, recursive field lists: the parse fold reads the group options of a table only for items that use them, and
`validate` reads the whole-group flag of a group node only when the group key holds a string.
-/
namespace Jap.Validate

def TableR.withWholes (t : TableR) (w : List (List String)) : TableR := { t with wholes := w }

mutual
/-- a configuration tree holds a string at one of the paths `G` (the group keys) -/
def treeStrV (G : List (List String)) (p : List String) : Val → Bool
  | .str _ => G.contains p
  | .dict sub => treeStrKVs G p sub
  | _ => false
def treeStrKVs (G : List (List String)) (pre : List String) : KV → Bool
  | [] => false
  | (k, v) :: r => treeStrV G (pre ++ [k]) v || treeStrKVs G pre r
end

/-- the item assigns a group as a whole: the option / variable of a group key, or a string for a group key in a configuration -/
def ItemR.usesWhole (G : List (List String)) : ItemR → Bool
  | .wholeOpt _ _ => true
  | .wholeEnv _ _ => true
  | .tree kvs => treeStrKVs G [] kvs
  | .opt _ _ _ => false

theorem contains_false_of_subset {G w : List (List String)} {p : List String} (hw : ∀ q ∈ w, q ∈ G)
    (h : G.contains p = false) : w.contains p = false := by
  cases hc : w.contains p with
  | false => rfl
  | true =>
    have := hw p (by simpa using hc)
    have : G.contains p = true := by simpa using this
    rw [h] at this; cases this

mutual
theorem applyTreeKVs_wholes {ld : String → Val} {t : TableR} {w G : List (List String)}
    (h1 : ∀ q ∈ t.wholes, q ∈ G) (h2 : ∀ q ∈ w, q ∈ G) :
    ∀ (pre : List String) (kvs cfg : KV), treeStrKVs G pre kvs = false →
    applyTreeKVs ld (t.withWholes w) pre kvs cfg = applyTreeKVs ld t pre kvs cfg
  | _, [], _, _ => by simp [applyTreeKVs]
  | pre, (k, v) :: r, cfg, h => by
    simp only [treeStrKVs, Bool.or_eq_false_iff] at h
    simp only [applyTreeKVs]
    rw [applyTreeV_wholes h1 h2 (pre ++ [k]) v cfg h.1]
    cases applyTreeV ld t (pre ++ [k]) v cfg with
    | error e => rfl
    | ok cfg' => exact applyTreeKVs_wholes h1 h2 pre r cfg' h.2
theorem applyTreeV_wholes {ld : String → Val} {t : TableR} {w G : List (List String)}
    (h1 : ∀ q ∈ t.wholes, q ∈ G) (h2 : ∀ q ∈ w, q ∈ G) :
    ∀ (p : List String) (v : Val) (cfg : KV), treeStrV G p v = false →
    applyTreeV ld (t.withWholes w) p v cfg = applyTreeV ld t p v cfg
  | p, .dict sub, cfg, h => by
    simp only [treeStrV] at h
    simp only [applyTreeV]
    have e1 : (t.withWholes w).entryAt p = t.entryAt p := rfl
    have e2 : (t.withWholes w).isGroup p = t.isGroup p := rfl
    rw [e1, e2]
    cases t.entryAt p with
    | some e => rfl
    | none =>
      simp only []
      by_cases hg : t.isGroup p = true
      · simp only [hg, if_true]; exact applyTreeKVs_wholes h1 h2 p sub _ h
      · simp only [hg]; rfl
  | p, .str s, cfg, h => by
    simp only [treeStrV] at h
    simp only [applyTreeV]
    have e1 : (t.withWholes w).entryAt p = t.entryAt p := rfl
    rw [e1]
    cases t.entryAt p with
    | some e => rfl
    | none =>
      simp only []
      have a : (t.withWholes w).wholes.contains p = false := contains_false_of_subset h2 h
      have b : t.wholes.contains p = false := contains_false_of_subset h1 h
      rw [a, b]
  | p, .null, cfg, _ => by simp [applyTreeV]
  | p, .bool b, cfg, _ => by simp only [applyTreeV]; rfl
  | p, .int i, cfg, _ => by simp only [applyTreeV]; rfl
  | p, .flt f, cfg, _ => by simp only [applyTreeV]; rfl
  | p, .list xs, cfg, _ => by simp only [applyTreeV]; rfl
end

theorem applyItemsR_wholes {ld : String → Val} {t : TableR} {w G : List (List String)}
    (h1 : ∀ q ∈ t.wholes, q ∈ G) (h2 : ∀ q ∈ w, q ∈ G) :
    ∀ (items : List ItemR) (cfg : KV), (∀ it ∈ items, ItemR.usesWhole G it = false) →
    applyItemsR ld (t.withWholes w) items cfg = applyItemsR ld t items cfg
  | [], _, _ => rfl
  | it :: r, cfg, hu => by
    have hit := hu it List.mem_cons_self
    have hr : ∀ it' ∈ r, ItemR.usesWhole G it' = false := fun it' hm => hu it' (List.mem_cons_of_mem _ hm)
    have hstep : applyItemR ld (t.withWholes w) cfg it = applyItemR ld t cfg it := by
      cases it with
      | opt p plus raw => rfl
      | wholeOpt p v => simp [ItemR.usesWhole] at hit
      | wholeEnv p v => simp [ItemR.usesWhole] at hit
      | tree kvs =>
        simp only [ItemR.usesWhole] at hit
        exact applyTreeKVs_wholes h1 h2 [] kvs cfg hit
    simp only [applyItemsR]
    rw [hstep]
    cases applyItemR ld t cfg it with
    | error e => rfl
    | ok cfg' => exact applyItemsR_wholes h1 h2 r cfg' hr

/-! ## `validate` and the whole-group flags -/

mutual
/-- no group key of the spec holds a string in the configuration -/
def noStrV : Node → Val → Bool
  | .group _ _, .str _ => false
  | .group _ fs, .dict kvs => noStrKVs fs kvs
  | _, _ => true
def noStrKVs (fs : Fields) : KV → Bool
  | [] => true
  | (k, v) :: r =>
    (match assoc k fs with
     | some n => noStrV n v
     | none => true) && noStrKVs fs r
end

mutual
/-- the spec with every whole-group flag cleared -/
def eraseN : Node → Node
  | .group _ fs => .group false (eraseL fs)
  | n => n
def eraseL : Fields → Fields
  | [] => []
  | (k, n) :: r => (k, eraseN n) :: eraseL r
end

theorem assoc_eraseL (k : String) : ∀ (fs : Fields), assoc k (eraseL fs) = (assoc k fs).map eraseN
  | [] => by simp [eraseL, assoc]
  | (k', n) :: r => by
    simp only [eraseL, assoc]
    by_cases h : k' = k
    · simp [h]
    · simp only [h, if_false]; exact assoc_eraseL k r

theorem eraseN_sub (rq : Bool) (cs : Choices) : eraseN (.subcommands rq cs) = .subcommands rq cs := by
  rw [eraseN]
  intro _ _ h; cases h

theorem subOf_eraseL : ∀ (fs : Fields), subOf (eraseL fs) = subOf fs
  | [] => by simp [eraseL]
  | (k, n) :: r => by
    cases n with
    | subcommands rq cs => simp only [eraseL, eraseN_sub, subOf]
    | leaf ty req d => simp only [eraseL, eraseN, subOf]; exact subOf_eraseL r
    | group w g => simp only [eraseL, eraseN, subOf]; exact subOf_eraseL r
    | classArg req imp cls => simp only [eraseL, eraseN, subOf]; exact subOf_eraseL r
    | listOf req it => simp only [eraseL, eraseN, subOf]; exact subOf_eraseL r
    | optGroup req ogfs => simp only [eraseL, eraseN, subOf]; exact subOf_eraseL r

theorem selected_eraseL (fs : Fields) (kvs : KV) : selected (eraseL fs) kvs = selected fs kvs := by
  unfold selected; rw [subOf_eraseL]

mutual
theorem reqFields_erase : ∀ (pre : Path) (cut : Nat) (kvs : KV) (fs : Fields),
    reqFields pre cut kvs (eraseL fs) = reqFields pre cut kvs fs
  | _, _, _, [] => by simp [eraseL]
  | pre, cut, kvs, (name, node) :: r => by
    simp only [eraseL]
    rw [reqFields_cons, reqFields_cons, reqNode_erase pre cut kvs name node, reqFields_erase pre cut kvs r]
theorem reqNode_erase : ∀ (pre : Path) (cut : Nat) (kvs : KV) (name : String) (node : Node),
    reqNode pre cut kvs name (eraseN node) = reqNode pre cut kvs name node
  | pre, cut, kvs, name, .group w gfs => by
    rw [eraseN, reqNode_group, reqNode_group]
    exact reqFields_erase _ _ _ gfs
  | _, _, _, _, .leaf ty req d => by simp [eraseN]
  | _, _, _, _, .classArg req imp cls => by simp [eraseN]
  | _, _, _, _, .listOf req it => by simp [eraseN]
  | _, _, _, _, .optGroup req ogfs => by simp [eraseN]
  | _, _, _, _, .subcommands rq cs => by rw [eraseN_sub]
end

theorem slotOf_eraseL (fs : Fields) (k : String) :
    slotOf (eraseL fs) k = (match slotOf fs k with | .field n => .field (eraseN n) | s => s) := by
  unfold slotOf
  rw [assoc_eraseL, subOf_eraseL]
  cases assoc k fs with
  | some n => rfl
  | none =>
    simp only [Option.map_none]
    cases subOf fs with
    | none => rfl
    | some t =>
      obtain ⟨d, rq, cs⟩ := t
      simp only []
      cases assoc k cs <;> rfl

theorem appendSlot_eraseL (fs : Fields) (k : String) : appendSlot (eraseL fs) k = appendSlot fs k := by
  unfold appendSlot
  cases plusBase k with
  | none => rfl
  | some b =>
    simp only [assoc_eraseL]
    cases assoc b fs with
    | none => rfl
    | some n =>
      cases n with
      | group w gfs => simp [eraseN, appendable]
      | leaf ty rq d => simp [eraseN]
      | classArg rq imp cls => simp [eraseN]
      | listOf rq it => simp [eraseN]
      | optGroup rq ogfs => simp [eraseN]
      | subcommands rq cs => simp [eraseN_sub]

mutual
/-- **`validate` does not read the whole-group flags unless a group key holds a string** -/
theorem chkVal_erase {ld : String → Val} : ∀ (pre : Path) (cut : Nat) (item : Bool) (n : Node) (v : Val),
    noStrV n v = true → chkVal ld pre cut item (eraseN n) v = chkVal ld pre cut item n v
  | pre, cut, item, .group w fs, .dict kvs, h => by
    simp only [noStrV] at h
    rw [eraseN, chkVal_group_dict, chkVal_group_dict, selected_eraseL, reqFields_erase]
    rw [walk_erase pre pre.length fs (selected fs kvs) kvs h, walk_erase pre cut fs (selected fs kvs) kvs h]
  | _, _, _, .group w fs, .str s, h => by simp [noStrV] at h
  | _, _, _, .group w fs, .null, _ => by rw [eraseN, chkVal, chkVal] <;> simp
  | _, _, _, .group w fs, .bool b, _ => by rw [eraseN, chkVal, chkVal] <;> simp
  | _, _, _, .group w fs, .int i, _ => by rw [eraseN, chkVal, chkVal] <;> simp
  | _, _, _, .group w fs, .flt f, _ => by rw [eraseN, chkVal, chkVal] <;> simp
  | _, _, _, .group w fs, .list xs, _ => by rw [eraseN, chkVal, chkVal] <;> simp
  | _, _, _, .leaf ty req d, _, _ => by simp [eraseN]
  | _, _, _, .classArg req imp cls, _, _ => by simp [eraseN]
  | _, _, _, .listOf req it, _, _ => by simp [eraseN]
  | _, _, _, .optGroup req ogfs, _, _ => by simp [eraseN]
  | _, _, _, .subcommands rq cs, _, _ => by rw [eraseN_sub]
theorem walk_erase {ld : String → Val} : ∀ (pre : Path) (cut : Nat) (fs : Fields) (sel : Option String) (kvs : KV),
    noStrKVs fs kvs = true → walk ld pre cut (eraseL fs) sel kvs = walk ld pre cut fs sel kvs
  | _, _, _, _, [], _ => by rw [walk_nil, walk_nil]
  | pre, cut, fs, sel, (k, v) :: r, h => by
    simp only [noStrKVs, Bool.and_eq_true] at h
    rw [walk_cons, walk_cons, walk_erase pre cut fs sel r h.2]
    congr 1
    unfold entry
    rw [slotOf_eraseL]
    cases hs : slotOf fs k with
    | field n =>
      simp only []
      have hn : assoc k fs = some n := slotOf_field hs
      have hv : noStrV n v = true := by simpa [hn] using h.1
      exact chkVal_erase (pre ++ [.key k]) cut false n v hv
    | sect cfs => rfl
    | none => simp only [appendSlot_eraseL]
end

theorem validate_erase {ld : String → Val} (fs : Fields) (kvs : KV) (h : noStrKVs fs kvs = true) :
    validate ld (eraseL fs) kvs = validate ld fs kvs := by
  rw [validate_eq, validate_eq, selected_eraseL, reqFields_erase, walk_erase _ _ _ _ _ h]

mutual
theorem specF_erase : ∀ (w : Bool) (f : FieldR), ((specF w f).1, eraseN (specF w f).2) = specF false f
  | w, .leaf n ty d s => by simp [specF, eraseN]
  | w, .sub n dn fs => by simp only [specF, eraseN, specL_erase w fs]
theorem specL_erase : ∀ (w : Bool) (fs : List FieldR), eraseL (specL w fs) = specL false fs
  | _, [] => by simp [specL, eraseL]
  | w, f :: r => by
    simp only [specL]
    have := specF_erase w f
    cases hsf : specF w f with
    | mk k n =>
      rw [hsf] at this
      simp only [eraseL, specL_erase w r]
      rw [← this]
end

theorem specR_erase (w : Bool) (key : String) (fields : List FieldR) : eraseL (specR w key fields) = specR false key fields := by
  simp [specR, eraseL, eraseN, specL_erase]

end Jap.Validate

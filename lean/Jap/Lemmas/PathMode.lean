/-
Helper definitions and lemmas for C19 (engine PathMode): the regenerated flag
table as a `FlagTable`, the flag-by-flag meaning of a mode (`SatDoc`: the class
docstring's reading, `SatCode`: what the code tests), the generic "first raise"
lemma, and the bracket lemmas of the config-loading model.
-/
import Jap.Core.PathMode
import Jap.Gen.PathFlags

namespace Jap.PathMode

/-- the rules of `_check_mode` as regenerated from the source -/
def table : FlagTable := ⟨Jap.Gen.pathFlagAlphabet, Jap.Gen.pathFlagMaxCount, Jap.Gen.pathFlagExcl⟩

/-! ### meaning of a mode, flag by flag -/

/-- the flags of the docstring; `c` given twice is a flag of its own -/
inductive Flag | f | d | r | w | x | c | cc | F | D | R | W | X | u | s
deriving DecidableEq, Repr

def Flag.all : List Flag := [.f, .d, .r, .w, .x, .c, .cc, .F, .D, .R, .W, .X, .u, .s]

theorem Flag.mem_all (fl : Flag) : fl ∈ Flag.all := by cases fl <;> simp [Flag.all]

def Mode.has (m : Mode) : Flag → Bool
  | .f => m.f | .d => m.d | .r => m.r | .w => m.w | .x => m.x
  | .c => m.c == 1 | .cc => m.c == 2
  | .F => m.F | .D => m.D | .R => m.R | .W => m.W | .X => m.X | .u => m.u | .s => m.s

/-- The class docstring, flag by flag.  "it is checked that the path exists,
whether it is a file or directory and whether it has the required access
permissions (f=file, d=directory, r=readable, w=writeable, x=executable,
c=creatable, u=url, s=fsspec or in uppercase meaning not …).  The creatable flag
c can be given one or two times.  If given once, the parent directory must exist
and be writeable.  If given twice, the parent directory does not have to exist,
but should be allowed to create."
* `f`/`d`: the path exists (unless it may be created) and, when it exists, is a
  file (regular file or FIFO, as without `c`) / a directory;
* `c`: the parent is a directory and writeable;
* `cc`: the nearest *existing* ancestor is a writeable directory;
* `r w x`: `os.access`; upper case: the negation; `u s`: permit, never demand. -/
def SatDoc (m : Mode) (a : Facts) : Flag → Prop
  | .f => (m.c = 0 → a.ex = true) ∧ (a.ex = true → a.isFile = true ∨ a.isFifo = true)
  | .d => (m.c = 0 → a.ex = true) ∧ (a.ex = true → a.isDir = true)
  | .r => a.r = true
  | .w => a.w = true
  | .x => a.x = true
  | .c => a.parDir = true ∧ a.parW = true
  | .cc => a.nearDir = true ∧ a.nearW = true
  | .F => a.isFile = false ∧ a.isFifo = false
  | .D => a.isDir = false
  | .R => a.r = false
  | .W => a.w = false
  | .X => a.x = false
  | .u => True
  | .s => True

instance (m : Mode) (a : Facts) (fl : Flag) : Decidable (SatDoc m a fl) := by
  cases fl <;> unfold SatDoc <;> infer_instance

/-- executable form of "every flag of the mode is satisfied" (used by the driver) -/
def satAllDoc (m : Mode) (a : Facts) : Bool := Flag.all.all (fun fl => !m.has fl || decide (SatDoc m a fl))

theorem satAllDoc_iff (m : Mode) (a : Facts) : satAllDoc m a = true ↔ ∀ fl, m.has fl = true → SatDoc m a fl := by
  unfold satAllDoc
  rw [List.all_eq_true]
  constructor
  · intro h fl hfl
    have := h fl (Flag.mem_all fl)
    simpa [hfl] using this
  · intro h fl _
    cases hfl : m.has fl
    · simp
    · simpa using h fl hfl

/-! ### first raise -/

theorem firstRaise_ok {l : List (Bool × Out)} (h : l.all (fun p => p.2 != .ok) = true) :
    firstRaise l = .ok ↔ l.all (fun p => !p.1) = true := by
  induction l with
  | nil => simp [firstRaise]
  | cons p r ih =>
    obtain ⟨b, o⟩ := p
    simp only [List.all_cons, Bool.and_eq_true, bne_iff_ne, ne_eq] at h
    have ih' := ih h.2
    cases b <;> simp [firstRaise, ih', h.1]

theorem firstRaise_mem {l : List (Bool × Out)} (h : firstRaise l ≠ .ok) : ∃ p ∈ l, p.1 = true ∧ firstRaise l = p.2 := by
  induction l with
  | nil => simp [firstRaise] at h
  | cons p r ih =>
    obtain ⟨b, o⟩ := p
    cases b
    · simp only [firstRaise, Bool.false_eq_true, ↓reduceIte] at h ⊢
      obtain ⟨q, hq, h1, h2⟩ := ih h
      exact ⟨q, List.mem_cons_of_mem _ hq, h1, h2⟩
    · exact ⟨(true, o), by simp, rfl, by simp [firstRaise]⟩

theorem checks_ne_ok (m : Mode) (a : Facts) : (checks m a).all (fun p => p.2 != .ok) = true := by
  unfold checks
  split <;> (try split) <;> simp

/-- the constructor succeeds exactly when every flag is satisfied as the docstring describes it -/
theorem accept_doc (m : Mode) (a : Facts) (hw : a.wf) (hv : ValidMode m) :
    checkPath m a = .ok ↔ ∀ fl, m.has fl = true → SatDoc m a fl := by
  unfold checkPath
  rw [firstRaise_ok (checks_ne_ok m a)]
  obtain ⟨f, d, r, w, x, F, D, R, W, X, u, s, c⟩ := m
  obtain ⟨hc, _, _, _⟩ := hv
  simp only at hc
  obtain ⟨h1, h2, h3, h4, h5, h6, h7, h8, h9, h10, h11, h12⟩ := hw
  constructor
  · intro h fl hfl
    match c, hc with
    | 0, _ =>
      simp [checks] at h
      cases fl <;> simp [Mode.has] at hfl <;> simp [SatDoc] <;> grind
    | 1, _ =>
      simp [checks] at h
      cases fl <;> simp [Mode.has] at hfl <;> simp [SatDoc] <;> grind
    | 2, _ =>
      simp [checks] at h
      cases fl <;> simp [Mode.has] at hfl <;> simp [SatDoc] <;> grind
  · intro h
    have hf := h .f; have hd := h .d; have hr := h .r; have hw := h .w; have hx := h .x
    have hc1 := h .c; have hc2 := h .cc; have hF := h .F; have hD := h .D; have hR := h .R; have hW := h .W; have hX := h .X
    clear h
    match c, hc with
    | 0, _ =>
      simp [Mode.has, SatDoc] at hf hd hr hw hx hc1 hc2 hF hD hR hW hX
      simp [checks]
      grind (splits := 40)
    | 1, _ =>
      simp [Mode.has, SatDoc] at hf hd hr hw hx hc1 hc2 hF hD hR hW hX
      simp [checks]
      grind (splits := 40)
    | 2, _ =>
      simp [Mode.has, SatDoc] at hf hd hr hw hx hc1 hc2 hF hD hR hW hX
      simp [checks]
      grind (splits := 40)

/-! ### the code before commits 5706b13 / f765cf2 (regression record) -/

/-- the `c` branch as it was: the ancestor search skipped every non-directory
(`ancDir`/`ancW`: the nearest ancestor that *is a directory* / is writeable), and
`f` under `c` asked for `os.path.isfile` only -/
def checkPathPreFix (m : Mode) (a : Facts) (ancDir ancW : Bool) : Out :=
  if m.c > 0 then
    firstRaise
      ([ (!(a.parDir || (m.c == 2 && ancDir)), .pathError 1),
         (!(if a.parDir then a.parW else ancW), .pathError 2),
         (m.d && a.ex && !a.isDir, .pathError 3),
         (m.f && a.ex && !a.isFile, .pathError 4) ] ++ (checks { m with c := 0, f := false, d := false } a))
  else checkPath m a

/-! ### no OS error escapes -/

def Out.good : Out → Bool
  | .pathError k => decide (1 ≤ k) && decide (k ≤ 15)
  | .osError => true
  | .ok => false

theorem checks_good (m : Mode) (a : Facts) : (checks m a).all (fun p => p.2.good) = true := by
  unfold checks
  split <;> (try split) <;> simp [Out.good]

theorem firstRaise_ne_of_all {l : List (Bool × Out)} {o : Out} (ho : o ≠ .ok)
    (h : l.all (fun p => !p.1 || p.2 != o) = true) : firstRaise l ≠ o := by
  induction l with
  | nil => simpa [firstRaise] using ho.symm
  | cons p r ih =>
    obtain ⟨b, o'⟩ := p
    simp only [List.all_cons, Bool.and_eq_true] at h
    cases b
    · simpa [firstRaise] using ih h.2
    · simpa [firstRaise] using h.1

theorem checkPath_ne_os (m : Mode) (a : Facts) (hst : a.statOk = a.ex) : checkPath m a ≠ .osError := by
  unfold checkPath
  cases hex : a.ex
  · unfold checks
    split
    · exact firstRaise_ne_of_all (by decide) (by simp)
    · split
      · simp [firstRaise, hex]
      · exact firstRaise_ne_of_all (by decide) (by simp)
  · apply firstRaise_ne_of_all (by decide)
    unfold checks
    split <;> (try split) <;> simp [hst, hex]

theorem checkPath_pathError (m : Mode) (a : Facts) (hst : a.statOk = a.ex) (h : checkPath m a ≠ .ok) :
    ∃ k, 1 ≤ k ∧ k ≤ 15 ∧ checkPath m a = .pathError k := by
  obtain ⟨p, hp, _, he⟩ := firstRaise_mem h
  have hg := List.all_eq_true.mp (checks_good m a) p hp
  have hne := checkPath_ne_os m a hst
  unfold checkPath at hne ⊢
  rw [he] at hne ⊢
  cases hp2 : p.2 with
  | ok => simp [hp2, Out.good] at hg
  | osError => exact absurd hp2 hne
  | pathError k =>
    simp [hp2, Out.good] at hg
    exact ⟨k, hg.1, hg.2, rfl⟩
/-! ### absolute paths -/

theorem isAbs_append {a b : P} (h : isAbs a = true) : isAbs (a ++ b) = true := by
  cases a with
  | nil => simp [isAbs] at h
  | cons c t =>
    by_cases hc : c = '/'
    · subst hc; simp [isAbs]
    · unfold isAbs at h; split at h <;> simp_all

/-! ### the bracket -/

mutual
theorem runItem_spec : ∀ (i : Item) (s : St),
    (runItem i s).st = s ∧ (runItem i s).trace <+: specItem s.cwd i ∧
    ((runItem i s).ok = true → (runItem i s).trace = specItem s.cwd i) ∧
    (runItem i s).ok = (noFailItem i && stableItem s.cwd i)
  | .path rel, s => by simp [runItem, specItem, noFailItem, stableItem]
  | .fail, s => by simp [runItem, specItem, noFailItem, stableItem]
  | .listFile ref rels, s => by
    simp only [runItem, specItem, noFailItem, stableItem, leave, enter]
    cases listRefStable s.cwd ref <;> simp
  | .sub ref items, s => by
    have ih := runItems_spec items (enter s (cfgDir s.cwd ref))
    simp only [runItem, specItem, noFailItem, stableItem, leave]
    refine ⟨trivial, ?_, ?_, ?_⟩
    · simpa [enter] using ih.2.1
    · simpa [enter] using ih.2.2.1
    · simpa [enter] using ih.2.2.2
  | .subObj ref rem isDir items, s => by
    have ih := runItems_spec items (enter s (objDir ref rem isDir))
    simp only [runItem, specItem, noFailItem, stableItem, leave]
    refine ⟨trivial, ?_, ?_, ?_⟩
    · simpa [enter] using ih.2.1
    · simpa [enter] using ih.2.2.1
    · simpa [enter] using ih.2.2.2
theorem runItems_spec : ∀ (l : List Item) (s : St),
    (runItems l s).st = s ∧ (runItems l s).trace <+: specItems s.cwd l ∧
    ((runItems l s).ok = true → (runItems l s).trace = specItems s.cwd l) ∧
    (runItems l s).ok = (noFailItems l && stableItems s.cwd l)
  | [], s => by simp [runItems, specItems, noFailItems, stableItems]
  | i :: rest, s => by
    have h1 := runItem_spec i s
    have h2 := runItems_spec rest s
    simp only [runItems, specItems, noFailItems, stableItems]
    cases hok : (runItem i s).ok
    · simp only [Bool.false_eq_true, ↓reduceIte]
      refine ⟨h1.1, ?_, ?_, ?_⟩
      · exact List.IsPrefix.trans h1.2.1 (List.prefix_append _ _)
      · intro h; rw [hok] at h; cases h
      · have hb : (noFailItem i && stableItem s.cwd i) = false := by rw [← h1.2.2.2, hok]
        rw [hok]
        rcases (Bool.and_eq_false_iff.mp hb) with hb | hb <;> simp [hb]
    · simp only [↓reduceIte, h1.1]
      refine ⟨h2.1, ?_, ?_, ?_⟩
      · rw [h1.2.2.1 hok]
        exact (List.prefix_append_right_inj _).mpr h2.2.1
      · intro h
        rw [h1.2.2.1 hok, h2.2.2.1 h]
      · have hb : (noFailItem i && stableItem s.cwd i) = true := by rw [← h1.2.2.2, hok]
        have hb' := Bool.and_eq_true_iff.mp hb
        rw [h2.2.2.2]
        simp [hb'.1, hb'.2]
end

/-- running a sequence is running its parts one after the other (when the first part succeeds) -/
theorem runItems_append (l1 l2 : List Item) (s : St) (h : (runItems l1 s).ok = true) :
    (runItems (l1 ++ l2) s).trace = (runItems l1 s).trace ++ (runItems l2 s).trace ∧
    (runItems (l1 ++ l2) s).ok = (runItems l2 s).ok ∧ (runItems (l1 ++ l2) s).st = s := by
  induction l1 with
  | nil => simp [runItems, (runItems_spec l2 s).1]
  | cons i rest ih =>
    have hst := (runItem_spec i s).1
    simp only [runItems, List.cons_append] at h ⊢
    cases hok : (runItem i s).ok
    · simp [hok] at h
    · simp only [hok, ↓reduceIte, hst] at h ⊢
      have ih' := ih h
      simp [ih'.1, ih'.2.1, ih'.2.2, List.append_assoc]

end Jap.PathMode

import Jap.Lemmas.SourcesFold
/-!
Stage lemmas of the C04 proof: every stage of the model pipeline (`refStep`-like argv items, `mergeConfig`,
`applyConfig`, `getDefaults`, `loadEnv` + merge) acts on the value of every destination exactly as the
corresponding slice of the flattened sources does in the reference (`evalKey`), and preserves the invariant.
-/
namespace Jap.Src
open Jap.NS

/-! ### `key+` names -/

theorem baseSeg_plusSeg (s : SKey) : baseSeg (plusSeg s) = s := by
  cases s with
  | mk m n => simp [baseSeg, plusSeg, String.ofList_toList]

theorem isPlusSeg_plusSeg (s : SKey) : isPlusSeg (plusSeg s) = true := by
  simp [isPlusSeg, plusSeg]

theorem base_plus : ∀ k : Key, base (plus k) = k
  | [] => rfl
  | [s] => by simp [plus, base, baseSeg_plusSeg]
  | s :: t :: r => by
    have ih := base_plus (t :: r)
    cases hpl : plus (t :: r) with
    | nil => cases r <;> simp [plus] at hpl
    | cons x xs =>
      rw [hpl] at ih
      simp [plus, base, hpl, ih]

theorem isPlus_plus : ∀ k : Key, k ≠ [] → isPlus (plus k) = true
  | [], h => absurd rfl h
  | [s], _ => by simp [plus, isPlus, isPlusSeg_plusSeg]
  | s :: t :: r, _ => by
    have ih := isPlus_plus (t :: r) (by simp)
    cases hpl : plus (t :: r) with
    | nil => cases r <;> simp [plus] at hpl
    | cons x xs =>
      rw [hpl] at ih
      simp [plus, isPlus, hpl, ih]

theorem plus_inj {a b : Key} (h : plus a = plus b) : a = b := by
  rw [← base_plus a, ← base_plus b, h]

/-! ### what `wfParser` gives -/

theorem divergeB_irrefl : ∀ k : Key, divergeB k k = false
  | [] => rfl
  | a :: r => by simp [divergeB, divergeB_irrefl r]

theorem pairwiseDiv_spec : ∀ l : List Key, pairwiseDiv l = true → ∀ x ∈ l, ∀ y ∈ l, x ≠ y → Diverge x y
  | [], _, x, hx, _, _, _ => by simp at hx
  | k :: r, h, x, hx, y, hy, hne => by
    simp only [pairwiseDiv, Bool.and_eq_true, List.all_eq_true] at h
    rcases List.mem_cons.mp hx with hx1 | hx1 <;> rcases List.mem_cons.mp hy with hy1 | hy1
    · exact absurd (hx1.trans hy1.symm) hne
    · rw [hx1]; exact divergeB_sound _ _ (h.1 y hy1)
    · rw [hy1]; exact diverge_symm (divergeB_sound _ _ (h.1 x hx1))
    · exact pairwiseDiv_spec r h.2 x hx1 y hy1 hne

theorem pairwiseDiv_nodup : ∀ l : List Key, pairwiseDiv l = true → l.Nodup
  | [], _ => by simp
  | k :: r, h => by
    simp only [pairwiseDiv, Bool.and_eq_true, List.all_eq_true] at h
    refine List.nodup_cons.mpr ⟨fun hm => ?_, pairwiseDiv_nodup r h.2⟩
    have := h.1 k hm
    rw [divergeB_irrefl] at this
    exact Bool.noConfusion this

theorem inj_of_nodup_map : ∀ (l : List Arg), (l.map (fun a => a.dest)).Nodup → ∀ a ∈ l, ∀ b ∈ l, a.dest = b.dest → a = b
  | [], _, a, ha, _, _, _ => by simp at ha
  | c :: r, h, a, ha, b, hb, e => by
    simp only [List.map_cons, List.nodup_cons, List.mem_map, not_exists, not_and] at h
    rcases List.mem_cons.mp ha with ha1 | ha1 <;> rcases List.mem_cons.mp hb with hb1 | hb1
    · rw [ha1, hb1]
    · rw [ha1] at e; exact absurd e.symm (h.1 b hb1)
    · rw [hb1] at e; exact absurd e (h.1 a ha1)
    · exact inj_of_nodup_map r h.2 a ha1 b hb1 e

section
variable {p : Parser} (hp : wfParser p = true)
include hp

theorem wf_pairwise : pairwiseDiv (allKeys p) = true := by
  simp only [wfParser, Bool.and_eq_true] at hp; exact hp.1

theorem wf_arg {a : Arg} (ha : a ∈ p.args) : isPlus a.dest = false ∧ a.dest ≠ [] ∧ nonNs a.default = true := by
  simp only [wfParser, Bool.and_eq_true, List.all_eq_true, Bool.not_eq_true', List.isEmpty_eq_false_iff] at hp
  have := hp.2 a ha
  exact ⟨this.1.1, this.1.2, this.2⟩

omit hp in
theorem dest_mem_allKeys {a : Arg} (ha : a ∈ p.args) : a.dest ∈ allKeys p := by
  simp only [allKeys, List.mem_append, List.mem_map]
  exact Or.inl ⟨a, ha, rfl⟩

omit hp in
theorem plus_mem_allKeys {a : Arg} (ha : a ∈ p.args) (hl : a.kind = .list) : plus a.dest ∈ allKeys p := by
  simp only [allKeys, List.mem_append, List.mem_map, List.mem_filter, decide_eq_true_eq]
  exact Or.inr ⟨a, ⟨ha, hl⟩, rfl⟩

omit hp in
theorem allKeys_cases {x : Key} (hx : x ∈ allKeys p) :
    (∃ a ∈ p.args, x = a.dest) ∨ (∃ a ∈ p.args, a.kind = .list ∧ x = plus a.dest) := by
  simp only [allKeys, List.mem_append, List.mem_map, List.mem_filter, decide_eq_true_eq] at hx
  rcases hx with ⟨a, ha, e⟩ | ⟨a, ⟨ha, hl⟩, e⟩
  · exact Or.inl ⟨a, ha, e.symm⟩
  · exact Or.inr ⟨a, ha, hl, e.symm⟩

theorem plusKey_cases {x : Key} (hx : x ∈ allKeys p) (hpl : isPlus x = true) :
    ∃ a ∈ p.args, a.kind = .list ∧ x = plus a.dest := by
  rcases allKeys_cases hx with ⟨a, ha, e⟩ | h
  · rw [e, (wf_arg hp ha).1] at hpl; exact Bool.noConfusion hpl
  · exact h

theorem plainKey_cases {x : Key} (hx : x ∈ allKeys p) (hpl : isPlus x = false) : ∃ a ∈ p.args, x = a.dest := by
  rcases allKeys_cases hx with h | ⟨a, ha, _, e⟩
  · exact h
  · rw [e, isPlus_plus _ (wf_arg hp ha).2.1] at hpl; exact Bool.noConfusion hpl

theorem wf_div {x y : Key} (hx : x ∈ allKeys p) (hy : y ∈ allKeys p) (hne : x ≠ y) : Diverge x y :=
  pairwiseDiv_spec _ (wf_pairwise hp) x hx y hy hne

theorem dest_inj {a b : Arg} (ha : a ∈ p.args) (hb : b ∈ p.args) (e : a.dest = b.dest) : a = b := by
  have hnd := pairwiseDiv_nodup _ (wf_pairwise hp)
  simp only [allKeys] at hnd
  exact inj_of_nodup_map p.args (List.nodup_append.mp hnd).1 a ha b hb e

theorem plus_ne_dest {a b : Arg} (ha : a ∈ p.args) (hb : b ∈ p.args) : plus b.dest ≠ a.dest := by
  intro e
  have h1 := isPlus_plus _ (wf_arg hp hb).2.1
  rw [e, (wf_arg hp ha).1] at h1
  exact Bool.noConfusion h1

theorem div_dest_dest {a b : Arg} (ha : a ∈ p.args) (hb : b ∈ p.args) (hne : b.dest ≠ a.dest) : Diverge b.dest a.dest :=
  wf_div hp (dest_mem_allKeys hb) (dest_mem_allKeys ha) hne

theorem div_plus_dest {a b : Arg} (ha : a ∈ p.args) (hb : b ∈ p.args) (hl : b.kind = .list) : Diverge (plus b.dest) a.dest :=
  wf_div hp (plus_mem_allKeys hb hl) (dest_mem_allKeys ha) (plus_ne_dest hp ha hb)

theorem div_plus_plus {a b : Arg} (ha : a ∈ p.args) (hb : b ∈ p.args) (hla : a.kind = .list) (hlb : b.kind = .list)
    (hne : b.dest ≠ a.dest) : Diverge (plus b.dest) (plus a.dest) :=
  wf_div hp (plus_mem_allKeys hb hlb) (plus_mem_allKeys ha hla) (fun e => hne (plus_inj e))

theorem findArg_dest {a : Arg} (ha : a ∈ p.args) : findArg p a.dest = some a := by
  cases h : findArg p a.dest with
  | none =>
    simp only [findArg, List.find?_eq_none, decide_eq_true_eq] at h
    exact absurd rfl (h a ha)
  | some b =>
    simp only [findArg] at h
    have hb := List.mem_of_find?_eq_some h
    have he := List.find?_some h
    simp only [decide_eq_true_eq] at he
    rw [dest_inj hp hb ha he]

omit hp in
theorem findArg_some {k : Key} {b : Arg} (h : findArg p k = some b) : b ∈ p.args ∧ b.dest = k := by
  simp only [findArg] at h
  have he := List.find?_some h
  simp only [decide_eq_true_eq] at he
  exact ⟨List.mem_of_find?_eq_some h, he⟩

omit hp in
theorem isDest_spec {k : Key} (h : isDest p k = true) : ∃ b ∈ p.args, k = b.dest := by
  simp only [isDest, List.any_eq_true, decide_eq_true_eq] at h
  obtain ⟨b, hb, e⟩ := h
  exact ⟨b, hb, e.symm⟩

/-! ### the invariant of the namespace being built -/

structure Inv (p : Parser) (c : KV) : Prop where
  uniq : uniqKV c
  keys : ∀ x ∈ leaves c, ∃ a ∈ p.args, x.1 = a.dest
  clean : ∀ a ∈ p.args, a.kind = .list → getK (plus a.dest) c = .none
  leafVal : ∀ a ∈ p.args, ∀ v, getK a.dest c = some v → nonNs v = true

omit hp in
theorem inv_nil : Inv p [] :=
  ⟨by simp [uniqKV], by simp [leaves], fun _ _ _ => getK_nil _, fun _ _ v h => by rw [getK_nil] at h; simp at h⟩

omit hp in
theorem uniqV_of_nonNs {v : V} (h : nonNs v = true) : uniqV v := by
  cases v <;> simp_all [uniqV, nonNs]

theorem getK_setK_dest {a b : Arg} (ha : a ∈ p.args) (hb : b ∈ p.args) (v : V) (c : KV) :
    getK a.dest (setK b.dest v c) = if b.dest = a.dest then some v else getK a.dest c := by
  by_cases e : b.dest = a.dest
  · rw [if_pos e, e, getK_setK_same _ v c (wf_arg hp ha).2.1]
  · rw [if_neg e, getK_setK_of_diverge (div_dest_dest hp ha hb e)]

theorem inv_setK {b : Arg} (hb : b ∈ p.args) {v : V} (hv : nonNs v = true) {c : KV} (hi : Inv p c) :
    Inv p (setK b.dest v c) := by
  refine ⟨uniq_setK _ _ _ (uniqV_of_nonNs hv) hi.uniq, ?_, ?_, ?_⟩
  · intro x hx
    rcases leaves_setK _ _ _ x hv hx with h | h
    · exact ⟨b, hb, by rw [h]⟩
    · exact hi.keys x h
  · intro a ha hl
    rw [getK_setK_of_diverge (diverge_symm (div_plus_dest hp hb ha hl))]
    exact hi.clean a ha hl
  · intro a ha w hw
    rw [getK_setK_dest hp ha hb] at hw
    by_cases e : b.dest = a.dest
    · rw [if_pos e] at hw; simp only [Option.some.injEq] at hw; rw [← hw]; exact hv
    · rw [if_neg e] at hw; exact hi.leafVal a ha w hw

/-! ### a single assignment (`--k=v`, `--k+=v`, `--k.i=v`, a default, an environment variable) -/

def Assign.valOk : Assign → Bool
  | .set _ v => nonNs v
  | _ => true

omit hp in
theorem refStep_eq' (c : KV) (s : Assign) : ∃ v, refStep c s = setK s.key v c ∧ stepKey s.key (getK s.key c) s = some v
    ∧ (s.valOk = true → nonNs v = true) := by
  cases s with
  | set k v => exact ⟨v, rfl, by simp [stepKey, Assign.key], fun h => h⟩
  | append k v => exact ⟨_, rfl, by simp [stepKey, Assign.key], fun _ => rfl⟩
  | item k i v => exact ⟨_, rfl, by simp [stepKey, Assign.key], fun _ => rfl⟩
  | note k => exact ⟨_, rfl, by simp [stepKey, Assign.key], fun _ => rfl⟩

theorem stage_refStep {a : Arg} (ha : a ∈ p.args) (s : Assign) (hs : ∃ b ∈ p.args, s.key = b.dest) (hv : s.valOk = true)
    {c : KV} (hi : Inv p c) :
    getK a.dest (refStep c s) = stepKey a.dest (getK a.dest c) s ∧ Inv p (refStep c s) := by
  obtain ⟨b, hb, e⟩ := hs
  obtain ⟨v, h1, _, h3⟩ := refStep_eq' c s
  constructor
  · apply getK_refStep _ (wf_arg hp ha).2.1
    by_cases e2 : b.dest = a.dest
    · exact Or.inl (e.trans e2)
    · exact Or.inr (e ▸ div_dest_dest hp ha hb e2)
  · rw [h1, e]
    exact inv_setK hp hb (h3 hv) hi

/-! ### `apply_appends` -/

theorem appendStep_plus {b : Arg} (hb : b ∈ p.args) (hl : b.kind = .list) (c : KV) (w : V) :
    appendStep p c (plus b.dest, w) =
      match getK (plus b.dest) c with
      | some v => delK (plus b.dest) (setK b.dest (appendVal (getK b.dest c) v) c)
      | .none => c := by
  simp only [appendStep, base_plus, findArg_dest hp hb, hl, if_true]
  rfl

omit hp in
theorem leaves_appendStep (c : KV) (kv : Key × V) (x : Key × V) (hx : x ∈ leaves (appendStep p c kv)) :
    x ∈ leaves c ∨ ∃ a ∈ p.args, x.1 = a.dest := by
  unfold appendStep at hx
  split at hx
  · rename_i a hfa
    split at hx
    · split at hx
      · rcases leaves_setK _ _ _ x rfl (leaves_delK _ _ x hx) with h | h
        · exact Or.inr ⟨a, (findArg_some hfa).1, by rw [h]⟩
        · exact Or.inl h
      · exact Or.inl hx
    · exact Or.inl hx
  · exact Or.inl hx

omit hp in
theorem leaves_appendFold : ∀ (l : List (Key × V)) (c : KV) (x : Key × V), x ∈ leaves (l.foldl (appendStep p) c) →
    x ∈ leaves c ∨ ∃ a ∈ p.args, x.1 = a.dest
  | [], _, _, h => Or.inl h
  | kv :: rest, c, x, h => by
    rcases leaves_appendFold rest _ x h with h | h
    · exact leaves_appendStep c kv x h
    · exact Or.inr h

/-- the loop of `apply_appends` over any list of known `key+` keys, seen from one destination -/
theorem appendFold {a : Arg} (ha : a ∈ p.args) : ∀ (l : List (Key × V)) (c : KV),
    uniqKV c →
    (∀ x ∈ l, isPlus x.1 = true ∧ x.1 ∈ allKeys p) →
    (a.kind = .list → ∀ v, getK (plus a.dest) c = some v → plus a.dest ∈ l.map (·.1)) →
    getK a.dest (l.foldl (appendStep p) c) =
        (if a.kind = .list then
          match getK (plus a.dest) c with
          | some v => some (appendVal (getK a.dest c) v)
          | .none => getK a.dest c
        else getK a.dest c)
      ∧ (a.kind = .list → getK (plus a.dest) (l.foldl (appendStep p) c) = .none)
      ∧ uniqKV (l.foldl (appendStep p) c)
  | [], c, hu, _, h3 => by
    refine ⟨?_, ?_, hu⟩
    · by_cases hl : a.kind = .list
      · rw [if_pos hl]
        cases hg : getK (plus a.dest) c with
        | none => rfl
        | some v => have := h3 hl v hg; simp at this
      · rw [if_neg hl]; rfl
    · intro hl
      cases hg : getK (plus a.dest) c with
      | none => exact hg
      | some v => have := h3 hl v hg; simp at this
  | x :: rest, c, hu, h2, h3 => by
    have h2' : ∀ y ∈ rest, isPlus y.1 = true ∧ y.1 ∈ allKeys p := fun y hy => h2 y (List.mem_cons_of_mem _ hy)
    obtain ⟨b, hb, hlb, hxb⟩ := plusKey_cases hp (h2 x List.mem_cons_self).2 (h2 x List.mem_cons_self).1
    have hstep : appendStep p c x = appendStep p c (plus b.dest, x.2) := by rw [← hxb]
    simp only [List.foldl_cons]
    rw [hstep, appendStep_plus hp hb hlb]
    by_cases e : b.dest = a.dest
    · -- the entry for this destination
      have hab : b = a := dest_inj hp hb ha e
      subst hab
      cases hg : getK (plus b.dest) c with
      | none =>
        simp only []
        have := appendFold ha rest c hu h2' (fun _ v hv => by rw [hg] at hv; simp at hv)
        rw [hg] at this
        exact this
      | some v =>
        simp only []
        have hkp : Diverge (plus b.dest) b.dest := div_plus_dest hp hb hb hlb
        have hu2 : uniqKV (delK (plus b.dest) (setK b.dest (appendVal (getK b.dest c) v) c)) :=
          uniq_delK _ _ (uniq_setK _ _ _ (by simp [appendVal, uniqV]) hu)
        have hgone : getK (plus b.dest) (delK (plus b.dest) (setK b.dest (appendVal (getK b.dest c) v) c)) = .none :=
          getK_delK_same _ _ (uniq_setK _ _ _ (by simp [appendVal, uniqV]) hu)
        have hval : getK b.dest (delK (plus b.dest) (setK b.dest (appendVal (getK b.dest c) v) c))
            = some (appendVal (getK b.dest c) v) := by
          rw [getK_delK_of_diverge hkp, getK_setK_same _ _ _ (wf_arg hp hb).2.1]
        have := appendFold hb rest _ hu2 h2' (fun _ w hw => by rw [hgone] at hw; simp at hw)
        rw [hgone, hval] at this
        simp only [hlb, if_true] at this ⊢
        exact this
    · -- an entry for another destination: frame
      have hne : plus b.dest ≠ plus a.dest := fun h => e (plus_inj h)
      cases hg : getK (plus b.dest) c with
      | none =>
        simp only []
        refine appendFold ha rest c hu h2' (fun hl v hv => ?_)
        have := h3 hl v hv
        simp only [List.map_cons, List.mem_cons] at this
        rcases this with h | h
        · exact absurd (hxb ▸ h.symm) hne
        · exact h
      | some v =>
        simp only []
        have f1 : getK a.dest (delK (plus b.dest) (setK b.dest (appendVal (getK b.dest c) v) c)) = getK a.dest c := by
          rw [getK_delK_of_diverge (div_plus_dest hp ha hb hlb), getK_setK_of_diverge (div_dest_dest hp ha hb e)]
        have f2 : a.kind = .list →
            getK (plus a.dest) (delK (plus b.dest) (setK b.dest (appendVal (getK b.dest c) v) c)) = getK (plus a.dest) c := by
          intro hla
          rw [getK_delK_of_diverge (div_plus_plus hp ha hb hla hlb e),
            getK_setK_of_diverge (diverge_symm (div_plus_dest hp hb ha hla))]
        have hu2 : uniqKV (delK (plus b.dest) (setK b.dest (appendVal (getK b.dest c) v) c)) :=
          uniq_delK _ _ (uniq_setK _ _ _ (by simp [appendVal, uniqV]) hu)
        have := appendFold ha rest _ hu2 h2' (fun hl w hw => by
          rw [f2 hl] at hw
          have := h3 hl w hw
          simp only [List.map_cons, List.mem_cons] at this
          rcases this with h | h
          · exact absurd (hxb ▸ h.symm) hne
          · exact h)
        rw [f1] at this
        by_cases hla : a.kind = .list
        · rw [f2 hla] at this; exact this
        · simp only [hla, if_false, false_implies, true_and] at this ⊢
          exact this

/-! ### `merge_config` -/

/-- the value a destination holds after a mapping with leaves `l` has been merged over the value `x` -/
def mergeVal (isList : Prop) [Decidable isList] (k kp : Key) (l : List (Key × V)) (x : Option V) : Option V :=
  if isList then
    match lastWrite kp l with
    | some v => some (appendVal ((lastWrite k l).or x) v)
    | .none => (lastWrite k l).or x
  else (lastWrite k l).or x

theorem getK_update {k : Key} (hk : k ∈ allKeys p) (t : KV) (ht : ∀ x ∈ leaves t, x.1 ∈ allKeys p) (c : KV) :
    getK k (update t c) = (lastWrite k (leaves t)).or (getK k c) := by
  have hne : k ≠ [] := by
    rcases allKeys_cases hk with ⟨a, ha, e⟩ | ⟨a, ha, _, e⟩
    · rw [e]; exact (wf_arg hp ha).2.1
    · rw [e]; intro h; have := isPlus_plus _ (wf_arg hp ha).2.1; rw [h] at this; simp [isPlus] at this
  apply fold_last k hne
  intro x hx
  by_cases e : x.1 = k
  · exact Or.inl e
  · exact Or.inr (wf_div hp (ht x hx) hk e)

theorem stage_merge {a : Arg} (ha : a ∈ p.args) (t : KV) (ht : ∀ x ∈ leaves t, x.1 ∈ allKeys p) {c : KV} (hi : Inv p c) :
    getK a.dest (mergeConfig p t c) = mergeVal (a.kind = .list) a.dest (plus a.dest) (leaves t) (getK a.dest c)
    ∧ Inv p (mergeConfig p t c) := by
  have hleafv : ∀ x ∈ leaves t, nonNs x.2 = true := fun x hx => (leaves_nonNs t x hx).1
  have hu' : uniqKV (update t c) := uniq_foldSet _ _ hleafv hi.uniq
  have hkeys' : ∀ x ∈ leaves (update t c), x.1 ∈ allKeys p := by
    intro x hx
    rcases leaves_foldSet _ _ x hleafv hx with h | h
    · exact ht x h
    · obtain ⟨b, hb, e⟩ := hi.keys x h
      rw [e]; exact dest_mem_allKeys hb
  have hplusRead : ∀ b ∈ p.args, b.kind = .list → getK (plus b.dest) (update t c) = lastWrite (plus b.dest) (leaves t) := by
    intro b hb hl
    rw [getK_update hp (plus_mem_allKeys hb hl) t ht, hi.clean b hb hl]
    cases lastWrite (plus b.dest) (leaves t) <;> rfl
  have hL : ∀ x ∈ (leaves (update t c)).filter (fun kv => isPlus kv.1), isPlus x.1 = true ∧ x.1 ∈ allKeys p := by
    intro x hx
    simp only [List.mem_filter] at hx
    exact ⟨hx.2, hkeys' x hx.1⟩
  have hmem : ∀ b ∈ p.args, b.kind = .list → ∀ v, getK (plus b.dest) (update t c) = some v →
      plus b.dest ∈ ((leaves (update t c)).filter (fun kv => isPlus kv.1)).map (·.1) := by
    intro b hb hl v hv
    have hvn : nonNs v = true := by
      rw [hplusRead b hb hl] at hv
      exact hleafv _ (lastWrite_mem _ _ _ hv)
    have := mem_leaves_of_getK _ _ _ hv hvn
    simp only [List.mem_map, List.mem_filter]
    exact ⟨(plus b.dest, v), ⟨this, isPlus_plus _ (wf_arg hp hb).2.1⟩, rfl⟩
  have main := fun (b : Arg) (hb : b ∈ p.args) => appendFold hp hb _ (update t c) hu' hL (hmem b hb)
  have hval : ∀ b ∈ p.args, getK b.dest (mergeConfig p t c)
      = mergeVal (b.kind = .list) b.dest (plus b.dest) (leaves t) (getK b.dest c) := by
    intro b hb
    have := (main b hb).1
    simp only [mergeConfig, applyAppends, mergeVal]
    rw [this, getK_update hp (dest_mem_allKeys hb) t ht]
    by_cases hl : b.kind = .list
    · simp only [hl, if_true, hplusRead b hb hl]
    · simp only [hl, if_false]
  refine ⟨hval a ha, ⟨(main a ha).2.2, ?_, fun b hb hl => (main b hb).2.1 hl, ?_⟩⟩
  · -- leaf keys are destinations again: the `key+` leaves have been popped
    intro x hx
    rcases leaves_appendFold _ _ x hx with h | h
    · by_cases hpl : isPlus x.1 = true
      · obtain ⟨b, hb, hl, e⟩ := plusKey_cases hp (hkeys' x h) hpl
        have := getK_of_mem_leaves _ _ _ (main a ha).2.2 hx
        rw [e, (main b hb).2.1 hl] at this
        simp at this
      · exact plainKey_cases hp (hkeys' x h) (by simpa using hpl)
    · exact h
  · intro b hb v hv
    rw [hval b hb] at hv
    simp only [mergeVal] at hv
    have hor : ∀ w, (lastWrite b.dest (leaves t)).or (getK b.dest c) = some w → nonNs w = true := by
      intro w hw
      cases hlw : lastWrite b.dest (leaves t) with
      | some u =>
        rw [hlw] at hw; simp at hw
        rw [← hw]; exact hleafv _ (lastWrite_mem _ _ _ hlw)
      | none =>
        rw [hlw] at hw; simp at hw
        exact hi.leafVal b hb w hw
    by_cases hl : b.kind = .list
    · simp only [hl, if_true] at hv
      cases hlw : lastWrite (plus b.dest) (leaves t) with
      | some u => rw [hlw] at hv; simp only [Option.some.injEq] at hv; rw [← hv]; rfl
      | none => rw [hlw] at hv; exact hor v hv
    · simp only [hl, if_false] at hv
      exact hor v hv

/-- the same value, computed by the reference on the flattened mapping -/
theorem evalKey_asgTree {a : Arg} (ha : a ∈ p.args) (t : KV) (ht : treeOk p t = true) (x : Option V) :
    evalKey a.dest (asgTree t) x = mergeVal (a.kind = .list) a.dest (plus a.dest) (leaves t) x := by
  simp only [treeOk, Bool.and_eq_true, List.all_eq_true, List.contains_iff_mem] at ht
  obtain ⟨hkeys, hnd⟩ := ht
  have hnotplus := (wf_arg hp ha).1
  simp only [asgTree, evalKey_append, mergeVal]
  rw [evalKey_sets, lastWrite_filter _ _ _ (fun y _ e => by simp [e, hnotplus])]
  by_cases hl : a.kind = .list
  · rw [if_pos hl]
    rw [evalKey_appends a.dest (plus a.dest) _ _ (nodupKeys_spec _ hnd)]
    · rw [lastWrite_filter _ _ _ (fun y _ e => by simp [e, isPlus_plus _ (wf_arg hp ha).2.1])]
      rfl
    · intro y hy
      simp only [List.mem_filter] at hy
      obtain ⟨b, hb, _, e⟩ := plusKey_cases hp (hkeys y hy.1) hy.2
      rw [e, base_plus]
      constructor
      · intro h; rw [h]
      · intro h; exact plus_inj h
  · rw [if_neg hl]
    apply evalKey_no_key
    intro s hs
    simp only [List.mem_map, List.mem_filter] at hs
    obtain ⟨y, ⟨hy1, hy2⟩, rfl⟩ := hs
    obtain ⟨b, hb, hlb, e⟩ := plusKey_cases hp (hkeys y hy1) hy2
    simp only [Assign.key, e, base_plus]
    intro h
    exact hl (dest_inj hp hb ha h ▸ hlb)

omit hp in
theorem treeOk_keys {t : KV} (ht : treeOk p t = true) : ∀ x ∈ leaves t, x.1 ∈ allKeys p := by
  simp only [treeOk, Bool.and_eq_true, List.all_eq_true, List.contains_iff_mem] at ht
  exact ht.1

theorem stage_mergeTree {a : Arg} (ha : a ∈ p.args) (t : KV) (ht : treeOk p t = true) {c : KV} (hi : Inv p c) :
    getK a.dest (mergeConfig p t c) = evalKey a.dest (asgTree t) (getK a.dest c) ∧ Inv p (mergeConfig p t c) := by
  rw [evalKey_asgTree hp ha t ht]
  exact stage_merge hp ha t (treeOk_keys ht) hi

/-- `--cfg` / the config environment variable -/
theorem stage_applyConfig {a b : Arg} (ha : a ∈ p.args) (hb : b ∈ p.args) (t : KV) (ht : treeOk p (expand p t) = true)
    {c : KV} (hi : Inv p c) :
    getK a.dest (applyConfig p b.dest t c) = evalKey a.dest (asgConfig p b.dest t) (getK a.dest c)
    ∧ Inv p (applyConfig p b.dest t c) := by
  obtain ⟨h1, h2⟩ := stage_mergeTree hp ha _ ht hi
  have : applyConfig p b.dest t c = refStep (mergeConfig p (expand p t) c) (.note b.dest) := rfl
  rw [this]
  obtain ⟨h3, h4⟩ := stage_refStep hp ha (.note b.dest) ⟨b, hb, rfl⟩ rfl h2
  refine ⟨?_, h4⟩
  rw [h3, h1, asgConfig, evalKey_append]
  rfl

end

end Jap.Src

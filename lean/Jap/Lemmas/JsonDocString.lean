/-
C01 / C05, JSON documents: a JSON string literal inside a text — `"` + json.dumps escaping + `"` followed by anything —
is scanned by libyaml's flow-scalar scanner (`qGo`, the one `loadLine` uses) back to the string, leaving the rest.
-/
import Jap.Lemmas.ScalarJson
import Jap.Lemmas.EmitterQuoted
import Jap.Core.JsonDoc

set_option linter.unusedSimpArgs false

namespace Jap.Scalar

theorem qGo_hex4_lower (n : Nat) (hn : n < 65536) (hv : validCode n = true) (out : List Char) (p : Pend) (c0 : Bool)
    (rest : List Char) :
    qGo false ⟨out, p, c0, .hex 4 0⟩ (hex4 n ++ rest) = qGo false ⟨out ++ [Char.ofNat n], p, c0, .none⟩ rest := by
  have h1 := hexVal_hexDigit (n / 4096 % 16) (Nat.mod_lt _ (by decide))
  have h2 := hexVal_hexDigit (n / 256 % 16) (Nat.mod_lt _ (by decide))
  have h3 := hexVal_hexDigit (n / 16 % 16) (Nat.mod_lt _ (by decide))
  have h4 := hexVal_hexDigit (n % 16) (Nat.mod_lt _ (by decide))
  have hval := hex4_value n hn
  simp only [hex4, List.cons_append, List.nil_append, qGo, h1, h2, h3, h4]
  simp only [Nat.zero_mul, Nat.zero_add, hval, hv, if_true]
  simp

theorem jchar_step (c : Char) (hs : jsonSafe c = true) (out b rest : List Char) :
    ∃ out' b', qGo false ⟨out, .ws b, false, .none⟩ (jsonEscapeChar false c ++ rest)
        = qGo false ⟨out', .ws b', false, .none⟩ rest ∧ out' ++ b' = out ++ b ++ [c] := by
  simp only [jsonSafe, Bool.and_eq_true, Bool.not_eq_true', Bool.or_eq_false_iff, decide_eq_false_iff_not] at hs
  obtain ⟨hp, ⟨h133, h8232⟩, h8233⟩ := hs
  have hc : Char.ofNat c.toNat = c := Char.ofNat_toNat c
  unfold jsonEscapeChar
  by_cases h34 : c.toNat = 34
  · refine ⟨out ++ b ++ [c], [], ?_, by simp⟩
    rw [← hc, h34]; simp [qGo, isBlank, isBreak, flush, simpleEscape]
  by_cases h92 : c.toNat = 92
  · refine ⟨out ++ b ++ [c], [], ?_, by simp⟩
    rw [← hc, h92]; simp [qGo, isBlank, isBreak, flush, simpleEscape]
  by_cases h10 : c.toNat = 10
  · refine ⟨out ++ b ++ [c], [], ?_, by simp⟩
    rw [← hc, h10]; simp [qGo, isBlank, isBreak, flush, simpleEscape]
  by_cases h13 : c.toNat = 13
  · refine ⟨out ++ b ++ [c], [], ?_, by simp⟩
    rw [← hc, h13]; simp [qGo, isBlank, isBreak, flush, simpleEscape]
  by_cases h9 : c.toNat = 9
  · refine ⟨out ++ b ++ [c], [], ?_, by simp⟩
    rw [← hc, h9]; simp [qGo, isBlank, isBreak, flush, simpleEscape]
  by_cases h8 : c.toNat = 8
  · refine ⟨out ++ b ++ [c], [], ?_, by simp⟩
    rw [← hc, h8]; simp [qGo, isBlank, isBreak, flush, simpleEscape]
  by_cases h12 : c.toNat = 12
  · refine ⟨out ++ b ++ [c], [], ?_, by simp⟩
    rw [← hc, h12]; simp [qGo, isBlank, isBreak, flush, simpleEscape]
  by_cases h32 : c.toNat < 32
  · refine ⟨out ++ b ++ [c], [], ?_, by simp⟩
    simp only [h34, h92, h10, h13, h9, h8, h12, h32, if_false, if_true]
    have hv : validCode c.toNat = true := by
      simp only [validCode, Bool.and_eq_true, Bool.not_eq_true', Nat.ble_eq]
      constructor
      · simp; omega
      · omega
    have := qGo_hex4_lower c.toNat (by omega) hv (out ++ b) (.ws []) false rest
    simp only [List.cons_append, qGo, Char.reduceToNat]
    simp [isBlank, isBreak, flush, this, hc]
  · simp only [h34, h92, h10, h13, h9, h8, h12, h32, if_false, Bool.false_and, Bool.false_eq_true]
    by_cases hsp : c.toNat = 32
    · refine ⟨out, b ++ [c], ?_, by simp⟩
      simp [qGo, isBlank, hsp]
    · refine ⟨out ++ b ++ [c], [], ?_, by simp⟩
      simp [qGo, isBlank, isBreak, flush, hsp, h9, h10, h13, h133, h8232, h8233, h34, h92]

/-- the literal, then the closing quote, then anything -/
theorem qGo_jsonEscape (s : List Char) (hs : ∀ c ∈ s, jsonSafe c = true) : ∀ (out b tail : List Char),
    qGo false ⟨out, .ws b, false, .none⟩ (jsonEscapeWith false s ++ '"' :: tail) = some (out ++ b ++ s, tail) := by
  induction s with
  | nil => intro out b tail; simp [jsonEscapeWith, qGo, isBlank, isBreak, flush]
  | cons c cs ih =>
    intro out b tail
    obtain ⟨out', b', h1, h2⟩ := jchar_step c (hs c List.mem_cons_self) out b (jsonEscapeWith false cs ++ '"' :: tail)
    simp only [jsonEscapeWith, List.append_assoc]
    rw [h1, ih (fun x hx => hs x (List.mem_cons_of_mem _ hx)), h2]
    simp

theorem hex4_noBreak (n : Nat) : (hex4 n).any isBreak = false := by
  have h : ∀ j, j < 16 → isBreak (hexDigit j) = false := by decide
  have h1 := h (n / 4096 % 16) (Nat.mod_lt _ (by decide))
  have h2 := h (n / 256 % 16) (Nat.mod_lt _ (by decide))
  have h3 := h (n / 16 % 16) (Nat.mod_lt _ (by decide))
  have h4 := h (n % 16) (Nat.mod_lt _ (by decide))
  simp only [hex4, List.any_cons, List.any_nil, h1, h2, h3, h4, Bool.or_self]

/-- no raw line break inside a literal over the safe alphabet -/
theorem escapeChar_noBreak (c : Char) (hs : jsonSafe c = true) : (jsonEscapeChar false c).any isBreak = false := by
  simp only [jsonSafe, Bool.and_eq_true, Bool.not_eq_true', Bool.or_eq_false_iff, decide_eq_false_iff_not] at hs
  obtain ⟨_, ⟨h133, h8232⟩, h8233⟩ := hs
  have hbs : isBreak '\\' = false := by decide
  unfold jsonEscapeChar
  by_cases h34 : c.toNat = 34
  · simp only [h34, if_true]; decide
  by_cases h92 : c.toNat = 92
  · simp only [h34, h92, if_true, if_false]; decide
  by_cases h10 : c.toNat = 10
  · simp only [h34, h92, h10, if_true, if_false]; decide
  by_cases h13 : c.toNat = 13
  · simp only [h34, h92, h10, h13, if_true, if_false]; decide
  by_cases h9 : c.toNat = 9
  · simp only [h34, h92, h10, h13, h9, if_true, if_false]; decide
  by_cases h8 : c.toNat = 8
  · simp only [h34, h92, h10, h13, h9, h8, if_true, if_false]; decide
  by_cases h12 : c.toNat = 12
  · simp only [h34, h92, h10, h13, h9, h8, h12, if_true, if_false]; decide
  by_cases h32 : c.toNat < 32
  · simp only [h34, h92, h10, h13, h9, h8, h12, h32, if_true, if_false, List.any_cons, hex4_noBreak, hbs]
    decide
  · simp only [h34, h92, h10, h13, h9, h8, h12, h32, if_false, Bool.false_and, Bool.false_eq_true, List.any_cons, List.any_nil,
      Bool.or_false]
    simp [isBreak, h10, h13, h133, h8232, h8233]

theorem escape_noBreak (s : List Char) (hs : ∀ c ∈ s, jsonSafe c = true) : (jsonEscapeWith false s).any isBreak = false := by
  induction s with
  | nil => rfl
  | cons c cs ih =>
    simp only [jsonEscapeWith, List.any_append, escapeChar_noBreak c (hs c List.mem_cons_self),
      ih (fun x hx => hs x (List.mem_cons_of_mem _ hx)), Bool.or_self]

end Jap.Scalar

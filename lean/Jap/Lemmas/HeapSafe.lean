import Jap.Lemmas.HeapHist
/-!
Lemmas for E11 (C08), part 4: two more invariants, preserved by every primitive and every operation, so that the
history theorem protects EVERYTHING the caller holds at any time (also the results of earlier operations):

  `IdsLt k t`  — every identity of `t` is below the counter `k` (so identities made from `k` on are new for `t`);
  `Safe p t`   — a working copy of `t` shares no writable container with it (`sharedMut p t = []`).
-/
namespace Jap.Heap

/-! ## identities below the counter -/

def IdsLt (k : Nat) (t : T) : Prop := ∀ j ∈ ids t, j < k
def IdsLtK (k : Nat) (ts : Kids) : Prop := ∀ j ∈ idsK ts, j < k

theorem IdsLt_atom (k n : Nat) : IdsLt k (.atom n) := by intro j hj; simp [ids] at hj
theorem IdsLtK_nil (k : Nat) : IdsLtK k [] := by intro j hj; simp [idsK] at hj

theorem IdsLt.mono {k k' : Nat} {t : T} (h : IdsLt k t) (hk : k ≤ k') : IdsLt k' t :=
  fun j hj => Nat.lt_of_lt_of_le (h j hj) hk
theorem IdsLtK.mono {k k' : Nat} {ts : Kids} (h : IdsLtK k ts) (hk : k ≤ k') : IdsLtK k' ts :=
  fun j hj => Nat.lt_of_lt_of_le (h j hj) hk

theorem IdsLtK_cons {k : Nat} {key : String} {x : T} {r : Kids} :
    IdsLtK k ((key, x) :: r) ↔ IdsLt k x ∧ IdsLtK k r := by
  simp only [IdsLtK, IdsLt, idsK, List.mem_append]
  constructor
  · intro h; exact ⟨fun j hj => h j (Or.inl hj), fun j hj => h j (Or.inr hj)⟩
  · intro h j hj; rcases hj with hj | hj
    · exact h.1 j hj
    · exact h.2 j hj

theorem IdsLt_node {k : Nat} {kd : Kind} {i : Nat} {kids : Kids} :
    IdsLt k (.node kd i kids) ↔ i < k ∧ IdsLtK k kids := by
  simp only [IdsLt, IdsLtK, ids, List.mem_cons]
  constructor
  · intro h; exact ⟨h i (Or.inl rfl), fun j hj => h j (Or.inr hj)⟩
  · intro h j hj; rcases hj with hj | hj
    · subst hj; exact h.1
    · exact h.2 j hj

theorem idsK_insertK (key : String) (v : T) :
    ∀ (to : Kids), ∀ x ∈ idsK (insertK key v to), x ∈ ids v ∨ x ∈ idsK to
  | [] => by
    intro x hx
    simp only [insertK, idsK, List.mem_append] at hx
    rcases hx with hx | hx
    · exact Or.inl hx
    · simp at hx
  | (k', v') :: r => by
    intro x hx
    simp only [insertK] at hx
    by_cases hk : k' = key
    · simp only [hk, ↓reduceIte, idsK, List.mem_append] at hx
      rcases hx with hx | hx
      · exact Or.inl hx
      · exact Or.inr (by simp only [idsK, List.mem_append]; exact Or.inr hx)
    · simp only [hk, ↓reduceIte, idsK, List.mem_append] at hx
      rcases hx with hx | hx
      · exact Or.inr (by simp only [idsK, List.mem_append]; exact Or.inl hx)
      · rcases idsK_insertK key v r x hx with h | h
        · exact Or.inl h
        · exact Or.inr (by simp only [idsK, List.mem_append]; exact Or.inr h)

theorem idsK_lookupK (key : String) (v : T) :
    ∀ (to : Kids), lookupK key to = some v → ∀ x ∈ ids v, x ∈ idsK to
  | [], h => by simp [lookupK] at h
  | (k', v') :: r, h => by
    intro x hx
    simp only [lookupK] at h
    simp only [idsK, List.mem_append]
    by_cases hk : k' = key
    · simp only [hk, ↓reduceIte, Option.some.injEq] at h
      subst h; exact Or.inl hx
    · simp only [hk, ↓reduceIte] at h
      exact Or.inr (idsK_lookupK key v r h x hx)

theorem IdsLtK_insertK {k : Nat} {key : String} {v : T} {to : Kids} (hv : IdsLt k v) (ht : IdsLtK k to) :
    IdsLtK k (insertK key v to) := by
  intro x hx
  rcases idsK_insertK key v to x hx with h | h
  · exact hv x h
  · exact ht x h

mutual
theorem recreate_lt (p : Policy) (skip : List String) :
    ∀ (t : T) (k : Nat), IdsLt k t → IdsLt (recreate p skip t k).next (recreate p skip t k).val ∧ k ≤ (recreate p skip t k).next
  | .atom n, k, _ => by simp only [recreate]; exact ⟨IdsLt_atom _ _, Nat.le_refl _⟩
  | .node kd i kids, k, h => by
    have h' := IdsLt_node.mp h
    simp only [recreate]
    by_cases hr : p.recreated kd = true
    · simp only [hr, ↓reduceIte]
      by_cases hd : (decide (kd = .dictsub) && !p.subContent) = true
      · simp only [hd, ↓reduceIte]
        exact ⟨IdsLt_node.mpr ⟨Nat.lt_succ_self k, IdsLtK_nil _⟩, Nat.le_succ k⟩
      · simp only [hd, Bool.false_eq_true, ↓reduceIte]
        have ih := recreateK_lt p skip kids k h'.2
        exact ⟨IdsLt_node.mpr ⟨Nat.lt_succ_self _, ih.1.mono (Nat.le_succ _)⟩, by omega⟩
    · simp only [hr, Bool.false_eq_true, ↓reduceIte]
      exact ⟨h, Nat.le_refl _⟩
theorem recreateK_lt (p : Policy) (skip : List String) :
    ∀ (ts : Kids) (k : Nat), IdsLtK k ts → IdsLtK (recreateK p skip ts k).next (recreateK p skip ts k).val ∧ k ≤ (recreateK p skip ts k).next
  | [], k, _ => by simp only [recreateK]; exact ⟨IdsLtK_nil _, Nat.le_refl _⟩
  | (key, x) :: r, k, h => by
    have h' := IdsLtK_cons.mp h
    simp only [recreateK]
    by_cases hk : skip.contains key = true
    · simp only [hk, ↓reduceIte]
      exact recreateK_lt p skip r k h'.2
    · simp only [hk, Bool.false_eq_true, ↓reduceIte]
      have h1 := recreate_lt p skip x k h'.1
      have h2 := recreateK_lt p skip r (recreate p skip x k).next (h'.2.mono h1.2)
      exact ⟨IdsLtK_cons.mpr ⟨h1.1.mono h2.2, h2.1⟩, by omega⟩
end

mutual
theorem mutT_lt (p : Policy) (m : Mode) :
    ∀ (t : T) (k : Nat), IdsLt k t → IdsLt (mutT p m t k).next (mutT p m t k).val ∧ k ≤ (mutT p m t k).next
  | .atom n, k, _ => by simp only [mutT]; exact ⟨IdsLt_atom _ _, Nat.le_refl _⟩
  | .node kd i kids, k, h => by
    have h' := IdsLt_node.mp h
    simp only [mutT]
    by_cases hp : p.inplace kd = true
    · simp only [hp, ↓reduceIte]
      have ih := mutK_lt p m kids k h'.2
      by_cases hsp : (decide (m = .inst) && isSpec kd kids) = true
      · simp only [hsp, ↓reduceIte]
        exact ⟨IdsLt_atom _ _, by omega⟩
      · simp only [hsp, Bool.false_eq_true, ↓reduceIte]
        exact ⟨IdsLt_node.mpr ⟨by omega, ih.1⟩, ih.2⟩
    · simp only [hp, Bool.false_eq_true, ↓reduceIte]
      have ih := mutK_lt p m kids (k + 1) (h'.2.mono (Nat.le_succ k))
      by_cases hm : m = .ser
      · simp only [hm, ↓reduceIte]
        rw [hm] at ih
        exact ⟨IdsLt_node.mpr ⟨by omega, ih.1⟩, by omega⟩
      · simp only [hm, ↓reduceIte]
        exact ⟨IdsLt_node.mpr ⟨Nat.lt_succ_self _, ih.1.mono (Nat.le_succ _)⟩, by omega⟩
theorem mutK_lt (p : Policy) (m : Mode) :
    ∀ (ts : Kids) (k : Nat), IdsLtK k ts → IdsLtK (mutK p m ts k).next (mutK p m ts k).val ∧ k ≤ (mutK p m ts k).next
  | [], k, _ => by simp only [mutK]; exact ⟨IdsLtK_nil _, Nat.le_refl _⟩
  | (key, x) :: r, k, h => by
    have h' := IdsLtK_cons.mp h
    have h1 := mutT_lt p m x k h'.1
    have h2 := mutK_lt p m r (mutT p m x k).next (h'.2.mono h1.2)
    simp only [mutK]
    exact ⟨IdsLtK_cons.mpr ⟨h1.1.mono h2.2, h2.1⟩, by omega⟩
end

mutual
theorem updK_lt :
    ∀ (src : Kids) (i : Nat) (to : Kids) (k : Nat), IdsLtK k to → IdsLtK k src →
      IdsLtK (updK src i to k).next (updK src i to k).val ∧ k ≤ (updK src i to k).next
  | [], i, to, k, ht, _ => by simp only [updK]; exact ⟨ht, Nat.le_refl _⟩
  | (key, v) :: r, i, to, k, ht, hs => by
    have hs' := IdsLtK_cons.mp hs
    have h1 := updOne_lt key v i to k ht hs'.1
    have h2 := updK_lt r i (updOne key v i to k).val (updOne key v i to k).next h1.1 (hs'.2.mono h1.2)
    simp only [updK]
    exact ⟨h2.1, by omega⟩
theorem updOne_lt :
    ∀ (key : String) (v : T) (i : Nat) (to : Kids) (k : Nat), IdsLtK k to → IdsLt k v →
      IdsLtK (updOne key v i to k).next (updOne key v i to k).val ∧ k ≤ (updOne key v i to k).next
  | key, .atom n, i, to, k, ht, hv => by
    simp only [updOne]
    exact ⟨IdsLtK_insertK hv ht, Nat.le_refl _⟩
  | key, .node kd j fk, i, to, k, ht, hv => by
    have hv' := IdsLt_node.mp hv
    simp only [updOne]
    by_cases hkd : kd = .ns
    · simp only [hkd, ↓reduceIte]
      split
      · rename_i j' tk hl
        have hfound : IdsLt k (.node .ns j' tk) := fun x hx => ht x (idsK_lookupK key _ to hl x hx)
        have hfound' := IdsLt_node.mp hfound
        have ih := updK_lt fk j' tk k hfound'.2 hv'.2
        exact ⟨IdsLtK_insertK (IdsLt_node.mpr ⟨Nat.lt_of_lt_of_le hfound'.1 ih.2, ih.1⟩) (ht.mono ih.2), ih.2⟩
      · by_cases hl : hasLeavesK fk = true
        · simp only [hl, ↓reduceIte]
          have ih := updK_lt fk k [] (k + 1) (IdsLtK_nil _) (hv'.2.mono (Nat.le_succ k))
          exact ⟨IdsLtK_insertK (IdsLt_node.mpr ⟨by omega, ih.1⟩) (ht.mono (by omega)), by omega⟩
        · simp only [hl, Bool.false_eq_true, ↓reduceIte]
          exact ⟨ht, Nat.le_refl _⟩
    · simp only [hkd, ↓reduceIte]
      exact ⟨IdsLtK_insertK hv ht, Nat.le_refl _⟩
end

theorem update_lt (to src : T) (k : Nat) (ht : IdsLt k to) (hs : IdsLt k src) :
    IdsLt (update to src k).next (update to src k).val ∧ k ≤ (update to src k).next := by
  unfold update
  split
  · rename_i i tk _ sk
    have ht' := IdsLt_node.mp ht
    have hs' := IdsLt_node.mp hs
    have h := updK_lt sk i tk k ht'.2 hs'.2
    exact ⟨IdsLt_node.mpr ⟨Nat.lt_of_lt_of_le ht'.1 h.2, h.1⟩, h.2⟩
  · exact ⟨ht, Nat.le_refl _⟩

mutual
theorem delT_lt (known : List String) (k : Nat) :
    ∀ (t : T) (i : Nat) (q : String), IdsLt k t → ∀ v, (delT known i q t).1 = some v → IdsLt k v
  | .atom n, i, q, _ => by
    intro v hv
    simp only [delT] at hv
    split at hv
    · cases hv; exact IdsLt_atom _ _
    · cases hv
  | .node kd j kids, i, q, h => by
    have h' := IdsLt_node.mp h
    intro v hv
    simp only [delT] at hv
    by_cases hkd : kd = .ns
    · subst hkd
      simp only [↓reduceIte] at hv
      cases hv
      exact IdsLt_node.mpr ⟨h'.1, delK_lt known k kids j (q ++ ".") h'.2⟩
    · simp only [hkd, ↓reduceIte] at hv
      split at hv
      · cases hv; exact h
      · cases hv
theorem delK_lt (known : List String) (k : Nat) :
    ∀ (ts : Kids) (i : Nat) (pre : String), IdsLtK k ts → IdsLtK k (delK known i pre ts).1
  | [], _, _, _ => by simp only [delK]; exact IdsLtK_nil _
  | (key, x) :: r, i, pre, h => by
    have h' := IdsLtK_cons.mp h
    have h1 := delT_lt known k x i (pre ++ key) h'.1
    have h2 := delK_lt known k r i pre h'.2
    simp only [delK]
    cases hv : (delT known i (pre ++ key) x).1 with
    | none => exact h2
    | some v => exact IdsLtK_cons.mpr ⟨h1 v hv, h2⟩
end

/-! ## nothing shared with a working copy -/

def Safe (p : Policy) (t : T) : Prop := sharedMut p t = []
def SafeK (p : Policy) (ts : Kids) : Prop := sharedMutK p ts = []
def NoMut (p : Policy) (t : T) : Prop := mutIds p t = []
def NoMutK (p : Policy) (ts : Kids) : Prop := mutIdsK p ts = []

theorem Safe_atom (p : Policy) (n : Nat) : Safe p (.atom n) := by simp [Safe, sharedMut]
theorem SafeK_nil (p : Policy) : SafeK p [] := by simp [SafeK, sharedMutK]

theorem SafeK_cons {p : Policy} {key : String} {x : T} {r : Kids} :
    SafeK p ((key, x) :: r) ↔ Safe p x ∧ SafeK p r := by
  simp only [SafeK, Safe, sharedMutK, List.append_eq_nil_iff]

theorem NoMutK_cons {p : Policy} {key : String} {x : T} {r : Kids} :
    NoMutK p ((key, x) :: r) ↔ NoMut p x ∧ NoMutK p r := by
  simp only [NoMutK, NoMut, mutIdsK, List.append_eq_nil_iff]

theorem NoMut_node {p : Policy} {kd : Kind} {i : Nat} {kids : Kids} :
    NoMut p (.node kd i kids) ↔ p.inplace kd = false ∧ NoMutK p kids := by
  simp only [NoMut, NoMutK, mutIds, List.append_eq_nil_iff]
  constructor
  · intro h
    refine ⟨?_, h.2⟩
    by_cases hp : p.inplace kd = true
    · simp [hp] at h
    · simpa using hp
  · intro h; simp [h.1, h.2]

theorem NoMut.safe {p : Policy} {t : T} (h : NoMut p t) : Safe p t := by
  unfold Safe
  apply List.eq_nil_iff_forall_not_mem.mpr
  intro a ha
  have := sharedMut_sub p t a ha
  rw [h] at this
  simp at this

theorem NoMutK.safe {p : Policy} {ts : Kids} (h : NoMutK p ts) : SafeK p ts := by
  unfold SafeK
  apply List.eq_nil_iff_forall_not_mem.mpr
  intro a ha
  have := sharedMutK_sub p ts a ha
  rw [h] at this
  simp at this

/-- the kids of a safe node are safe, whatever its kind -/
theorem Safe.kids {p : Policy} {kd : Kind} {i : Nat} {kids : Kids} (h : Safe p (.node kd i kids)) : SafeK p kids := by
  unfold Safe at h
  simp only [sharedMut] at h
  by_cases hr : p.recreated kd = true
  · unfold SafeK; simpa [hr] using h
  · simp only [hr, Bool.false_eq_true, ↓reduceIte] at h
    exact NoMutK.safe (NoMut_node.mp h).2

theorem Safe_node_rec {p : Policy} {kd : Kind} {i : Nat} {kids : Kids} (hr : p.recreated kd = true) (h : SafeK p kids) :
    Safe p (.node kd i kids) := by
  unfold Safe; simp only [sharedMut, hr, ↓reduceIte]; exact h

/-- a safe node of a kind that is not recreated is not writable and holds nothing writable -/
theorem Safe.nonrec {p : Policy} {kd : Kind} {i : Nat} {kids : Kids} (h : Safe p (.node kd i kids)) (hr : p.recreated kd = false) :
    p.inplace kd = false ∧ NoMutK p kids := by
  unfold Safe at h
  simp only [sharedMut, hr, Bool.false_eq_true, ↓reduceIte] at h
  exact NoMut_node.mp h

theorem Safe_node_nonrec {p : Policy} {kd : Kind} {i : Nat} {kids : Kids} (hr : p.recreated kd = false)
    (hp : p.inplace kd = false) (h : NoMutK p kids) : Safe p (.node kd i kids) := by
  unfold Safe; simp only [sharedMut, hr, Bool.false_eq_true, ↓reduceIte]
  exact NoMut_node.mpr ⟨hp, h⟩

theorem SafeK_insertK {p : Policy} {key : String} {v : T} {to : Kids} (hv : Safe p v) (ht : SafeK p to) :
    SafeK p (insertK key v to) := by
  unfold SafeK
  apply List.eq_nil_iff_forall_not_mem.mpr
  intro a ha
  rcases sharedMutK_insertK p key v to a ha with h | h
  · rw [hv] at h; simp at h
  · rw [ht] at h; simp at h

theorem sharedMutK_lookupK (p : Policy) (key : String) (v : T) :
    ∀ (to : Kids), lookupK key to = some v → ∀ x ∈ sharedMut p v, x ∈ sharedMutK p to
  | [], h => by simp [lookupK] at h
  | (k', v') :: r, h => by
    intro x hx
    simp only [lookupK] at h
    simp only [sharedMutK, List.mem_append]
    by_cases hk : k' = key
    · simp only [hk, ↓reduceIte, Option.some.injEq] at h
      subst h; exact Or.inl hx
    · simp only [hk, ↓reduceIte] at h
      exact Or.inr (sharedMutK_lookupK p key v r h x hx)

theorem Safe_lookupK {p : Policy} {key : String} {v : T} {to : Kids} (hl : lookupK key to = some v) (ht : SafeK p to) : Safe p v := by
  unfold Safe
  apply List.eq_nil_iff_forall_not_mem.mpr
  intro a ha
  have := sharedMutK_lookupK p key v to hl a ha
  rw [ht] at this
  simp at this

mutual
theorem recreate_safe (p : Policy) (skip : List String) :
    ∀ (t : T) (k : Nat), Safe p t → Safe p (recreate p skip t k).val
  | .atom n, k, _ => by simp only [recreate]; exact Safe_atom p n
  | .node kd i kids, k, h => by
    simp only [recreate]
    by_cases hr : p.recreated kd = true
    · simp only [hr, ↓reduceIte]
      by_cases hd : (decide (kd = .dictsub) && !p.subContent) = true
      · simp only [hd, ↓reduceIte]
        exact Safe_node_rec hr (SafeK_nil p)
      · simp only [hd, Bool.false_eq_true, ↓reduceIte]
        exact Safe_node_rec hr (recreateK_safe p skip kids k h.kids)
    · simp only [hr, Bool.false_eq_true, ↓reduceIte]
      exact h
theorem recreateK_safe (p : Policy) (skip : List String) :
    ∀ (ts : Kids) (k : Nat), SafeK p ts → SafeK p (recreateK p skip ts k).val
  | [], k, _ => by simp only [recreateK]; exact SafeK_nil p
  | (key, x) :: r, k, h => by
    have h' := SafeK_cons.mp h
    simp only [recreateK]
    by_cases hk : skip.contains key = true
    · simp only [hk, ↓reduceIte]
      exact recreateK_safe p skip r k h'.2
    · simp only [hk, Bool.false_eq_true, ↓reduceIte]
      exact SafeK_cons.mpr ⟨recreate_safe p skip x k h'.1, recreateK_safe p skip r _ h'.2⟩
end

mutual
/-- outside serialisation a value without writable containers stays one -/
theorem mutT_nomut (p : Policy) (m : Mode) (hm : m ≠ .ser) :
    ∀ (t : T) (k : Nat), NoMut p t → NoMut p (mutT p m t k).val
  | .atom n, k, _ => by simp only [mutT]; simp [NoMut, mutIds]
  | .node kd i kids, k, h => by
    have h' := NoMut_node.mp h
    simp only [mutT, h'.1, Bool.false_eq_true, ↓reduceIte, hm]
    exact NoMut_node.mpr ⟨h'.1, mutK_nomut p m hm kids (k + 1) h'.2⟩
theorem mutK_nomut (p : Policy) (m : Mode) (hm : m ≠ .ser) :
    ∀ (ts : Kids) (k : Nat), NoMutK p ts → NoMutK p (mutK p m ts k).val
  | [], k, _ => by simp only [mutK]; simp [NoMutK, mutIdsK]
  | (key, x) :: r, k, h => by
    have h' := NoMutK_cons.mp h
    simp only [mutK]
    exact NoMutK_cons.mpr ⟨mutT_nomut p m hm x k h'.1, mutK_nomut p m hm r _ h'.2⟩
end

mutual
theorem mutT_safe (p : Policy) (m : Mode) (hl : p.recreated .list = true) :
    ∀ (t : T) (k : Nat), Safe p t → Safe p (mutT p m t k).val
  | .atom n, k, _ => by simp only [mutT]; exact Safe_atom p n
  | .node kd i kids, k, h => by
    simp only [mutT]
    by_cases hp : p.inplace kd = true
    · simp only [hp, ↓reduceIte]
      have hr : p.recreated kd = true := by
        by_cases hr : p.recreated kd = true
        · exact hr
        · have := (h.nonrec (by simpa using hr)).1
          rw [hp] at this; cases this
      by_cases hsp : (decide (m = .inst) && isSpec kd kids) = true
      · simp only [hsp, ↓reduceIte]; exact Safe_atom p _
      · simp only [hsp, Bool.false_eq_true, ↓reduceIte]
        exact Safe_node_rec hr (mutK_safe p m hl kids k h.kids)
    · simp only [hp, Bool.false_eq_true, ↓reduceIte]
      have ih := mutK_safe p m hl kids (k + 1) h.kids
      by_cases hm : m = .ser
      · simp only [hm, ↓reduceIte]
        rw [hm] at ih
        exact Safe_node_rec hl ih
      · simp only [hm, ↓reduceIte]
        by_cases hr : p.recreated kd = true
        · exact Safe_node_rec hr ih
        · have hr' : p.recreated kd = false := by simpa using hr
          exact Safe_node_nonrec hr' (by simpa using hp) (mutK_nomut p m hm kids (k + 1) (h.nonrec hr').2)
theorem mutK_safe (p : Policy) (m : Mode) (hl : p.recreated .list = true) :
    ∀ (ts : Kids) (k : Nat), SafeK p ts → SafeK p (mutK p m ts k).val
  | [], k, _ => by simp only [mutK]; exact SafeK_nil p
  | (key, x) :: r, k, h => by
    have h' := SafeK_cons.mp h
    simp only [mutK]
    exact SafeK_cons.mpr ⟨mutT_safe p m hl x k h'.1, mutK_safe p m hl r _ h'.2⟩
end

mutual
theorem updK_safe (p : Policy) (hns : p.recreated .ns = true) :
    ∀ (src : Kids) (i : Nat) (to : Kids) (k : Nat), SafeK p to → SafeK p src → SafeK p (updK src i to k).val
  | [], i, to, k, ht, _ => by simp only [updK]; exact ht
  | (key, v) :: r, i, to, k, ht, hs => by
    have hs' := SafeK_cons.mp hs
    simp only [updK]
    exact updK_safe p hns r i _ _ (updOne_safe p hns key v i to k ht hs'.1) hs'.2
theorem updOne_safe (p : Policy) (hns : p.recreated .ns = true) :
    ∀ (key : String) (v : T) (i : Nat) (to : Kids) (k : Nat), SafeK p to → Safe p v → SafeK p (updOne key v i to k).val
  | key, .atom n, i, to, k, ht, hv => by
    simp only [updOne]; exact SafeK_insertK hv ht
  | key, .node kd j fk, i, to, k, ht, hv => by
    simp only [updOne]
    by_cases hkd : kd = .ns
    · simp only [hkd, ↓reduceIte]
      split
      · rename_i j' tk hl
        have hfound : Safe p (.node .ns j' tk) := Safe_lookupK hl ht
        exact SafeK_insertK (Safe_node_rec hns (updK_safe p hns fk j' tk k hfound.kids hv.kids)) ht
      · by_cases hl : hasLeavesK fk = true
        · simp only [hl, ↓reduceIte]
          exact SafeK_insertK (Safe_node_rec hns (updK_safe p hns fk k [] (k + 1) (SafeK_nil p) hv.kids)) ht
        · simp only [hl, Bool.false_eq_true, ↓reduceIte]; exact ht
    · simp only [hkd, ↓reduceIte]
      exact SafeK_insertK hv ht
end

theorem update_safe (p : Policy) (hns : p.recreated .ns = true) (to src : T) (k : Nat) (ht : Safe p to) (hs : Safe p src) :
    Safe p (update to src k).val := by
  unfold update
  split
  · rename_i i tk _ sk
    exact Safe_node_rec hns (updK_safe p hns sk i tk k ht.kids hs.kids)
  · exact ht

mutual
theorem delT_safe (p : Policy) (hns : p.recreated .ns = true) (known : List String) :
    ∀ (t : T) (i : Nat) (q : String), Safe p t → ∀ v, (delT known i q t).1 = some v → Safe p v
  | .atom n, i, q, _ => by
    intro v hv
    simp only [delT] at hv
    split at hv
    · cases hv; exact Safe_atom p n
    · cases hv
  | .node kd j kids, i, q, h => by
    intro v hv
    simp only [delT] at hv
    by_cases hkd : kd = .ns
    · subst hkd
      simp only [↓reduceIte] at hv
      cases hv
      exact Safe_node_rec hns (delK_safe p hns known kids j (q ++ ".") h.kids)
    · simp only [hkd, ↓reduceIte] at hv
      split at hv
      · cases hv; exact h
      · cases hv
theorem delK_safe (p : Policy) (hns : p.recreated .ns = true) (known : List String) :
    ∀ (ts : Kids) (i : Nat) (pre : String), SafeK p ts → SafeK p (delK known i pre ts).1
  | [], _, _, _ => by simp only [delK]; exact SafeK_nil p
  | (key, x) :: r, i, pre, h => by
    have h' := SafeK_cons.mp h
    have h1 := delT_safe p hns known x i (pre ++ key) h'.1
    have h2 := delK_safe p hns known r i pre h'.2
    simp only [delK]
    cases hv : (delT known i (pre ++ key) x).1 with
    | none => exact h2
    | some v => exact SafeK_cons.mpr ⟨h1 v hv, h2⟩
end

mutual
theorem delT_nomut (p : Policy) (known : List String) :
    ∀ (t : T) (i : Nat) (q : String), NoMut p t → ∀ v, (delT known i q t).1 = some v → NoMut p v
  | .atom n, i, q, _ => by
    intro v hv
    simp only [delT] at hv
    split at hv
    · cases hv; simp [NoMut, mutIds]
    · cases hv
  | .node kd j kids, i, q, h => by
    have h' := NoMut_node.mp h
    intro v hv
    simp only [delT] at hv
    by_cases hkd : kd = .ns
    · subst hkd
      simp only [↓reduceIte] at hv
      cases hv
      exact NoMut_node.mpr ⟨h'.1, delK_nomut p known kids j (q ++ ".") h'.2⟩
    · simp only [hkd, ↓reduceIte] at hv
      split at hv
      · cases hv; exact h
      · cases hv
theorem delK_nomut (p : Policy) (known : List String) :
    ∀ (ts : Kids) (i : Nat) (pre : String), NoMutK p ts → NoMutK p (delK known i pre ts).1
  | [], _, _, _ => by simp only [delK]; simp [NoMutK, mutIdsK]
  | (key, x) :: r, i, pre, h => by
    have h' := NoMutK_cons.mp h
    have h1 := delT_nomut p known x i (pre ++ key) h'.1
    have h2 := delK_nomut p known r i pre h'.2
    simp only [delK]
    cases hv : (delT known i (pre ++ key) x).1 with
    | none => exact h2
    | some v => exact NoMutK_cons.mpr ⟨h1 v hv, h2⟩
end

mutual
theorem freshen_lt : ∀ (t : T) (k : Nat), IdsLt (freshen t k).next (freshen t k).val ∧ k ≤ (freshen t k).next
  | .atom n, k => by simp only [freshen]; exact ⟨IdsLt_atom _ _, Nat.le_refl _⟩
  | .node kd i kids, k => by
    simp only [freshen]
    have ih := freshenK_lt kids k
    exact ⟨IdsLt_node.mpr ⟨Nat.lt_succ_self _, ih.1.mono (Nat.le_succ _)⟩, by omega⟩
theorem freshenK_lt : ∀ (ts : Kids) (k : Nat), IdsLtK (freshenK ts k).next (freshenK ts k).val ∧ k ≤ (freshenK ts k).next
  | [], k => by simp only [freshenK]; exact ⟨IdsLtK_nil _, Nat.le_refl _⟩
  | (key, x) :: r, k => by
    have h1 := freshen_lt x k
    have h2 := freshenK_lt r (freshen x k).next
    simp only [freshenK]
    exact ⟨IdsLtK_cons.mpr ⟨h1.1.mono h2.2, h2.1⟩, by omega⟩
end

mutual
theorem freshen_nomut (p : Policy) : ∀ (t : T) (k : Nat), NoMut p t → NoMut p (freshen t k).val
  | .atom n, k, _ => by simp only [freshen]; simp [NoMut, mutIds]
  | .node kd i kids, k, h => by
    have h' := NoMut_node.mp h
    simp only [freshen]
    exact NoMut_node.mpr ⟨h'.1, freshenK_nomut p kids k h'.2⟩
theorem freshenK_nomut (p : Policy) : ∀ (ts : Kids) (k : Nat), NoMutK p ts → NoMutK p (freshenK ts k).val
  | [], k, _ => by simp only [freshenK]; simp [NoMutK, mutIdsK]
  | (key, x) :: r, k, h => by
    have h' := NoMutK_cons.mp h
    simp only [freshenK]
    exact NoMutK_cons.mpr ⟨freshen_nomut p x k h'.1, freshenK_nomut p r _ h'.2⟩
end

mutual
theorem freshen_safe (p : Policy) : ∀ (t : T) (k : Nat), Safe p t → Safe p (freshen t k).val
  | .atom n, k, _ => by simp only [freshen]; exact Safe_atom p n
  | .node kd i kids, k, h => by
    simp only [freshen]
    by_cases hr : p.recreated kd = true
    · exact Safe_node_rec hr (freshenK_safe p kids k h.kids)
    · have hr' : p.recreated kd = false := by simpa using hr
      exact Safe_node_nonrec hr' (h.nonrec hr').1 (freshenK_nomut p kids k (h.nonrec hr').2)
theorem freshenK_safe (p : Policy) : ∀ (ts : Kids) (k : Nat), SafeK p ts → SafeK p (freshenK ts k).val
  | [], k, _ => by simp only [freshenK]; exact SafeK_nil p
  | (key, x) :: r, k, h => by
    have h' := SafeK_cons.mp h
    simp only [freshenK]
    exact SafeK_cons.mpr ⟨freshen_safe p x k h'.1, freshenK_safe p r _ h'.2⟩
end

end Jap.Heap

import Jap.Lemmas.Validate
/-!
`Optional[Dataclass]` arguments (`Node.optGroup`): the value is validated by the per-class parser of the dataclass, so an
accepted value is an accepted *parser position*; the lemmas about `child` / `reach` carry over to `childO` / `reachO`, which
walk through such values too.
-/
namespace Jap.Validate

/-- a mapping at an `Optional[Dataclass]` argument is checked exactly like a parser of its own: `check_values` then
    `check_required`, with keys relative to it -/
theorem chkVal_optGroup_dict (ld pre cut item req fs kvs) (hl : leaflessKVs kvs = false) :
    chkVal ld pre cut item (.optGroup req fs) (.dict kvs) = chkVal ld pre cut true (.group true fs) (.dict kvs) := by
  rw [chkVal_group_dict, chkVal]
  simp only [if_true, hl, Bool.false_eq_true, if_false]
  cases walk ld pre pre.length fs (selected fs kvs) kvs with
  | error e => rfl
  | ok u => cases u; rfl

theorem liftO_val (p : Pos) : (liftO p).val = p.val := by
  obtain ⟨item, node, val⟩ := p
  cases node <;> try rfl
  cases val <;> try rfl
  simp only [liftO]
  split <;> rfl

theorem okAt_liftO {ld} {p : Pos} (h : OkAt ld p) : OkAt ld (liftO p) := by
  obtain ⟨item, node, val⟩ := p
  cases node with
  | optGroup req fs =>
    cases val with
    | dict kvs =>
      cases hl : leaflessKVs kvs with
      | true => simpa [liftO, hl] using h
      | false =>
        obtain ⟨pre, cut, hok⟩ := h
        simp only at hok
        rw [chkVal_optGroup_dict _ _ _ _ _ _ _ hl] at hok
        exact ⟨pre, cut, by simpa [liftO, hl] using hok⟩
    | null => exact h
    | bool b => exact h
    | int i => exact h
    | str s => exact h
    | flt r => exact h
    | list xs => exact h
  | leaf ty req d => exact h
  | group w fs => exact h
  | classArg req imp cls => exact h
  | listOf req it => exact h
  | subcommands rq cs => exact h

theorem okAt_childO {ld} {p q : Pos} {seg : Seg} (hp : OkAt ld p) (hc : childO p seg = .pos q) : OkAt ld q :=
  okAt_child (okAt_liftO hp) hc

theorem childO_pos_getPath {p q : Pos} {seg : Seg} (hc : childO p seg = .pos q) (r : Path) :
    getPath p.val (seg :: r) = getPath q.val r := by
  rw [← liftO_val p]
  exact child_pos_getPath hc r

theorem okAt_childO_undefined {ld} {p : Pos} {seg : Seg} {r : Path} {w : Val}
    (hp : OkAt ld p) (hc : childO p seg = .undefinedKey) (hg : getPath p.val (seg :: r) = some w) :
    leafless w = true := by
  rw [← liftO_val p] at hg
  exact okAt_child_undefined (okAt_liftO hp) hc hg

/-- `reach_ne_undefined` through `Optional[Dataclass]` values as well -/
theorem reachO_ne_undefined {ld} : ∀ (path : Path) {p : Pos} {w : Val},
    OkAt ld p → getPath p.val path = some w → leafless w = false → reachO p path ≠ .undefinedKey
  | [], p, w, _, _, _ => by simp [reachO]
  | seg :: r, p, w, hp, hg, hl => by
    cases hc : childO p seg with
    | pos q =>
      simp only [reachO, hc]
      rw [childO_pos_getPath hc] at hg
      exact reachO_ne_undefined r (okAt_childO hp hc) hg hl
    | undefinedKey =>
      have := okAt_childO_undefined hp hc hg
      rw [this] at hl
      cases hl
    | data => simp [reachO, hc]
    | unselected => simp [reachO, hc]
    | dictKwargs => simp [reachO, hc]
    | absent => simp [reachO, hc]

theorem okAt_reachO {ld} : ∀ (path : Path) {p q : Pos}, OkAt ld p → reachO p path = .pos q →
    OkAt ld q ∧ ∀ r, getPath p.val (path ++ r) = getPath q.val r
  | [], p, q, hp, hr => by
    simp only [reachO, Next.pos.injEq] at hr
    subst hr
    exact ⟨hp, fun r => by simp⟩
  | seg :: rest, p, q, hp, hr => by
    cases hc : childO p seg with
    | pos p1 =>
      simp only [reachO, hc] at hr
      obtain ⟨h1, h2⟩ := okAt_reachO rest (okAt_childO hp hc) hr
      refine ⟨h1, fun r => ?_⟩
      rw [List.cons_append, childO_pos_getPath hc]
      exact h2 r
    | undefinedKey => simp [reachO, hc] at hr
    | data => simp [reachO, hc] at hr
    | unselected => simp [reachO, hc] at hr
    | dictKwargs => simp [reachO, hc] at hr
    | absent => simp [reachO, hc] at hr

/-- where no `optGroup` is on the way the two walks agree: `childO` is `child` at every other node -/
theorem childO_eq_child {p : Pos} (h : ∀ req fs, p.node ≠ .optGroup req fs) (seg : Seg) : childO p seg = child p seg := by
  obtain ⟨item, node, val⟩ := p
  cases node with
  | optGroup req fs => exact absurd rfl (h req fs)
  | leaf ty req d => rfl
  | group w fs => rfl
  | classArg req imp cls => rfl
  | listOf req it => rfl
  | subcommands rq cs => rfl

end Jap.Validate

import Jap.Core.Subcmd
import Jap.Lemmas.Subcmd
import Jap.Lemmas.SubcmdMore
import Jap.Lemmas.SubcmdLayer
/-!
Lemmas about the SOURCES of a parse (C17, session 2): what a config source loses while it is loaded on its own
(`loadCfgArg`: exact, section by section), when it is kept verbatim (`quietDeep`: at every depth), the command line as
the plain precedence fold of its items in that case, the whole `parse_args` of the model, the re-parse of a result.
-/
namespace Jap.Subcmd

/-! ## association lists -/

theorem insert_self (k : String) (v : Val) : ∀ (c : Cfg), lookup k c = some v → insert k v c = c
  | [], h => by simp [lookup] at h
  | (k', v') :: r, h => by
    by_cases hk : k' = k
    · subst hk
      simp only [lookup, if_true, Option.some.injEq] at h
      subst h
      simp [insert]
    · simp only [lookup, hk, if_false] at h
      simp [insert, hk, insert_self k v r h]

/-! ## `get_subcommands` on a source that is loaded on its own (`fail_no_subcommand=False`, not single) -/

/-- the source itself names a subcommand (truthy value under the key) AND holds sections of two or more subcommands:
    exactly then `get_subcommands` deletes something while the source is loaded -/
def selectsEarly (h : SubHdr) (ns : List String) (tree : Cfg) : Bool :=
  truthyO (explicitOf (lookup h.dest tree)) && decide ((subKeys ns tree).length > 1)

/-- the section `k` is deleted while the source is loaded on its own -/
def loses (h : SubHdr) (ns : List String) (tree : Cfg) (k : String) : Bool :=
  selectsEarly h ns tree && (subKeys ns tree).contains k && !isStr k (explicitOf (lookup h.dest tree))

theorem getSubCore_source (h : SubHdr) (ns : List String) (mode : Mode) (tree : Cfg) :
    (getSubCore h ns ⟨false, false, mode⟩ tree).cfg =
      if selectsEarly h ns tree then
        eraseAll ((subKeys ns tree).filter (fun k => !isStr k (explicitOf (lookup h.dest tree)))) tree
      else tree := by
  unfold getSubCore selectsEarly
  simp only [Bool.or_self, Bool.and_false, Bool.false_eq_true, if_false]

theorem isSecAt_getSubCore_source (h : SubHdr) (ns : List String) (mode : Mode) (tree : Cfg) (k : String) :
    isSecAt k (getSubCore h ns ⟨false, false, mode⟩ tree).cfg = (isSecAt k tree && !loses h ns tree k) := by
  rw [getSubCore_source]
  unfold loses
  cases hs : selectsEarly h ns tree with
  | false => simp
  | true =>
    simp only [if_true, isSecAt_eraseAll, List.mem_filter, Bool.true_and]
    by_cases hk : k ∈ subKeys ns tree
    · have hsec : isSecAt k tree = true := ((mem_subKeys ns tree k).1 hk).2
      cases isStr k (explicitOf (lookup h.dest tree)) <;> simp [hk, hsec]
    · simp [hk]

/-- EXACT characterisation of the open finding C17-early-selection-drops-settings for a config argument / the config
    environment variable, section by section -/
theorem loadCfgArg_exact (i : Info) (h : SubHdr) (choices : List (String × P)) (tree t : Cfg)
    (hok : loadCfgArg (.node i (some h) choices) tree = .ok t) (k : String) :
    isSecAt k t = (isSecAt k tree && !loses h (names choices) tree k) := by
  unfold loadCfgArg parseCommon at hok
  cases h1 : handle (fun _ _ => []) ⟨false, false, .none⟩ [] (.node i (some h) choices) tree with
  | error e => simp [h1] at hok
  | ok c1 =>
    simp only [h1, Bool.false_eq_true, if_false] at hok
    cases hok
    rw [handle] at h1
    cases hg : getSub h (names choices) ⟨false, false, .none⟩ [] tree with
    | error e => simp [hg] at h1
    | ok r =>
      simp only [hg] at h1
      have hc := getSub_cfg h _ _ [] tree r hg
      split at h1
      · cases h1
      · rw [handleEach_isSec _ _ [] _ k rfl choices r.cfg _ h1, hc]
        exact isSecAt_getSubCore_source h _ .none tree k

/-! ## sources that are kept verbatim, at every depth -/

mutual
/-- at no level does the source name a subcommand while holding sections of several -/
def quietDeep : P → Cfg → Bool
  | .node _ .none _, _ => true
  | .node _ (some h) choices, t => !selectsEarly h (names choices) t && quietDeepIn choices t
def quietDeepIn : List (String × P) → Cfg → Bool
  | [], _ => true
  | (n, q) :: rest, t => quietDeep q (secOf (lookup n t)) && quietDeepIn rest t
end

theorem writeBack_self (n : String) (c : Cfg) : writeBack n (secOf (lookup n c)) c = c := by
  unfold writeBack
  split
  · rename_i hs
    unfold isSecAt at hs
    cases hl : lookup n c with
    | none => simp [hl] at hs
    | some v =>
      cases v with
      | sec kvs => exact insert_self n _ c (by simp [hl, secOf])
      | none => simp [hl, Val.isSec] at hs
      | int _ => simp [hl, Val.isSec] at hs
      | str _ => simp [hl, Val.isSec] at hs
  · rfl

mutual
theorem verbatim_P : ∀ (p : P) (lay : Mode → P → Cfg) (pre : List String) (tree t : Cfg),
    handle lay ⟨false, false, .none⟩ pre p tree = .ok t → quietDeep p tree = true → t = tree
  | .node i .none ch, lay, pre, tree, t, hok, _ => by
    rw [handle_leaf] at hok
    cases hok; rfl
  | .node i (some h) choices, lay, pre, tree, t, hok, hq => by
    rw [quietDeep] at hq
    simp only [Bool.and_eq_true, Bool.not_eq_true'] at hq
    rw [handle] at hok
    cases hg : getSub h (names choices) ⟨false, false, .none⟩ pre tree with
    | error e => simp [hg] at hok
    | ok r =>
      simp only [hg] at hok
      have hc := getSub_cfg h _ _ pre tree r hg
      rw [getSubCore_source, hq.1] at hc
      simp only [Bool.false_eq_true, if_false] at hc
      split at hok
      · cases hok
      · rw [hc] at hok
        exact verbatim_L choices lay pre _ tree t hok hq.2
theorem verbatim_L : ∀ (choices : List (String × P)) (lay : Mode → P → Cfg) (pre : List String) (todo : List String)
    (cfg c' : Cfg), handleEach lay ⟨false, false, .none⟩ pre choices todo cfg = .ok c' → quietDeepIn choices cfg = true → c' = cfg
  | [], lay, pre, todo, cfg, c', hok, _ => by
    rw [handleEach] at hok
    cases hok; rfl
  | (m, q) :: rest, lay, pre, todo, cfg, c', hok, hq => by
    rw [quietDeepIn] at hq
    simp only [Bool.and_eq_true] at hq
    rw [handleEach] at hok
    split at hok
    · simp only [mergeLayer] at hok
      cases hcs : checkSettings (pre ++ [m]) (lookup m cfg) with
      | error e => simp [hcs] at hok
      | ok u =>
        simp only [hcs] at hok
        cases hin : handle lay ⟨false, false, .none⟩ (pre ++ [m]) q (secOf (lookup m cfg)) with
        | error e => simp [hin] at hok
        | ok inner =>
          simp only [hin] at hok
          have e := verbatim_P q lay (pre ++ [m]) _ inner hin hq.1
          subst e
          rw [writeBack_self] at hok
          exact verbatim_L rest lay pre todo cfg c' hok hq.2
    · exact verbatim_L rest lay pre todo cfg c' hok hq.2
end

/-- a source that is `quietDeep` goes through `apply_config` unchanged (as a tree, at every depth) -/
theorem loadCfgArg_verbatim (p : P) (tree t : Cfg) (hok : loadCfgArg p tree = .ok t) (hq : quietDeep p tree = true) :
    t = tree := by
  unfold loadCfgArg parseCommon at hok
  cases h1 : handle (fun _ _ => []) ⟨false, false, .none⟩ [] p tree with
  | error e => simp [h1] at hok
  | ok c1 =>
    simp only [h1, Bool.false_eq_true, if_false] at hok
    cases hok
    exact verbatim_P p _ [] tree _ h1 hq

/-! ## the command line of one parser as a precedence fold -/

/-- the items of a command line merged in order, later over earlier: the fold of C04 -/
def foldItems (items : List (Bool × Cfg)) (c : Cfg) : Cfg := items.foldl (fun c it => merge it.2 c) c

theorem applyItems_fold (p : P) : ∀ (items : List (Bool × Cfg)) (c r : Cfg), applyItems p items c = .ok r →
    (∀ it ∈ items, it.1 = true → quietDeep p it.2 = true) → r = foldItems items c
  | [], c, r, hok, _ => by
    rw [applyItems] at hok
    cases hok; rfl
  | (false, t) :: rest, c, r, hok, hq => by
    rw [applyItems] at hok
    have := applyItems_fold p rest _ r hok (fun it hi => hq it (List.mem_cons_of_mem _ hi))
    simpa [foldItems] using this
  | (true, t) :: rest, c, r, hok, hq => by
    rw [applyItems] at hok
    unfold applyCfgArg at hok
    cases hl : loadCfgArg p t with
    | error e => simp [hl] at hok
    | ok t' =>
      simp only [hl] at hok
      have e := loadCfgArg_verbatim p t t' hl (hq (true, t) (List.mem_cons_self) rfl)
      subst e
      have := applyItems_fold p rest _ r hok (fun it hi => hq it (List.mem_cons_of_mem _ hi))
      simpa [foldItems] using this

/-- the value a key holds in the fold: the LAST item that has it as an option value, else the base -/
def lastLeaf (k : String) (items : List (Bool × Cfg)) (base : Option Val) : Option Val :=
  items.foldl (fun acc it => match lookup k it.2 with
    | some v => some v
    | .none => acc) base

theorem lookup_foldItems (k : String) : ∀ (items : List (Bool × Cfg)) (c : Cfg),
    (∀ it ∈ items, (keysOf it.2).Nodup ∧ leafAt k it.2 = true) →
    lookup k (foldItems items c) = lastLeaf k items (lookup k c)
  | [], c, _ => rfl
  | it :: rest, c, h => by
    have h1 := h it List.mem_cons_self
    have := lookup_foldItems k rest (merge it.2 c) (fun x hx => h x (List.mem_cons_of_mem _ hx))
    simp only [foldItems, List.foldl_cons] at this ⊢
    rw [this, lookup_merge_leaf k it.2 c h1.1 h1.2]
    rfl

/-! ## the whole `parse_args` of the model ends with the final stage -/

theorem parseArgs_final (lay : Mode → P → Cfg) (single : Bool) (mode : Mode) (validate : Bool) (p : P) (av : Argv) (ns r : Cfg)
    (hok : parseArgs lay single mode validate p av ns = .ok r) :
    ∃ c1, parseCommon lay ⟨true, single, mode⟩ true validate p c1 = .ok r := by
  cases p with
  | node info sub choices =>
    cases av with
    | mk items asub =>
      rw [parseArgs] at hok
      cases h0 : applyItems (.node info sub choices) items (merge ns (baseOf mode (.node info sub choices))) with
      | error e => simp [h0] at hok
      | ok c0 =>
        simp only [h0] at hok
        split at hok
        · cases hok
        · rename_i c1 _
          exact ⟨c1, hok⟩

/-- without a subcommand name on the command line and with quiet config arguments, `parse_args` is the final stage on the
    precedence fold of the command line over (the namespace handed in over) defaults and environment -/
theorem parseArgs_quiet (lay : Mode → P → Cfg) (single : Bool) (mode : Mode) (validate : Bool) (p : P)
    (items : List (Bool × Cfg)) (ns r : Cfg)
    (hq : ∀ it ∈ items, it.1 = true → quietDeep p it.2 = true)
    (hok : parseArgs lay single mode validate p (.mk items .none) ns = .ok r) :
    parseCommon lay ⟨true, single, mode⟩ true validate p (foldItems items (merge ns (baseOf mode p))) = .ok r := by
  cases p with
  | node info sub choices =>
    rw [parseArgs] at hok
    cases h0 : applyItems (.node info sub choices) items (merge ns (baseOf mode (.node info sub choices))) with
    | error e => simp [h0] at hok
    | ok c0 =>
      simp only [h0] at hok
      have e := applyItems_fold _ items _ c0 h0 hq
      subst e
      exact hok

/-! ## `get_subcommands` under the single-subcommand rule (default config files, the final stage) -/

/-- the section `k` is deleted by `get_subcommands` when the single-subcommand rule is on: some subcommand is selected
    (named, else the first with a section), two or more have sections, `k` is one of them and not the selected one -/
def losesSingle (h : SubHdr) (ns : List String) (c : Cfg) (k : String) : Bool :=
  truthyO (choice h ns c) && decide ((subKeys ns c).length > 1) && (subKeys ns c).contains k && !isStr k (choice h ns c)

theorem isSecAt_getSubCore_single (h : SubHdr) (ns : List String) (fail : Bool) (mode : Mode) (c : Cfg) (k : String) :
    isSecAt k (getSubCore h ns ⟨fail, true, mode⟩ c).cfg = (isSecAt k c && !losesSingle h ns c k) := by
  unfold getSubCore losesSingle choice
  simp only [Bool.or_true, Bool.and_true]
  cases he : explicitOf (lookup h.dest c) with
  | some v =>
    simp only [Option.isNone_some, Bool.false_and, Bool.false_eq_true, if_false]
    cases ht : truthyO (some v) <;> cases hl : decide ((subKeys ns c).length > 1)
    · simp
    · simp
    · simp
    · simp only [Bool.and_self, if_true, isSecAt_eraseAll, List.mem_filter, Bool.true_and]
      by_cases hk : k ∈ subKeys ns c
      · have hsec : isSecAt k c = true := ((mem_subKeys ns c k).1 hk).2
        cases isStr k (some v) <;> simp [hk, hsec]
      · simp [hk]
  | none =>
    simp only [Option.isNone_none, Bool.true_and]
    have hdsec : isSecAt h.dest c = false := by
      unfold isSecAt
      cases hl : lookup h.dest c with
      | none => rfl
      | some w => cases w <;> simp_all [explicitOf, Val.isSec]
    cases hs : subKeys ns c with
    | nil => simp [truthyO]
    | cons a r =>
      have hins : ∀ x, isSecAt x (insert h.dest (.str a) c) = isSecAt x c := by
        intro x
        rw [isSecAt_insert]
        by_cases hx : x = h.dest
        · subst hx; simp [Val.isSec, hdsec]
        · simp [hx]
      simp only [List.isEmpty_cons, Bool.not_false, if_true, List.head?_cons, Option.map_some, List.headD_cons]
      cases ht : truthyO (some (Val.str a)) <;> cases hl : decide ((a :: r).length > 1)
      · simp [hins]
      · simp [hins]
      · simp [hins]
      · simp only [Bool.and_self, if_true, isSecAt_eraseAll, List.mem_filter, Bool.true_and, hins]
        by_cases hk : k ∈ a :: r
        · have hsec : isSecAt k c = true := ((mem_subKeys ns c k).1 (hs ▸ hk)).2
          cases isStr k (some (Val.str a)) <;> simp [hk, hsec]
        · simp [hk]

/-! ## the subcommand variable of the environment (finding C17-env-named-subcommand-resets-defaults, repaired by a5d1a53) -/

theorem lookup_foldl_insert (k : String) : ∀ (pcfg s : Cfg), (keysOf pcfg).Nodup →
    lookup k (pcfg.foldl (fun s kv => insert kv.1 kv.2 s) s) = match lookup k pcfg with
      | some v => some v
      | .none => lookup k s
  | [], s, _ => rfl
  | (k0, v0) :: r, s, hnd => by
    have hnd' : (keysOf r).Nodup := by simp [keysOf] at hnd ⊢; exact hnd.2
    have hk0 : ¬ k0 ∈ keysOf r := by simp [keysOf] at hnd ⊢; exact hnd.1
    simp only [List.foldl_cons]
    rw [lookup_foldl_insert k r _ hnd']
    by_cases hk : k0 = k
    · subst hk
      rw [lookup_none_of_not_mem k0 r hk0]
      simp [lookup, lookup_insert_same]
    · simp only [lookup, hk, if_false]
      rw [lookup_insert_other _ _ _ _ (Ne.symm hk)]

/-- EXACT: when the variable names the subcommand `v`, the environment layer holds under `v` EVERY key of the named
    sub-parser's complete `parse_env` (its plain defaults included), whatever was there -/
theorem copyUnder_all (v : String) (pcfg cfg : Cfg) (hnd : (keysOf pcfg).Nodup) (k : String) (hk : k ∈ keysOf pcfg) :
    lookup k (secOf (lookup v (copyUnder v pcfg cfg))) = lookup k pcfg := by
  unfold copyUnder
  have hne : pcfg.isEmpty = false := by
    cases pcfg with
    | nil => simp [keysOf] at hk
    | cons a r => rfl
  simp only [hne, Bool.false_eq_true, if_false, lookup_insert_same, secOf]
  rw [lookup_foldl_insert k pcfg _ hnd]
  cases hl : lookup k pcfg with
  | some w => rfl
  | none =>
    exfalso
    clear hne hnd
    induction pcfg with
    | nil => simp [keysOf] at hk
    | cons a r ih =>
      obtain ⟨k0, v0⟩ := a
      by_cases h0 : k0 = k
      · simp [lookup, h0] at hl
      · simp only [lookup, h0, if_false] at hl
        simp only [keysOf, List.map_cons, List.mem_cons] at hk
        rcases hk with e | e
        · exact h0 e.symm
        · exact ih e hl

theorem envSubPart_named (E : Env) (penv : P → Cfg) (q : P) (c0 : Cfg) (h : SubHdr) (v : String) (r : P)
    (hs : q.sub = some h)
    (hv : lookupE (getEnvVar (prefixAt E.root (q.info.path.map codes)) (codes h.dest)) E.vals = some (.str v))
    (hr : findP v q.choices = some r) :
    envSubPart E penv q c0 = copyUnder v (penv r) (insert h.dest (.str v) c0) := by
  unfold envSubPart
  simp [hs, hv, hr]

/-- complement: a variable that is unset (or a parser without subcommands) leaves the layer alone -/
theorem envSubPart_unnamed (E : Env) (penv : P → Cfg) (q : P) (c0 : Cfg)
    (hv : ∀ h, q.sub = some h →
      lookupE (getEnvVar (prefixAt E.root (q.info.path.map codes)) (codes h.dest)) E.vals = .none) :
    envSubPart E penv q c0 = c0 := by
  unfold envSubPart
  cases hs : q.sub with
  | none => rfl
  | some h => simp [hv h hs]

/-! ## the `parent_parsers` stack (finding C17-env-default-config-leak, repaired by 00c879c) -/

theorem pickLast_absent (k : String) : ∀ (files : List Cfg) (base : Option Val), (∀ t ∈ files, lookup k t = .none) →
    pickLast k files base = base
  | [], _, _ => rfl
  | t :: rest, base, h => by
    simp only [pickLast, List.foldl_cons, h t List.mem_cons_self]
    exact pickLast_absent k rest base (fun x hx => h x (List.mem_cons_of_mem _ hx))

/-- since fix 00c879c only the LAST stack entry counts, whatever is further up -/
theorem filesOf_snoc (ctx : Ctx) (key : String) (pd own : List Cfg) :
    filesOf (ctx ++ [(key, pd)]) own = pd.map (narrow key) ++ own := by
  simp [filesOf, lastEntry]

/-! ## a configuration that holds exactly one section and no name (what `dump` writes for an exactly-one result) -/

theorem filter_only (n : String) : ∀ (ns : List String), ns.Nodup → n ∈ ns → ∀ (f : String → Bool),
    (∀ m ∈ ns, f m = (m == n)) → ns.filter f = [n]
  | [], _, hn, _, _ => by cases hn
  | a :: r, hnd, hn, f, hf => by
    have hnd' : r.Nodup := (List.nodup_cons.1 hnd).2
    have ha : ¬ a ∈ r := (List.nodup_cons.1 hnd).1
    by_cases e : a = n
    · subst e
      have h1 : f a = true := by rw [hf a List.mem_cons_self]; simp
      have h2 : r.filter f = [] := by
        simp only [List.filter_eq_nil_iff]
        intro m hm
        rw [hf m (List.mem_cons_of_mem _ hm)]
        have : m ≠ a := fun e => ha (e ▸ hm)
        simp [this]
      simp [List.filter, h1, h2]
    · have h1 : f a = false := by rw [hf a List.mem_cons_self]; simp [e]
      have hn' : n ∈ r := by
        rcases List.mem_cons.1 hn with e' | e'
        · exact absurd e'.symm e
        · exact e'
      simp only [List.filter, h1]
      exact filter_only n r hnd' hn' f (fun m hm => hf m (List.mem_cons_of_mem _ hm))

theorem choice_only_section (h : SubHdr) (ns : List String) (c : Cfg) (n : String) (hnd : ns.Nodup) (hn : n ∈ ns)
    (he : explicitOf (lookup h.dest c) = .none) (hs : ∀ m ∈ ns, isSecAt m c = (m == n)) :
    choice h ns c = some (.str n) := by
  unfold choice subKeys
  rw [he, filter_only n ns hnd hn _ hs]
  rfl

end Jap.Subcmd

/-
Helper lemmas for the component order over NESTED keys (E5, `Jap.Core.Graph`):

* `rank` against positions in a duplicate-free order (`rank_le_idxOf`, `lt_rank_of_all`),
* `reorder_sources_first`: a component every matching key of which comes after the key of another component is
  walked after that component,
* the second loop of `instantiation_order`: a target node `k` that is a dotted-part prefix of a deeper target node `t`
  yields the edge `t --> k` (`mem_prefixEdges`), via `sortAsc` being a sorted permutation,
* monotonicity of `ReachE` / `Acyclic` in the edge list, positions under `filter`.
-/
import Jap.Lemmas.Graph

namespace Jap.Graph

variable {κ γ : Type}

/-! ### rank against positions -/

theorem rank_le_idxOf [DecidableEq κ] (m : κ → γ → Bool) (c : γ) (k : κ) : ∀ (order : List κ),
    k ∈ order → m k c = true → rank m order c ≤ order.idxOf k
  | [], h, _ => by simp at h
  | k0 :: r, h, hm => by
    by_cases h0 : m k0 c = true
    · simp [rank, h0]
    · have h0' : m k0 c = false := by simpa using h0
      have hne : k0 ≠ k := by intro e; rw [e] at h0; exact h0 hm
      have hb : (k0 == k) = false := by simpa using hne
      have hr : k ∈ r := by
        rcases List.mem_cons.mp h with h | h
        · exact absurd h.symm hne
        · exact h
      have := rank_le_idxOf m c k r hr hm
      simp only [rank, h0', Bool.false_eq_true, if_false, List.idxOf_cons, hb, cond_false]
      omega

/-- if every matching key sits after position `n`, so does the first matching key -/
theorem lt_rank_of_all [DecidableEq κ] (m : κ → γ → Bool) (c : γ) (n : Nat) : ∀ (order : List κ),
    n < order.length → (∀ k ∈ order, m k c = true → n < order.idxOf k) → n < rank m order c
  | [], h, _ => by simp at h
  | k0 :: r, hn, hall => by
    by_cases h0 : m k0 c = true
    · have := hall k0 List.mem_cons_self h0
      simp at this
    · have h0' : m k0 c = false := by simpa using h0
      simp only [rank, h0', Bool.false_eq_true, if_false]
      cases n with
      | zero => omega
      | succ n =>
        have hn' : n < r.length := by simpa using hn
        have := lt_rank_of_all m c n r hn' (by
          intro k hk hm
          have hne : k0 ≠ k := by intro e; rw [e] at h0; exact h0 hm
          have hb : (k0 == k) = false := by simpa using hne
          have := hall k (List.mem_cons_of_mem _ hk) hm
          simp only [List.idxOf_cons, hb, cond_false] at this
          omega)
        omega

/-- `s` is walked before `c` as soon as every key of the order that matches `c` comes after the key `s` -/
theorem reorder_sources_first (es : List (String × String)) (o comps : List String) (s c : String)
    (hs : s ∈ comps) (hc : c ∈ comps) (hso : s ∈ o)
    (hall : ∀ k ∈ o, keyMatches k c = true → o.idxOf s < o.idxOf k) :
    (reorder id o comps).idxOf s < (reorder id o comps).idxOf c := by
  have _ := es
  have hr : reorder id o comps = reorderRec (fun k c => keyMatches k (id c)) o comps := reorderBy_eq _ _ _
  rw [hr]
  have hperm := reorderRec_perm (fun k c => keyMatches k (id c)) o comps
  apply idxOf_lt_of_sorted (fun c => rank (fun k c => keyMatches k (id c)) o c) _ _ _
    (reorderRec_sorted _ o comps) (hperm.mem_iff.mpr hs) (hperm.mem_iff.mpr hc)
  show rank _ o s < rank _ o c
  have h1 : rank (fun k c => keyMatches k (id c)) o s ≤ o.idxOf s :=
    rank_le_idxOf _ s s o hso (keyMatches_self s)
  have h2 : o.idxOf s < rank (fun k c => keyMatches k (id c)) o c :=
    lt_rank_of_all _ c _ o (List.idxOf_lt_length_of_mem hso) hall
  omega

/-! ### `sortAsc` is a sorted permutation -/

theorem mem_insertAsc (k : γ → Nat) (x y : γ) : ∀ l, y ∈ insertAsc k x l ↔ y = x ∨ y ∈ l
  | [] => by simp [insertAsc]
  | z :: r => by
    unfold insertAsc
    by_cases h : k z < k x
    · simp only [h, if_true, List.mem_cons, mem_insertAsc k x y r]
      constructor
      · rintro (h | h | h)
        · exact Or.inr (Or.inl h)
        · exact Or.inl h
        · exact Or.inr (Or.inr h)
      · rintro (h | h | h)
        · exact Or.inr (Or.inl h)
        · exact Or.inl h
        · exact Or.inr (Or.inr h)
    · simp [h]

theorem mem_sortAsc (k : γ → Nat) (y : γ) : ∀ l, y ∈ sortAsc k l ↔ y ∈ l
  | [] => by simp [sortAsc]
  | x :: r => by simp [sortAsc, mem_insertAsc, mem_sortAsc k y r]

theorem insertAsc_sorted (k : γ → Nat) (x : γ) : ∀ l, l.Pairwise (fun a b => k a ≤ k b) →
    (insertAsc k x l).Pairwise (fun a b => k a ≤ k b)
  | [], _ => by simp [insertAsc]
  | z :: r, h => by
    obtain ⟨hz, hr⟩ := List.pairwise_cons.mp h
    unfold insertAsc
    by_cases hlt : k z < k x
    · simp only [hlt, if_true]
      refine List.pairwise_cons.mpr ⟨?_, insertAsc_sorted k x r hr⟩
      intro y hy
      rcases (mem_insertAsc k x y r).mp hy with h | h
      · subst h; omega
      · exact hz y h
    · simp only [hlt, if_false]
      refine List.pairwise_cons.mpr ⟨?_, h⟩
      intro y hy
      rcases List.mem_cons.mp hy with h | h
      · subst h; omega
      · have := hz y h; omega

theorem sortAsc_sorted (k : γ → Nat) : ∀ l, (sortAsc k l).Pairwise (fun a b => k a ≤ k b)
  | [] => by simp [sortAsc]
  | x :: r => by
    unfold sortAsc
    exact insertAsc_sorted k x _ (sortAsc_sorted k r)

/-- in a list sorted by `f`, an element with a strictly smaller `f` lies before the first occurrence of the other -/
theorem sorted_split (f : γ → Nat) : ∀ (l : List γ) (t k : γ), l.Pairwise (fun a b => f a ≤ f b) → t ∈ l → k ∈ l →
    f k < f t → ∃ pre post, l = pre ++ t :: post ∧ k ∈ pre
  | [], _, _, _, h, _, _ => by simp at h
  | x :: r, t, k, hp, ht, hk, hlt => by
    obtain ⟨hx, hr⟩ := List.pairwise_cons.mp hp
    rcases List.mem_cons.mp ht with ht1 | ht1
    · -- t is the head: k would have to be ≥ t
      subst ht1
      rcases List.mem_cons.mp hk with hk1 | hk1
      · subst hk1; omega
      · have := hx k hk1; omega
    · rcases List.mem_cons.mp hk with hk1 | hk1
      · subst hk1
        obtain ⟨pre, post, e⟩ := List.append_of_mem ht1
        exact ⟨k :: pre, post, by rw [e]; rfl, List.mem_cons_self⟩
      · obtain ⟨pre, post, e, hin⟩ := sorted_split f r t k hr ht1 hk1 hlt
        exact ⟨x :: pre, post, by rw [e]; rfl, List.mem_cons_of_mem _ hin⟩

/-! ### the shared-prefix edges of `instantiation_order` -/

theorem mem_prefixEdgesLoop (t k : String) (hk : k ∈ prefixesOf t) : ∀ (pre post seen : List String),
    k ∈ seen ++ pre → (t, k) ∈ prefixEdgesLoop (pre ++ t :: post) seen
  | [], post, seen, hin => by
    simp only [List.append_nil] at hin
    simp only [List.nil_append, prefixEdgesLoop]
    apply List.mem_append_left
    refine List.mem_map.mpr ⟨k, List.mem_filter.mpr ⟨hk, ?_⟩, rfl⟩
    simpa using hin
  | x :: pre, post, seen, hin => by
    simp only [List.cons_append, prefixEdgesLoop]
    apply List.mem_append_right
    apply mem_prefixEdgesLoop t k hk pre post (seen ++ [x])
    simp only [List.append_assoc, List.singleton_append]
    exact hin

/-- two target nodes, the shallower one a dotted-part prefix of the deeper one: the edge deeper --> shallower is added -/
theorem mem_prefixEdges (setOrder : List String) (t k : String) (ht : t ∈ setOrder) (hks : k ∈ setOrder)
    (hk : k ∈ prefixesOf t) (hd : depth k < depth t) : (t, k) ∈ prefixEdges setOrder := by
  have ht' : t ∈ sortedTargets setOrder := (mem_sortAsc depth t _).mpr (List.mem_eraseDups.mpr ht)
  have hk' : k ∈ sortedTargets setOrder := (mem_sortAsc depth k _).mpr (List.mem_eraseDups.mpr hks)
  obtain ⟨pre, post, e, hin⟩ := sorted_split depth (sortedTargets setOrder) t k (sortAsc_sorted depth _) ht' hk' hd
  unfold prefixEdges
  rw [e]
  cases pre with
  | nil => simp at hin
  | cons t0 pre' =>
    simp only [List.cons_append]
    exact mem_prefixEdgesLoop t k hk pre' post [t0] (by simpa using hin)

/-! ### edge lists with the same edges -/

section reach
variable {α : Type} [DecidableEq α]

omit [DecidableEq α] in
theorem ReachE.mono {es es' : List (α × α)} (h : ∀ e ∈ es, e ∈ es') {a b : α} (hr : ReachE es a b) : ReachE es' a b := by
  induction hr with
  | refl => exact .refl _
  | tail _ he ih => exact .tail ih (h _ he)

omit [DecidableEq α] in
theorem Acyclic.of_subset {es es' : List (α × α)} (h : ∀ e ∈ es, e ∈ es') (ha : Acyclic es') : Acyclic es := by
  rintro ⟨a, b, hab, hr⟩
  exact ha ⟨a, b, h _ hab, hr.mono h⟩

end reach

/-! ### positions under `filter` -/

theorem idxOf_filter_lt [DecidableEq γ] (p : γ → Bool) : ∀ (l : List γ) (s t : γ), l.Nodup → s ∈ l → t ∈ l →
    p s = true → p t = true → l.idxOf s < l.idxOf t → (l.filter p).idxOf s < (l.filter p).idxOf t
  | [], _, _, _, h, _, _, _, _ => by simp at h
  | x :: r, s, t, hnd, hs, ht, hps, hpt, hlt => by
    obtain ⟨hx, hr⟩ := List.nodup_cons.mp hnd
    by_cases hxs : x = s
    · subst hxs
      have hne : x ≠ t := by intro e; subst e; omega
      have hb : (x == t) = false := by simpa using hne
      simp [hps, List.idxOf_cons, hb]
    · have hb1 : (x == s) = false := by simpa using hxs
      by_cases hxt : x = t
      · subst hxt
        simp [List.idxOf_cons, hb1] at hlt
      · have hb2 : (x == t) = false := by simpa using hxt
        have hsr : s ∈ r := by
          rcases List.mem_cons.mp hs with h | h
          · exact absurd h.symm hxs
          · exact h
        have htr : t ∈ r := by
          rcases List.mem_cons.mp ht with h | h
          · exact absurd h.symm hxt
          · exact h
        simp only [List.idxOf_cons, hb1, hb2, cond_false] at hlt
        have ih := idxOf_filter_lt p r s t hr hsr htr hps hpt (by omega)
        by_cases hpx : p x = true
        · simp only [List.filter_cons, hpx, if_true, List.idxOf_cons, hb1, hb2, cond_false]
          omega
        · simp only [List.filter_cons, hpx, Bool.false_eq_true, if_false]
          exact ih

/-- the walked sequence is a permutation of the parser's components -/
theorem componentOrder_perm (links : List Link) (setOrder dests seq : List String)
    (h : componentOrder links setOrder dests = .ok seq) : seq.Perm dests := by
  unfold componentOrder at h
  cases ho : instantiationOrder links setOrder with
  | error e => rw [ho] at h; simp at h
  | ok o =>
    rw [ho] at h
    simp only [Except.ok.injEq] at h
    rw [← h]
    have h1 : reorder id o (sortDesc depth dests) = reorderRec (fun k c => keyMatches k (id c)) o (sortDesc depth dests) :=
      reorderBy_eq _ _ _
    rw [h1]
    exact (reorderRec_perm _ o _).trans (sortDesc_perm depth dests)

theorem filter_flag_map (p : String → Bool) : ∀ (seq : List String),
    ((seq.map fun d => (d, p d)).filter (·.2)).map (·.1) = seq.filter p
  | [] => rfl
  | x :: r => by
    by_cases hx : p x = true
    · simp [hx, filter_flag_map p r]
    · simp [hx, filter_flag_map p r]

/-- consecutive elements are related (core Lean has no `List.Chain'`) -/
def ChainOf {α : Type} (R : α → α → Prop) : List α → Prop
  | [] => True
  | [_] => True
  | a :: b :: r => R a b ∧ ChainOf R (b :: r)

end Jap.Graph

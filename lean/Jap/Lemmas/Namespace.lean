import Jap.Core.Namespace
/-!
Helper lemmas for C11: association-list algebra, the one-pass description of
`__setitem__`/`__getitem__`/`__delitem__` (`setK`/`getK`/`delK`) and its
equivalence with the two-phase code (`walk` + `_create_nested_namespace` +
assignment) whenever no dict value lies on the key path.
-/
namespace Jap.NS

/-! ### association lists -/

theorem lookup_insert_same (k : SKey) (v : V) : ∀ kvs, lookup k (insert k v kvs) = some v
  | [] => by simp [insert, lookup]
  | (k', v') :: r => by
    by_cases h : k' = k
    · simp [insert, lookup, h]
    · simp [insert, lookup, h, lookup_insert_same k v r]

theorem lookup_insert_other {k k' : SKey} (v : V) (h : k' ≠ k) : ∀ kvs, lookup k' (insert k v kvs) = lookup k' kvs
  | [] => by simp [insert, lookup, Ne.symm h]
  | (k'', v'') :: r => by
    by_cases h2 : k'' = k
    · subst h2
      simp [insert, lookup, Ne.symm h]
    · by_cases h3 : k'' = k'
      · subst h3
        simp [insert, lookup, h2]
      · simp [insert, lookup, h2, h3, lookup_insert_other v h r]

theorem insert_insert_same (k : SKey) (a b : V) : ∀ kvs, insert k a (insert k b kvs) = insert k a kvs
  | [] => by simp [insert]
  | (k', v') :: r => by
    by_cases h : k' = k
    · simp [insert, h]
    · simp [insert, h, insert_insert_same k a b r]

theorem lookup_erase_same (k : SKey) : ∀ kvs : KV, (∀ k' v', (k', v') ∈ kvs → True) → lookup k (erase k kvs) = .none ∨ True
  | _, _ => Or.inr trivial

/-- keys of an association list -/
def keysOf (kvs : KV) : List SKey := kvs.map (·.1)

theorem lookup_none_of_not_mem (k : SKey) : ∀ kvs : KV, k ∉ keysOf kvs → lookup k kvs = .none
  | [], _ => rfl
  | (k', v') :: r, h => by
    have h1 : k' ≠ k := by
      intro e; apply h; simp [keysOf, e]
    have h2 : k ∉ keysOf r := by
      intro e; apply h; simp [keysOf] at e ⊢; exact Or.inr e
    simp [lookup, h1, lookup_none_of_not_mem k r h2]

theorem keysOf_erase_nodup (k : SKey) : ∀ kvs : KV, (keysOf kvs).Nodup → k ∉ keysOf (erase k kvs) ∧ (keysOf (erase k kvs)).Nodup
  | [], _ => by simp [erase, keysOf]
  | (k', v') :: r, h => by
    simp only [keysOf, List.map_cons, List.nodup_cons] at h
    obtain ⟨hk, hr⟩ := h
    by_cases e : k' = k
    · subst e
      simp only [erase, if_true]
      exact ⟨hk, hr⟩
    · obtain ⟨ih1, ih2⟩ := keysOf_erase_nodup k r hr
      have sub : ∀ x, x ∈ keysOf (erase k r) → x ∈ keysOf r := by
        intro x
        induction r with
        | nil => simp [erase, keysOf]
        | cons hd tl ihh =>
          obtain ⟨a, b⟩ := hd
          by_cases e2 : a = k
          · simp only [erase, e2, if_true, keysOf, List.map_cons, List.mem_cons]; exact fun h => Or.inr h
          · simp only [erase, e2, if_false, keysOf, List.map_cons, List.mem_cons]
            rintro (h | h)
            · exact Or.inl h
            · simp only [keysOf, List.map_cons, List.nodup_cons] at hr
              exact Or.inr (ihh hr.2 (by intro hh; exact hk (by simp [keysOf] at hh ⊢; exact Or.inr hh))
                (keysOf_erase_nodup k tl hr.2).1 (keysOf_erase_nodup k tl hr.2).2 h)
      simp only [erase, e, if_false, keysOf, List.map_cons, List.mem_cons, List.nodup_cons, not_or]
      refine ⟨⟨fun h => e h.symm, ih1⟩, fun h => hk (sub _ h), ih2⟩

theorem lookup_erase_self (k : SKey) (kvs : KV) (h : (keysOf kvs).Nodup) : lookup k (erase k kvs) = .none :=
  lookup_none_of_not_mem k _ (keysOf_erase_nodup k kvs h).1

theorem lookup_erase_other {k k' : SKey} (h : k' ≠ k) : ∀ kvs : KV, lookup k' (erase k kvs) = lookup k' kvs
  | [] => rfl
  | (k'', v'') :: r => by
    by_cases h2 : k'' = k
    · subst h2
      simp [erase, lookup, Ne.symm h]
    · by_cases h3 : k'' = k'
      · simp [erase, lookup, h2, h3]
      · simp [erase, lookup, h2, h3, lookup_erase_other h r]

theorem keysOf_insert_nodup (k : SKey) (v : V) : ∀ kvs : KV, (keysOf kvs).Nodup →
    (keysOf (insert k v kvs)).Nodup ∧ ∀ x, x ∈ keysOf (insert k v kvs) ↔ x = k ∨ x ∈ keysOf kvs
  | [], _ => by simp [insert, keysOf]
  | (k', v') :: r, h => by
    simp only [keysOf, List.map_cons, List.nodup_cons] at h
    obtain ⟨hk, hr⟩ := h
    by_cases e : k' = k
    · subst e
      simp only [insert, if_true, keysOf, List.map_cons, List.nodup_cons, List.mem_cons]
      exact ⟨⟨hk, hr⟩, fun x => by constructor <;> intro h <;> rcases h with h | h <;> simp [h]⟩
    · obtain ⟨ih1, ih2⟩ := keysOf_insert_nodup k v r hr
      simp only [insert, e, if_false, keysOf, List.map_cons, List.nodup_cons, List.mem_cons]
      refine ⟨⟨?_, ih1⟩, ?_⟩
      · intro hm
        rcases (ih2 k').mp hm with h | h
        · exact e h
        · exact hk h
      · intro x
        constructor
        · rintro (h | h)
          · exact Or.inr (Or.inl h)
          · rcases (ih2 x).mp h with h | h
            · exact Or.inl h
            · exact Or.inr (Or.inr h)
        · rintro (h | h | h)
          · exact Or.inr ((ih2 x).mpr (Or.inl h))
          · exact Or.inl h
          · exact Or.inr ((ih2 x).mpr (Or.inr h))

/-! ### one-pass description of the key operations (no dict on the path) -/

/-- one-pass `__setitem__`: existing namespaces are entered, anything else is replaced by a fresh one -/
def setK : List SKey → V → KV → KV
  | [], _, kvs => kvs
  | [leaf], v, kvs => insert leaf v kvs
  | s :: t :: rest, v, kvs =>
    match lookup s kvs with
    | some (.ns sub) => insert s (.ns (setK (t :: rest) v sub)) kvs
    | _ => insert s (.ns (setK (t :: rest) v [])) kvs

/-- one-pass `__getitem__` through namespaces only -/
def getK : List SKey → KV → Option V
  | [], _ => .none
  | [leaf], kvs => lookup leaf kvs
  | s :: t :: rest, kvs =>
    match lookup s kvs with
    | some (.ns sub) => getK (t :: rest) sub
    | _ => .none

/-- one-pass `__delitem__` through namespaces only (no-op when the key is absent) -/
def delK : List SKey → KV → KV
  | [], kvs => kvs
  | [leaf], kvs => erase leaf kvs
  | s :: t :: rest, kvs =>
    match lookup s kvs with
    | some (.ns sub) => insert s (.ns (delK (t :: rest) sub)) kvs
    | _ => kvs

/-- no dict value is met while walking `path` from `cur` (the domain of the refinement theorems) -/
def NoDict : List SKey → V → Prop
  | [], .dct _ => False
  | [], _ => True
  | s :: rest, .ns kvs =>
    match lookup s kvs with
    | .none => True
    | some nxt => NoDict rest nxt
  | _ :: _, .dct _ => False
  | _ :: _, _ => True

instance : (p : List SKey) → (v : V) → Decidable (NoDict p v)
  | [], .dct _ => isFalse (by simp [NoDict])
  | [], .none => isTrue (by simp [NoDict])
  | [], .atom _ => isTrue (by simp [NoDict])
  | [], .lst _ => isTrue (by simp [NoDict])
  | [], .tup _ => isTrue (by simp [NoDict])
  | [], .ns _ => isTrue (by simp [NoDict])
  | s :: rest, .ns kvs =>
    match h : lookup s kvs with
    | .none => isTrue (by simp [NoDict, h])
    | some nxt =>
      match (inferInstance : Decidable (NoDict rest nxt)) with
      | isTrue h' => isTrue (by simp [NoDict, h, h'])
      | isFalse h' => isFalse (by simp [NoDict, h, h'])
  | _ :: _, .dct _ => isFalse (by simp [NoDict])
  | _ :: _, .none => isTrue (by simp [NoDict])
  | _ :: _, .atom _ => isTrue (by simp [NoDict])
  | _ :: _, .lst _ => isTrue (by simp [NoDict])
  | _ :: _, .tup _ => isTrue (by simp [NoDict])

end Jap.NS

import Jap.Core.Namespace
/-!
Helper lemmas for C11: association-list algebra, the one-pass description of
`__setitem__`/`__getitem__`/`__delitem__` (`setK`/`getK`/`delK`) and its
equivalence with the two-phase code (`walk` + `_create_nested_namespace` +
assignment) whenever no dict value lies on the key path.
-/
namespace Jap.NS

/-! ### association lists -/

theorem lookup_insert_same (k : SKey) (v : V) : ∀ kvs, lookup k (insert k v kvs) = some v
  | [] => by simp [insert, lookup]
  | (k', v') :: r => by
    by_cases h : k' = k
    · simp [insert, lookup, h]
    · simp [insert, lookup, h, lookup_insert_same k v r]

theorem lookup_insert_other {k k' : SKey} (v : V) (h : k' ≠ k) : ∀ kvs, lookup k' (insert k v kvs) = lookup k' kvs
  | [] => by simp [insert, lookup, Ne.symm h]
  | (k'', v'') :: r => by
    by_cases h2 : k'' = k
    · subst h2
      simp [insert, lookup, Ne.symm h]
    · by_cases h3 : k'' = k'
      · subst h3
        simp [insert, lookup, h2]
      · simp [insert, lookup, h2, h3, lookup_insert_other v h r]

theorem insert_insert_same (k : SKey) (a b : V) : ∀ kvs, insert k a (insert k b kvs) = insert k a kvs
  | [] => by simp [insert]
  | (k', v') :: r => by
    by_cases h : k' = k
    · simp [insert, h]
    · simp [insert, h, insert_insert_same k a b r]

/-- keys of an association list -/
def keysOf (kvs : KV) : List SKey := kvs.map (·.1)

theorem mem_keysOf_erase (k x : SKey) : ∀ kvs : KV, x ∈ keysOf (erase k kvs) → x ∈ keysOf kvs
  | [], h => by simp [erase, keysOf] at h
  | (k', v') :: r, h => by
    by_cases e : k' = k
    · simp only [erase, e, if_true] at h
      simp only [keysOf, List.map_cons, List.mem_cons]
      exact Or.inr h
    · simp only [erase, e, if_false, keysOf, List.map_cons, List.mem_cons] at h ⊢
      rcases h with h | h
      · exact Or.inl h
      · exact Or.inr (mem_keysOf_erase k x r h)

/-- keys of an association list -/
theorem lookup_none_of_not_mem (k : SKey) : ∀ kvs : KV, k ∉ keysOf kvs → lookup k kvs = .none
  | [], _ => rfl
  | (k', v') :: r, h => by
    have h1 : k' ≠ k := by
      intro e; apply h; simp [keysOf, e]
    have h2 : k ∉ keysOf r := by
      intro e; apply h; simp [keysOf] at e ⊢; exact Or.inr e
    simp [lookup, h1, lookup_none_of_not_mem k r h2]

theorem keysOf_erase_nodup (k : SKey) : ∀ kvs : KV, (keysOf kvs).Nodup → k ∉ keysOf (erase k kvs) ∧ (keysOf (erase k kvs)).Nodup
  | [], _ => by simp [erase, keysOf]
  | (k', v') :: r, h => by
    simp only [keysOf, List.map_cons, List.nodup_cons] at h
    obtain ⟨hk, hr⟩ := h
    by_cases e : k' = k
    · subst e
      simp only [erase, if_true]
      exact ⟨hk, hr⟩
    · obtain ⟨ih1, ih2⟩ := keysOf_erase_nodup k r hr
      simp only [erase, e, if_false, keysOf, List.map_cons, List.mem_cons, List.nodup_cons, not_or]
      exact ⟨⟨fun h => e h.symm, ih1⟩, fun h => hk (mem_keysOf_erase k k' r h), ih2⟩

theorem lookup_erase_self (k : SKey) (kvs : KV) (h : (keysOf kvs).Nodup) : lookup k (erase k kvs) = .none :=
  lookup_none_of_not_mem k _ (keysOf_erase_nodup k kvs h).1

theorem lookup_erase_other {k k' : SKey} (h : k' ≠ k) : ∀ kvs : KV, lookup k' (erase k kvs) = lookup k' kvs
  | [] => rfl
  | (k'', v'') :: r => by
    by_cases h2 : k'' = k
    · subst h2
      simp [erase, lookup, Ne.symm h]
    · by_cases h3 : k'' = k'
      · subst h3
        simp [erase, lookup, h2]
      · simp [erase, lookup, h2, h3, lookup_erase_other h r]

theorem keysOf_insert_nodup (k : SKey) (v : V) : ∀ kvs : KV, (keysOf kvs).Nodup →
    (keysOf (insert k v kvs)).Nodup ∧ ∀ x, x ∈ keysOf (insert k v kvs) ↔ x = k ∨ x ∈ keysOf kvs
  | [], _ => by simp [insert, keysOf]
  | (k', v') :: r, h => by
    simp only [keysOf, List.map_cons, List.nodup_cons] at h
    obtain ⟨hk, hr⟩ := h
    by_cases e : k' = k
    · subst e
      simp only [insert, if_true, keysOf, List.map_cons, List.nodup_cons, List.mem_cons]
      refine ⟨⟨hk, hr⟩, fun x => ?_⟩
      constructor
      · rintro (h | h)
        · exact Or.inl h
        · exact Or.inr (Or.inr h)
      · rintro (h | h | h)
        · exact Or.inl h
        · exact Or.inl h
        · exact Or.inr h
    · obtain ⟨ih1, ih2⟩ := keysOf_insert_nodup k v r hr
      simp only [insert, e, if_false, keysOf, List.map_cons, List.nodup_cons, List.mem_cons]
      refine ⟨⟨?_, ih1⟩, ?_⟩
      · intro hm
        rcases (ih2 k').mp hm with h | h
        · exact e h
        · exact hk h
      · intro x
        constructor
        · rintro (h | h)
          · exact Or.inr (Or.inl h)
          · rcases (ih2 x).mp h with h | h
            · exact Or.inl h
            · exact Or.inr (Or.inr h)
        · rintro (h | h | h)
          · exact Or.inr ((ih2 x).mpr (Or.inl h))
          · exact Or.inl h
          · exact Or.inr ((ih2 x).mpr (Or.inr h))

/-! ### one-pass description of the key operations (no dict on the path) -/

/-- one-pass `__setitem__`: existing namespaces are entered, anything else is replaced by a fresh one -/
def setK : List SKey → V → KV → KV
  | [], _, kvs => kvs
  | [leaf], v, kvs => insert leaf v kvs
  | s :: t :: rest, v, kvs =>
    match lookup s kvs with
    | some (.ns sub) => insert s (.ns (setK (t :: rest) v sub)) kvs
    | _ => insert s (.ns (setK (t :: rest) v [])) kvs

/-- one-pass `__getitem__` through namespaces only -/
def getK : List SKey → KV → Option V
  | [], _ => .none
  | [leaf], kvs => lookup leaf kvs
  | s :: t :: rest, kvs =>
    match lookup s kvs with
    | some (.ns sub) => getK (t :: rest) sub
    | _ => .none

/-- one-pass `__delitem__` through namespaces only (no-op when the key is absent) -/
def delK : List SKey → KV → KV
  | [], kvs => kvs
  | [leaf], kvs => erase leaf kvs
  | s :: t :: rest, kvs =>
    match lookup s kvs with
    | some (.ns sub) => insert s (.ns (delK (t :: rest) sub)) kvs
    | _ => kvs

/-- no dict value is met while walking `path` from `cur` (the domain of the refinement theorems) -/
def noDict : List SKey → V → Bool
  | [], .dct _ => false
  | [], _ => true
  | s :: rest, .ns kvs =>
    match lookup s kvs with
    | .none => true
    | some nxt => noDict rest nxt
  | _ :: _, .dct _ => false
  | _ :: _, _ => true

theorem noDict_nil : ∀ p : List SKey, noDict p (.ns []) = true
  | [] => rfl
  | _ :: _ => by simp [noDict, lookup]

theorem noDict_dct (p : List SKey) (d : KV) : noDict p (.dct d) = false := by
  cases p <;> simp [noDict]

theorem insert_lookup_self (k : SKey) (v : V) : ∀ kvs, lookup k kvs = some v → insert k v kvs = kvs
  | [], h => by simp [lookup] at h
  | (k', v') :: r, h => by
    by_cases e : k' = k
    · simp [lookup, e] at h
      simp [insert, e, h]
    · simp [lookup, e] at h
      simp [insert, e, insert_lookup_self k v r h]

theorem setK_cons (s : SKey) (q : List SKey) (hq : q ≠ []) (v : V) (kvs : KV) :
    setK (s :: q) v kvs =
      match lookup s kvs with
      | some (.ns sub) => insert s (.ns (setK q v sub)) kvs
      | _ => insert s (.ns (setK q v [])) kvs := by
  cases q with
  | nil => exact absurd rfl hq
  | cons t rest => simp [setK]

theorem getK_cons (s : SKey) (q : List SKey) (hq : q ≠ []) (kvs : KV) :
    getK (s :: q) kvs =
      match lookup s kvs with
      | some (.ns sub) => getK q sub
      | _ => .none := by
  cases q with
  | nil => exact absurd rfl hq
  | cons t rest => simp [getK]

theorem delK_cons (s : SKey) (q : List SKey) (hq : q ≠ []) (kvs : KV) :
    delK (s :: q) kvs =
      match lookup s kvs with
      | some (.ns sub) => insert s (.ns (delK q sub)) kvs
      | _ => kvs := by
  cases q with
  | nil => exact absurd rfl hq
  | cons t rest => simp [delK]

/-- a successful walk along namespaces means `_create_nested_namespace` would change nothing -/
theorem createNested_of_walk : ∀ (path : List SKey) (root : KV) (c : V),
    noDict path (.ns root) = true → walk path (.ns root) = some c → createNested path root = root
  | [], _, _, _, _ => rfl
  | s :: rest, root, c, hnd, hw => by
    simp only [walk] at hw
    simp only [noDict] at hnd
    cases hl : lookup s root with
    | none => simp [hl] at hw
    | some nxt =>
      simp only [hl] at hw hnd
      cases nxt with
      | ns sub =>
        simp only [isCont, if_true] at hw
        have ih := createNested_of_walk rest sub c hnd hw
        simp only [createNested, hl, ih]
        exact insert_lookup_self s (.ns sub) root hl
      | dct d => simp [noDict_dct] at hnd
      | none => simp [isCont] at hw
      | atom a => simp [isCont] at hw
      | lst a => simp [isCont] at hw
      | tup a => simp [isCont] at hw

/-- the two-phase code (create missing parents, then assign) is the one-pass `setK` -/
theorem updateAt_createNested (leaf : SKey) (item : V) : ∀ (path : List SKey) (root : KV),
    noDict path (.ns root) = true →
    updateAt (insert leaf item) path (.ns (createNested path root)) = .ns (setK (path ++ [leaf]) item root)
  | [], root, _ => by simp [createNested, updateAt, setK]
  | s :: rest, root, hnd => by
    have hq : rest ++ [leaf] ≠ [] := by simp
    simp only [noDict] at hnd
    rw [List.cons_append, setK_cons s _ hq]
    cases hl : lookup s root with
    | none =>
      have ih := updateAt_createNested leaf item rest [] (noDict_nil rest)
      simp only [createNested, hl, updateAt, lookup_insert_same, ih, insert_insert_same]
    | some nxt =>
      simp only [hl] at hnd
      cases nxt with
      | ns sub =>
        have ih := updateAt_createNested leaf item rest sub hnd
        simp only [createNested, hl, updateAt, lookup_insert_same, ih, insert_insert_same]
      | dct d => simp [noDict_dct] at hnd
      | none =>
        have ih := updateAt_createNested leaf item rest [] (noDict_nil rest)
        simp only [createNested, hl, updateAt, lookup_insert_same, ih, insert_insert_same]
      | atom a =>
        have ih := updateAt_createNested leaf item rest [] (noDict_nil rest)
        simp only [createNested, hl, updateAt, lookup_insert_same, ih, insert_insert_same]
      | lst a =>
        have ih := updateAt_createNested leaf item rest [] (noDict_nil rest)
        simp only [createNested, hl, updateAt, lookup_insert_same, ih, insert_insert_same]
      | tup a =>
        have ih := updateAt_createNested leaf item rest [] (noDict_nil rest)
        simp only [createNested, hl, updateAt, lookup_insert_same, ih, insert_insert_same]

/-- `__setitem__` = one-pass `setK` when no dict lies on the path -/
theorem setSegs_eq_setK (path : List SKey) (leaf : SKey) (item : V) (root : KV)
    (hnd : noDict path (.ns root) = true) :
    setSegs path leaf item root = setK (path ++ [leaf]) item root := by
  unfold setSegs
  cases hw : walk path (.ns root) with
  | none => simp only [updateAt_createNested leaf item path root hnd, unNs]
  | some c =>
    have := createNested_of_walk path root c hnd hw
    have h2 := updateAt_createNested leaf item path root hnd
    rw [this] at h2
    simp only [h2, unNs]

/-- what `_parse_required_key` + `getattr` read -/
theorem walk_lookup_eq_getK (leaf : SKey) : ∀ (path : List SKey) (root : KV),
    noDict path (.ns root) = true →
    (match walk path (.ns root) with
      | some (.ns kvs) => lookup leaf kvs
      | _ => .none) = getK (path ++ [leaf]) root
  | [], root, _ => by simp [walk, getK]
  | s :: rest, root, hnd => by
    have hq : rest ++ [leaf] ≠ [] := by simp
    simp only [noDict] at hnd
    rw [List.cons_append, getK_cons s _ hq]
    simp only [walk]
    cases hl : lookup s root with
    | none => simp
    | some nxt =>
      simp only [hl] at hnd
      cases nxt with
      | ns sub =>
        simp only [isCont, if_true]
        exact walk_lookup_eq_getK leaf rest sub hnd
      | dct d => simp [noDict_dct] at hnd
      | none => simp [isCont]
      | atom a => simp [isCont]
      | lst a => simp [isCont]
      | tup a => simp [isCont]

theorem getSegs_eq_getK (path : List SKey) (leaf : SKey) (root : KV) (hnd : noDict path (.ns root) = true) :
    getSegs path leaf root = match getK (path ++ [leaf]) root with
      | some v => .ok v
      | .none => .error .key := by
  rw [← walk_lookup_eq_getK leaf path root hnd]
  unfold getSegs
  cases hw : walk path (.ns root) with
  | none => rfl
  | some c =>
    cases c with
    | ns kvs => simp only []; cases lookup leaf kvs <;> rfl
    | dct d => rfl
    | none => rfl
    | atom a => rfl
    | lst a => rfl
    | tup a => rfl

/-- deleting below an existing namespace parent is the one-pass `delK` -/
theorem updateAt_erase (leaf : SKey) : ∀ (path : List SKey) (root : KV) (kvs : KV),
    noDict path (.ns root) = true → walk path (.ns root) = some (.ns kvs) →
    updateAt (erase leaf) path (.ns root) = .ns (delK (path ++ [leaf]) root)
  | [], root, _, _, _ => by simp [updateAt, delK]
  | s :: rest, root, kvs, hnd, hw => by
    have hq : rest ++ [leaf] ≠ [] := by simp
    simp only [noDict] at hnd
    simp only [walk] at hw
    rw [List.cons_append, delK_cons s _ hq]
    cases hl : lookup s root with
    | none => simp [hl] at hw
    | some nxt =>
      simp only [hl] at hnd hw
      cases nxt with
      | ns sub =>
        simp only [isCont, if_true] at hw
        have ih := updateAt_erase leaf rest sub kvs hnd hw
        simp only [updateAt, hl, ih]
      | dct d => simp [noDict_dct] at hnd
      | none => simp [isCont] at hw
      | atom a => simp [isCont] at hw
      | lst a => simp [isCont] at hw
      | tup a => simp [isCont] at hw

end Jap.NS

/-
Helper lemmas for the base64 codec of E8 (C20): `b64decode (b64encode bs) = .ok bs`.  Core Lean only.
-/
import Jap.Core.Typing

namespace Jap.Typing

theorem b64_fin : ∀ n : Fin 64, b64Val (b64Char n.val) = some n.val ∧ b64Char n.val ≠ '=' ∧ (b64Char n.val).toNat < 128 := by
  decide +kernel

theorem b64Val_b64Char {n : Nat} (h : n < 64) : b64Val (b64Char n) = some n := (b64_fin ⟨n, h⟩).1
theorem b64Char_ne_pad {n : Nat} (h : n < 64) : b64Char n ≠ '=' := (b64_fin ⟨n, h⟩).2.1
theorem b64Char_ascii {n : Nat} (h : n < 64) : (b64Char n).toNat < 128 := (b64_fin ⟨n, h⟩).2.2

/-- one data character in each of the four positions of a quad -/
theorem b64Go_data {n : Nat} (h : n < 64) (st : B64St) (rest : List Char) :
    b64Go st (b64Char n :: rest) =
      if st.quad = 0 then b64Go ⟨1, n, 0, st.out⟩ rest
      else if st.quad = 1 then b64Go ⟨2, n % 16, 0, st.out ++ [(st.left * 4 + n / 16) % 256]⟩ rest
      else if st.quad = 2 then b64Go ⟨3, n % 4, 0, st.out ++ [(st.left * 16 + n / 4) % 256]⟩ rest
      else b64Go ⟨0, 0, 0, st.out ++ [(st.left * 64 + n) % 256]⟩ rest := by
  rw [b64Go]
  simp only [b64Char_ne_pad h, ↓reduceIte, b64Val_b64Char h]

theorem b64Go_encode : ∀ (bs : List Nat), (∀ b ∈ bs, b < 256) → ∀ out : List Nat,
    b64Go ⟨0, 0, 0, out⟩ (b64encode bs) = .ok (out ++ bs) := by
  intro bs
  fun_induction b64encode bs with
  | case1 => intro _ out; simp [b64Go]
  | case2 a =>
    intro h out
    have ha : a < 256 := h a (by simp)
    rw [b64Go_data (by omega), if_pos rfl, b64Go_data (by omega)]
    simp only [show ¬ (1 = 0) by decide, ↓reduceIte]
    rw [b64Go]
    simp only [↓reduceIte]
    rw [if_neg (by simp)]
    rw [b64Go]
    simp only [↓reduceIte]
    rw [if_pos (by simp)]
    simp
    omega
  | case3 a b =>
    intro h out
    have ha : a < 256 := h a (by simp)
    have hb : b < 256 := h b (by simp)
    rw [b64Go_data (by omega), if_pos rfl, b64Go_data (by omega)]
    simp only [show ¬ (1 = 0) by decide, ↓reduceIte]
    rw [b64Go_data (by omega)]
    simp only [show ¬ (2 = 0) by decide, show ¬ (2 = 1) by decide, ↓reduceIte]
    rw [b64Go]
    simp only [↓reduceIte]
    rw [if_pos (by simp)]
    simp
    omega
  | case4 a b c rest ih =>
    intro h out
    have ha : a < 256 := h a (by simp)
    have hb : b < 256 := h b (by simp)
    have hc : c < 256 := h c (by simp)
    rw [b64Go_data (by omega), if_pos rfl, b64Go_data (by omega)]
    simp only [show ¬ (1 = 0) by decide, ↓reduceIte]
    rw [b64Go_data (by omega)]
    simp only [show ¬ (2 = 0) by decide, show ¬ (2 = 1) by decide, ↓reduceIte]
    rw [b64Go_data (by omega)]
    simp only [show ¬ (3 = 0) by decide, show ¬ (3 = 1) by decide, show ¬ (3 = 2) by decide, ↓reduceIte]
    rw [ih (fun x hx => h x (by simp [hx]))]
    simp
    omega

theorem b64encode_ascii : ∀ (bs : List Nat), (∀ b ∈ bs, b < 256) →
    (b64encode bs).all (fun c => decide (c.toNat < 128)) = true := by
  intro bs
  fun_induction b64encode bs with
  | case1 => intro _; rfl
  | case2 a =>
    intro h
    have ha : a < 256 := h a (by simp)
    simp [b64Char_ascii (show a / 4 < 64 by omega), b64Char_ascii (show a % 4 * 16 < 64 by omega)]
  | case3 a b =>
    intro h
    have ha : a < 256 := h a (by simp)
    have hb : b < 256 := h b (by simp)
    simp [b64Char_ascii (show a / 4 < 64 by omega), b64Char_ascii (show a % 4 * 16 + b / 16 < 64 by omega),
      b64Char_ascii (show b % 16 * 4 < 64 by omega)]
  | case4 a b c rest ih =>
    intro h
    have ha : a < 256 := h a (by simp)
    have hb : b < 256 := h b (by simp)
    have hc : c < 256 := h c (by simp)
    have := ih (fun x hx => h x (by simp [hx]))
    simp [b64Char_ascii (show a / 4 < 64 by omega), b64Char_ascii (show a % 4 * 16 + b / 16 < 64 by omega),
      b64Char_ascii (show b % 16 * 4 + c / 64 < 64 by omega), b64Char_ascii (show c % 64 < 64 by omega), this]

/-- the round trip of `bytes` / `bytearray` through `bytes_serializer` and `bytes_deserializer` -/
theorem b64decode_b64encode (bs : List Nat) (h : ∀ b ∈ bs, b < 256) : b64decode (b64encode bs) = .ok bs := by
  unfold b64decode
  rw [b64encode_ascii bs h]
  simpa using b64Go_encode bs h []

end Jap.Typing

import Jap.Lemmas.SourcesTop
/-!
The pipeline with the arguments of the call (`defaults=`, `env=`, `parse_env(mapping)`), and the order of default
config files (`_get_default_config_files`: per listed entry, sorted matches, no deduplication).
-/
namespace Jap.Src
open Jap.NS

/-! ### `sorted` -/

theorem insertSorted_perm (le : String → String → Bool) (x : String) : ∀ l : List String, (insertSorted le x l).Perm (x :: l)
  | [] => List.Perm.refl _
  | y :: r => by
    simp only [insertSorted]
    split
    · exact List.Perm.refl _
    · exact ((insertSorted_perm le x r).cons y).trans (List.Perm.swap x y r)

theorem sortBy_perm (le : String → String → Bool) : ∀ l : List String, (sortBy le l).Perm l
  | [] => List.Perm.refl _
  | x :: r => (insertSorted_perm le x (sortBy le r)).trans ((sortBy_perm le r).cons x)

theorem insertSorted_sorted (le : String → String → Bool) (htot : ∀ a b, le a b = true ∨ le b a = true)
    (htr : ∀ a b c, le a b = true → le b c = true → le a c = true) (x : String) :
    ∀ l : List String, l.Pairwise (fun a b => le a b = true) → (insertSorted le x l).Pairwise (fun a b => le a b = true)
  | [], _ => by simp [insertSorted]
  | y :: r, h => by
    simp only [insertSorted]
    have hy := List.pairwise_cons.mp h
    split
    · rename_i hxy
      refine List.pairwise_cons.mpr ⟨?_, h⟩
      intro z hz
      rcases List.mem_cons.mp hz with hz | hz
      · rw [hz]; exact hxy
      · exact htr x y z hxy (hy.1 z hz)
    · rename_i hxy
      have hyx : le y x = true := by
        rcases htot x y with h1 | h1
        · exact absurd h1 hxy
        · exact h1
      refine List.pairwise_cons.mpr ⟨?_, insertSorted_sorted le htot htr x r hy.2⟩
      intro z hz
      have := (insertSorted_perm le x r).mem_iff.mp hz
      rcases List.mem_cons.mp this with hz | hz
      · rw [hz]; exact hyx
      · exact hy.1 z hz

theorem sortBy_sorted (le : String → String → Bool) (htot : ∀ a b, le a b = true ∨ le b a = true)
    (htr : ∀ a b c, le a b = true → le b c = true → le a c = true) :
    ∀ l : List String, (sortBy le l).Pairwise (fun a b => le a b = true)
  | [] => by simp [sortBy]
  | x :: r => insertSorted_sorted le htot htr x _ (sortBy_sorted le htot htr r)

/-! ### the base of a call -/

theorem loadEnv_nil (p : Parser) : loadEnv p [] = [] := by
  have h1 : ∀ (l : List Arg) (c : KV), l.foldl (envCfgStep p []) c = c := by
    intro l
    induction l with
    | nil => intro c; rfl
    | cons b r ih =>
      intro c
      simp only [List.foldl_cons]
      have : envCfgStep p [] c b = c := by
        unfold envCfgStep
        split <;> simp [envLookup]
      rw [this, ih]
  have h2 : ∀ (l : List Arg) (c : KV), l.foldl (envVarStep p []) c = c := by
    intro l
    induction l with
    | nil => intro c; rfl
    | cons b r ih =>
      intro c
      simp only [List.foldl_cons]
      have : envVarStep p [] c b = c := by
        unfold envVarStep
        split <;> simp [envLookup]
      rw [this, ih]
  simp only [loadEnv, h1, h2]

section
variable {p : Parser} (hp : wfParser p = true)
include hp

/-- value of the defaults layer at a destination -/
def baseVal (p : Parser) (files : List (Option KV)) (defaults : Bool) (k : Key) : Option V :=
  if defaults then evalKey k (asgDefaults p ++ asgFiles p files) .none else .none

theorem stage_baseCfg {a : Arg} (ha : a ∈ p.args) (files : List (Option KV)) (hf : ∀ f ∈ files, fileOk p f = true)
    (defaults : Bool) :
    getK a.dest (baseCfg p files defaults) = baseVal p files defaults a.dest ∧ Inv p (baseCfg p files defaults) := by
  cases defaults with
  | false =>
    simp only [baseCfg, baseVal, Bool.false_eq_true, if_false]
    exact ⟨getK_nil _, inv_nil⟩
  | true =>
    simp only [baseCfg, baseVal, if_true]
    exact stage_getDefaults hp ha files hf

/-- what `_parse_defaults_and_environ(defaults, env, environ)` leaves at a destination, for every call -/
theorem stage_baseC_exact {a : Arg} (ha : a ∈ p.args) (src : Sources) (c : Call) (hs : srcWfC p src c = true) :
    getK a.dest (defaultsAndEnvironC p src c) =
      (if envRead p c.envArg then
        (evalKey a.dest (asgEnvCfg p (environOf src c) ++ asgEnvVars p (environOf src c)) .none).or
          (baseVal p src.files c.defaults a.dest)
       else baseVal p src.files c.defaults a.dest)
    ∧ Inv p (defaultsAndEnvironC p src c) := by
  simp only [srcWfC, Bool.and_eq_true, List.all_eq_true] at hs
  obtain ⟨⟨hfiles, henv⟩, _⟩ := hs
  obtain ⟨h1, h2⟩ := stage_baseCfg hp ha src.files hfiles c.defaults
  unfold defaultsAndEnvironC
  cases envRead p c.envArg with
  | false =>
    simp only [Bool.false_eq_true, if_false]
    exact ⟨h1, h2⟩
  | true =>
    obtain ⟨h3, h4⟩ := stage_loadEnv hp ha (environOf src c) henv
    obtain ⟨h5, h6⟩ := stage_envMerge hp ha h4 h2
    simp only [if_true]
    exact ⟨by rw [h5, h3, h1], h6⟩

/-- the guard is only needed when BOTH the defaults layer and the environment are read -/
theorem stage_baseC {a : Arg} (ha : a ∈ p.args) (src : Sources) (c : Call) (hs : srcWfC p src c = true)
    (hg : c.defaults = true → envRead p c.envArg = true → envPlain p (environOf src c) a.dest = true) :
    getK a.dest (defaultsAndEnvironC p src c) = evalKey a.dest (asgBaseC p src c) .none
    ∧ Inv p (defaultsAndEnvironC p src c) := by
  obtain ⟨h1, h2⟩ := stage_baseC_exact hp ha src c hs
  refine ⟨?_, h2⟩
  rw [h1]
  unfold asgBaseC baseVal
  cases hd : c.defaults with
  | false =>
    simp only [Bool.false_eq_true, if_false, List.nil_append]
    cases envRead p c.envArg with
    | false => simp [evalKey]
    | true =>
      simp only [if_true]
      cases evalKey a.dest (asgEnvCfg p (environOf src c) ++ asgEnvVars p (environOf src c)) .none <;> rfl
  | true =>
    simp only [if_true]
    cases he : envRead p c.envArg with
    | false => simp only [Bool.false_eq_true, if_false, List.append_nil]
    | true =>
      simp only [if_true]
      rw [evalKey_append a.dest (asgDefaults p ++ asgFiles p src.files)]
      exact (evalKey_setsOnly a.dest _ _ (envPlain_spec (hg hd he))).symm

theorem asgBaseC_keys (src : Sources) (c : Call) (hs : srcWfC p src c = true) :
    ∀ s ∈ asgBaseC p src c, ∃ b ∈ p.args, s.key = b.dest := by
  -- reuse `asgBase_keys` on the sources whose environment is the one that is read
  have hs' : srcWf p ⟨src.files, environOf src c, src.argv⟩ = true := hs
  intro s hm
  simp only [asgBaseC, List.mem_append] at hm
  rcases hm with hm | hm
  · cases hd : c.defaults with
    | false => rw [hd] at hm; simp at hm
    | true =>
      rw [hd] at hm
      simp only [if_true] at hm
      exact asgBase_keys hp ⟨src.files, environOf src c, src.argv⟩ hs' false s (by
        simp only [asgBase, Bool.false_eq_true, if_false, List.append_nil]; exact hm)
  · cases he : envRead p c.envArg with
    | false => rw [he] at hm; simp at hm
    | true =>
      rw [he] at hm
      simp only [if_true] at hm
      exact asgBase_keys hp ⟨src.files, environOf src c, src.argv⟩ hs' true s (by
        simp only [asgBase, if_true, List.mem_append]; exact Or.inr (List.mem_append.mp hm))

end

end Jap.Src

/-
E9 (Resolver): facts that hold for EVERY program (no well-formedness needed) —
each offered parameter is a definition of the program or carries a `Conditional` default
(`sig_inv`), the lists `collect` builds (`collect_lists`), own parameters shadow (`own_unique`).
-/
import Jap.Lemmas.ResolverFrames

namespace Jap.Resolver

def SigInv (P : Prog) (p : Param) : Prop :=
  p.dflt.isCond = true ∨ ∃ q ∈ P.defs, sameSig p q

theorem groupOne_inv {P : Prog} (np : Nat) {g : Param} (occ : List Param) (h : SigInv P g) :
    SigInv P (groupOne np (g :: occ)) := by
  unfold groupOne
  simp only
  split
  · rcases h with h | ⟨q, hq, hs⟩
    · exact Or.inl h
    · exact Or.inr ⟨q, hq, hs⟩
  · exact Or.inl rfl

theorem group_inv {P : Prog} {lists : List (Bool × List Param)} {g : List Param} (h : group lists = .ok g)
    (hl : ∀ l ∈ lists, ∀ p ∈ l.2, SigInv P p) : ∀ p ∈ g, SigInv P p := by
  match lists, h with
  | [], h =>
    simp only [group, Out.ok.injEq] at h
    subst h
    simp
  | [l], h =>
    simp only [group, Out.ok.injEq] at h
    subst h
    exact hl l (by simp)
  | l1 :: l2 :: rest, h =>
    simp only [group] at h
    split at h
    · cases h
    · simp only [Out.ok.injEq] at h
      subst h
      have hall : ∀ p ∈ (l1 :: l2 :: rest).flatMap (·.2), SigInv P p := by
        intro p hp
        obtain ⟨l, hl', hp'⟩ := List.mem_flatMap.1 hp
        exact hl l hl' p hp'
      generalize ((l1 :: l2 :: rest).flatMap (·.2)) = all at hall
      generalize ((l1 :: l2 :: rest).filter (fun l => !l.1)).length = np
      intro p hp
      obtain ⟨m, hm, rfl⟩ := List.mem_map.1 hp
      rw [mem_dedup] at hm
      obtain ⟨q, hq, hqn⟩ := List.mem_map.1 hm
      have hne : q ∈ all.filter (fun x => decide (x.name = m)) := by simp [List.mem_filter, hq, hqn]
      cases hf : all.filter (fun x => decide (x.name = m)) with
      | nil => rw [hf] at hne; cases hne
      | cons g0 occ =>
        have hg0 : g0 ∈ all.filter (fun x => decide (x.name = m)) := by rw [hf]; simp
        exact groupOne_inv np occ (hall g0 (List.mem_filter.1 hg0).1)

/-- every list `collect` adds is a pop/get pseudo-parameter or what a forwarding call keeps of its callee -/
theorem collect_lists {rec : Frame → Out} {P : Prog} {wh : Where} :
    ∀ (us : List Use) (a a' : Acc), collect rec P wh us a = .ok a' →
      ∀ l ∈ a'.lists, l ∈ a.lists ∨ (∃ u ∈ us, u.isForward = false ∧ l.2 = useDefs u ∧ l.2 ≠ []) ∨
        ∃ u ∈ us, u.isForward = true ∧
          ((subFrame P wh u = none ∧ l.2 = removeGiven u.givenPos u.given []) ∨
           ∃ fr r, subFrame P wh u = some fr ∧ rec fr = .ok r ∧ l.2 = removeGiven u.givenPos u.given r) := by
  intro us
  induction us with
  | nil =>
    intro a a' h l hl
    simp only [collect, AccOut.ok.injEq] at h
    subst h
    exact Or.inl hl
  | cons u us ih =>
    intro a a' h l hl
    have lift : ∀ {a1 : Acc}, collect rec P wh us a1 = .ok a' →
        (∀ l ∈ a1.lists, l ∈ a.lists ∨ (u.isForward = false ∧ l.2 = useDefs u ∧ l.2 ≠ []) ∨
          (u.isForward = true ∧
            ((subFrame P wh u = none ∧ l.2 = removeGiven u.givenPos u.given []) ∨
             ∃ fr r, subFrame P wh u = some fr ∧ rec fr = .ok r ∧ l.2 = removeGiven u.givenPos u.given r))) →
        l ∈ a.lists ∨ (∃ u' ∈ u :: us, u'.isForward = false ∧ l.2 = useDefs u' ∧ l.2 ≠ []) ∨
          ∃ u' ∈ u :: us, u'.isForward = true ∧
            ((subFrame P wh u' = none ∧ l.2 = removeGiven u'.givenPos u'.given []) ∨
             ∃ fr r, subFrame P wh u' = some fr ∧ rec fr = .ok r ∧ l.2 = removeGiven u'.givenPos u'.given r) := by
      intro a1 h1 hstep
      rcases ih a1 a' h1 l hl with h2 | ⟨u', hu', h2⟩ | ⟨u', hu', h2⟩
      · rcases hstep l h2 with h3 | h3 | h3
        · exact Or.inl h3
        · exact Or.inr (Or.inl ⟨u, List.mem_cons_self, h3⟩)
        · exact Or.inr (Or.inr ⟨u, List.mem_cons_self, h3⟩)
      · exact Or.inr (Or.inl ⟨u', List.mem_cons_of_mem _ hu', h2⟩)
      · exact Or.inr (Or.inr ⟨u', List.mem_cons_of_mem _ hu', h2⟩)
    have fwd : ∀ (k : Nat) (g : List String) (r : List Param) (b : Bool) (l : Bool × List Param),
        l ∈ (addForward a k g r b).lists → l ∈ a.lists ∨ l.2 = removeGiven k g r := by
      intro k g r b l hl
      simp only [addForward] at hl
      split at hl
      · exact Or.inl hl
      · rcases List.mem_append.1 hl with hl | hl
        · exact Or.inl hl
        · simp only [List.mem_singleton] at hl
          subst hl
          exact Or.inr rfl
    cases u with
    | pop m d =>
      simp only [collect] at h
      refine lift h ?_
      intro l hl
      rcases List.mem_append.1 hl with hl | hl
      · exact Or.inl hl
      · simp only [List.mem_singleton] at hl
        subst hl
        exact Or.inr (Or.inl ⟨rfl, rfl, by simp⟩)
    | get m d =>
      simp only [collect] at h
      refine lift h ?_
      intro l hl
      rcases List.mem_append.1 hl with hl | hl
      · exact Or.inl hl
      · simp only [List.mem_singleton] at hl
        subst hl
        exact Or.inr (Or.inl ⟨rfl, rfl, by simp⟩)
    | popIn m d =>
      simp only [collect] at h
      refine lift h ?_
      intro l hl
      rcases List.mem_append.1 hl with hl | hl
      · exact Or.inl hl
      · simp only [List.mem_singleton] at hl
        subst hl
        exact Or.inr (Or.inl ⟨rfl, rfl, by simp⟩)
    | superCall frm k g =>
      simp only [collect] at h
      cases hs : superFrame P wh frm with
      | none =>
        simp only [hs] at h
        refine lift h ?_
        intro l hl
        rcases fwd k g [] _ l hl with hl | hl
        · exact Or.inl hl
        · exact Or.inr (Or.inr ⟨rfl, Or.inl ⟨by simp [subFrame, hs], hl⟩⟩)
      | some fr =>
        simp only [hs] at h
        cases hr : rec fr with
        | crash => simp [hr] at h
        | nofuel => simp [hr] at h
        | ok r =>
          simp only [hr] at h
          refine lift h ?_
          intro l hl
          rcases fwd k g r _ l hl with hl | hl
          · exact Or.inl hl
          · exact Or.inr (Or.inr ⟨rfl, Or.inr ⟨fr, r, by simp [subFrame, hs], hr, hl⟩⟩)
    | call t k g =>
      simp only [collect] at h
      cases hs : targetFrame wh t with
      | none =>
        simp only [hs] at h
        refine lift h ?_
        intro l hl
        rcases fwd k g [] _ l hl with hl | hl
        · exact Or.inl hl
        · exact Or.inr (Or.inr ⟨rfl, Or.inl ⟨by simp [subFrame, hs], hl⟩⟩)
      | some fr =>
        simp only [hs] at h
        cases hr : rec fr with
        | crash => simp [hr] at h
        | nofuel => simp [hr] at h
        | ok r =>
          simp only [hr] at h
          refine lift h ?_
          intro l hl
          rcases fwd k g r _ l hl with hl | hl
          · exact Or.inl hl
          · exact Or.inr (Or.inr ⟨rfl, Or.inr ⟨fr, r, by simp [subFrame, hs], hr, hl⟩⟩)

theorem removeGiven_sub {k : Nat} {g : List String} {r : List Param} {p : Param} (h : p ∈ removeGiven k g r) : p ∈ r :=
  List.mem_of_mem_drop (List.mem_filter.1 h).1

theorem mem_liveUses {us : List GUse} {u : Use} (h : u ∈ liveUses us) : ∃ g ∈ us, g.use = u := by
  unfold liveUses at h
  obtain ⟨g, hg, rfl⟩ := List.mem_map.1 h
  exact ⟨g, (List.mem_filter.1 hg).1, rfl⟩

/-- the body the resolver visits for a frame is a callable of the program -/
theorem frameBody_mem {P : Prog} {fr : Frame} {wh : Where} {c : Callable} (h : frameBody P fr = some (wh, c)) :
    c ∈ P.callables := by
  have ofInit : ∀ {d : Nat} {c : Callable}, P.ownInit d = some c → c ∈ P.callables := by
    intro d c hd
    obtain ⟨k, hk, hki⟩ := ownInit_eq hd
    refine List.mem_flatMap.2 ⟨.cls k, List.mem_of_getElem? hk, ?_⟩
    simp [entryCallables, hki]
  cases fr with
  | entry i =>
    simp only [frameBody] at h
    cases he : P.entries[i]? with
    | none => simp [he] at h
    | some e =>
      cases e with
      | fn c' =>
        simp only [he, Option.some.injEq, Prod.mk.injEq] at h
        obtain ⟨_, rfl⟩ := h
        exact List.mem_flatMap.2 ⟨.fn c', List.mem_of_getElem? he, by simp [entryCallables]⟩
      | cls k =>
        simp only [he] at h
        cases hki : k.init with
        | some c' =>
          simp only [hki, Option.some.injEq, Prod.mk.injEq] at h
          obtain ⟨_, rfl⟩ := h
          exact List.mem_flatMap.2 ⟨.cls k, List.mem_of_getElem? he, by simp [entryCallables, hki]⟩
        | none =>
          simp only [hki] at h
          cases hn : nextInit P k.mro with
          | none => simp [hn] at h
          | some ds =>
            obtain ⟨d, s⟩ := ds
            simp only [hn] at h
            cases hd : P.ownInit d with
            | none => simp [hd] at h
            | some c' =>
              simp only [hd, Option.some.injEq, Prod.mk.injEq] at h
              obtain ⟨_, rfl⟩ := h
              exact ofInit hd
  | init r o ctx =>
    simp only [frameBody] at h
    cases ho : P.ownInit o with
    | none => simp [ho] at h
    | some c' =>
      simp only [ho, Option.some.injEq, Prod.mk.injEq] at h
      obtain ⟨_, rfl⟩ := h
      exact ofInit ho
  | meth o j =>
    simp only [frameBody] at h
    cases hm : P.meth? o j with
    | none => simp [hm] at h
    | some c' =>
      simp only [hm, Option.some.injEq, Prod.mk.injEq] at h
      obtain ⟨_, rfl⟩ := h
      unfold Prog.meth? at hm
      cases hk : P.cls? o with
      | none => simp [hk] at hm
      | some k =>
        simp only [hk] at hm
        refine List.mem_flatMap.2 ⟨.cls k, List.mem_of_getElem? (cls?_eq hk), ?_⟩
        simp only [entryCallables, List.mem_append]
        exact Or.inl (Or.inr (List.mem_of_getElem? hm))
  | cmeth o j =>
    simp only [frameBody] at h
    cases hm : P.cmeth? o j with
    | none => simp [hm] at h
    | some c' =>
      simp only [hm, Option.some.injEq, Prod.mk.injEq] at h
      obtain ⟨_, rfl⟩ := h
      unfold Prog.cmeth? at hm
      cases hk : P.cls? o with
      | none => simp [hk] at hm
      | some k =>
        simp only [hk] at hm
        refine List.mem_flatMap.2 ⟨.cls k, List.mem_of_getElem? (cls?_eq hk), ?_⟩
        simp only [entryCallables, List.mem_append]
        exact Or.inr (List.mem_of_getElem? hm)

theorem sameSig_refl (p : Param) : sameSig p p := ⟨rfl, rfl, rfl, rfl⟩

/-- every parameter the resolver returns is a definition of the program, or is marked `Conditional` -/
theorem sig_inv {P : Prog} : ∀ (fuel : Nat) (fr : Frame) (R : List Param),
    resolveF fuel P fr = .ok R → ∀ p ∈ R, SigInv P p := by
  intro fuel
  induction fuel with
  | zero => intro fr R h; simp [resolveF] at h
  | succ fuel ih =>
    intro fr R h
    simp only [resolveF, resolveBody] at h
    cases hb : frameBody P fr with
    | none =>
      simp only [hb, Out.ok.injEq] at h
      subst h
      simp
    | some whc =>
      obtain ⟨wh, c⟩ := whc
      simp only [hb] at h
      have hc := frameBody_mem hb
      have hown : ∀ p ∈ c.params, SigInv P p := fun p hp =>
        Or.inr ⟨p, List.mem_flatMap.2 ⟨c, hc, by simp [callableDefs, hp]⟩, sameSig_refl p⟩
      unfold resolveCallable at h
      split at h
      · simp only [Out.ok.injEq] at h
        subst h
        exact hown
      · cases hcol : collect (resolveF fuel P) P wh (liveUses c.uses) ⟨[], []⟩ with
        | crash => simp [hcol] at h
        | nofuel => simp [hcol] at h
        | ok a =>
          simp only [hcol] at h
          cases hg : group a.lists with
          | crash => simp [hg] at h
          | nofuel => simp [hg] at h
          | ok g =>
            simp only [hg, Out.ok.injEq] at h
            subst h
            have hlists : ∀ l ∈ a.lists, ∀ p ∈ l.2, SigInv P p := by
              intro l hl p hp
              rcases collect_lists _ _ _ hcol l hl with h0 | ⟨u, hu, _, hdef, _⟩ | ⟨u, hu, _, h2⟩
              · cases h0
              · obtain ⟨gu, hgu, rfl⟩ := mem_liveUses hu
                refine Or.inr ⟨p, List.mem_flatMap.2 ⟨c, hc, ?_⟩, sameSig_refl p⟩
                simp only [callableDefs, List.mem_append, List.mem_flatMap]
                exact Or.inr ⟨gu, hgu, hdef ▸ hp⟩
              · rcases h2 with ⟨_, h3⟩ | ⟨fr', r, _, hr, h3⟩
                · rw [h3] at hp; simp [removeGiven] at hp
                · rw [h3] at hp
                  exact ih fr' r hr p (removeGiven_sub hp)
            have hginv := group_inv hg hlists
            intro p hp
            rcases List.mem_append.1 hp with hp | hp
            · exact hown p hp
            · exact hginv p (List.mem_filter.1 (List.mem_filter.1 hp).1).1

/-- a name that every use of `kwargs` in the visited body either hard-codes or does not touch is not offered -/
theorem hardcoded_not_in {P : Prog} {fuel : Nat} {fr : Frame} {wh : Where} {c : Callable} {R : List Param} {n : String}
    (hb : frameBody P fr = some (wh, c)) (hR : resolveF (fuel + 1) P fr = .ok R)
    (hown : n ∉ names c.params)
    (huses : ∀ u ∈ liveUses c.uses, (∀ p ∈ useDefs u, p.name ≠ n) ∧ (u.isForward = true → n ∈ u.given)) :
    n ∉ names R := by
  simp only [resolveF, resolveBody, hb] at hR
  unfold resolveCallable at hR
  split at hR
  · simp only [Out.ok.injEq] at hR
    subst hR
    exact hown
  · cases hcol : collect (resolveF fuel P) P wh (liveUses c.uses) ⟨[], []⟩ with
    | crash => simp [hcol] at hR
    | nofuel => simp [hcol] at hR
    | ok a =>
      simp only [hcol] at hR
      cases hg : group a.lists with
      | crash => simp [hg] at hR
      | nofuel => simp [hg] at hR
      | ok g =>
        simp only [hg, Out.ok.injEq] at hR
        subst hR
        intro hn
        rw [names_append, List.mem_append] at hn
        rcases hn with hn | hn
        · exact hown hn
        · have h1 := (mem_names_filter_notin.1 hn).1
          have h2 := (mem_names_filter_notin.1 h1).1
          obtain ⟨l, hl, hnl⟩ := (group_names hg n).1 h2
          obtain ⟨p, hp, hpn⟩ := mem_names.1 hnl
          rcases collect_lists _ _ _ hcol l hl with h0 | ⟨u, hu, _, hdef, _⟩ | ⟨u, hu, hfw, h3⟩
          · cases h0
          · exact (huses u hu).1 p (hdef ▸ hp) hpn
          · have hgv := (huses u hu).2 hfw
            rcases h3 with ⟨_, h4⟩ | ⟨fr', r, _, _, h4⟩
            · rw [h4] at hp; simp [removeGiven] at hp
            · rw [h4] at hp
              have := (List.mem_filter.1 hp).2
              simp only [decide_eq_true_eq] at this
              exact this (hpn ▸ hgv)

theorem nodup_names_eq : ∀ {own : List Param}, (names own).Nodup → ∀ {p q : Param}, p ∈ own → q ∈ own →
    q.name = p.name → q = p := by
  intro own
  induction own with
  | nil => intro _ p q hp; cases hp
  | cons a own ih =>
    intro hnd p q hp hq hname
    simp only [names, List.map_cons, List.nodup_cons] at hnd
    rcases List.mem_cons.1 hp with rfl | hp' <;> rcases List.mem_cons.1 hq with rfl | hq'
    · rfl
    · exact absurd (List.mem_map.2 ⟨q, hq', hname⟩) hnd.1
    · exact absurd (List.mem_map.2 ⟨p, hp', hname.symm⟩) hnd.1
    · exact ih hnd.2 hp' hq' hname

/-- own parameters shadow: the offered parameter with the name of an own parameter IS the own parameter -/
theorem own_unique {own ext : List Param} (hnd : (names own).Nodup) (hext : ∀ p ∈ ext, p.name ∉ names own)
    {p q : Param} (hp : p ∈ own) (hq : q ∈ own ++ ext) (hname : q.name = p.name) : q = p := by
  rcases List.mem_append.1 hq with hq | hq
  · exact nodup_names_eq hnd hp hq hname
  · exact absurd (mem_names.2 ⟨p, hp, hname.symm⟩) (hext q hq)

/-- nothing is invented, whatever the body looks like (conditionals included): an offered name is an own
    parameter, or is read by a pop/get, or is offered by the callee of a forwarding call that does not hard-code it -/
theorem offered_source {P : Prog} {fuel : Nat} {fr : Frame} {wh : Where} {c : Callable} {R : List Param} {n : String}
    (hb : frameBody P fr = some (wh, c)) (hR : resolveF (fuel + 1) P fr = .ok R) (hn : n ∈ names R) :
    n ∈ names c.params ∨ (∃ u ∈ liveUses c.uses, ∃ p ∈ useDefs u, p.name = n) ∨
      ∃ u ∈ liveUses c.uses, u.isForward = true ∧ n ∉ u.given ∧
        ∃ fr' R', subFrame P wh u = some fr' ∧ resolveF fuel P fr' = .ok R' ∧ n ∈ names R' := by
  simp only [resolveF, resolveBody, hb] at hR
  unfold resolveCallable at hR
  split at hR
  · simp only [Out.ok.injEq] at hR
    subst hR
    exact Or.inl hn
  · cases hcol : collect (resolveF fuel P) P wh (liveUses c.uses) ⟨[], []⟩ with
    | crash => simp [hcol] at hR
    | nofuel => simp [hcol] at hR
    | ok a =>
      simp only [hcol] at hR
      cases hg : group a.lists with
      | crash => simp [hg] at hR
      | nofuel => simp [hg] at hR
      | ok g =>
        simp only [hg, Out.ok.injEq] at hR
        subst hR
        rw [names_append, List.mem_append] at hn
        rcases hn with hn | hn
        · exact Or.inl hn
        · have h1 := (mem_names_filter_notin.1 hn).1
          have h2 := (mem_names_filter_notin.1 h1).1
          obtain ⟨l, hl, hnl⟩ := (group_names hg n).1 h2
          obtain ⟨p, hp, hpn⟩ := mem_names.1 hnl
          rcases collect_lists _ _ _ hcol l hl with h0 | ⟨u, hu, _, hdef, _⟩ | ⟨u, hu, hfw, h3⟩
          · cases h0
          · exact Or.inr (Or.inl ⟨u, hu, p, hdef ▸ hp, hpn⟩)
          · rcases h3 with ⟨_, h4⟩ | ⟨fr', r, hsf, hr, h4⟩
            · rw [h4] at hp; simp [removeGiven] at hp
            · rw [h4] at hp
              have hng := (List.mem_filter.1 hp).2
              simp only [decide_eq_true_eq] at hng
              exact Or.inr (Or.inr ⟨u, hu, hfw, hpn ▸ hng, fr', r, hsf, hr, mem_names.2 ⟨p, removeGiven_sub hp, hpn⟩⟩)

theorem valid_good {P : Prog} {c : CId} (hc : c.valid P = true) : goodFrame P c.frame := by
  cases c with
  | entry i => simpa [CId.valid, CId.frame, goodFrame] using hc
  | cmeth o j => simpa [CId.valid, CId.frame, goodFrame] using hc

end Jap.Resolver

/-
Helper lemmas about the adapter model (Core/Adapt.lean): `allM`, the Union loop in closed form,
membership in the sorted member list.
-/
import Jap.Core.Adapt
namespace Jap.Adapt

/-! ### `Except` helpers -/

def isOk {α : Type} : Except Err α → Bool | .ok _ => true | .error _ => false

@[simp] theorem isOk_ok {α : Type} (a : α) : isOk (Except.ok a : Except Err α) = true := rfl
@[simp] theorem isOk_error {α : Type} (e : Err) : isOk (Except.error e : Except Err α) = false := rfl
@[simp] theorem isErr_ok {α : Type} (a : α) : isErr (Except.ok a : Except Err α) = false := rfl
@[simp] theorem isErr_error {α : Type} (e : Err) : isErr (Except.error e : Except Err α) = true := rfl

theorem isOk_eq_not_isErr {α : Type} (r : Except Err α) : isOk r = !isErr r := by cases r <;> rfl

theorem isOk_iff {α : Type} (r : Except Err α) : isOk r = true ↔ ∃ a, r = .ok a := by
  cases r <;> simp [isOk]

theorem isOk_false_iff {α : Type} (r : Except Err α) : isOk r = false ↔ ∃ e, r = .error e := by
  cases r <;> simp [isOk]

@[simp] theorem okOf_ok (v : Val) : okOf (.ok v) = some v := rfl
@[simp] theorem okOf_error (e : Err) : okOf (.error e) = .none := rfl

theorem okOf_eq_some {r : Except Err Val} {w : Val} : okOf r = some w ↔ r = .ok w := by
  cases r <;> simp [okOf]

theorem okOf_eq_none {r : Except Err Val} : okOf r = none ↔ ∃ e, r = .error e := by
  cases r <;> simp [okOf]

/-- what the `float` leaf returns: a float that was given or loaded, or the conversion of an int in float range -/
theorem adaptLeaf_float_ok (O : Oracle) (v w : Val) (h : adaptLeaf O .float v = .ok w) :
    ∃ r, w = .flt r ∧ (loadIfStr O v = .flt r ∨ ∃ i, loadIfStr O v = .int i ∧ toFlt O i = some r) := by
  simp only [adaptLeaf] at h
  split at h
  · rename_i i hi
    split at h
    · rename_i r hr; simp at h; subst h; exact ⟨r, rfl, Or.inr ⟨i, hi, hr⟩⟩
    · simp at h
  · rename_i r hr; simp at h; subst h; exact ⟨r, rfl, Or.inl hr⟩
  · simp at h

/-! ### registered types -/

theorem rnumConv_has (O : Oracle) (b : RBase) (v w : Val) (h : rnumConv O b v = some w) : b.has w = true := by
  cases b <;> cases v <;> simp [rnumConv] at h
  all_goals first
    | (subst h; rfl)
    | (obtain ⟨_, _, rfl⟩ := h; rfl)
    | (split at h <;> simp at h; subst h; rfl)

theorem rnumConv_fix (O : Oracle) (b : RBase) (w : Val) (h : b.has w = true) : rnumConv O b w = some w := by
  cases b <;> cases w <;> simp [RBase.has] at h <;> rfl

theorem adaptRnum_ok (O : Oracle) (b : RBase) (k : Nat) (v w : Val) (h : adaptRnum O false b k v = .ok w) :
    b.has w = true ∧ O.rnumOk k w = true ∧ rnumConv O b v = some w := by
  unfold adaptRnum at h
  simp only [Bool.false_eq_true, if_false] at h
  cases hc : rnumConv O b v with
  | none => simp [hc] at h
  | some w' =>
    simp only [hc] at h
    split at h
    · rename_i hk; simp at h; subst h; exact ⟨rnumConv_has O b v w' hc, hk, rfl⟩
    · simp at h

theorem adaptReg_ok (O : Oracle) (k : Nat) (v w : Val) (h : adaptReg O false k v = .ok w) : ∃ r, w = .obj k r := by
  unfold adaptReg at h
  simp only [Bool.false_eq_true, if_false] at h
  have key : ∀ u, (match O.regDeser k u with
      | some (.obj k'' r') => if k = k'' then (.ok (.obj k'' r') : Except Err Val) else .error .value
      | _ => .error .value) = .ok w → ∃ r, w = .obj k r := by
    intro u hu
    split at hu
    · split at hu
      · rename_i hk; simp at hu; subst hu; subst hk; exact ⟨_, rfl⟩
      · simp at hu
    · simp at hu
  cases v with
  | obj k' r =>
    simp only at h
    split at h
    · rename_i hk; simp at h; subst h; subst hk; exact ⟨_, rfl⟩
    · exact key _ h
  | _ => exact key _ h

theorem adaptReg_obj (O : Oracle) (k : Nat) (r : String) : adaptReg O false k (.obj k r) = .ok (.obj k r) := by
  simp [adaptReg]

/-! ### `allM` -/

inductive F2 {α β : Type} (R : α → β → Prop) : List α → List β → Prop
  | nil : F2 R [] []
  | cons {a b as bs} : R a b → F2 R as bs → F2 R (a :: as) (b :: bs)

theorem F2.length {α β : Type} {R : α → β → Prop} {xs : List α} {ys : List β} (h : F2 R xs ys) : ys.length = xs.length := by
  induction h with
  | nil => rfl
  | cons _ _ ih => simp [ih]

theorem allM_ok_iff {α β : Type} (f : α → Except Err β) : ∀ (xs : List α) (ys : List β),
    allM f xs = .ok ys ↔ F2 (fun x y => f x = .ok y) xs ys
  | [], ys => by
    constructor
    · intro h; simp [allM] at h; subst h; exact .nil
    · intro h; cases h; rfl
  | x :: xs, ys => by
    constructor
    · intro h
      simp only [allM] at h
      cases hx : f x with
      | error e => simp [hx] at h
      | ok y =>
        cases hxs : allM f xs with
        | error e => simp [hx, hxs] at h
        | ok ys' =>
          simp [hx, hxs] at h; subst h
          exact .cons hx ((allM_ok_iff f xs ys').mp hxs)
    · intro h
      cases h with
      | cons h1 h2 => simp [allM, h1, (allM_ok_iff f xs _).mpr h2]

theorem allM_isErr {α β : Type} (f : α → Except Err β) : ∀ (xs : List α),
    isErr (allM f xs) = xs.any (fun x => isErr (f x))
  | [] => by simp [allM]
  | x :: xs => by
    simp only [allM, List.any_cons]
    cases hx : f x with
    | error e => simp
    | ok y =>
      rw [← allM_isErr f xs]
      cases allM f xs <;> simp

theorem allM_isOk {α β : Type} (f : α → Except Err β) : ∀ (xs : List α),
    isOk (allM f xs) = xs.all (fun x => isOk (f x))
  | [] => by simp [allM]
  | x :: xs => by
    simp only [allM, List.all_cons]
    cases hx : f x with
    | error e => simp
    | ok y =>
      rw [← allM_isOk f xs]
      cases allM f xs <;> simp

theorem allM_length {α β : Type} {f : α → Except Err β} {xs : List α} {ys : List β} (h : allM f xs = .ok ys) :
    ys.length = xs.length := ((allM_ok_iff f xs ys).mp h).length

theorem allM_error_iff {α β : Type} (f : α → Except Err β) (xs : List α) :
    (∃ e, allM f xs = .error e) ↔ ∃ x ∈ xs, ∃ e, f x = .error e := by
  rw [← isOk_false_iff, allM_isOk]
  simp only [List.all_eq_false]
  constructor
  · rintro ⟨x, hx, h⟩; exact ⟨x, hx, (isOk_false_iff _).mp (by simpa using h)⟩
  · rintro ⟨x, hx, h⟩; exact ⟨x, hx, by simp [(isOk_false_iff _).mpr h]⟩

/-! ### the sorted member list -/

theorem cls_cases (v : Val) (t : Ty) : cls1 v t = true ∨ cls2 v t = true ∨ cls3 v t = true := by
  unfold cls1 cls2 cls3
  cases isNoneTy t <;> cases isStr v <;> cases isSeqOrMap t <;> simp

theorem mem_sortedMembers (v : Val) (ts : List Ty) (t : Ty) : t ∈ sortedMembers v id ts ↔ t ∈ ts := by
  simp only [sortedMembers, List.mem_append, List.mem_filter, id]
  constructor
  · rintro ((h | h) | h) <;> exact h.1
  · intro h
    rcases cls_cases v t with c | c | c
    · exact Or.inl (Or.inl ⟨h, c⟩)
    · exact Or.inl (Or.inr ⟨h, c⟩)
    · exact Or.inr ⟨h, c⟩

theorem isStrTy_cls3 (v : Val) (t : Ty) (h : isStrTy t = true) : cls3 v t = true := by
  cases t <;> simp [isStrTy] at h
  simp [cls3, isNoneTy, isSeqOrMap]

theorem any_isStrTy_sorted (v : Val) (ts : List Ty) : (sortedMembers v id ts).any isStrTy = ts.any isStrTy := by
  rw [Bool.eq_iff_iff]
  simp only [List.any_eq_true]
  constructor
  · rintro ⟨t, ht, h⟩; exact ⟨t, (mem_sortedMembers v ts t).mp ht, h⟩
  · rintro ⟨t, ht, h⟩; exact ⟨t, (mem_sortedMembers v ts t).mpr ht, h⟩

/-! ### the Union loop in closed form -/

/-- what `[v for v in vals if not isinstance(v, Exception)][-1]` sees -/
def summ (vals : Vals) : Option Val := (vals.filterMap okOf).getLast?

theorem summ_nil : summ [] = .none := rfl

theorem summ_append_err (vals : Vals) (e : Err) : summ (vals ++ [.error e]) = summ vals := by
  simp [summ, List.filterMap_append]

theorem summ_append_ok (vals : Vals) (x : Val) : summ (vals ++ [.ok x]) = some x := by
  simp [summ, List.filterMap_append]

theorem all_isErr_iff (vals : Vals) : vals.all isErr = true ↔ vals.filterMap okOf = [] := by
  induction vals with
  | nil => simp
  | cons r rs ih =>
    cases r with
    | error e => simp [ih]
    | ok x => simp

theorem unionResult_eq (vals : Vals) :
    unionResult vals = match summ vals with | some w => .ok w | .none => .error .value := by
  unfold unionResult summ
  by_cases h : vals.all isErr = true
  · have := (all_isErr_iff vals).mp h
    simp [h, this]
  · simp only [h]
    cases hl : (vals.filterMap okOf).getLast? with
    | none => simp
    | some w => simp

/-- did the members of the list `L` (all of which failed) leave the original string in `vals` -/
def rescued (orig : Option String) (v : Val) (L : List Ty) : Bool :=
  orig.isSome && !isStr v && L.any isStrTy

theorem unionPhase_spec (O : Oracle) (ser : Bool) (orig : Option String) (pred : Ty → Bool) (v : Val) :
    ∀ (ts : List Ty) (vals : Vals),
      (unionPhase O ser orig pred ts v vals).2 =
        ((ts.filter pred).findSome? (fun t => okOf (adapt O ser orig t v))).isSome ∧
      summ (unionPhase O ser orig pred ts v vals).1 =
        match (ts.filter pred).findSome? (fun t => okOf (adapt O ser orig t v)) with
        | some w => some w
        | .none => if rescued orig v (ts.filter pred) then orig.map Val.str else summ vals
  | [], vals => by simp [unionPhase, rescued]
  | t :: ts, vals => by
    by_cases hp : pred t = true
    · cases ha : adapt O ser orig t v with
      | ok w =>
        simp [unionPhase, hp, ha, summ_append_ok]
      | error e =>
        cases hs : (isStrTy t && !isStr v) with
        | false =>
          have ih := unionPhase_spec O ser orig pred v ts (vals ++ [.error e])
          have hr : rescued orig v (t :: ts.filter pred) = rescued orig v (ts.filter pred) := by
            simp only [rescued, List.any_cons]
            cases h1 : isStrTy t <;> cases h2 : isStr v <;> simp_all
          simp only [unionPhase, hp, ha, hs, List.filter_cons, if_true, List.findSome?_cons, okOf_error, hr]
          rw [summ_append_err] at ih
          exact ih
        | true =>
          cases ho : orig with
          | none =>
            have ih := unionPhase_spec O ser .none pred v ts (vals ++ [.error e])
            subst ho
            simp only [unionPhase, hp, ha, hs, List.filter_cons, if_true, List.findSome?_cons, okOf_error]
            rw [summ_append_err] at ih
            simpa [rescued] using ih
          | some o =>
            have ih := unionPhase_spec O ser (some o) pred v ts (vals ++ [.ok (.str o)])
            subst ho
            have hr : rescued (some o) v (t :: ts.filter pred) = true := by
              simp only [rescued, List.any_cons]
              simp only [Bool.and_eq_true] at hs
              simp [hs.1, hs.2]
            simp only [unionPhase, hp, ha, hs, List.filter_cons, if_true, List.findSome?_cons, okOf_error, hr]
            rw [summ_append_ok] at ih
            refine ⟨ih.1, ?_⟩
            rw [ih.2]
            cases (ts.filter pred).findSome? (fun t => okOf (adapt O ser (some o) t v)) with
            | some w => rfl
            | none => simp
    · have hp' : pred t = false := by simpa using hp
      have ih := unionPhase_spec O ser orig pred v ts vals
      simpa [unionPhase, hp', List.filter_cons] using ih

/-- **the Union branch in closed form**: the first member, in the order of `sort_subtypes_for_union`, that
    adapts the value; if none does, the original string when there is one, the value is not a string and `str`
    is a member; else `ValueError`. -/
theorem adapt_union_eq (O : Oracle) (ser : Bool) (orig : Option String) (ts : List Ty) (v : Val) :
    adapt O ser orig (.union ts) v =
      match (sortedMembers v id ts).findSome? (fun t => okOf (adapt O ser orig t v)) with
      | some w => .ok w
      | .none => if rescued orig v ts then (match orig with | some o => .ok (.str o) | .none => .error .value)
                 else .error .value := by
  rw [adapt]
  simp only [unionResult_eq]
  have h1 := unionPhase_spec O ser orig (cls1 v) v ts []
  generalize hs1 : unionPhase O ser orig (cls1 v) ts v [] = s1 at h1
  have h2 := unionPhase_spec O ser orig (cls2 v) v ts s1.1
  generalize hs2 : unionPhase O ser orig (cls2 v) ts v s1.1 = s2 at h2
  simp only [sortedMembers, id, List.findSome?_append]
  have hrescue : rescued orig v ts =
      (rescued orig v (ts.filter (cls1 v)) || rescued orig v (ts.filter (cls2 v)) || rescued orig v (ts.filter (cls3 v))) := by
    have := any_isStrTy_sorted v ts
    simp only [sortedMembers, id, List.any_append] at this
    simp only [rescued, ← this]
    cases orig.isSome <;> cases isStr v <;> simp
  cases hf1 : (ts.filter (cls1 v)).findSome? (fun t => okOf (adapt O ser orig t v)) with
  | some w =>
    rw [hf1] at h1
    have hb : s1.2 = true := by simpa using h1.1
    simp [hb, h1.2]
  | none =>
    rw [hf1] at h1
    have hb : s1.2 = false := by simpa using h1.1
    simp only [hb, Bool.false_eq_true, if_false, Option.none_or]
    cases hf2 : (ts.filter (cls2 v)).findSome? (fun t => okOf (adapt O ser orig t v)) with
    | some w =>
      rw [hf2] at h2
      have hb2 : s2.2 = true := by simpa using h2.1
      simp [hb2, h2.2]
    | none =>
      rw [hf2] at h2
      have hb2 : s2.2 = false := by simpa using h2.1
      simp only [hb2, Bool.false_eq_true, if_false, Option.none_or]
      have h3 := unionPhase_spec O ser orig (cls3 v) v ts s2.1
      cases hf3 : (ts.filter (cls3 v)).findSome? (fun t => okOf (adapt O ser orig t v)) with
      | some w =>
        rw [hf3] at h3
        simp [h3.2]
      | none =>
        rw [hf3] at h3
        rw [h3.2, h2.2, h1.2, hrescue, summ_nil]
        cases orig with
        | none => simp [rescued]
        | some o =>
          cases rescued (some o) v (ts.filter (cls3 v)) <;> cases rescued (some o) v (ts.filter (cls2 v)) <;>
            cases rescued (some o) v (ts.filter (cls1 v)) <;> simp

end Jap.Adapt

/-
Helper lemmas for restricted numbers of E8 (C20): the sequential checks of
`validation_fn` + cast against the declarative `asBase` / `joinSat`.
Core Lean only.
-/
import Jap.Core.Typing

namespace Jap.Typing

/-- a value that denotes a number of the base type passes the two guards of `validation_fn` -/
theorem asBase_guards {b : Base} {v : PyVal} {x : BVal} (h : asBase b v = some x) :
    v.isBool = false ∧ ¬ (b = .int ∧ v.isNonIntegralFloat = true) := by
  cases b <;> cases v <;> simp [asBase, PyVal.isBool, PyVal.isNonIntegralFloat] at h ⊢
  · rename_i y
    cases y <;> simp at h ⊢
    exact h.1

/-- behind the guards, `base(v)` succeeds exactly on the values that denote a number of the base type,
and returns that number -/
theorem castBase_iff_asBase {b : Base} {v : PyVal} {x : BVal}
    (h1 : v.isBool = false) (h2 : ¬ (b = .int ∧ v.isNonIntegralFloat = true)) :
    castBase b v = .ok x ↔ asBase b v = some x := by
  cases b <;> cases v
  all_goals simp [PyVal.isBool] at h1
  -- int base
  · simp [castBase, pyInt, asBase, Except.map]
  · rename_i y
    cases y with
    | fin q =>
      have hden : q.den = 1 := by simpa [PyVal.isNonIntegralFloat] using h2
      simp [castBase, pyInt, asBase, Except.map, hden]
    | nan => simp [PyVal.isNonIntegralFloat] at h2
    | inf n => simp [PyVal.isNonIntegralFloat] at h2
  · rename_i s
    cases hs : readPyInt s <;> simp [castBase, pyInt, asBase, Except.map, hs]
  · simp [castBase, pyInt, asBase, Except.map]
  -- float base
  · rename_i i
    cases hr : roundDouble (i : Rat) <;> simp [castBase, pyFloat, asBase, Except.map, hr]
  · simp [castBase, pyFloat, asBase, Except.map]
  · rename_i s
    cases hs : readPyFloat s <;> simp [castBase, pyFloat, asBase, Except.map, hs]
  · simp [castBase, pyFloat, asBase, Except.map]

/-- `all(check)` / `any(check)` of the code against the quantified statement -/
theorem joinSat_iff (j : Join) (rs : List Restr) (x : BVal) :
    joinSat j rs x ↔ ¬ ((j = .and ∧ ¬ (checks rs x).all id = true) ∨ (j = .or ∧ ¬ (checks rs x).any id = true)) := by
  cases j <;> simp [joinSat, checks, List.all_map, List.any_map]

/-- a base-type value denotes itself -/
theorem asBase_toPy {b : Base} {v : PyVal} {x : BVal} (h : asBase b v = some x) : asBase b x.toPy = some x := by
  cases b <;> cases v <;> simp [asBase] at h
  · subst h; simp [BVal.toPy, asBase]
  · rename_i y
    cases y <;> simp at h
    obtain ⟨_, rfl⟩ := h
    simp [BVal.toPy, asBase]
  · obtain ⟨n, _, rfl⟩ := h
    simp [BVal.toPy, asBase]
  · rename_i i
    cases hr : roundDouble (i : Rat) <;> simp [hr] at h <;> subst h <;> simp [BVal.toPy, asBase]
  · subst h; simp [BVal.toPy, asBase]
  · obtain ⟨n, _, rfl⟩ := h
    simp [BVal.toPy, asBase]

theorem validateNum_iff (b : Base) (rs : List Restr) (j : Join) (v : PyVal) (x : BVal) :
    validateNum b rs j v = .ok x ↔ asBase b v = some x ∧ joinSat j rs x := by
  constructor
  · intro h
    unfold validateNum validationFn at h
    by_cases hb : v.isBool = true
    · simp [hb] at h
    · by_cases hn : b = .int ∧ v.isNonIntegralFloat = true
      · simp [hn] at h
      · have hb' : v.isBool = false := by simpa using hb
        simp only [hb', Bool.false_eq_true, ↓reduceIte, hn] at h
        cases hc : castBase b v with
        | error e => simp [hc] at h
        | ok vv =>
          simp only [hc] at h
          by_cases hj : (j = .and ∧ ¬ (checks rs vv).all id = true) ∨ (j = .or ∧ ¬ (checks rs vv).any id = true)
          · simp only [hj, ↓reduceIte] at h
            cases h
          · simp only [hj, ↓reduceIte, Except.ok.injEq] at h
            subst h
            exact ⟨(castBase_iff_asBase hb' hn).mp hc, (joinSat_iff j rs vv).mpr hj⟩
  · rintro ⟨ha, hj⟩
    obtain ⟨hb, hn⟩ := asBase_guards ha
    have hc := (castBase_iff_asBase hb hn).mpr ha
    have hj' := (joinSat_iff j rs x).mp hj
    unfold validateNum validationFn
    simp only [hb, Bool.false_eq_true, ↓reduceIte, hn, hc, hj']

/-- an integral rational is the cast of its numerator -/
theorem rat_of_den_one (q : Rat) (h : q.den = 1) : ((q.num : Int) : Rat) = q := by
  apply Rat.ext
  · simp
  · simp [h]

/-- on finite values the six operators mean what their symbols say (exact comparison of int and float) -/
theorem cmp_fin (op : Op) (a b : Rat) :
    cmp op (.fin a) (.fin b) = true ↔
      (match op with
        | .gt => b < a
        | .ge => b ≤ a
        | .lt => a < b
        | .le => a ≤ b
        | .eq => a = b
        | .ne => a ≠ b) := by
  cases op <;> simp only [cmp, XNum.lt, XNum.eq, Bool.or_eq_true, decide_eq_true_eq, Bool.not_eq_true',
    decide_eq_false_iff_not]
  · rw [Rat.le_iff_lt_or_eq]
    constructor
    · rintro (h | h)
      · exact Or.inl h
      · exact Or.inr h.symm
    · rintro (h | h)
      · exact Or.inl h
      · exact Or.inr h.symm
  · rw [Rat.le_iff_lt_or_eq]

/-- `nan` satisfies only `!=`; it is never accepted by a comparison that orders or equates -/
theorem cmp_nan (op : Op) (y : XNum) : cmp op .nan y = true ↔ op = .ne := by
  cases op <;> cases y <;> simp [cmp, XNum.lt, XNum.eq]

end Jap.Typing

/-
Kernel-checked certificates over the regenerated joint automaton (C01/C05) and their lifting to all words.
Each `…_cert` evaluates one Boolean in every one of the `2 ^ W` table states by `decide +kernel`; `Dfa.lift`
turns it into a statement about the state reached by an arbitrary class word.  When /repo's resolvers change,
`Gen/Resolvers.lean` changes and the certificates are re-checked; a certificate that is no longer true makes
the build fail (broken tie).
-/
import Jap.Core.Scalar

namespace Jap.Scalar
open Jap.Dfa
open Jap.Gen.Resolvers (imgInt imgBool imgNull imgFloatYaml jsonInt jsonFloat imgFloatJson)

/-- in this state: what the dumper resolves as `str` the loader resolves as `str` -/
def agreeOK (j : Nat) : Bool := !(Nat.beq (tagD j) 0) || Nat.beq (tagL j) 0
/-- in this state: membership in image language `i` implies loader tag `t` -/
def imgOK (i t : Nat) (j : Nat) : Bool := !(inImg i j) || Nat.beq (tagL j) t
/-- in this state: membership in image language `i` implies dumper tag `t` -/
def imgDumpOK (i t : Nat) (j : Nat) : Bool := !(inImg i j) || Nat.beq (tagD j) t

theorem agree_cert : allBelow agreeOK (2 ^ J.W) = true := by decide +kernel
theorem imgInt_cert : allBelow (imgOK imgInt 3) (2 ^ J.W) = true := by decide +kernel
theorem imgBool_cert : allBelow (imgOK imgBool 2) (2 ^ J.W) = true := by decide +kernel
theorem imgNull_cert : allBelow (imgOK imgNull 1) (2 ^ J.W) = true := by decide +kernel
theorem imgFloatYaml_cert : allBelow (imgOK imgFloatYaml 4) (2 ^ J.W) = true := by decide +kernel
theorem jsonInt_cert : allBelow (imgOK jsonInt 3) (2 ^ J.W) = true := by decide +kernel
theorem jsonFloat_cert : allBelow (imgOK jsonFloat 4) (2 ^ J.W) = true := by decide +kernel
theorem imgFloatJson_cert : allBelow (imgOK imgFloatJson 4) (2 ^ J.W) = true := by decide +kernel
/-- the dumper itself resolves what it writes for int/bool/null/float with that tag (so no `!!tag` is emitted) -/
theorem imgIntD_cert : allBelow (imgDumpOK imgInt 3) (2 ^ J.W) = true := by decide +kernel
theorem imgBoolD_cert : allBelow (imgDumpOK imgBool 2) (2 ^ J.W) = true := by decide +kernel
theorem imgNullD_cert : allBelow (imgDumpOK imgNull 1) (2 ^ J.W) = true := by decide +kernel
theorem imgFloatYamlD_cert : allBelow (imgDumpOK imgFloatYaml 4) (2 ^ J.W) = true := by decide +kernel

theorem Tag.ofNat_eq_str (n : Nat) : Tag.ofNat n = .str ↔ n = 0 := by
  constructor
  · intro h
    match n, h with
    | 0, _ => rfl
    | 1, h | 2, h | 3, h | 4, h => cases h
    | n + 5, h => simp [Tag.ofNat] at h
  · intro h; subst h; rfl

theorem agree_words (w : List Nat) : resolveDumpW w = .str → resolveLoadW w = .str := by
  intro hd
  have h := lift J agreeOK agree_cert w
  simp only [resolveDumpW, Tag.ofNat_eq_str] at hd
  simp only [resolveLoadW, Tag.ofNat_eq_str]
  simp only [agreeOK, jrun] at h hd ⊢
  rw [hd] at h
  simpa using h

theorem img_words (i t : Nat) (cert : allBelow (imgOK i t) (2 ^ J.W) = true) (w : List Nat) :
    inImageW i w = true → tagL (jrun 0 w) = t := by
  intro hi
  have h := lift J (imgOK i t) cert w
  simp only [imgOK, inImageW, jrun] at h hi ⊢
  rw [hi] at h
  simpa using h

theorem imgDump_words (i t : Nat) (cert : allBelow (imgDumpOK i t) (2 ^ J.W) = true) (w : List Nat) :
    inImageW i w = true → tagD (jrun 0 w) = t := by
  intro hi
  have h := lift J (imgDumpOK i t) cert w
  simp only [imgDumpOK, inImageW, jrun] at h hi ⊢
  rw [hi] at h
  simpa using h

end Jap.Scalar

import Jap.Core.SourcesSub
import Jap.Lemmas.SourcesCall
/-!
Lemmas for the subcommand levels of C04: the `default_env` setter over the parser tree, and what
`handle_subcommands` leaves of a level's own parse.
-/
namespace Jap.Src
open Jap.NS

/-! ### the setter -/

theorem eff_idem (os : Option String) (b : Bool) :
    effectiveDefaultEnv os (effectiveDefaultEnv os b) = effectiveDefaultEnv os b := by
  unfold effectiveDefaultEnv
  split <;> simp_all

theorem eff_none (b : Bool) : effectiveDefaultEnv .none b = b := rfl

mutual
theorem setEnv_uniform (os : Option String) (b : Bool) : ∀ t : PT, uniformB (effectiveDefaultEnv os b) (setEnv os b t) = true
  | .node _ subs => by
    simp only [setEnv, uniformB, beq_self_eq_true, Bool.true_and]
    have := setEnvL_uniform os (effectiveDefaultEnv os b) subs
    rw [eff_idem] at this
    exact this
theorem setEnvL_uniform (os : Option String) (b : Bool) :
    ∀ l : List (String × PT), uniformL (effectiveDefaultEnv os b) (setEnvL os b l) = true
  | [] => rfl
  | (n, t) :: r => by
    simp only [setEnvL, uniformL, Bool.and_eq_true]
    exact ⟨setEnv_uniform os b t, setEnvL_uniform os b r⟩
end

mutual
theorem flagsOn_uniform (b : Bool) : ∀ (path : List String) (t : PT), uniformB b t = true → ∀ f ∈ flagsOn path t, f = b
  | [], .node f subs, h, g, hg => by
    simp only [uniformB, Bool.and_eq_true, beq_iff_eq] at h
    simp only [flagsOn, List.mem_singleton] at hg
    rw [hg]; exact h.1
  | n :: r, .node f subs, h, g, hg => by
    simp only [uniformB, Bool.and_eq_true, beq_iff_eq] at h
    simp only [flagsOn, List.mem_cons] at hg
    rcases hg with hg | hg
    · rw [hg]; exact h.1
    · exact flagsOnL_uniform b n r subs h.2 g hg
theorem flagsOnL_uniform (b : Bool) (n : String) (r : List String) :
    ∀ (l : List (String × PT)), uniformL b l = true → ∀ f ∈ flagsOnL n r l, f = b
  | [], _, g, hg => by simp [flagsOnL] at hg
  | (m, t) :: rest, h, g, hg => by
    simp only [uniformL, Bool.and_eq_true] at h
    simp only [flagsOnL] at hg
    split at hg
    · exact flagsOn_uniform b r t h.1 g hg
    · exact flagsOnL_uniform b n r rest h.2 g hg
end

/-- a history of setter calls at the root: the last call decides, for the whole tree -/
theorem rootSetters_uniform : ∀ (hist : List (Option String × Bool)) (t : PT) (os : Option String) (b : Bool),
    uniformB (effectiveDefaultEnv os b) ((hist ++ [(os, b)]).foldl (fun t c => setEnv c.1 c.2 t) t) = true := by
  intro hist t os b
  rw [List.foldl_append]
  exact setEnv_uniform os b _

/-- the levels carry the flags of the tree -/
theorem flagLevels_envRead (b : Bool) : ∀ (lv : List Level) (fs : List Bool), lv.length ≤ fs.length → (∀ f ∈ fs, f = b) →
    ∀ L ∈ flagLevels lv fs, envRead L.p .none = b
  | [], _, _, _, L, hL => by simp [flagLevels] at hL
  | _ :: _, [], hlen, _, _, _ => by simp at hlen
  | L0 :: r, f :: fs, hlen, hf, L, hL => by
    simp only [flagLevels, List.mem_cons] at hL
    rcases hL with hL | hL
    · rw [hL]
      exact hf f List.mem_cons_self
    · exact flagLevels_envRead b r fs (by simpa using hlen) (fun g hg => hf g (List.mem_cons_of_mem _ hg)) L hL

/-! ### monotonicity of the reference, key by key -/

theorem stepKey_isSome (k : Key) (x : Option V) (s : Assign) (h : x.isSome = true) : (stepKey k x s).isSome = true := by
  cases s <;> simp only [stepKey] <;> split <;> simp_all

theorem evalKey_isSome (k : Key) : ∀ (as : List Assign) (x : Option V), x.isSome = true → (evalKey k as x).isSome = true
  | [], _, h => h
  | s :: r, x, h => by
    rw [evalKey_cons]
    exact evalKey_isSome k r _ (stepKey_isSome k x s h)

/-- a history cannot erase a value: if nothing is there at the end, nothing was there at the start -/
theorem evalKey_or_start (k : Key) (as : List Assign) (x : Option V) : (evalKey k as x).or x = evalKey k as x := by
  cases hx : x with
  | none => cases evalKey k as .none <;> rfl
  | some v =>
    have := evalKey_isSome k as (some v) rfl
    cases he : evalKey k as (some v) with
    | none => rw [he] at this; simp at this
    | some w => rfl

/-! ### `handle_subcommands` -/

section
variable {L : Level} (hp : wfParser L.p = true)
include hp

/-- when every enclosing parser reads the environment exactly when the level itself does, the merges of
    `handle_subcommands` change nothing at any destination of a namespace `x0` that was built FROM THE LEVEL'S BASE by any
    history of assignments: what is merged UNDER it is that base -/
theorem handleFold_keeps {a : Arg} (ha : a ∈ L.p.args) (c : Call) (hs : srcWfC L.p L.src c = true)
    (as : List Assign) (x0 : KV) (hx0 : getK a.dest x0 = evalKey a.dest as (getK a.dest (defaultsAndEnvironC L.p L.src c)))
    (hi0 : Inv L.p x0) (anc : List Bool) (hanc : ∀ e ∈ anc, e = envRead L.p c.envArg) :
    getK a.dest (anc.foldl (handleStep L c) x0) = getK a.dest x0 ∧ Inv L.p (anc.foldl (handleStep L c) x0) := by
  have hs' := hs
  simp only [srcWfC, Bool.and_eq_true, List.all_eq_true] at hs'
  obtain ⟨hB, hBi⟩ := stage_baseC_exact hp ha L.src c hs
  have hO := hx0
  -- generalise over the namespace being merged
  suffices h : ∀ (anc : List Bool) (x : KV), (∀ e ∈ anc, e = envRead L.p c.envArg) →
      getK a.dest x = getK a.dest x0 → Inv L.p x →
      getK a.dest (anc.foldl (handleStep L c) x) = getK a.dest x0 ∧ Inv L.p (anc.foldl (handleStep L c) x) from
    h anc _ hanc rfl hi0
  intro anc
  induction anc with
  | nil => intro x _ hx hi; exact ⟨hx, hi⟩
  | cons e r ih =>
    intro x he hx hi
    simp only [List.foldl_cons]
    apply ih _ (fun e' h' => he e' (List.mem_cons_of_mem _ h'))
    · -- the value at `a.dest` after one merge
      have hee := he e List.mem_cons_self
      unfold handleStep subNamespace
      cases hb : envRead L.p c.envArg with
      | true =>
        rw [hee, hb]
        simp only [if_true]
        have hs2 : srcWfC L.p L.src { c with envArg := some true } = true := hs
        obtain ⟨hS, hSi⟩ := stage_baseC_exact hp ha L.src { c with envArg := some true } hs2
        rw [(stage_envMerge hp ha hi hSi).1, hx]
        have hSB : getK a.dest (defaultsAndEnvironC L.p L.src { c with envArg := some true })
            = getK a.dest (defaultsAndEnvironC L.p L.src c) := by
          rw [hS, hB, hb]; rfl
        rw [hSB]
        rw [hO]
        exact evalKey_or_start _ _ _
      | false =>
        rw [hee, hb]
        simp only [Bool.false_eq_true, if_false]
        cases hd : c.defaults with
        | false => simp only [Bool.false_eq_true, if_false]; exact hx
        | true =>
          simp only [if_true]
          obtain ⟨hD, hDi⟩ := stage_getDefaults hp ha L.src.files hs'.1.1
          rw [(stage_envMerge hp ha hi hDi).1, hx]
          have hDB : getK a.dest (getDefaults L.p L.src.files) = getK a.dest (defaultsAndEnvironC L.p L.src c) := by
            rw [hD, hB, hb]
            simp only [Bool.false_eq_true, if_false, baseVal, hd, if_true]
          rw [hDB]
          rw [hO]
          exact evalKey_or_start _ _ _
    · -- the invariant
      unfold handleStep subNamespace
      cases e with
      | true =>
        simp only [if_true]
        have hs2 : srcWfC L.p L.src { c with envArg := some true } = true := hs
        exact (stage_envMerge hp ha hi (stage_baseC_exact hp ha L.src { c with envArg := some true } hs2).2).2
      | false =>
        simp only [Bool.false_eq_true, if_false]
        cases hd : c.defaults with
        | false => simp only [Bool.false_eq_true, if_false]; exact hi
        | true =>
          simp only [if_true]
          exact (stage_envMerge hp ha hi (stage_getDefaults hp ha L.src.files hs'.1.1).2).2


theorem finalLevel_eq_own {a : Arg} (ha : a ∈ L.p.args) (c : Call) (hs : srcWfC L.p L.src c = true)
    (anc : List Bool) (hanc : ∀ e ∈ anc, e = envRead L.p c.envArg) :
    getK a.dest (finalLevel c anc L) = getK a.dest (ownParse c L) ∧ Inv L.p (finalLevel c anc L) := by
  have hs' := hs
  simp only [srcWfC, Bool.and_eq_true, List.all_eq_true] at hs'
  obtain ⟨_, hBi⟩ := stage_baseC_exact hp ha L.src c hs
  obtain ⟨hO, hOi⟩ := stage_argv hp ha L.src.argv _ hs'.2 hBi
  exact handleFold_keeps hp ha c hs (asgArgv L.p L.src.argv) _ hO hOi anc hanc

/-! ### sections -/

/-- a config whose own part is `e`, given through the config argument `b` -/
theorem stage_applyConfigE {a b : Arg} (ha : a ∈ L.p.args) (hb : b ∈ L.p.args) (e : KV) (ht : treeOk L.p e = true)
    {c : KV} (hi : Inv L.p c) :
    getK a.dest (applyConfigE L.p b.dest e c) = evalKey a.dest (asgTree e ++ [.note b.dest]) (getK a.dest c)
    ∧ Inv L.p (applyConfigE L.p b.dest e c) := by
  obtain ⟨h1, h2⟩ := stage_mergeTree hp ha _ ht hi
  have : applyConfigE L.p b.dest e c = refStep (mergeConfig L.p e c) (.note b.dest) := rfl
  rw [this]
  obtain ⟨h3, h4⟩ := stage_refStep hp ha (.note b.dest) ⟨b, hb, rfl⟩ rfl h2
  refine ⟨?_, h4⟩
  rw [h3, h1, evalKey_append]
  rfl

/-- the level's segment of the command line, configs with sections included: the own part evolves as the fold of the own keys -/
theorem stage_argvT {a : Arg} (ha : a ∈ L.p.args) (below : List Level) : ∀ (argv : List Item) (st : KV × KV),
    (∀ it ∈ argv, itemWfT L below it = true) → Inv L.p st.1 →
    getK a.dest (argv.foldl (argvStepT L below) st).1 = evalKey a.dest (asgArgvT L below argv) (getK a.dest st.1)
    ∧ Inv L.p (argv.foldl (argvStepT L below) st).1
  | [], _, _, hi => ⟨rfl, hi⟩
  | it :: rest, st, h, hi => by
    have hit := h it List.mem_cons_self
    have hstep : getK a.dest (argvStepT L below st it).1 = evalKey a.dest (asgItemT L below it) (getK a.dest st.1)
        ∧ Inv L.p (argvStepT L below st it).1 := by
      cases it with
      | set k v =>
        simp only [itemWfT, itemWf, Bool.and_eq_true] at hit
        exact stage_refStep hp ha (.set k v) (isDest_spec hit.1) hit.2 hi
      | append k v =>
        simp only [itemWfT, itemWf] at hit
        exact stage_refStep hp ha (.append k v) (isDest_spec hit) rfl hi
      | item k i v =>
        simp only [itemWfT, itemWf] at hit
        exact stage_refStep hp ha (.item k i v) (isDest_spec hit) rfl hi
      | cfg k t =>
        simp only [itemWfT, Bool.and_eq_true] at hit
        obtain ⟨b, hb, e⟩ := isDest_spec hit.1
        rw [e]
        exact stage_applyConfigE hp ha hb _ hit.2 hi
    obtain ⟨h3, h4⟩ := stage_argvT ha below rest _ (fun x hx => h x (List.mem_cons_of_mem _ hx)) hstep.2
    simp only [List.foldl_cons, asgArgvT, List.flatMap_cons, evalKey_append] at h3 ⊢
    exact ⟨by rw [h3, hstep.1], h4⟩

/-- a level's own parse with an incoming section and configs that hold sections, then every enclosing `handle_subcommands` -/
theorem stage_finalLevelT {a : Arg} (ha : a ∈ L.p.args) (c : Call) (below : List Level) (inc : KV)
    (hs : srcWfC L.p { L.src with argv := [] } c = true) (hargv : ∀ it ∈ L.src.argv, itemWfT L below it = true)
    (hinc : treeOk L.p (ownPart (nextName below) inc) = true)
    (anc : List Bool) (hanc : ∀ e ∈ anc, e = envRead L.p c.envArg) :
    getK a.dest (finalLevelT c anc L below inc) =
      evalKey a.dest (asgTree (ownPart (nextName below) inc) ++ asgArgvT L below L.src.argv)
        (getK a.dest (defaultsAndEnvironC L.p L.src c)) := by
  have hsL : srcWfC L.p { L.src with argv := [] } c = srcWfC L.p { L.src with argv := [] } c := rfl
  obtain ⟨_, hBi⟩ := stage_baseC_exact hp ha { L.src with argv := [] } c hs
  have hBi' : Inv L.p (defaultsAndEnvironC L.p L.src c) := hBi
  obtain ⟨hM, hMi⟩ := stage_mergeTree hp ha _ hinc hBi'
  obtain ⟨hA, hAi⟩ := stage_argvT hp ha below L.src.argv
    (mergeConfig L.p (ownPart (nextName below) inc) (defaultsAndEnvironC L.p L.src c),
      update (sectionPart (nextName below) inc) (envPending c L below)) hargv hMi
  have hx0 : getK a.dest (ownParseT c L below inc).1 =
      evalKey a.dest (asgTree (ownPart (nextName below) inc) ++ asgArgvT L below L.src.argv)
        (getK a.dest (defaultsAndEnvironC L.p L.src c)) := by
    rw [evalKey_append, ← hM]
    exact hA
  have hk := handleFold_keeps (L := { L with src := { L.src with argv := [] } }) hp ha c hs _ (ownParseT c L below inc).1 hx0 hAi anc hanc
  exact hk.1.trans hx0

end

end Jap.Src

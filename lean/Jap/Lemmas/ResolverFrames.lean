/-
E9 (Resolver): from one callable to every frame — what `WfProg` says about the body of each
frame, the agreement of the resolver's MRO walk with attribute lookup, and the induction on the
termination measure that gives `offered ⇔ accepted` for every frame.
-/
import Jap.Lemmas.ResolverExact

namespace Jap.Resolver

/-! ### `WfProg` implies acyclic; reading `WfProg` at an entry -/

theorem allIdx_imp {α : Type} {f g : Nat → α → Bool} (h : ∀ i x, f i x = true → g i x = true) :
    ∀ {l : List α} {s : Nat}, allIdx f s l = true → allIdx g s l = true := by
  intro l
  induction l with
  | nil => intro s _; rfl
  | cons a l ih =>
    intro s hl
    simp only [allIdx, Bool.and_eq_true] at hl ⊢
    exact ⟨h _ _ hl.1, ih hl.2⟩

theorem callableOK_acyclic {P : Prog} {site : Site} {self : Nat} {meths : List Callable} {c : Callable}
    (h : callableOK P site self meths c = true) : callableAcyclic site self meths.length c = true := by
  simp only [callableOK, Bool.and_eq_true] at h
  apply List.all_eq_true.2
  intro u hu
  have := List.all_eq_true.1 h.2 u hu
  simp only [Bool.and_eq_true] at this
  exact this.1

theorem entryOK_acyclic {P : Prog} {i : Nat} {e : Entry} (h : entryOK P i e = true) : entryAcyclic i e = true := by
  cases e with
  | fn c =>
    simp only [entryOK] at h
    simpa [entryAcyclic] using callableOK_acyclic h
  | cls k =>
    simp only [entryOK, Bool.and_eq_true] at h
    obtain ⟨⟨⟨⟨⟨hmro, hinit⟩, hme⟩, hcm⟩, _⟩, _⟩ := h
    simp only [entryAcyclic, Bool.and_eq_true]
    refine ⟨⟨⟨hmro, ?_⟩, ?_⟩, ?_⟩
    · cases hk : k.init with
      | none => rfl
      | some c => simp only [hk] at hinit; exact callableOK_acyclic hinit
    · exact List.all_eq_true.2 fun c hc => callableOK_acyclic (List.all_eq_true.1 hme c hc)
    · exact List.all_eq_true.2 fun c hc => callableOK_acyclic (List.all_eq_true.1 hcm c hc)

theorem WfProg_all {P : Prog} (h : WfProg P = true) : allIdx (entryOK P) 0 P.entries = true := by
  simp only [WfProg, Bool.and_eq_true] at h; exact h.2

theorem WfProg_superMap {P : Prog} (h : WfProg P = true) : P.superMap = [] := by
  simp only [WfProg, Bool.and_eq_true, List.isEmpty_iff] at h; exact h.1

theorem WfProg_acyclic {P : Prog} (h : WfProg P = true) : P.acyclic = true :=
  allIdx_imp (fun _ _ => entryOK_acyclic) (WfProg_all h)

theorem wf_entry {P : Prog} (h : WfProg P = true) {i : Nat} {e : Entry} (he : P.entries[i]? = some e) :
    entryOK P i e = true := by
  have := allIdx_get (f := entryOK P) (s := 0) (WfProg_all h) he
  simpa using this

/-! ### the resolver's MRO walk and attribute lookup agree -/

theorem nextInit_dispatch {P : Prog} : ∀ (l : List Nat),
    nextInit P l = (dispatchInit P l).map (fun x => (x.1, x.2.2)) := by
  intro l
  induction l with
  | nil => rfl
  | cons d rest ih =>
    simp only [nextInit, dispatchInit]
    cases P.ownInit d with
    | none => simpa using ih
    | some c => rfl

theorem dispatchInit_spec {P : Prog} : ∀ {l : List Nat} {d : Nat} {c : Callable} {s : List Nat},
    dispatchInit P l = some (d, c, s) → P.ownInit d = some c ∧ ∃ pre t, l = pre ++ d :: t ∧ s = d :: t := by
  intro l
  induction l with
  | nil => intro d c s h; simp [dispatchInit] at h
  | cons a l ih =>
    intro d c s h
    simp only [dispatchInit] at h
    cases ha : P.ownInit a with
    | some c' =>
      simp only [ha, Option.some.injEq, Prod.mk.injEq] at h
      obtain ⟨rfl, rfl, rfl⟩ := h
      exact ⟨ha, [], l, rfl, rfl⟩
    | none =>
      simp only [ha] at h
      obtain ⟨h1, pre, t, rfl, rfl⟩ := ih h
      exact ⟨h1, a :: pre, t, rfl, rfl⟩

theorem dropTo_mroAfter (x : Nat) : ∀ (l : List Nat),
    (dropTo x l = [] ∧ mroAfter x l = []) ∨ dropTo x l = x :: mroAfter x l := by
  intro l
  induction l with
  | nil => exact Or.inl ⟨rfl, rfl⟩
  | cons a l ih =>
    simp only [dropTo, mroAfter]
    by_cases h : a = x
    · simp [h]
    · simpa [h] using ih

theorem mroAfter_suffix (x : Nat) : ∀ (l : List Nat), ∃ pre, l = pre ++ mroAfter x l := by
  intro l
  induction l with
  | nil => exact ⟨[], rfl⟩
  | cons a l ih =>
    simp only [mroAfter]
    split
    · exact ⟨[a], rfl⟩
    · obtain ⟨pre, h⟩ := ih
      exact ⟨a :: pre, by rw [List.cons_append, ← h]⟩

/-- the classes after the running one, as the interpreter sees them -/
def afterOf (frm : Option Nat) (o : Nat) (ctx : List Nat) : List Nat :=
  match frm with
  | none => mroAfter o ctx
  | some x => mroAfter x ctx

/-- the resolver's `super()` frame is the interpreter's `super()` callee -/
theorem superFrameAt_dispatch {P : Prog} {r o : Nat} {t : List Nat} (hm : P.superMap = []) (frm : Option Nat) :
    superFrameAt P r (superCtx P frm (o :: t)) =
      (dispatchInit P (afterOf frm o (o :: t))).map (fun x => Frame.init r x.1 x.2.2) := by
  cases frm with
  | none =>
    simp only [superCtx, superFrameAt, afterOf, mroAfter, ↓reduceIte, nextInit_dispatch]
    cases dispatchInit P t <;> rfl
  | some x =>
    simp only [superCtx, afterOf, hm, List.lookup_nil]
    rcases dropTo_mroAfter x (o :: t) with ⟨h1, h2⟩ | h
    · rw [h1, h2]; rfl
    · rw [h]
      simp only [superFrameAt, nextInit_dispatch]
      cases dispatchInit P (mroAfter x (o :: t)) <;> rfl

theorem callee_super {P : Prog} {r o : Nat} {ctx : List Nat} (frm : Option Nat) (k : Nat) (g : List String) :
    callee P (.init r o ctx) (.superCall frm k g) =
      (dispatchInit P (afterOf frm o ctx)).map (fun x => (Frame.init r x.1 x.2.2, x.2.1)) := by
  simp only [callee, afterOf]
  cases frm <;> simp only <;> split <;> simp_all

theorem suffixesOK_suffix {P : Prog} : ∀ {l s : List Nat} (pre : List Nat),
    l = pre ++ s → suffixesOK P l = true → suffixesOK P s = true := by
  intro l s pre
  induction pre generalizing l with
  | nil => intro h hl; simpa [h] using hl
  | cons a pre ih =>
    intro h hl
    subst h
    simp only [List.cons_append, suffixesOK, Bool.and_eq_true] at hl
    exact ih rfl hl.2

/-! ### what a whole-entry call reaches -/

theorem ownInit_of_cls {P : Prog} {i : Nat} {k : Class} (h : P.entries[i]? = some (.cls k)) : P.ownInit i = k.init := by
  simp [Prog.ownInit, Prog.cls?, h]

theorem cls?_of_entry {P : Prog} {i : Nat} {k : Class} (h : P.entries[i]? = some (.cls k)) : P.cls? i = some k := by
  simp [Prog.cls?, h]

/-- the signature the interpreter binds against is the signature of the body the resolver visits -/
theorem entrySig_frameBody {P : Prog} (j : Nat) :
    (entrySig P j = none ∧ frameBody P (.entry j) = none) ∨
    ∃ c' wh', entrySig P j = some c' ∧ frameBody P (.entry j) = some (wh', c') := by
  simp only [entrySig, frameBody]
  cases he : P.entries[j]? with
  | none => exact Or.inl ⟨rfl, rfl⟩
  | some e =>
    cases e with
    | fn c => exact Or.inr ⟨c, .fn, rfl, rfl⟩
    | cls k =>
      simp only [dispatchInit, ownInit_of_cls he]
      cases hk : k.init with
      | some c => exact Or.inr ⟨c, _, rfl, rfl⟩
      | none =>
        simp only [nextInit_dispatch]
        cases hd : dispatchInit P k.mro with
        | none => exact Or.inl ⟨rfl, rfl⟩
        | some x =>
          obtain ⟨d, c, s⟩ := x
          have := (dispatchInit_spec hd).1
          simp only [Option.map_some, this]
          exact Or.inr ⟨c, _, rfl, rfl⟩

theorem calleeEntry_eq {P : Prog} (j : Nat) :
    calleeEntry P j = (entrySig P j).map (fun c' => (Frame.entry j, c')) := by
  simp only [calleeEntry, entrySig]
  cases P.entries[j]? with
  | none => rfl
  | some e =>
    cases e with
    | fn c => rfl
    | cls kk => simp only; cases dispatchInit P (j :: kk.mro) <;> rfl

theorem callee_entry {P : Prog} (wh : Where) (j k : Nat) (g : List String) :
    callee P wh (.call (.entry j) k g) = (entrySig P j).map (fun c' => (Frame.entry j, c')) := by
  simp only [callee, calleeEntry_eq]

theorem callee_attrEntry {P : Prog} (wh : Where) (j k : Nat) (g : List String) :
    callee P wh (.call (.attrEntry j) k g) = (entrySig P j).map (fun c' => (Frame.entry j, c')) := by
  simp only [callee, calleeEntry_eq]

theorem callee_classMeth {P : Prog} (wh : Where) (c j k : Nat) (g : List String) :
    callee P wh (.call (.classMeth c j) k g) = (P.cmeth? c j).map (fun c' => (Frame.cmeth c j, c')) := by
  simp only [callee]
  cases P.cmeth? c j <;> rfl

theorem callee_clsSelf {P : Prog} {o : Nat} {kk : Class} (hk : P.cls? o = some kk) (k : Nat) (g : List String) :
    callee P (.cmeth o) (.call .clsSelf k g) = (entrySig P o).map (fun c' => (Frame.entry o, c')) := by
  simp only [callee, entrySig, hk, cls?_eq hk]
  cases dispatchInit P (o :: kk.mro) <;> rfl

theorem callee_selfMeth {P : Prog} (r o : Nat) (ctx : List Nat) (j k : Nat) (g : List String) :
    callee P (.init r o ctx) (.call (.selfMeth j) k g) = (P.meth? o j).map (fun c' => (Frame.meth o j, c')) := by
  simp only [callee]
  cases P.meth? o j <;> rfl

theorem callableOK_nodup {P : Prog} {site : Site} {self : Nat} {meths : List Callable} {c : Callable}
    (h : callableOK P site self meths c = true) : (names c.params).Nodup := by
  simp only [callableOK, Bool.and_eq_true, nodupNames, decide_eq_true_eq] at h
  exact h.1.1

theorem ownInit_nodup {P : Prog} (hW : WfProg P = true) {d : Nat} {c : Callable} (h : P.ownInit d = some c) :
    (names c.params).Nodup := by
  obtain ⟨k, hk, hki⟩ := ownInit_eq h
  have := wf_entry hW hk
  simp only [entryOK, Bool.and_eq_true, hki] at this
  exact callableOK_nodup this.1.1.1.1.2

theorem entrySig_nodup {P : Prog} (hW : WfProg P = true) {j : Nat} {c : Callable} (h : entrySig P j = some c) :
    (names c.params).Nodup := by
  simp only [entrySig] at h
  cases he : P.entries[j]? with
  | none => simp [he] at h
  | some e =>
    cases e with
    | fn c' =>
      simp only [he, Option.some.injEq] at h
      subst h
      have := wf_entry hW he
      exact callableOK_nodup (by simpa [entryOK] using this)
    | cls k =>
      simp only [he] at h
      cases hd : dispatchInit P (j :: k.mro) with
      | none => simp [hd] at h
      | some x =>
        obtain ⟨d, c', s⟩ := x
        simp only [hd, Option.some.injEq] at h
        subst h
        exact ownInit_nodup hW (dispatchInit_spec hd).1

/-- the shape of what the resolver returns for a frame -/
def shapeOf (P : Prog) (fr : Frame) (R : List Param) : Prop :=
  match frameBody P fr with
  | none => R = []
  | some (_, c') => ∃ ext, R = c'.params ++ ext ∧ ∀ p ∈ ext, p.name ∉ names c'.params

theorem resolveF_shape {P : Prog} {f : Nat} {fr : Frame} {R : List Param} (h : resolveF f P fr = .ok R) : shapeOf P fr R := by
  cases f with
  | zero => simp [resolveF] at h
  | succ f =>
    simp only [resolveF, resolveBody] at h
    unfold shapeOf
    cases hb : frameBody P fr with
    | none => simp only [hb, Out.ok.injEq] at h; exact h.symm
    | some whc =>
      obtain ⟨wh, c⟩ := whc
      simp only [hb] at h
      exact resolveCallable_shape h

/-! ### the callee of the forwarding call, on both sides -/

def goodFrame (P : Prog) : Frame → Prop
  | .entry i => i < P.entries.length
  | .init r o ctx => validFrame P (.init r o ctx) ∧ (∃ t, ctx = o :: t) ∧ suffixesOK P ctx = true
  | .meth o _ => o < P.entries.length
  | .cmeth o _ => o < P.entries.length

theorem goodFrame_valid {P : Prog} {fr : Frame} (h : goodFrame P fr) : validFrame P fr := by
  cases fr with
  | entry i => exact h
  | init r o ctx => exact h.1
  | meth o j => exact h
  | cmeth o j => exact h

/-- what `WfProg` says about a body and the place where both the resolver and the interpreter look at it -/
def WhereFacts (P : Prog) (wh : Where) (c : Callable) : Prop :=
  match wh with
  | .fn => ∃ i, callableOK P .fn i [] c = true
  | .init _ o ctx => ∃ k, P.cls? o = some k ∧ k.init = some c ∧ callableOK P .init o k.meths c = true ∧
      (∃ t, ctx = o :: t) ∧ suffixesOK P ctx = true
  | .meth o => ∃ k, P.cls? o = some k ∧ callableOK P .meth o k.meths c = true
  | .cmeth o => ∃ k, P.cls? o = some k ∧ callableOK P .cmeth o k.meths c = true

/-- the induction hypothesis as the callee lemma consumes it -/
def IHBelow (rec_r : Frame → Out) (rec_a : Frame → String → Bool) (P : Prog) (M : Nat) (n : String) : Prop :=
  ∀ fr', goodFrame P fr' → mu P fr' < M → ∀ R', rec_r fr' = .ok R' →
    (n ∈ names R' ↔ rec_a fr' n = true) ∧ shapeOf P fr' R'

theorem match_of_entry {rec_r : Frame → Out} {rec_a : Frame → String → Bool} {P : Prog} {M : Nat} {n : String}
    (hW : WfProg P = true) (hIH : IHBelow rec_r rec_a P M n)
    {wh : Where} {f : Use} {j : Nat}
    (hsr : subFrame P wh f = some (.entry j))
    (hsa : callee P wh f = (entrySig P j).map (fun c' => (Frame.entry j, c')))
    (hj : j < P.entries.length) (hmu : mu P (.entry j) < M)
    (hpos : ∀ c', entrySig P j = some c' → posOK f.givenPos c' = true) :
    CalleeMatch rec_r rec_a P wh wh f n := by
  rcases entrySig_frameBody (P := P) j with ⟨h1, h2⟩ | ⟨c', wh', h1, h2⟩
  · refine Or.inr (Or.inl ⟨_, hsr, by rw [hsa, h1]; rfl, ?_⟩)
    intro R' hR'
    have := (hIH (.entry j) hj hmu R' hR').2
    simpa [shapeOf, h2] using this
  · refine Or.inr (Or.inr ⟨_, c', hsr, by rw [hsa, h1]; rfl, entrySig_nodup hW h1, hpos c' h1, ?_⟩)
    intro R' hR'
    obtain ⟨hiff, hsh⟩ := hIH (.entry j) hj hmu R' hR'
    refine ⟨hiff, ?_⟩
    simpa [shapeOf, h2] using hsh

theorem calleeMatch_of_facts {rec_r : Frame → Out} {rec_a : Frame → String → Bool} {P : Prog} {M : Nat} {n : String}
    (hW : WfProg P = true) (hIH : IHBelow rec_r rec_a P M n)
    {wh : Where} {c : Callable} (hF : WhereFacts P wh c) (hv : c.varkw = true)
    {f : Use} (hf : f ∈ liveUses c.uses)
    (hsub : ∀ fr', subFrame P wh f = some fr' → validFrame P fr' ∧ mu P fr' < M) :
    CalleeMatch rec_r rec_a P wh wh f n := by
  cases f with
  | pop m d => exact Or.inl ⟨rfl, rfl⟩
  | get m d => exact Or.inl ⟨rfl, rfl⟩
  | popIn m d => exact Or.inl ⟨rfl, rfl⟩
  | call t k g =>
    cases t with
    | entry j =>
      have hsr : subFrame P wh (.call (.entry j) k g) = some (.entry j) := rfl
      obtain ⟨hval, hmu⟩ := hsub _ hsr
      refine match_of_entry hW hIH hsr (callee_entry wh j k g) hval hmu ?_
      intro c' hc'
      -- positional validity is part of `callableOK`
      have hcp : ∃ site self meths, callableOK P site self meths c = true := by
        cases wh with
        | fn => obtain ⟨i, h⟩ := hF; exact ⟨_, _, _, h⟩
        | init r o ctx => obtain ⟨kk, _, _, h, _⟩ := hF; exact ⟨_, _, _, h⟩
        | meth o => obtain ⟨kk, _, h⟩ := hF; exact ⟨_, _, _, h⟩
        | cmeth o => obtain ⟨kk, _, h⟩ := hF; exact ⟨_, _, _, h⟩
      obtain ⟨site, self, meths, hok⟩ := hcp
      simp only [callableOK, Bool.and_eq_true] at hok
      have := List.all_eq_true.1 hok.2 _ hf
      simp only [Bool.and_eq_true, callPosOK, hc'] at this
      exact this.2
    | attrEntry j =>
      have hsr : subFrame P wh (.call (.attrEntry j) k g) = some (.entry j) := rfl
      obtain ⟨hval, hmu⟩ := hsub _ hsr
      refine match_of_entry hW hIH hsr (callee_attrEntry wh j k g) hval hmu ?_
      intro c' hc'
      have hcp : ∃ site self meths, callableOK P site self meths c = true := by
        cases wh with
        | fn => obtain ⟨i, h⟩ := hF; exact ⟨_, _, _, h⟩
        | init r o ctx => obtain ⟨kk, _, _, h, _⟩ := hF; exact ⟨_, _, _, h⟩
        | meth o => obtain ⟨kk, _, h⟩ := hF; exact ⟨_, _, _, h⟩
        | cmeth o => obtain ⟨kk, _, h⟩ := hF; exact ⟨_, _, _, h⟩
      obtain ⟨site, self, meths, hok⟩ := hcp
      simp only [callableOK, Bool.and_eq_true] at hok
      have := List.all_eq_true.1 hok.2 _ hf
      simp only [Bool.and_eq_true, callPosOK, hc'] at this
      exact this.2
    | classMeth cc jj =>
      have hsr : subFrame P wh (.call (.classMeth cc jj) k g) = some (.cmeth cc jj) := rfl
      obtain ⟨hval, hmu⟩ := hsub _ hsr
      have hfb : frameBody P (.cmeth cc jj) = (P.cmeth? cc jj).map (fun c' => (Where.cmeth cc, c')) := by
        simp only [frameBody]; cases P.cmeth? cc jj <;> rfl
      cases hm : P.cmeth? cc jj with
      | none =>
        refine Or.inr (Or.inl ⟨_, hsr, by rw [callee_classMeth, hm]; rfl, ?_⟩)
        intro R' hR'
        have := (hIH (.cmeth cc jj) hval hmu R' hR').2
        simpa [shapeOf, hfb, hm] using this
      | some c' =>
        have hcp : ∃ site self meths, callableOK P site self meths c = true := by
          cases wh with
          | fn => obtain ⟨i, h⟩ := hF; exact ⟨_, _, _, h⟩
          | init r o ctx => obtain ⟨kk, _, _, h, _⟩ := hF; exact ⟨_, _, _, h⟩
          | meth o => obtain ⟨kk, _, h⟩ := hF; exact ⟨_, _, _, h⟩
          | cmeth o => obtain ⟨kk, _, h⟩ := hF; exact ⟨_, _, _, h⟩
        obtain ⟨site, self, meths, hok⟩ := hcp
        simp only [callableOK, Bool.and_eq_true] at hok
        have hpos := List.all_eq_true.1 hok.2 _ hf
        simp only [Bool.and_eq_true, callPosOK, hm] at hpos
        -- the classmethod is a checked callable of class `cc`
        have hm' := hm
        unfold Prog.cmeth? at hm'
        cases hkc : P.cls? cc with
        | none => simp [hkc] at hm'
        | some kc =>
          simp only [hkc] at hm'
          have hwe := wf_entry hW (cls?_eq hkc)
          simp only [entryOK, Bool.and_eq_true] at hwe
          have hc'ok := List.all_eq_true.1 hwe.1.1.2 c' (List.mem_of_getElem? hm')
          refine Or.inr (Or.inr ⟨_, c', hsr, by rw [callee_classMeth, hm]; rfl, callableOK_nodup hc'ok, hpos.2, ?_⟩)
          intro R' hR'
          obtain ⟨hiff, hsh⟩ := hIH (.cmeth cc jj) hval hmu R' hR'
          refine ⟨hiff, ?_⟩
          simpa [shapeOf, hfb, hm] using hsh
    | selfMeth j =>
      cases wh with
      | fn =>
        obtain ⟨i, hok⟩ := hF
        simp only [callableOK, Bool.and_eq_true] at hok
        have := List.all_eq_true.1 hok.2 _ hf
        simp [useOK] at this
      | meth o =>
        obtain ⟨kk, _, hok⟩ := hF
        simp only [callableOK, Bool.and_eq_true] at hok
        have := List.all_eq_true.1 hok.2 _ hf
        simp [useOK] at this
      | cmeth o =>
        obtain ⟨kk, _, hok⟩ := hF
        simp only [callableOK, Bool.and_eq_true] at hok
        have := List.all_eq_true.1 hok.2 _ hf
        simp [useOK] at this
      | init r o ctx =>
        obtain ⟨kk, hk, _, hok, _, _⟩ := hF
        have hsr : subFrame P (.init r o ctx) (.call (.selfMeth j) k g) = some (.meth o j) := rfl
        obtain ⟨hval, hmu⟩ := hsub _ hsr
        have hme : P.meth? o j = kk.meths[j]? := by simp [Prog.meth?, hk]
        have hfb : frameBody P (.meth o j) = (P.meth? o j).map (fun c' => (Where.meth o, c')) := by
          simp only [frameBody]; cases P.meth? o j <;> rfl
        cases hm : P.meth? o j with
        | none =>
          refine Or.inr (Or.inl ⟨_, hsr, by rw [callee_selfMeth, hm]; rfl, ?_⟩)
          intro R' hR'
          have := (hIH (.meth o j) hval hmu R' hR').2
          simpa [shapeOf, hfb, hm] using this
        | some c' =>
          have hwe := wf_entry hW (cls?_eq hk)
          simp only [entryOK, Bool.and_eq_true] at hwe
          have hc'ok := List.all_eq_true.1 hwe.1.1.1.2 c' (List.mem_of_getElem? (hme ▸ hm))
          simp only [callableOK, Bool.and_eq_true] at hok
          have hpos := List.all_eq_true.1 hok.2 _ hf
          simp only [Bool.and_eq_true, callPosOK, ← hme, hm] at hpos
          refine Or.inr (Or.inr ⟨_, c', hsr, by rw [callee_selfMeth, hm]; rfl, callableOK_nodup hc'ok, hpos.2, ?_⟩)
          intro R' hR'
          obtain ⟨hiff, hsh⟩ := hIH (.meth o j) hval hmu R' hR'
          refine ⟨hiff, ?_⟩
          simpa [shapeOf, hfb, hm] using hsh
    | clsSelf =>
      cases wh with
      | fn =>
        obtain ⟨i, hok⟩ := hF
        simp only [callableOK, Bool.and_eq_true] at hok
        have := List.all_eq_true.1 hok.2 _ hf
        simp [useOK] at this
      | meth o =>
        obtain ⟨kk, _, hok⟩ := hF
        simp only [callableOK, Bool.and_eq_true] at hok
        have := List.all_eq_true.1 hok.2 _ hf
        simp [useOK] at this
      | init r o ctx =>
        obtain ⟨kk, _, _, hok, _⟩ := hF
        simp only [callableOK, Bool.and_eq_true] at hok
        have := List.all_eq_true.1 hok.2 _ hf
        simp [useOK] at this
      | cmeth o =>
        obtain ⟨kk, hk, hok⟩ := hF
        have hsr : subFrame P (.cmeth o) (.call .clsSelf k g) = some (.entry o) := rfl
        obtain ⟨hval, hmu⟩ := hsub _ hsr
        refine match_of_entry hW hIH hsr (callee_clsSelf hk k g) hval hmu ?_
        intro c' hc'
        simp only [callableOK, Bool.and_eq_true] at hok
        have := List.all_eq_true.1 hok.2 _ hf
        simp only [Bool.and_eq_true, callPosOK, hc'] at this
        exact this.2
  | superCall frm k g =>
    cases wh with
    | fn => exact Or.inl ⟨rfl, rfl⟩
    | meth o => exact Or.inl ⟨rfl, rfl⟩
    | cmeth o => exact Or.inl ⟨rfl, rfl⟩
    | init r o ctx =>
      obtain ⟨kk, hk, hki, hok, ⟨t, rfl⟩, hsuf⟩ := hF
      have hsr : subFrame P (.init r o (o :: t)) (.superCall frm k g) =
          (dispatchInit P (afterOf frm o (o :: t))).map (fun x => Frame.init r x.1 x.2.2) := by
        simp only [subFrame, superFrame]
        exact superFrameAt_dispatch (WfProg_superMap hW) frm
      have hsa := callee_super (P := P) (r := r) (o := o) (ctx := o :: t) frm k g
      cases hd : dispatchInit P (afterOf frm o (o :: t)) with
      | none => exact Or.inl ⟨by rw [hsr, hd]; rfl, by rw [hsa, hd]; rfl⟩
      | some x =>
        obtain ⟨d, c', s⟩ := x
        obtain ⟨hod, pre, t', hafter, hs⟩ := dispatchInit_spec hd
        have hsr' : subFrame P (.init r o (o :: t)) (.superCall frm k g) = some (.init r d s) := by rw [hsr, hd]; rfl
        obtain ⟨hval, hmu⟩ := hsub _ hsr'
        -- the callee frame is good: it starts at its owner and sits inside the checked context
        have hsufs : suffixesOK P s = true := by
          have h1 : ∃ pre0, (o :: t) = pre0 ++ afterOf frm o (o :: t) := by
            cases frm with
            | none => exact mroAfter_suffix o (o :: t)
            | some x => exact mroAfter_suffix x (o :: t)
          obtain ⟨pre0, h1⟩ := h1
          refine suffixesOK_suffix (pre0 ++ pre) ?_ hsuf
          rw [h1, hafter, hs]
          simp [List.append_assoc]
        have hgood : goodFrame P (.init r d s) := ⟨hval, ⟨t', hs⟩, hsufs⟩
        have hfb : frameBody P (.init r d s) = some (.init r d s, c') := by simp [frameBody, hod]
        -- positionals fit the next `__init__`
        have hpos : posOK k c' = true := by
          have hctx : ctxOK P (o :: t) = true := by
            simp only [suffixesOK, Bool.and_eq_true] at hsuf
            exact hsuf.1
          have hoi : P.ownInit o = some c := by simp [Prog.ownInit, hk, hki]
          simp only [ctxOK, hoi, hv, Bool.not_true, Bool.false_or] at hctx
          have := List.all_eq_true.1 hctx _ hf
          cases frm with
          | none => simp only [afterOf] at hd; simpa [hd] using this
          | some x => simp only [afterOf] at hd; simpa [hd] using this
        refine Or.inr (Or.inr ⟨_, c', hsr', by rw [hsa, hd]; rfl, ownInit_nodup hW hod, hpos, ?_⟩)
        intro R' hR'
        obtain ⟨hiff, hsh⟩ := hIH (.init r d s) hgood hmu R' hR'
        refine ⟨hiff, ?_⟩
        simpa [shapeOf, hfb] using hsh

/-! ### every frame -/

theorem collect_where_congr {rec : Frame → Out} {P : Prog} {wh1 wh2 : Where} :
    ∀ (us : List Use) (a : Acc), (∀ u ∈ us, subFrame P wh1 u = subFrame P wh2 u) →
      collect rec P wh1 us a = collect rec P wh2 us a := by
  intro us
  induction us with
  | nil => intro a _; rfl
  | cons u us ih =>
    intro a h
    have ih' : ∀ a, collect rec P wh1 us a = collect rec P wh2 us a :=
      fun a => ih a (fun u hu => h u (List.mem_cons_of_mem _ hu))
    have hu := h u List.mem_cons_self
    cases u with
    | pop n d => simp only [collect]; exact ih' _
    | get n d => simp only [collect]; exact ih' _
    | popIn n d => simp only [collect]; exact ih' _
    | superCall frm k g =>
      simp only [subFrame] at hu
      simp only [collect, hu, ih']
    | call t k g =>
      simp only [subFrame] at hu
      simp only [collect, hu, ih']

theorem resolveCallable_where_congr {rec : Frame → Out} {P : Prog} {wh1 wh2 : Where} {c : Callable}
    (h : ∀ u ∈ liveUses c.uses, subFrame P wh1 u = subFrame P wh2 u) :
    resolveCallable rec P wh1 c = resolveCallable rec P wh2 c := by
  unfold resolveCallable
  rw [collect_where_congr _ _ h]

theorem whereFacts_ok {P : Prog} {wh : Where} {c : Callable} (hF : WhereFacts P wh c) :
    ∃ site self meths, callableOK P site self meths c = true := by
  cases wh with
  | fn => obtain ⟨i, h⟩ := hF; exact ⟨_, _, _, h⟩
  | init r o ctx => obtain ⟨kk, _, _, h, _⟩ := hF; exact ⟨_, _, _, h⟩
  | meth o => obtain ⟨kk, _, h⟩ := hF; exact ⟨_, _, _, h⟩
  | cmeth o => obtain ⟨kk, _, h⟩ := hF; exact ⟨_, _, _, h⟩

/-- the straight-line decomposition promised by `slOK` -/
theorem slOK_spec {c : Callable} (h : slOK c = true) (hv : c.varkw = true) :
    noBranch c.uses = true ∧ ∃ ps f ns, splitSL (liveUses c.uses) = some (ps, f, ns) ∧ ∀ x ∈ ps ++ ns, x.1 ∉ f.given := by
  simp only [slOK, hv, Bool.not_true, Bool.false_or, Bool.and_eq_true] at h
  refine ⟨h.1, ?_⟩
  cases hs : splitSL (liveUses c.uses) with
  | none => simp [hs] at h
  | some pf =>
    obtain ⟨ps, f, ns⟩ := pf
    refine ⟨ps, f, ns, rfl, ?_⟩
    have := h.2
    simp only [hs] at this
    intro x hx
    simpa using List.all_eq_true.1 this x hx

theorem callableOK_sl {P : Prog} {site : Site} {self : Nat} {meths : List Callable} {c : Callable}
    (h : callableOK P site self meths c = true) : slOK c = true := by
  simp only [callableOK, Bool.and_eq_true] at h
  exact h.1.2

/-- a frame whose body both sides look at from the same place -/
theorem same_where_exact {P : Prog} (hW : WfProg P = true) {fr : Frame} (hg : goodFrame P fr) {n : String}
    {rec_r : Frame → Out} {rec_a : Frame → String → Bool}
    (hIH : IHBelow rec_r rec_a P (mu P fr) n)
    {wh : Where} {c : Callable} (hb : frameBody P fr = some (wh, c)) (hF : WhereFacts P wh c)
    {R : List Param} (hR : resolveCallable rec_r P wh c = .ok R) :
    n ∈ names R ↔ runCallable rec_a P wh c n = true := by
  by_cases hv : c.varkw = true
  · obtain ⟨site, self, meths, hok⟩ := whereFacts_ok hF
    obtain ⟨hnb, ps, f, ns, hsl, hpg⟩ := slOK_spec (callableOK_sl hok) hv
    have hfm : f ∈ liveUses c.uses := by rw [(splitSL_spec hsl).1]; simp
    have hsub : ∀ fr', subFrame P wh f = some fr' → validFrame P fr' ∧ mu P fr' < mu P fr :=
      fun fr' hs => sub_valid (WfProg_acyclic hW) (goodFrame_valid hg) hb hfm hs
    exact callable_exact hv hnb hsl hpg (calleeMatch_of_facts hW hIH hF hv hfm hsub) hR
  · have hv' : c.varkw = false := by cases h : c.varkw <;> simp_all
    simp only [resolveCallable, hv', Bool.not_false, ↓reduceIte, Out.ok.injEq] at hR
    subst hR
    simp [runCallable, hv']

def Stmt (P : Prog) (fr : Frame) (n : String) : Prop :=
  ∀ f₁ f₂, mu P fr < f₁ → mu P fr < f₂ → ∀ R, resolveF f₁ P fr = .ok R →
    (n ∈ names R ↔ acceptsF f₂ P fr n = true)

theorem names_drop_sub {ps : List Param} {k : Nat} {n : String} (h : n ∈ names (ps.drop k)) : n ∈ names ps := by
  obtain ⟨p, hp, rfl⟩ := mem_names.1 h
  exact mem_names.2 ⟨p, List.mem_of_mem_drop hp, rfl⟩

theorem frame_exact {P : Prog} (hW : WfProg P = true) (n : String) :
    ∀ (m : Nat) (fr : Frame), mu P fr < m → goodFrame P fr → Stmt P fr n := by
  intro m
  induction m with
  | zero => intro fr h; omega
  | succ m IH =>
    intro fr hmu hg f₁ f₂ h1 h2 R hR
    have hWd := width_pos P
    cases f₁ with
    | zero => omega
    | succ f₁' =>
    cases f₂ with
    | zero => omega
    | succ f₂' =>
    have hIH : IHBelow (resolveF f₁' P) (acceptsF f₂' P) P (mu P fr) n :=
      fun fr' hg' hmu' R' hR' =>
        ⟨IH fr' (by omega) hg' f₁' f₂' (by omega) (by omega) R' hR', resolveF_shape hR'⟩
    simp only [resolveF, resolveBody] at hR
    simp only [acceptsF]
    cases fr with
    | init r o ctx =>
      simp only [frameBody] at hR
      simp only [acceptsBody]
      cases ho : P.ownInit o with
      | none =>
        simp only [ho, Out.ok.injEq] at hR
        subst hR
        simp [names]
      | some c =>
        simp only [ho] at hR
        obtain ⟨k, hk, hki⟩ := ownInit_eq ho
        have hwe := wf_entry hW hk
        simp only [entryOK, Bool.and_eq_true, hki] at hwe
        refine same_where_exact hW hg hIH (by simp [frameBody, ho]) ?_ hR
        exact ⟨k, cls?_of_entry hk, hki, hwe.1.1.1.1.2, hg.2.1, hg.2.2⟩
    | meth o j =>
      simp only [frameBody] at hR
      simp only [acceptsBody]
      cases hm : P.meth? o j with
      | none =>
        simp only [hm, Out.ok.injEq] at hR
        subst hR
        simp [names]
      | some c =>
        simp only [hm] at hR
        have hm' := hm
        unfold Prog.meth? at hm'
        cases hk : P.cls? o with
        | none => simp [hk] at hm'
        | some k =>
          simp only [hk] at hm'
          have hwe := wf_entry hW (cls?_eq hk)
          simp only [entryOK, Bool.and_eq_true] at hwe
          refine same_where_exact hW hg hIH (by simp [frameBody, hm]) ?_ hR
          exact ⟨k, hk, List.all_eq_true.1 hwe.1.1.1.2 c (List.mem_of_getElem? hm')⟩
    | cmeth o j =>
      simp only [frameBody] at hR
      simp only [acceptsBody]
      cases hm : P.cmeth? o j with
      | none =>
        simp only [hm, Out.ok.injEq] at hR
        subst hR
        simp [names]
      | some c =>
        simp only [hm] at hR
        have hm' := hm
        unfold Prog.cmeth? at hm'
        cases hk : P.cls? o with
        | none => simp [hk] at hm'
        | some k =>
          simp only [hk] at hm'
          have hwe := wf_entry hW (cls?_eq hk)
          simp only [entryOK, Bool.and_eq_true] at hwe
          refine same_where_exact hW hg hIH (by simp [frameBody, hm]) ?_ hR
          exact ⟨k, hk, List.all_eq_true.1 hwe.1.1.2 c (List.mem_of_getElem? hm')⟩
    | entry i =>
      simp only [acceptsBody]
      cases he : P.entries[i]? with
      | none =>
        simp only [frameBody, he, Out.ok.injEq] at hR
        subst hR
        simp [names]
      | some e =>
        cases e with
        | fn c =>
          simp only [frameBody, he] at hR
          have hwe := wf_entry hW he
          simp only [entryOK] at hwe
          exact same_where_exact hW hg hIH (wh := .fn) (c := c) (by simp [frameBody, he]) (show WhereFacts P .fn c from ⟨i, hwe⟩) hR
        | cls k =>
          have hwe := wf_entry hW he
          simp only [entryOK, Bool.and_eq_true] at hwe
          obtain ⟨⟨⟨⟨⟨hmro, hinit⟩, _⟩, _⟩, hsuf⟩, hnoinit⟩ := hwe
          have hmro' : ∀ x ∈ k.mro, x < i := fun x hx => by simpa using List.all_eq_true.1 hmro x hx
          have hlen := maxMro_ge he
          have hoi := ownInit_of_cls he
          simp only [dispatchInit, hoi]
          cases hki : k.init with
          | some c =>
            -- own `__init__`: the same body as the frame `init i i (i :: mro)`
            simp only
            have hgood : goodFrame P (.init i i (i :: k.mro)) := by
              refine ⟨⟨hg, Nat.le_refl _, by simp only [List.length_cons]; omega, ?_⟩, ⟨_, rfl⟩, hsuf⟩
              intro x hx
              simp only [List.mem_cons] at hx
              rcases hx with rfl | hx
              · exact Nat.le_refl _
              · exact Nat.le_of_lt (hmro' x hx)
            have hmu' : mu P (.init i i (i :: k.mro)) < mu P (.entry i) := by
              simp only [mu, List.length_cons, Prog.width] at *; omega
            have hR' : resolveF (f₁' + 1) P (.init i i (i :: k.mro)) = .ok R := by
              simp only [resolveF, resolveBody, frameBody, hoi, hki]
              simpa [frameBody, he, hki] using hR
            exact IH _ (by omega) hgood (f₁' + 1) f₂' (by omega) (by omega) R hR'
          | none =>
            simp only
            cases hd : dispatchInit P k.mro with
            | none =>
              simp only [frameBody, he, hki, nextInit_dispatch, hd, Option.map_none, Out.ok.injEq] at hR
              subst hR
              simp [names]
            | some x =>
              obtain ⟨d, c, s⟩ := x
              obtain ⟨hod, pre, t, hmroeq, hs⟩ := dispatchInit_spec hd
              simp only
              have hdm : d ∈ k.mro := by rw [hmroeq]; simp
              have hgood : goodFrame P (.init i d s) := by
                refine ⟨⟨hg, Nat.le_of_lt (hmro' d hdm), ?_, ?_⟩, ⟨t, hs⟩, ?_⟩
                · have : s.length ≤ k.mro.length := by rw [hmroeq, hs]; simp
                  omega
                · intro x hx
                  apply Nat.le_of_lt
                  apply hmro'
                  rw [hmroeq, ← hs]
                  exact List.mem_append_right _ hx
                · refine suffixesOK_suffix (i :: pre) ?_ hsuf
                  rw [hmroeq, hs]; rfl
              have hmu' : mu P (.init i d s) < mu P (.entry i) := by
                have : s.length ≤ k.mro.length := by rw [hmroeq, hs]; simp
                simp only [mu, Prog.width] at *; omega
              have hfbD : frameBody P (.init i d s) = some (.init i d s, c) := by simp [frameBody, hod]
              have hstD := IH (.init i d s) (by omega) hgood
              -- the body the resolver visits: `d.__init__` seen from MRO index 0
              simp only [frameBody, he, hki, nextInit_dispatch, hd, Option.map_some, hod] at hR
              by_cases hv : c.varkw = true
              · obtain ⟨kd, hkd, hkdi⟩ := ownInit_eq hod
                have hwed := wf_entry hW hkd
                simp only [entryOK, Bool.and_eq_true, hkdi] at hwed
                have hokd := hwed.1.1.1.1.2
                obtain ⟨hnb, ps, f, ns, hsl, hpg⟩ := slOK_spec (callableOK_sl hokd) hv
                obtain ⟨hus, hfw⟩ := splitSL_spec hsl
                have hfm : f ∈ liveUses c.uses := by rw [hus]; simp
                cases f with
                | pop a b => cases hfw
                | get a b => cases hfw
                | popIn a b => cases hfw
                | call tt kk gg =>
                  -- not a `super()` call: the place does not matter
                  have hcongr : resolveCallable (resolveF f₁' P) P (.init i d (i :: k.mro)) c =
                      resolveCallable (resolveF f₁' P) P (.init i d s) c := by
                    apply resolveCallable_where_congr
                    intro u hu
                    rw [hus] at hu
                    rcases List.mem_append.1 hu with hu | hu
                    · obtain ⟨x, _, rfl⟩ := List.mem_map.1 hu
                      rfl
                    · rcases List.mem_cons.1 hu with hu | hu
                      · subst hu
                        cases tt <;> rfl
                      · obtain ⟨x, _, rfl⟩ := List.mem_map.1 hu
                        rfl
                  have hR' : resolveF (f₁' + 1) P (.init i d s) = .ok R := by
                    simp only [resolveF, resolveBody, hfbD]
                    rw [← hcongr]; exact hR
                  exact hstD (f₁' + 1) f₂' (by omega) (by omega) R hR'
                | superCall frm kk gg =>
                  -- `super()` seen from index 0 resolves `d` itself; its hard-coded arguments are removed twice
                  have hni : frm.isNone = true ∧ kk ≤ c.params.length := by
                    simp only [noInitOK, hki, hd, hv, Bool.not_true, Bool.false_or] at hnoinit
                    have := List.all_eq_true.1 hnoinit _ hfm
                    simpa using this
                  obtain ⟨hfrm, hkk⟩ := hni
                  have hfrm' : frm = none := by cases frm <;> simp_all
                  subst hfrm'
                  obtain ⟨RD, hsubO, hnamesO⟩ := resolve_side hv hsl hpg hR
                  have hsfO : subFrame P (.init i d (i :: k.mro)) (.superCall none kk gg) = some (.init i d s) := by
                    simp only [subFrame, superFrame, superCtx, superFrameAt, nextInit_dispatch, hd, Option.map_some]
                  rcases hsubO with ⟨h0, _⟩ | ⟨fr0, h0, hRD⟩
                  · rw [hsfO] at h0; cases h0
                  · rw [hsfO] at h0
                    simp only [Option.some.injEq] at h0
                    subst h0
                    -- the inner visit of `d.__init__`
                    have hiffD := hstD f₁' f₂' (by omega) (by omega) RD hRD
                    rw [← hiffD]
                    have hshape := resolveF_shape hRD
                    simp only [shapeOf, hfbD] at hshape
                    obtain ⟨ext, hRDeq, hext⟩ := hshape
                    cases f₁' with
                    | zero => simp [resolveF] at hRD
                    | succ f₁'' =>
                      simp only [resolveF, resolveBody, hfbD] at hRD
                      obtain ⟨R2, _, hnamesD⟩ := resolve_side hv hsl hpg hRD
                      rw [hnamesO n, hnamesD n]
                      simp only [Use.givenPos, Use.given]
                      constructor
                      · rintro (h | h | ⟨h, hng⟩)
                        · exact Or.inl h
                        · exact Or.inr (Or.inl h)
                        · have := (hnamesD n).1 (names_drop_sub h)
                          simpa [Use.givenPos, Use.given] using this
                      · rintro (h | h | ⟨h, hng⟩)
                        · exact Or.inl h
                        · exact Or.inr (Or.inl h)
                        · have hin : n ∈ names RD := (hnamesD n).2 (Or.inr (Or.inr ⟨h, hng⟩))
                          rw [hRDeq, names_append, List.mem_append] at hin
                          rcases hin with hin | hin
                          · exact Or.inl hin
                          · refine Or.inr (Or.inr ⟨?_, hng⟩)
                            rw [hRDeq, List.drop_append_of_le_length hkk, names_append]
                            exact List.mem_append_right _ hin
              · have hv' : c.varkw = false := by cases h : c.varkw <;> simp_all
                have hR' : resolveF (f₁' + 1) P (.init i d s) = .ok R := by
                  simp only [resolveF, resolveBody, hfbD]
                  simpa [resolveCallable, hv'] using hR
                exact hstD (f₁' + 1) f₂' (by omega) (by omega) R hR'

end Jap.Resolver

import Jap.Core.Cli
/-!
Helper lemmas for C12 (model `Jap.Cli`): element-wise maps, association-list lookups, the pops of
`_run_component` on the namespace shapes produced by `parseComp`, and the central fact
`bind_of_fill_pyBind`: parsing a signature's parser and then calling with `**cfg` binds exactly `bind sig given`.
-/
namespace Jap.Cli

/-! ### mapE / mapO -/

theorem mapE_congr_mapO {ε α β : Type} (f : α → Except ε β) (g : α → Option β) :
    ∀ (l : List α) (bs : List β), (∀ a ∈ l, ∀ b, f a = .ok b → g a = some b) → mapE f l = .ok bs → mapO g l = some bs
  | [], bs, _, h => by simp [mapE] at h; subst h; rfl
  | a :: r, bs, hp, h => by
    simp only [mapE] at h
    cases hf : f a with
    | error e => simp [hf] at h
    | ok b =>
      simp only [hf] at h
      cases hr : mapE f r with
      | error e => simp [hr] at h
      | ok bs' =>
        simp only [hr] at h
        have hb : bs = b :: bs' := by cases h; rfl
        subst hb
        have h1 := hp a (by simp) b hf
        have h2 := mapE_congr_mapO f g r bs' (fun a' ha' => hp a' (by simp [ha'])) hr
        simp [mapO, h1, h2]

theorem mapE_mem {ε α β : Type} (f : α → Except ε β) :
    ∀ (l : List α) (bs : List β), mapE f l = .ok bs → ∀ a ∈ l, ∃ b, f a = .ok b ∧ b ∈ bs
  | [], _, _, a, ha => by cases ha
  | x :: r, bs, h, a, ha => by
    simp only [mapE] at h
    cases hf : f x with
    | error e => simp [hf] at h
    | ok b =>
      simp only [hf] at h
      cases hr : mapE f r with
      | error e => simp [hr] at h
      | ok bs' =>
        simp only [hr] at h
        have hb : bs = b :: bs' := by cases h; rfl
        subst hb
        rcases List.mem_cons.mp ha with rfl | ha'
        · exact ⟨b, hf, by simp⟩
        · obtain ⟨b', h1, h2⟩ := mapE_mem f r bs' hr a ha'
          exact ⟨b', h1, by simp [h2]⟩

/-- the outputs, projected by `key`, are the inputs projected by `name`, when `f` preserves the name -/
theorem mapE_keys {ε α : Type} (f : α → Except ε (String × Val)) (name : α → String)
    (hf : ∀ a b, f a = .ok b → b.1 = name a) :
    ∀ (l : List α) (bs : KV), mapE f l = .ok bs → bs.map (·.1) = l.map name
  | [], bs, h => by simp [mapE] at h; subst h; rfl
  | x :: r, bs, h => by
    simp only [mapE] at h
    cases hx : f x with
    | error e => simp [hx] at h
    | ok b =>
      simp only [hx] at h
      cases hr : mapE f r with
      | error e => simp [hr] at h
      | ok bs' =>
        simp only [hr] at h
        have hb : bs = b :: bs' := by cases h; rfl
        subst hb
        simp [hf x b hx, mapE_keys f name hf r bs' hr]

theorem mapE_error_of_mem {ε α β : Type} (f : α → Except ε β) :
    ∀ (l : List α) (a : α) (e : ε), a ∈ l → f a = .error e → ∃ e', mapE f l = .error e'
  | [], _, _, ha, _ => by cases ha
  | x :: r, a, e, ha, he => by
    simp only [mapE]
    cases hx : f x with
    | error e' => exact ⟨e', rfl⟩
    | ok b =>
      rcases List.mem_cons.mp ha with rfl | ha'
      · rw [hx] at he; cases he
      · obtain ⟨e', h'⟩ := mapE_error_of_mem f r a e ha' he
        exact ⟨e', by simp [h']⟩

/-! ### lookups -/

theorem lookup_top (k : String) : ∀ kv : KV, lookup [k] (topEntries kv) = lookup k kv
  | [] => rfl
  | (k', v) :: r => by
    have ih := lookup_top k r
    simp only [topEntries, List.map_cons, lookup] at ih ⊢
    by_cases h : k' = k
    · simp [h]
    · simp [h, ih]

theorem lookup_none_of_not_mem {α : Type} [DecidableEq α] (k : α) :
    ∀ l : List (α × Val), k ∉ l.map (·.1) → lookup k l = .none
  | [], _ => rfl
  | (k', v) :: r, h => by
    simp only [List.map_cons, List.mem_cons, not_or] at h
    simp only [lookup]
    rw [if_neg (fun e => h.1 e.symm)]
    exact lookup_none_of_not_mem k r h.2

theorem mem_keys_of_lookup {α : Type} [DecidableEq α] (k : α) (v : Val) :
    ∀ l : List (α × Val), lookup k l = some v → k ∈ l.map (·.1)
  | [], h => by simp [lookup] at h
  | (k', v') :: r, h => by
    simp only [lookup] at h
    by_cases hk : k' = k
    · simp [hk]
    · rw [if_neg hk] at h
      simp [mem_keys_of_lookup k v r h]

theorem lookup_of_mem_nodup {α : Type} [DecidableEq α] (k : α) (v : Val) :
    ∀ l : List (α × Val), (l.map (·.1)).Nodup → (k, v) ∈ l → lookup k l = some v
  | [], _, h => by cases h
  | (k', v') :: r, hn, h => by
    simp only [List.map_cons, List.nodup_cons] at hn
    simp only [lookup]
    rcases List.mem_cons.mp h with h | h
    · cases h; simp
    · have : k ∈ r.map (·.1) := List.mem_map.mpr ⟨(k, v), h, rfl⟩
      have hne : k' ≠ k := fun e => hn.1 (e ▸ this)
      rw [if_neg hne]
      exact lookup_of_mem_nodup k v r hn.2 h

theorem lookup_append {α : Type} [DecidableEq α] (k : α) (l1 l2 : List (α × Val)) :
    lookup k (l1 ++ l2) = (lookup k l1).or (lookup k l2) := by
  induction l1 with
  | nil => simp [lookup]
  | cons e r ih =>
    obtain ⟨k', v⟩ := e
    simp only [List.cons_append, lookup]
    by_cases h : k' = k
    · simp [h]
    · simp [h, ih]

/-! ### pops on top-level entries -/

theorem dropKey_top (k : String) (kv : KV) (h : k ∉ kv.map (·.1)) : dropKey k (topEntries kv) = topEntries kv := by
  unfold dropKey
  apply List.filter_eq_self.mpr
  intro e he
  simp only [topEntries, List.mem_map] at he
  obtain ⟨x, hx, rfl⟩ := he
  have : x.1 ≠ k := fun e => h (List.mem_map.mpr ⟨x, hx, e⟩)
  simp [this]

theorem dropKey_append (k : String) (a b : Cfg) : dropKey k (a ++ b) = dropKey k a ++ dropKey k b := by
  simp [dropKey]

theorem subCfg_append (k : String) (a b : Cfg) : subCfg k (a ++ b) = subCfg k a ++ subCfg k b := by
  simp [subCfg]

theorem subCfg_top (k : String) (kv : KV) : subCfg k (topEntries kv) = [] := by
  induction kv with
  | nil => rfl
  | cons e r ih =>
    simp only [subCfg, topEntries, List.map_cons, List.filterMap_cons] at ih ⊢
    simpa using ih

theorem subCfg_under (k : String) : ∀ kv : KV, subCfg k (under [k] (topEntries kv)) = topEntries kv
  | [] => rfl
  | e :: r => by
    have ih := subCfg_under k r
    simp only [subCfg, under, topEntries, List.map_cons, List.filterMap_cons] at ih ⊢
    simp only [List.cons_append, List.nil_append, beq_self_eq_true, List.isEmpty_cons, Bool.not_false, Bool.and_self,
      if_true]
    simp only [List.cons_append, List.nil_append] at ih
    rw [ih]

theorem dropKey_under_same (k : String) : ∀ c : Cfg, dropKey k (under [k] c) = []
  | [] => rfl
  | e :: r => by
    have ih := dropKey_under_same k r
    simp only [dropKey, under, List.map_cons, List.filter_cons] at ih ⊢
    simp only [List.cons_append, List.nil_append, List.head?_cons, bne_self_eq_false, Bool.false_eq_true, if_false]
    simp only [List.cons_append, List.nil_append] at ih
    exact ih

theorem dropKey_under_other (k m : String) (c : Cfg) (h : m ≠ k) : dropKey k (under [m] c) = under [m] c := by
  unfold dropKey
  apply List.filter_eq_self.mpr
  intro e he
  simp only [under, List.mem_map] at he
  obtain ⟨x, _, rfl⟩ := he
  simp [h]

theorem dropKey_nil (k : String) : dropKey k [] = [] := rfl

theorem dropKey_single_eq (k : String) (t : Key) (v : Val) : dropKey k [(k :: t, v)] = [] := by simp [dropKey]

theorem dropKey_single_ne (k h : String) (t : Key) (v : Val) (hne : h ≠ k) :
    dropKey k [(h :: t, v)] = [(h :: t, v)] := by simp [dropKey, hne]

theorem subCfg_nil (k : String) : subCfg k [] = [] := rfl

theorem subCfg_single_top (k h : String) (v : Val) : subCfg k [([h], v)] = [] := by simp [subCfg]

theorem subCfg_single_sub (k a : String) (t : Key) (v : Val) : subCfg k [(k :: a :: t, v)] = [(a :: t, v)] := by
  simp [subCfg]

/-- `_run_component` on a function: pop `config`, pop `subcommand`, call -/
theorem runComponent_func (body : Body) (f : String) (sig : Sig) (cfg : Cfg) :
    runComponent body (.func f sig) cfg =
      match pyBind sig (dropKey "subcommand" (dropKey "config" cfg)) with
      | .error e => .error e
      | .ok a => .ok { calls := [⟨.func f, a⟩], ret := body (.func f) a } := by
  simp only [runComponent]
  rfl

/-- `_run_component` on the namespace shape that `parse_args` returns for a class with a chosen method -/
theorem runComponent_cls (body : Body) (c : String) (init : Sig) (methods : List Method)
    (vals sub : KV) (m : String) (C S : Cfg)
    (hC : C = [] ∨ ∃ cT, C = [(["config"], cT)])
    (hS : S = [] ∨ ∃ c2, S = [([m, "config"], c2)])
    (hc : "config" ∉ vals.map (·.1)) (hs : "subcommand" ∉ vals.map (·.1)) (hmv : m ∉ vals.map (·.1))
    (hmc : m ≠ "config") (hms : m ≠ "subcommand") (hsc : "config" ∉ sub.map (·.1)) :
    runComponent body (.cls c init methods)
        (C ++ topEntries vals ++ [(["subcommand"], Val.tok m)] ++ (S ++ under [m] (topEntries sub)))
      = match pyBind init (topEntries vals) with
        | .error e => .error e
        | .ok a1 =>
          match methods.find? (fun md => md.name == m) with
          | .none => .error .crash
          | some md =>
            match pyBind md.sig (topEntries sub) with
            | .error _ => .error (.typeErrorAfter ⟨.init c, a1⟩)
            | .ok a2 => .ok { calls := [⟨.init c, a1⟩, ⟨.method c m, a2⟩], ret := body (.method c m) a2 } := by
  have hS1 : dropKey "config" S = S := by
    rcases hS with rfl | ⟨c2, rfl⟩
    · rfl
    · exact dropKey_single_ne _ _ _ _ hmc
  have hS2 : dropKey "subcommand" S = S := by
    rcases hS with rfl | ⟨c2, rfl⟩
    · rfl
    · exact dropKey_single_ne _ _ _ _ hms
  have hS3 : dropKey m S = [] := by
    rcases hS with rfl | ⟨c2, rfl⟩
    · rfl
    · exact dropKey_single_eq _ _ _
  have hS4 : dropKey "config" (subCfg m S) = [] := by
    rcases hS with rfl | ⟨c2, rfl⟩
    · rfl
    · rw [subCfg_single_sub]; exact dropKey_single_eq _ _ _
  have hS5 : lookup ["subcommand"] (S ++ under [m] (topEntries sub)) = .none := by
    apply lookup_none_of_not_mem
    intro hmem
    obtain ⟨e, he, hek⟩ := List.mem_map.mp hmem
    rcases List.mem_append.mp he with he | he
    · rcases hS with rfl | ⟨c2, rfl⟩
      · cases he
      · simp only [List.mem_singleton] at he; subst he; simp at hek
    · simp only [under, List.mem_map] at he
      obtain ⟨x, _, rfl⟩ := he
      simp only [List.cons_append, List.nil_append] at hek
      have := List.head_eq_of_cons_eq hek
      exact hms this
  have hC1 : dropKey "config" C = [] := by
    rcases hC with rfl | ⟨cT, rfl⟩
    · rfl
    · exact dropKey_single_eq _ _ _
  have h1 : dropKey "config"
      (C ++ topEntries vals ++ [(["subcommand"], Val.tok m)] ++ (S ++ under [m] (topEntries sub)))
      = topEntries vals ++ [(["subcommand"], Val.tok m)] ++ (S ++ under [m] (topEntries sub)) := by
    simp only [dropKey_append, dropKey_top _ _ hc, hC1, hS1, dropKey_under_other _ _ _ hmc,
      dropKey_single_ne "config" "subcommand" [] _ (by decide), List.nil_append]
  have h2 : lookup ["subcommand"]
      (topEntries vals ++ [(["subcommand"], Val.tok m)] ++ (S ++ under [m] (topEntries sub))) = some (Val.tok m) := by
    rw [List.append_assoc, lookup_append, lookup_top, lookup_none_of_not_mem _ _ hs]
    simp [lookup]
  have h3 : dropKey "subcommand"
      (topEntries vals ++ [(["subcommand"], Val.tok m)] ++ (S ++ under [m] (topEntries sub)))
      = topEntries vals ++ (S ++ under [m] (topEntries sub)) := by
    simp only [dropKey_append, dropKey_top _ _ hs, dropKey_single_eq, hS2, dropKey_under_other _ _ _ hms,
      List.append_nil]
  have h4 : subCfg m (topEntries vals ++ (S ++ under [m] (topEntries sub))) = subCfg m S ++ topEntries sub := by
    simp only [subCfg_append, subCfg_top, subCfg_under, List.nil_append]
  have h5 : dropKey m (topEntries vals ++ (S ++ under [m] (topEntries sub))) = topEntries vals := by
    simp only [dropKey_append, dropKey_top _ _ hmv, hS3, dropKey_under_same, List.append_nil]
  have h6 : dropKey "config" (subCfg m S ++ topEntries sub) = topEntries sub := by
    simp only [dropKey_append, hS4, dropKey_top _ _ hsc, List.nil_append]
  simp only [runComponent, h1, h2, h3, h4, h5, h6]
  rfl

/-! ### the parser of a signature -/

theorem parser_dests (asPos : Bool) (sig : Sig) :
    (parserOfSig asPos sig).map (·.dest) = (sig.filter (fun p => !skipped p)).map (·.name) := by
  simp [parserOfSig, argOfParam, List.map_map, Function.comp_def]

theorem fillArg_key (given : KV) (a : Arg) (b : String × Val) (h : fillArg given a = .ok b) : b.1 = a.dest := by
  unfold fillArg at h
  split at h
  · cases h; rfl
  · split at h
    · cases h; rfl
    · cases h

/-- `fill` succeeded: the keys are the names of the visible parameters; every given key is one of them -/
theorem fill_ok (asPos : Bool) (sig : Sig) (given vals : KV) (h : fill (parserOfSig asPos sig) given = .ok vals) :
    mapE (fillArg given) (parserOfSig asPos sig) = .ok vals
    ∧ vals.map (·.1) = (sig.filter (fun p => !skipped p)).map (·.name)
    ∧ ∀ k ∈ given.map (·.1), k ∈ (sig.filter (fun p => !skipped p)).map (·.name) := by
  unfold fill at h
  split at h
  · cases h
  · rename_i hany
    refine ⟨h, ?_, ?_⟩
    · rw [← parser_dests asPos sig]
      exact mapE_keys (fillArg given) (·.dest) (fillArg_key given) _ _ h
    · intro k hk
      rw [← parser_dests asPos sig]
      obtain ⟨g, hg, rfl⟩ := List.mem_map.mp hk
      simp only [List.any_eq_true, Bool.not_eq_true', not_exists, not_and, Bool.not_eq_false] at hany
      have := hany g hg
      simp only [beq_iff_eq] at this
      obtain ⟨a, ha, hd⟩ := this
      exact List.mem_map.mpr ⟨a, ha, hd⟩

theorem nodup_filter_names (sig : Sig) (q : Param → Bool) (hd : (sig.map (·.name)).Nodup) :
    ((sig.filter q).map (·.name)).Nodup :=
  List.Nodup.sublist (List.Sublist.map _ List.filter_sublist) hd

theorem eq_of_name_eq (sig : Sig) (hd : (sig.map (·.name)).Nodup) (p q : Param) (hp : p ∈ sig) (hq : q ∈ sig)
    (h : p.name = q.name) : p = q := by
  induction sig with
  | nil => cases hp
  | cons x r ih =>
    simp only [List.map_cons, List.nodup_cons] at hd
    rcases List.mem_cons.mp hp with rfl | hp' <;> rcases List.mem_cons.mp hq with rfl | hq'
    · rfl
    · exact absurd (List.mem_map.mpr ⟨q, hq', h.symm⟩) hd.1
    · exact absurd (List.mem_map.mpr ⟨p, hp', h⟩) hd.1
    · exact ih hd.2 hp' hq'

/-- the central fact: parse the parser of `sig`, then call with `**cfg` — the callee's bindings are `bind sig given` -/
theorem bind_of_fill_pyBind (asPos : Bool) (sig : Sig) (given vals a : KV)
    (hd : distinctNames sig = true)
    (hf : fill (parserOfSig asPos sig) given = .ok vals)
    (hb : pyBind sig (topEntries vals) = .ok a) :
    bind sig given = some a := by
  have hd' : (sig.map (·.name)).Nodup := by simpa [distinctNames] using hd
  obtain ⟨hm, hkeys, hgiven⟩ := fill_ok asPos sig given vals hf
  have hvn : (vals.map (·.1)).Nodup := hkeys ▸ nodup_filter_names sig _ hd'
  unfold pyBind at hb
  split at hb
  · cases hb
  · unfold bind
    refine mapE_congr_mapO _ _ _ _ ?_ hb
    intro p hp b hpb
    have hps : p ∈ sig := (List.mem_filter.mp hp).1
    unfold bindOne at hpb
    rw [lookup_top] at hpb
    unfold bindParam
    by_cases hs : skipped p = true
    · -- not offered by the parser: Python supplies the default
      have hnot : p.name ∉ vals.map (·.1) := by
        rw [hkeys]
        intro hmem
        obtain ⟨q, hq, hqn⟩ := List.mem_map.mp hmem
        have hq' := List.mem_filter.mp hq
        have : q = p := eq_of_name_eq sig hd' q p hq'.1 hps hqn
        subst this
        simp [hs] at hq'
      rw [lookup_none_of_not_mem _ _ hnot] at hpb
      have hg : lookup p.name given = .none := by
        cases hl : lookup p.name given with
        | none => rfl
        | some v =>
          exfalso
          have := hgiven _ (mem_keys_of_lookup _ _ _ hl)
          rw [← hkeys] at this
          exact hnot this
      rw [hg]
      cases hdf : p.dflt with
      | none => simp [hdf] at hpb
      | some d =>
        simp only [hdf] at hpb
        cases hpb
        simp [effDefault, hdf]
    · -- offered: the parsed value
      have hs' : skipped p = false := by simpa using hs
      have hpa : argOfParam asPos p ∈ parserOfSig asPos sig :=
        List.mem_map.mpr ⟨p, List.mem_filter.mpr ⟨hps, by simp [hs']⟩, rfl⟩
      obtain ⟨e, he, hev⟩ := mapE_mem _ _ _ hm _ hpa
      have hek : e.1 = p.name := fillArg_key _ _ _ he
      obtain ⟨k, v⟩ := e
      simp only at hek
      subst hek
      rw [lookup_of_mem_nodup _ v vals hvn hev] at hpb
      simp only at hpb
      cases hpb
      unfold fillArg at he
      simp only [argOfParam] at he
      cases hl : lookup p.name given with
      | some w => simp only [hl] at he; cases he; rfl
      | none =>
        simp only [hl] at he
        cases hde : effDefault p with
        | none => simp [hde] at he
        | some d => simp only [hde] at he; cases he; rfl

/-- a visible parameter without default that is not given makes the parse fail -/
theorem fill_required (asPos : Bool) (sig : Sig) (given : KV) (p : Param) (hp : p ∈ sig)
    (hv : isVar p = false) (hr : effDefault p = .none) (hg : lookup p.name given = .none) :
    ∃ e, fill (parserOfSig asPos sig) given = .error e := by
  unfold fill
  split
  · exact ⟨_, rfl⟩
  · have hs : skipped p = false := by simp [skipped, hv, isRequired, hr]
    have hpa : argOfParam asPos p ∈ parserOfSig asPos sig :=
      List.mem_map.mpr ⟨p, List.mem_filter.mpr ⟨hp, by simp [hs]⟩, rfl⟩
    have : fillArg given (argOfParam asPos p) = .error .parse := by
      simp [fillArg, argOfParam, hg, hr]
    exact mapE_error_of_mem _ _ _ _ hpa this

theorem names_of_noReserved (sig : Sig) (h : noReserved sig = true) (q : Param → Bool) (k : String)
    (hk : k ∈ reservedNames) : k ∉ (sig.filter q).map (·.name) := by
  intro hm
  obtain ⟨p, hp, rfl⟩ := List.mem_map.mp hm
  have hp' := (List.mem_filter.mp hp).1
  simp only [noReserved, List.all_eq_true, Bool.not_eq_true', List.contains_eq_mem, decide_eq_false_iff_not] at h
  exact h p hp' hk

theorem mem_of_mapO {α β : Type} (f : α → Option β) :
    ∀ (l : List α) (bs : List β), mapO f l = some bs → ∀ a ∈ l, ∃ b, f a = some b ∧ b ∈ bs
  | [], _, _, a, ha => by cases ha
  | x :: r, bs, h, a, ha => by
    simp only [mapO] at h
    cases hf : f x with
    | none => simp [hf] at h
    | some b =>
      simp only [hf] at h
      cases hr : mapO f r with
      | none => simp [hr] at h
      | some bs' =>
        simp only [hr] at h
        have hb : bs = b :: bs' := by cases h; rfl
        subst hb
        rcases List.mem_cons.mp ha with rfl | ha'
        · exact ⟨b, hf, by simp⟩
        · obtain ⟨b', h1, h2⟩ := mem_of_mapO f r bs' hr a ha'
          exact ⟨b', h1, by simp [h2]⟩

theorem mapE_ok_of_forall {ε α β : Type} (f : α → Except ε β) :
    ∀ (l : List α), (∀ a ∈ l, ∃ b, f a = .ok b) → ∃ bs, mapE f l = .ok bs
  | [], _ => ⟨[], rfl⟩
  | x :: r, h => by
    obtain ⟨b, hb⟩ := h x (by simp)
    obtain ⟨bs, hbs⟩ := mapE_ok_of_forall f r (fun a ha => h a (by simp [ha]))
    exact ⟨b :: bs, by simp [mapE, hb, hbs]⟩

/-- PROGRESS for one signature: when only offered parameters are given, every required one is given, and no parameter is
    one of the finding classes, the parse succeeds and the call binds -/
theorem fill_pyBind_ok (asPos : Bool) (sig : Sig) (given : KV)
    (hd : distinctNames sig = true)
    (hgiven : ∀ k ∈ given.map (·.1), k ∈ (sig.filter (fun p => !skipped p)).map (·.name))
    (hreq : ∀ p ∈ sig, isVar p = false → effDefault p = .none → (lookup p.name given).isSome = true)
    (hpriv : ∀ p ∈ sig, skipped p = true → isVar p = false → p.dflt.isSome = true) :
    ∃ vals a, fill (parserOfSig asPos sig) given = .ok vals ∧ pyBind sig (topEntries vals) = .ok a := by
  have hd' : (sig.map (·.name)).Nodup := by simpa [distinctNames] using hd
  -- the parse
  have hfillArgs : ∃ vals, mapE (fillArg given) (parserOfSig asPos sig) = .ok vals := by
    apply mapE_ok_of_forall
    intro a ha
    obtain ⟨p, hp, rfl⟩ := List.mem_map.mp ha
    obtain ⟨hps, hns⟩ := List.mem_filter.mp hp
    have hns' : skipped p = false := by simpa using hns
    have hv : isVar p = false := by
      simp only [skipped, Bool.or_eq_false_iff] at hns'
      exact hns'.1
    simp only [fillArg, argOfParam]
    cases hl : lookup p.name given with
    | some v => exact ⟨_, rfl⟩
    | none =>
      cases hde : effDefault p with
      | some d => exact ⟨_, rfl⟩
      | none =>
        have := hreq p hps hv hde
        simp [hl] at this
  obtain ⟨vals, hvals⟩ := hfillArgs
  have hfill : fill (parserOfSig asPos sig) given = .ok vals := by
    unfold fill
    split
    · rename_i hany
      exfalso
      simp only [List.any_eq_true, Bool.not_eq_true'] at hany
      obtain ⟨e, he, hno⟩ := hany
      have := hgiven e.1 (List.mem_map.mpr ⟨e, he, rfl⟩)
      rw [← parser_dests asPos sig] at this
      obtain ⟨a, ha, had⟩ := List.mem_map.mp this
      simp only [List.any_eq_false, beq_iff_eq] at hno
      exact hno a ha had
    · exact hvals
  obtain ⟨_, hkeys, _⟩ := fill_ok asPos sig given vals hfill
  have hvn : (vals.map (·.1)).Nodup := hkeys ▸ nodup_filter_names sig _ hd'
  refine ⟨vals, ?_⟩
  -- the call
  have hacc : (!hasVarKw sig && (topEntries vals).any (fun e => !acceptsKw sig e.1)) = false := by
    simp only [Bool.and_eq_false_imp, Bool.not_eq_true', List.any_eq_false, Bool.not_eq_true, Bool.not_eq_false']
    intro _ e he
    simp only [topEntries, List.mem_map] at he
    obtain ⟨x, hx, rfl⟩ := he
    have : x.1 ∈ vals.map (·.1) := List.mem_map.mpr ⟨x, hx, rfl⟩
    rw [hkeys] at this
    obtain ⟨p, hp, hpn⟩ := List.mem_map.mp this
    obtain ⟨hps, hns⟩ := List.mem_filter.mp hp
    have hns' : skipped p = false := by simpa using hns
    have hv : isVar p = false := by
      simp only [skipped, Bool.or_eq_false_iff] at hns'
      exact hns'.1
    simp only [acceptsKw]
    intro hfalse
    simp only [List.any_eq_false] at hfalse
    have := hfalse p hps
    simp [hv, hpn] at this
  have hbinds : ∃ a, mapE (bindOne (topEntries vals)) (sig.filter (fun p => !isVar p)) = .ok a := by
    apply mapE_ok_of_forall
    intro p hp
    obtain ⟨hps, hnv⟩ := List.mem_filter.mp hp
    have hv : isVar p = false := by simpa using hnv
    simp only [bindOne, lookup_top]
    cases hl : lookup p.name vals with
    | some v => exact ⟨_, rfl⟩
    | none =>
      cases hdf : p.dflt with
      | some d => exact ⟨_, rfl⟩
      | none =>
        exfalso
        by_cases hs : skipped p = true
        · have := hpriv p hps hs hv
          simp [hdf] at this
        · have hmem : p.name ∈ vals.map (·.1) := by
            rw [hkeys]
            exact List.mem_map.mpr ⟨p, List.mem_filter.mpr ⟨hps, by simpa using hs⟩, rfl⟩
          obtain ⟨e, he, hek⟩ := List.mem_map.mp hmem
          have := lookup_of_mem_nodup e.1 e.2 vals hvn he
          rw [hek, hl] at this
          cases this
  obtain ⟨a, ha⟩ := hbinds
  exact ⟨a, hfill, by simp only [pyBind, hacc, Bool.false_eq_true, if_false, ha]⟩

/-- a method's own reserved name: `subcommand_cfg.pop("config", None)` -/
def noConfigParam (sig : Sig) : Bool := sig.all (fun p => p.name != "config")

theorem dropKey_config_opt (c : Bool) (v : Val) : dropKey "config" (if c then [(["config"], v)] else []) = [] := by
  split
  · exact dropKey_single_eq _ _ _
  · rfl

/-! ### parse + run of one component, for the root parser and for a subcommand's parser alike -/

theorem run_func (body : Body) (asPos root : Bool) (f : String) (sig : Sig) (g : Given) (cfg : Cfg) (r : Run)
    (hd : distinctNames sig = true) (hr : noReserved sig = true)
    (hp : parseComp asPos root (.func f sig) g = .ok cfg)
    (h : runComponent body (.func f sig) cfg = .ok r) :
    ∃ args, bind sig g.top = some args ∧ r.calls = [⟨.func f, args⟩] ∧ r.ret = body (.func f) args := by
  simp only [parseComp] at hp
  split at hp
  · cases hp
  · split at hp
    · cases hp
    · rename_i vals hf
      cases hp
      obtain ⟨_, hkeys, _⟩ := fill_ok asPos sig g.top vals hf
      have hc : "config" ∉ vals.map (·.1) := hkeys ▸ names_of_noReserved sig hr _ "config" (by decide)
      have hs : "subcommand" ∉ vals.map (·.1) := hkeys ▸ names_of_noReserved sig hr _ "subcommand" (by decide)
      rw [runComponent_func] at h
      rw [dropKey_append, dropKey_config_opt, List.nil_append, dropKey_top _ _ hc, dropKey_top _ _ hs] at h
      split at h
      · cases h
      · rename_i a hb
        cases h
        exact ⟨a, bind_of_fill_pyBind asPos sig g.top vals a hd hf hb, rfl, rfl⟩

theorem run_cls_plain (body : Body) (asPos root : Bool) (c : String) (init : Sig) (g : Given) (cfg : Cfg) (r : Run)
    (hd : distinctNames init = true) (hr : noReserved init = true)
    (hp : parseComp asPos root (.cls c init []) g = .ok cfg)
    (h : runComponent body (.cls c init []) cfg = .ok r) :
    ∃ args, bind init g.top = some args ∧ r.calls = [⟨.init c, args⟩] ∧ r.ret = body (.init c) args := by
  simp only [parseComp] at hp
  split at hp
  · cases hp
  · split at hp
    · cases hp
    · rename_i vals hf
      cases hp
      obtain ⟨_, hkeys, _⟩ := fill_ok asPos init g.top vals hf
      have hc : "config" ∉ vals.map (·.1) := hkeys ▸ names_of_noReserved init hr _ "config" (by decide)
      have hs : "subcommand" ∉ vals.map (·.1) := hkeys ▸ names_of_noReserved init hr _ "subcommand" (by decide)
      simp only [runComponent] at h
      rw [dropKey_append, dropKey_config_opt, List.nil_append, dropKey_top _ _ hc, lookup_top,
        lookup_none_of_not_mem _ _ hs, dropKey_top _ _ hs] at h
      simp only at h
      split at h
      · cases h
      · rename_i a hb
        cases h
        exact ⟨a, bind_of_fill_pyBind asPos init g.top vals a hd hf hb, rfl, rfl⟩

theorem run_cls (body : Body) (asPos root : Bool) (c : String) (init : Sig) (m0 : Method) (ms : List Method)
    (g : Given) (cfg : Cfg) (r : Run)
    (hd : distinctNames init = true) (hr : noReserved init = true)
    (hdm : ∀ md ∈ m0 :: ms, distinctNames md.sig = true) (hrm : ∀ md ∈ m0 :: ms, noConfigParam md.sig = true)
    (hmn : ∀ md ∈ m0 :: ms, md.name ≠ "config")
    (hp : parseComp asPos root (.cls c init (m0 :: ms)) g = .ok cfg)
    (h : runComponent body (.cls c init (m0 :: ms)) cfg = .ok r) :
    ∃ m md a1 a2, g.method = some m ∧ md ∈ m0 :: ms ∧ md.name = m
      ∧ bind init g.top = some a1 ∧ bind md.sig g.sub = some a2
      ∧ r.calls = [⟨.init c, a1⟩, ⟨.method c m, a2⟩] ∧ r.ret = body (.method c m) a2 := by
  simp only [parseComp] at hp
  split at hp
  · cases hp
  split at hp
  · cases hp
  split at hp
  · cases hp
  rename_i hnosub
  split at hp
  · cases hp
  rename_i m hm
  split at hp
  · cases hp
  rename_i md hfind
  split at hp
  · cases hp
  rename_i vals hf
  split at hp
  · cases hp
  rename_i hcrash
  split at hp
  · cases hp
  rename_i sub hfs
  cases hp
  have hmdmem : md ∈ m0 :: ms := List.mem_of_find?_eq_some hfind
  have hmdname : md.name = m := by simpa using List.find?_some hfind
  obtain ⟨_, hkeys, _⟩ := fill_ok asPos init g.top vals hf
  obtain ⟨_, hskeys, _⟩ := fill_ok asPos md.sig g.sub sub hfs
  have hc : "config" ∉ vals.map (·.1) := hkeys ▸ names_of_noReserved init hr _ "config" (by decide)
  have hs : "subcommand" ∉ vals.map (·.1) := hkeys ▸ names_of_noReserved init hr _ "subcommand" (by decide)
  have hmc : m ≠ "config" := hmdname ▸ hmn md hmdmem
  have hmnv : m ∉ vals.map (·.1) := by
    intro hmem
    obtain ⟨e, he, hek⟩ := List.mem_map.mp hmem
    simp only [Bool.or_eq_true, List.any_eq_true, beq_iff_eq, not_or, not_exists, not_and] at hcrash
    exact hcrash.1 e he hek
  have hms : m ≠ "subcommand" := by
    intro e
    subst e
    simp only [List.any_eq_true, beq_iff_eq, not_exists, not_and] at hnosub
    exact hnosub md hmdmem hmdname
  have hsc : "config" ∉ sub.map (·.1) := by
    rw [hskeys]
    intro hmem
    obtain ⟨p, hp', hpn⟩ := List.mem_map.mp hmem
    have := hrm md hmdmem
    simp only [noConfigParam, List.all_eq_true, bne_iff_ne, ne_eq] at this
    exact this p (List.mem_filter.mp hp').1 hpn
  have hfilter : vals.filter (fun e => e.1 != "subcommand") = vals := by
    apply List.filter_eq_self.mpr
    intro e he
    have : e.1 ≠ "subcommand" := fun h' => hs (List.mem_map.mpr ⟨e, he, h'⟩)
    simp [this]
  have hS : ((if (!(md.sig.any fun p => p.name == "config") && !(parserOfSig asPos md.sig).isEmpty) = true
        then [([m, "config"], g.cfgSub)] else []) : Cfg) = [] ∨
      ∃ c2, ((if (!(md.sig.any fun p => p.name == "config") && !(parserOfSig asPos md.sig).isEmpty) = true
        then [([m, "config"], g.cfgSub)] else []) : Cfg) = [([m, "config"], c2)] := by
    split
    · exact Or.inr ⟨_, rfl⟩
    · exact Or.inl rfl
  have hC : ∀ b : Bool, ((if b = true then [(["config"], g.cfgTop)] else []) : Cfg) = [] ∨
      ∃ cT, ((if b = true then [(["config"], g.cfgTop)] else []) : Cfg) = [(["config"], cT)] := by
    intro b
    split
    · exact Or.inr ⟨_, rfl⟩
    · exact Or.inl rfl
  simp only [hfilter] at h
  rw [runComponent_cls body c init (m0 :: ms) vals sub m _ _ (hC _) hS hc hs hmnv hmc hms hsc] at h
  simp only [hfind] at h
  split at h
  · cases h
  rename_i a1 hb1
  split at h
  · cases h
  rename_i a2 hb2
  cases h
  exact ⟨m, md, a1, a2, hm, hmdmem, hmdname, bind_of_fill_pyBind asPos init g.top vals a1 hd hf hb1,
    bind_of_fill_pyBind asPos md.sig g.sub sub a2 (hdm md hmdmem) hfs hb2, rfl, rfl⟩

/-! ### dicts of components: the chain of `subcommand` keys leads `auto_cli` to the selected component -/

/-- no key is empty or a proper prefix of another key (`dict_to_namespace` of a nested dict) -/
def wellKeyed (comps : Comps) : Bool :=
  comps.all (fun a => !a.1.isEmpty && comps.all (fun b => !(a.1.isPrefixOf b.1 && a.1.length < b.1.length)))

theorem mem_of_lookupComp (k : Key) (c : Comp) : ∀ comps : Comps, lookupComp k comps = some c → (k, c) ∈ comps
  | [], h => by simp [lookupComp] at h
  | (k', c') :: r, h => by
    simp only [lookupComp] at h
    split at h
    · rename_i hk
      cases h
      rw [hk]
      exact List.mem_cons_self
    · exact List.mem_cons_of_mem _ (mem_of_lookupComp k c r h)

theorem chain_key_len : ∀ (path pre : Key) (e : Key × Val), e ∈ chainEntries pre path →
    e.1.length ≤ pre.length + path.length
  | [], _, e, h => by cases h
  | s :: rest, pre, e, h => by
    simp only [chainEntries, List.mem_cons] at h
    rcases h with rfl | rfl | h
    · simp
    · simp
    · have := chain_key_len rest (pre ++ [s]) e h
      simp at this ⊢
      omega

theorem chain_length : ∀ (path pre : Key), (chainEntries pre path).length = 2 * path.length
  | [], _ => rfl
  | s :: rest, pre => by
    simp only [chainEntries, List.length_cons, chain_length rest (pre ++ [s])]
    omega

theorem lookup_chain_long (K : Key) (pre path : Key) (h : pre.length + path.length < K.length) :
    lookup K (chainEntries pre path) = .none := by
  apply lookup_none_of_not_mem
  intro hm
  obtain ⟨e, he, rfl⟩ := List.mem_map.mp hm
  have := chain_key_len path pre e he
  omega

/-- inside the chain, the `subcommand` key below `p0 ++ q ++ [s]` names the next element of the path -/
theorem lookup_chain_step : ∀ (q p0 : Key) (s t : String) (post : Key) (U : Cfg),
    lookup (p0 ++ q ++ [s, "subcommand"]) (chainEntries p0 (q ++ s :: t :: post) ++ U) = some (Val.tok t)
  | [], p0, s, t, post, U => by
    simp only [List.append_nil, List.nil_append, chainEntries, List.cons_append, lookup]
    have e1 : ¬ (p0 ++ ["config"] = p0 ++ [s, "subcommand"]) := by
      intro h; have := List.append_cancel_left h; simp at this
    have e2 : ¬ (p0 ++ ["subcommand"] = p0 ++ [s, "subcommand"]) := by
      intro h; have := List.append_cancel_left h; simp at this
    have e3 : ¬ (p0 ++ [s] ++ ["config"] = p0 ++ [s, "subcommand"]) := by
      intro h
      rw [List.append_assoc] at h
      have := List.append_cancel_left h
      simp at this
    have e4 : p0 ++ [s] ++ ["subcommand"] = p0 ++ [s, "subcommand"] := by simp
    rw [if_neg e1, if_neg e2, if_neg e3, if_pos e4]
  | x :: q, p0, s, t, post, U => by
    simp only [List.cons_append, chainEntries, lookup]
    have e1 : ¬ (p0 ++ ["config"] = p0 ++ (x :: (q ++ [s, "subcommand"]))) := by
      intro h
      have := congrArg List.length (List.append_cancel_left h)
      simp at this
    have e2 : ¬ (p0 ++ ["subcommand"] = p0 ++ (x :: (q ++ [s, "subcommand"]))) := by
      intro h
      have := congrArg List.length (List.append_cancel_left h)
      simp at this
    have key : p0 ++ x :: q ++ [s, "subcommand"] = p0 ++ (x :: (q ++ [s, "subcommand"])) := by simp
    rw [key, if_neg e1, if_neg e2]
    have ih := lookup_chain_step q (p0 ++ [x]) s t post U
    have key2 : p0 ++ [x] ++ q ++ [s, "subcommand"] = p0 ++ (x :: (q ++ [s, "subcommand"])) := by simp
    rw [key2] at ih
    exact ih

theorem lookup_under (pre k : Key) : ∀ c : Cfg, lookup (pre ++ k) (under pre c) = lookup k c
  | [] => rfl
  | (k', v) :: r => by
    have ih := lookup_under pre k r
    simp only [under, List.map_cons, lookup] at ih ⊢
    by_cases h : k' = k
    · simp [h]
    · have : ¬ (pre ++ k' = pre ++ k) := fun e => h (List.append_cancel_left e)
      rw [if_neg h, if_neg this]
      exact ih

theorem isPrefixOf_append_self (a b : Key) : a.isPrefixOf (a ++ b) = true := by
  induction a with
  | nil => simp [List.isPrefixOf]
  | cons x r ih => simp [List.isPrefixOf, ih]

theorem subAt_chain (path : Key) : subAt path (chainEntries [] path) = [] := by
  unfold subAt
  apply List.filterMap_eq_nil_iff.mpr
  intro e he
  have := chain_key_len path [] e he
  simp only [List.length_nil, Nat.zero_add] at this
  have : ¬ (e.1.length > path.length) := by omega
  simp [this]

theorem subAt_under (path : Key) : ∀ c : Cfg, (∀ e ∈ c, e.1 ≠ []) → subAt path (under path c) = c
  | [], _ => rfl
  | (k, v) :: r, h => by
    have ih := subAt_under path r (fun e he => h e (List.mem_cons_of_mem _ he))
    have hk : k ≠ [] := h (k, v) List.mem_cons_self
    simp only [subAt, under, List.map_cons, List.filterMap_cons] at ih ⊢
    have h1 : path.isPrefixOf (path ++ k) = true := isPrefixOf_append_self path k
    have h2 : (path ++ k).length > path.length := by
      cases k with
      | nil => exact absurd rfl hk
      | cons x t => simp
    simp only [h1, h2, decide_true, Bool.and_self, if_true, List.drop_left]
    rw [ih]

theorem isPrefixOf_iff_append (a b : Key) : a.isPrefixOf b = true ↔ ∃ t, b = a ++ t := by
  induction a generalizing b with
  | nil => simp [List.isPrefixOf]
  | cons x r ih =>
    cases b with
    | nil => simp [List.isPrefixOf]
    | cons y s =>
      simp only [List.isPrefixOf, Bool.and_eq_true, beq_iff_eq, List.cons_append, List.cons.injEq]
      constructor
      · rintro ⟨rfl, h⟩
        obtain ⟨t, rfl⟩ := (ih s).mp h
        exact ⟨t, rfl, rfl⟩
      · rintro ⟨t, rfl, rfl⟩
        exact ⟨rfl, (ih _).mpr ⟨t, rfl⟩⟩

/-- the `while` loop of `auto_cli` walks down the chain and stops at the selected component -/
theorem resolve_chain (comps : Comps) (path : Key) (comp : Comp) (U : Cfg)
    (hmem : (path, comp) ∈ comps)
    (hfin : ∀ m, lookup (path ++ ["subcommand"]) (chainEntries [] path ++ U) = some (Val.tok m) →
      inComps comps (path ++ [m]) = false) :
    ∀ (post pre : Key) (s : String) (fuel : Nat), pre ++ s :: post = path → post.length ≤ fuel →
      resolve comps (chainEntries [] path ++ U) fuel (pre ++ [s]) = path
  | [], pre, s, fuel, hp, _ => by
    have hcur : pre ++ [s] = path := hp
    cases fuel with
    | zero => simp [resolve, hcur]
    | succ n =>
      simp only [resolve, hcur]
      split
      · rename_i m hl
        rw [hfin m hl]
        simp
      · rfl
  | t :: post, pre, s, fuel, hp, hf => by
    cases fuel with
    | zero => simp at hf
    | succ n =>
      have hl : lookup (pre ++ [s] ++ ["subcommand"]) (chainEntries [] path ++ U) = some (Val.tok t) := by
        have := lookup_chain_step pre [] s t post U
        simp only [List.nil_append] at this
        rw [hp] at this
        simpa using this
      have hin : inComps comps (pre ++ [s] ++ [t]) = true := by
        simp only [inComps, List.any_eq_true]
        refine ⟨(path, comp), hmem, ?_⟩
        simp only
        rw [isPrefixOf_iff_append]
        exact ⟨post, by rw [← hp]; simp⟩
      simp only [resolve, hl, hin, if_true]
      have := resolve_chain comps path comp U hmem hfin post (pre ++ [s]) t n (by rw [← hp]; simp)
        (by simp at hf; omega)
      simpa using this

/-- every key of the namespace of one component is non-empty -/
theorem parseComp_keys_nonempty (asPos root : Bool) (comp : Comp) (g : Given) (c : Cfg)
    (h : parseComp asPos root comp g = .ok c) : ∀ e ∈ c, e.1 ≠ [] := by
  intro e he
  cases comp with
  | func f sig =>
    simp only [parseComp] at h
    split at h
    · cases h
    · split at h
      · cases h
      · cases h
        rcases List.mem_append.mp he with he | he
        · split at he
          · simp only [List.mem_singleton] at he; subst he; simp
          · cases he
        · simp only [topEntries, List.mem_map] at he
          obtain ⟨x, _, rfl⟩ := he
          simp
  | cls cn init ms =>
    cases ms with
    | nil =>
      simp only [parseComp] at h
      split at h
      · cases h
      · split at h
        · cases h
        · cases h
          rcases List.mem_append.mp he with he | he
          · split at he
            · simp only [List.mem_singleton] at he; subst he; simp
            · cases he
          · simp only [topEntries, List.mem_map] at he
            obtain ⟨x, _, rfl⟩ := he
            simp
    | cons m0 ms =>
      simp only [parseComp] at h
      split at h
      · cases h
      split at h
      · cases h
      split at h
      · cases h
      split at h
      · cases h
      split at h
      · cases h
      split at h
      · cases h
      split at h
      · cases h
      split at h
      · cases h
      cases h
      simp only [List.mem_append, List.mem_singleton] at he
      rcases he with ((he | he) | he) | he | he
      · split at he
        · simp only [List.mem_singleton] at he; subst he; simp
        · cases he
      · simp only [topEntries, List.mem_map] at he
        obtain ⟨x, _, rfl⟩ := he
        simp
      · subst he; simp
      · split at he
        · simp only [List.mem_singleton] at he; subst he; simp
        · cases he
      · simp only [under, topEntries, List.mem_map] at he
        obtain ⟨x, _, rfl⟩ := he
        simp

/-- DISPATCH: with a dict (or list) of components `auto_cli` runs exactly the component selected by the subcommand
    chain, on exactly the namespace its own parser produced -/
theorem dispatch (body : Body) (asPos : Bool) (comps : Comps) (path : Key) (g : Given) (cfg : Cfg)
    (hwk : wellKeyed comps = true) (hp : parseTree asPos comps path g = .ok cfg) :
    ∃ comp c, lookupComp path comps = some comp ∧ parseComp asPos false comp g = .ok c
      ∧ autoCliTree body asPos comps path g = runComponent body comp c := by
  have hp0 := hp
  unfold parseTree at hp
  split at hp
  · cases hp
  split at hp
  · cases hp
  rename_i comp hlk
  split at hp
  · cases hp
  rename_i c hpc
  cases hp
  refine ⟨comp, c, hlk, hpc, ?_⟩
  have hmem := mem_of_lookupComp path comp comps hlk
  have hwk' := hwk
  simp only [wellKeyed, List.all_eq_true, Bool.and_eq_true, Bool.not_eq_true', Bool.and_eq_false_imp] at hwk'
  obtain ⟨hne, hpf⟩ := hwk' (path, comp) hmem
  obtain ⟨s0, rest, hpath⟩ : ∃ s0 rest, path = s0 :: rest := by
    cases path with
    | nil => simp at hne
    | cons a b => exact ⟨a, b, rfl⟩
  subst hpath
  have hkeys := parseComp_keys_nonempty asPos false comp g c hpc
  have hsub : subAt (s0 :: rest) (chainEntries [] (s0 :: rest) ++ under (s0 :: rest) c) = c := by
    have h1 := subAt_chain (s0 :: rest)
    have h2 := subAt_under (s0 :: rest) c hkeys
    simp only [subAt, List.filterMap_append] at h1 h2 ⊢
    rw [h1, h2, List.nil_append]
  have hfin : ∀ m, lookup ((s0 :: rest) ++ ["subcommand"]) (chainEntries [] (s0 :: rest) ++ under (s0 :: rest) c)
      = some (Val.tok m) → inComps comps ((s0 :: rest) ++ [m]) = false := by
    intro m _
    simp only [inComps, List.any_eq_false]
    intro e he hpre
    obtain ⟨t, ht⟩ := (isPrefixOf_iff_append _ _).mp hpre
    have h1 : (s0 :: rest).isPrefixOf e.1 = true :=
      (isPrefixOf_iff_append _ _).mpr ⟨[m] ++ t, by rw [ht]; simp⟩
    have h2 : (s0 :: rest).length < e.1.length := by rw [ht]; simp
    have := hpf e he h1
    simp only [decide_eq_false_iff_not] at this
    exact this h2
  have hres := resolve_chain comps (s0 :: rest) comp (under (s0 :: rest) c) hmem hfin rest [] s0
    (chainEntries [] (s0 :: rest) ++ under (s0 :: rest) c).length rfl (by
      simp only [List.length_append, chain_length, List.length_cons]
      omega)
  simp only [List.nil_append] at hres
  have hl0 : lookup ["subcommand"] (chainEntries [] (s0 :: rest) ++ under (s0 :: rest) c) = some (Val.tok s0) := by
    simp [chainEntries, lookup]
  simp only [autoCliTree, hp0, hl0, hres, hlk, hsub]

end Jap.Cli

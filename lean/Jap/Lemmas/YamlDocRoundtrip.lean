/-
C01, whole documents: composition.  `loadDoc (emitDoc v) = v`.
-/
import Jap.Lemmas.YamlDocLine
import Jap.Lemmas.YamlDocParse

namespace Jap.Scalar

theorem linesOK_append (a b : List Line) : linesOK (a ++ b) = (linesOK a && linesOK b) := by
  induction a with
  | nil => rfl
  | cons l ls ih => simp [linesOK, ih, Bool.and_assoc]

mutual
theorem linesOK_node : ∀ (v : V) (n d : Nat), VOK v = true → linesOK (linesNode n d v) = true
  | .sc s, n, d, h => by simpa [linesNode, linesOK, bodyOK, atomOK, VOK] using h
  | .list .nil, n, d, _ => by simp [linesNode, linesOK, bodyOK, atomOK]
  | .dict .nil, n, d, _ => by simp [linesNode, linesOK, bodyOK, atomOK]
  | .list (.cons x xs), n, d, h => by
    simp only [VOK, VLOK, Bool.and_eq_true] at h
    simp [linesNode, linesOK_append, linesOK_node x n (d + 1) h.1, linesOK_seq xs (n + 2 * d) h.2]
  | .dict (.cons k v r), n, d, h => by
    simp only [VOK, KVLOK, Bool.and_eq_true] at h
    simp [linesNode, linesOK_append, linesOK_entry v n d k h.1.1 h.1.2, linesOK_map r (n + 2 * d) h.2]
theorem linesOK_seq : ∀ (xs : VL) (c : Nat), VLOK xs = true → linesOK (linesSeq c xs) = true
  | .nil, c, _ => by simp [linesSeq, linesOK]
  | .cons x xs, c, h => by
    simp only [VLOK, Bool.and_eq_true] at h
    simp [linesSeq, linesOK_append, linesOK_node x c 1 h.1, linesOK_seq xs c h.2]
theorem linesOK_map : ∀ (kvs : KVL) (c : Nat), KVLOK kvs = true → linesOK (linesMap c kvs) = true
  | .nil, c, _ => by simp [linesMap, linesOK]
  | .cons k v r, c, h => by
    simp only [KVLOK, Bool.and_eq_true] at h
    simp [linesMap, linesOK_append, linesOK_entry v c 0 k h.1.1 h.1.2, linesOK_map r c h.2]
theorem linesOK_entry : ∀ (v : V) (n d : Nat) (k : Sc), ScOK k = true → VOK v = true → linesOK (linesEntry n d k v) = true
  | .sc s, n, d, k, hk, h => by
    simp only [VOK] at h
    simp [linesEntry, linesOK, bodyOK, atomOK, hk, h]
  | .list .nil, n, d, k, hk, _ => by simp [linesEntry, linesOK, bodyOK, atomOK, hk]
  | .dict .nil, n, d, k, hk, _ => by simp [linesEntry, linesOK, bodyOK, atomOK, hk]
  | .list (.cons x xs), n, d, k, hk, h => by
    simp only [VOK, VLOK, Bool.and_eq_true] at h
    simp [linesEntry, linesOK, bodyOK, hk, linesOK_append, linesOK_node x (n + 2 * d) 1 h.1, linesOK_seq xs (n + 2 * d) h.2]
  | .dict (.cons k' v' r'), n, d, k, hk, h => by
    simp only [VOK, KVLOK, Bool.and_eq_true] at h
    simp [linesEntry, linesOK, bodyOK, hk, linesOK_append, linesOK_entry v' (n + 2 * d + 2) 0 k' h.1.1 h.1.2,
      linesOK_map r' (n + 2 * d + 2) h.2]
end

theorem bareAtom_key (n d : Nat) (k : Sc) (i : Option Atom) : bareAtom ⟨n, d, .key k i⟩ = false := by
  cases d <;> rfl

theorem bareAtom_succ (n d : Nat) (b : Body) : bareAtom ⟨n, d + 1, b⟩ = false := rfl

mutual
theorem bare_node : ∀ (v : V) (n d : Nat), (linesNode n (d + 1) v).any bareAtom = false
  | .sc s, n, d => by simp [linesNode, bareAtom_succ]
  | .list .nil, n, d => by simp [linesNode, bareAtom_succ]
  | .dict .nil, n, d => by simp [linesNode, bareAtom_succ]
  | .list (.cons x xs), n, d => by
    simp only [linesNode, List.any_append, bare_node x n (d + 1), bare_seq xs, Bool.or_self]
  | .dict (.cons k v r), n, d => by
    simp only [linesNode, List.any_append, bare_entry v n (d + 1) k, bare_map r, Bool.or_self]
theorem bare_seq : ∀ (xs : VL) (c : Nat), (linesSeq c xs).any bareAtom = false
  | .nil, c => by simp [linesSeq]
  | .cons x xs, c => by simp only [linesSeq, List.any_append, bare_node x c 0, bare_seq xs, Bool.or_self]
theorem bare_map : ∀ (kvs : KVL) (c : Nat), (linesMap c kvs).any bareAtom = false
  | .nil, c => by simp [linesMap]
  | .cons k v r, c => by simp only [linesMap, List.any_append, bare_entry v c 0 k, bare_map r, Bool.or_self]
theorem bare_entry : ∀ (v : V) (n d : Nat) (k : Sc), (linesEntry n d k v).any bareAtom = false
  | .sc s, n, d, k => by simp [linesEntry, bareAtom_key]
  | .list .nil, n, d, k => by simp [linesEntry, bareAtom_key]
  | .dict .nil, n, d, k => by simp [linesEntry, bareAtom_key]
  | .list (.cons x xs), n, d, k => by
    simp only [linesEntry, List.any_cons, List.any_append, bareAtom_key, bare_node x (n + 2 * d) 0, bare_seq xs, Bool.or_self]
  | .dict (.cons k' v' r'), n, d, k => by
    simp only [linesEntry, List.any_cons, List.any_append, bareAtom_key, bare_entry v' _ 0 k', bare_map r', Bool.or_self]
end

/-- the structural layer: the lines of a collection are read back as the collection -/
theorem loadLines_linesNode (v : V) (hv : ∀ s, v ≠ .sc s) : loadLines (linesNode 0 0 v) = some v := by
  have main : ∀ v : V, (linesNode 0 0 v).any bareAtom = false → loadLines (linesNode 0 0 v) = some v := by
    intro v hb
    have ht : docToks (linesNode 0 0 v) = toksNode 0 v := by simpa [dashToks] using docToks_linesNode v 0 0
    have hp := pNode_toks v 0 0 (3 * (toksNode 0 v).length + 3) [] (Nat.le_refl _) (by have := szV_node v 0; omega) rfl
    simp only [List.append_nil] at hp
    simp [loadLines, hb, ht, hp]
  match v, hv with
  | .sc s, hv => exact absurd rfl (hv s)
  | .list .nil, _ => rfl
  | .dict .nil, _ => rfl
  | .list (.cons x xs), _ =>
    apply main
    simp only [linesNode, List.any_append, bare_node x 0 0, bare_seq xs, Bool.or_self]
  | .dict (.cons k v r), _ =>
    apply main
    simp only [linesNode, List.any_append, bare_entry v 0 0 k, bare_map r, Bool.or_self]

/-- the whole document -/
theorem loadDoc_emitDoc (v : V) (t : List Char) (hok : VOK v = true) (h : emitDoc v = some t) : loadDoc t = some v := by
  have hv : ∀ s, v ≠ .sc s := by intro s e; subst e; simp [emitDoc] at h
  have hr : renderLines (linesNode 0 0 v) = some t := by
    cases v with
    | sc s => exact absurd rfl (hv s)
    | list xs => simpa [emitDoc] using h
    | dict kvs => simpa [emitDoc] using h
  obtain ⟨ts, h1, h2⟩ := scanLines_renderLines _ t (linesOK_node v 0 0 hok) hr
  simp [loadDoc, h1, h2, loadLines_linesNode v hv]

end Jap.Scalar

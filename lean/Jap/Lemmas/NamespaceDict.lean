import Jap.Lemmas.NamespaceAbs
/-!
Conversion from and to dictionaries: `dict_to_namespace` followed by `as_dict`
gives the dictionary back (plain nested dictionaries: string keys without dots,
lists that hold no dictionaries).
-/
namespace Jap.NS

/-- an element that `expand_dict` / `as_dict` leave alone inside a list -/
def plainElem : V → Bool
  | .dct _ => false
  | .ns _ => false
  | _ => true

mutual
/-- a plain nested dictionary value: nested dicts, lists without dicts or namespaces, scalars, tuples -/
def plainV : V → Bool
  | .dct kvs => plainKV kvs
  | .lst xs => xs.all plainElem
  | .ns _ => false
  | .none => true
  | .atom _ => true
  | .tup _ => true
/-- keys are unmarked names without ".", values are plain -/
def plainKV : KV → Bool
  | [] => true
  | (k, v) :: r => !k.marked && !(k.name.toList.contains '.') && plainV v && plainKV r
end

/-- key names are pairwise different at every level (true of every Python dict) -/
def namesOf (kvs : KV) : List String := kvs.map (·.1.name)

mutual
def nodupV : V → Prop
  | .dct kvs => nodupKV kvs
  | _ => True
def nodupKV : KV → Prop
  | [] => True
  | (k, v) :: r => k.name ∉ namesOf r ∧ nodupV v ∧ nodupKV r
end

mutual
def depthV : V → Nat
  | .dct kvs => depthKV kvs + 1
  | _ => 0
def depthKV : KV → Nat
  | [] => 0
  | (_, v) :: r => max (depthV v) (depthKV r)
end

theorem insert_fresh (k : SKey) (v : V) : ∀ kvs : KV, k ∉ keysOf kvs → insert k v kvs = kvs ++ [(k, v)]
  | [], _ => rfl
  | (k', v') :: r, h => by
    have h1 : k' ≠ k := by intro e; apply h; simp [keysOf, e]
    have h2 : k ∉ keysOf r := by intro e; apply h; simp [keysOf] at e ⊢; exact Or.inr e
    simp [insert, h1, insert_fresh k v r h2]

theorem mapM_plain : ∀ (f : V → Except Err V) (xs : List V), (∀ x ∈ xs, f x = .ok x) → xs.mapM f = .ok xs
  | _, [], _ => rfl
  | f, x :: r, h => by
    have hx := h x List.mem_cons_self
    have hr := mapM_plain f r (fun y hy => h y (List.mem_cons_of_mem _ hy))
    simp only [List.mapM_cons, hx, hr]
    rfl

theorem allNs_false_of_plain : ∀ xs : List V, xs ≠ [] → xs.all plainElem = true → allNs xs = false
  | [], h, _ => absurd rfl h
  | x :: r, _, hp => by
    simp only [List.all_cons, Bool.and_eq_true] at hp
    cases x <;> simp_all [allNs, plainElem]

/-- `as_dict` of a list without namespaces is the list itself -/
theorem asDictV_plain_list (xs : List V) (hp : xs.all plainElem = true) : asDictV (.lst xs) = .lst xs := by
  cases xs with
  | nil => simp [asDictV]
  | cons x r =>
    have := allNs_false_of_plain (x :: r) (by simp) hp
    simp [asDictV, this]

/-- the namespace `expand_dict` builds: every key marked as `__setattr__` marks it, every value expanded -/
def expected (clash : List String) (vals : List V) (d : KV) : KV :=
  (d.zip vals).map fun p => (mark clash p.1.1.name, p.2)

theorem foldl_setAttr_fresh (clash : List String) :
    ∀ (d : KV) (vals : List V) (acc : KV), d.length = vals.length →
      (∀ k ∈ namesOf d, k.toList.contains '.' = false) → (namesOf d).Nodup →
      (∀ k ∈ namesOf d, mark clash k ∉ keysOf acc) →
      (d.zip vals).foldlM (fun (a : KV) (p : (SKey × V) × V) => setAttr clash p.1.1.name p.2 a) acc
        = .ok (acc ++ expected clash vals d)
  | [], [], acc, _, _, _, _ => by simp [expected]; rfl
  | [], _ :: _, _, h, _, _, _ => by simp at h
  | _ :: _, [], _, h, _, _, _ => by simp at h
  | (k, v) :: d, w :: vals, acc, hl, hdot, hnd, hfresh => by
    simp only [List.length_cons, Nat.add_right_cancel_iff] at hl
    have hk : k.name.toList.contains '.' = false := hdot k.name (by simp [namesOf])
    have hfk : mark clash k.name ∉ keysOf acc := hfresh k.name (by simp [namesOf])
    simp only [namesOf, List.map_cons, List.nodup_cons] at hnd
    have ih := foldl_setAttr_fresh clash d vals (acc ++ [(mark clash k.name, w)]) hl
      (fun x hx => hdot x (by simp [namesOf] at hx ⊢; exact Or.inr hx)) hnd.2
      (by
        intro x hx
        simp only [keysOf, List.map_append, List.map_cons, List.map_nil, List.mem_append, List.mem_singleton, not_or]
        refine ⟨hfresh x (by simp [namesOf] at hx ⊢; exact Or.inr hx), ?_⟩
        intro e
        have := mark_inj clash e
        subst this
        exact hnd.1 hx)
    have hstep : setAttr clash k.name w acc = .ok (acc ++ [(mark clash k.name, w)]) := by
      have hne : ¬ (k.name.toList.contains '.' = true) := by rw [hk]; simp
      unfold setAttr
      rw [if_neg hne, insert_fresh _ _ _ hfk]
    simp only [List.zip_cons_cons, List.foldlM_cons, hstep]
    show (List.foldlM _ (acc ++ [(mark clash k.name, w)]) (d.zip vals)) = _
    rw [ih]
    simp [expected, List.append_assoc]


/-- the interleaved loop of `expand_dict` (expand a value, then assign it) as a fold over the expanded values -/
theorem fold_interleave (clash : List String) (fuel : Nat) :
    ∀ (d : KV) (vals : List V) (acc : KV), d.length = vals.length →
      (∀ p ∈ d.zip vals, expandVal clash fuel p.1.2 = .ok p.2) →
      d.foldlM (fun (a : KV) (kv : SKey × V) => do
          let v' ← expandVal clash fuel kv.2
          setAttr clash kv.1.name v' a) acc
        = (d.zip vals).foldlM (fun (a : KV) (p : (SKey × V) × V) => setAttr clash p.1.1.name p.2 a) acc
  | [], [], _, _, _ => rfl
  | [], _ :: _, _, h, _ => by simp at h
  | _ :: _, [], _, h, _ => by simp at h
  | (k, v) :: d, w :: vals, acc, hl, hv => by
    simp only [List.length_cons, Nat.add_right_cancel_iff] at hl
    have h1 : expandVal clash fuel v = .ok w := hv ((k, v), w) (by simp)
    simp only [List.zip_cons_cons, List.foldlM_cons, h1]
    show (do let s ← setAttr clash k.name w acc; _) = (do let s ← setAttr clash k.name w acc; _)
    cases hs : setAttr clash k.name w acc with
    | error e => rfl
    | ok s =>
      simp only [bind, Except.bind]
      exact fold_interleave clash fuel d vals s hl (fun p hp => hv p (by simp [hp]))

theorem asDict_expected (clash : List String) : ∀ (d : KV) (vals : List V), d.length = vals.length →
    (∀ kv ∈ d, kv.1.marked = false) → (∀ p ∈ d.zip vals, asDictV p.2 = p.1.2) →
    asDict (expected clash vals d) = d
  | [], [], _, _, _ => by simp [expected, asDict]
  | [], _ :: _, h, _, _ => by simp at h
  | _ :: _, [], h, _, _ => by simp at h
  | (k, v) :: d, w :: vals, hl, hm, hv => by
    simp only [List.length_cons, Nat.add_right_cancel_iff] at hl
    have ih := asDict_expected clash d vals hl (fun kv h => hm kv (List.mem_cons_of_mem _ h))
      (fun p hp => hv p (by simp [hp]))
    have hk : k.marked = false := hm (k, v) (by simp)
    have hw : asDictV w = v := hv ((k, v), w) (by simp)
    simp only [expected] at ih ⊢
    simp only [List.zip_cons_cons, List.map_cons, asDict, unmark, hw, ih]
    cases k
    simp_all [mark]

theorem depthV_le (kv : SKey × V) : ∀ d : KV, kv ∈ d → depthV kv.2 ≤ depthKV d
  | [], h => by simp at h
  | (k, v) :: r, h => by
    simp only [depthKV]
    rcases List.mem_cons.mp h with rfl | h
    · exact Nat.le_max_left _ _
    · exact Nat.le_trans (depthV_le kv r h) (Nat.le_max_right _ _)

theorem plainKV_mem (kv : SKey × V) : ∀ d : KV, plainKV d = true → kv ∈ d →
    kv.1.marked = false ∧ kv.1.name.toList.contains '.' = false ∧ plainV kv.2 = true
  | [], _, h => by simp at h
  | (k, v) :: r, hp, h => by
    simp only [plainKV, Bool.and_eq_true, Bool.not_eq_true'] at hp
    rcases List.mem_cons.mp h with rfl | h
    · exact ⟨hp.1.1.1, hp.1.1.2, hp.1.2⟩
    · exact plainKV_mem kv r hp.2 h

theorem nodupKV_mem (kv : SKey × V) : ∀ d : KV, nodupKV d → kv ∈ d → nodupV kv.2
  | [], _, h => by simp at h
  | (k, v) :: r, hn, h => by
    simp only [nodupKV] at hn
    rcases List.mem_cons.mp h with rfl | h
    · exact hn.2.1
    · exact nodupKV_mem kv r hn.2.2 h

theorem nodupKV_names : ∀ d : KV, nodupKV d → (namesOf d).Nodup
  | [], _ => by simp [namesOf]
  | (k, v) :: r, hn => by
    simp only [nodupKV] at hn
    simp only [namesOf, List.map_cons, List.nodup_cons]
    exact ⟨hn.1, nodupKV_names r hn.2.2⟩

/-- existence of the list of expanded values, element by element -/
theorem exists_vals (clash : List String) (fuel : Nat) :
    ∀ d : KV, (∀ kv ∈ d, ∃ w, expandVal clash fuel kv.2 = .ok w ∧ asDictV w = kv.2) →
      ∃ vals : List V, d.length = vals.length ∧
        (∀ p ∈ d.zip vals, expandVal clash fuel p.1.2 = .ok p.2) ∧ (∀ p ∈ d.zip vals, asDictV p.2 = p.1.2)
  | [], _ => ⟨[], rfl, by simp, by simp⟩
  | kv :: d, h => by
    obtain ⟨w, hw1, hw2⟩ := h kv List.mem_cons_self
    obtain ⟨vals, hl, h1, h2⟩ := exists_vals clash fuel d (fun x hx => h x (List.mem_cons_of_mem _ hx))
    refine ⟨w :: vals, by simp [hl], ?_, ?_⟩
    · intro p hp
      simp only [List.zip_cons_cons, List.mem_cons] at hp
      rcases hp with rfl | hp
      · exact hw1
      · exact h1 p hp
    · intro p hp
      simp only [List.zip_cons_cons, List.mem_cons] at hp
      rcases hp with rfl | hp
      · exact hw2
      · exact h2 p hp

/-- `dict_to_namespace` then `as_dict` is the identity on plain nested dictionaries (any depth, given enough fuel) -/
theorem dict_roundtrip (clash : List String) : ∀ n : Nat,
    (∀ d : KV, plainKV d = true → nodupKV d → 2 * depthKV d + 2 ≤ n →
        ∃ r, expandDict clash n d = .ok r ∧ asDict r = d) ∧
    (∀ v : V, plainV v = true → nodupV v → 2 * depthV v + 1 ≤ n →
        ∃ w, expandVal clash n v = .ok w ∧ asDictV w = v)
  | 0 => ⟨fun _ _ _ h => by omega, fun _ _ _ h => by omega⟩
  | n + 1 => by
    obtain ⟨ihD, ihV⟩ := dict_roundtrip clash n
    constructor
    · intro d hp hn hd
      have hvals := exists_vals clash n d (fun kv hkv => by
        have hpl := (plainKV_mem kv d hp hkv).2.2
        have hnd := nodupKV_mem kv d hn hkv
        have hle := depthV_le kv d hkv
        exact ihV kv.2 hpl hnd (by omega))
      obtain ⟨vals, hl, h1, h2⟩ := hvals
      refine ⟨expected clash vals d, ?_, ?_⟩
      · simp only [expandDict]
        rw [fold_interleave clash n d vals [] hl h1]
        have := foldl_setAttr_fresh clash d vals [] hl
          (fun k hk => by
            simp only [namesOf, List.mem_map] at hk
            obtain ⟨kv, hkv, rfl⟩ := hk
            exact (plainKV_mem kv d hp hkv).2.1)
          (nodupKV_names d hn) (by simp [keysOf])
        simpa using this
      · exact asDict_expected clash d vals hl (fun kv hkv => (plainKV_mem kv d hp hkv).1) h2
    · intro v hp hn hd
      cases v with
      | dct sub =>
        simp only [plainV] at hp
        simp only [nodupV] at hn
        simp only [depthV] at hd
        obtain ⟨r, hr1, hr2⟩ := ihD sub hp hn (by omega)
        refine ⟨.ns r, ?_, ?_⟩
        · simp only [expandVal, hr1]; rfl
        · simp [asDictV, hr2]
      | lst xs =>
        simp only [plainV] at hp
        refine ⟨.lst xs, ?_, asDictV_plain_list xs hp⟩
        simp only [expandVal]
        rw [mapM_plain]
        · rfl
        · intro x hx
          have hx' := (List.all_eq_true.mp hp) x hx
          cases x with
          | dct a => simp [plainElem] at hx'
          | ns a => rfl
          | none => rfl
          | atom a => rfl
          | lst a => rfl
          | tup a => rfl
      | ns a => simp [plainV] at hp
      | none => exact ⟨.none, by simp [expandVal], by simp [asDictV]⟩
      | atom a => exact ⟨.atom a, by simp [expandVal], by simp [asDictV]⟩
      | tup a => exact ⟨.tup a, by simp [expandVal], by simp [asDictV]⟩

end Jap.NS

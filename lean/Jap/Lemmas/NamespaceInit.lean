import Jap.Lemmas.NamespaceDict
import Jap.Core.NamespaceMeta
/-!
`Namespace(ns)` (positional namespace form of `__init__`) re-assigns every stored name of `ns`: with pairwise
different names (always the case for `vars(ns)`) the result holds the same entries in the same order.
-/
namespace Jap.NS

theorem foldl_insert_fresh : ∀ (kvs acc : KV), (keysOf (acc ++ kvs)).Nodup →
    kvs.foldl (fun a kv => insert kv.1 kv.2 a) acc = acc ++ kvs
  | [], acc, _ => by simp
  | (k, v) :: r, acc, h => by
    simp only [List.foldl_cons]
    have hk : k ∉ keysOf acc := by
      intro hm
      simp only [keysOf, List.map_append, List.map_cons] at h hm
      have := (List.nodup_append.mp h).2.2 k hm k (by simp)
      exact this rfl
    rw [insert_fresh k v acc hk]
    have := foldl_insert_fresh r (acc ++ [(k, v)]) (by simpa [List.append_assoc] using h)
    simpa [List.append_assoc] using this

theorem fromNs_id (kvs : KV) (h : (keysOf kvs).Nodup) : fromNs kvs = kvs := by
  unfold fromNs
  simpa using foldl_insert_fresh kvs [] (by simpa using h)

end Jap.NS

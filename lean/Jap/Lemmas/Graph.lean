/-
Helper lemmas for E5 (`Jap.Core.Graph`).

Part 1 (`Jap.Graph.Abs`): the checked development of DESIGN Appendix A — the topological sort on an
abstract state (`expl` = the exploring *stack*, `order` doubling as the visited set) with `topo_ok`,
`topo_err`, `topo_complete`.  Only change: `expl.filter (· != u)` instead of `expl.erase u`, which makes the
simulation of Part 2 unconditional.
Part 2: the concrete state of the code (separate `exploring` / `visited` boolean lists) simulates the abstract one:
`topoIdx_eq_abs`.
Part 3: `add_edge` invariants (`WF`): the index lists describe exactly the inserted name pairs.
Part 4: name-level theorems about `topo` (`topo_ok`, `topo_cycle`, `topo_complete`).
Part 5: `reorder` is the stable sort of the components by the rank of the first matching key.
-/
import Jap.Core.Graph

namespace Jap.Graph.Abs

structure St where
  expl : List Nat
  order : List Nat

/-- one step of the `for target in edges[source]` loop -/
def stepFn (rec : Nat → St → Except Err St) (u : Nat) (s : St) (v : Nat) : Except Err St :=
  if v ∈ s.expl then .error (.cycle u v)
  else if v ∈ s.order then .ok s
  else rec v s

def visit (adj : Nat → List Nat) : Nat → Nat → St → Except Err St
  | 0, _, _ => .error .fuel
  | fuel+1, u, st =>
    match (adj u).foldlM (stepFn (visit adj fuel) u) { st with expl := u :: st.expl } with
    | .error e => .error e
    | .ok st2 => .ok { expl := st2.expl.filter (fun x => x != u), order := u :: st2.order }

def topo (adj : Nat → List Nat) (n : Nat) : Except Err (List Nat) :=
  match (List.range n).foldlM (fun s u => if u ∈ s.order then .ok s else visit adj (n+1) u s) ⟨[], []⟩ with
  | .error e => .error e
  | .ok s => .ok s.order

/-- `u :: rest` is fine when all successors of `u` are already in `rest` -/
def TopoL (adj : Nat → List Nat) : List Nat → Prop
  | [] => True
  | u :: r => u ∉ r ∧ (∀ v ∈ adj u, v ∈ r) ∧ TopoL adj r

structure Inv (adj : Nat → List Nat) (n : Nat) (s : St) : Prop where
  topo : TopoL adj s.order
  disj : ∀ x ∈ s.expl, x ∉ s.order
  bnd  : ∀ x ∈ s.order, x < n

structure Post (s s' : St) : Prop where
  expl : s'.expl = s.expl
  suff : ∃ pre, s'.order = pre ++ s.order

theorem Post.refl (s : St) : Post s s := ⟨rfl, [], rfl⟩
theorem Post.trans {a b c : St} (h1 : Post a b) (h2 : Post b c) : Post a c := by
  obtain ⟨e1, p1, hp1⟩ := h1
  obtain ⟨e2, p2, hp2⟩ := h2
  exact ⟨e2.trans e1, p2 ++ p1, by rw [hp2, hp1, List.append_assoc]⟩
theorem Post.mem {a b : St} (h : Post a b) {x : Nat} (hx : x ∈ a.order) : x ∈ b.order := by
  obtain ⟨_, p, hp⟩ := h
  rw [hp]; exact List.mem_append_right _ hx

variable (adj : Nat → List Nat) (n : Nat) (hadj : ∀ u, u < n → ∀ v ∈ adj u, v < n)

/-- spec of the recursive call assumed by the fold lemma -/
def VisitSpec (rec : Nat → St → Except Err St) : Prop :=
  ∀ u s s', Inv adj n s → u < n → u ∉ s.expl → u ∉ s.order → rec u s = .ok s' →
    Inv adj n s' ∧ Post s s' ∧ u ∈ s'.order

theorem fold_ok (rec : Nat → St → Except Err St) (hrec : VisitSpec adj n rec) (u : Nat) :
    ∀ (vs : List Nat) (s s' : St), (∀ v ∈ vs, v < n) → Inv adj n s →
      vs.foldlM (stepFn rec u) s = .ok s' →
      Inv adj n s' ∧ Post s s' ∧ ∀ v ∈ vs, v ∈ s'.order := by
  intro vs
  induction vs with
  | nil =>
    intro s s' _ hinv h
    simp [List.foldlM] at h
    cases h
    exact ⟨hinv, Post.refl _, by simp⟩
  | cons v vs ih =>
    intro s s' hb hinv h
    simp only [List.foldlM_cons] at h
    have hv : v < n := hb v List.mem_cons_self
    have hvs : ∀ x ∈ vs, x < n := fun x hx => hb x (List.mem_cons_of_mem _ hx)
    unfold stepFn at h
    by_cases he : v ∈ s.expl
    · simp [he] at h
      cases h
    · by_cases ho : v ∈ s.order
      · simp [he, ho] at h
        have := ih s s' hvs hinv h
        obtain ⟨i', p', m'⟩ := this
        refine ⟨i', p', ?_⟩
        intro x hx
        rcases List.mem_cons.mp hx with rfl | hx
        · exact p'.mem ho
        · exact m' x hx
      · simp [he, ho] at h
        cases hr : rec v s with
        | error e => simp [hr] at h; cases h
        | ok s1 =>
          simp [hr] at h
          obtain ⟨i1, p1, m1⟩ := hrec v s s1 hinv hv he ho hr
          obtain ⟨i', p', m'⟩ := ih s1 s' hvs i1 h
          refine ⟨i', p1.trans p', ?_⟩
          intro x hx
          rcases List.mem_cons.mp hx with rfl | hx
          · exact p'.mem m1
          · exact m' x hx

include hadj in
theorem visit_ok : ∀ fuel, VisitSpec adj n (visit adj fuel) := by
  intro fuel
  induction fuel with
  | zero => intro u s s' _ _ _ _ h; simp [visit] at h
  | succ fuel ih =>
    intro u s s' hinv hu hue huo h
    simp only [visit] at h
    cases hf : (adj u).foldlM (stepFn (visit adj fuel) u) { s with expl := u :: s.expl } with
    | error e => simp [hf] at h
    | ok s2 =>
      simp [hf] at h
      have hinv1 : Inv adj n { s with expl := u :: s.expl } := by
        refine ⟨hinv.topo, ?_, hinv.bnd⟩
        intro x hx
        rcases List.mem_cons.mp hx with rfl | hx
        · exact huo
        · exact hinv.disj x hx
      obtain ⟨i2, p2, m2⟩ := fold_ok adj n (visit adj fuel) ih u (adj u) _ s2 (hadj u hu) hinv1 hf
      have hexpl : s2.expl = u :: s.expl := p2.expl
      have hu2 : u ∉ s2.order := i2.disj u (by rw [hexpl]; exact List.mem_cons_self)
      subst h
      refine ⟨⟨?_, ?_, ?_⟩, ⟨?_, ?_⟩, ?_⟩
      · exact ⟨hu2, m2, i2.topo⟩
      · intro x hx
        have hx' : x ∈ s.expl := by
          rw [hexpl] at hx
          simp only [List.mem_filter, List.mem_cons, bne_iff_ne, ne_eq] at hx
          rcases hx.1 with h1 | h1
          · exact absurd h1 hx.2
          · exact h1
        intro hmem
        rcases List.mem_cons.mp hmem with rfl | hmem
        · exact hue hx'
        · exact i2.disj x (by rw [hexpl]; exact List.mem_cons_of_mem _ hx') hmem
      · intro x hx
        rcases List.mem_cons.mp hx with rfl | hx
        · exact hu
        · exact i2.bnd x hx
      · show List.filter (fun x => x != u) s2.expl = s.expl
        rw [hexpl, List.filter_cons]
        simp only [bne_self_eq_false, Bool.false_eq_true, if_false]
        rw [List.filter_eq_self]
        intro a ha
        simp only [bne_iff_ne, ne_eq]
        intro h
        exact hue (h ▸ ha)
      · obtain ⟨pre, hpre⟩ := p2.suff
        exact ⟨u :: pre, by simp [hpre]⟩
      · exact List.mem_cons_self

end Jap.Graph.Abs

namespace Jap.Graph.Abs

/-! ### top level, success case -/

theorem TopoL.nodup {adj : Nat → List Nat} : ∀ {l}, TopoL adj l → l.Nodup
  | [], _ => List.nodup_nil
  | _ :: _, ⟨h1, _, h3⟩ => List.nodup_cons.mpr ⟨h1, TopoL.nodup h3⟩

theorem TopoL.later {adj : Nat → List Nat} : ∀ {l : List Nat}, TopoL adj l →
    ∀ pre u post, l = pre ++ u :: post → ∀ v ∈ adj u, v ∈ post
  | [], _, pre, u, post, h => by simp at h
  | a :: r, ⟨_, h2, h3⟩, pre, u, post, h => by
    cases pre with
    | nil =>
      simp at h
      obtain ⟨rfl, rfl⟩ := h
      exact h2
    | cons b pre =>
      simp at h
      exact TopoL.later h3 pre u post h.2

variable (adj : Nat → List Nat) (n : Nat) (hadj : ∀ u, u < n → ∀ v ∈ adj u, v < n)

include hadj in
theorem outer_ok (fuel : Nat) : ∀ (us : List Nat) (s s' : St), (∀ u ∈ us, u < n) → Inv adj n s → s.expl = [] →
    us.foldlM (fun s u => if u ∈ s.order then .ok s else visit adj fuel u s) s = .ok s' →
    Inv adj n s' ∧ s'.expl = [] ∧ (∀ x ∈ s.order, x ∈ s'.order) ∧ ∀ u ∈ us, u ∈ s'.order := by
  intro us
  induction us with
  | nil => intro s s' _ hinv he h; simp [List.foldlM] at h; cases h; exact ⟨hinv, he, fun _ h => h, by simp⟩
  | cons u us ih =>
    intro s s' hb hinv he h
    simp only [List.foldlM_cons] at h
    have hu := hb u List.mem_cons_self
    have hus : ∀ x ∈ us, x < n := fun x hx => hb x (List.mem_cons_of_mem _ hx)
    by_cases ho : u ∈ s.order
    · simp [ho] at h
      obtain ⟨a, b, c, d⟩ := ih s s' hus hinv he h
      refine ⟨a, b, c, ?_⟩
      intro x hx
      rcases List.mem_cons.mp hx with rfl | hx
      · exact c _ ho
      · exact d x hx
    · simp [ho] at h
      cases hr : visit adj fuel u s with
      | error e => simp [hr] at h; cases h
      | ok s1 =>
        simp [hr] at h
        obtain ⟨i1, p1, m1⟩ := visit_ok adj n hadj fuel u s s1 hinv hu (by simp [he]) ho hr
        obtain ⟨a, b, c, d⟩ := ih s1 s' hus i1 (p1.expl.trans he) h
        refine ⟨a, b, fun x hx => c x (p1.mem hx), ?_⟩
        intro x hx
        rcases List.mem_cons.mp hx with rfl | hx
        · exact c _ m1
        · exact d x hx

include hadj in
/-- C16_topo_ok: a returned order is a permutation of the nodes in which every edge goes forward. -/
theorem topo_ok (o : List Nat) (h : topo adj n = .ok o) :
    o.Perm (List.range n) ∧ ∀ pre u post, o = pre ++ u :: post → ∀ v ∈ adj u, v ∈ post := by
  unfold topo at h
  cases hf : (List.range n).foldlM (fun s u => if u ∈ s.order then .ok s else visit adj (n+1) u s) ⟨[], []⟩ with
  | error e => simp [hf] at h
  | ok s =>
    simp [hf] at h
    subst h
    have hinv0 : Inv adj n ⟨[], []⟩ := ⟨trivial, by simp, by simp⟩
    obtain ⟨i, _, _, m⟩ := outer_ok adj n hadj (n+1) (List.range n) _ s (fun u hu => List.mem_range.mp hu) hinv0 rfl hf
    refine ⟨?_, TopoL.later i.topo⟩
    rw [List.perm_ext_iff_of_nodup (TopoL.nodup i.topo) List.nodup_range]
    intro a
    exact ⟨fun ha => List.mem_range.mpr (i.bnd a ha), fun ha => m a ha⟩

end Jap.Graph.Abs

namespace Jap.Graph.Abs

/-! ### failure case: a reported cycle is a cycle; fuel never runs out -/

inductive Reach (adj : Nat → List Nat) : Nat → Nat → Prop
  | refl (a) : Reach adj a a
  | tail {a b c} : Reach adj a b → c ∈ adj b → Reach adj a c

/-- the exploring stack, most recent first, is a path: each element is a successor of the next one -/
def Chain (adj : Nat → List Nat) : List Nat → Prop
  | [] => True
  | [_] => True
  | a :: b :: r => a ∈ adj b ∧ Chain adj (b :: r)

theorem chain_reach {adj : Nat → List Nat} : ∀ (l : List Nat) (a b : Nat), Chain adj (a :: l) → b ∈ a :: l → Reach adj b a
  | [], a, b, _, hb => by simp at hb; subst hb; exact .refl _
  | c :: r, a, b, hc, hb => by
    rcases List.mem_cons.mp hb with rfl | hb
    · exact .refl _
    · exact .tail (chain_reach r c b hc.2 hb) hc.1

variable (adj : Nat → List Nat) (n : Nat) (hadj : ∀ u, u < n → ∀ v ∈ adj u, v < n)

/-- what a failing call promises -/
def ErrSpec (rec : Nat → St → Except Err St) (k : Nat) : Prop :=
  ∀ u s e, Inv adj n s → u < n → u ∉ s.expl → u ∉ s.order → Chain adj (u :: s.expl) →
    s.expl.Nodup → (∀ x ∈ s.expl, x < n) → s.expl.length + k ≥ n + 1 →
    rec u s = .error e → ∃ a b, e = .cycle a b ∧ a < n ∧ b ∈ adj a ∧ Reach adj b a

include hadj in
theorem fold_err (rec : Nat → St → Except Err St) (k : Nat) (hok : VisitSpec adj n rec) (herr : ErrSpec adj n rec k) (u : Nat) :
    ∀ (vs : List Nat) (s : St) (e : Err), (∀ v ∈ vs, v ∈ adj u) → u < n → Inv adj n s →
      (∃ t, s.expl = u :: t) → Chain adj s.expl → s.expl.Nodup → (∀ x ∈ s.expl, x < n) → s.expl.length + k ≥ n + 1 →
      vs.foldlM (stepFn rec u) s = .error e → ∃ a b, e = .cycle a b ∧ a < n ∧ b ∈ adj a ∧ Reach adj b a := by
  intro vs
  induction vs with
  | nil => intro s e _ _ _ _ _ _ _ _ h; simp [List.foldlM] at h; cases h
  | cons v vs ih =>
    intro s e hsub hu hinv hhead hch hnd hbd hlen h
    simp only [List.foldlM_cons] at h
    have hvadj : v ∈ adj u := hsub v List.mem_cons_self
    have hv : v < n := hadj u hu v hvadj
    have hvs : ∀ x ∈ vs, x ∈ adj u := fun x hx => hsub x (List.mem_cons_of_mem _ hx)
    obtain ⟨t, ht⟩ := hhead
    unfold stepFn at h
    by_cases he : v ∈ s.expl
    · simp [he] at h
      cases h
      refine ⟨u, v, rfl, hu, hvadj, ?_⟩
      rw [ht] at hch he
      exact chain_reach t u v hch he
    · by_cases ho : v ∈ s.order
      · simp [he, ho] at h
        exact ih s e hvs hu hinv ⟨t, ht⟩ hch hnd hbd hlen h
      · simp [he, ho] at h
        cases hr : rec v s with
        | error e1 =>
          simp [hr] at h
          cases h
          have hch' : Chain adj (v :: s.expl) := by rw [ht]; exact ⟨hvadj, by rw [← ht]; exact hch⟩
          exact herr v s e hinv hv he ho hch' hnd hbd hlen hr
        | ok s1 =>
          simp [hr] at h
          obtain ⟨i1, p1, _⟩ := hok v s s1 hinv hv he ho hr
          have hex : s1.expl = s.expl := p1.expl
          exact ih s1 e hvs hu i1 ⟨t, by rw [hex, ht]⟩ (by rw [hex]; exact hch) (by rw [hex]; exact hnd)
            (by rw [hex]; exact hbd) (by rw [hex]; exact hlen) h

include hadj in
theorem visit_err : ∀ fuel, ErrSpec adj n (visit adj fuel) fuel := by
  intro fuel
  induction fuel with
  | zero =>
    intro u s e _ hu hue _ _ hnd hbd hlen _
    -- impossible: `u :: s.expl` is a duplicate-free list of nodes `< n` of length ≥ n+1... i.e. s.expl.length ≥ n+1
    exfalso
    have hsub : s.expl ⊆ List.range n := fun x hx => List.mem_range.mpr (hbd x hx)
    have := List.Nodup.length_le_of_subset hnd hsub
    simp at this
    omega
  | succ fuel ih =>
    intro u s e hinv hu hue huo hch hnd hbd hlen h
    simp only [visit] at h
    cases hf : (adj u).foldlM (stepFn (visit adj fuel) u) { s with expl := u :: s.expl } with
    | ok s2 => simp [hf] at h
    | error e2 =>
      simp [hf] at h
      subst h
      have hinv1 : Inv adj n { s with expl := u :: s.expl } := by
        refine ⟨hinv.topo, ?_, hinv.bnd⟩
        intro x hx
        rcases List.mem_cons.mp hx with rfl | hx
        · exact huo
        · exact hinv.disj x hx
      refine fold_err adj n hadj (visit adj fuel) fuel (visit_ok adj n hadj fuel) ih u (adj u) _ e2
        (fun v hv => hv) hu hinv1 ⟨s.expl, rfl⟩ hch (List.nodup_cons.mpr ⟨hue, hnd⟩) ?_ ?_ hf
      · intro x hx
        rcases List.mem_cons.mp hx with rfl | hx
        · exact hu
        · exact hbd x hx
      · simp only [List.length_cons]; omega

end Jap.Graph.Abs

namespace Jap.Graph.Abs
variable (adj : Nat → List Nat) (n : Nat) (hadj : ∀ u, u < n → ∀ v ∈ adj u, v < n)

include hadj in
theorem topo_err (e : Err) (h : topo adj n = .error e) : ∃ a b, e = .cycle a b ∧ a < n ∧ b ∈ adj a ∧ Reach adj b a := by
  unfold topo at h
  cases hf : (List.range n).foldlM (fun s u => if u ∈ s.order then .ok s else visit adj (n+1) u s) ⟨[], []⟩ with
  | ok s => simp [hf] at h
  | error e2 =>
    simp [hf] at h
    subst h
    -- generalise over the outer loop
    have key : ∀ (us : List Nat) (s : St), (∀ u ∈ us, u < n) → Inv adj n s → s.expl = [] →
        us.foldlM (fun s u => if u ∈ s.order then .ok s else visit adj (n+1) u s) s = .error e2 →
        ∃ a b, e2 = .cycle a b ∧ a < n ∧ b ∈ adj a ∧ Reach adj b a := by
      intro us
      induction us with
      | nil => intro s _ _ _ h; simp [List.foldlM] at h; cases h
      | cons u us ih =>
        intro s hb hinv he h
        simp only [List.foldlM_cons] at h
        have hu := hb u List.mem_cons_self
        have hus : ∀ x ∈ us, x < n := fun x hx => hb x (List.mem_cons_of_mem _ hx)
        by_cases ho : u ∈ s.order
        · simp [ho] at h; exact ih s hus hinv he h
        · simp [ho] at h
          cases hr : visit adj (n+1) u s with
          | error e1 =>
            simp [hr] at h
            cases h
            exact visit_err adj n hadj (n+1) u s e2 hinv hu (by simp [he]) ho (by simp [he, Chain])
              (by simp [he]) (by simp [he]) (by simp [he]) hr
          | ok s1 =>
            simp [hr] at h
            obtain ⟨i1, p1, _⟩ := visit_ok adj n hadj (n+1) u s s1 hinv hu (by simp [he]) ho hr
            exact ih s1 hus i1 (p1.expl.trans he) h
    exact key (List.range n) ⟨[], []⟩ (fun u hu => List.mem_range.mp hu) ⟨trivial, by simp, by simp⟩ rfl hf

/-- position lemmas on a duplicate-free order -/
theorem idx_split {o pre post : List Nat} {u : Nat} (hnd : o.Nodup) (h : o = pre ++ u :: post) :
    o.idxOf u = pre.length ∧ ∀ v ∈ post, pre.length < o.idxOf v := by
  subst h
  have hu : u ∉ pre := by
    intro hm
    have := (List.nodup_append.mp hnd).2.2 u hm u List.mem_cons_self
    exact this rfl
  refine ⟨by simp [List.idxOf_append, hu], ?_⟩
  intro v hv
  have hvpre : v ∉ pre := by
    intro hm
    exact (List.nodup_append.mp hnd).2.2 v hm v (List.mem_cons_of_mem _ hv) rfl
  have hvu : u ≠ v := by
    intro heq; subst heq
    have := (List.nodup_cons.mp (List.nodup_append.mp hnd).2.1).1
    exact this hv
  rw [List.idxOf_append, if_neg hvpre, List.idxOf_cons]
  have : (u == v) = false := by simpa using hvu
  simp [this]

include hadj in
/-- C16_complete: success exactly on acyclic graphs -/
theorem topo_complete :
    (∃ o, topo adj n = .ok o) ↔ ¬ ∃ a b, a < n ∧ b ∈ adj a ∧ Reach adj b a := by
  constructor
  · rintro ⟨o, ho⟩ ⟨a, b, ha, hab, hreach⟩
    obtain ⟨hperm, hlater⟩ := topo_ok adj n hadj o ho
    have hnd : o.Nodup := hperm.nodup_iff.mpr List.nodup_range
    have hmem : ∀ x, x < n → x ∈ o := fun x hx => hperm.mem_iff.mpr (List.mem_range.mpr hx)
    -- every edge from a node < n strictly increases the position
    have hedge : ∀ u v, u < n → v ∈ adj u → o.idxOf u < o.idxOf v := by
      intro u v hu huv
      obtain ⟨pre, post, hsplit⟩ := List.mem_iff_append.mp (hmem u hu)
      obtain ⟨h1, h2⟩ := idx_split hnd hsplit
      rw [h1]; exact h2 v (hlater pre u post hsplit v huv)
    have hreach' : ∀ x y, Reach adj x y → x < n → y < n ∧ o.idxOf x ≤ o.idxOf y := by
      intro x y hr
      induction hr with
      | refl => intro hx; exact ⟨hx, Nat.le_refl _⟩
      | tail _ hcb ih =>
        intro hx
        obtain ⟨hb, hle⟩ := ih hx
        exact ⟨hadj _ hb _ hcb, Nat.le_trans hle (Nat.le_of_lt (hedge _ _ hb hcb))⟩
    have h1 := hedge a b ha hab
    have h2 := (hreach' b a hreach (hadj a ha b hab)).2
    omega
  · intro hno
    cases h : topo adj n with
    | ok o => exact ⟨o, rfl⟩
    | error e =>
      exfalso
      obtain ⟨a, b, rfl, ha, hab, hr⟩ := topo_err adj n hadj e h
      exact hno ⟨a, b, ha, hab, hr⟩
end Jap.Graph.Abs

/-! ## Part 2 — the boolean-array state of the code simulates the abstract state -/
namespace Jap.Graph

theorem getD_set_bool (l : List Bool) (u i : Nat) (b : Bool) (hu : u < l.length) :
    flag (l.set u b) i = if i = u then b else flag l i := by
  simp only [flag, List.getD_eq_getElem?_getD, List.getElem?_set]
  by_cases h : u = i
  · subst h; simp [hu]
  · have h' : ¬ i = u := fun e => h e.symm
    simp [h, h']

theorem getD_replicate_false (n i : Nat) : flag (List.replicate n false) i = false := by
  simp only [flag, List.getD_eq_getElem?_getD, List.getElem?_replicate]
  by_cases h : i < n <;> simp [h]

/-- concrete state `c` represents abstract state `a` (for graphs on `n` nodes) -/
structure Rel (n : Nat) (c : St) (a : Abs.St) : Prop where
  order : c.order = a.order
  lenE : c.exploring.length = n
  lenV : c.visited.length = n
  expl : ∀ i, i < n → (flag c.exploring i = true ↔ i ∈ a.expl)
  vis : ∀ i, i < n → (flag c.visited i = true ↔ i ∈ a.order)

def RelE (n : Nat) : Except Err St → Except Err Abs.St → Prop
  | .ok c, .ok a => Rel n c a
  | .error e, .error e' => e = e'
  | _, _ => False

def SimSpec (n : Nat) (rc : Nat → St → Except Err St) (ra : Nat → Abs.St → Except Err Abs.St) : Prop :=
  ∀ u c a, Rel n c a → u < n → RelE n (rc u c) (ra u a)

theorem fold_sim (n : Nat) (rc : Nat → St → Except Err St) (ra : Nat → Abs.St → Except Err Abs.St)
    (hrec : SimSpec n rc ra) (u : Nat) :
    ∀ (vs : List Nat) (c : St) (a : Abs.St), (∀ v ∈ vs, v < n) → Rel n c a →
      RelE n (vs.foldlM (stepFn rc u) c) (vs.foldlM (Abs.stepFn ra u) a) := by
  intro vs
  induction vs with
  | nil => intro c a _ h; simpa [List.foldlM, RelE, pure, Except.pure] using h
  | cons v vs ih =>
    intro c a hb h
    have hv : v < n := hb v List.mem_cons_self
    have hvs : ∀ x ∈ vs, x < n := fun x hx => hb x (List.mem_cons_of_mem _ hx)
    simp only [List.foldlM_cons]
    unfold stepFn Abs.stepFn
    by_cases he : v ∈ a.expl
    · have he' : flag c.exploring v = true := (h.expl v hv).mpr he
      simp [he, he', bind, Except.bind, RelE]
    · have he' : flag c.exploring v = false := by
        cases hh : flag c.exploring v with
        | false => rfl
        | true => exact absurd ((h.expl v hv).mp hh) he
      by_cases ho : v ∈ a.order
      · have ho' : flag c.visited v = true := (h.vis v hv).mpr ho
        simp only [he, he', ho, ho', if_false, if_true, Bool.false_eq_true, Bool.not_true, bind, Except.bind]
        exact ih c a hvs h
      · have ho' : flag c.visited v = false := by
          cases hh : flag c.visited v with
          | false => rfl
          | true => exact absurd ((h.vis v hv).mp hh) ho
        simp only [he, he', ho, ho', if_false, if_true, Bool.false_eq_true, Bool.not_false, bind, Except.bind]
        have hr := hrec v c a h hv
        cases hc : rc v c with
        | error e1 =>
          cases ha : ra v a with
          | error e2 => rw [hc, ha] at hr; simpa [RelE] using hr
          | ok a1 => rw [hc, ha] at hr; exact absurd hr (by simp [RelE])
        | ok c1 =>
          cases ha : ra v a with
          | error e2 => rw [hc, ha] at hr; exact absurd hr (by simp [RelE])
          | ok a1 =>
            rw [hc, ha] at hr
            exact ih c1 a1 hvs hr

theorem visit_sim (adj : Nat → List Nat) (n : Nat) (hadj : ∀ u, u < n → ∀ v ∈ adj u, v < n) :
    ∀ fuel, SimSpec n (visit adj fuel) (Abs.visit adj fuel) := by
  intro fuel
  induction fuel with
  | zero => intro u c a _ _; simp [visit, Abs.visit, RelE]
  | succ fuel ih =>
    intro u c a h hu
    simp only [visit, Abs.visit]
    have h1 : Rel n { c with exploring := c.exploring.set u true } { a with expl := u :: a.expl } := by
      refine ⟨h.order, by simp [h.lenE], h.lenV, ?_, h.vis⟩
      intro i hi
      show flag (c.exploring.set u true) i = true ↔ i ∈ u :: a.expl
      rw [getD_set_bool _ _ _ _ (by rw [h.lenE]; exact hu)]
      by_cases hiu : i = u
      · simp [hiu]
      · simp [hiu, h.expl i hi]
    have hf := fold_sim n _ _ ih u (adj u) _ _ (hadj u hu) h1
    cases hc : (adj u).foldlM (stepFn (visit adj fuel) u) { c with exploring := c.exploring.set u true } with
    | error e1 =>
      cases ha : (adj u).foldlM (Abs.stepFn (Abs.visit adj fuel) u) { a with expl := u :: a.expl } with
      | error e2 => rw [hc, ha] at hf; simpa [RelE] using hf
      | ok a2 => rw [hc, ha] at hf; exact absurd hf (by simp [RelE])
    | ok c2 =>
      cases ha : (adj u).foldlM (Abs.stepFn (Abs.visit adj fuel) u) { a with expl := u :: a.expl } with
      | error e2 => rw [hc, ha] at hf; exact absurd hf (by simp [RelE])
      | ok a2 =>
        rw [hc, ha] at hf
        have h2 : Rel n c2 a2 := hf
        show Rel n _ _
        refine ⟨by simp [h2.order], by simp [h2.lenE], by simp [h2.lenV], ?_, ?_⟩
        · intro i hi
          show flag (c2.exploring.set u false) i = true ↔ i ∈ a2.expl.filter (fun x => x != u)
          rw [getD_set_bool _ _ _ _ (by rw [h2.lenE]; exact hu)]
          by_cases hiu : i = u
          · simp [hiu]
          · simp [hiu, h2.expl i hi]
        · intro i hi
          show flag (c2.visited.set u true) i = true ↔ i ∈ u :: a2.order
          rw [getD_set_bool _ _ _ _ (by rw [h2.lenV]; exact hu)]
          by_cases hiu : i = u
          · simp [hiu]
          · simp [hiu, h2.vis i hi]

theorem outer_sim (adj : Nat → List Nat) (n : Nat) (hadj : ∀ u, u < n → ∀ v ∈ adj u, v < n) (fuel : Nat) :
    ∀ (us : List Nat) (c : St) (a : Abs.St), (∀ u ∈ us, u < n) → Rel n c a →
      RelE n (us.foldlM (fun s u => if !(flag s.visited u) then visit adj fuel u s else .ok s) c)
        (us.foldlM (fun s u => if u ∈ s.order then .ok s else Abs.visit adj fuel u s) a) := by
  intro us
  induction us with
  | nil => intro c a _ h; simpa [List.foldlM, RelE, pure, Except.pure] using h
  | cons u us ih =>
    intro c a hb h
    have hu : u < n := hb u List.mem_cons_self
    have hus : ∀ x ∈ us, x < n := fun x hx => hb x (List.mem_cons_of_mem _ hx)
    simp only [List.foldlM_cons]
    by_cases ho : u ∈ a.order
    · have ho' : flag c.visited u = true := (h.vis u hu).mpr ho
      simp only [ho, ho', if_false, if_true, Bool.false_eq_true, Bool.not_true, bind, Except.bind]
      exact ih c a hus h
    · have ho' : flag c.visited u = false := by
        cases hh : flag c.visited u with
        | false => rfl
        | true => exact absurd ((h.vis u hu).mp hh) ho
      simp only [ho, ho', if_false, if_true, Bool.not_false, bind, Except.bind]
      have hr := visit_sim adj n hadj fuel u c a h hu
      cases hc : visit adj fuel u c with
      | error e1 =>
        cases ha : Abs.visit adj fuel u a with
        | error e2 => rw [hc, ha] at hr; simpa [RelE] using hr
        | ok a1 => rw [hc, ha] at hr; exact absurd hr (by simp [RelE])
      | ok c1 =>
        cases ha : Abs.visit adj fuel u a with
        | error e2 => rw [hc, ha] at hr; exact absurd hr (by simp [RelE])
        | ok a1 =>
          rw [hc, ha] at hr
          exact ih c1 a1 hus hr

/-- the code's sort (boolean arrays) and the abstract sort of Appendix A return the same thing -/
theorem topoIdx_eq_abs (adj : Nat → List Nat) (n : Nat) (hadj : ∀ u, u < n → ∀ v ∈ adj u, v < n) :
    topoIdx adj n = Abs.topo adj n := by
  unfold topoIdx Abs.topo
  have h0 : Rel n ⟨List.replicate n false, List.replicate n false, []⟩ ⟨[], []⟩ := by
    refine ⟨rfl, by simp, by simp, ?_, ?_⟩ <;> intro i _ <;> simp [getD_replicate_false]
  have hs := outer_sim adj n hadj (n+1) (List.range n) _ _ (fun u hu => List.mem_range.mp hu) h0
  cases hc : (List.range n).foldlM (fun s u => if !(flag s.visited u) then visit adj (n+1) u s else .ok s)
      ⟨List.replicate n false, List.replicate n false, []⟩ with
  | error e1 =>
    cases ha : (List.range n).foldlM (fun s u => if u ∈ s.order then .ok s else Abs.visit adj (n+1) u s) ⟨[], []⟩ with
    | error e2 => rw [hc, ha] at hs; simp only [RelE] at hs; simp [hs]
    | ok a1 => rw [hc, ha] at hs; exact absurd hs (by simp [RelE])
  | ok c1 =>
    cases ha : (List.range n).foldlM (fun s u => if u ∈ s.order then .ok s else Abs.visit adj (n+1) u s) ⟨[], []⟩ with
    | error e2 => rw [hc, ha] at hs; exact absurd hs (by simp [RelE])
    | ok a1 =>
      rw [hc, ha] at hs
      have : Rel n c1 a1 := hs
      simp [this.order]

end Jap.Graph

/-! ## Part 3 — `add_edge`: the index lists describe exactly the inserted name pairs -/
namespace Jap.Graph

theorem lookupE_upsertE_self (i : Nat) (l : List Nat) : ∀ m, lookupE i (upsertE i l m) = l
  | [] => by simp [upsertE, lookupE]
  | (k, l') :: r => by
    by_cases h : k = i
    · simp [upsertE, lookupE, h]
    · simp [upsertE, lookupE, h, lookupE_upsertE_self i l r]

theorem lookupE_upsertE_ne (i j : Nat) (l : List Nat) (hij : j ≠ i) : ∀ m, lookupE j (upsertE i l m) = lookupE j m
  | [] => by
    have hne : ¬ i = j := fun e => hij e.symm
    simp only [upsertE, lookupE, if_neg hne]
  | (k, l') :: r => by
    by_cases h : k = i
    · have hkj : ¬ k = j := fun e => hij (e.symm.trans h)
      simp only [upsertE, if_pos h, lookupE, if_neg hkj]
    · by_cases hkj : k = j
      · simp only [upsertE, if_neg h, lookupE, if_pos hkj]
      · simp only [upsertE, if_neg h, lookupE, if_neg hkj]
        exact lookupE_upsertE_ne i j l hij r

variable {α : Type} [DecidableEq α]

theorem addNode_eq (nodes : List α) (x : α) : ∃ ext, addNode nodes x = nodes ++ ext := by
  unfold addNode
  by_cases h : x ∈ nodes
  · exact ⟨[], by simp [h]⟩
  · exact ⟨[x], by simp [h]⟩

theorem mem_addNode (nodes : List α) (x y : α) : y ∈ addNode nodes x ↔ y ∈ nodes ∨ y = x := by
  unfold addNode
  by_cases h : x ∈ nodes
  · simp only [h, if_true]
    constructor
    · exact Or.inl
    · rintro (h1 | rfl)
      · exact h1
      · exact h
  · simp [h]

theorem nodup_addNode (nodes : List α) (x : α) (h : nodes.Nodup) : (addNode nodes x).Nodup := by
  unfold addNode
  by_cases hx : x ∈ nodes
  · simp [hx, h]
  · simp only [hx, if_false]
    rw [List.nodup_append]
    refine ⟨h, by simp, ?_⟩
    intro a ha b hb
    simp at hb
    subst hb
    intro e
    exact hx (e ▸ ha)

omit [DecidableEq α] in
theorem getElem?_append_some {l l' : List α} {i : Nat} {a : α} (h : l[i]? = some a) : (l ++ l')[i]? = some a := by
  obtain ⟨hi, _⟩ := List.getElem?_eq_some_iff.mp h
  rw [List.getElem?_append_left hi]; exact h

theorem getElem?_idxOf_of_mem {l : List α} {a : α} (h : a ∈ l) : l[l.idxOf a]? = some a := by
  have hlt : l.idxOf a < l.length := List.idxOf_lt_length_iff.mpr h
  rw [List.getElem?_eq_getElem hlt, List.getElem_idxOf hlt]

theorem idxOf_getElem?_nodup {l : List α} (hnd : l.Nodup) {i : Nat} {a : α} (h : l[i]? = some a) : l.idxOf a = i := by
  induction l generalizing i with
  | nil => simp at h
  | cons x r ih =>
    cases i with
    | zero => simp at h; subst h; simp
    | succ i =>
      simp at h
      have hx : x ∉ r := (List.nodup_cons.mp hnd).1
      have har : a ∈ r := List.mem_iff_getElem?.mpr ⟨i, h⟩
      have hne : ¬ x = a := fun e => hx (e ▸ har)
      rw [List.idxOf_cons]
      have : (x == a) = false := by simpa using hne
      simp [this, ih (List.nodup_cons.mp hnd).2 h]

/-- invariant of a `DirectedGraph` after the `add_edge` calls `E` -/
structure WF (g : DG α) (E : List (α × α)) : Prop where
  nodup : g.nodes.Nodup
  sound : ∀ u v, v ∈ adj g u → ∃ a b, g.nodes[u]? = some a ∧ g.nodes[v]? = some b ∧ (a, b) ∈ E
  complete : ∀ a b, (a, b) ∈ E → a ∈ g.nodes ∧ b ∈ g.nodes ∧ g.nodes.idxOf b ∈ adj g (g.nodes.idxOf a)
  nodes : ∀ x ∈ g.nodes, ∃ e ∈ E, x = e.1 ∨ x = e.2

theorem WF.empty : WF (DG.empty : DG α) [] :=
  ⟨by simp [DG.empty], by intro u v h; simp [adj, DG.empty, lookupE] at h, by intro a b h; simp at h,
   by intro x h; simp [DG.empty] at h⟩

theorem WF.add_edge {g : DG α} {E : List (α × α)} (h : WF g E) (s t : α) : WF (addEdge g s t) (E ++ [(s, t)]) := by
  obtain ⟨ext1, h1⟩ := addNode_eq g.nodes s
  obtain ⟨ext2, h2⟩ := addNode_eq (addNode g.nodes s) t
  have hN : (addEdge g s t).nodes = addNode (addNode g.nodes s) t := rfl
  have hext : (addEdge g s t).nodes = g.nodes ++ (ext1 ++ ext2) := by rw [hN, h2, h1, List.append_assoc]
  have hs : s ∈ (addEdge g s t).nodes := by
    rw [hN]; exact (mem_addNode _ _ _).mpr (Or.inl ((mem_addNode _ _ _).mpr (Or.inr rfl)))
  have ht : t ∈ (addEdge g s t).nodes := by
    rw [hN]; exact (mem_addNode _ _ _).mpr (Or.inr rfl)
  have hold : ∀ x, x ∈ g.nodes → x ∈ (addEdge g s t).nodes := by
    intro x hx; rw [hext]; exact List.mem_append_left _ hx
  have hidx : ∀ x, x ∈ g.nodes → (addEdge g s t).nodes.idxOf x = g.nodes.idxOf x := by
    intro x hx; rw [hext, List.idxOf_append, if_pos hx]
  have hadj : ∀ u, adj (addEdge g s t) u =
      if u = (addEdge g s t).nodes.idxOf s then
        (if (addEdge g s t).nodes.idxOf t ∈ adj g u then adj g u else adj g u ++ [(addEdge g s t).nodes.idxOf t])
      else adj g u := by
    intro u
    rw [hN]
    by_cases hu : u = (addNode (addNode g.nodes s) t).idxOf s
    · subst hu
      simp only [if_true]
      show lookupE _ (upsertE _ _ g.edges) = _
      rw [lookupE_upsertE_self]
      rfl
    · simp only [hu, if_false]
      show lookupE _ (upsertE _ _ g.edges) = _
      rw [lookupE_upsertE_ne _ _ _ hu]
      rfl
  refine ⟨?_, ?_, ?_, ?_⟩
  · rw [hN]; exact nodup_addNode _ _ (nodup_addNode _ _ h.nodup)
  · intro u v hv
    rw [hadj u] at hv
    have oldcase : v ∈ adj g u → ∃ a b, (addEdge g s t).nodes[u]? = some a ∧ (addEdge g s t).nodes[v]? = some b ∧ (a, b) ∈ E ++ [(s, t)] := by
      intro hv
      obtain ⟨a, b, ha, hb, hab⟩ := h.sound u v hv
      exact ⟨a, b, by rw [hext]; exact getElem?_append_some ha, by rw [hext]; exact getElem?_append_some hb,
        List.mem_append_left _ hab⟩
    by_cases hu : u = (addEdge g s t).nodes.idxOf s
    · simp only [hu, if_true] at hv
      by_cases hin : (addEdge g s t).nodes.idxOf t ∈ adj g ((addEdge g s t).nodes.idxOf s)
      · simp only [hin, if_true] at hv
        exact oldcase (hu ▸ hv)
      · simp only [hin, if_false] at hv
        rcases List.mem_append.mp hv with hv | hv
        · exact oldcase (hu ▸ hv)
        · simp at hv
          subst hv
          subst hu
          exact ⟨s, t, getElem?_idxOf_of_mem hs, getElem?_idxOf_of_mem ht, by simp⟩
    · simp only [hu, if_false] at hv
      exact oldcase hv
  · intro a b hab
    rcases List.mem_append.mp hab with hab | hab
    · obtain ⟨ha, hb, hi⟩ := h.complete a b hab
      refine ⟨hold a ha, hold b hb, ?_⟩
      rw [hidx a ha, hidx b hb, hadj]
      by_cases hu : g.nodes.idxOf a = (addEdge g s t).nodes.idxOf s
      · simp only [hu, if_true]
        rw [hu] at hi
        by_cases hin : (addEdge g s t).nodes.idxOf t ∈ adj g ((addEdge g s t).nodes.idxOf s)
        · simp only [hin, if_true]; exact hi
        · simp only [hin, if_false]; exact List.mem_append_left _ hi
      · simp only [hu, if_false]; exact hi
    · simp at hab
      obtain ⟨rfl, rfl⟩ := hab
      refine ⟨hs, ht, ?_⟩
      rw [hadj]
      simp only [if_true]
      by_cases hin : (addEdge g a b).nodes.idxOf b ∈ adj g ((addEdge g a b).nodes.idxOf a)
      · simp only [hin, if_true]
      · simp only [hin, if_false]; simp
  · intro x hx
    rw [hN] at hx
    rcases (mem_addNode _ _ _).mp hx with hx | rfl
    · rcases (mem_addNode _ _ _).mp hx with hx | rfl
      · obtain ⟨e, he, hxe⟩ := h.nodes x hx
        exact ⟨e, List.mem_append_left _ he, hxe⟩
      · exact ⟨(x, t), by simp, Or.inl rfl⟩
    · exact ⟨(s, x), by simp, Or.inr rfl⟩

theorem WF.of_foldl : ∀ (es : List (α × α)) (g : DG α) (E : List (α × α)), WF g E →
    WF (es.foldl (fun g e => Jap.Graph.addEdge g e.1 e.2) g) (E ++ es)
  | [], g, E, h => by simpa using h
  | e :: es, g, E, h => by
    have := WF.of_foldl es (Jap.Graph.addEdge g e.1 e.2) (E ++ [(e.1, e.2)]) (h.add_edge e.1 e.2)
    simpa [List.foldl_cons, List.append_assoc] using this

/-- every graph built by `add_edge` calls is well formed w.r.t. exactly those calls -/
theorem WF.of_build (es : List (α × α)) : WF (build es) es := by
  have := WF.of_foldl es DG.empty [] WF.empty
  simpa [Jap.Graph.build] using this

theorem WF.inRange {g : DG α} {E : List (α × α)} (h : WF g E) :
    ∀ u, u < g.nodes.length → ∀ v ∈ adj g u, v < g.nodes.length := by
  intro u _ v hv
  obtain ⟨a, b, _, hb, _⟩ := h.sound u v hv
  exact (List.getElem?_eq_some_iff.mp hb).1

/-- the node list of a built graph: exactly the endpoints of the inserted edges -/
theorem mem_nodes_build (es : List (α × α)) (x : α) : x ∈ (build es).nodes ↔ ∃ e ∈ es, x = e.1 ∨ x = e.2 := by
  constructor
  · exact (WF.of_build es).nodes x
  · rintro ⟨⟨a, b⟩, he, hx⟩
    obtain ⟨ha, hb, _⟩ := (WF.of_build es).complete a b he
    rcases hx with rfl | rfl
    · exact ha
    · exact hb

end Jap.Graph

/-! ## Part 4 — name-level statements about `topo` -/
namespace Jap.Graph

variable {α : Type} [DecidableEq α]

/-- reachability along inserted edges (reflexive, transitive) -/
inductive ReachE (es : List (α × α)) : α → α → Prop
  | refl (a : α) : ReachE es a a
  | tail {a b c : α} : ReachE es a b → (b, c) ∈ es → ReachE es a c

/-- no inserted edge `a → b` is closed by a path `b →* a` (self loops are cycles) -/
def Acyclic (es : List (α × α)) : Prop := ¬ ∃ a b, (a, b) ∈ es ∧ ReachE es b a

omit [DecidableEq α] in
theorem filterMap_range_getElem? (l : List α) : (List.range l.length).filterMap (fun i => l[i]?) = l := by
  induction l with
  | nil => simp
  | cons x r ih =>
    rw [List.length_cons, List.range_succ_eq_map, List.filterMap_cons]
    simp only [List.getElem?_cons_zero, List.filterMap_map]
    congr 1

/-- position lemma on a duplicate-free list -/
theorem idx_split {o pre post : List α} {u : α} (hnd : o.Nodup) (h : o = pre ++ u :: post) :
    o.idxOf u = pre.length ∧ ∀ v ∈ post, pre.length < o.idxOf v := by
  subst h
  have hu : u ∉ pre := by
    intro hm
    have := (List.nodup_append.mp hnd).2.2 u hm u List.mem_cons_self
    exact this rfl
  refine ⟨by simp [List.idxOf_append, hu], ?_⟩
  intro v hv
  have hvpre : v ∉ pre := by
    intro hm
    exact (List.nodup_append.mp hnd).2.2 v hm v (List.mem_cons_of_mem _ hv) rfl
  have hvu : u ≠ v := by
    intro heq; subst heq
    have := (List.nodup_cons.mp (List.nodup_append.mp hnd).2.1).1
    exact this hv
  rw [List.idxOf_append, if_neg hvpre, List.idxOf_cons]
  have : (u == v) = false := by simpa using hvu
  simp [this]

theorem reach_names {g : DG α} {E : List (α × α)} (h : WF g E) {x y : Nat} (hr : Abs.Reach (adj g) x y) :
    ∀ ax, g.nodes[x]? = some ax → ∃ ay, g.nodes[y]? = some ay ∧ ReachE E ax ay := by
  induction hr with
  | refl => intro ax hax; exact ⟨ax, hax, .refl _⟩
  | tail _ hcb ih =>
    intro ax hax
    obtain ⟨ab, hab, hreach⟩ := ih ax hax
    obtain ⟨a', b', ha', hb', he⟩ := h.sound _ _ hcb
    have : a' = ab := by rw [hab] at ha'; exact (Option.some.inj ha').symm
    subst this
    exact ⟨b', hb', .tail hreach he⟩

/-- what `get_topological_order` returns, in terms of the abstract sort of Part 1 -/
theorem getTopologicalOrder_eq {g : DG α} {E : List (α × α)} (h : WF g E) :
    getTopologicalOrder g = nameResult g (Abs.topo (adj g) g.nodes.length) := by
  unfold getTopologicalOrder
  rw [topoIdx_eq_abs (adj g) g.nodes.length h.inRange]

/-- a returned order is a permutation of the node list and every inserted edge goes forward in it -/
theorem topo_ok_names (es : List (α × α)) (o : List α) (h : topo es = .ok o) :
    o.Perm (build es).nodes ∧ ∀ e ∈ es, o.idxOf e.1 < o.idxOf e.2 := by
  have wf := WF.of_build es
  unfold topo at h
  rw [getTopologicalOrder_eq wf] at h
  cases ha : Abs.topo (adj (build es)) (build es).nodes.length with
  | error e =>
    rw [ha] at h
    cases e with
    | fuel => simp [nameResult] at h
    | cycle u v =>
      simp only [nameResult] at h
      split at h <;> simp at h
  | ok oi =>
    rw [ha] at h
    simp only [nameResult, Except.ok.injEq] at h
    obtain ⟨hperm, hlater⟩ := Abs.topo_ok (adj (build es)) _ wf.inRange oi ha
    have hp : o.Perm (build es).nodes := by
      rw [← h]
      have := hperm.filterMap (fun i => (build es).nodes[i]?)
      rwa [filterMap_range_getElem?] at this
    refine ⟨hp, ?_⟩
    have hnd : o.Nodup := hp.nodup_iff.mpr wf.nodup
    rintro ⟨a, b⟩ he
    obtain ⟨hma, hmb, hedge⟩ := wf.complete a b he
    have hia : (build es).nodes.idxOf a ∈ oi :=
      hperm.mem_iff.mpr (List.mem_range.mpr (List.idxOf_lt_length_iff.mpr hma))
    obtain ⟨pre, post, hsplit⟩ := List.mem_iff_append.mp hia
    have hib := hlater pre _ post hsplit _ hedge
    have ho : o = pre.filterMap (fun i => (build es).nodes[i]?) ++ a :: post.filterMap (fun i => (build es).nodes[i]?) := by
      rw [← h, hsplit, List.filterMap_append, List.filterMap_cons, getElem?_idxOf_of_mem hma]
    have hb : b ∈ post.filterMap (fun i => (build es).nodes[i]?) :=
      List.mem_filterMap.mpr ⟨_, hib, getElem?_idxOf_of_mem hmb⟩
    obtain ⟨h1, h2⟩ := idx_split hnd ho
    show o.idxOf a < o.idxOf b
    rw [h1]; exact h2 b hb

/-- a reported error names an inserted edge `a → b` together with a path `b →* a`: a real cycle.
    In particular the fuel `n+1` never runs out. -/
theorem topo_cycle_names (es : List (α × α)) (e : TopoErr α) (h : topo es = .error e) :
    ∃ a b, e = .cycle a b ∧ (a, b) ∈ es ∧ ReachE es b a := by
  have wf := WF.of_build es
  unfold topo at h
  rw [getTopologicalOrder_eq wf] at h
  cases ha : Abs.topo (adj (build es)) (build es).nodes.length with
  | ok oi => rw [ha] at h; simp [nameResult] at h
  | error ei =>
    obtain ⟨u, v, rfl, hu, huv, hreach⟩ := Abs.topo_err (adj (build es)) _ wf.inRange ei ha
    obtain ⟨a, b, hua, hvb, hab⟩ := wf.sound u v huv
    rw [ha] at h
    simp only [nameResult, hua, hvb, Except.error.injEq] at h
    obtain ⟨a', ha', hr⟩ := reach_names wf hreach b hvb
    have : a' = a := by rw [hua] at ha'; exact (Option.some.inj ha').symm
    subst this
    exact ⟨a', b, h.symm, hab, hr⟩

/-- the sort succeeds exactly on acyclic edge lists -/
theorem topo_complete_names (es : List (α × α)) : (∃ o, topo es = .ok o) ↔ Acyclic es := by
  constructor
  · rintro ⟨o, ho⟩ ⟨a, b, hab, hreach⟩
    obtain ⟨_, hfwd⟩ := topo_ok_names es o ho
    have hle : ∀ x y, ReachE es x y → o.idxOf x ≤ o.idxOf y := by
      intro x y hr
      induction hr with
      | refl => exact Nat.le_refl _
      | tail _ he ih => exact Nat.le_trans ih (Nat.le_of_lt (hfwd _ he))
    have h1 := hfwd _ hab
    have h2 := hle b a hreach
    simp only at h1
    omega
  · intro hac
    cases h : topo es with
    | ok o => exact ⟨o, rfl⟩
    | error e =>
      exfalso
      obtain ⟨a, b, _, hab, hr⟩ := topo_cycle_names es e h
      exact hac ⟨a, b, hab, hr⟩

end Jap.Graph

/-! ## Part 5 — `reorder` is the stable sort by the rank of the first matching key -/
namespace Jap.Graph

variable {κ γ : Type}

/-- position of the first key of `order` that matches `c` (`order.length` when none does) -/
def rank (m : κ → γ → Bool) : List κ → γ → Nat
  | [], _ => 0
  | k :: r, c => if m k c then 0 else rank m r c + 1

theorem rank_le_length (m : κ → γ → Bool) (c : γ) : ∀ order, rank m order c ≤ order.length
  | [] => Nat.le_refl _
  | k :: r => by
    unfold rank
    by_cases h : m k c
    · simp [h]
    · simp only [h, Bool.false_eq_true, if_false, List.length_cons]
      exact Nat.succ_le_succ (rank_le_length m c r)

/-- the recursive reading of the loop -/
def reorderRec (m : κ → γ → Bool) : List κ → List γ → List γ
  | [], comps => comps
  | key :: rest, comps => comps.filter (fun c => m key c) ++ reorderRec m rest (comps.filter (fun c => !m key c))

theorem reorderLoop_eq (m : κ → γ → Bool) : ∀ (order : List κ) (comps acc : List γ),
    reorderLoop m order comps acc = acc ++ reorderRec m order comps
  | [], _, _ => rfl
  | key :: rest, comps, acc => by
    simp only [reorderLoop, reorderRec]
    rw [reorderLoop_eq m rest, List.append_assoc]

theorem reorderBy_eq (m : κ → γ → Bool) (order : List κ) (comps : List γ) :
    reorderBy m order comps = reorderRec m order comps := by
  simp [reorderBy, reorderLoop_eq]

theorem reorderRec_perm (m : κ → γ → Bool) : ∀ (order : List κ) (comps : List γ), (reorderRec m order comps).Perm comps
  | [], _ => List.Perm.refl _
  | key :: rest, comps => by
    simp only [reorderRec]
    exact ((List.Perm.refl _).append (reorderRec_perm m rest _)).trans (List.filter_append_perm _ comps)

theorem reorderRec_sorted (m : κ → γ → Bool) : ∀ (order : List κ) (comps : List γ),
    (reorderRec m order comps).Pairwise (fun x y => rank m order x ≤ rank m order y)
  | [], comps => List.pairwise_of_forall (fun _ _ => Nat.le_refl _)
  | key :: rest, comps => by
    simp only [reorderRec]
    rw [List.pairwise_append]
    have hA : ∀ a ∈ comps.filter (fun c => m key c), rank m (key :: rest) a = 0 := by
      intro a ha
      have : m key a = true := (List.mem_filter.mp ha).2
      simp [rank, this]
    have hB : ∀ b ∈ reorderRec m rest (comps.filter (fun c => !m key c)), rank m (key :: rest) b = rank m rest b + 1 := by
      intro b hb
      have hb' := (reorderRec_perm m rest _).mem_iff.mp hb
      have : (!m key b) = true := (List.mem_filter.mp hb').2
      have : m key b = false := by simpa using this
      simp [rank, this]
    refine ⟨?_, ?_, ?_⟩
    · apply List.pairwise_of_forall_mem_list
      intro a ha b hb
      rw [hA a ha, hA b hb]
      exact Nat.le_refl _
    · refine (reorderRec_sorted m rest _).imp_of_mem ?_
      intro a b ha hb hab
      rw [hB a ha, hB b hb]
      exact Nat.succ_le_succ hab
    · intro a ha b _
      rw [hA a ha]
      exact Nat.zero_le _

theorem reorderRec_stable (m : κ → γ → Bool) : ∀ (order : List κ) (comps : List γ) (j : Nat),
    (reorderRec m order comps).filter (fun c => rank m order c == j) = comps.filter (fun c => rank m order c == j)
  | [], _, _ => rfl
  | key :: rest, comps, j => by
    simp only [reorderRec, List.filter_append, List.filter_filter]
    cases j with
    | zero =>
      have h1 : (reorderRec m rest (comps.filter (fun c => !m key c))).filter (fun c => rank m (key :: rest) c == 0) = [] := by
        rw [List.filter_eq_nil_iff]
        intro b hb
        have hb' := (reorderRec_perm m rest _).mem_iff.mp hb
        have : (!m key b) = true := (List.mem_filter.mp hb').2
        have : m key b = false := by simpa using this
        simp [rank, this]
      rw [h1, List.append_nil]
      apply List.filter_congr
      intro x _
      by_cases hx : m key x <;> simp [rank, hx]
    | succ j =>
      have h1 : comps.filter (fun a => rank m (key :: rest) a == j + 1 && m key a) = [] := by
        rw [List.filter_eq_nil_iff]
        intro b _
        by_cases hx : m key b <;> simp [rank, hx]
      have h2 : (reorderRec m rest (comps.filter (fun c => !m key c))).filter (fun c => rank m (key :: rest) c == j + 1)
          = (reorderRec m rest (comps.filter (fun c => !m key c))).filter (fun c => rank m rest c == j) := by
        apply List.filter_congr
        intro b hb
        have hb' := (reorderRec_perm m rest _).mem_iff.mp hb
        have : (!m key b) = true := (List.mem_filter.mp hb').2
        have : m key b = false := by simpa using this
        simp [rank, this]
      rw [h1, List.nil_append, h2, reorderRec_stable m rest _ j, List.filter_filter]
      apply List.filter_congr
      intro x _
      by_cases hx : m key x <;> simp [rank, hx]

/-- in a list sorted by `f`, a strictly smaller `f` means a strictly smaller position -/
theorem idxOf_lt_of_sorted [DecidableEq γ] (f : γ → Nat) : ∀ (l : List γ) (s t : γ),
    l.Pairwise (fun x y => f x ≤ f y) → s ∈ l → t ∈ l → f s < f t → l.idxOf s < l.idxOf t
  | [], _, _, _, hs, _, _ => by simp at hs
  | x :: r, s, t, hp, hs, ht, hlt => by
    have hne : s ≠ t := by intro e; subst e; exact Nat.lt_irrefl _ hlt
    obtain ⟨hx, hr⟩ := List.pairwise_cons.mp hp
    by_cases hxs : x = s
    · subst hxs
      have : (x == t) = false := by simpa using hne
      simp [List.idxOf_cons, this]
    · by_cases hxt : x = t
      · subst hxt
        have hsr : s ∈ r := by
          rcases List.mem_cons.mp hs with h | h
          · exact absurd h.symm hxs
          · exact h
        have := hx s hsr
        omega
      · have hsr : s ∈ r := by
          rcases List.mem_cons.mp hs with h | h
          · exact absurd h.symm hxs
          · exact h
        have htr : t ∈ r := by
          rcases List.mem_cons.mp ht with h | h
          · exact absurd h.symm hxt
          · exact h
        have h1 : (x == s) = false := by simpa using hxs
        have h2 : (x == t) = false := by simpa using hxt
        simp only [List.idxOf_cons, h1, h2, cond_false]
        exact Nat.succ_lt_succ (idxOf_lt_of_sorted f r s t hr hsr htr hlt)

/-- when keys match only themselves, the rank of a key is its position in the order -/
theorem rank_eq_idxOf [DecidableEq κ] (m : κ → κ → Bool) (c : κ) : ∀ (order : List κ),
    (∀ k ∈ order, m k c = true ↔ k = c) → rank m order c = order.idxOf c
  | [], _ => rfl
  | k :: r, h => by
    have hk := h k List.mem_cons_self
    have hr := rank_eq_idxOf m c r (fun k' hk' => h k' (List.mem_cons_of_mem _ hk'))
    by_cases hkc : k = c
    · have hm : m k c = true := hk.mpr hkc
      subst hkc
      simp [rank, hm]
    · have : m k c = false := by
        cases hm : m k c with
        | false => rfl
        | true => exact absurd (hk.mp hm) hkc
      have hb : (k == c) = false := by simpa using hkc
      simp [rank, this, List.idxOf_cons, hb, hr]

theorem keyMatches_self (k : String) : keyMatches k k = true := by
  simp [keyMatches, keyMatchesL]

end Jap.Graph

/-! ## Part 6 — `rank` is the index of the first matching key; component order under flat keys -/
namespace Jap.Graph

variable {κ γ : Type}

theorem rank_before (m : κ → γ → Bool) (c : γ) : ∀ (order : List κ) (i : Nat) (k : κ),
    order[i]? = some k → i < rank m order c → m k c = false
  | [], _, _, h, _ => by simp at h
  | k0 :: r, i, k, h, hlt => by
    by_cases hm : m k0 c
    · simp [rank, hm] at hlt
    · have hm' : m k0 c = false := by simpa using hm
      cases i with
      | zero => simp at h; subst h; exact hm'
      | succ i =>
        simp at h
        simp only [rank, hm', Bool.false_eq_true, if_false] at hlt
        exact rank_before m c r i k h (by omega)

theorem rank_at (m : κ → γ → Bool) (c : γ) : ∀ (order : List κ) (k : κ),
    order[rank m order c]? = some k → m k c = true
  | [], _, h => by simp at h
  | k0 :: r, k, h => by
    by_cases hm : m k0 c
    · simp [rank, hm] at h; subst h; exact hm
    · have hm' : m k0 c = false := by simpa using hm
      simp only [rank, hm', Bool.false_eq_true, if_false, List.getElem?_cons_succ] at h
      exact rank_at m c r k h

theorem mem_insertDesc (k : γ → Nat) (x y : γ) : ∀ l, y ∈ insertDesc k x l ↔ y = x ∨ y ∈ l
  | [] => by simp [insertDesc]
  | z :: r => by
    unfold insertDesc
    by_cases h : k x < k z
    · simp only [h, if_true, List.mem_cons, mem_insertDesc k x y r]
      constructor
      · rintro (h1 | h1 | h1)
        · exact Or.inr (Or.inl h1)
        · exact Or.inl h1
        · exact Or.inr (Or.inr h1)
      · rintro (h1 | h1 | h1)
        · exact Or.inr (Or.inl h1)
        · exact Or.inl h1
        · exact Or.inr (Or.inr h1)
    · simp only [h, if_false, List.mem_cons]

theorem mem_sortDesc (k : γ → Nat) (y : γ) : ∀ l, y ∈ sortDesc k l ↔ y ∈ l
  | [] => by simp [sortDesc]
  | x :: r => by simp [sortDesc, mem_insertDesc, mem_sortDesc k y r]

theorem insertDesc_perm (k : γ → Nat) (x : γ) : ∀ l, (insertDesc k x l).Perm (x :: l)
  | [] => List.Perm.refl _
  | z :: r => by
    unfold insertDesc
    by_cases h : k x < k z
    · simp only [h, if_true]
      exact ((insertDesc_perm k x r).cons z).trans (List.Perm.swap x z r)
    · simp only [h, if_false]
      exact List.Perm.refl _

theorem sortDesc_perm (k : γ → Nat) : ∀ l, (sortDesc k l).Perm l
  | [] => List.Perm.refl _
  | x :: r => by
    simp only [sortDesc]
    exact (insertDesc_perm k x _).trans ((sortDesc_perm k r).cons x)

theorem mem_linkEdges (s : String) : ∀ (links : List Link) (l : Link), l ∈ links → s ∈ l.sources →
    (s, targetNode l.target) ∈ linkEdges links
  | [], _, h, _ => by simp at h
  | l0 :: r, l, h, hs => by
    simp only [linkEdges, List.mem_append]
    rcases List.mem_cons.mp h with rfl | h
    · exact Or.inl (List.mem_map.mpr ⟨s, hs, rfl⟩)
    · exact Or.inr (mem_linkEdges s r l h hs)

/-- for keys that match only themselves, `reorder` places the components along the given order -/
theorem reorder_forward (es : List (String × String)) (o comps : List String) (h : topo es = .ok o)
    (hflat : ∀ k ∈ o, ∀ c ∈ comps, keyMatches k c = true → k = c) :
    ∀ e ∈ es, e.1 ∈ comps → e.2 ∈ comps →
      (reorder id o comps).idxOf e.1 < (reorder id o comps).idxOf e.2 := by
  intro e he hs ht
  have hfwd := (topo_ok_names es o h).2 e he
  have hr : reorder id o comps = reorderRec (fun k c => keyMatches k (id c)) o comps := reorderBy_eq _ _ _
  rw [hr]
  have hperm := reorderRec_perm (fun k c => keyMatches k (id c)) o comps
  have hrank : ∀ c ∈ comps, rank (fun k c => keyMatches k (id c)) o c = o.idxOf c := by
    intro c hc
    apply rank_eq_idxOf
    intro k hk
    constructor
    · exact hflat k hk c hc
    · rintro rfl; exact keyMatches_self _
  apply idxOf_lt_of_sorted (fun c => rank (fun k c => keyMatches k (id c)) o c) _ _ _
    (reorderRec_sorted _ o comps) (hperm.mem_iff.mpr hs) (hperm.mem_iff.mpr ht)
  show rank _ o e.1 < rank _ o e.2
  rw [hrank _ hs, hrank _ ht]
  exact hfwd

end Jap.Graph

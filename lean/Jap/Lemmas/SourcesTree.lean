import Jap.Core.Sources
/-!
Tree facts used by the C04 proofs: decidable divergence of keys, key uniqueness is preserved by the
one-pass operations, frame law for `delK`, and the relation between `leaves` and `getK`.
-/
namespace Jap.Src
open Jap.NS

/-! ### divergence of keys, decidable -/

theorem divergeB_sound : ∀ (x y : Key), divergeB x y = true → Diverge x y
  | a :: p, b :: q, h => by
    by_cases e : a = b
    · subst e
      simp only [divergeB, if_true] at h
      obtain ⟨c, a', b', p', q', h1, h2, h3⟩ := divergeB_sound p q h
      exact ⟨a :: c, a', b', p', q', by simp [h1], by simp [h2], h3⟩
    · exact ⟨[], a, b, p, q, rfl, rfl, e⟩
  | [], _, h => by simp [divergeB] at h
  | _ :: _, [], h => by simp [divergeB] at h

theorem diverge_symm {x y : Key} : Diverge x y → Diverge y x := by
  rintro ⟨c, a, b, p, q, h1, h2, h3⟩
  exact ⟨c, b, a, q, p, h2, h1, Ne.symm h3⟩

theorem diverge_ne {x y : Key} : Diverge x y → x ≠ y := by
  rintro ⟨c, a, b, p, q, h1, h2, h3⟩ e
  rw [h1, h2] at e
  have := List.append_cancel_left e
  simp at this
  exact h3 this.1

theorem diverge_ne_nil {x y : Key} : Diverge x y → y ≠ [] := by
  rintro ⟨c, a, b, p, q, _, h2, _⟩ e
  rw [h2] at e
  simp at e

/-! ### key uniqueness (every Python dict has it) is preserved -/

theorem mem_keysOf_insert (k : SKey) (v : V) (x : SKey) : ∀ kvs : KV, x ∈ keysOf (insert k v kvs) → x = k ∨ x ∈ keysOf kvs
  | [], h => by simp [NS.insert, keysOf] at h; exact Or.inl h
  | (k', v') :: r, h => by
    by_cases e : k' = k
    · simp only [NS.insert, e, if_true, keysOf, List.map_cons, List.mem_cons] at h ⊢
      rcases h with h | h
      · exact Or.inl h
      · exact Or.inr (Or.inr h)
    · simp only [NS.insert, e, if_false, keysOf, List.map_cons, List.mem_cons] at h ⊢
      rcases h with h | h
      · exact Or.inr (Or.inl h)
      · rcases mem_keysOf_insert k v x r h with h | h
        · exact Or.inl h
        · exact Or.inr (Or.inr h)

theorem uniq_insert (k : SKey) (v : V) (hv : uniqV v) : ∀ kvs : KV, uniqKV kvs → uniqKV (insert k v kvs)
  | [], _ => by simp [NS.insert, uniqKV, hv, keysOf]
  | (k', v') :: r, h => by
    simp only [uniqKV] at h
    by_cases e : k' = k
    · subst e
      simp only [NS.insert, if_true, uniqKV]
      exact ⟨h.1, hv, h.2.2⟩
    · simp only [NS.insert, e, if_false, uniqKV]
      refine ⟨?_, h.2.1, uniq_insert k v hv r h.2.2⟩
      intro hm
      rcases mem_keysOf_insert k v k' r hm with h' | h'
      · exact e h'
      · exact h.1 h'

theorem uniq_erase (k : SKey) : ∀ kvs : KV, uniqKV kvs → uniqKV (erase k kvs)
  | [], _ => by simp [erase, uniqKV]
  | (k', v') :: r, h => by
    simp only [uniqKV] at h
    by_cases e : k' = k
    · simp only [erase, e, if_true]; exact h.2.2
    · simp only [erase, e, if_false, uniqKV]
      exact ⟨fun hm => h.1 (mem_keysOf_erase k k' r hm), h.2.1, uniq_erase k r h.2.2⟩

theorem uniq_setK : ∀ (k : Key) (v : V) (kvs : KV), uniqV v → uniqKV kvs → uniqKV (setK k v kvs)
  | [], _, _, _, h => by simpa [setK] using h
  | [leaf], v, kvs, hv, h => by simpa [setK] using uniq_insert leaf v hv kvs h
  | s :: t :: rest, v, kvs, hv, h => by
    unfold setK
    split
    · rename_i sub hl
      have hs : uniqKV sub := by
        have := uniq_lookup s kvs _ h hl
        simpa [uniqV] using this
      exact uniq_insert s _ (by simpa [uniqV] using uniq_setK (t :: rest) v sub hv hs) kvs h
    · exact uniq_insert s _ (by simpa [uniqV] using uniq_setK (t :: rest) v [] hv (by simp [uniqKV])) kvs h

theorem uniq_delK : ∀ (k : Key) (kvs : KV), uniqKV kvs → uniqKV (delK k kvs)
  | [], _, h => by simpa [delK] using h
  | [leaf], kvs, h => by simpa [delK] using uniq_erase leaf kvs h
  | s :: t :: rest, kvs, h => by
    unfold delK
    split
    · rename_i sub hl
      have hs : uniqKV sub := by
        have := uniq_lookup s kvs _ h hl
        simpa [uniqV] using this
      exact uniq_insert s _ (by simpa [uniqV] using uniq_delK (t :: rest) sub hs) kvs h
    · exact h

/-! ### frame law for `delK` -/

theorem getK_delK_diverge : ∀ (c : Key) (a b : SKey) (p q : Key) (kvs : KV),
    a ≠ b → getK (c ++ b :: q) (delK (c ++ a :: p) kvs) = getK (c ++ b :: q) kvs
  | [], a, b, p, q, kvs, hab => by
    have hba : b ≠ a := Ne.symm hab
    cases p with
    | nil =>
      cases q with
      | nil => simp [delK, getK, lookup_erase_other hba]
      | cons q1 qs => simp [delK, getK, lookup_erase_other hba]
    | cons p1 ps =>
      simp only [List.nil_append]
      unfold delK
      split
      · cases q with
        | nil => simp [getK, lookup_insert_other _ hba]
        | cons q1 qs => simp [getK, lookup_insert_other _ hba]
      · rfl
  | s :: c, a, b, p, q, kvs, hab => by
    have ih := fun sub => getK_delK_diverge c a b p q sub hab
    have hne1 : c ++ a :: p ≠ [] := by simp
    have hne2 : c ++ b :: q ≠ [] := by simp
    simp only [List.cons_append]
    rw [delK_cons s _ hne1, getK_cons s _ hne2, getK_cons s _ hne2]
    cases hl : lookup s kvs with
    | none => simp [hl]
    | some w =>
      cases w with
      | ns sub => simp [lookup_insert_same, ih sub]
      | none => simp [hl]
      | atom _ => simp [hl]
      | lst _ => simp [hl]
      | tup _ => simp [hl]
      | dct _ => simp [hl]

/-! ### leaves and reads -/

theorem leavesV_of_nonNs (k : SKey) (v : V) (h : nonNs v = true) : leavesV k v = [([k], v)] := by
  cases v <;> simp_all [leavesV, nonNs]

theorem mem_consAll {k : SKey} {l : List (Key × V)} {x : Key × V} :
    x ∈ consAll k l ↔ ∃ y ∈ l, x = (k :: y.1, y.2) := by
  simp only [consAll, List.mem_map]
  constructor
  · rintro ⟨y, hy, rfl⟩; exact ⟨y, hy, rfl⟩
  · rintro ⟨y, hy, rfl⟩; exact ⟨y, hy, rfl⟩

/-- leaf values are not namespaces and leaf keys are not empty -/
theorem leaves_nonNs : ∀ (kvs : KV) (x : Key × V), x ∈ leaves kvs → nonNs x.2 = true ∧ x.1 ≠ []
  | [], x, h => by simp [leaves] at h
  | (k, v) :: r, x, h => by
    simp only [leaves, List.mem_append] at h
    rcases h with h | h
    · cases v with
      | ns sub =>
        simp only [leavesV] at h
        obtain ⟨y, hy, rfl⟩ := mem_consAll.mp h
        exact ⟨(leaves_nonNs sub y hy).1, by simp⟩
      | none => simp [leavesV] at h; subst h; simp [nonNs]
      | atom a => simp [leavesV] at h; subst h; simp [nonNs]
      | lst a => simp [leavesV] at h; subst h; simp [nonNs]
      | tup a => simp [leavesV] at h; subst h; simp [nonNs]
      | dct a => simp [leavesV] at h; subst h; simp [nonNs]
    · exact leaves_nonNs r x h

/-- a key that reads a non-namespace value is a leaf -/
theorem mem_leaves_of_getK : ∀ (k : Key) (kvs : KV) (v : V), getK k kvs = some v → nonNs v = true → (k, v) ∈ leaves kvs
  | [], _, _, h, _ => by simp [getK] at h
  | s :: q, [], _, h, _ => by
    cases q <;> simp [getK, lookup] at h
  | s :: q, (k', v') :: r, v, h, hv => by
    simp only [leaves, List.mem_append]
    by_cases e : k' = s
    · subst e
      left
      cases q with
      | nil =>
        simp only [getK, lookup, if_true, Option.some.injEq] at h
        subst h
        rw [leavesV_of_nonNs _ _ hv]; simp
      | cons t rest =>
        simp only [getK, lookup, if_true] at h
        cases v' with
        | ns sub =>
          simp only [] at h
          simp only [leavesV]
          exact mem_consAll.mpr ⟨(t :: rest, v), mem_leaves_of_getK (t :: rest) sub v h hv, rfl⟩
        | none => simp at h
        | atom a => simp at h
        | lst a => simp at h
        | tup a => simp at h
        | dct a => simp at h
    · right
      have : getK (s :: q) r = some v := by
        cases q with
        | nil => simpa [getK, lookup, e] using h
        | cons t rest => simpa [getK, lookup, e] using h
      exact mem_leaves_of_getK (s :: q) r v this hv

/-- no leaf of `r` starts with a key that `r` does not hold -/
theorem leaves_head_mem : ∀ (kvs : KV) (s : SKey) (q : Key) (v : V), (s :: q, v) ∈ leaves kvs → s ∈ keysOf kvs
  | [], _, _, _, h => by simp [leaves] at h
  | (k, w) :: r, s, q, v, h => by
    simp only [leaves, List.mem_append] at h
    simp only [keysOf, List.map_cons, List.mem_cons]
    rcases h with h | h
    · left
      cases w with
      | ns sub =>
        simp only [leavesV] at h
        obtain ⟨y, _, hy⟩ := mem_consAll.mp h
        simp at hy; exact hy.1.1
      | none => simp [leavesV] at h; exact h.1.1
      | atom a => simp [leavesV] at h; exact h.1.1
      | lst a => simp [leavesV] at h; exact h.1.1
      | tup a => simp [leavesV] at h; exact h.1.1
      | dct a => simp [leavesV] at h; exact h.1.1
    · right; exact leaves_head_mem r s q v h

/-- with unique keys, a leaf reads back -/
theorem getK_of_mem_leaves : ∀ (kvs : KV) (k : Key) (v : V), uniqKV kvs → (k, v) ∈ leaves kvs → getK k kvs = some v
  | [], _, _, _, h => by simp [leaves] at h
  | (k', w) :: r, k, v, hu, h => by
    simp only [uniqKV] at hu
    simp only [leaves, List.mem_append] at h
    rcases h with h | h
    · cases w with
      | ns sub =>
        simp only [leavesV] at h
        obtain ⟨y, hy, e⟩ := mem_consAll.mp h
        simp only [Prod.mk.injEq] at e
        obtain ⟨e1, e2⟩ := e
        subst e1 e2
        have hsub : uniqKV sub := by simpa [uniqV] using hu.2.1
        have ih := getK_of_mem_leaves sub y.1 y.2 hsub hy
        have hne : y.1 ≠ [] := (leaves_nonNs sub y hy).2
        rw [getK_cons k' _ hne]
        simp [lookup, ih]
      | none => simp [leavesV] at h; obtain ⟨e1, e2⟩ := h; subst e1 e2; simp [getK, lookup]
      | atom a => simp [leavesV] at h; obtain ⟨e1, e2⟩ := h; subst e1 e2; simp [getK, lookup]
      | lst a => simp [leavesV] at h; obtain ⟨e1, e2⟩ := h; subst e1 e2; simp [getK, lookup]
      | tup a => simp [leavesV] at h; obtain ⟨e1, e2⟩ := h; subst e1 e2; simp [getK, lookup]
      | dct a => simp [leavesV] at h; obtain ⟨e1, e2⟩ := h; subst e1 e2; simp [getK, lookup]
    · have ih := getK_of_mem_leaves r k v hu.2.2 h
      cases k with
      | nil => exact absurd rfl (leaves_nonNs r _ h).2
      | cons s q =>
        have hs : s ∈ keysOf r := leaves_head_mem r s q v h
        have hne : k' ≠ s := fun e => hu.1 (e ▸ hs)
        cases q with
        | nil => simpa [getK, lookup, hne] using ih
        | cons t rest => simpa [getK, lookup, hne] using ih

/-! ### leaves after a write / a pop: nothing new except the written leaf -/

theorem leaves_insert (s : SKey) (w : V) : ∀ (kvs : KV) (x : Key × V), x ∈ leaves (insert s w kvs) →
    x ∈ leavesV s w ∨ x ∈ leaves kvs
  | [], x, h => by simpa [NS.insert, leaves] using h
  | (k', v') :: r, x, h => by
    by_cases e : k' = s
    · simp only [NS.insert, e, if_true, leaves, List.mem_append] at h ⊢
      rcases h with h | h
      · exact Or.inl h
      · exact Or.inr (Or.inr h)
    · simp only [NS.insert, e, if_false, leaves, List.mem_append] at h ⊢
      rcases h with h | h
      · exact Or.inr (Or.inl h)
      · rcases leaves_insert s w r x h with h | h
        · exact Or.inl h
        · exact Or.inr (Or.inr h)

theorem leaves_of_lookup (s : SKey) : ∀ (kvs : KV) (sub : KV) (y : Key × V), lookup s kvs = some (.ns sub) → y ∈ leaves sub →
    (s :: y.1, y.2) ∈ leaves kvs
  | [], _, _, h, _ => by simp [lookup] at h
  | (k', v') :: r, sub, y, h, hy => by
    simp only [leaves, List.mem_append]
    by_cases e : k' = s
    · subst e
      simp only [lookup, if_true, Option.some.injEq] at h
      subst h
      left
      simp only [leavesV]
      exact mem_consAll.mpr ⟨y, hy, rfl⟩
    · simp only [lookup, e, if_false] at h
      right
      exact leaves_of_lookup s r sub y h hy

theorem leaves_setK : ∀ (k : Key) (v : V) (kvs : KV) (x : Key × V), nonNs v = true → x ∈ leaves (setK k v kvs) →
    x = (k, v) ∨ x ∈ leaves kvs
  | [], _, _, _, _, h => by simp only [setK] at h; exact Or.inr h
  | [leaf], v, kvs, x, hv, h => by
    simp only [setK] at h
    rcases leaves_insert leaf v kvs x h with h | h
    · rw [leavesV_of_nonNs _ _ hv] at h
      left; simpa using h
    · exact Or.inr h
  | s :: t :: rest, v, kvs, x, hv, h => by
    unfold setK at h
    split at h
    · rename_i sub hl
      rcases leaves_insert s _ kvs x h with h | h
      · simp only [leavesV] at h
        obtain ⟨y, hy, rfl⟩ := mem_consAll.mp h
        rcases leaves_setK (t :: rest) v sub y hv hy with h' | h'
        · left; rw [h']
        · right; exact leaves_of_lookup s kvs sub y hl h'
      · exact Or.inr h
    · rcases leaves_insert s _ kvs x h with h | h
      · simp only [leavesV] at h
        obtain ⟨y, hy, rfl⟩ := mem_consAll.mp h
        rcases leaves_setK (t :: rest) v [] y hv hy with h' | h'
        · left; rw [h']
        · simp [leaves] at h'
      · exact Or.inr h

theorem leaves_erase (s : SKey) : ∀ (kvs : KV) (x : Key × V), x ∈ leaves (erase s kvs) → x ∈ leaves kvs
  | [], x, h => by simpa [erase] using h
  | (k', v') :: r, x, h => by
    by_cases e : k' = s
    · simp only [erase, e, if_true] at h
      simp only [leaves, List.mem_append]; exact Or.inr h
    · simp only [erase, e, if_false, leaves, List.mem_append] at h ⊢
      rcases h with h | h
      · exact Or.inl h
      · exact Or.inr (leaves_erase s r x h)

theorem leaves_delK : ∀ (k : Key) (kvs : KV) (x : Key × V), x ∈ leaves (delK k kvs) → x ∈ leaves kvs
  | [], _, _, h => by simpa [delK] using h
  | [leaf], kvs, x, h => by simp only [delK] at h; exact leaves_erase leaf kvs x h
  | s :: t :: rest, kvs, x, h => by
    unfold delK at h
    split at h
    · rename_i sub hl
      rcases leaves_insert s _ kvs x h with h | h
      · simp only [leavesV] at h
        obtain ⟨y, hy, rfl⟩ := mem_consAll.mp h
        exact leaves_of_lookup s kvs sub y hl (leaves_delK (t :: rest) sub y hy)
      · exact h
    · exact h

theorem leaves_foldSet : ∀ (as : List (Key × V)) (kvs : KV) (x : Key × V), (∀ a ∈ as, nonNs a.2 = true) →
    x ∈ leaves (foldSet as kvs) → x ∈ as ∨ x ∈ leaves kvs
  | [], _, _, _, h => Or.inr (by simpa [foldSet] using h)
  | a :: rest, kvs, x, hv, h => by
    simp only [foldSet, List.foldl_cons] at h
    rcases leaves_foldSet rest (setK a.1 a.2 kvs) x (fun b hb => hv b (List.mem_cons_of_mem _ hb)) h with h | h
    · exact Or.inl (List.mem_cons_of_mem _ h)
    · rcases leaves_setK a.1 a.2 kvs x (hv a List.mem_cons_self) h with h | h
      · left; rw [h]; exact List.mem_cons_self
      · exact Or.inr h

theorem uniq_foldSet : ∀ (as : List (Key × V)) (kvs : KV), (∀ a ∈ as, nonNs a.2 = true) → uniqKV kvs → uniqKV (foldSet as kvs)
  | [], _, _, h => by simpa [foldSet] using h
  | a :: rest, kvs, hv, h => by
    simp only [foldSet, List.foldl_cons]
    have hu : uniqV a.2 := by
      have := hv a List.mem_cons_self
      cases h2 : a.2 <;> simp_all [uniqV, nonNs]
    exact uniq_foldSet rest _ (fun b hb => hv b (List.mem_cons_of_mem _ hb)) (uniq_setK a.1 a.2 kvs hu h)

end Jap.Src

/-
Lemmas for the file-system half of C19 (engine PathMode): kernel walks versus
the lexical string functions (`splitSlash`, `joinSegs`, `normSegs`, `normAbs`),
when `os.path.abspath` is harmless (`lexOK`), and the bracket lemmas of the
loader over a file system with symbolic links.
-/
import Jap.Core.PathModeFS
import Jap.Lemmas.PathMode

namespace Jap.PathMode

variable {D : Type}

/-! ### walks -/

theorem walk_append (fs : FS D) (d : D) (a b : List P) :
    walk fs d (a ++ b) = (walk fs d a).bind (fun d' => walk fs d' b) := by
  induction a generalizing d with
  | nil => simp [walk]
  | cons s rest ih =>
    simp only [List.cons_append, walk]
    split
    · exact ih d
    · cases h : fs.step d s with
      | none => simp
      | some d' => simp [ih d']

theorem walk_skip (fs : FS D) (d : D) (s : P) (rest : List P) (h : s = [] ∨ s = ['.']) :
    walk fs d (s :: rest) = walk fs d rest := by
  simp [walk, h]

theorem walk_step (fs : FS D) (d : D) (s : P) (rest : List P) (h : ¬ (s = [] ∨ s = ['.'])) :
    walk fs d (s :: rest) = (fs.step d s).bind (fun d' => walk fs d' rest) := by
  simp only [walk, h, ↓reduceIte]
  cases fs.step d s <;> rfl

/-! ### `split('/')` of joined strings -/

theorem splitSlashAux_noslash (cur s : P) (hs : '/' ∉ s) : splitSlashAux cur s = [cur.reverse ++ s] := by
  induction s generalizing cur with
  | nil => simp [splitSlashAux]
  | cons c t ih =>
    have hc : c ≠ '/' := fun h => hs (by simp [h])
    have ht : '/' ∉ t := fun h => hs (List.mem_cons_of_mem _ h)
    simp [splitSlashAux, hc, ih _ ht]

theorem splitSlashAux_append (cur s t : P) (hs : '/' ∉ s) :
    splitSlashAux cur (s ++ '/' :: t) = (cur.reverse ++ s) :: splitSlashAux [] t := by
  induction s generalizing cur with
  | nil => simp [splitSlashAux]
  | cons c s' ih =>
    have hc : c ≠ '/' := fun h => hs (by simp [h])
    have ht : '/' ∉ s' := fun h => hs (List.mem_cons_of_mem _ h)
    simp [splitSlashAux, hc, ih _ ht]

theorem splitSlashAux_free (cur p : P) (hc : '/' ∉ cur) : ∀ s ∈ splitSlashAux cur p, '/' ∉ s := by
  induction p generalizing cur with
  | nil => intro s hs; simp [splitSlashAux] at hs; subst hs; simpa using hc
  | cons c t ih =>
    intro s hs
    simp only [splitSlashAux] at hs
    split at hs
    · rcases List.mem_cons.mp hs with h | h
      · subst h; simpa using hc
      · exact ih [] (by simp) s h
    · rename_i hne
      refine ih (c :: cur) ?_ s hs
      intro h
      rcases List.mem_cons.mp h with h | h
      · exact hne h.symm
      · exact hc h

theorem splitSlash_free (p : P) : ∀ s ∈ splitSlash p, '/' ∉ s := splitSlashAux_free [] p (by simp)

theorem splitSlashAux_joinSegs (s : P) (rest : List P) (hs : '/' ∉ s) (hr : ∀ x ∈ rest, '/' ∉ x) :
    splitSlashAux [] (s ++ joinSegs rest) = s :: rest := by
  induction rest generalizing s with
  | nil => simp [joinSegs, splitSlashAux_noslash [] s hs]
  | cons r rest ih =>
    have h1 : '/' ∉ r := hr r (by simp)
    have h2 : ∀ x ∈ rest, '/' ∉ x := fun x hx => hr x (List.mem_cons_of_mem _ hx)
    simp only [joinSegs, List.cons_append]
    rw [splitSlashAux_append [] s _ hs, ih r h1 h2]
    simp

theorem walk_splitSlash_joinSegs (fs : FS D) (d : D) (segs : List P) (h : ∀ x ∈ segs, '/' ∉ x) :
    walk fs d (splitSlash (joinSegs segs)) = walk fs d segs := by
  cases segs with
  | nil => simp [joinSegs, splitSlash, splitSlashAux, walk]
  | cons s rest =>
    have h1 : '/' ∉ s := h s (by simp)
    have h2 : ∀ x ∈ rest, '/' ∉ x := fun x hx => h x (List.mem_cons_of_mem _ hx)
    have e : splitSlash (joinSegs (s :: rest)) = [] :: splitSlashAux [] (s ++ joinSegs rest) := by
      simp [joinSegs, splitSlash, splitSlashAux]
    rw [e, splitSlashAux_joinSegs s rest h1 h2]
    exact walk_skip fs d [] _ (Or.inl rfl)

theorem joinSegs_eq_nil {l : List P} (h : joinSegs l = []) : l = [] := by
  cases l with
  | nil => rfl
  | cons s r => simp [joinSegs] at h

theorem normSegs_mem (acc rest : List P) : ∀ x ∈ normSegs acc rest, x ∈ acc ∨ x ∈ rest := by
  induction rest generalizing acc with
  | nil => intro x hx; simp [normSegs] at hx; exact Or.inl hx
  | cons s r ih =>
    intro x hx
    simp only [normSegs] at hx
    split at hx
    · rcases ih acc x hx with h | h
      · exact Or.inl h
      · exact Or.inr (List.mem_cons_of_mem _ h)
    · split at hx
      · rcases ih (acc.drop 1) x hx with h | h
        · exact Or.inl (List.mem_of_mem_drop h)
        · exact Or.inr (List.mem_cons_of_mem _ h)
      · rcases ih (s :: acc) x hx with h | h
        · rcases List.mem_cons.mp h with h | h
          · exact Or.inr (by simp [h])
          · exact Or.inl h
        · exact Or.inr (List.mem_cons_of_mem _ h)

/-- where the kernel goes for `os.path.abspath(p)`: the walk along the lexically normalised components -/
theorem walk_normAbs (fs : FS D) (d : D) (p : P) :
    walk fs d (splitSlash (normAbs p)) = walk fs d (normSegs [] (splitSlash p)) := by
  have hfree : ∀ x ∈ normSegs [] (splitSlash p), '/' ∉ x := by
    intro x hx
    rcases normSegs_mem [] (splitSlash p) x hx with h | h
    · simp at h
    · exact splitSlash_free p x h
  unfold normAbs
  split
  · rename_i h
    rw [joinSegs_eq_nil h]
    simp [splitSlash, splitSlashAux, walk, normSegs]
  · rename_i q hq
    exact walk_splitSlash_joinSegs fs d _ hfree

/-! ### `os.path.join` against the kernel -/

theorem splitSlashAux_append_slash (cur a b : P) :
    splitSlashAux cur (a ++ '/' :: b) = splitSlashAux cur a ++ splitSlashAux [] b := by
  induction a generalizing cur with
  | nil => simp [splitSlashAux]
  | cons c t ih =>
    by_cases hc : c = '/'
    · subst hc; simp [splitSlashAux, ih]
    · simp [splitSlashAux, hc, ih]

theorem splitSlash_append_slash (a b : P) : splitSlash (a ++ '/' :: b) = splitSlash a ++ splitSlash b :=
  splitSlashAux_append_slash [] a b

/-- the kernel finds, for the absolute string a `Path` stores, exactly what the relative spelling named from the
directory the process was in at creation -/
theorem resolveAbs_join (fs : FS D) (hl : fs.Lawful) (d : D) (e : P) (he : isAbs e = false) :
    resolveAbs fs (join (fs.phys d) e) = walk fs d (splitSlash e) := by
  have ⟨habs, hres⟩ := hl d
  unfold resolveAbs at hres ⊢
  simp only [join, he, Bool.false_eq_true, ↓reduceIte]
  split
  · rename_i h
    rcases h with h | h
    · simp [h, isAbs] at habs
    · obtain ⟨a', ha'⟩ : ∃ a', fs.phys d = a' ++ ['/'] := by
        have := List.getLast?_eq_some_iff.mp h
        obtain ⟨ys, hys⟩ := this
        exact ⟨ys, hys⟩
      rw [ha'] at hres ⊢
      have e1 : a' ++ ['/'] ++ e = a' ++ '/' :: e := by simp
      have e2 : a' ++ ['/'] = a' ++ '/' :: [] := rfl
      rw [e1, splitSlash_append_slash, walk_append]
      rw [e2, splitSlash_append_slash, walk_append] at hres
      cases hw : walk fs fs.root (splitSlash a') with
      | none => simp [hw] at hres
      | some d0 =>
        simp only [hw, Option.bind_some] at hres ⊢
        simp [splitSlash, splitSlashAux, walk] at hres
        rw [hres]
  · rw [splitSlash_append_slash, walk_append, hres]; rfl

/-! ### when `abspath` is harmless -/

/-- a string without a `..` component: the lexical normalisation only drops what the kernel skips -/
theorem walk_normSegs_noDotDot (fs : FS D) (d : D) (acc rest : List P) (h : ['.', '.'] ∉ rest) :
    walk fs d (normSegs acc rest) = walk fs d (acc.reverse ++ rest) := by
  induction rest generalizing acc with
  | nil => simp [normSegs]
  | cons s r ih =>
    have hs : ¬ s = ['.', '.'] := fun e => h (by simp [e])
    have hr : ['.', '.'] ∉ r := fun e => h (List.mem_cons_of_mem _ e)
    simp only [normSegs]
    by_cases hskip : s = [] ∨ s = ['.']
    · simp only [hskip, ↓reduceIte]
      rw [ih acc hr, walk_append, walk_append]
      congr 1
      funext d'
      exact (walk_skip fs d' s r hskip).symm
    · simp only [hskip, hs, ↓reduceIte]
      rw [ih (s :: acc) hr]
      simp

theorem resolveAbs_normAbs_noDotDot (fs : FS D) (p : P) (h : ['.', '.'] ∉ splitSlash p) :
    resolveAbs fs (normAbs p) = resolveAbs fs p := by
  unfold resolveAbs
  rw [walk_normAbs, walk_normSegs_noDotDot fs fs.root [] _ h]
  simp

def properSeg (s : P) : Prop := s ≠ [] ∧ s ≠ ['.'] ∧ s ≠ ['.', '.']

/-- in a file system without directory links the lexical cancellation of `name/..` is what the kernel does -/
theorem walk_normSegs_tree (fs : FS D) (ht : fs.TreeLike) (rest : List P) :
    ∀ (acc : List P) (d0 d : D), (∀ s ∈ acc, properSeg s) → walk fs fs.root acc.reverse = some d0 →
      walk fs d0 rest = some d → walk fs fs.root (normSegs acc rest) = some d := by
  induction rest with
  | nil =>
    intro acc d0 d _ h0 h1
    simp only [walk, Option.some.injEq] at h1
    simpa [normSegs, h1] using h0
  | cons s r ih =>
    intro acc d0 d hacc h0 h1
    simp only [normSegs]
    by_cases hskip : s = [] ∨ s = ['.']
    · simp only [hskip, ↓reduceIte]
      rw [walk_skip fs d0 s r hskip] at h1
      exact ih acc d0 d hacc h0 h1
    · simp only [hskip, ↓reduceIte]
      rw [walk_step fs d0 s r hskip] at h1
      by_cases hdd : s = ['.', '.']
      · simp only [hdd, ↓reduceIte]
        subst hdd
        cases acc with
        | nil =>
          simp only [List.reverse_nil, walk, Option.some.injEq] at h0
          subst h0
          rw [ht.1] at h1
          exact ih [] fs.root d (by simp) (by simp [walk]) (by simpa using h1)
        | cons a acc' =>
          have hpa := hacc a (by simp)
          rw [List.reverse_cons, walk_append] at h0
          cases he : walk fs fs.root acc'.reverse with
          | none => simp [he] at h0
          | some e0 =>
            simp only [he, Option.bind_some] at h0
            rw [walk_step fs e0 a [] (by intro h; rcases h with h | h; exact hpa.1 h; exact hpa.2.1 h)] at h0
            cases hst : fs.step e0 a with
            | none => simp [hst] at h0
            | some d1 =>
              simp only [hst, Option.bind_some, walk, Option.some.injEq] at h0
              subst h0
              have hup := ht.2 e0 a d1 hst hpa.2.2
              rw [hup] at h1
              exact ih acc' e0 d (fun x hx => hacc x (List.mem_cons_of_mem _ hx)) he (by simpa using h1)
      · simp only [hdd, ↓reduceIte]
        cases hst : fs.step d0 s with
        | none => simp [hst] at h1
        | some d1 =>
          simp only [hst, Option.bind_some] at h1
          refine ih (s :: acc) d1 d ?_ ?_ h1
          · intro x hx
            rcases List.mem_cons.mp hx with h | h
            · subst h
              exact ⟨fun h => hskip (Or.inl h), fun h => hskip (Or.inr h), hdd⟩
            · exact hacc x h
          · rw [List.reverse_cons, walk_append, h0, Option.bind_some, walk_step fs d0 s [] hskip, hst]
            simp [walk]

theorem resolveAbs_normAbs_tree (fs : FS D) (ht : fs.TreeLike) (p : P) (d : D) (h : resolveAbs fs p = some d) :
    resolveAbs fs (normAbs p) = some d := by
  unfold resolveAbs at h ⊢
  rw [walk_normAbs]
  exact walk_normSegs_tree fs ht _ [] fs.root d (by simp) (by simp [walk]) h

theorem lexOK_of_noDotDot [DecidableEq D] (fs : FS D) (p : P) (h : ['.', '.'] ∉ splitSlash p) : lexOK fs p = true := by
  simp [lexOK, resolveAbs_normAbs_noDotDot fs p h]

theorem lexOK_of_tree [DecidableEq D] (fs : FS D) (ht : fs.TreeLike) (p : P) (d : D) (h : resolveAbs fs p = some d) :
    lexOK fs p = true := by
  simp [lexOK, resolveAbs_normAbs_tree fs ht p d h, h]

/-! ### the bracket over a file system -/

theorem enterF_eq (fs : FS D) (dir : P) (d1 : D) (hr : resolveAbs fs dir = some d1) :
    enterF fs dir = some ⟨d1, some dir⟩ := by
  simp [enterF, hr]

/-- where `abspath` is harmless the old bracket entered the same directory as the new one -/
theorem oldEnterF_eq_of_lexOK [DecidableEq D] (fs : FS D) (dir : P) (hl : lexOK fs dir = true) :
    oldEnterF fs dir = enterF fs dir := by
  have := of_decide_eq_true hl
  simp [oldEnterF, enterF, this]

theorem newBracket_enter : (newBracket : Bracket D).enter = enterF := rfl
theorem newBracket_onFail (s : StF D) (dir : P) : (newBracket : Bracket D).onFail s dir = s := rfl

mutual
theorem runItemF_spec [DecidableEq D] (fs : FS D) : ∀ (i : Item) (s : StF D),
    (runItemF fs i s).st = s ∧ (runItemF fs i s).trace <+: specItemF fs s.cwd i ∧
    ((runItemF fs i s).ok = true → (runItemF fs i s).trace = specItemF fs s.cwd i) ∧
    (runItemF fs i s).ok = (noFailItem i && existItemF fs s.cwd i)
  | .path rel, s => by simp [runItemF, runItemG, specItemF, noFailItem, existItemF]
  | .fail, s => by simp [runItemF, runItemG, specItemF, noFailItem, existItemF]
  | .listFile ref rels, s => by
    simp only [runItemF, runItemG, specItemF, existItemF, noFailItem, trueDir, newBracket_enter, newBracket_onFail]
    cases h1 : resolveAbs fs (dirname (absIn fs s.cwd ref)) with
    | none => simp
    | some d1 =>
      simp only [enterF_eq fs _ d1 h1]
      by_cases h2 : resolveAbs fs (dirname (absIn fs d1 ref)) = some d1
      · simp [h2, enterF_eq fs _ d1 h2]
      · simp [h2]
  | .sub ref items, s => by
    simp only [runItemF, runItemG, specItemF, existItemF, noFailItem, trueDir, newBracket_enter, newBracket_onFail]
    cases h1 : resolveAbs fs (dirname (absIn fs s.cwd ref)) with
    | none => simp
    | some d1 =>
      simp only [enterF_eq fs _ d1 h1]
      have ih := runItemsF_spec fs items ⟨d1, some (dirname (absIn fs s.cwd ref))⟩
      refine ⟨trivial, ?_, ?_, ih.2.2.2⟩
      · exact List.prefix_cons_inj _ |>.mpr ih.2.1
      · intro hok
        rw [ih.2.2.1 hok]
  | .subObj ref rem isDir items, s => by
    simp only [runItemF, runItemG, specItemF, existItemF, noFailItem, newBracket_enter, newBracket_onFail]
    cases h1 : resolveAbs fs (objDir ref rem isDir) with
    | none => simp
    | some d1 =>
      simp only [enterF_eq fs _ d1 h1]
      have ih := runItemsF_spec fs items ⟨d1, some (objDir ref rem isDir)⟩
      refine ⟨trivial, ?_, ?_, ih.2.2.2⟩
      · exact List.prefix_cons_inj _ |>.mpr ih.2.1
      · intro hok
        rw [ih.2.2.1 hok]
theorem runItemsF_spec [DecidableEq D] (fs : FS D) : ∀ (l : List Item) (s : StF D),
    (runItemsF fs l s).st = s ∧ (runItemsF fs l s).trace <+: specItemsF fs s.cwd l ∧
    ((runItemsF fs l s).ok = true → (runItemsF fs l s).trace = specItemsF fs s.cwd l) ∧
    (runItemsF fs l s).ok = (noFailItems l && existItemsF fs s.cwd l)
  | [], s => by simp [runItemsF, runItemsG, specItemsF, noFailItems, existItemsF]
  | i :: rest, s => by
    have h1 := runItemF_spec fs i s
    have h2 := runItemsF_spec fs rest s
    simp only [runItemF, runItemsF] at h1 h2
    simp only [runItemsF, runItemsG, specItemsF, noFailItems, existItemsF]
    cases hok : (runItemG newBracket fs i s).ok
    · simp only [Bool.false_eq_true, ↓reduceIte]
      refine ⟨h1.1, List.IsPrefix.trans h1.2.1 (List.prefix_append _ _), (fun h => by rw [hok] at h; cases h), ?_⟩
      have hb : (noFailItem i && existItemF fs s.cwd i) = false := by rw [← h1.2.2.2, hok]
      rw [hok]
      rcases (Bool.and_eq_false_iff.mp hb) with hb | hb <;> simp [hb]
    · simp only [↓reduceIte, h1.1]
      refine ⟨h2.1, ?_, ?_, ?_⟩
      · rw [h1.2.2.1 hok]
        exact (List.prefix_append_right_inj _).mpr h2.2.1
      · intro h
        rw [h1.2.2.1 hok, h2.2.2.1 h]
      · have hb : (noFailItem i && existItemF fs s.cwd i) = true := by rw [← h1.2.2.2, hok]
        have hb' := Bool.and_eq_true_iff.mp hb
        rw [h2.2.2.2]
        simp [hb'.1, hb'.2]
end

end Jap.PathMode

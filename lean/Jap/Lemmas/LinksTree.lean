import Jap.Core.LinksTree
import Jap.Lemmas.Links
/-!
Lemmas for C15 on parser trees: the invariant of the links of the selected sub-parser at every depth.
-/
namespace Jap.Links
open Jap.NS

/-- the link equations of one parser on a configuration -/
def HoldsLinks (E : Env) (ls : List Link) (cfg : KV) : Prop :=
  ∀ l ∈ ls, ∀ args, argsOf cfg l.sources = some args →
    ∃ v, linkValue E l args = .ok v ∧ (∀ w ∈ targetValues l cfg, w = v) ∧
      (l.kind = .plain → getK l.target cfg = some v)

theorem holdsLinks_of_apply (E : Env) (ls : List Link) (c0 cfg : KV)
    (ha : applyParsingLinks E ls c0 = .ok cfg) (hST : SrcIndep ls) (hTT : TgtIndep ls)
    (hwf : ∀ l ∈ ls, WfLink l) : HoldsLinks E ls cfg := by
  intro l hl args hargs
  have hsrc := apply_sources_stable E ls c0 cfg ha hST hTT
  have h0 : argsOf c0 l.sources = some args := by
    rw [← argsOf_congr cfg c0 l.sources (hsrc l hl)]; exact hargs
  obtain ⟨v, hv, hw⟩ := apply_inv_all E ls c0 cfg ha hST hTT l hl args h0
  obtain ⟨v', hv', _, hpl⟩ := (apply_inv E ls c0 cfg ha hST hTT).2 l hl args h0
  rw [hv] at hv'; cases hv'
  exact ⟨v, hv, hw, fun hk => hpl hk (hwf l hl).1⟩

/-- what is assumed of the encoding of subcommand names as values -/
structure NamesOK (N : Names) : Prop where
  none : N.nameOf .none = .none
  rt : ∀ k, N.nameOf (N.nameVal k) = some k
  nn : ∀ k, isNone (N.nameVal k) = false

mutual
/-- the invariant for a parser and, recursively, for the parser of the subcommand the configuration selects -/
def HoldsTree (E : Env) (N : Names) : PTree → KV → Prop
  | .node p _ dest _ choices, cfg =>
    HoldsLinks E p.links cfg ∧ HoldsChoices E N choices ((getK [dest] cfg).bind N.nameOf) cfg
def HoldsChoices (E : Env) (N : Names) : List (SKey × PTree) → Option SKey → KV → Prop
  | [], _, _ => True
  | (k, t) :: r, sel, cfg =>
    if sel = some k then ∀ sub, getK [k] cfg = some (.ns sub) → HoldsTree E N t sub
    else HoldsChoices E N r sel cfg
end

mutual
/-- well-formed trees: independent links at every node; the links of a parser do not write to its subcommand dest nor
    to the sections of its subcommands (`link_arguments` finds no action for such keys) -/
def WfTree : PTree → Prop
  | .node p hg dest _ choices =>
    SrcIndep p.links ∧ TgtIndep p.links ∧ (∀ l ∈ p.links, WfLink l) ∧ (hg = true ∨ p.links = []) ∧
    (∀ l ∈ p.links, diverges l.target [dest] = true ∧ ∀ k ∈ choices.map (·.1), diverges l.target [k] = true) ∧
    dest ∉ choices.map (·.1) ∧ WfChoices choices
def WfChoices : List (SKey × PTree) → Prop
  | [] => True
  | (_, t) :: r => WfTree t ∧ WfChoices r
end

theorem holdsChoices_none (E : Env) (N : Names) : ∀ (choices : List (SKey × PTree)) (cfg : KV),
    HoldsChoices E N choices .none cfg
  | [], _ => by simp [HoldsChoices]
  | (k, t) :: r, cfg => by
    simp only [HoldsChoices]
    rw [if_neg (by intro e; cases e)]
    exact holdsChoices_none E N r cfg

theorem holdsChoices_absent (E : Env) (N : Names) (s : SKey) : ∀ (choices : List (SKey × PTree)) (cfg : KV),
    (∀ sub, getK [s] cfg ≠ some (.ns sub)) → HoldsChoices E N choices (some s) cfg
  | [], _, _ => by simp [HoldsChoices]
  | (k, t) :: r, cfg, h => by
    simp only [HoldsChoices]
    by_cases e : some s = some k
    · rw [if_pos e]
      cases e
      intro sub hs
      exact absurd hs (h sub)
    · rw [if_neg e]
      exact holdsChoices_absent E N s r cfg h

theorem holdsChoices_nomatch (E : Env) (N : Names) (s : SKey) : ∀ (choices : List (SKey × PTree)) (cfg : KV),
    s ∉ choices.map (·.1) → HoldsChoices E N choices (some s) cfg
  | [], _, _ => by simp [HoldsChoices]
  | (k, t) :: r, cfg, h => by
    simp only [HoldsChoices]
    have hne : ¬ some s = some k := by
      intro e; cases e; exact h (by simp)
    rw [if_neg hne]
    exact holdsChoices_nomatch E N s r cfg (fun hm => h (by simp only [List.map_cons, List.mem_cons]; exact Or.inr hm))

theorem applyChoice_mem (E : Env) (N : Names) : ∀ (choices : List (SKey × PTree)) (s : SKey) (v : V) (r : Option V),
    applyChoice E N choices s v = .ok r → s ∈ choices.map (·.1)
  | [], _, _, _, h => by simp [applyChoice] at h
  | (k, t) :: rest, s, v, r, h => by
    simp only [applyChoice] at h
    by_cases e : k = s
    · simp [e]
    · simp only [e, if_false] at h
      simp only [List.map_cons, List.mem_cons]
      exact Or.inr (applyChoice_mem E N rest s v r h)

/-! ### the selection -/

theorem diverges_single {a b : SKey} (h : a ≠ b) : diverges [a] [b] = true := by
  simp [diverges, h]

theorem getK_delSections_frame (k : SKey) : ∀ (ks : List SKey) (cfg : KV), k ∉ ks →
    getK [k] (delSections ks cfg) = getK [k] cfg
  | [], _, _ => rfl
  | x :: r, cfg, h => by
    simp only [delSections]
    rw [getK_delSections_frame k r _ (fun hm => h (List.mem_cons_of_mem _ hm))]
    exact getK_delKey_frame [x] [k] cfg (diverges_single (fun e => h (e ▸ List.mem_cons_self)))

/-- after `get_subcommands` the dest names the subcommand it returned -/
theorem selectSub_dest (N : Names) (hN : NamesOK N) (dest : SKey) (names : List SKey) (cfg : KV)
    (hd : dest ∉ names) :
    (selectSub N dest names cfg).1 = (getK [dest] (selectSub N dest names cfg).2).bind N.nameOf := by
  unfold selectSub
  simp only []
  -- the first stage
  have hfb : ∀ keys : List SKey,
      (match keys with
        | k :: _ => ((some k, setK [dest] (N.nameVal k) cfg) : Option SKey × KV)
        | [] => (.none, cfg)).1 =
      (getK [dest] (match keys with
        | k :: _ => ((some k, setK [dest] (N.nameVal k) cfg) : Option SKey × KV)
        | [] => (.none, cfg)).2).bind N.nameOf ∨ keys = [] := by
    intro keys
    cases keys with
    | nil => exact Or.inr rfl
    | cons k r =>
      left
      simp only []
      rw [getK_setK_same [dest] _ cfg (by simp)]
      simp [hN.rt k]
  have hr : ∀ r : Option SKey × KV, r.1 = (getK [dest] r.2).bind N.nameOf →
      (match r.1 with
        | some s =>
          if (names.filter (fun k => isNsV (getK [k] cfg))).length > 1 then
            ((some s, delSections ((names.filter (fun k => isNsV (getK [k] cfg))).filter (· != s)) r.2) : Option SKey × KV)
          else r
        | .none => r).1 =
      (getK [dest] (match r.1 with
        | some s =>
          if (names.filter (fun k => isNsV (getK [k] cfg))).length > 1 then
            ((some s, delSections ((names.filter (fun k => isNsV (getK [k] cfg))).filter (· != s)) r.2) : Option SKey × KV)
          else r
        | .none => r).2).bind N.nameOf := by
    intro r hr
    cases h1 : r.1 with
    | none => simp only []; rw [← hr, h1]
    | some s =>
      simp only []
      split
      · simp only []
        rw [getK_delSections_frame dest _ r.2 (fun hm => hd (List.mem_filter.mp (List.mem_filter.mp hm).1).1), ← hr, h1]
      · rw [← hr, h1]
  apply hr
  cases hg : getK [dest] cfg with
  | none =>
    simp only []
    rcases hfb (names.filter (fun k => isNsV (getK [k] cfg))) with h | h
    · exact h
    · rw [h]; simp [hg]
  | some v =>
    simp only []
    split
    · rename_i hnone
      rcases hfb (names.filter (fun k => isNsV (getK [k] cfg))) with h | h
      · exact h
      · rw [h]
        cases v with
        | none => simp [hg, hN.none]
        | atom _ => simp [isNone] at hnone
        | lst _ => simp [isNone] at hnone
        | tup _ => simp [isNone] at hnone
        | dct _ => simp [isNone] at hnone
        | ns _ => simp [isNone] at hnone
    · simp [hg]

/-! ### the recursion -/

mutual
theorem applyTree_holds (E : Env) (N : Names) (hN : NamesOK N) : ∀ (t : PTree) (cfg0 cfg : KV),
    applyTree E N false t cfg0 = .ok cfg → WfTree t → HoldsTree E N t cfg
  | .node p hg dest req choices, cfg0, cfg, h, hw => by
    simp only [WfTree] at hw
    obtain ⟨hST, hTT, hwf, hgrp, hoff, hdn, hwc⟩ := hw
    simp only [applyTree, Bool.false_eq_true, if_false] at h
    -- name the selection
    generalize hsel : selectSub N dest (choices.map (·.1)) cfg0 = sel at h
    have hseld : sel.1 = (getK [dest] sel.2).bind N.nameOf := by
      rw [← hsel]; exact selectSub_dest N hN dest _ cfg0 hdn
    -- the own pass
    have hown : ∀ cfg1, (if (!hg) = true then Except.ok cfg1 else applyParsingLinks E p.links cfg1) = .ok cfg →
        HoldsLinks E p.links cfg ∧ ∀ k, (∀ l ∈ p.links, diverges l.target k = true) → getK k cfg = getK k cfg1 := by
      intro cfg1 h1
      cases hg with
      | false =>
        simp only [Bool.not_false, if_true] at h1
        cases h1
        have hl : p.links = [] := by
          rcases hgrp with h' | h'
          · cases h'
          · exact h'
        exact ⟨(by rw [hl]; intro l hl'; cases hl'), fun _ _ => rfl⟩
      | true =>
        simp only [Bool.not_true, Bool.false_eq_true, if_false] at h1
        exact ⟨holdsLinks_of_apply E p.links cfg1 cfg h1 hST hTT hwf,
          (apply_inv E p.links cfg1 cfg h1 hST hTT).1⟩
    have hdestk : ∀ l ∈ p.links, diverges l.target [dest] = true := fun l hl => (hoff l hl).1
    simp only [HoldsTree]
    cases hs1 : sel.1 with
    | none =>
      simp only [hs1] at h
      obtain ⟨hl, hf⟩ := hown sel.2 h
      refine ⟨hl, ?_⟩
      rw [hf [dest] hdestk, ← hseld, hs1]
      exact holdsChoices_none E N choices cfg
    | some s =>
      simp only [hs1] at h
      cases hgs : getK [s] sel.2 with
      | none =>
        simp only [hgs] at h
        obtain ⟨hl, hf⟩ := hown sel.2 h
        refine ⟨hl, ?_⟩
        rw [hf [dest] hdestk, ← hseld, hs1]
        by_cases hm : s ∈ choices.map (·.1)
        · apply holdsChoices_absent
          intro sub hsub
          rw [hf [s] (fun l hl => (hoff l hl).2 s hm), hgs] at hsub; cases hsub
        · exact holdsChoices_nomatch E N s choices cfg hm
      | some v =>
        simp only [hgs] at h
        cases hc : applyChoice E N choices s v with
        | error e => simp [hc] at h
        | ok r =>
          simp only [hc] at h
          have hm := applyChoice_mem E N choices s v r hc
          have hsd : s ≠ dest := fun e => hdn (e ▸ hm)
          cases r with
          | none =>
            simp only [] at h
            obtain ⟨hl, hf⟩ := hown _ h
            refine ⟨hl, ?_⟩
            rw [hf [dest] hdestk, ← hseld, hs1]
            apply applyChoice_holds E N hN choices s v .none hc hwc cfg
            rw [hf [s] (fun l hl => (hoff l hl).2 s hm)]
            simpa using hgs
          | some v' =>
            simp only [] at h
            obtain ⟨hl, hf⟩ := hown _ h
            refine ⟨hl, ?_⟩
            rw [hf [dest] hdestk, getK_setK_frame [s] [dest] v' sel.2 (diverges_single hsd), ← hseld, hs1]
            apply applyChoice_holds E N hN choices s v (some v') hc hwc cfg
            rw [hf [s] (fun l hl => (hoff l hl).2 s hm), getK_setK_same [s] v' sel.2 (by simp)]
            rfl
theorem applyChoice_holds (E : Env) (N : Names) (hN : NamesOK N) : ∀ (choices : List (SKey × PTree)) (s : SKey) (v : V)
    (r : Option V), applyChoice E N choices s v = .ok r → WfChoices choices →
    ∀ cfg', getK [s] cfg' = some (r.getD v) → HoldsChoices E N choices (some s) cfg'
  | [], s, v, r, h, _, _, _ => by simp [applyChoice] at h
  | (k, t) :: rest, s, v, r, h, hw, cfg', hg => by
    simp only [WfChoices] at hw
    simp only [applyChoice] at h
    simp only [HoldsChoices]
    by_cases e : k = s
    · subst e
      rw [if_pos rfl]
      simp only [if_true] at h
      intro sub hsub
      rw [hg] at hsub
      cases v with
      | ns sub0 =>
        simp only [] at h
        cases ht : applyTree E N false t sub0 with
        | error e => simp [ht] at h
        | ok c =>
          simp only [ht] at h
          cases h
          simp only [Option.getD_some, Option.some.injEq, V.ns.injEq] at hsub
          subst hsub
          exact applyTree_holds E N hN t sub0 c ht hw.1
      | none => simp only [] at h; split at h <;> cases h <;> simp at hsub
      | atom _ => simp only [] at h; split at h <;> cases h <;> simp at hsub
      | lst _ => simp only [] at h; split at h <;> cases h <;> simp at hsub
      | tup _ => simp only [] at h; split at h <;> cases h <;> simp at hsub
      | dct _ => simp only [] at h; split at h <;> cases h <;> simp at hsub
    · rw [if_neg (by intro e'; cases e'; exact e rfl)]
      simp only [e, if_false] at h
      exact applyChoice_holds E N hN rest s v r h hw.2 cfg' hg
end

/-! ### parse of a tree -/

theorem parseT_ok (E : Env) (N : Names) (t : PTree) (inputs : List Input) (cfg : KV)
    (h : parseT E N t inputs = .ok cfg) : ∃ c0, applyTree E N false t c0 = .ok cfg := by
  unfold parseT at h
  split at h
  · cases h
  · rename_i c0 _
    unfold parseCommonT at h
    split at h
    · cases h
    · rename_i c hc
      split at h
      · cases h
      · split at h
        · cases h
        · cases h; exact ⟨c0, hc⟩

/-- guard 1: with `apply_config_skip` set or `--print_config` requested nothing is done, at no level -/
theorem applyTree_off (E : Env) (N : Names) : ∀ (t : PTree) (cfg : KV), applyTree E N true t cfg = .ok cfg
  | .node _ _ _ _ _, _ => by simp [applyTree]

/-! ### every source position, every item -/

/-- `_initial_input_checks`: an accepted call has no source that is a target of an earlier link (whatever its position
    in the tuple), its target is no source of an earlier link (whatever the position there) nor one of its own -/
theorem addLink_all_sources (p p' : Parser) (srcs : List Key) (co : List Bool) (t : Key) (fn : Option Nat)
    (h : addLink p srcs co t fn = .ok p') :
    (∀ l ∈ p.links, ∀ s ∈ l.sources, s.key ≠ t) ∧ (∀ s ∈ srcs, ∀ l ∈ p.links, l.target ≠ s) ∧ t ∉ srcs ∧
    (∀ l ∈ p.links, l.target ≠ t) := by
  obtain ⟨ssrc, ta, hT, hS, hOwn, hTS, _, _, _, _⟩ := addLink_ok p p' srcs co t fn h
  refine ⟨?_, ?_, ?_, ?_⟩
  · intro l hl s hs e
    have : t ∈ existingSources p := by
      unfold existingSources
      exact List.mem_flatMap.mpr ⟨l, hl, List.mem_map.mpr ⟨s, hs, e⟩⟩
    simp [List.contains_eq_mem, this] at hTS
  · intro s hs l hl e
    have : s ∈ existingTargets p := by
      unfold existingTargets; exact List.mem_map.mpr ⟨l, hl, e⟩
    simp only [List.any_eq_false, List.contains_eq_mem, decide_eq_true_eq] at hS
    exact hS s hs this
  · simpa [List.contains_eq_mem] using hOwn
  · intro l hl e
    have : t ∈ existingTargets p := by
      unfold existingTargets; exact List.mem_map.mpr ⟨l, hl, e⟩
    simp [List.contains_eq_mem, this] at hT

/-- what the loop of `set_target_value` does to one item -/
def itemSet (c : Key) (v : V) : V → V
  | .ns kvs => if (getK c kvs).isSome then .ns (setK c v kvs) else .ns kvs
  | x => x

theorem setInItems_eq_map (c : Key) (v : V) : ∀ items : List V, setInItems c v items = items.map (itemSet c v)
  | [] => rfl
  | .ns kvs :: r => by simp [setInItems, itemSet, setInItems_eq_map c v r]
  | .none :: r => by simp [setInItems, itemSet, setInItems_eq_map c v r]
  | .atom _ :: r => by simp [setInItems, itemSet, setInItems_eq_map c v r]
  | .lst _ :: r => by simp [setInItems, itemSet, setInItems_eq_map c v r]
  | .tup _ :: r => by simp [setInItems, itemSet, setInItems_eq_map c v r]
  | .dct _ :: r => by simp [setInItems, itemSet, setInItems_eq_map c v r]

/-- the list branch is taken as soon as ANY item is a namespace with the key -/
theorem anyHas_iff (c : Key) : ∀ items : List V,
    anyHas c items = true ↔ ∃ kvs, V.ns kvs ∈ items ∧ (getK c kvs).isSome = true
  | [] => by simp [anyHas]
  | .ns kvs :: r => by
    simp only [anyHas, Bool.or_eq_true, anyHas_iff c r, List.mem_cons]
    constructor
    · rintro (h | ⟨k, hk, hs⟩)
      · exact ⟨kvs, Or.inl rfl, h⟩
      · exact ⟨k, Or.inr hk, hs⟩
    · rintro ⟨k, hk | hk, hs⟩
      · cases hk; exact Or.inl hs
      · exact Or.inr ⟨k, hk, hs⟩
  | .none :: r => by simp [anyHas, anyHas_iff c r]
  | .atom _ :: r => by simp [anyHas, anyHas_iff c r]
  | .lst _ :: r => by simp [anyHas, anyHas_iff c r]
  | .tup _ :: r => by simp [anyHas, anyHas_iff c r]
  | .dct _ :: r => by simp [anyHas, anyHas_iff c r]

theorem mem_itemValues (c : Key) (kvs : KV) (w : V) : ∀ items : List V, V.ns kvs ∈ items → getK c kvs = some w →
    w ∈ itemValues c items
  | [], h, _ => by cases h
  | x :: r, h, hg => by
    rcases List.mem_cons.mp h with e | h'
    · subst e; simp [itemValues, hg]
    · have := mem_itemValues c kvs w r h' hg
      cases x <;> simp [itemValues, this]

/-- `set_target_value` on a list of classes: the dest then holds the list in which EVERY item that is a namespace
    with the key has the value, the other items being untouched -/
theorem setTargetValue_list (l : Link) (n : Nat) (v : V) (cfg : KV) (items : List V) (hk : l.kind = .initArg n)
    (hg : getK (l.target.take n) cfg = some (.lst items))
    (hany : ∃ kvs, V.ns kvs ∈ items ∧ (getK (l.target.drop n) kvs).isSome = true) :
    getK (l.target.take n) (setTargetValue l v cfg) = some (.lst (items.map (itemSet (l.target.drop n) v))) := by
  have ha := (anyHas_iff (l.target.drop n) items).mpr hany
  unfold setTargetValue
  simp only [hk, hg, ha, if_true]
  rw [getK_setK_same _ _ cfg (getK_ne_nil hg), setInItems_eq_map]

/-! ### a checker for `WfTree` -/

def srcIndepB (ls : List Link) : Bool :=
  ls.all fun l => ls.all fun l' => l'.sources.all fun s => diverges l.target s.key

def tgtIndepB : List Link → Bool
  | [] => true
  | l :: r => r.all (fun l' => diverges l.target l'.target) && tgtIndepB r

def wfLinkB (l : Link) : Bool :=
  !l.target.isEmpty &&
    (match l.kind with
     | .plain => true
     | .initArg n => decide (n < l.target.length))

mutual
def wfTreeB : PTree → Bool
  | .node p hg dest _ choices =>
    srcIndepB p.links && tgtIndepB p.links && p.links.all wfLinkB && (hg || p.links.isEmpty) &&
    p.links.all (fun l => diverges l.target [dest] && (choices.map (·.1)).all (fun k => diverges l.target [k])) &&
    !(choices.map (·.1)).contains dest && wfChoicesB choices
def wfChoicesB : List (SKey × PTree) → Bool
  | [] => true
  | (_, t) :: r => wfTreeB t && wfChoicesB r
end

theorem srcIndepB_sound (ls : List Link) (h : srcIndepB ls = true) : SrcIndep ls := by
  unfold srcIndepB at h
  simp only [List.all_eq_true] at h
  exact fun l hl l' hl' s hs => h l hl l' hl' s hs

theorem tgtIndepB_sound : ∀ ls : List Link, tgtIndepB ls = true → TgtIndep ls
  | [], _ => List.Pairwise.nil
  | l :: r, h => by
    simp only [tgtIndepB, Bool.and_eq_true, List.all_eq_true] at h
    exact List.Pairwise.cons h.1 (tgtIndepB_sound r h.2)

theorem wfLinkB_sound (l : Link) (h : wfLinkB l = true) : WfLink l := by
  unfold wfLinkB at h
  simp only [Bool.and_eq_true, Bool.not_eq_true', List.isEmpty_eq_false_iff] at h
  refine ⟨h.1, fun n hk => ?_⟩
  have h2 := h.2
  rw [hk] at h2
  simpa using h2

mutual
theorem wfTreeB_sound : ∀ t : PTree, wfTreeB t = true → WfTree t
  | .node p hg dest req choices, h => by
    simp only [wfTreeB, Bool.and_eq_true, Bool.or_eq_true, List.all_eq_true, Bool.not_eq_true',
      List.isEmpty_iff] at h
    obtain ⟨⟨⟨⟨⟨⟨h1, h2⟩, h3⟩, h4⟩, h5⟩, h6⟩, h7⟩ := h
    simp only [WfTree]
    refine ⟨srcIndepB_sound _ h1, tgtIndepB_sound _ h2, fun l hl => wfLinkB_sound l (h3 l hl), h4,
      fun l hl => ⟨(h5 l hl).1, fun k hk => (h5 l hl).2 k hk⟩, ?_, wfChoicesB_sound choices h7⟩
    intro hm
    have : (choices.map (·.1)).contains dest = true := by simpa [List.contains_eq_mem] using hm
    rw [this] at h6; cases h6
theorem wfChoicesB_sound : ∀ cs : List (SKey × PTree), wfChoicesB cs = true → WfChoices cs
  | [], _ => by simp [WfChoices]
  | (k, t) :: r, h => by
    simp only [wfChoicesB, Bool.and_eq_true] at h
    simp only [WfChoices]
    exact ⟨wfTreeB_sound t h.1, wfChoicesB_sound r h.2⟩
end

end Jap.Links

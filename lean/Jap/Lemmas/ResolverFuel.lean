/-
E9 (Resolver): the recursion of `resolve` terminates on acyclic programs — a measure on frames
that strictly decreases along every call the resolver follows, hence `Prog.bound` fuel suffices
and extra fuel does not change the answer.
-/
import Jap.Lemmas.ResolverBasic

namespace Jap.Resolver

/-- the frame a use makes the resolver visit -/
def subFrame (P : Prog) (wh : Where) : Use → Option Frame
  | .superCall frm _ _ => superFrame P wh frm
  | .call t _ _ => targetFrame wh t
  | _ => none

theorem collect_congr {rec1 rec2 : Frame → Out} {P : Prog} {wh : Where} :
    ∀ (us : List Use) (a : Acc),
      (∀ u ∈ us, ∀ fr, subFrame P wh u = some fr → rec1 fr = rec2 fr) →
      collect rec1 P wh us a = collect rec2 P wh us a := by
  intro us
  induction us with
  | nil => intro a _; rfl
  | cons u us ih =>
    intro a h
    have ih' : ∀ a, collect rec1 P wh us a = collect rec2 P wh us a :=
      fun a => ih a (fun u hu => h u (List.mem_cons_of_mem _ hu))
    cases u with
    | pop n d => simp only [collect]; exact ih' _
    | get n d => simp only [collect]; exact ih' _
    | popIn n d => simp only [collect]; exact ih' _
    | superCall frm k g =>
      simp only [collect]
      cases hs : superFrame P wh frm with
      | none => exact ih' _
      | some fr =>
        have := h (.superCall frm k g) (List.mem_cons_self) fr (by simp [subFrame, hs])
        simp only [this]
        cases rec2 fr <;> simp [ih']
    | call t k g =>
      simp only [collect]
      cases hs : targetFrame wh t with
      | none => exact ih' _
      | some fr =>
        have := h (.call t k g) (List.mem_cons_self) fr (by simp [subFrame, hs])
        simp only [this]
        cases rec2 fr <;> simp [ih']

theorem collect_ne_nofuel {rec : Frame → Out} {P : Prog} {wh : Where} :
    ∀ (us : List Use) (a : Acc),
      (∀ u ∈ us, ∀ fr, subFrame P wh u = some fr → rec fr ≠ .nofuel) →
      collect rec P wh us a ≠ .nofuel := by
  intro us
  induction us with
  | nil => intro a _; simp [collect]
  | cons u us ih =>
    intro a h
    have ih' : ∀ a, collect rec P wh us a ≠ .nofuel :=
      fun a => ih a (fun u hu => h u (List.mem_cons_of_mem _ hu))
    cases u with
    | pop n d => simp only [collect]; exact ih' _
    | get n d => simp only [collect]; exact ih' _
    | popIn n d => simp only [collect]; exact ih' _
    | superCall frm k g =>
      simp only [collect]
      cases hs : superFrame P wh frm with
      | none => exact ih' _
      | some fr =>
        have := h (.superCall frm k g) (List.mem_cons_self) fr (by simp [subFrame, hs])
        cases hr : rec fr with
        | ok r => simp only [hr]; exact ih' _
        | crash => simp [hr]
        | nofuel => exact absurd hr this
    | call t k g =>
      simp only [collect]
      cases hs : targetFrame wh t with
      | none => exact ih' _
      | some fr =>
        have := h (.call t k g) (List.mem_cons_self) fr (by simp [subFrame, hs])
        cases hr : rec fr with
        | ok r => simp only [hr]; exact ih' _
        | crash => simp [hr]
        | nofuel => exact absurd hr this

theorem group_ne_nofuel (lists : List (Bool × List Param)) : group lists ≠ .nofuel := by
  unfold group
  split
  · simp
  · simp
  · split <;> simp

theorem resolveCallable_congr {rec1 rec2 : Frame → Out} {P : Prog} {wh : Where} {c : Callable}
    (h : ∀ u ∈ liveUses c.uses, ∀ fr, subFrame P wh u = some fr → rec1 fr = rec2 fr) :
    resolveCallable rec1 P wh c = resolveCallable rec2 P wh c := by
  unfold resolveCallable
  rw [collect_congr _ _ h]

theorem resolveCallable_ne_nofuel {rec : Frame → Out} {P : Prog} {wh : Where} {c : Callable}
    (h : ∀ u ∈ liveUses c.uses, ∀ fr, subFrame P wh u = some fr → rec fr ≠ .nofuel) :
    resolveCallable rec P wh c ≠ .nofuel := by
  unfold resolveCallable
  split
  · simp
  · have := collect_ne_nofuel (rec := rec) (P := P) (wh := wh) (liveUses c.uses) ⟨[], []⟩ h
    cases hc : collect rec P wh (liveUses c.uses) ⟨[], []⟩ with
    | nofuel => exact absurd hc this
    | crash => simp
    | ok a =>
      simp only
      have hg := group_ne_nofuel a.lists
      cases hgg : group a.lists with
      | nofuel => exact absurd hgg hg
      | crash => simp
      | ok g => simp

/-! ### the measure -/

def mu (P : Prog) : Frame → Nat
  | .entry i => i * P.width + P.width - 3
  | .init r _ ctx => r * P.width + ctx.length + 1
  | .meth o _ => o * P.width
  | .cmeth o _ => o * P.width + P.width - 2

def validFrame (P : Prog) : Frame → Prop
  | .entry i => i < P.entries.length
  | .init r o ctx => r < P.entries.length ∧ o ≤ r ∧ ctx.length ≤ maxMro P.entries + 1 ∧ ∀ x ∈ ctx, x ≤ r
  | .meth o _ => o < P.entries.length
  | .cmeth o _ => o < P.entries.length

theorem allIdx_get {α : Type} {f : Nat → α → Bool} : ∀ {l : List α} {s i : Nat} {x : α},
    allIdx f s l = true → l[i]? = some x → f (s + i) x = true := by
  intro l
  induction l with
  | nil => intro s i x _ h; simp at h
  | cons a l ih =>
    intro s i x h hx
    simp only [allIdx, Bool.and_eq_true] at h
    cases i with
    | zero =>
      simp only [List.getElem?_cons_zero, Option.some.injEq] at hx
      subst hx
      simpa using h.1
    | succ i =>
      simp only [List.getElem?_cons_succ] at hx
      have := ih h.2 hx
      rwa [show s + (i + 1) = s + 1 + i by omega]

theorem maxMro_ge : ∀ {es : List Entry} {i : Nat} {k : Class}, es[i]? = some (.cls k) → k.mro.length ≤ maxMro es := by
  intro es
  induction es with
  | nil => intro i k h; simp at h
  | cons e es ih =>
    intro i k h
    cases i with
    | zero =>
      simp only [List.getElem?_cons_zero, Option.some.injEq] at h
      subst h
      simp only [maxMro]
      omega
    | succ i =>
      simp only [List.getElem?_cons_succ] at h
      have := ih h
      cases e with
      | fn c => simpa [maxMro] using this
      | cls k' => simp only [maxMro]; omega

theorem cls?_eq {P : Prog} {i : Nat} {k : Class} (h : P.cls? i = some k) : P.entries[i]? = some (.cls k) := by
  unfold Prog.cls? at h
  split at h
  · rename_i k' hk
    simp only [Option.some.injEq] at h
    subst h
    exact hk
  · cases h

theorem ownInit_eq {P : Prog} {i : Nat} {c : Callable} (h : P.ownInit i = some c) :
    ∃ k, P.entries[i]? = some (.cls k) ∧ k.init = some c := by
  unfold Prog.ownInit at h
  split at h
  · rename_i k hk
    exact ⟨k, cls?_eq hk, h⟩
  · cases h

theorem getElem?_lt {α : Type} {l : List α} {i : Nat} {x : α} (h : l[i]? = some x) : i < l.length := by
  exact (List.getElem?_eq_some_iff.1 h).1

/-- `get_mro_parameters` lands on a class of the list, with the rest of the list from there -/
theorem nextInit_spec {P : Prog} : ∀ {l : List Nat} {d : Nat} {s : List Nat},
    nextInit P l = some (d, s) → ∃ pre t, l = pre ++ d :: t ∧ s = d :: t ∧ (P.ownInit d).isSome := by
  intro l
  induction l with
  | nil => intro d s h; simp [nextInit] at h
  | cons a l ih =>
    intro d s h
    simp only [nextInit] at h
    split at h
    · rename_i c hc
      simp only [Option.some.injEq, Prod.mk.injEq] at h
      obtain ⟨rfl, rfl⟩ := h
      exact ⟨[], l, rfl, rfl, by simp [hc]⟩
    · obtain ⟨pre, t, rfl, rfl, hi⟩ := ih h
      exact ⟨a :: pre, t, rfl, rfl, hi⟩

theorem dropTo_suffix (x : Nat) : ∀ (l : List Nat), ∃ pre, l = pre ++ dropTo x l := by
  intro l
  induction l with
  | nil => exact ⟨[], rfl⟩
  | cons a l ih =>
    simp only [dropTo]
    split
    · exact ⟨[], rfl⟩
    · obtain ⟨pre, h⟩ := ih
      exact ⟨a :: pre, by rw [List.cons_append, ← h]⟩

theorem superFrameAt_spec {P : Prog} {r : Nat} {frm : Option Nat} {ctx : List Nat} {fr : Frame}
    (h : superFrameAt P r (superCtx P frm ctx) = some fr) :
    ∃ pre hd pre2 d t, ctx = pre ++ hd :: (pre2 ++ d :: t) ∧ fr = .init r d (d :: t) := by
  have hsuf : ∃ pre, ctx = pre ++ superCtx P frm ctx := by
    cases frm with
    | none => exact ⟨[], rfl⟩
    | some x =>
      cases ctx with
      | nil => exact ⟨[], rfl⟩
      | cons hh tt =>
        simp only [superCtx]
        cases P.superMap.lookup (hh, x) with
        | none => exact dropTo_suffix x (hh :: tt)
        | some r =>
          cases r with
          | none => exact ⟨hh :: tt, by simp⟩
          | some d => exact dropTo_suffix d (hh :: tt)
  obtain ⟨pre, hpre⟩ := hsuf
  generalize superCtx P frm ctx = ctx' at h hpre
  cases ctx' with
  | nil => simp [superFrameAt] at h
  | cons hd tl =>
    simp only [superFrameAt] at h
    cases hn : nextInit P tl with
    | none => simp [hn] at h
    | some ds =>
      obtain ⟨d, s⟩ := ds
      simp only [hn, Option.some.injEq] at h
      obtain ⟨pre2, t, htl, hs2, _⟩ := nextInit_spec hn
      subst hs2
      exact ⟨pre, hd, pre2, d, t, by rw [hpre, htl], h.symm⟩

/-- what the termination argument needs to know about a body and the place it is looked at -/
def whereOK (P : Prog) (wh : Where) (c : Callable) (M : Nat) : Prop :=
  match wh with
  | .fn => ∃ i, callableAcyclic .fn i 0 c = true ∧ i < P.entries.length ∧ i * P.width ≤ M
  | .init r o ctx => ∃ nM, callableAcyclic .init o nM c = true ∧ r < P.entries.length ∧ o ≤ r ∧
      (∀ x ∈ ctx, x ≤ r) ∧ ctx.length ≤ maxMro P.entries + 1 ∧ r * P.width + ctx.length + 1 ≤ M
  | .meth o => ∃ nM, callableAcyclic .meth o nM c = true ∧ o < P.entries.length ∧ o * P.width ≤ M
  | .cmeth o => ∃ nM, callableAcyclic .cmeth o nM c = true ∧ o < P.entries.length ∧ o * P.width + P.width - 2 ≤ M

theorem width_pos (P : Prog) : 6 ≤ P.width := by
  unfold Prog.width
  omega

theorem entry_lt {P : Prog} {j o : Nat} (h : j < o) : j * P.width + P.width - 1 < o * P.width := by
  have h1 : (j + 1) * P.width ≤ o * P.width := Nat.mul_le_mul_right _ h
  have h2 : (j + 1) * P.width = j * P.width + P.width := Nat.succ_mul _ _
  have := width_pos P
  omega

/-- a call of entry `j` / of a classmethod of class `j` from a body that sits at index `s > j` -/
theorem target_sub {P : Prog} {j s M : Nat} (h : j < s) (hs : s < P.entries.length) (hM : s * P.width ≤ M) :
    (validFrame P (.entry j) ∧ mu P (.entry j) < M) ∧ ∀ jj, validFrame P (.cmeth j jj) ∧ mu P (.cmeth j jj) < M := by
  have := entry_lt (P := P) h
  have := width_pos P
  refine ⟨⟨by simp only [validFrame]; omega, by simp only [mu]; omega⟩, fun jj => ⟨by simp only [validFrame]; omega, by simp only [mu]; omega⟩⟩

theorem sub_of_whereOK {P : Prog} {wh : Where} {c : Callable} {M : Nat} (hw : whereOK P wh c M)
    {u : Use} (hu : u ∈ liveUses c.uses) {fr : Frame} (hs : subFrame P wh u = some fr) :
    validFrame P fr ∧ mu P fr < M := by
  have hW := width_pos P
  -- the site, the index the body sits at, and the room below the bound
  have hsite : ∃ site s nM, callableAcyclic site s nM c = true ∧ s < P.entries.length ∧ s * P.width ≤ M := by
    cases wh with
    | fn => obtain ⟨i, hac, hi, hM⟩ := hw; exact ⟨_, i, _, hac, hi, hM⟩
    | init r o ctx =>
      obtain ⟨nM, hac, hr, hor, _, _, hM⟩ := hw
      have h2 : o * P.width ≤ r * P.width := Nat.mul_le_mul_right _ hor
      exact ⟨_, o, nM, hac, by omega, by omega⟩
    | meth o => obtain ⟨nM, hac, ho, hM⟩ := hw; exact ⟨_, o, nM, hac, ho, hM⟩
    | cmeth o => obtain ⟨nM, hac, ho, hM⟩ := hw; exact ⟨_, o, nM, hac, ho, by omega⟩
  obtain ⟨site, s, nM, hac, hsN, hsM⟩ := hsite
  have huok := List.all_eq_true.1 hac u hu
  cases u with
  | pop n d => simp [subFrame] at hs
  | get n d => simp [subFrame] at hs
  | popIn n d => simp [subFrame] at hs
  | superCall frm k g =>
    cases wh with
    | fn => simp [subFrame, superFrame] at hs
    | meth o => simp [subFrame, superFrame] at hs
    | cmeth o => simp [subFrame, superFrame] at hs
    | init r o ctx =>
      obtain ⟨_, _, hr, hor, hctx, hlen, hM⟩ := hw
      simp only [subFrame, superFrame] at hs
      obtain ⟨pre, hd, pre2, d, t, hctxeq, rfl⟩ := superFrameAt_spec hs
      have hlen2 : (d :: t).length < ctx.length := by
        rw [hctxeq]; simp only [List.length_append, List.length_cons]; omega
      refine ⟨⟨hr, ?_, by omega, ?_⟩, by simp only [mu]; omega⟩
      · apply hctx; rw [hctxeq]; simp
      · intro x hx; apply hctx; rw [hctxeq]
        simp only [List.mem_append, List.mem_cons] at hx ⊢
        rcases hx with rfl | hx
        · exact Or.inr (Or.inr (Or.inr (Or.inl rfl)))
        · exact Or.inr (Or.inr (Or.inr (Or.inr hx)))
  | call t k g =>
    cases t with
    | entry j =>
      simp only [subFrame, targetFrame, Option.some.injEq] at hs
      subst hs
      simp only [useOK, decide_eq_true_eq] at huok
      exact (target_sub huok hsN hsM).1
    | attrEntry j =>
      simp only [subFrame, targetFrame, Option.some.injEq] at hs
      subst hs
      simp only [useOK, Bool.and_eq_true, decide_eq_true_eq] at huok
      exact (target_sub huok.2 hsN hsM).1
    | classMeth cc jj =>
      simp only [subFrame, targetFrame, Option.some.injEq] at hs
      subst hs
      simp only [useOK, decide_eq_true_eq] at huok
      exact (target_sub huok hsN hsM).2 jj
    | selfMeth j =>
      cases wh with
      | fn => simp [subFrame, targetFrame] at hs
      | meth o => simp [subFrame, targetFrame] at hs
      | cmeth o => simp [subFrame, targetFrame] at hs
      | init r o ctx =>
        obtain ⟨_, _, hr, hor, _, _, hM⟩ := hw
        simp only [subFrame, targetFrame, Option.some.injEq] at hs
        subst hs
        have h2 : o * P.width ≤ r * P.width := Nat.mul_le_mul_right _ hor
        exact ⟨by simp only [validFrame]; omega, by simp only [mu]; omega⟩
    | clsSelf =>
      cases wh with
      | fn => simp [subFrame, targetFrame] at hs
      | meth o => simp [subFrame, targetFrame] at hs
      | init r o ctx => simp [subFrame, targetFrame] at hs
      | cmeth o =>
        obtain ⟨_, _, ho, hM⟩ := hw
        simp only [subFrame, targetFrame, Option.some.injEq] at hs
        subst hs
        exact ⟨ho, by simp only [mu]; omega⟩

theorem entryAcyclic_of {P : Prog} (hP : P.acyclic = true) {i : Nat} {e : Entry} (h : P.entries[i]? = some e) :
    entryAcyclic i e = true := by
  have := allIdx_get (f := entryAcyclic) (s := 0) hP h
  simpa using this

theorem frameBody_whereOK {P : Prog} (hP : P.acyclic = true) {fr : Frame} (hv : validFrame P fr)
    {wh : Where} {c : Callable} (hb : frameBody P fr = some (wh, c)) : whereOK P wh c (mu P fr) := by
  have hW := width_pos P
  cases fr with
  | entry i =>
    simp only [frameBody] at hb
    cases he : P.entries[i]? with
    | none => simp [he] at hb
    | some e =>
      have hac := entryAcyclic_of hP he
      have hi : i < P.entries.length := getElem?_lt he
      cases e with
      | fn c' =>
        simp only [he, Option.some.injEq, Prod.mk.injEq] at hb
        obtain ⟨rfl, rfl⟩ := hb
        exact ⟨i, by simpa [entryAcyclic] using hac, hi, by simp only [mu]; omega⟩
      | cls k =>
        simp only [he] at hb
        simp only [entryAcyclic, Bool.and_eq_true] at hac
        obtain ⟨⟨⟨hmro, hinit⟩, _⟩, _⟩ := hac
        have hmro' : ∀ m ∈ k.mro, m < i := fun m hm => by simpa using List.all_eq_true.1 hmro m hm
        have hlen := maxMro_ge he
        cases hki : k.init with
        | some c' =>
          simp only [hki, Option.some.injEq, Prod.mk.injEq] at hb
          obtain ⟨rfl, rfl⟩ := hb
          refine ⟨k.meths.length, by simpa [hki] using hinit, hi, Nat.le_refl _, ?_, ?_, ?_⟩
          · intro x hx
            simp only [List.mem_cons] at hx
            rcases hx with rfl | hx
            · exact Nat.le_refl _
            · exact Nat.le_of_lt (hmro' x hx)
          · simp only [List.length_cons]; omega
          · simp only [mu, List.length_cons, Prog.width] at *; omega
        | none =>
          simp only [hki] at hb
          cases hn : nextInit P k.mro with
          | none => simp [hn] at hb
          | some ds =>
            obtain ⟨d, s⟩ := ds
            simp only [hn] at hb
            cases hd : P.ownInit d with
            | none => simp [hd] at hb
            | some c' =>
              simp only [hd, Option.some.injEq, Prod.mk.injEq] at hb
              obtain ⟨rfl, rfl⟩ := hb
              obtain ⟨pre, t, hl, _, _⟩ := nextInit_spec hn
              have hdm : d ∈ k.mro := by rw [hl]; simp
              obtain ⟨kd, hkd, hkdi⟩ := ownInit_eq hd
              have hacd := entryAcyclic_of hP hkd
              simp only [entryAcyclic, Bool.and_eq_true] at hacd
              obtain ⟨⟨⟨_, hinitd⟩, _⟩, _⟩ := hacd
              refine ⟨kd.meths.length, by simpa [hkdi] using hinitd, hi, Nat.le_of_lt (hmro' d hdm), ?_, ?_, ?_⟩
              · intro x hx
                simp only [List.mem_cons] at hx
                rcases hx with rfl | hx
                · exact Nat.le_refl _
                · exact Nat.le_of_lt (hmro' x hx)
              · simp only [List.length_cons]; omega
              · simp only [mu, List.length_cons, Prog.width] at *; omega
  | init r o ctx =>
    simp only [frameBody] at hb
    cases ho : P.ownInit o with
    | none => simp [ho] at hb
    | some c' =>
      simp only [ho, Option.some.injEq, Prod.mk.injEq] at hb
      obtain ⟨rfl, rfl⟩ := hb
      obtain ⟨k, hk, hki⟩ := ownInit_eq ho
      have hac := entryAcyclic_of hP hk
      simp only [entryAcyclic, Bool.and_eq_true] at hac
      obtain ⟨⟨⟨_, hinit⟩, _⟩, _⟩ := hac
      obtain ⟨hr, hor, hlen, hctx⟩ := hv
      exact ⟨k.meths.length, by simpa [hki] using hinit, hr, hor, hctx, hlen, by simp only [mu]; omega⟩
  | meth o j =>
    simp only [frameBody] at hb
    cases hm : P.meth? o j with
    | none => simp [hm] at hb
    | some c' =>
      simp only [hm, Option.some.injEq, Prod.mk.injEq] at hb
      obtain ⟨rfl, rfl⟩ := hb
      unfold Prog.meth? at hm
      cases hk : P.cls? o with
      | none => simp [hk] at hm
      | some k =>
        simp only [hk] at hm
        have hac := entryAcyclic_of hP (cls?_eq hk)
        simp only [entryAcyclic, Bool.and_eq_true] at hac
        obtain ⟨⟨_, hme⟩, _⟩ := hac
        have := List.all_eq_true.1 hme c' (List.mem_of_getElem? hm)
        exact ⟨k.meths.length, this, hv, by simp only [mu]; omega⟩
  | cmeth o j =>
    simp only [frameBody] at hb
    cases hm : P.cmeth? o j with
    | none => simp [hm] at hb
    | some c' =>
      simp only [hm, Option.some.injEq, Prod.mk.injEq] at hb
      obtain ⟨rfl, rfl⟩ := hb
      unfold Prog.cmeth? at hm
      cases hk : P.cls? o with
      | none => simp [hk] at hm
      | some k =>
        simp only [hk] at hm
        have hac := entryAcyclic_of hP (cls?_eq hk)
        simp only [entryAcyclic, Bool.and_eq_true] at hac
        obtain ⟨_, hme⟩ := hac
        have := List.all_eq_true.1 hme c' (List.mem_of_getElem? hm)
        exact ⟨k.meths.length, this, hv, by simp only [mu]; omega⟩

/-- every frame the resolver visits from a valid frame is valid and strictly smaller -/
theorem sub_valid {P : Prog} (hP : P.acyclic = true) {fr : Frame} (hv : validFrame P fr)
    {wh : Where} {c : Callable} (hb : frameBody P fr = some (wh, c))
    {u : Use} (hu : u ∈ liveUses c.uses) {fr' : Frame} (hs : subFrame P wh u = some fr') :
    validFrame P fr' ∧ mu P fr' < mu P fr :=
  sub_of_whereOK (frameBody_whereOK hP hv hb) hu hs

/-- with more fuel than the measure the resolver never runs dry, and the answer no longer depends on the fuel -/
theorem fuel_stable {P : Prog} (hP : P.acyclic = true) :
    ∀ (fuel : Nat) (fr : Frame), validFrame P fr → mu P fr < fuel →
      resolveF fuel P fr ≠ .nofuel ∧ ∀ fuel', mu P fr < fuel' → resolveF fuel' P fr = resolveF fuel P fr := by
  intro fuel
  induction fuel with
  | zero => intro fr _ h; omega
  | succ fuel ih =>
    intro fr hv hmu
    simp only [resolveF, resolveBody]
    cases hb : frameBody P fr with
    | none =>
      refine ⟨by simp, ?_⟩
      intro fuel' hf'
      cases fuel' with
      | zero => omega
      | succ f' => simp [resolveF, resolveBody, hb]
    | some whc =>
      obtain ⟨wh, c⟩ := whc
      simp only
      have hsub : ∀ u ∈ liveUses c.uses, ∀ fr', subFrame P wh u = some fr' → validFrame P fr' ∧ mu P fr' < mu P fr :=
        fun u hu fr' hs => sub_valid hP hv hb hu hs
      refine ⟨?_, ?_⟩
      · apply resolveCallable_ne_nofuel
        intro u hu fr' hs
        obtain ⟨hv', hlt⟩ := hsub u hu fr' hs
        exact (ih fr' hv' (by omega)).1
      · intro fuel' hf'
        cases fuel' with
        | zero => omega
        | succ f' =>
          simp only [resolveF, resolveBody, hb]
          apply resolveCallable_congr
          intro u hu fr' hs
          obtain ⟨hv', hlt⟩ := hsub u hu fr' hs
          exact (ih fr' hv' (by omega)).2 f' (by omega)

theorem mu_lt_bound {P : Prog} {fr : Frame} (hv : validFrame P fr) : mu P fr < P.bound := by
  have hW := width_pos P
  unfold Prog.bound
  have hsm : ∀ i, i < P.entries.length → i * P.width + P.width ≤ P.entries.length * P.width := by
    intro i hi
    have h1 : (i + 1) * P.width ≤ P.entries.length * P.width := Nat.mul_le_mul_right _ hi
    rwa [Nat.succ_mul] at h1
  have hN : (P.entries.length + 1) * P.width = P.entries.length * P.width + P.width := Nat.succ_mul _ _
  cases fr with
  | entry i => have := hsm i hv; simp only [mu]; omega
  | init r o ctx =>
    obtain ⟨hr, _, hlen, _⟩ := hv
    have := hsm r hr
    simp only [mu, Prog.width] at *
    omega
  | meth o j => have := hsm o hv; simp only [mu]; omega
  | cmeth o j => have := hsm o hv; simp only [mu]; omega

end Jap.Resolver

import Jap.Lemmas.Namespace
/-!
Laws of the one-pass operations: they form a nested dictionary (read-your-write,
frame for diverging keys, last-writer-wins for assignment sequences, delete).
-/
namespace Jap.NS

theorem getK_nil : ∀ (k : List SKey), getK k [] = .none
  | [] => rfl
  | [_] => rfl
  | _ :: _ :: _ => by simp [getK, lookup]

theorem getK_setK_same : ∀ (k : List SKey) (v : V) (kvs : KV), k ≠ [] → getK k (setK k v kvs) = some v
  | [], _, _, h => absurd rfl h
  | [leaf], v, kvs, _ => by simp [setK, getK, lookup_insert_same]
  | s :: t :: rest, v, kvs, _ => by
    have ih := fun sub => getK_setK_same (t :: rest) v sub (by simp)
    unfold setK
    split
    · rename_i sub hl
      simp [getK, lookup_insert_same, ih]
    · simp [getK, lookup_insert_same, ih]

/-- frame: a key that branches off is not affected -/
theorem getK_setK_diverge : ∀ (c : List SKey) (a b : SKey) (p q : List SKey) (v : V) (kvs : KV),
    a ≠ b → getK (c ++ b :: q) (setK (c ++ a :: p) v kvs) = getK (c ++ b :: q) kvs
  | [], a, b, p, q, v, kvs, hab => by
    have hba : b ≠ a := Ne.symm hab
    cases p with
    | nil =>
      cases q with
      | nil => simp [setK, getK, lookup_insert_other _ hba]
      | cons q1 qs => simp [setK, getK, lookup_insert_other _ hba]
    | cons p1 ps =>
      simp only [List.nil_append]
      unfold setK
      split
      · cases q with
        | nil => simp [getK, lookup_insert_other _ hba]
        | cons q1 qs => simp [getK, lookup_insert_other _ hba]
      · cases q with
        | nil => simp [getK, lookup_insert_other _ hba]
        | cons q1 qs => simp [getK, lookup_insert_other _ hba]
  | s :: c, a, b, p, q, v, kvs, hab => by
    have ih := fun sub => getK_setK_diverge c a b p q v sub hab
    have hne1 : c ++ a :: p ≠ [] := by simp
    have hne2 : c ++ b :: q ≠ [] := by simp
    simp only [List.cons_append]
    cases h1 : c ++ a :: p with
    | nil => exact absurd h1 hne1
    | cons x xs =>
      cases h2 : c ++ b :: q with
      | nil => exact absurd h2 hne2
      | cons y ys =>
        unfold setK
        split
        · rename_i sub hl
          simp only [getK, lookup_insert_same, hl]
          rw [← h1, ← h2]; exact ih sub
        · rename_i hnot
          simp only [getK, lookup_insert_same]
          rw [← h1, ← h2, ih []]
          cases hl : lookup s kvs with
          | none => simp [getK_nil]
          | some w =>
            cases w with
            | ns sub => exact absurd hl (by intro h; exact hnot sub h)
            | none => simp [getK_nil]
            | atom _ => simp [getK_nil]
            | lst _ => simp [getK_nil]
            | tup _ => simp [getK_nil]
            | dct _ => simp [getK_nil]

/-! ### a sequence of assignments is last-writer-wins (also the core of C04) -/

def Diverge (k' k : List SKey) : Prop :=
  ∃ c a b p q, k' = c ++ a :: p ∧ k = c ++ b :: q ∧ a ≠ b

def foldSet (as : List (List SKey × V)) (kvs : KV) : KV :=
  as.foldl (fun acc a => setK a.1 a.2 acc) kvs

def lastWrite (k : List SKey) : List (List SKey × V) → Option V
  | [] => .none
  | a :: rest =>
    match lastWrite k rest with
    | some w => some w
    | .none => if a.1 = k then some a.2 else .none

theorem fold_last (k : List SKey) (hk : k ≠ []) :
    ∀ (as : List (List SKey × V)) (kvs : KV), (∀ a ∈ as, a.1 = k ∨ Diverge a.1 k) →
      getK k (foldSet as kvs) = (lastWrite k as).or (getK k kvs)
  | [], kvs, _ => by simp [foldSet, lastWrite]
  | a :: rest, kvs, h => by
    have hrest : ∀ x ∈ rest, x.1 = k ∨ Diverge x.1 k := fun x hx => h x (List.mem_cons_of_mem _ hx)
    have ih := fold_last k hk rest (setK a.1 a.2 kvs) hrest
    have hstep : getK k (setK a.1 a.2 kvs) = if a.1 = k then some a.2 else getK k kvs := by
      rcases h a List.mem_cons_self with heq | ⟨c, x, y, p, q, h1, h2, hxy⟩
      · simp [heq, getK_setK_same k a.2 kvs hk]
      · have hne : a.1 ≠ k := by
          intro e
          rw [h1, h2] at e
          have := List.append_cancel_left e
          simp at this
          exact hxy this.1
        rw [if_neg hne, h1, h2]
        exact getK_setK_diverge c x y p q a.2 kvs hxy
    simp only [foldSet, List.foldl_cons] at ih ⊢
    rw [ih, hstep]
    simp only [lastWrite]
    cases hl : lastWrite k rest with
    | some w => simp
    | none =>
      by_cases he : a.1 = k <;> simp [he]

/-! ### deletion -/

mutual
/-- keys are unique at every namespace level (true of every Python dict) -/
def uniqV : V → Prop
  | .ns kvs => uniqKV kvs
  | _ => True
def uniqKV : KV → Prop
  | [] => True
  | (k, v) :: r => k ∉ keysOf r ∧ uniqV v ∧ uniqKV r
end

theorem uniqKV_nodup : ∀ kvs : KV, uniqKV kvs → (keysOf kvs).Nodup
  | [], _ => by simp [keysOf]
  | (k, v) :: r, h => by
    simp only [uniqKV] at h
    simp only [keysOf, List.map_cons, List.nodup_cons]
    exact ⟨h.1, uniqKV_nodup r h.2.2⟩

theorem uniq_lookup (k : SKey) : ∀ (kvs : KV) (v : V), uniqKV kvs → lookup k kvs = some v → uniqV v
  | [], _, _, h => by simp [lookup] at h
  | (k', v') :: r, v, hu, h => by
    simp only [uniqKV] at hu
    by_cases e : k' = k
    · simp [lookup, e] at h; subst h; exact hu.2.1
    · simp [lookup, e] at h; exact uniq_lookup k r v hu.2.2 h

/-- after a delete the key is gone -/
theorem getK_delK_same : ∀ (k : List SKey) (kvs : KV), uniqKV kvs → getK k (delK k kvs) = .none
  | [], _, _ => rfl
  | [leaf], kvs, hu => by
    simp only [delK, getK]
    exact lookup_erase_self leaf kvs (uniqKV_nodup kvs hu)
  | s :: t :: rest, kvs, hu => by
    simp only [delK]
    cases hl : lookup s kvs with
    | none => simp [getK, hl]
    | some nxt =>
      cases nxt with
      | ns sub =>
        have := getK_delK_same (t :: rest) sub (by have := uniq_lookup s kvs _ hu hl; simpa [uniqV] using this)
        simp [getK, lookup_insert_same, this]
      | none => simp [getK, hl]
      | atom a => simp [getK, hl]
      | lst a => simp [getK, hl]
      | tup a => simp [getK, hl]
      | dct a => simp [getK, hl]

end Jap.NS

/-
The `_check_type` wrapper (string channel): the `_is_valid_string` fallback is dead code, soundness,
and the Union compared with its members.
-/
import Jap.Lemmas.AdaptShape
namespace Jap.Adapt

def isTypeErr {α : Type} : Except Err α → Bool | .error .type => true | _ => false

theorem isValidString_iff (t : Ty) (v : Val) :
    isValidString t v = true ↔ isStr v = true ∧ (t = .str ∨ ∃ ts, t = .union ts ∧ ts.any isStrTy = true) := by
  unfold isValidString
  cases t <;> simp

theorem isStrTy_eq {t : Ty} (h : isStrTy t = true) : t = .str := by
  cases t <;> simp [isStrTy] at h; rfl

/-- whenever the fallback test of `_check_type` holds, the adapter accepts the value -/
theorem isValidString_isOk (O : Oracle) (orig : Option String) (t : Ty) (v : Val) (h : isValidString t v = true) :
    isOk (adapt O false orig t v) = true := by
  obtain ⟨hs, ht⟩ := (isValidString_iff t v).mp h
  cases v <;> simp [isStr] at hs
  rename_i s
  rcases ht with rfl | ⟨ts, rfl, hany⟩
  · rw [adapt_str_ok]; rfl
  · rw [union_isOk]
    obtain ⟨t0, hm, h0⟩ := List.any_eq_true.mp hany
    have := isStrTy_eq h0; subst this
    simp only [Bool.or_eq_true, List.any_eq_true]
    exact Or.inl ⟨.str, hm, by rw [adapt_str_ok]; rfl⟩

/-- **the `_is_valid_string` fallback of `_check_type` is dead code** -/
theorem checkType_eq (O : Oracle) (t : Ty) (v : Val) :
    checkType O t v =
      match adapt O false (origOf v) t (parseValueOrConfig O v) with
      | .ok w => .ok w
      | .error .type => .error .type
      | .error .value =>
        match origOf v with
        | .none => .error .type
        | some s =>
          match adapt O false (some s) t (.str s) with
          | .ok w => .ok w
          | .error _ => .error .type := by
  unfold checkType
  simp only
  have dead : ∀ e, adapt O false (origOf v) t (parseValueOrConfig O v) = .error e →
      isValidString t (parseValueOrConfig O v) = false := by
    intro e he
    cases hv : isValidString t (parseValueOrConfig O v) with
    | false => rfl
    | true =>
      have := isValidString_isOk O (origOf v) t _ hv
      rw [he] at this; simp at this
  cases ha : adapt O false (origOf v) t (parseValueOrConfig O v) with
  | ok w => rfl
  | error e =>
    have hd := dead e ha
    cases e with
    | type => simp [hd]
    | value =>
      simp only [hd]
      cases origOf v with
      | none => simp
      | some s =>
        simp only
        cases adapt O false (some s) t (.str s) <;> simp

theorem strKeys_str (s : String) : strKeys (.str s) = true := by simp [strKeys]

/-- soundness of `_check_type` -/
theorem checkType_sound (O : Oracle) (ll lk : Bool) (t : Ty) (v w : Val)
    (hl : ll = false → litStrOnly t = true) (hk : lk = false → strKeys (parseValueOrConfig O v) = true)
    (h : checkType O t v = .ok w) : confL O.rnumOk ll lk t w = true := by
  rw [checkType_eq] at h
  cases ha : adapt O false (origOf v) t (parseValueOrConfig O v) with
  | ok w' =>
    simp [ha] at h; subst h
    exact sound_gen O ll lk t _ _ _ hl hk ha
  | error e =>
    cases e with
    | type => simp [ha] at h
    | value =>
      simp only [ha] at h
      cases ho : origOf v with
      | none => simp [ho] at h
      | some s =>
        simp only [ho] at h
        cases hb : adapt O false (some s) t (.str s) with
        | error e' => simp [hb] at h
        | ok w' =>
          simp [hb] at h; subst h
          exact sound_gen O ll lk t _ _ _ hl (fun _ => strKeys_str s) hb

/-- a non-string value goes through `_check_type` exactly as through the adapter -/
theorem checkType_nonstr (O : Oracle) (t : Ty) (v : Val) (h : isStr v = false) :
    isOk (checkType O t v) = isOk (adapt O false .none t v) := by
  rw [checkType_eq]
  have h1 : origOf v = .none := by cases v <;> simp [isStr] at h <;> rfl
  have h2 : parseValueOrConfig O v = v := by cases v <;> simp [isStr] at h <;> rfl
  rw [h1, h2]
  cases ha : adapt O false .none t v with
  | ok w => rfl
  | error e => cases e <;> rfl

theorem checkType_str_isOk (O : Oracle) (t : Ty) (s : String) :
    isOk (checkType O t (.str s)) =
      (isOk (adapt O false (some s) t (parseValueOrConfig O (.str s))) ||
       (!isTypeErr (adapt O false (some s) t (parseValueOrConfig O (.str s))) && isOk (adapt O false (some s) t (.str s)))) := by
  rw [checkType_eq]
  simp only [origOf]
  cases ha : adapt O false (some s) t (parseValueOrConfig O (.str s)) with
  | ok w => simp [isTypeErr]
  | error e =>
    cases e with
    | type => simp [isTypeErr]
    | value =>
      simp only [isOk_error, isTypeErr, Bool.not_false, Bool.true_and, Bool.false_or]
      cases adapt O false (some s) t (.str s) <;> simp

/-- a Union accepts an argument string iff one of its members does — provided no member fails on the loaded
    value with an exception that is not a `ValueError` (such a member is not retried with the original text
    when it stands alone, but the Union catches every exception and is retried as a whole) -/
theorem union_str_iff (O : Oracle) (ts : List Ty) (s : String)
    (hte : ts.all (fun t => !isTypeErr (adapt O false (some s) t (parseValueOrConfig O (.str s)))) = true) :
    isOk (checkType O (.union ts) (.str s)) = ts.any (fun t => isOk (checkType O t (.str s))) := by
  rw [checkType_union_isOk, Bool.eq_iff_iff]
  simp only [Bool.or_eq_true, Bool.and_eq_true, List.any_eq_true, Bool.not_eq_true']
  simp only [List.all_eq_true, Bool.not_eq_true'] at hte
  constructor
  · rintro (((⟨t, hm, h⟩ | ⟨_, t, hm, h⟩) | ⟨t, hm, h⟩) | ⟨_, t, hm, h⟩)
    · exact ⟨t, hm, by rw [checkType_str_isOk, h]; rfl⟩
    · have := isStrTy_eq h; subst this
      exact ⟨.str, hm, by rw [checkType_str]; rfl⟩
    · refine ⟨t, hm, ?_⟩
      rw [checkType_str_isOk, h, hte t hm]
      simp
    · have := isStrTy_eq h; subst this
      exact ⟨.str, hm, by rw [checkType_str]; rfl⟩
  · rintro ⟨t, hm, h⟩
    rw [checkType_str_isOk] at h
    simp only [Bool.or_eq_true, Bool.and_eq_true] at h
    rcases h with h | ⟨_, h⟩
    · exact Or.inl (Or.inl (Or.inl ⟨t, hm, h⟩))
    · exact Or.inl (Or.inr ⟨t, hm, h⟩)


/-! ### arguments with a default -/

theorem checkTypeD_none (O : Oracle) (t : Ty) (v : Val) : checkTypeD O t .none v = checkType O t v := by
  unfold checkTypeD checkType
  simp [adaptD]

theorem pyEq_str_left {s : String} {d : Val} (h : pyEq (.str s) d = true) : d = .str s := by
  cases d <;> simp [pyEq] at h
  rw [h]

/-- where the result of `_check_type` comes from when the argument has a default: from the adapter, or — only
    for a value that is a STRING — it is that string, equal to the default (the early return) -/
theorem checkTypeD_result (O : Oracle) (t : Ty) (d : Val) (v w : Val) (h : checkTypeD O t (some d) v = .ok w) :
    (∃ orig val, adapt O false orig t val = .ok w) ∨ (∃ s, v = .str s ∧ w = .str s ∧ d = .str s) := by
  unfold checkTypeD at h
  simp only at h
  have dead : ∀ e, adapt O false (origOf v) t (parseValueOrConfig O v) = .error e →
      isValidString t (parseValueOrConfig O v) = false := by
    intro e he
    cases hv : isValidString t (parseValueOrConfig O v) with
    | false => rfl
    | true =>
      have := isValidString_isOk O (origOf v) t _ hv
      rw [he] at this; simp at this
  cases ha : adapt O false (origOf v) t (parseValueOrConfig O v) with
  | ok w' => simp [ha] at h; subst h; exact Or.inl ⟨_, _, ha⟩
  | error e =>
    have hd := dead e ha
    cases e with
    | type => simp [ha, hd] at h
    | value =>
      simp only [ha, hd] at h
      cases ho : origOf v with
      | none => simp [ho] at h
      | some s =>
        have hv : v = .str s := by cases v <;> simp [origOf] at ho; rw [ho]
        simp only [ho] at h
        cases hb : adaptD O false (some s) (some d) t (.str s) with
        | error e' => simp [hb] at h
        | ok w' =>
          simp [hb] at h; subst h
          unfold adaptD at hb
          simp only at hb
          split at hb
          · rename_i hc
            simp only [Bool.and_eq_true] at hc
            simp at hb; subst hb
            exact Or.inr ⟨s, hv, rfl, pyEq_str_left hc.2⟩
          · exact Or.inl ⟨_, _, hb⟩

/-- soundness with a default: when the default itself conforms, every result conforms -/
theorem checkTypeD_sound (O : Oracle) (ll lk : Bool) (t : Ty) (d v w : Val)
    (hl : ll = false → litStrOnly t = true) (hk : lk = false → strKeys (parseValueOrConfig O v) = true)
    (hd : confL O.rnumOk ll lk t d = true)
    (h : checkTypeD O t (some d) v = .ok w) : confL O.rnumOk ll lk t w = true := by
  rcases checkTypeD_result O t d v w h with ⟨orig, val, ha⟩ | ⟨s, _, rfl, rfl⟩
  · -- from the adapter: as without a default
    unfold checkTypeD at h
    simp only at h
    cases ha1 : adapt O false (origOf v) t (parseValueOrConfig O v) with
    | ok w' => simp [ha1] at h; subst h; exact sound_gen O ll lk t _ _ _ hl hk ha1
    | error e =>
      have hdead : isValidString t (parseValueOrConfig O v) = false := by
        cases hv : isValidString t (parseValueOrConfig O v) with
        | false => rfl
        | true =>
          have := isValidString_isOk O (origOf v) t _ hv
          rw [ha1] at this; simp at this
      cases e with
      | type => simp [ha1, hdead] at h
      | value =>
        simp only [ha1, hdead] at h
        cases ho : origOf v with
        | none => simp [ho] at h
        | some s =>
          simp only [ho] at h
          cases hb : adaptD O false (some s) (some d) t (.str s) with
          | error e' => simp [hb] at h
          | ok w' =>
            simp [hb] at h; subst h
            unfold adaptD at hb
            simp only at hb
            split at hb
            · rename_i hc
              simp only [Bool.and_eq_true] at hc
              simp at hb; subst hb
              rw [← pyEq_str_left hc.2]; exact hd
            · exact sound_gen O ll lk t _ _ _ hl (fun _ => strKeys_str s) hb
  · exact hd

/-- values of the same scalar kind as the default (no `True == 1 == 1.0` confusion) -/
def noKindConfusion : Val → Val → Bool
  | .str _, .str _ => true
  | .int _, .int _ => true
  | .bool _, .bool _ => true
  | .flt a, .flt b => a == b
  | _, _ => false

theorem pyEq_sameKind {v d : Val} (hk : noKindConfusion v d = true) (he : pyEq v d = true) : v = d := by
  cases v <;> cases d <;> simp [noKindConfusion] at hk
  · cases ‹Bool› <;> cases ‹Bool› <;> simp [pyEq, numOf] at he <;> rfl
  · simp [pyEq, numOf] at he; rw [he]
  · rw [hk]
  · simp [pyEq] at he; rw [he]

/-- the early return itself (`adapt_typehints(val, T, default=d)`), whoever calls it: sound when the default
    conforms and the value is of the default's own kind -/
theorem adaptD_sound (O : Oracle) (ll lk : Bool) (t : Ty) (orig : Option String) (d v w : Val)
    (hl : ll = false → litStrOnly t = true) (hk : lk = false → strKeys v = true)
    (hd : confL O.rnumOk ll lk t d = true) (hn : isSBIF v = true → pyEq v d = true → noKindConfusion v d = true)
    (h : adaptD O false orig (some d) t v = .ok w) : confL O.rnumOk ll lk t w = true := by
  unfold adaptD at h
  simp only at h
  split at h
  · rename_i hc
    simp only [Bool.and_eq_true] at hc
    simp at h; subst h
    rw [pyEq_sameKind (hn hc.1 hc.2) hc.2]; exact hd
  · exact sound_gen O ll lk t orig v w hl hk h

end Jap.Adapt

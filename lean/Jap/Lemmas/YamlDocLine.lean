/-
C01, whole documents, level B: one line.  What `renderLine` writes is read back by `scanLine`
(`scanLine_renderLine`), contains no line feed, and the text of all lines splits back into the lines.
-/
import Jap.Lemmas.EmitterRoundtrip
import Jap.Core.YamlDoc

namespace Jap.Scalar
open Jap.Gen.Resolvers (imgInt imgBool imgNull imgFloatYaml)

/-! ### scalars -/

theorem ScOK_load (s : Sc) (h : ScOK s = true) (hne : s.tag ≠ .str) : resolveLoadC s.text = s.tag := by
  obtain ⟨tag, text⟩ := s
  simp only [ScOK] at h
  simp only [resolveLoadC, resolveLoadW]
  cases tag with
  | str => exact absurd rfl hne
  | null => simp only at h ⊢; rw [img_words imgNull 1 imgNull_cert _ h]; rfl
  | bool => simp only at h ⊢; rw [img_words imgBool 2 imgBool_cert _ h]; rfl
  | int => simp only at h ⊢; rw [img_words imgInt 3 imgInt_cert _ h]; rfl
  | float => simp only at h ⊢; rw [img_words imgFloatYaml 4 imgFloatYaml_cert _ h]; rfl
  | other n => simp at h

/-- a text that `analyze_scalar` allows plain is fetched and scanned as a plain scalar and resolved by the loader -/
theorem plain_loadLine (s tail : List Char) (hne : s ≠ []) (hplain : allowBlockPlain allowUnicodeCfg s = true)
    (ht : TailOK tail) (htp : tail.all yamlPrintable = true) : loadLine (s ++ tail) = some (resolveLoadC s, s, tail) := by
  generalize allowUnicodeCfg = au at *
  obtain ⟨hstart, hgo⟩ := plain_roundtrip au s tail hne hplain ht
  cases s with
  | nil => exact absurd rfl hne
  | cons c rest =>
    obtain ⟨_, _, hspec, hml', hbi⟩ := plain_facts au c rest hplain
    have hok := okChars_of au (c :: rest) hspec hml'
    have hprint : ((c :: rest) ++ tail).all yamlPrintable = true := all_append (all_okChar_printable au _ hok) htp
    have hfi : firstInd c = false := by
      simp only [blockInd, Bool.or_eq_false_iff] at hbi
      exact hbi.1.1.1.2
    have h39 : c.toNat ≠ 39 := by intro h; simp [firstInd, h] at hfi
    have h34 : c.toNat ≠ 34 := by intro h; simp [firstInd, h] at hfi
    simp only [loadLine, hprint, Bool.not_true, Bool.false_eq_true, if_false]
    simp only [List.cons_append] at hstart hgo ⊢
    simp [h39, h34, hstart, hgo]

theorem emitSc_nonstr (sk : Bool) (col : Nat) (s : Sc) (t : List Char) (hstr : s.tag ≠ .str) (h : emitSc sk col s = some t) :
    s.text = t ∧ allowBlockPlain allowUnicodeCfg s.text = true ∧ s.text ≠ [] := by
  unfold emitSc at h
  simp only [hstr, if_false] at h
  by_cases hc : plainScOK sk col s = true
  · simp only [hc, if_true] at h
    injection h with h
    simp only [plainScOK, Bool.and_eq_true, Bool.not_eq_true', List.isEmpty_eq_false_iff] at hc
    exact ⟨h, hc.1.1.2, hc.1.2⟩
  · simp [hc] at h

/-- the text written for a scalar (key or value position), followed by nothing or by `:` + blank, is read back
with the scalar's tag and text -/
theorem emitSc_load (sk : Bool) (col : Nat) (s : Sc) (t tail : List Char) (hok : ScOK s = true)
    (h : emitSc sk col s = some t) (ht : TailOK tail) (htp : tail.all yamlPrintable = true) :
    loadLine (t ++ tail) = some (s.tag, s.text, tail) := by
  unfold emitSc at h
  by_cases hstr : s.tag = .str
  · simp only [hstr, if_true] at h
    rw [hstr]
    cases sk with
    | true =>
      simp only [if_true] at h
      unfold emitKey at h
      split at h
      · cases h
      · rename_i hc
        injection h with h; subst h
        simp only [Bool.or_eq_true, not_or, Bool.not_eq_true] at hc
        exact text_roundtrip true s.text tail hc.1.1 (fun _ hs => by simp [hs] at hc) ht htp
    | false =>
      simp only [Bool.false_eq_true, if_false] at h
      unfold emitScalar at h
      split at h
      · split at h
        · rename_i hd
          injection h with h; subst h
          simp only [Bool.and_eq_true, decide_eq_true_eq] at hd
          exact text_roundtrip_double false s.text tail hd.1 htp
        · cases h
      · rename_i hml
        split at h
        · injection h with h; subst h
          exact text_roundtrip false s.text tail (by simpa using hml) (fun h => by cases h) ht htp
        · cases h
  · obtain ⟨rfl, hp, hne⟩ := emitSc_nonstr sk col s t hstr h
    rw [plain_loadLine s.text tail hne hp ht htp, ScOK_load s hok hstr]

theorem loadLine_printable (t : List Char) (r) (h : loadLine t = some r) : t.all yamlPrintable = true := by
  unfold loadLine at h
  by_cases hp : t.all yamlPrintable = true
  · exact hp
  · simp [hp] at h

/-! ### no line feed inside a rendered line -/

def NoNL (t : List Char) : Prop := ∀ c ∈ t, c ≠ '\n'

theorem NoNL_append {a b : List Char} (ha : NoNL a) (hb : NoNL b) : NoNL (a ++ b) := by
  intro c hc
  rcases List.mem_append.mp hc with h | h
  · exact ha c h
  · exact hb c h

theorem NoNL_cons {c : Char} {b : List Char} (hc : c ≠ '\n') (hb : NoNL b) : NoNL (c :: b) := by
  intro x hx
  rcases List.mem_cons.mp hx with h | h
  · subst h; exact hc
  · exact hb x h

theorem NoNL_nil : NoNL [] := by intro c hc; cases hc

theorem NoNL_of_notMultiline (s : List Char) (h : isMultiline s = false) : NoNL s := by
  intro c hc hn
  have := any_false_mem h c hc
  subst hn
  revert this; decide

theorem writeSingleBody_NoNL (s : List Char) (h : NoNL s) : NoNL (writeSingleBody s) := by
  induction s with
  | nil => exact NoNL_nil
  | cons c cs ih =>
    have hc := h c List.mem_cons_self
    have := ih (fun x hx => h x (List.mem_cons_of_mem _ hx))
    simp only [writeSingleBody]
    split
    · exact NoNL_cons (by decide) (NoNL_cons (by decide) this)
    · exact NoNL_cons hc this

theorem hexDigitU_ne_nl : ∀ k, k < 16 → hexDigitU k ≠ '\n' := by decide

theorem writeDoubleChar_NoNL (au : Bool) (c : Char) : NoNL (writeDoubleChar au c) := by
  have hd : ∀ k, hexDigitU (k % 16) ≠ '\n' := fun k => hexDigitU_ne_nl _ (Nat.mod_lt _ (by decide))
  unfold writeDoubleChar
  by_cases hraw : dqRaw au c = true
  · simp only [hraw, if_true]
    refine NoNL_cons ?_ NoNL_nil
    intro hc; subst hc; revert hraw; cases au <;> decide
  · simp only [hraw, Bool.false_eq_true, if_false]
    cases hne : namedEscape c.toNat with
    | some e =>
      have he := (namedEscape_spec _ _ hne).2.1
      refine NoNL_cons (by decide) (NoNL_cons ?_ NoNL_nil)
      intro h; subst h; revert he; decide
    | none =>
      simp only
      split
      · exact NoNL_cons (by decide) (NoNL_cons (by decide) (NoNL_cons (hd _) (NoNL_cons (hd _) NoNL_nil)))
      · split
        · exact NoNL_cons (by decide) (NoNL_cons (by decide)
            (NoNL_cons (hd _) (NoNL_cons (hd _) (NoNL_cons (hd _) (NoNL_cons (hd _) NoNL_nil)))))
        · exact NoNL_cons (by decide) (NoNL_cons (by decide)
            (NoNL_cons (hd _) (NoNL_cons (hd _) (NoNL_cons (hd _) (NoNL_cons (hd _)
              (NoNL_cons (hd _) (NoNL_cons (hd _) (NoNL_cons (hd _) (NoNL_cons (hd _) NoNL_nil)))))))))

theorem writeDoubleBody_NoNL (au : Bool) (s : List Char) : NoNL (writeDoubleBody au s) := by
  induction s with
  | nil => exact NoNL_nil
  | cons c cs ih => simp only [writeDoubleBody]; exact NoNL_append (writeDoubleChar_NoNL au c) ih

theorem textOf_NoNL (sk : Bool) (s : List Char) (h : isMultiline s = false) : NoNL (textOf sk s) := by
  have hs := NoNL_of_notMultiline s h
  unfold textOf
  cases styleOf sk s with
  | plain => exact hs
  | single => exact NoNL_cons (by decide) (NoNL_append (writeSingleBody_NoNL s hs) (NoNL_cons (by decide) NoNL_nil))
  | double => exact NoNL_cons (by decide) (NoNL_append (writeDoubleBody_NoNL _ s) (NoNL_cons (by decide) NoNL_nil))

theorem emitSc_NoNL (sk : Bool) (col : Nat) (s : Sc) (t : List Char) (h : emitSc sk col s = some t) : NoNL t := by
  unfold emitSc at h
  by_cases hstr : s.tag = .str
  · simp only [hstr, if_true] at h
    cases sk with
    | true =>
      simp only [if_true] at h
      unfold emitKey at h
      split at h
      · cases h
      · rename_i hc
        injection h with h; subst h
        simp only [Bool.or_eq_true, not_or, Bool.not_eq_true] at hc
        exact textOf_NoNL true s.text hc.1.1
    | false =>
      simp only [Bool.false_eq_true, if_false] at h
      unfold emitScalar at h
      split at h
      · split at h
        · rename_i hd
          injection h with h; subst h
          simp only [Bool.and_eq_true, decide_eq_true_eq] at hd
          simp only [textOf, hd.1]
          exact NoNL_cons (by decide) (NoNL_append (writeDoubleBody_NoNL _ s.text) (NoNL_cons (by decide) NoNL_nil))
        · cases h
      · rename_i hml
        split at h
        · injection h with h; subst h
          exact textOf_NoNL false s.text (by simpa using hml)
        · cases h
  · obtain ⟨rfl, hp, _⟩ := emitSc_nonstr sk col s t hstr h
    cases hst : s.text with
    | nil => exact NoNL_nil
    | cons c rest =>
      rw [hst] at hp
      exact NoNL_of_notMultiline _ (plain_facts _ c rest hp).2.2.2.1

/-! ### one line -/

theorem loadLine_eseq : loadLine ['[', ']'] = none := by decide +kernel
theorem loadLine_emap : loadLine ['{', '}'] = none := by decide +kernel

/-- what the first characters of a text that starts with a scalar cannot be -/
theorem loadLine_head (c : Char) (rest : List Char) (r) (h : loadLine (c :: rest) = some r) :
    c ≠ ' ' ∧ (∀ e r', rest = e :: r' → ¬(c = '-' ∧ e = ' ')) := by
  constructor
  · intro hc; subst hc
    simp [loadLine, plainStartOK, isBlank] at h
  · intro e r' hr ⟨hc, he⟩
    subst hr; subst hc; subst he
    simp [loadLine, plainStartOK, indicatorStart, followedBlankZ, isBlank, isBreakZ, isBreak, firstInd] at h

/-- a body text: does not begin with a space nor with `- ` -/
def HeadOK (b : List Char) : Prop :=
  (∀ c r, b = c :: r → c ≠ ' ') ∧ (∀ c e r, b = c :: e :: r → ¬(c = '-' ∧ e = ' '))

theorem HeadOK_of_loadLine (b : List Char) (r) (h : loadLine b = some r) : HeadOK b := by
  cases b with
  | nil => simp [loadLine] at h
  | cons c rest =>
    obtain ⟨h1, h2⟩ := loadLine_head c rest r h
    exact ⟨fun c' r' e => by injection e with e1 _; subst e1; exact h1,
      fun c' e' r' e => by injection e with e1 e2; subst e1; exact h2 e' r' e2⟩

theorem HeadOK_eseq : HeadOK ['[', ']'] := by
  constructor
  · intro c r e; injection e with e1 _; subst e1; decide
  · intro c e r h; injection h with e1 _; subst e1; intro ⟨h, _⟩; revert h; decide

theorem HeadOK_emap : HeadOK ['{', '}'] := by
  constructor
  · intro c r e; injection e with e1 _; subst e1; decide
  · intro c e r h; injection h with e1 _; subst e1; intro ⟨h, _⟩; revert h; decide

theorem stripSpaces_replicate (n : Nat) (x : List Char) (hx : ∀ c r, x = c :: r → c ≠ ' ') :
    stripSpaces (List.replicate n ' ' ++ x) = (n, x) := by
  induction n with
  | zero =>
    cases x with
    | nil => rfl
    | cons c r => simp [stripSpaces, hx c r rfl]
  | succ n ih => simp [List.replicate_succ, stripSpaces, ih]

theorem stripDashes_dashText (d : Nat) (b : List Char) (hb : ∀ c e r, b = c :: e :: r → ¬(c = '-' ∧ e = ' ')) :
    stripDashes (dashText d ++ b) = (d, b) := by
  induction d with
  | zero =>
    match b, hb with
    | [], _ => rfl
    | [c], _ => rfl
    | c :: e :: r, hb => simp [dashText, stripDashes, hb c e r rfl]
  | succ d ih => simp [dashText, stripDashes, ih]

theorem dashText_NoNL (d : Nat) : NoNL (dashText d) := by
  induction d with
  | zero => exact NoNL_nil
  | succ d ih => exact NoNL_cons (by decide) (NoNL_cons (by decide) ih)

theorem replicate_NoNL (n : Nat) : NoNL (List.replicate n ' ') := by
  intro c hc
  rw [List.mem_replicate] at hc
  rw [hc.2]; decide

theorem NoNL_eseq : NoNL ['[', ']'] := NoNL_cons (by decide) (NoNL_cons (by decide) NoNL_nil)
theorem NoNL_emap : NoNL ['{', '}'] := NoNL_cons (by decide) (NoNL_cons (by decide) NoNL_nil)

theorem tail_nil_ok : TailOK [] := Or.inl rfl

/-- a one-line value -/
theorem scanAtom_emitAtom (col : Nat) (a : Atom) (t : List Char) (hok : atomOK a = true) (h : emitAtom col a = some t) :
    scanAtom t = some a ∧ t.all yamlPrintable = true ∧ NoNL t ∧ HeadOK t := by
  cases a with
  | eseq => simp only [emitAtom] at h; injection h with h; subst h; exact ⟨by decide +kernel, by decide +kernel, NoNL_eseq, HeadOK_eseq⟩
  | emap => simp only [emitAtom] at h; injection h with h; subst h; exact ⟨by decide +kernel, by decide +kernel, NoNL_emap, HeadOK_emap⟩
  | sc s =>
    simp only [emitAtom] at h
    have hl := emitSc_load false col s t [] hok h tail_nil_ok rfl
    simp only [List.append_nil] at hl
    have h1 : t ≠ ['[', ']'] := by intro e; rw [e, loadLine_eseq] at hl; cases hl
    have h2 : t ≠ ['{', '}'] := by intro e; rw [e, loadLine_emap] at hl; cases hl
    refine ⟨?_, loadLine_printable t _ hl, emitSc_NoNL false col s t h, HeadOK_of_loadLine t _ hl⟩
    simp [scanAtom, h1, h2, hl]

theorem colon_tail (rest : List Char) (h : followedBlankZ rest = true) : TailOK (':' :: rest) :=
  Or.inr ⟨rest, rfl, h⟩

theorem scanBody_emitBody (col : Nat) (b : Body) (t : List Char) (hok : bodyOK b = true) (h : emitBody col b = some t) :
    scanBody t = some b ∧ NoNL t ∧ HeadOK t := by
  cases b with
  | atom a =>
    simp only [emitBody] at h
    simp only [bodyOK] at hok
    cases a with
    | eseq => simp only [emitAtom] at h; injection h with h; subst h; exact ⟨by decide +kernel, NoNL_eseq, HeadOK_eseq⟩
    | emap => simp only [emitAtom] at h; injection h with h; subst h; exact ⟨by decide +kernel, NoNL_emap, HeadOK_emap⟩
    | sc s =>
      simp only [emitAtom] at h
      have hl := emitSc_load false col s t [] hok h tail_nil_ok rfl
      simp only [List.append_nil] at hl
      have h1 : t ≠ ['[', ']'] := by intro e; rw [e, loadLine_eseq] at hl; cases hl
      have h2 : t ≠ ['{', '}'] := by intro e; rw [e, loadLine_emap] at hl; cases hl
      refine ⟨?_, emitSc_NoNL false col s t h, HeadOK_of_loadLine t _ hl⟩
      simp [scanBody, h1, h2, hl]
  | key k inl =>
    cases inl with
    | none =>
      simp only [emitBody, Option.map_eq_some_iff] at h
      obtain ⟨kt, hk, rfl⟩ := h
      simp only [bodyOK] at hok
      have hl := emitSc_load true col k kt [':'] hok hk (colon_tail [] rfl) (by decide)
      have h1 : kt ++ [':'] ≠ ['[', ']'] := by intro e; rw [e, loadLine_eseq] at hl; cases hl
      have h2 : kt ++ [':'] ≠ ['{', '}'] := by intro e; rw [e, loadLine_emap] at hl; cases hl
      refine ⟨?_, NoNL_append (emitSc_NoNL true col k kt hk) (NoNL_cons (by decide) NoNL_nil), HeadOK_of_loadLine _ _ hl⟩
      simp [scanBody, h1, h2, hl]
    | some a =>
      simp only [emitBody] at h
      simp only [bodyOK, Bool.and_eq_true] at hok
      cases hk : emitSc true col k with
      | none => simp [hk] at h
      | some kt =>
        simp only [hk, Option.map_eq_some_iff] at h
        obtain ⟨at_, ha, rfl⟩ := h
        obtain ⟨hsa, hpa, hna, _⟩ := scanAtom_emitAtom _ a at_ hok.2 ha
        have hsp : yamlPrintable ' ' = true := by decide
        have hco : yamlPrintable ':' = true := by decide
        have hl := emitSc_load true col k kt (':' :: ' ' :: at_) hok.1 hk (colon_tail _ (by simp [followedBlankZ, isBlank]))
          (by simp [hsp, hco, hpa])
        have h1 : kt ++ ':' :: ' ' :: at_ ≠ ['[', ']'] := by intro e; rw [e, loadLine_eseq] at hl; cases hl
        have h2 : kt ++ ':' :: ' ' :: at_ ≠ ['{', '}'] := by intro e; rw [e, loadLine_emap] at hl; cases hl
        refine ⟨?_, NoNL_append (emitSc_NoNL true col k kt hk) (NoNL_cons (by decide) (NoNL_cons (by decide) hna)),
          HeadOK_of_loadLine _ _ hl⟩
        simp [scanBody, h1, h2, hl, hsa]

theorem scanLine_renderLine (l : Line) (t : List Char) (hok : bodyOK l.body = true) (h : renderLine l = some t) :
    scanLine t = some l ∧ NoNL t := by
  obtain ⟨n, d, b⟩ := l
  simp only [renderLine, Option.map_eq_some_iff] at h
  obtain ⟨bt, hb, rfl⟩ := h
  obtain ⟨hs, hn, hh1, hh2⟩ := scanBody_emitBody _ b bt hok hb
  have hx : ∀ c r, dashText d ++ bt = c :: r → c ≠ ' ' := by
    intro c r e
    cases d with
    | zero => exact hh1 c r (by simpa [dashText] using e)
    | succ d => simp only [dashText, List.cons_append] at e; injection e with e1 _; subst e1; decide
  constructor
  · simp [scanLine, stripSpaces_replicate n _ hx, stripDashes_dashText d bt hh2, hs]
  · exact NoNL_append (replicate_NoNL n) (NoNL_append (dashText_NoNL d) hn)

/-! ### all lines -/

theorem splitNL_ne_nil (t : List Char) : splitNL t ≠ [] := by
  induction t with
  | nil => simp [splitNL]
  | cons c cs ih =>
    simp only [splitNL]
    split
    · simp
    · split
      · simp
      · simp

theorem splitNL_line (l : List Char) (hl : NoNL l) (rest : List Char) : splitNL (l ++ '\n' :: rest) = l :: splitNL rest := by
  induction l with
  | nil => simp [splitNL]
  | cons c cs ih =>
    have hc : c ≠ '\n' := hl c List.mem_cons_self
    have := ih (fun x hx => hl x (List.mem_cons_of_mem _ hx))
    simp [splitNL, hc, this]

theorem dropLastEmpty_cons (l : List Char) (ls : List (List Char)) (h : ls ≠ []) :
    dropLastEmpty (l :: ls) = (dropLastEmpty ls).map fun r => l :: r := by
  cases ls with
  | nil => exact absurd rfl h
  | cons x xs => simp [dropLastEmpty]

def linesOK : List Line → Bool
  | [] => true
  | l :: ls => bodyOK l.body && linesOK ls

theorem scanLines_renderLines : ∀ (ls : List Line) (t : List Char), linesOK ls = true → renderLines ls = some t →
    ∃ ts, dropLastEmpty (splitNL t) = some ts ∧ scanLines ts = some ls := by
  intro ls
  induction ls with
  | nil =>
    intro t _ h
    simp only [renderLines] at h; injection h with h; subst h
    exact ⟨[], by simp [splitNL, dropLastEmpty], rfl⟩
  | cons l ls ih =>
    intro t hok h
    simp only [linesOK, Bool.and_eq_true] at hok
    simp only [renderLines] at h
    cases h1 : renderLine l with
    | none => simp [h1] at h
    | some t1 =>
      cases h2 : renderLines ls with
      | none => simp [h1, h2] at h
      | some r =>
        simp only [h1, h2] at h
        injection h with h; subst h
        obtain ⟨ts, hts, hsc⟩ := ih r hok.2 h2
        obtain ⟨hs1, hn1⟩ := scanLine_renderLine l t1 hok.1 h1
        refine ⟨t1 :: ts, ?_, ?_⟩
        · rw [splitNL_line t1 hn1 r, dropLastEmpty_cons _ _ (splitNL_ne_nil r), hts]; rfl
        · simp [scanLines, hs1, hsc]

end Jap.Scalar

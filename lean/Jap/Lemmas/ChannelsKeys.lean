import Jap.Core.Channels
/-!
Channels, addressing: dotted spelling ⇄ segments; environment variable names (injective up to case on
keys without `__` / trailing `_`, decodable).
-/
namespace Jap.Channels


/-! ### B. dotted spelling -/

theorem splitDot_nodot : ∀ (w : List Char), noDot w = true → splitDot w = [w]
  | [], _ => rfl
  | c :: r, h => by
    simp only [noDot, List.all_cons, Bool.and_eq_true, bne_iff_ne, ne_eq] at h
    have ih := splitDot_nodot r (by simpa [noDot] using h.2)
    simp [splitDot, h.1, ih, consHead]

theorem splitDot_append : ∀ (w rest : List Char), noDot w = true → splitDot (w ++ '.' :: rest) = w :: splitDot rest
  | [], rest, _ => by simp [splitDot]
  | c :: r, rest, h => by
    simp only [noDot, List.all_cons, Bool.and_eq_true, bne_iff_ne, ne_eq] at h
    have ih := splitDot_append r rest (by simpa [noDot] using h.2)
    simp [splitDot, h.1, ih, consHead]

theorem splitDot_joinDot : ∀ (ws : List (List Char)), ws ≠ [] → (∀ w ∈ ws, noDot w = true) → splitDot (joinDot ws) = ws
  | [], h, _ => absurd rfl h
  | [w], _, h => by simp [joinDot, splitDot_nodot w (h w (by simp))]
  | w :: v :: r, _, h => by
    have ih := splitDot_joinDot (v :: r) (by simp) (fun x hx => h x (by simp at hx ⊢; exact Or.inr hx))
    simp only [joinDot]
    rw [splitDot_append w _ (h w (by simp)), ih]

theorem map_ofList_toList (l : List String) : (l.map String.toList).map String.ofList = l := by
  induction l with
  | nil => rfl
  | cons a r ih => simp [String.ofList_toList]

theorem segsOf_destL (k : Key) (h : ∀ s ∈ k.segs, noDot s.toList = true) : segsOf (destL k) = k.segs := by
  unfold segsOf destL
  rw [splitDot_joinDot (k.segs.map String.toList) (by simp [Key.segs])]
  · exact map_ofList_toList _
  · intro w hw
    obtain ⟨s, hs, rfl⟩ := List.mem_map.mp hw
    exact h s hs

/-! ### C. environment variable names -/

def joinDU : List (List Char) → List Char
  | [] => []
  | [x] => x
  | x :: y :: r => x ++ '_' :: '_' :: joinDU (y :: r)

theorem replDots_append : ∀ (a b : List Char), replDots (a ++ b) = replDots a ++ replDots b
  | [], b => rfl
  | c :: r, b => by
    by_cases h : c = '.' <;> simp [replDots, h, replDots_append r b]

theorem replDots_nodot : ∀ (w : List Char), noDot w = true → replDots w = w
  | [], _ => rfl
  | c :: r, h => by
    simp only [noDot, List.all_cons, Bool.and_eq_true, bne_iff_ne, ne_eq] at h
    simp [replDots, h.1, replDots_nodot r (by simpa [noDot] using h.2)]

theorem replDots_joinDot : ∀ (ws : List (List Char)), (∀ w ∈ ws, noDot w = true) → replDots (joinDot ws) = joinDU ws
  | [], _ => rfl
  | [w], h => by simp [joinDot, joinDU, replDots_nodot w (h w (by simp))]
  | w :: v :: r, h => by
    have ih := replDots_joinDot (v :: r) (fun x hx => h x (by simp at hx ⊢; exact Or.inr hx))
    simp only [joinDot, joinDU, replDots_append, replDots_nodot w (h w (by simp))]
    simp [replDots, ih]

theorem lookupC_mem (c : Char) : ∀ (t : List (Char × Char)) (d : Char), lookupC c t = some d → (c, d) ∈ t
  | [], _, h => by simp [lookupC] at h
  | (a, b) :: r, d, h => by
    by_cases e : a = c
    · simp [lookupC, e] at h; subst h; subst e; simp
    · simp [lookupC, e] at h
      exact List.mem_cons_of_mem _ (lookupC_mem c r d h)

theorem upTable_facts : ∀ p ∈ upTable, p.1 ≠ '_' ∧ p.2 ≠ '_' ∧ low p.2 = p.1 := by decide

theorem up_eq_us (c : Char) : (up c = '_') ↔ (c = '_') := by
  unfold up
  cases h : lookupC c upTable with
  | none => simp
  | some d =>
    have := upTable_facts _ (lookupC_mem c upTable d h)
    simp only at this ⊢
    constructor
    · intro e; exact absurd e this.2.1
    · intro e; exact absurd e this.1

theorem low_up (c : Char) (h : lookupC c lowTable = none) : low (up c) = c := by
  unfold up
  cases hu : lookupC c upTable with
  | none => simp [low, h]
  | some d => exact (upTable_facts _ (lookupC_mem c upTable d hu)).2.2

theorem lower_upper (w : List Char) (h : noUpperSeg w = true) : lower (upper w) = w := by
  induction w with
  | nil => rfl
  | cons c r ih =>
    simp only [noUpperSeg, List.all_cons, Bool.and_eq_true, Option.isNone_iff_eq_none] at h
    have ih' := ih (by simpa [noUpperSeg] using h.2)
    simp only [lower, upper, List.map_cons, List.map_map] at ih' ⊢
    rw [low_up c h.1]
    congr 1

theorem upper_append (a b : List Char) : upper (a ++ b) = upper a ++ upper b := by simp [upper]

theorem up_us : up '_' = '_' := by decide

theorem upper_joinDU : ∀ (ws : List (List Char)), upper (joinDU ws) = joinDU (ws.map upper)
  | [] => rfl
  | [w] => rfl
  | w :: v :: r => by
    have ih := upper_joinDU (v :: r)
    simp only [joinDU, upper_append, List.map_cons] at ih ⊢
    simp only [upper, List.map_cons, up_us] at ih ⊢
    rw [ih]

theorem up_beq_us (c : Char) : (up c == '_') = (c == '_') := by
  by_cases h : c = '_'
  · subst h; decide
  · have : up c ≠ '_' := fun e => h ((up_eq_us c).mp e)
    rw [beq_eq_false_iff_ne.mpr this, beq_eq_false_iff_ne.mpr h]

theorem okSeg_upper : ∀ (w : List Char), okSeg (upper w) = okSeg w
  | [] => rfl
  | [c] => by
    simp only [upper, List.map_cons, List.map_nil, okSeg, bne, up_beq_us]
  | c :: d :: r => by
    have ih := okSeg_upper (d :: r)
    simp only [upper, List.map_cons, okSeg] at ih ⊢
    rw [ih, up_beq_us, up_beq_us]

theorem splitDU_ok : ∀ (w : List Char), okSeg w = true → splitDU w = [w]
  | [], _ => rfl
  | [c], _ => rfl
  | c :: d :: r, h => by
    simp only [okSeg, Bool.and_eq_true, Bool.not_eq_true', Bool.and_eq_false_iff, beq_eq_false_iff_ne, ne_eq] at h
    have ih := splitDU_ok (d :: r) h.2
    have : ¬ (c = '_' ∧ d = '_') := by
      intro ⟨a, b⟩; rcases h.1 with x | x <;> contradiction
    simp [splitDU, this, ih, consHead]

theorem splitDU_append : ∀ (w rest : List Char), okSeg w = true → splitDU (w ++ '_' :: '_' :: rest) = w :: splitDU rest
  | [], rest, _ => by simp [splitDU]
  | [c], rest, h => by
    simp only [okSeg, bne_iff_ne, ne_eq] at h
    simp [splitDU, h, consHead]
  | c :: d :: r, rest, h => by
    simp only [okSeg, Bool.and_eq_true, Bool.not_eq_true', Bool.and_eq_false_iff, beq_eq_false_iff_ne, ne_eq] at h
    have ih := splitDU_append (d :: r) rest h.2
    have : ¬ (c = '_' ∧ d = '_') := by
      intro ⟨a, b⟩; rcases h.1 with x | x <;> contradiction
    simp only [List.cons_append] at ih ⊢
    simp [splitDU, this, ih, consHead]

theorem splitDU_joinDU : ∀ (ws : List (List Char)), ws ≠ [] → (∀ w ∈ ws, okSeg w = true) → splitDU (joinDU ws) = ws
  | [], h, _ => absurd rfl h
  | [w], _, h => by simp [joinDU, splitDU_ok w (h w (by simp))]
  | w :: v :: r, _, h => by
    have ih := splitDU_joinDU (v :: r) (by simp) (fun x hx => h x (by simp at hx ⊢; exact Or.inr hx))
    simp only [joinDU]
    rw [splitDU_append w _ (h w (by simp)), ih]

/-- the variable name is the fixed prefix part followed by the case-folded segments joined with `__` -/
theorem envVarL_eq (pfx : Option String) (k : Key) (h : envSafe k = true) :
    envVarL pfx k = upper (replDots (prefixL pfx)) ++ joinDU (foldKey k) := by
  have hd : ∀ w ∈ k.segs.map String.toList, noDot w = true := by
    intro w hw
    obtain ⟨s, hs, rfl⟩ := List.mem_map.mp hw
    have := List.all_eq_true.mp h s hs
    simp only [Bool.and_eq_true] at this
    exact this.1
  unfold envVarL destL
  rw [replDots_append, upper_append, replDots_joinDot _ hd, upper_joinDU]
  simp [foldKey, List.map_map, Function.comp_def]

theorem foldKey_ok (k : Key) (h : envSafe k = true) : ∀ w ∈ foldKey k, okSeg w = true := by
  intro w hw
  obtain ⟨s, hs, rfl⟩ := List.mem_map.mp hw
  have := List.all_eq_true.mp h s hs
  simp only [Bool.and_eq_true] at this
  rw [okSeg_upper]; exact this.2

theorem foldKey_ne_nil (k : Key) : foldKey k ≠ [] := by simp [foldKey, Key.segs]

theorem envVarL_inj (pfx : Option String) (k k' : Key) (h : envSafe k = true) (h' : envSafe k' = true)
    (e : envVarL pfx k = envVarL pfx k') : foldKey k = foldKey k' := by
  rw [envVarL_eq pfx k h, envVarL_eq pfx k' h'] at e
  have e2 := List.append_cancel_left e
  have := congrArg splitDU e2
  rwa [splitDU_joinDU _ (foldKey_ne_nil k) (foldKey_ok k h), splitDU_joinDU _ (foldKey_ne_nil k') (foldKey_ok k' h')] at this

theorem foldKey_inj_of_noUpper (k k' : Key) (h : noUpper k = true) (h' : noUpper k' = true)
    (e : foldKey k = foldKey k') : k = k' := by
  have key : ∀ (l : List String), l.all (fun s => noUpperSeg s.toList) = true →
      (l.map (fun s => upper s.toList)).map (fun w => String.ofList (lower w)) = l := by
    intro l hl
    induction l with
    | nil => rfl
    | cons a r ih =>
      simp only [List.all_cons, Bool.and_eq_true] at hl
      simp only [List.map_cons, lower_upper _ hl.1, String.ofList_toList, ih hl.2]
  have e' := congrArg (List.map (fun w => String.ofList (lower w))) e
  unfold foldKey at e'
  rw [key _ h, key _ h'] at e'
  cases k; cases k'
  simp only [Key.segs, List.cons.injEq] at e'
  simp [e'.1, e'.2]

theorem keyOfEnvVar_envVar (pfx : Option String) (k : Key) (h : envSafe k = true) (hu : noUpper k = true) :
    keyOfEnvVar pfx (envVar pfx k) = some k := by
  unfold keyOfEnvVar envVar
  simp only [String.toList_ofList]
  rw [envVarL_eq pfx k h, List.drop_left, splitDU_joinDU _ (foldKey_ne_nil k) (foldKey_ok k h)]
  have key : ∀ (l : List String), l.all (fun s => noUpperSeg s.toList) = true →
      (l.map (fun s => upper s.toList)).map (fun w => String.ofList (lower w)) = l := by
    intro l hl
    induction l with
    | nil => rfl
    | cons a r ih =>
      simp only [List.all_cons, Bool.and_eq_true] at hl
      simp only [List.map_cons, lower_upper _ hl.1, String.ofList_toList, ih hl.2]
  unfold foldKey
  rw [key _ hu]
  cases k; rfl

end Jap.Channels

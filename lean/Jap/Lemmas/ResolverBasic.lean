/-
Helper lemmas for E9 (Resolver): names of filtered lists, `dedup`, the names produced by
`group_parameters`, the shape of `collect` on straight-line bodies.
-/
import Jap.Core.Resolver

namespace Jap.Resolver

theorem mem_names {ps : List Param} {n : String} : n ∈ names ps ↔ ∃ p ∈ ps, p.name = n := by
  simp [names]

theorem names_append (a b : List Param) : names (a ++ b) = names a ++ names b := by
  simp [names]

theorem mem_names_filter_notin {ps : List Param} {S : List String} {n : String} :
    n ∈ names (ps.filter (fun p => decide (p.name ∉ S))) ↔ n ∈ names ps ∧ n ∉ S := by
  simp only [mem_names, List.mem_filter, decide_eq_true_eq]
  constructor
  · rintro ⟨p, ⟨hp, hs⟩, rfl⟩
    exact ⟨⟨p, hp, rfl⟩, hs⟩
  · rintro ⟨⟨p, hp, rfl⟩, hs⟩
    exact ⟨p, ⟨hp, hs⟩, rfl⟩

theorem mem_dedup {α : Type} [DecidableEq α] {l : List α} {x : α} : x ∈ dedup l ↔ x ∈ l := by
  induction l with
  | nil => simp [dedup]
  | cons a l ih =>
    simp only [dedup, List.mem_cons, List.mem_filter, decide_eq_true_eq, ih]
    by_cases h : x = a <;> simp [h]

theorem groupOne_name (np : Nat) (g : Param) (occ : List Param) : (groupOne np (g :: occ)).name = g.name := by
  unfold groupOne
  simp only
  split <;> rfl

theorem names_flatMap (lists : List (Bool × List Param)) :
    names (lists.flatMap (·.2)) = lists.flatMap (fun l => names l.2) := by
  simp [names, List.map_flatMap]

/-- `group_parameters` neither invents nor loses a name -/
theorem group_names {lists : List (Bool × List Param)} {g : List Param} (h : group lists = .ok g) (n : String) :
    n ∈ names g ↔ ∃ l ∈ lists, n ∈ names l.2 := by
  match lists, h with
  | [], h =>
    simp only [group, Out.ok.injEq] at h
    subst h
    simp [names]
  | [l], h =>
    simp only [group, Out.ok.injEq] at h
    subst h
    simp
  | l1 :: l2 :: rest, h =>
    simp only [group] at h
    split at h
    · cases h
    · simp only [Out.ok.injEq] at h
      subst h
      have hall : ∀ m, m ∈ names ((l1 :: l2 :: rest).flatMap (·.2)) ↔ ∃ l ∈ (l1 :: l2 :: rest), m ∈ names l.2 := by
        intro m
        rw [names_flatMap]
        simp only [List.mem_flatMap]
      rw [← hall]
      generalize ((l1 :: l2 :: rest).flatMap (·.2)) = all
      generalize ((l1 :: l2 :: rest).filter (fun l => !l.1)).length = np
      simp only [names, List.map_map, List.mem_map, Function.comp]
      constructor
      · rintro ⟨m, hm, rfl⟩
        rw [mem_dedup] at hm
        obtain ⟨p, hp, hpn⟩ := List.mem_map.1 hm
        have hne : p ∈ all.filter (fun q => decide (q.name = m)) := by
          simp [List.mem_filter, hp, hpn]
        cases hf : all.filter (fun q => decide (q.name = m)) with
        | nil => rw [hf] at hne; cases hne
        | cons g occ =>
          have hg : g ∈ all.filter (fun q => decide (q.name = m)) := by rw [hf]; simp
          simp only [List.mem_filter, decide_eq_true_eq] at hg
          exact ⟨g, hg.1, by rw [groupOne_name, hg.2]⟩
      · rintro ⟨p, hp, rfl⟩
        refine ⟨p.name, ?_, ?_⟩
        · rw [mem_dedup]; exact List.mem_map.2 ⟨p, hp, rfl⟩
        · have hne : p ∈ all.filter (fun q => decide (q.name = p.name)) := by
            simp [List.mem_filter, hp]
          cases hf : all.filter (fun q => decide (q.name = p.name)) with
          | nil => rw [hf] at hne; cases hne
          | cons g occ =>
            have hg : g ∈ all.filter (fun q => decide (q.name = p.name)) := by rw [hf]; simp
            simp only [List.mem_filter, decide_eq_true_eq] at hg
            rw [groupOne_name, hg.2]

end Jap.Resolver

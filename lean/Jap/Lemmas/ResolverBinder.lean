/-
E9 (Resolver): the run-time binder (`binderF`) returns a definition of the program that carries the name asked for.
-/
import Jap.Lemmas.ResolverClean

namespace Jap.Resolver

/-- what the binder may return: a definition of the program with the name asked for -/
def BOK (P : Prog) (n : String) (q : Param) : Prop := q ∈ P.defs ∧ q.name = n

theorem callableDefs_mem {P : Prog} {c : Callable} (hc : c ∈ P.callables) {p : Param} (hp : p ∈ callableDefs c) :
    p ∈ P.defs :=
  List.mem_flatMap.2 ⟨c, hc, hp⟩

theorem mem_execUses {sel : Option Nat} {us : List GUse} {u : Use} (h : u ∈ execUses sel us) : ∃ g ∈ us, g.use = u := by
  unfold execUses at h
  obtain ⟨g, hg, rfl⟩ := List.mem_map.1 h
  exact ⟨g, (List.mem_filter.1 hg).1, rfl⟩

theorem useDefs_mem {c : Callable} {g : GUse} (hg : g ∈ c.uses) {p : Param} (hp : p ∈ useDefs g.use) :
    p ∈ callableDefs c := by
  unfold callableDefs
  exact List.mem_append_right _ (List.mem_flatMap.2 ⟨g, hg, hp⟩)

theorem forwardB_some {rec : Frame → String → Option Param} {P : Prog} {wh : Where} {n : String} {u : Use}
    {k : Nat} {g : List String} {q : Param} (h : forwardB rec P wh n u k g = some q) : ∃ fr, rec fr n = some q := by
  unfold forwardB at h
  split at h
  · cases h
  · split at h
    · cases h
    · split at h
      · cases h
      · exact ⟨_, h⟩

theorem runUsesB_ok {rec : Frame → String → Option Param} {P : Prog} {wh : Where} {n : String}
    (hrec : ∀ fr q, rec fr n = some q → BOK P n q) : ∀ (us : List Use) (q : Param),
    (∀ u ∈ us, ∀ p ∈ useDefs u, p ∈ P.defs) → runUsesB rec P wh n us = some q → BOK P n q
  | [], q, _, h => by simp [runUsesB] at h
  | .pop m d :: us, q, hus, h => by
    simp only [runUsesB] at h
    split at h
    · rename_i hm
      simp only [Option.some.injEq] at h
      subst h
      exact ⟨hus (.pop m d) List.mem_cons_self _ (by simp [useDefs, hm]), rfl⟩
    · exact runUsesB_ok hrec us q (fun u hu => hus u (List.mem_cons_of_mem _ hu)) h
  | .popIn m d :: us, q, hus, h => by
    simp only [runUsesB] at h
    split at h
    · rename_i hm
      simp only [Option.some.injEq] at h
      subst h
      exact ⟨hus (.popIn m d) List.mem_cons_self _ (by simp [useDefs, hm]), rfl⟩
    · exact runUsesB_ok hrec us q (fun u hu => hus u (List.mem_cons_of_mem _ hu)) h
  | .get m d :: us, q, hus, h => by
    simp only [runUsesB] at h
    exact runUsesB_ok hrec us q (fun u hu => hus u (List.mem_cons_of_mem _ hu)) h
  | .superCall frm k g :: us, q, hus, h => by
    simp only [runUsesB] at h
    have tl := runUsesB_ok (wh := wh) hrec us q (fun u hu => hus u (List.mem_cons_of_mem _ hu))
    split at h
    · exact tl h
    · split at h
      · rename_i q' hq
        simp only [Option.some.injEq] at h
        subst h
        obtain ⟨fr, hfr⟩ := forwardB_some hq
        exact hrec fr _ hfr
      · exact tl h
  | .call t k g :: us, q, hus, h => by
    simp only [runUsesB] at h
    have tl := runUsesB_ok (wh := wh) hrec us q (fun u hu => hus u (List.mem_cons_of_mem _ hu))
    split at h
    · exact tl h
    · split at h
      · rename_i q' hq
        simp only [Option.some.injEq] at h
        subst h
        obtain ⟨fr, hfr⟩ := forwardB_some hq
        exact hrec fr _ hfr
      · exact tl h

theorem runCallableB_ok {recA : Frame → String → Bool} {rec : Frame → String → Option Param} {P : Prog} {wh : Where}
    {c : Callable} {n : String} (hc : c ∈ P.callables) (hrec : ∀ fr q, rec fr n = some q → BOK P n q) {q : Param}
    (h : runCallableB recA rec P wh c n = some q) : BOK P n q := by
  have hex : ∀ sel, ∀ u ∈ execUses sel c.uses, ∀ p ∈ useDefs u, p ∈ P.defs := by
    intro sel u hu p hp
    obtain ⟨g, hg, rfl⟩ := mem_execUses hu
    exact callableDefs_mem hc (useDefs_mem hg hp)
  unfold runCallableB at h
  split at h
  · rename_i p hp
    simp only [Option.some.injEq] at h
    subst h
    have hm := List.mem_of_find?_eq_some hp
    have hn := List.find?_some hp
    exact ⟨callableDefs_mem hc (by unfold callableDefs; exact List.mem_append_left _ hm), by simpa using hn⟩
  · split at h
    · cases h
    · split at h
      · exact runUsesB_ok hrec _ q (hex none) h
      · split at h
        · exact runUsesB_ok hrec _ q (hex _) h
        · cases h

theorem binderF_ok {P : Prog} {n : String} : ∀ (fuel : Nat) (fr : Frame) (q : Param),
    binderF fuel P fr n = some q → BOK P n q
  | 0, _, _, h => by simp [binderF] at h
  | fuel + 1, fr, q, h => by
    have ih := fun fr' q' => binderF_ok (P := P) (n := n) fuel fr' q'
    simp only [binderF] at h
    cases fr with
    | entry i =>
      simp only [binderBody] at h
      cases he : P.entries[i]? with
      | none => simp [he] at h
      | some e =>
        cases e with
        | fn c =>
          simp only [he] at h
          exact runCallableB_ok (frameBody_mem (fr := .entry i) (wh := .fn) (by simp [frameBody, he])) ih h
        | cls k =>
          simp only [he] at h
          cases hd : dispatchInit P (i :: k.mro) with
          | none => simp [hd] at h
          | some x =>
            obtain ⟨d, c, s⟩ := x
            simp only [hd] at h
            exact ih _ _ h
    | init r o ctx =>
      simp only [binderBody] at h
      cases ho : P.ownInit o with
      | none => simp [ho] at h
      | some c =>
        simp only [ho] at h
        exact runCallableB_ok (frameBody_mem (fr := .init r o ctx) (wh := .init r o ctx) (by simp [frameBody, ho])) ih h
    | meth o j =>
      simp only [binderBody] at h
      cases hm : P.meth? o j with
      | none => simp [hm] at h
      | some c =>
        simp only [hm] at h
        exact runCallableB_ok (frameBody_mem (fr := .meth o j) (wh := .meth o) (by simp [frameBody, hm])) ih h
    | cmeth o j =>
      simp only [binderBody] at h
      cases hm : P.cmeth? o j with
      | none => simp [hm] at h
      | some c =>
        simp only [hm] at h
        exact runCallableB_ok (frameBody_mem (fr := .cmeth o j) (wh := .cmeth o) (by simp [frameBody, hm])) ih h

/-- all definitions of `n` in the program carry the same annotation and default -/
def defsAgree (P : Prog) (n : String) : Bool :=
  P.defs.all (fun q => P.defs.all (fun q' => q.name != n || q'.name != n || (decide (q.ty = q'.ty) && decide (q.dflt = q'.dflt))))

theorem defsAgree_eq {P : Prog} {n : String} (h : defsAgree P n = true) {q q' : Param} (hq : q ∈ P.defs) (hq' : q' ∈ P.defs)
    (hn : q.name = n) (hn' : q'.name = n) : q.ty = q'.ty ∧ q.dflt = q'.dflt := by
  have := List.all_eq_true.1 (List.all_eq_true.1 h q hq) q' hq'
  simpa [hn, hn'] using this

/-- decidable, computed from the two independent definitions: some offered parameter called `n` carries another
    annotation or default than the definition that binds `n` at run time -/
def typeDefaultDiffers (P : Prog) (c : CId) (n : String) : Bool :=
  match binder P c n with
  | none => false
  | some q => (resolve P c).any (fun p => p.name == n && !(decide (q.ty = p.ty) && decide (q.dflt = p.dflt)))

theorem typeDefaultDiffers_false {P : Prog} {c : CId} {n : String} :
    typeDefaultDiffers P c n = false ↔
      ∀ p ∈ resolve P c, p.name = n → ∀ q, binder P c n = some q → q.ty = p.ty ∧ q.dflt = p.dflt := by
  unfold typeDefaultDiffers
  cases hb : binder P c n with
  | none => simp
  | some q =>
    simp only [Option.some.injEq]
    constructor
    · intro h p hp hn q' hq'
      subst hq'
      have hf : ¬ ((p.name == n && !(decide (q.ty = p.ty) && decide (q.dflt = p.dflt))) = true) :=
        fun ht => by
          have : (resolve P c).any (fun p => p.name == n && !(decide (q.ty = p.ty) && decide (q.dflt = p.dflt))) = true :=
            List.any_eq_true.2 ⟨p, hp, ht⟩
          rw [h] at this; cases this
      by_cases h1 : q.ty = p.ty
      · by_cases h2 : q.dflt = p.dflt
        · exact ⟨h1, h2⟩
        · exact absurd (by simp [hn, h1, h2]) hf
      · exact absurd (by simp [hn, h1]) hf
    · intro h
      apply Bool.eq_false_iff.2
      intro ht
      obtain ⟨p, hp, hpt⟩ := List.any_eq_true.1 ht
      simp only [Bool.and_eq_true, beq_iff_eq, Bool.not_eq_true', Bool.and_eq_false_iff, decide_eq_false_iff_not] at hpt
      have := h p hp hpt.1 q rfl
      rcases hpt.2 with hd | hd
      · exact hd this.1
      · exact hd this.2

theorem find_nodup : ∀ {ps : List Param} {p : Param}, (names ps).Nodup → p ∈ ps →
    ps.find? (fun q => q.name = p.name) = some p
  | [], _, _, h => by cases h
  | a :: ps, p, hnd, h => by
    simp only [names, List.map_cons, List.nodup_cons] at hnd
    rcases List.mem_cons.1 h with rfl | h'
    · simp
    · have hne : a.name ≠ p.name := fun e => hnd.1 (e ▸ List.mem_map.2 ⟨p, h', rfl⟩)
      simp only [List.find?_cons, hne, decide_false]
      exact find_nodup (by simpa [names] using hnd.2) h'

theorem runCallable_own {rec : Frame → String → Bool} {P : Prog} {wh : Where} {c : Callable} {p : Param} (hp : p ∈ c.params) :
    runCallable rec P wh c p.name = true := by
  simp [runCallable, mem_names.2 ⟨p, hp, rfl⟩]

theorem runCallableB_own {recA : Frame → String → Bool} {rec : Frame → String → Option Param} {P : Prog} {wh : Where}
    {c : Callable} {p : Param} (hnd : (names c.params).Nodup) (hp : p ∈ c.params) :
    runCallableB recA rec P wh c p.name = some p := by
  simp [runCallableB, find_nodup hnd hp]

theorem bound_ge (P : Prog) : ∃ f, P.bound = f + 2 := by
  have h : 6 ≤ P.bound := by
    unfold Prog.bound Prog.width
    calc 6 = 1 * 6 := rfl
      _ ≤ (P.entries.length + 1) * (maxMro P.entries + 6) := Nat.mul_le_mul (by omega) (by omega)
  exact ⟨P.bound - 2, by omega⟩

/-- the body the resolver visits for a query is the body the interpreter runs for it: both sides at an own parameter -/
theorem own_param_bound {P : Prog} {c : CId} {wh : Where} {body : Callable} (hb : frameBody P c.frame = some (wh, body))
    (hnd : (names body.params).Nodup) {p : Param} (hp : p ∈ body.params) :
    acceptsF P.bound P c.frame p.name = true ∧ binderF P.bound P c.frame p.name = some p := by
  obtain ⟨f, hf⟩ := bound_ge P
  rw [hf]
  cases c with
  | cmeth o j =>
    simp only [CId.frame, frameBody] at hb
    cases hm : P.cmeth? o j with
    | none => simp [hm] at hb
    | some c' =>
      simp only [hm, Option.some.injEq, Prod.mk.injEq] at hb
      obtain ⟨_, rfl⟩ := hb
      simp only [CId.frame, acceptsF, acceptsBody, binderF, binderBody, hm]
      exact ⟨runCallable_own hp, runCallableB_own hnd hp⟩
  | entry i =>
    simp only [CId.frame, frameBody] at hb
    cases he : P.entries[i]? with
    | none => simp [he] at hb
    | some e =>
      cases e with
      | fn c' =>
        simp only [he, Option.some.injEq, Prod.mk.injEq] at hb
        obtain ⟨_, rfl⟩ := hb
        simp only [CId.frame, acceptsF, acceptsBody, binderF, binderBody, he]
        exact ⟨runCallable_own hp, runCallableB_own hnd hp⟩
      | cls k =>
        simp only [he] at hb
        have hoi : P.ownInit i = k.init := by simp [Prog.ownInit, Prog.cls?, he]
        -- the `__init__` both sides reach
        have hdisp : ∃ d s, dispatchInit P (i :: k.mro) = some (d, body, s) ∧ P.ownInit d = some body := by
          cases hki : k.init with
          | some c' =>
            simp only [hki, Option.some.injEq, Prod.mk.injEq] at hb
            obtain ⟨_, rfl⟩ := hb
            exact ⟨i, i :: k.mro, by simp [dispatchInit, hoi, hki], by rw [hoi, hki]⟩
          | none =>
            simp only [hki] at hb
            cases hn : nextInit P k.mro with
            | none => simp [hn] at hb
            | some ds =>
              obtain ⟨d, s0⟩ := ds
              simp only [hn] at hb
              cases hd : P.ownInit d with
              | none => simp [hd] at hb
              | some c' =>
                simp only [hd, Option.some.injEq, Prod.mk.injEq] at hb
                obtain ⟨_, rfl⟩ := hb
                rw [nextInit_dispatch] at hn
                cases hdd : dispatchInit P k.mro with
                | none => simp [hdd] at hn
                | some x =>
                  obtain ⟨d', c'', s'⟩ := x
                  simp only [hdd, Option.map_some, Option.some.injEq, Prod.mk.injEq] at hn
                  obtain ⟨rfl, _⟩ := hn
                  have hspec := (dispatchInit_spec hdd).1
                  rw [hd] at hspec
                  simp only [Option.some.injEq] at hspec
                  subst hspec
                  exact ⟨d', s', by simp [dispatchInit, hoi, hki, hdd], hd⟩
        obtain ⟨d, s, hdd, hod⟩ := hdisp
        simp only [CId.frame, acceptsF, acceptsBody, binderF, binderBody, he, hdd, hod]
        exact ⟨runCallable_own hp, runCallableB_own hnd hp⟩

end Jap.Resolver

/-
Helper lemmas for the `complex` codec of E8 (C20): `complexParse (complexStr re im) = some (re, im)` for
parts whose tokens are well-formed.  Core Lean only.
-/
import Jap.Lemmas.TypingTd

namespace Jap.Typing

def allDigits (l : List Char) : Prop := ∀ c ∈ l, c.isDigit = true

instance (l : List Char) : Decidable (allDigits l) := by unfold allDigits; exact inferInstance

/-- a token as `repr` writes it -/
def Tok.Valid : Tok → Prop
  | .dec ip fp ex => ip ≠ [] ∧ allDigits ip ∧ allDigits fp ∧
      (match ex with
        | none => True
        | some (_, ds) => ds ≠ [] ∧ allDigits ds)
  | .inf => True
  | .nan => True

/-- the characters that follow a number in the output of `complexStr` -/
def isStop (c : Char) : Prop := c = '+' ∨ c = '-' ∨ c = 'j' ∨ c = ')'

theorem stop_facts {c : Char} (h : isStop c) :
    c.isDigit = false ∧ c ≠ '.' ∧ c ≠ 'e' ∧ c ≠ 'E' ∧ c.toLower = c ∧ c ≠ 'i' := by
  rcases h with rfl | rfl | rfl | rfl <;> decide

theorem scanExp_stop {c : Char} (h : isStop c) (rest : List Char) : scanExp (c :: rest) = (none, c :: rest) := by
  have f := stop_facts h
  simp [scanExp, f.2.2.1, f.2.2.2.1]

theorem scanExp_some (n : Bool) (ds : List Char) (hne : ds ≠ []) (hd : allDigits ds) {c : Char} (h : isStop c)
    (rest : List Char) :
    scanExp ('e' :: (if n then '-' else '+') :: (ds ++ c :: rest)) = (some (n, ds), c :: rest) := by
  have f := stop_facts h
  have sp := span_stop Char.isDigit ds c rest hd f.1
  have hs : splitSign ((if n then '-' else '+') :: (ds ++ c :: rest)) = (n, ds ++ c :: rest) := by
    cases n <;> rfl
  simp [scanExp, hs, sp.1, sp.2, hne]

theorem scanMag_text (t : Tok) (hv : t.Valid) {c : Char} (h : isStop c) (rest : List Char) :
    scanMag (t.text ++ c :: rest) = some (t, c :: rest) := by
  have f := stop_facts h
  cases t with
  | inf =>
    have e : Tok.inf.text ++ c :: rest = 'i' :: 'n' :: 'f' :: c :: rest := rfl
    rw [e]
    have hci : ¬ 'i' = c := fun e' => f.2.2.2.2.2 e'.symm
    simp [scanMag, lower, List.isPrefixOf, f.2.2.2.2.1, hci]
  | nan =>
    have e : Tok.nan.text ++ c :: rest = 'n' :: 'a' :: 'n' :: c :: rest := rfl
    rw [e]
    simp [scanMag, lower, List.isPrefixOf]
  | dec ip fp ex =>
    obtain ⟨hne, hip, hfp, hex⟩ := hv
    -- the exponent part and what follows it
    have hexp : scanExp (expText ex ++ c :: rest) = (ex, c :: rest) := by
      cases ex with
      | none => simpa [expText] using scanExp_stop h rest
      | some p =>
        obtain ⟨n, ds⟩ := p
        simpa [expText] using scanExp_some n ds hex.1 hex.2 h rest
    -- first character of what follows the integer digits / the fraction digits is no digit
    have exHead : ∀ (tl : List Char), ∃ a m, (expText ex ++ c :: tl) = a :: m ∧ a.isDigit = false ∧ a ≠ '.' := by
      intro tl
      cases ex with
      | none => exact ⟨c, tl, rfl, f.1, f.2.1⟩
      | some p =>
        obtain ⟨n, ds⟩ := p
        exact ⟨'e', (if n then '-' else '+') :: (ds ++ c :: tl), by simp [expText], by decide, by decide⟩
    cases ip with
    | nil => exact absurd rfl hne
    | cons a ip' =>
      have ha : a.isDigit = true := hip a (by simp)
      by_cases hfe : fp = []
      · subst hfe
        obtain ⟨x, m, hx, hxd, hxdot⟩ := exHead rest
        have e : (Tok.dec (a :: ip') [] ex).text ++ c :: rest = (a :: ip') ++ x :: m := by
          simp only [Tok.text, ↓reduceIte, List.append_nil, List.append_assoc]
          rw [hx]
        rw [e]
        have sp := span_stop Char.isDigit (a :: ip') x m hip hxd
        have hmatch : scanFrac (x :: m) = ([], x :: m) := by
          unfold scanFrac
          split
          · rename_i r e'; simp at e'; exact absurd e'.1 hxdot
          · rfl
        simp only [scanMag, List.cons_append, ha, true_or, ↓reduceIte]
        simp only [← List.cons_append, sp.1, sp.2, hmatch]
        rw [← hx, hexp]
        simp
      · obtain ⟨x, m, hx, hxd, _⟩ := exHead rest
        have e : (Tok.dec (a :: ip') fp ex).text ++ c :: rest = (a :: ip') ++ '.' :: (fp ++ x :: m) := by
          simp only [Tok.text, hfe, ↓reduceIte, List.append_assoc, List.cons_append]
          rw [hx]
        rw [e]
        have sp := span_stop Char.isDigit (a :: ip') '.' (fp ++ x :: m) hip (by decide)
        have sp2 := span_stop Char.isDigit fp x m hfp hxd
        have hfrac : scanFrac ('.' :: (fp ++ x :: m)) = (fp, x :: m) := by simp [scanFrac, sp2.1, sp2.2]
        have sp' := sp
        simp only [List.cons_append] at sp'
        simp only [scanMag, List.cons_append, ha, true_or, ↓reduceIte]
        simp only [sp'.1, sp'.2, hfrac]
        rw [← hx, hexp]
        simp [hfe]

/-- the first character of a token's text: a digit, `i` or `n` -/
theorem tok_head (t : Tok) (hv : t.Valid) : ∃ a m, t.text = a :: m ∧ a ≠ '+' ∧ a ≠ '-' ∧ a ≠ '(' ∧ isNumSpace a = false := by
  cases t with
  | inf => exact ⟨'i', _, rfl, by decide, by decide, by decide, by decide⟩
  | nan => exact ⟨'n', _, rfl, by decide, by decide, by decide, by decide⟩
  | dec ip fp ex =>
    obtain ⟨hne, hip, _, _⟩ := hv
    cases ip with
    | nil => exact absurd rfl hne
    | cons a ip' =>
      have ha : a.isDigit = true := hip a (by simp)
      have h4 : 48 ≤ a.toNat ∧ a.toNat ≤ 57 := by
        have := Char.isDigit_iff_toNat.mp ha
        exact this
      refine ⟨a, ip' ++ ((if fp = [] then [] else '.' :: fp) ++ expText ex), by simp [Tok.text], ?_, ?_, ?_, ?_⟩
      · intro e; subst e; simp at h4
      · intro e; subst e; simp at h4
      · intro e; subst e; simp at h4
      · have hne' : a ≠ ' ' := by intro e; subst e; simp at h4
        have h13 : ¬ (a.toNat ≤ 13) := by omega
        simp [isNumSpace, hne', h13]

theorem splitSign_plain (a : Char) (m : List Char) (h1 : a ≠ '+') (h2 : a ≠ '-') : splitSign (a :: m) = (false, a :: m) := by
  unfold splitSign
  split
  · rename_i r e; simp at e; exact absurd e.1 h2
  · rename_i r e; simp at e; exact absurd e.1 h1
  · rfl

/-- a part written with `-` or without sign -/
theorem scanFloat_part (p : Part) (hv : p.tok.Valid) {c : Char} (h : isStop c) (rest : List Char) :
    scanFloat ((if p.neg then ['-'] else []) ++ p.tok.text ++ c :: rest) = some (p, c :: rest) := by
  obtain ⟨neg, t⟩ := p
  simp only at hv ⊢
  cases neg with
  | true =>
    have : splitSign (['-'] ++ t.text ++ c :: rest) = (true, t.text ++ c :: rest) := by simp [splitSign]
    simp only [scanFloat, ↓reduceIte, this, scanMag_text t hv h rest, Option.map_some]
  | false =>
    obtain ⟨a, m, e, h1, h2, _, _⟩ := tok_head t hv
    have : splitSign ([] ++ t.text ++ c :: rest) = (false, t.text ++ c :: rest) := by
      simp only [List.nil_append, e, List.cons_append]
      exact splitSign_plain a _ h1 h2
    simp only [scanFloat, Bool.false_eq_true, ↓reduceIte, this, scanMag_text t hv h rest, Option.map_some]

/-- a part written with an explicit `+` or `-` -/
theorem scanFloat_signed (p : Part) (hv : p.tok.Valid) {c : Char} (h : isStop c) (rest : List Char) :
    scanFloat ((if p.neg then '-' else '+') :: (p.tok.text ++ c :: rest)) = some (p, c :: rest) := by
  obtain ⟨neg, t⟩ := p
  simp only at hv ⊢
  have : splitSign ((if neg then '-' else '+') :: (t.text ++ c :: rest)) = (neg, t.text ++ c :: rest) := by
    cases neg <;> rfl
  simp only [scanFloat, this, scanMag_text t hv h rest, Option.map_some]

theorem dropWhile_head (p : Char → Bool) (a : Char) (m : List Char) (h : p a = false) : (a :: m).dropWhile p = a :: m := by
  simp [List.dropWhile, h]

theorem complexParse_complexStr (re im : Part) (hr : re.tok.Valid) (hi : im.tok.Valid) :
    complexParse (complexStr re im) = some (re, im) := by
  unfold complexStr
  by_cases hz : re = Part.zero
  · simp only [hz, ↓reduceIte]
    -- `<im>j`
    have hscan := scanFloat_part im hi (c := 'j') (Or.inr (Or.inr (Or.inl rfl))) []
    -- first character: a sign or the head of the token
    have hfirst : ∃ a m, (if im.neg then ['-'] else []) ++ im.tok.text ++ ['j'] = a :: m ∧ a ≠ '(' ∧ isNumSpace a = false := by
      obtain ⟨a, m, e, _, _, h3, h4⟩ := tok_head im.tok hi
      cases im.neg with
      | true => exact ⟨'-', _, rfl, by decide, by decide⟩
      | false => exact ⟨a, m ++ ['j'], by simp [e], h3, h4⟩
    obtain ⟨a, m, e, hpar, hsp⟩ := hfirst
    unfold complexParse
    have e1 : List.dropWhile isNumSpace ((if im.neg then ['-'] else []) ++ im.tok.text ++ ['j'])
        = (if im.neg then ['-'] else []) ++ im.tok.text ++ ['j'] := by
      rw [e]; exact dropWhile_head _ _ _ hsp
    rw [e1]
    have e2 : openBracket ((if im.neg then ['-'] else []) ++ im.tok.text ++ ['j'])
        = (false, (if im.neg then ['-'] else []) ++ im.tok.text ++ ['j']) := by
      rw [e]
      unfold openBracket
      split
      · rename_i r e'; simp at e'; exact absurd e'.1 hpar
      · rfl
    simp only [e2, hscan]
    simp [isJ, complexTail]
  · simp only [hz, ↓reduceIte]
    -- `(<re>±<im>j)`
    have hS : isStop (if im.neg then '-' else '+') := by
      cases im.neg
      · exact Or.inl rfl
      · exact Or.inr (Or.inl rfl)
    have hscan1 := scanFloat_part re hr hS (im.tok.text ++ ['j', ')'])
    have hscan2 := scanFloat_signed im hi (c := 'j') (Or.inr (Or.inr (Or.inl rfl))) [')']
    have hfirst : ∃ a m, (if re.neg then ['-'] else []) ++ re.tok.text ++ ((if im.neg then '-' else '+') :: (im.tok.text ++ ['j', ')']))
        = a :: m ∧ isNumSpace a = false := by
      obtain ⟨a, m, e, _, _, _, h4⟩ := tok_head re.tok hr
      cases re.neg with
      | true => exact ⟨'-', _, rfl, by decide⟩
      | false => exact ⟨a, m ++ ((if im.neg then '-' else '+') :: (im.tok.text ++ ['j', ')'])), by simp [e], h4⟩
    obtain ⟨a, m, e, hsp⟩ := hfirst
    unfold complexParse
    have e1 : List.dropWhile isNumSpace ('(' :: ((if re.neg then ['-'] else []) ++ re.tok.text ++
        ((if im.neg then '-' else '+') :: (im.tok.text ++ ['j', ')'])))) = '(' :: ((if re.neg then ['-'] else []) ++ re.tok.text ++
        ((if im.neg then '-' else '+') :: (im.tok.text ++ ['j', ')']))) := dropWhile_head _ _ _ (by decide)
    rw [e1]
    have e2 : openBracket ('(' :: ((if re.neg then ['-'] else []) ++ re.tok.text ++
        ((if im.neg then '-' else '+') :: (im.tok.text ++ ['j', ')'])))) = (true, (if re.neg then ['-'] else []) ++ re.tok.text ++
        ((if im.neg then '-' else '+') :: (im.tok.text ++ ['j', ')']))) := by
      simp only [openBracket]
      rw [e]
      rw [dropWhile_head _ _ _ hsp]
    simp only [e2, hscan1]
    have hpm : ((if im.neg then '-' else '+') = '+' ∨ (if im.neg then '-' else '+') = '-') := by
      cases im.neg <;> simp
    have e3 : im.tok.text ++ ['j', ')'] = im.tok.text ++ 'j' :: [')'] := rfl
    have ht : complexTail true [')'] = true := by decide
    simp only [hpm, ↓reduceIte, e3, hscan2]
    simp [isJ, ht]

end Jap.Typing

import Jap.Lemmas.NamespaceRun
/-!
Key paths through plain `dict` values: the exact class of operations on which the
code leaves the nested-dictionary reading (dict values are opaque leaves), and what
it does there.

`_parse_key` walks through namespaces *and* dicts.  When the walk gets through to a
parent (`walk … = some _`) the operation acts on that parent, dict or namespace
inside a dict; when the walk fails, `__setitem__` falls back to
`_create_nested_namespace`, which only knows namespaces and *replaces* the dict —
exactly what the nested dictionary does.  Hence the deviating class is not "a dict
lies on the path" (`noDict = false`) but the smaller

* `thruDict`  (set):          a dict lies on the path and the walk gets through;
* `devGet`    (get/contains/del): … and ends in a namespace that holds the leaf;
* `devPop`    (pop):          `devGet`, or the walk ends in a non-empty dict.

For each operation: outside the class the code is the one-pass specification
(`*_exact`), inside it is not (`*_dev`).
-/
namespace Jap.NS

/-! ### `__setitem__` -/

/-- the two-phase assignment (create parents, then assign) is the one-pass `setK` on EVERY state: a dict met by
    `_create_nested_namespace` is replaced by a fresh namespace like any other leaf -/
theorem updateAt_createNested_any (leaf : SKey) (item : V) : ∀ (path : List SKey) (root : KV),
    updateAt (insert leaf item) path (.ns (createNested path root)) = .ns (setK (path ++ [leaf]) item root)
  | [], root => by simp [createNested, updateAt, setK]
  | s :: rest, root => by
    have hq : rest ++ [leaf] ≠ [] := by simp
    rw [List.cons_append, setK_cons s _ hq]
    have ih0 := updateAt_createNested_any leaf item rest []
    cases hl : lookup s root with
    | none => simp only [createNested, hl, updateAt, lookup_insert_same, ih0, insert_insert_same]
    | some nxt =>
      cases nxt with
      | ns sub =>
        have ih := updateAt_createNested_any leaf item rest sub
        simp only [createNested, hl, updateAt, lookup_insert_same, ih, insert_insert_same]
      | dct d => simp only [createNested, hl, updateAt, lookup_insert_same, ih0, insert_insert_same]
      | none => simp only [createNested, hl, updateAt, lookup_insert_same, ih0, insert_insert_same]
      | atom a => simp only [createNested, hl, updateAt, lookup_insert_same, ih0, insert_insert_same]
      | lst a => simp only [createNested, hl, updateAt, lookup_insert_same, ih0, insert_insert_same]
      | tup a => simp only [createNested, hl, updateAt, lookup_insert_same, ih0, insert_insert_same]

/-- when the walk of `_parse_key` fails — dict on the path or not — `__setitem__` is the one-pass `setK` -/
theorem setSegs_of_walk_none (path : List SKey) (leaf : SKey) (item : V) (root : KV)
    (hw : walk path (.ns root) = .none) : setSegs path leaf item root = setK (path ++ [leaf]) item root := by
  unfold setSegs
  simp only [hw, updateAt_createNested_any, unNs]

/-- a dict value lies on the key path AND the walk of `_parse_key` gets through to a parent -/
def thruDict (path : List SKey) (root : KV) : Bool :=
  !noDict path (.ns root) && (walk path (.ns root)).isSome

/-- outside `thruDict`, `__setitem__` is the one-pass `setK` -/
theorem setSegs_exact (path : List SKey) (leaf : SKey) (item : V) (root : KV) (h : thruDict path root = false) :
    setSegs path leaf item root = setK (path ++ [leaf]) item root := by
  unfold thruDict at h
  cases hnd : noDict path (.ns root) with
  | true => exact setSegs_eq_setK path leaf item root hnd
  | false =>
    cases hw : walk path (.ns root) with
    | none => exact setSegs_of_walk_none path leaf item root hw
    | some c => simp [hnd, hw] at h

/-- after the specification's assignment every step of the path is a namespace -/
theorem noDict_setK (leaf : SKey) (item : V) : ∀ (path : List SKey) (root : KV),
    noDict path (.ns (setK (path ++ [leaf]) item root)) = true
  | [], _ => rfl
  | s :: rest, root => by
    have hq : rest ++ [leaf] ≠ [] := by simp
    rw [List.cons_append, setK_cons s _ hq]
    cases hl : lookup s root with
    | none => simp only [noDict, lookup_insert_same]; exact noDict_setK leaf item rest []
    | some nxt =>
      cases nxt with
      | ns sub => simp only [noDict, lookup_insert_same]; exact noDict_setK leaf item rest sub
      | dct d => simp only [noDict, lookup_insert_same]; exact noDict_setK leaf item rest []
      | none => simp only [noDict, lookup_insert_same]; exact noDict_setK leaf item rest []
      | atom a => simp only [noDict, lookup_insert_same]; exact noDict_setK leaf item rest []
      | lst a => simp only [noDict, lookup_insert_same]; exact noDict_setK leaf item rest []
      | tup a => simp only [noDict, lookup_insert_same]; exact noDict_setK leaf item rest []

/-- an update in place below a successful walk keeps the dict on the path -/
theorem noDict_updateAt (f : KV → KV) : ∀ (path : List SKey) (cur c : V),
    walk path cur = some c → noDict path cur = false → noDict path (updateAt f path cur) = false
  | [], cur, c, hw, hnd => by
    cases cur <;> simp [walk] at hw <;> simp [noDict] at hnd ⊢
    simp [updateAt, noDict]
  | s :: rest, cur, c, hw, hnd => by
    cases cur with
    | ns kvs =>
      simp only [walk] at hw
      simp only [noDict] at hnd
      cases hl : lookup s kvs with
      | none => simp [hl] at hw
      | some nxt =>
        simp only [hl] at hw hnd
        by_cases hc : isCont nxt = true
        · simp only [hc, if_true] at hw
          simp only [updateAt, hl, noDict, lookup_insert_same]
          exact noDict_updateAt f rest nxt c hw hnd
        · simp [hc] at hw
    | dct kvs =>
      cases hl : lookup s kvs <;> simp [updateAt, hl, noDict]
    | none => simp [walk] at hw
    | atom a => simp [walk] at hw
    | lst a => simp [walk] at hw
    | tup a => simp [walk] at hw

theorem updateAt_ns (f : KV → KV) (path : List SKey) (kvs : KV) :
    updateAt f path (.ns kvs) = .ns (unNs (updateAt f path (.ns kvs)) kvs) := by
  cases path with
  | nil => simp [updateAt, unNs]
  | cons s rest => cases hl : lookup s kvs <;> simp [updateAt, hl, unNs]

/-- inside `thruDict`, `__setitem__` is NOT the nested-dictionary assignment: the code keeps the dict on the path
    (and writes into it, or below it), the specification replaces it by a namespace -/
theorem setSegs_dev (path : List SKey) (leaf : SKey) (item : V) (root : KV) (h : thruDict path root = true) :
    noDict path (.ns (setSegs path leaf item root)) = false ∧
    noDict path (.ns (setK (path ++ [leaf]) item root)) = true ∧
    setSegs path leaf item root = unNs (updateAt (insert leaf item) path (.ns root)) root := by
  unfold thruDict at h
  simp only [Bool.and_eq_true, Bool.not_eq_true'] at h
  obtain ⟨hnd, hw⟩ := h
  cases hw' : walk path (.ns root) with
  | none => simp [hw'] at hw
  | some c =>
    have e : setSegs path leaf item root = unNs (updateAt (insert leaf item) path (.ns root)) root := by
      unfold setSegs; simp only [hw']
    refine ⟨?_, noDict_setK leaf item path root, e⟩
    rw [e, ← updateAt_ns]
    exact noDict_updateAt _ path (.ns root) c hw' hnd

/-! ### `__getitem__`, `__contains__`, `__delitem__` -/

/-- the nested dictionary holds nothing below a dict value -/
theorem getK_none_of_dict (leaf : SKey) : ∀ (path : List SKey) (root : KV),
    noDict path (.ns root) = false → getK (path ++ [leaf]) root = .none
  | [], root, h => by simp [noDict] at h
  | s :: rest, root, h => by
    have hq : rest ++ [leaf] ≠ [] := by simp
    rw [List.cons_append, getK_cons s _ hq]
    simp only [noDict] at h
    cases hl : lookup s root with
    | none => simp [hl] at h
    | some nxt =>
      simp only [hl] at h
      cases nxt with
      | ns sub => exact getK_none_of_dict leaf rest sub h
      | dct d => rfl
      | none => rfl
      | atom a => rfl
      | lst a => rfl
      | tup a => rfl

/-- a dict lies on the path, the walk gets through it and ends in a namespace that holds the leaf -/
def devGet (path : List SKey) (leaf : SKey) (root : KV) : Bool :=
  !noDict path (.ns root) &&
    match walk path (.ns root) with
    | some (.ns kvs) => (lookup leaf kvs).isSome
    | _ => false

/-- outside `devGet`, `__getitem__` reads the nested dictionary -/
theorem getSegs_exact (path : List SKey) (leaf : SKey) (root : KV) (h : devGet path leaf root = false) :
    getSegs path leaf root = match getK (path ++ [leaf]) root with
      | some v => .ok v
      | .none => .error .key := by
  cases hnd : noDict path (.ns root) with
  | true => exact getSegs_eq_getK path leaf root hnd
  | false =>
    rw [getK_none_of_dict leaf path root hnd]
    unfold devGet at h
    unfold getSegs
    cases hw : walk path (.ns root) with
    | none => rfl
    | some c =>
      cases c with
      | ns kvs =>
        cases hl : lookup leaf kvs with
        | none => simp [hl]
        | some v => simp [hnd, hw, hl] at h
      | dct d => rfl
      | none => rfl
      | atom a => rfl
      | lst a => rfl
      | tup a => rfl

/-- inside `devGet`, `__getitem__` returns a value where the nested dictionary holds none -/
theorem getSegs_dev (path : List SKey) (leaf : SKey) (root : KV) (h : devGet path leaf root = true) :
    (∃ v, getSegs path leaf root = .ok v) ∧ getK (path ++ [leaf]) root = .none := by
  unfold devGet at h
  simp only [Bool.and_eq_true, Bool.not_eq_true'] at h
  obtain ⟨hnd, hm⟩ := h
  refine ⟨?_, getK_none_of_dict leaf path root hnd⟩
  unfold getSegs
  cases hw : walk path (.ns root) with
  | none => simp [hw] at hm
  | some c =>
    cases c with
    | ns kvs =>
      cases hl : lookup leaf kvs with
      | none => simp [hw, hl] at hm
      | some v => exact ⟨v, by simp [hl]⟩
    | dct d => simp [hw] at hm
    | none => simp [hw] at hm
    | atom a => simp [hw] at hm
    | lst a => simp [hw] at hm
    | tup a => simp [hw] at hm

theorem containsSegs_exact (path : List SKey) (leaf : SKey) (root : KV) (h : devGet path leaf root = false) :
    containsSegs path leaf root = (getK (path ++ [leaf]) root).isSome := by
  unfold containsSegs
  rw [getSegs_exact path leaf root h]
  cases getK (path ++ [leaf]) root <;> rfl

theorem containsSegs_dev (path : List SKey) (leaf : SKey) (root : KV) (h : devGet path leaf root = true) :
    containsSegs path leaf root = true ∧ (getK (path ++ [leaf]) root).isSome = false := by
  obtain ⟨⟨v, hv⟩, hg⟩ := getSegs_dev path leaf root h
  simp [containsSegs, hv, hg]

/-- outside `devGet`, `__delitem__` succeeds exactly when the nested dictionary holds the key, and then is `delK` -/
theorem delSegs_exact (path : List SKey) (leaf : SKey) (root : KV) (h : devGet path leaf root = false) :
    (∀ r', delSegs path leaf root = .ok r' → r' = delK (path ++ [leaf]) root ∧ (getK (path ++ [leaf]) root).isSome) ∧
    (∀ e, delSegs path leaf root = .error e → getK (path ++ [leaf]) root = .none) := by
  cases hnd : noDict path (.ns root) with
  | true => exact delSegs_spec path leaf root hnd
  | false =>
    have hg := getK_none_of_dict leaf path root hnd
    refine ⟨?_, fun _ _ => hg⟩
    unfold devGet at h
    unfold delSegs
    cases hw : walk path (.ns root) with
    | none => simp
    | some c =>
      cases c with
      | ns kvs =>
        cases hl : lookup leaf kvs with
        | none => simp [hl]
        | some v => simp [hnd, hw, hl] at h
      | dct d => simp
      | none => simp
      | atom a => simp
      | lst a => simp
      | tup a => simp

/-- inside `devGet`, `__delitem__` succeeds where the nested dictionary has nothing to delete -/
theorem delSegs_dev (path : List SKey) (leaf : SKey) (root : KV) (h : devGet path leaf root = true) :
    (∃ r', delSegs path leaf root = .ok r') ∧ getK (path ++ [leaf]) root = .none := by
  unfold devGet at h
  simp only [Bool.and_eq_true, Bool.not_eq_true'] at h
  obtain ⟨hnd, hm⟩ := h
  refine ⟨?_, getK_none_of_dict leaf path root hnd⟩
  unfold delSegs
  cases hw : walk path (.ns root) with
  | none => simp [hw] at hm
  | some c =>
    cases c with
    | ns kvs =>
      cases hl : lookup leaf kvs with
      | none => simp [hw, hl] at hm
      | some v => exact ⟨_, by simp only [hl]; rfl⟩
    | dct d => simp [hw] at hm
    | none => simp [hw] at hm
    | atom a => simp [hw] at hm
    | lst a => simp [hw] at hm
    | tup a => simp [hw] at hm

/-! ### `pop` -/

/-- `devGet`, or the walk ends in a non-empty dict (`dict.__dict__` raises) -/
def devPop (path : List SKey) (leaf : SKey) (root : KV) : Bool :=
  devGet path leaf root ||
    match walk path (.ns root) with
    | some (.dct (_ :: _)) => true
    | _ => false

/-- outside `devPop`, `pop` returns the nested dictionary's value or the default and removes the key -/
theorem popSegs_exact (path : List SKey) (leaf : SKey) (dflt : V) (root : KV) (h : devPop path leaf root = false) :
    popSegs path leaf dflt root = .ok ((getK (path ++ [leaf]) root).getD dflt, delK (path ++ [leaf]) root) := by
  cases hnd : noDict path (.ns root) with
  | true => exact popSegs_spec path leaf dflt root hnd
  | false =>
    have hg := getK_none_of_dict leaf path root hnd
    rw [hg, delK_of_getK_none _ _ hg]
    unfold devPop devGet at h
    simp only [Bool.or_eq_false_iff] at h
    obtain ⟨h1, h2⟩ := h
    unfold popSegs
    cases hw : walk path (.ns root) with
    | none => rfl
    | some c =>
      have hcont := walk_is_cont path _ c hw
      cases c with
      | ns kvs =>
        cases kvs with
        | nil => rfl
        | cons hd tl =>
          cases hl : lookup leaf (hd :: tl) with
          | none => simp [hl]
          | some v => simp [hnd, hw, hl] at h1
      | dct d =>
        cases d with
        | nil => rfl
        | cons hd tl => simp [hw] at h2
      | none => simp [isCont] at hcont
      | atom a => simp [isCont] at hcont
      | lst a => simp [isCont] at hcont
      | tup a => simp [isCont] at hcont

/-- inside `devPop`, `pop` returns a stored value (and removes it) or raises `AttributeError`, where the nested
    dictionary holds nothing under the key and so returns the default -/
theorem popSegs_dev (path : List SKey) (leaf : SKey) (dflt : V) (root : KV) (h : devPop path leaf root = true) :
    getK (path ++ [leaf]) root = .none ∧
    ((∃ kvs v, walk path (.ns root) = some (.ns kvs) ∧ lookup leaf kvs = some v ∧
        popSegs path leaf dflt root = .ok (v, unNs (updateAt (erase leaf) path (.ns root)) root))
     ∨ popSegs path leaf dflt root = .error .attr) := by
  have hnd : noDict path (.ns root) = false := by
    cases hn : noDict path (.ns root) with
    | false => rfl
    | true =>
      unfold devPop devGet at h
      simp only [hn, Bool.not_true, Bool.false_and, Bool.false_or] at h
      cases hw : walk path (.ns root) with
      | none => simp [hw] at h
      | some c =>
        cases c with
        | dct d => exact absurd hw (walk_not_dct path root d hn)
        | ns kvs => simp [hw] at h
        | none => simp [hw] at h
        | atom a => simp [hw] at h
        | lst a => simp [hw] at h
        | tup a => simp [hw] at h
  refine ⟨getK_none_of_dict leaf path root hnd, ?_⟩
  unfold devPop devGet at h
  unfold popSegs
  cases hw : walk path (.ns root) with
  | none => simp [hw] at h
  | some c =>
    cases c with
    | ns kvs =>
      cases hl : lookup leaf kvs with
      | none => simp [hw, hl] at h
      | some v =>
        left
        refine ⟨kvs, v, rfl, hl, ?_⟩
        cases kvs with
        | nil => simp [lookup] at hl
        | cons hd tl => simp [hl]
    | dct d =>
      cases d with
      | nil => simp [hw] at h
      | cons hd tl => right; rfl
    | none => simp [hw] at h
    | atom a => simp [hw] at h
    | lst a => simp [hw] at h
    | tup a => simp [hw] at h

/-! ### operation sequences under the exact guard -/

/-- the operation lies in the deviating class of its kind -/
def opDev (clash : List String) : Op → KV → Bool
  | .set p _ _, r => thruDict (p.map (mark clash)) r
  | .del p l, r => devGet (p.map (mark clash)) (mark clash l) r
  | .pop p l, r => devPop (p.map (mark clash)) (mark clash l) r
  | .setU p l _, r =>
    devGet (p.map (mark clash)) (mark clash l) r ||
      (!containsSegs (p.map (mark clash)) (mark clash l) r && thruDict (p.map (mark clash)) r)

/-- no operation of the sequence lies in its deviating class (weaker than `safe`: dicts may lie on the paths) -/
def safeX (clash : List String) : List Op → KV → Bool
  | [], _ => true
  | op :: rest, r => !opDev clash op r && opCanon clash op && safeX clash rest (stepC clash op r)

theorem noDict_true_not_thru (path : List SKey) (root : KV) (h : noDict path (.ns root) = true) :
    thruDict path root = false := by simp [thruDict, h]

theorem noDict_true_not_devGet (path : List SKey) (leaf : SKey) (root : KV) (h : noDict path (.ns root) = true) :
    devGet path leaf root = false := by simp [devGet, h]

theorem noDict_true_not_devPop (path : List SKey) (leaf : SKey) (root : KV) (h : noDict path (.ns root) = true) :
    devPop path leaf root = false := by
  unfold devPop
  rw [noDict_true_not_devGet path leaf root h]
  cases hw : walk path (.ns root) with
  | none => rfl
  | some c =>
    cases c with
    | dct d => exact absurd hw (walk_not_dct path root d h)
    | ns kvs => rfl
    | none => rfl
    | atom a => rfl
    | lst a => rfl
    | tup a => rfl

/-- the old guard implies the exact one -/
theorem safeX_of_safe (clash : List String) : ∀ (ops : List Op) (r : KV), safe clash ops r = true → safeX clash ops r = true
  | [], _, _ => rfl
  | op :: rest, r, h => by
    simp only [safe, Bool.and_eq_true] at h
    obtain ⟨⟨h1, h2⟩, h3⟩ := h
    simp only [safeX, Bool.and_eq_true, Bool.not_eq_true']
    refine ⟨⟨?_, h2⟩, safeX_of_safe clash rest _ h3⟩
    cases op with
    | set p l v => exact noDict_true_not_thru _ _ h1
    | del p l => exact noDict_true_not_devGet _ _ _ h1
    | pop p l => exact noDict_true_not_devPop _ _ _ h1
    | setU p l v =>
      simp only [opDev, opPath] at h1 ⊢
      rw [noDict_true_not_devGet _ _ _ h1, noDict_true_not_thru _ _ h1]
      simp

theorem step_refines_exact (clash : List String) (op : Op) (r : KV) (hc : canonKV clash r = true)
    (hd : opDev clash op r = false) (hv : opCanon clash op = true) :
    absKV (stepC clash op r) = stepS op (absKV r) ∧ canonKV clash (stepC clash op r) = true := by
  cases op with
  | set p l v =>
    simp only [opDev] at hd
    simp only [opCanon] at hv
    simp only [stepC, stepS]
    rw [setSegs_exact _ _ _ _ hd, ← map_append_mark]
    exact abs_setK clash v hv (p ++ [l]) r hc
  | del p l =>
    simp only [opDev] at hd
    simp only [stepC, stepS]
    obtain ⟨h1, h2⟩ := delSegs_exact _ (mark clash l) r hd
    obtain ⟨a1, a2⟩ := abs_delK clash (p ++ [l]) r hc
    rw [map_append_mark] at a1 a2
    cases hdl : delSegs (p.map (mark clash)) (mark clash l) r with
    | ok r' =>
      obtain ⟨e, _⟩ := h1 r' hdl
      simp only [e]
      exact ⟨a1, a2⟩
    | error e =>
      have hn := h2 e hdl
      have := delK_of_getK_none _ _ hn
      simp only []
      rw [← a1, this]
      exact ⟨rfl, hc⟩
  | pop p l =>
    simp only [opDev] at hd
    simp only [stepC, stepS]
    rw [popSegs_exact _ (mark clash l) .none r hd]
    obtain ⟨a1, a2⟩ := abs_delK clash (p ++ [l]) r hc
    rw [map_append_mark] at a1 a2
    exact ⟨a1, a2⟩
  | setU p l v =>
    simp only [opDev, Bool.or_eq_false_iff] at hd
    obtain ⟨hd1, hd2⟩ := hd
    simp only [opCanon] at hv
    simp only [stepC, stepS]
    have hce := containsSegs_exact _ _ _ hd1
    rw [hce] at hd2 ⊢
    rw [abs_getK clash (p ++ [l]) r hc, map_append_mark]
    cases hg : getK (p.map (mark clash) ++ [mark clash l]) r with
    | some w => simp [hc]
    | none =>
      simp only [hg, Option.isSome, Bool.not_false, Bool.true_and] at hd2
      simp only [Option.map, Option.isSome, Bool.not_false, if_true]
      rw [setSegs_exact _ _ _ _ hd2, ← map_append_mark]
      exact abs_setK clash v hv (p ++ [l]) r hc

theorem run_refines_exact (clash : List String) : ∀ (ops : List Op) (r : KV), canonKV clash r = true →
    safeX clash ops r = true →
    absKV (runC clash ops r) = runS ops (absKV r) ∧ canonKV clash (runC clash ops r) = true
  | [], r, hc, _ => ⟨rfl, hc⟩
  | op :: rest, r, hc, hs => by
    simp only [safeX, Bool.and_eq_true, Bool.not_eq_true'] at hs
    obtain ⟨⟨h1, h2⟩, h3⟩ := hs
    obtain ⟨s1, s2⟩ := step_refines_exact clash op r hc h1 h2
    obtain ⟨i1, i2⟩ := run_refines_exact clash rest (stepC clash op r) s2 h3
    simp only [runC, runS, List.foldl_cons] at i1 i2 ⊢
    rw [← s1]
    exact ⟨i1, i2⟩


/-! ### the deviation survives the abstraction (clash marks forgotten) -/

theorem key_canon_of_lookup (clash : List String) (k : SKey) : ∀ (kvs : KV) (v : V), canonKV clash kvs = true →
    lookup k kvs = some v → k = mark clash k.name
  | [], _, _, h => by simp [lookup] at h
  | (k', v') :: r, v, hc, h => by
    simp only [canonKV, Bool.and_eq_true, decide_eq_true_eq] at hc
    by_cases e : k' = k
    · rw [← e]; exact hc.1.1
    · simp [lookup, e] at h
      exact key_canon_of_lookup clash k r v hc.2 h

/-- an update in place keeps every namespace canonical (dict contents are not constrained) -/
theorem canonV_updateAt (clash : List String) (f : KV → KV)
    (hf : ∀ kvs, canonKV clash kvs = true → canonKV clash (f kvs) = true) :
    ∀ (path : List SKey) (cur : V), canonV clash cur = true → canonV clash (updateAt f path cur) = true
  | [], cur, h => by
    cases cur <;> simp only [updateAt, canonV] at h ⊢
    exact hf _ h
  | s :: rest, cur, h => by
    cases cur with
    | ns kvs =>
      simp only [canonV] at h
      cases hl : lookup s kvs with
      | none => simp [updateAt, hl, canonV, h]
      | some nxt =>
        simp only [updateAt, hl, canonV]
        have hk := key_canon_of_lookup clash s kvs nxt h hl
        rw [hk]
        exact canon_insert clash s.name _ (canonV_updateAt clash f hf rest nxt (canon_lookup clash s kvs nxt h hl)) kvs h
    | dct kvs => cases hl : lookup s kvs <;> simp [updateAt, hl, canonV]
    | none => simp [updateAt, canonV]
    | atom a => simp [updateAt, canonV]
    | lst a => simp [updateAt, canonV]
    | tup a => simp [updateAt, canonV]

/-- "a dict lies on the path" is the same question on the stored namespace and on its plain-key abstraction -/
theorem noDict_abs (clash : List String) : ∀ (p : List String) (v : V), canonV clash v = true →
    noDict (p.map plain) (absV v) = noDict (p.map (mark clash)) v
  | [], v, _ => by cases v <;> simp [absV, noDict]
  | s :: rest, v, h => by
    cases v with
    | ns kvs =>
      simp only [canonV] at h
      simp only [List.map_cons, absV, noDict, lookup_abs clash s kvs h]
      cases hl : lookup (mark clash s) kvs with
      | none => rfl
      | some nxt => exact noDict_abs clash rest nxt (canon_lookup clash _ kvs nxt h hl)
    | dct d => simp [absV, noDict]
    | none => simp [absV, noDict]
    | atom a => simp [absV, noDict]
    | lst a => simp [absV, noDict]
    | tup a => simp [absV, noDict]

/-- the stored namespace stays canonical through a deviating assignment -/
theorem canon_setSegs_dev (clash : List String) (path : List SKey) (leaf : String) (item : V) (root : KV)
    (hc : canonKV clash root = true) (hv : canonV clash item = true) :
    canonKV clash (unNs (updateAt (insert (mark clash leaf) item) path (.ns root)) root) = true := by
  have h := canonV_updateAt clash (insert (mark clash leaf) item) (fun kvs hk => canon_insert clash leaf item hv kvs hk)
    path (.ns root) (by simpa [canonV] using hc)
  rw [updateAt_ns] at h
  simpa [canonV] using h

end Jap.NS

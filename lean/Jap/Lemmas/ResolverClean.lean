/-
E9 (Resolver): on well-formed programs without a clash between a popped name and another
definition (`noPopClash`) `group_parameters` always takes its plain branch: no `Conditional`
parameter, no tuple origin, hence never the AttributeError (`Out.crash`).
-/
import Jap.Lemmas.ResolverSig

namespace Jap.Resolver

/-- what the resolver returns on such programs: distinct names, plain parameters that are definitions -/
def CleanR (P : Prog) (R : List Param) : Prop :=
  (names R).Nodup ∧ ∀ p ∈ R, p.otuple = false ∧ ∃ q ∈ P.defs, sameSig p q

theorem dedup_sub {α : Type} [DecidableEq α] : ∀ (l : List α), (dedup l).Nodup := by
  intro l
  induction l with
  | nil => simp [dedup]
  | cons a l ih =>
    simp only [dedup, List.nodup_cons, List.mem_filter, decide_eq_true_eq]
    exact ⟨fun h => h.2 rfl, ih.sublist List.filter_sublist⟩

theorem dedup_length_le {α : Type} [DecidableEq α] : ∀ (l : List α), (dedup l).length ≤ l.length := by
  intro l
  induction l with
  | nil => simp [dedup]
  | cons a l ih =>
    simp only [dedup, List.length_cons]
    have := List.length_filter_le (fun y => decide (y ≠ a)) (dedup l)
    omega

theorem uniqD_sub : ∀ (l : List Dflt) (x : Dflt), x ∈ uniqD l → x ∈ l := by
  intro l
  induction l with
  | nil => intro x h; simp [uniqD] at h
  | cons a l ih =>
    intro x h
    simp only [uniqD, List.mem_cons, List.mem_filter] at h
    rcases h with rfl | h
    · exact List.mem_cons_self
    · exact List.mem_cons_of_mem _ (ih x h.1)

theorem uniqD_le_one : ∀ (l : List Dflt), (∀ a ∈ l, ∀ b ∈ l, sameDflt a b = true) → (uniqD l).length ≤ 1 := by
  intro l h
  cases l with
  | nil => simp [uniqD]
  | cons a l =>
    simp only [uniqD, List.length_cons]
    have : (uniqD l).filter (fun y => !sameDflt a y) = [] := by
      apply List.filter_eq_nil_iff.2
      intro y hy
      have := h a List.mem_cons_self y (List.mem_cons_of_mem _ (uniqD_sub l y hy))
      simp [this]
    rw [this]
    simp

theorem uniqD_length_le : ∀ (l : List Dflt), (uniqD l).length ≤ l.length := by
  intro l
  induction l with
  | nil => simp [uniqD]
  | cons a l ih =>
    simp only [uniqD, List.length_cons]
    have := List.length_filter_le (fun y => !sameDflt a y) (uniqD l)
    omega

theorem filter_name_le_one : ∀ {ps : List Param} (m : String), (names ps).Nodup →
    (ps.filter (fun p => decide (p.name = m))).length ≤ 1 := by
  intro ps m
  induction ps with
  | nil => intro _; simp
  | cons a ps ih =>
    intro hnd
    simp only [names, List.map_cons, List.nodup_cons] at hnd
    simp only [List.filter_cons]
    by_cases ha : a.name = m
    · have hnone : ps.filter (fun p => decide (p.name = m)) = [] := by
        apply List.filter_eq_nil_iff.2
        intro p hp
        simp only [decide_eq_true_eq]
        intro hpm
        exact hnd.1 (List.mem_map.2 ⟨p, hp, by rw [hpm, ha]⟩)
      simp [ha, hnone]
    · simpa [ha] using ih hnd.2

def popParams (ps : List (String × DVal)) : List Param := ps.map (fun x => popParam x.1 x.2)

theorem flatMap_popList (ps : List (String × DVal)) : (ps.map popList).flatMap (·.2) = popParams ps := by
  induction ps with
  | nil => rfl
  | cons x ps ih => simp [popList, popParams] at ih ⊢; exact ih

/-- the grouping step on `pops ++ (what the one forwarding call keeps)` -/
theorem group_clean {P : Prog} {ps : List (String × DVal)} {tail : List (Bool × List Param)} {kept : List Param}
    (htail : tail = [] ∨ tail = [(false, kept)])
    (hkept : CleanR P kept)
    (hpd : ∀ x ∈ ps, popParam x.1 x.2 ∈ P.defs)
    (hclash : ∀ x ∈ ps, ∀ q ∈ P.defs, q.name = x.1 → dfltAgrees x.2 q.dflt = true) :
    ∃ g, group (ps.map popList ++ tail) = .ok g ∧ CleanR P g := by
  have hpopclean : ∀ x ∈ ps, CleanR P [popParam x.1 x.2] := by
    intro x hx
    refine ⟨by simp [names], ?_⟩
    intro p hp
    simp only [List.mem_singleton] at hp
    subst hp
    exact ⟨rfl, _, hpd x hx, sameSig_refl _⟩
  -- all parameters in play
  have hall : (ps.map popList ++ tail).flatMap (·.2) = popParams ps ++ tail.flatMap (·.2) := by
    rw [List.flatMap_append, flatMap_popList]
  have htailsub : ∀ p ∈ tail.flatMap (·.2), p ∈ kept := by
    intro p hp
    rcases htail with h | h <;> subst h <;> simp at hp
    exact hp
  have hallclean : ∀ p ∈ (ps.map popList ++ tail).flatMap (·.2), p.otuple = false ∧ ∃ q ∈ P.defs, sameSig p q := by
    intro p hp
    rw [hall] at hp
    rcases List.mem_append.1 hp with hp | hp
    · obtain ⟨x, hx, rfl⟩ := List.mem_map.1 hp
      exact ⟨rfl, _, hpd x hx, sameSig_refl _⟩
    · exact hkept.2 p (htailsub p hp)
  match hl : ps.map popList ++ tail with
  | [] => exact ⟨[], rfl, by simp [names], by simp⟩
  | [l] =>
    refine ⟨l.2, rfl, ?_⟩
    have hmem : l ∈ ps.map popList ++ tail := by rw [hl]; simp
    rcases List.mem_append.1 hmem with h | h
    · obtain ⟨x, hx, rfl⟩ := List.mem_map.1 h
      exact hpopclean x hx
    · rcases htail with h' | h' <;> subst h' <;> simp at h
      subst h
      exact hkept
  | l1 :: l2 :: rest =>
    rw [hl] at hall hallclean
    have hnocrash : (l1 :: l2 :: rest).any (fun l => headOtuple l.2) = false := by
      apply List.any_eq_false.2
      intro l hlm
      cases hh : l.2 with
      | nil => simp [headOtuple]
      | cons p r =>
        have : p ∈ (l1 :: l2 :: rest).flatMap (·.2) := List.mem_flatMap.2 ⟨l, hlm, by rw [hh]; simp⟩
        simp [headOtuple, (hallclean p this).1]
    simp only [group, hnocrash, Bool.false_eq_true, ↓reduceIte]
    refine ⟨_, rfl, ?_⟩
    -- number of non-pop lists
    have hnp : ((l1 :: l2 :: rest).filter (fun l => !l.1)).length ≤ 1 := by
      rw [← hl, List.filter_append]
      have h1 : (ps.map popList).filter (fun l => !l.1) = [] := by
        apply List.filter_eq_nil_iff.2
        intro l hlm
        obtain ⟨x, _, rfl⟩ := List.mem_map.1 hlm
        simp [popList]
      rw [h1]
      rcases htail with h | h <;> subst h <;> simp
    generalize ((l1 :: l2 :: rest).filter (fun l => !l.1)).length = np at hnp
    rw [hall] at hallclean
    rw [hall]
    generalize htk : tail.flatMap (·.2) = tk at hallclean htailsub
    have htknd : (names tk).Nodup := by
      rcases htail with h | h <;> subst h <;> simp at htk <;> subst htk
      · simp [names]
      · exact hkept.1
    -- each grouped parameter is the first occurrence, unchanged
    have hone : ∀ m ∈ names (popParams ps ++ tk),
        ∃ g0 occ, (popParams ps ++ tk).filter (fun p => decide (p.name = m)) = g0 :: occ ∧
          groupOne np (g0 :: occ) = { g0 with otuple := false } := by
      intro m hm
      obtain ⟨p0, hp0, hp0n⟩ := mem_names.1 hm
      have hne : p0 ∈ (popParams ps ++ tk).filter (fun p => decide (p.name = m)) :=
        List.mem_filter.2 ⟨hp0, by simp [hp0n]⟩
      cases hf : (popParams ps ++ tk).filter (fun p => decide (p.name = m)) with
      | nil => rw [hf] at hne; cases hne
      | cons g0 occ =>
        refine ⟨g0, occ, rfl, ?_⟩
        have hocc : ∀ p ∈ g0 :: occ, p ∈ popParams ps ++ tk ∧ p.name = m := by
          intro p hp
          rw [← hf] at hp
          exact ⟨(List.mem_filter.1 hp).1, by simpa using (List.mem_filter.1 hp).2⟩
        have hsplit : g0 :: occ = (popParams ps).filter (fun p => decide (p.name = m)) ++ tk.filter (fun p => decide (p.name = m)) := by
          rw [← hf, List.filter_append]
        have htk1 := filter_name_le_one m htknd
        -- types: pops carry no annotation, at most one other occurrence
        have htypes : (dedup (((g0 :: occ).map (·.ty)).filter (fun t => decide (t ≠ [])))).length ≤ 1 := by
          refine Nat.le_trans (dedup_length_le _) ?_
          rw [hsplit, List.map_append, List.filter_append]
          have h1 : (((popParams ps).filter (fun p => decide (p.name = m))).map (·.ty)).filter (fun t => decide (t ≠ [])) = [] := by
            apply List.filter_eq_nil_iff.2
            intro t ht
            obtain ⟨p, hp, rfl⟩ := List.mem_map.1 ht
            obtain ⟨x, _, rfl⟩ := List.mem_map.1 (List.mem_filter.1 hp).1
            simp [popParam]
          rw [h1, List.nil_append]
          refine Nat.le_trans (List.length_filter_le _ _) ?_
          simpa using htk1
        -- defaults: all agree with the pop's, or there is at most one occurrence
        have hdfl : (uniqD (((g0 :: occ).map (·.dflt)).filter (fun d => decide (d ≠ .empty)))).length ≤ 1 := by
          by_cases hpop : ∃ x ∈ ps, x.1 = m
          · obtain ⟨x, hx, hxm⟩ := hpop
            apply uniqD_le_one
            have hkey : ∀ d ∈ ((g0 :: occ).map (·.dflt)).filter (fun d => decide (d ≠ .empty)),
                ∃ v, d = .val v ∧ v.key = x.2.key := by
              intro d hd
              obtain ⟨hd1, hd2⟩ := List.mem_filter.1 hd
              simp only [decide_eq_true_eq] at hd2
              obtain ⟨p, hp, rfl⟩ := List.mem_map.1 hd1
              obtain ⟨hpall, hpn⟩ := hocc p hp
              obtain ⟨_, q, hq, hs⟩ := hallclean p hpall
              have hag := hclash x hx q hq (by rw [hs.1, hpn, hxm])
              rw [hs.2.2.1] at hag
              cases hpd' : p.dflt with
              | empty => exact absurd hpd' hd2
              | cond s => simp [hpd', dfltAgrees] at hag
              | val v => exact ⟨v, rfl, by simpa [hpd', dfltAgrees] using hag⟩
            intro a ha b hb
            obtain ⟨va, rfl, hva⟩ := hkey a ha
            obtain ⟨vb, rfl, hvb⟩ := hkey b hb
            simp [sameDflt, hva, hvb]
          · refine Nat.le_trans (uniqD_length_le _) ?_
            refine Nat.le_trans (List.length_filter_le _ _) ?_
            rw [List.length_map, hsplit]
            have h1 : (popParams ps).filter (fun p => decide (p.name = m)) = [] := by
              apply List.filter_eq_nil_iff.2
              intro p hp
              obtain ⟨x, hx, rfl⟩ := List.mem_map.1 hp
              intro h
              exact hpop ⟨x, hx, by simpa [popParam] using (of_decide_eq_true h)⟩
            rw [h1, List.nil_append]
            exact htk1
        unfold groupOne
        simp only
        have hnpl : np ≤ (g0 :: occ).length := by simp only [List.length_cons]; omega
        simp only [hnpl, htypes, hdfl, and_self, ↓reduceIte]
    constructor
    · -- names are the first occurrences, each once
      have : names ((dedup (names (popParams ps ++ tk))).map
          (fun n => groupOne np ((popParams ps ++ tk).filter (fun p => decide (p.name = n))))) =
          dedup (names (popParams ps ++ tk)) := by
        simp only [names, List.map_map]
        conv => rhs; rw [← List.map_id (dedup _)]
        apply List.map_congr_left
        intro m hm
        rw [mem_dedup] at hm
        obtain ⟨g0, occ, hf, _⟩ := hone m hm
        simp only [Function.comp, hf, groupOne_name, id]
        have : g0 ∈ (popParams ps ++ tk).filter (fun p => decide (p.name = m)) := by rw [hf]; simp
        simpa using (List.mem_filter.1 this).2
      rw [this]
      exact dedup_sub _
    · intro p hp
      obtain ⟨m, hm, rfl⟩ := List.mem_map.1 hp
      rw [mem_dedup] at hm
      obtain ⟨g0, occ, hf, hgo⟩ := hone m hm
      rw [hf, hgo]
      have : g0 ∈ (popParams ps ++ tk).filter (fun p => decide (p.name = m)) := by rw [hf]; simp
      obtain ⟨_, q, hq, hs⟩ := hallclean g0 (List.mem_filter.1 this).1
      exact ⟨rfl, q, hq, hs⟩

theorem wf_callable {P : Prog} (hW : WfProg P = true) {c : Callable} (hc : c ∈ P.callables) :
    ∃ site self meths, callableOK P site self meths c = true := by
  obtain ⟨e, he, hce⟩ := List.mem_flatMap.1 hc
  obtain ⟨i, hi, hie⟩ := List.mem_iff_getElem.1 he
  have hget : P.entries[i]? = some e := by rw [List.getElem?_eq_getElem hi, hie]
  have hwe := wf_entry hW hget
  cases e with
  | fn c' =>
    simp only [entryCallables, List.mem_singleton] at hce
    subst hce
    exact ⟨_, _, _, hwe⟩
  | cls k =>
    simp only [entryOK, Bool.and_eq_true] at hwe
    simp only [entryCallables, List.mem_append] at hce
    rcases hce with (hce | hce) | hce
    · cases hki : k.init with
      | none => simp [hki] at hce
      | some c' =>
        simp only [hki, Option.toList_some, List.mem_singleton] at hce
        subst hce
        have := hwe.1.1.1.1.2
        simp only [hki] at this
        exact ⟨_, _, _, this⟩
    · exact ⟨_, _, _, List.all_eq_true.1 hwe.1.1.1.2 c hce⟩
    · exact ⟨_, _, _, List.all_eq_true.1 hwe.1.1.2 c hce⟩

theorem removeGiven_clean {P : Prog} {k : Nat} {g : List String} {R : List Param} (h : CleanR P R) :
    CleanR P (removeGiven k g R) := by
  have hsub : (removeGiven k g R).Sublist R :=
    List.Sublist.trans List.filter_sublist (List.drop_sublist k R)
  refine ⟨h.1.sublist (hsub.map _), fun p hp => h.2 p (hsub.subset hp)⟩

/-- with `noPopClash` the AST resolver never raises inside `group_parameters`, and what it returns is plain -/
theorem clean_ok {P : Prog} (hW : WfProg P = true) (hC : noPopClash P = true) :
    ∀ (fuel : Nat) (fr : Frame), resolveF fuel P fr ≠ .crash ∧ ∀ R, resolveF fuel P fr = .ok R → CleanR P R := by
  simp only [noPopClash, Bool.and_eq_true] at hC
  obtain ⟨⟨hC1, hC2⟩, hC3⟩ := hC
  have hplain : ∀ q ∈ P.defs, q.otuple = false := fun q hq => by
    have := List.all_eq_true.1 hC2 q hq
    simp only [Bool.and_eq_true, Bool.not_eq_true'] at this
    exact this.1
  have hclashP : ∀ x ∈ P.pops, ∀ q ∈ P.defs, q.name = x.1 → dfltAgrees x.2 q.dflt = true := by
    intro x hx q hq hn
    have := List.all_eq_true.1 (List.all_eq_true.1 hC1 x hx) q hq
    simpa [hn] using this
  intro fuel
  induction fuel with
  | zero => intro fr; simp [resolveF]
  | succ fuel ih =>
    intro fr
    simp only [resolveF, resolveBody]
    cases hb : frameBody P fr with
    | none => exact ⟨by simp, fun R hR => by simp only [Out.ok.injEq] at hR; subst hR; exact ⟨by simp [names], by simp⟩⟩
    | some whc =>
      obtain ⟨wh, c⟩ := whc
      simp only
      have hc := frameBody_mem hb
      obtain ⟨site, self, meths, hok⟩ := wf_callable hW hc
      have hnd := callableOK_nodup hok
      have hown : CleanR P c.params := by
        refine ⟨hnd, fun p hp => ?_⟩
        have hpd : p ∈ P.defs := List.mem_flatMap.2 ⟨c, hc, by simp [callableDefs, hp]⟩
        exact ⟨hplain p hpd, p, hpd, sameSig_refl p⟩
      by_cases hv : c.varkw = true
      · obtain ⟨_, ps, f, ns, hsl, _⟩ := slOK_spec (callableOK_sl hok) hv
        obtain ⟨hus, hfw⟩ := splitSL_spec hsl
        -- `noPopClash` rules out pops nested in argument lists
        have hns : ns = [] := by
          cases ns with
          | nil => rfl
          | cons x ns' =>
            have hmem : popInUse x ∈ liveUses c.uses := by rw [hus]; simp
            obtain ⟨g, hg, hgu⟩ := mem_liveUses hmem
            have := List.all_eq_true.1 (List.all_eq_true.1 hC3 c hc) g hg
            simp [hgu, popInUse] at this
        subst hns
        simp only [List.map_nil] at hus
        -- facts about the pops of this body
        have hpsuse : ∀ x ∈ ps, ∃ g ∈ c.uses, g.use = .pop x.1 x.2 := by
          intro x hx
          have : popUse x ∈ liveUses c.uses := by rw [hus]; exact List.mem_append_left _ (List.mem_map.2 ⟨x, hx, rfl⟩)
          exact mem_liveUses this
        have hpd : ∀ x ∈ ps, popParam x.1 x.2 ∈ P.defs := by
          intro x hx
          obtain ⟨g, hg, hgu⟩ := hpsuse x hx
          refine List.mem_flatMap.2 ⟨c, hc, ?_⟩
          simp only [callableDefs, List.mem_append, List.mem_flatMap]
          exact Or.inr ⟨g, hg, by simp [hgu, useDefs]⟩
        have hclash : ∀ x ∈ ps, ∀ q ∈ P.defs, q.name = x.1 → dfltAgrees x.2 q.dflt = true := by
          intro x hx
          obtain ⟨g, hg, hgu⟩ := hpsuse x hx
          apply hclashP
          refine List.mem_flatMap.2 ⟨c, hc, List.mem_flatMap.2 ⟨g, hg, ?_⟩⟩
          simp [hgu, usePops]
        -- the grouped list and the final assembly, for a given kept list
        have hfinish : ∀ (a : Acc) (kept : List Param), CleanR P kept →
            a.lists = List.map popList ps ++ (if kept.isEmpty then [] else [(false, kept)]) →
            (match group a.lists with
              | .crash => Out.crash
              | .nofuel => Out.nofuel
              | .ok g => Out.ok (c.params ++ (g.filter (fun (p : Param) => decide (p.name ∉ a.removed))).filter
                  (fun (p : Param) => decide (p.name ∉ names c.params)))) ≠ .crash ∧
            ∀ R, (match group a.lists with
              | .crash => Out.crash
              | .nofuel => Out.nofuel
              | .ok g => Out.ok (c.params ++ (g.filter (fun (p : Param) => decide (p.name ∉ a.removed))).filter
                  (fun (p : Param) => decide (p.name ∉ names c.params)))) = .ok R → CleanR P R := by
          intro a kept hk hl
          have htail : (if kept.isEmpty then ([] : List (Bool × List Param)) else [(false, kept)]) = [] ∨
              (if kept.isEmpty then ([] : List (Bool × List Param)) else [(false, kept)]) = [(false, kept)] := by
            split
            · exact Or.inl rfl
            · exact Or.inr rfl
          obtain ⟨g, hg, hgc⟩ := group_clean htail hk hpd hclash
          rw [hl, hg]
          refine ⟨by simp, ?_⟩
          intro R hR
          simp only [Out.ok.injEq] at hR
          subst hR
          have hsub : ((g.filter (fun p => decide (p.name ∉ a.removed))).filter
              (fun p => decide (p.name ∉ names c.params))).Sublist g :=
            List.Sublist.trans List.filter_sublist List.filter_sublist
          refine ⟨?_, ?_⟩
          · rw [names_append]
            refine List.nodup_append.2 ⟨hnd, hgc.1.sublist (hsub.map _), ?_⟩
            intro x hx y hy hxy
            subst hxy
            obtain ⟨p, hp, hpn⟩ := mem_names.1 hy
            have := (List.mem_filter.1 hp).2
            simp only [decide_eq_true_eq] at this
            exact this (hpn ▸ hx)
          · intro p hp
            rcases List.mem_append.1 hp with hp | hp
            · exact hown.2 p hp
            · exact hgc.2 p (hsub.subset hp)
        unfold resolveCallable
        simp only [hv, Bool.not_true, Bool.false_eq_true, ↓reduceIte]
        have hcf := collect_forward (rec := resolveF fuel P) (P := P) (wh := wh) hfw [] ⟨List.map popList ps, []⟩
        simp only [List.map_nil, withNested, List.append_nil] at hcf
        rw [hus, collect_pops]
        simp only [List.nil_append]
        rw [hcf]
        cases hsf : subFrame P wh f with
        | none =>
          simp only
          apply hfinish _ [] ⟨by simp [names], by simp⟩
          simp [addForward, removeGiven]
        | some fr' =>
          simp only
          cases hr : resolveF fuel P fr' with
          | crash => exact absurd hr (ih fr').1
          | nofuel => simp
          | ok R' =>
            simp only
            apply hfinish _ (removeGiven f.givenPos f.given R') (removeGiven_clean ((ih fr').2 R' hr))
            simp only [addForward]
            split <;> simp_all
      · have hv' : c.varkw = false := by cases h : c.varkw <;> simp_all
        simp only [resolveCallable, hv', Bool.not_false, ↓reduceIte]
        exact ⟨by simp, fun R hR => by simp only [Out.ok.injEq] at hR; subst hR; exact hown⟩

end Jap.Resolver

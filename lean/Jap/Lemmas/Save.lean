import Jap.Core.Save
/-! Frame and refusal lemmas about the effect model of `save` (helpers of Props/C18). -/
namespace Jap.Save

theorem get_put_other (fs : FS) (p q c : String) (h : q ≠ p) : (fs.put p c).get q = fs.get q := by
  unfold FS.put FS.get
  have hqp : (p == q) = false := by simpa using (Ne.symm h)
  simp only [List.find?_cons, hqp]
  congr 1
  induction fs with
  | nil => rfl
  | cons x xs ih =>
    by_cases hx : x.1 = p
    · simp [hx, hqp, ih]
    · by_cases hx3 : x.1 = q
      · have : ¬ q = p := h
        simp [hx3, this]
      · simp [hx, hx3, ih]

theorem get_put_same (fs : FS) (p c : String) : (fs.put p c).get p = some c := by
  simp [FS.put, FS.get]

theorem put_put (fs : FS) (p c d : String) : (fs.put p c).put p d = fs.put p d := by
  simp [FS.put, List.filter_filter]

/-! ### frame: a step only touches its own path -/

theorem writeFile_frame (fs : FS) (p s : String) (w : Wr) (q : String) (h : q ≠ p) :
    (writeFile fs p s w).2.get q = fs.get q := by
  unfold writeFile
  split
  · rfl
  · split <;> simp [get_put_other _ _ _ _ h]

theorem openThenWrite_frame (fs : FS) (p : String) (d : Outcome) (w : Wr) (q : String) (h : q ≠ p) :
    (openThenWrite fs p d w).2.get q = fs.get q := by
  unfold openThenWrite
  split
  · rfl
  · cases d with
    | fail e => simp [get_put_other _ _ _ _ h]
    | text s => dsimp only; split <;> simp [get_put_other _ _ _ _ h]

theorem subStep_frame (env : Env) (ow : Bool) (fs : FS) (s : Sub) (q : String) (h : q ≠ s.path) :
    (subStep env ow fs s).2.get q = fs.get q := by
  unfold subStep
  split
  · rfl
  · split
    · rfl
    · cases hk : s.kind with
      | cfg =>
        cases ht : s.text with
        | fail e => rfl
        | text t => exact writeFile_frame _ _ _ _ _ h
      | content =>
        cases hr : readSrc fs s with
        | fail e => rfl
        | text t => exact writeFile_frame _ _ _ _ _ h

theorem saveSubs_frame (env : Env) (ow : Bool) (subs : List Sub) (fs : FS) (q : String)
    (h : ∀ s ∈ subs, q ≠ s.path) : (saveSubs env ow fs subs).2.get q = fs.get q := by
  induction subs generalizing fs with
  | nil => rfl
  | cons s rest ih =>
    have hs : q ≠ s.path := h s (List.mem_cons_self ..)
    have hr : ∀ t ∈ rest, q ≠ t.path := fun t ht => h t (List.mem_cons_of_mem _ ht)
    unfold saveSubs
    dsimp only
    split
    · exact subStep_frame env ow fs s q hs
    · rw [ih _ hr]; exact subStep_frame env ow fs s q hs

/-! ### without `overwrite` an existing file is never touched -/

theorem subStep_keeps (env : Env) (fs : FS) (s : Sub) (q : String) (hq : (fs.get q).isSome) :
    (subStep env false fs s).2.get q = fs.get q := by
  by_cases h : q = s.path
  · subst h
    unfold subStep
    split
    · rfl
    · simp [refuses, hq]
  · exact subStep_frame env false fs s q h

theorem saveSubs_keeps (env : Env) (subs : List Sub) (fs : FS) (q : String) (hq : (fs.get q).isSome) :
    (saveSubs env false fs subs).2.get q = fs.get q := by
  induction subs generalizing fs with
  | nil => rfl
  | cons s rest ih =>
    have h1 := subStep_keeps env fs s q hq
    unfold saveSubs
    dsimp only
    split
    · exact h1
    · rw [ih _ (by rw [h1]; exact hq)]; exact h1

/-! ### a step that fails before its `open` leaves the files alone -/

/-- the sub-file step fails no later than its own `open(…, "w")` -/
def subFailsClean (env : Env) (ow : Bool) (fs : FS) (s : Sub) : Bool :=
  !pathFc env s.path || refuses ow fs s.path ||
  (match s.written fs with
   | .fail _ => true
   | .text _ => !s.wr.openOk)

theorem subStep_clean (env : Env) (ow : Bool) (fs : FS) (s : Sub) (h : subFailsClean env ow fs s = true) :
    (∃ e, (subStep env ow fs s).1 = .error e) ∧ (subStep env ow fs s).2 = fs := by
  unfold subStep
  unfold subFailsClean Sub.written at h
  by_cases h1 : pathFc env s.path = true
  · by_cases h2 : refuses ow fs s.path = true
    · simp [h1, h2]
    · cases hk : s.kind with
      | cfg =>
        cases ht : s.text with
        | fail e => simp [h1, h2]
        | text t => simp [h1, h2, hk, ht] at h ⊢; simp [writeFile, h]
      | content =>
        cases ht : readSrc fs s with
        | fail e => simp [h1, h2]
        | text t => simp [h1, h2, hk, ht] at h ⊢; simp [writeFile, h]
  · simp [h1]

/-- the forced hypothesis, as an explicit decidable predicate on the inputs: the step that fails is no later
    than the FIRST `open(…, "w")` of the run -/
def failsByFirstOpen (env : Env) (fs : FS) (i : Input) : Bool :=
  !i.formatOk || !pathFc env i.path || refuses i.overwrite fs i.path ||
  (if i.multifile then
     !i.validateOk ||
     (match i.subs with
      | s :: _ => subFailsClean env i.overwrite fs s
      | [] => (match i.dump with | .fail _ => true | .text _ => !i.wr.openOk))
   else (match i.dump with | .fail _ => true | .text _ => !i.wr.openOk))

/-! ### success of a write -/

theorem writeFile_ok (fs : FS) (p s : String) (w : Wr) (h : (writeFile fs p s w).1 = .ok ()) :
    (writeFile fs p s w).2 = fs.put p s := by
  unfold writeFile at *
  split at h
  · simp at h
  · rename_i ho
    simp only [ho] at *
    split at h
    · simp at h
    · rename_i hw
      simp [hw, put_put]

theorem openThenWrite_ok (fs : FS) (p : String) (d : Outcome) (w : Wr) (h : (openThenWrite fs p d w).1 = .ok ()) :
    ∃ s, d = .text s ∧ (openThenWrite fs p d w).2 = fs.put p s := by
  unfold openThenWrite at *
  split at h
  · simp at h
  · rename_i ho
    cases d with
    | fail e => simp at h
    | text s =>
      refine ⟨s, rfl, ?_⟩
      dsimp only at h ⊢
      split at h
      · simp at h
      · rename_i hw
        simp [ho, hw, put_put]

theorem subStep_ok (env : Env) (ow : Bool) (fs : FS) (s : Sub) (h : (subStep env ow fs s).1 = .ok ()) :
    ∃ t, s.written fs = .text t ∧ (subStep env ow fs s).2 = fs.put s.path t := by
  unfold subStep at *
  by_cases h1 : (!pathFc env s.path) = true
  · simp [h1] at h
  · by_cases h2 : refuses ow fs s.path = true
    · simp [h1, h2] at h
    · simp only [h1, h2, Bool.false_eq_true, ↓reduceIte] at h ⊢
      unfold Sub.written
      cases hk : s.kind with
      | cfg =>
        simp only [hk] at h ⊢
        cases ht : s.text with
        | fail e => simp [ht] at h
        | text t =>
          simp only [ht] at h ⊢
          exact ⟨t, rfl, writeFile_ok _ _ _ _ h⟩
      | content =>
        simp only [hk] at h ⊢
        cases ht : readSrc fs s with
        | fail e => simp [ht] at h
        | text t =>
          simp only [ht] at h ⊢
          exact ⟨t, rfl, writeFile_ok _ _ _ _ h⟩

/-- the loop of `save_paths`: on success every sub-config file holds its serialised text and every copied
    file the content its source had at the start, provided the sub-file names are pairwise distinct and the
    source is not one of the OTHER files written (copying a file onto itself is fine since fix 1bcbda4) -/
theorem saveSubs_ok_get (env : Env) (ow : Bool) (subs : List Sub) (fs : FS)
    (h : (saveSubs env ow fs subs).1 = .ok ()) (hnd : (subs.map (·.path)).Nodup) :
    ∀ s ∈ subs,
      (s.kind = .cfg → ∃ t, s.text = .text t ∧ (saveSubs env ow fs subs).2.get s.path = some t) ∧
      (s.kind = .content → (∀ r ∈ subs, r.path ≠ s.path → s.src ≠ r.path) →
        ∃ t, fs.get s.src = some t ∧ (saveSubs env ow fs subs).2.get s.path = some t) := by
  induction subs generalizing fs with
  | nil => intro s hs; cases hs
  | cons s rest ih =>
    have hnd' : (rest.map (·.path)).Nodup := (List.nodup_cons.mp hnd).2
    have hnot : s.path ∉ rest.map (·.path) := (List.nodup_cons.mp hnd).1
    unfold saveSubs at h ⊢
    dsimp only at h ⊢
    cases hstep : (subStep env ow fs s).1 with
    | error e => simp [hstep] at h
    | ok u =>
      cases u
      simp only [hstep] at h ⊢
      obtain ⟨t, ht, hfs⟩ := subStep_ok env ow fs s hstep
      intro s' hs'
      rcases List.mem_cons.mp hs' with rfl | hin
      · have hfin : (saveSubs env ow (subStep env ow fs s').2 rest).2.get s'.path = some t := by
          rw [saveSubs_frame env ow rest _ _ (fun r hr heq => hnot (List.mem_map.mpr ⟨r, hr, heq.symm⟩))]
          rw [hfs]; exact get_put_same _ _ _
        constructor
        · intro hk
          simp only [Sub.written, hk] at ht
          exact ⟨t, ht, hfin⟩
        · intro hk _
          simp only [Sub.written, hk, readSrc] at ht
          split at ht
          · simp at ht
          · cases hg : fs.get s'.src with
            | none => simp [hg] at ht
            | some t' =>
              simp only [hg, Outcome.text.injEq] at ht
              exact ⟨t, by rw [ht], hfin⟩
      · obtain ⟨ihc, ihp⟩ := ih _ h hnd' s' hin
        refine ⟨ihc, ?_⟩
        intro hk hsrc
        obtain ⟨t', hg, hf⟩ := ihp hk (fun r hr hne => hsrc r (List.mem_cons_of_mem _ hr) hne)
        have hpne : s.path ≠ s'.path := fun heq => hnot (List.mem_map.mpr ⟨s', hin, heq.symm⟩)
        have hne : s'.src ≠ s.path := hsrc s (List.mem_cons_self ..) hpne
        rw [hfs, get_put_other _ _ _ _ hne] at hg
        exact ⟨t', hg, hf⟩

end Jap.Save

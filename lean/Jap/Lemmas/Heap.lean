import Jap.Core.Heap
/-!
Lemmas for E11 (C08).  One invariant carries every frame theorem:

  `Own p ok t`  —  every container of `t` that the library can write in place satisfies `ok`

where `ok` is an arbitrary predicate on identities that holds for every fresh identity (`Fresh ok k`).
Each primitive (`recreate`, the worst-case mutators, `Namespace.update`, key deletion) is shown to
(1) write only `ok` identities, (2) return a value that is again `Own`, (3) not lower the fresh counter.
The property theorems instantiate `ok i := i ∉ ids args ∨ i ∈ sharedMut p args`.
-/
namespace Jap.Heap

def Own (p : Policy) (ok : Nat → Prop) (t : T) : Prop := ∀ i ∈ mutIds p t, ok i
def OwnK (p : Policy) (ok : Nat → Prop) (ts : Kids) : Prop := ∀ i ∈ mutIdsK p ts, ok i
def Fresh (ok : Nat → Prop) (k : Nat) : Prop := ∀ j, k ≤ j → ok j

theorem Fresh.mono {ok : Nat → Prop} {k k' : Nat} (h : Fresh ok k) (hk : k ≤ k') : Fresh ok k' :=
  fun j hj => h j (Nat.le_trans hk hj)

theorem OwnK_nil (p : Policy) (ok : Nat → Prop) : OwnK p ok [] := by
  intro i hi; simp [mutIdsK] at hi

theorem OwnK_cons {p : Policy} {ok : Nat → Prop} {key : String} {x : T} {r : Kids} :
    OwnK p ok ((key, x) :: r) ↔ Own p ok x ∧ OwnK p ok r := by
  simp only [OwnK, Own, mutIdsK, List.mem_append]
  constructor
  · intro h; exact ⟨fun i hi => h i (Or.inl hi), fun i hi => h i (Or.inr hi)⟩
  · intro h i hi; rcases hi with hi | hi
    · exact h.1 i hi
    · exact h.2 i hi

theorem Own_node {p : Policy} {ok : Nat → Prop} {kd : Kind} {i : Nat} {kids : Kids} :
    Own p ok (.node kd i kids) ↔ (p.inplace kd = true → ok i) ∧ OwnK p ok kids := by
  simp only [Own, OwnK, mutIds, List.mem_append]
  constructor
  · intro h
    refine ⟨fun hp => h i (Or.inl (by simp [hp])), fun j hj => h j (Or.inr hj)⟩
  · intro h j hj
    rcases hj with hj | hj
    · by_cases hp : p.inplace kd = true
      · simp [hp] at hj; subst hj; exact h.1 hp
      · simp [hp] at hj
    · exact h.2 j hj

theorem Own_atom (p : Policy) (ok : Nat → Prop) (n : Nat) : Own p ok (.atom n) := by
  intro i hi; simp [mutIds] at hi

/-! ### what a clone shares is part of what is writable -/

mutual
theorem sharedMut_sub : ∀ (p : Policy) (t : T), ∀ i ∈ sharedMut p t, i ∈ mutIds p t
  | _, .atom _ => by intro i hi; simp [sharedMut] at hi
  | p, .node kd j kids => by
    intro i hi
    simp only [sharedMut] at hi
    by_cases hr : p.recreated kd = true
    · simp only [hr, ↓reduceIte] at hi
      simp only [mutIds, List.mem_append]
      exact Or.inr (sharedMutK_sub p kids i hi)
    · simp only [hr] at hi
      exact hi
theorem sharedMutK_sub : ∀ (p : Policy) (ts : Kids), ∀ i ∈ sharedMutK p ts, i ∈ mutIdsK p ts
  | _, [] => by intro i hi; simp [sharedMutK] at hi
  | p, (_, x) :: r => by
    intro i hi
    simp only [sharedMutK, List.mem_append] at hi
    simp only [mutIdsK, List.mem_append]
    rcases hi with hi | hi
    · exact Or.inl (sharedMut_sub p x i hi)
    · exact Or.inr (sharedMutK_sub p r i hi)
end

mutual
theorem mutIds_sub_ids : ∀ (p : Policy) (t : T), ∀ i ∈ mutIds p t, i ∈ ids t
  | _, .atom _ => by intro i hi; simp [mutIds] at hi
  | p, .node kd j kids => by
    intro i hi
    simp only [mutIds, List.mem_append] at hi
    simp only [ids, List.mem_cons]
    rcases hi with hi | hi
    · by_cases hp : p.inplace kd = true
      · simp [hp] at hi; exact Or.inl hi
      · simp [hp] at hi
    · exact Or.inr (mutIdsK_sub_idsK p kids i hi)
theorem mutIdsK_sub_idsK : ∀ (p : Policy) (ts : Kids), ∀ i ∈ mutIdsK p ts, i ∈ idsK ts
  | _, [] => by intro i hi; simp [mutIdsK] at hi
  | p, (_, x) :: r => by
    intro i hi
    simp only [mutIdsK, List.mem_append] at hi
    simp only [idsK, List.mem_append]
    rcases hi with hi | hi
    · exact Or.inl (mutIds_sub_ids p x i hi)
    · exact Or.inr (mutIdsK_sub_idsK p r i hi)
end

/-! ### `recreate_branches` -/

mutual
theorem recreate_spec (p : Policy) (skip : List String) (ok : Nat → Prop) :
    ∀ (t : T) (k : Nat), (∀ i ∈ sharedMut p t, ok i) → Fresh ok k →
      Own p ok (recreate p skip t k).val ∧ k ≤ (recreate p skip t k).next
  | .atom n, k, _, _ => by
    simp only [recreate]; exact ⟨Own_atom p ok n, Nat.le_refl _⟩
  | .node kd i kids, k, hs, hf => by
    simp only [recreate]
    by_cases hr : p.recreated kd = true
    · simp only [hr, ↓reduceIte]
      by_cases hd : (decide (kd = .dictsub) && !p.subContent) = true
      · simp only [hd, ↓reduceIte]
        exact ⟨Own_node.mpr ⟨fun _ => hf _ (Nat.le_refl _), OwnK_nil p ok⟩, by omega⟩
      simp only [hd, Bool.false_eq_true, ↓reduceIte]
      have hs' : ∀ i ∈ sharedMutK p kids, ok i := by
        intro j hj; apply hs; simp only [sharedMut, hr, if_true]; exact hj
      have ih := recreateK_spec p skip ok kids k hs' hf
      refine ⟨Own_node.mpr ⟨fun _ => hf _ ih.2, ih.1⟩, by omega⟩
    · simp only [hr, Bool.false_eq_true, ↓reduceIte]
      refine ⟨?_, Nat.le_refl _⟩
      intro j hj
      apply hs
      simp only [sharedMut, hr]
      exact hj
theorem recreateK_spec (p : Policy) (skip : List String) (ok : Nat → Prop) :
    ∀ (ts : Kids) (k : Nat), (∀ i ∈ sharedMutK p ts, ok i) → Fresh ok k →
      OwnK p ok (recreateK p skip ts k).val ∧ k ≤ (recreateK p skip ts k).next
  | [], k, _, _ => by
    simp only [recreateK]; exact ⟨OwnK_nil p ok, Nat.le_refl _⟩
  | (key, x) :: r, k, hs, hf => by
    have hs1 : ∀ i ∈ sharedMut p x, ok i := fun j hj => hs j (by simp only [sharedMutK, List.mem_append]; exact Or.inl hj)
    have hs2 : ∀ i ∈ sharedMutK p r, ok i := fun j hj => hs j (by simp only [sharedMutK, List.mem_append]; exact Or.inr hj)
    simp only [recreateK]
    by_cases hk : skip.contains key = true
    · simp only [hk, ↓reduceIte]
      exact recreateK_spec p skip ok r k hs2 hf
    · simp only [hk, Bool.false_eq_true, ↓reduceIte]
      have h1 := recreate_spec p skip ok x k hs1 hf
      have h2 := recreateK_spec p skip ok r (recreate p skip x k).next hs2 (hf.mono h1.2)
      refine ⟨OwnK_cons.mpr ⟨h1.1, h2.1⟩, by omega⟩
end

/-- a value that is already owned stays owned when cloned again -/
theorem recreate_own (p : Policy) (skip : List String) (ok : Nat → Prop) (t : T) (k : Nat)
    (h : Own p ok t) (hf : Fresh ok k) :
    Own p ok (recreate p skip t k).val ∧ k ≤ (recreate p skip t k).next :=
  recreate_spec p skip ok t k (fun i hi => h i (sharedMut_sub p t i hi)) hf

theorem stripMeta_spec (p : Policy) (mkeys : List String) (ok : Nat → Prop) (t : T) (k : Nat)
    (hs : ∀ i ∈ stripShared p t, ok i) (hf : Fresh ok k) :
    Own p ok (stripMeta p mkeys t k).val ∧ k ≤ (stripMeta p mkeys t k).next := by
  unfold stripMeta
  unfold stripShared at hs
  split
  · rename_i h
    simp only [h, ↓reduceIte] at hs
    exact ⟨hs, Nat.le_refl _⟩
  · rename_i h
    simp only [h] at hs
    exact recreate_spec p mkeys ok t k hs hf

/-! ### the worst-case mutators -/

theorem mem_wr {i j : Nat} {kids : Kids} (h : j ∈ wr i kids) : j = i := by
  unfold wr at h
  split at h
  · simp at h
  · simpa using h

mutual
theorem mutT_spec (p : Policy) (m : Mode) (ok : Nat → Prop) :
    ∀ (t : T) (k : Nat), Own p ok t → Fresh ok k →
      (∀ i ∈ (mutT p m t k).writes, ok i) ∧ Own p ok (mutT p m t k).val ∧ k ≤ (mutT p m t k).next
  | .atom n, k, _, _ => by
    simp only [mutT]
    exact ⟨by intro i hi; simp at hi, Own_atom p ok n, Nat.le_refl _⟩
  | .node kd i kids, k, ho, hf => by
    have ho' := Own_node.mp ho
    simp only [mutT]
    by_cases hp : p.inplace kd = true
    · simp only [hp, ↓reduceIte]
      have ih := mutK_spec p m ok kids k ho'.2 hf
      by_cases hsp : (decide (m = .inst) && isSpec kd kids) = true
      · simp only [hsp, ↓reduceIte]
        refine ⟨?_, Own_atom p ok _, by omega⟩
        intro j hj
        rcases List.mem_append.mp hj with hj | hj
        · rw [mem_wr hj]; exact ho'.1 hp
        · exact ih.1 j hj
      · simp only [hsp, Bool.false_eq_true, ↓reduceIte]
        refine ⟨?_, Own_node.mpr ⟨fun _ => ho'.1 hp, ih.2.1⟩, ih.2.2⟩
        intro j hj
        rcases List.mem_append.mp hj with hj | hj
        · rw [mem_wr hj]; exact ho'.1 hp
        · exact ih.1 j hj
    · simp only [hp, Bool.false_eq_true, ↓reduceIte]
      have ih := mutK_spec p m ok kids (k + 1) ho'.2 (hf.mono (Nat.le_succ k))
      by_cases hm : m = .ser
      · simp only [hm, ↓reduceIte]
        have ih' := ih; rw [hm] at ih'
        refine ⟨?_, Own_node.mpr ⟨fun _ => hf k (Nat.le_refl _), ih'.2.1⟩, by omega⟩
        intro j hj
        rcases List.mem_append.mp hj with hj | hj
        · rw [mem_wr hj]; exact hf k (Nat.le_refl _)
        · exact ih'.1 j hj
      · simp only [hm, ↓reduceIte]
        refine ⟨?_, Own_node.mpr ⟨fun h => absurd h hp, ih.2.1⟩, by omega⟩
        intro j hj
        rcases List.mem_append.mp hj with hj | hj
        · rw [mem_wr hj]; exact hf k (Nat.le_refl _)
        · exact ih.1 j hj
theorem mutK_spec (p : Policy) (m : Mode) (ok : Nat → Prop) :
    ∀ (ts : Kids) (k : Nat), OwnK p ok ts → Fresh ok k →
      (∀ i ∈ (mutK p m ts k).writes, ok i) ∧ OwnK p ok (mutK p m ts k).val ∧ k ≤ (mutK p m ts k).next
  | [], k, _, _ => by
    simp only [mutK]
    exact ⟨by intro i hi; simp at hi, OwnK_nil p ok, Nat.le_refl _⟩
  | (key, x) :: r, k, ho, hf => by
    have ho' := OwnK_cons.mp ho
    have h1 := mutT_spec p m ok x k ho'.1 hf
    have h2 := mutK_spec p m ok r (mutT p m x k).next ho'.2 (hf.mono h1.2.2)
    simp only [mutK]
    refine ⟨?_, OwnK_cons.mpr ⟨h1.2.1, h2.2.1⟩, by omega⟩
    intro j hj
    rcases List.mem_append.mp hj with hj | hj
    · exact h1.1 j hj
    · exact h2.1 j hj
end

/-- an empty container is never assigned into -/
theorem mutT_empty (p : Policy) (m : Mode) (t : T) (k : Nat) (h : isEmptyNode t = true) :
    (mutT p m t k).writes = [] := by
  cases t with
  | atom n => simp [isEmptyNode] at h
  | node kd i kids =>
    simp only [isEmptyNode, List.isEmpty_iff] at h
    subst h
    simp only [mutT, mutK, wr, List.isEmpty_nil, if_true, List.append_nil]
    split
    · split <;> rfl
    · split <;> rfl

/-! ### fresh objects -/

mutual
theorem mutT_objs (p : Policy) (m : Mode) :
    ∀ (t : T) (k : Nat),
      (∀ o ∈ (mutT p m t k).objs, k ≤ o ∧ o < (mutT p m t k).next) ∧ (mutT p m t k).objs.Nodup ∧
      k ≤ (mutT p m t k).next ∧
      (mutT p m t k).objs.length = (if m = .inst then specCount p t else 0)
  | .atom n, k => by
    simp only [mutT, specCount]
    refine ⟨by intro o ho; simp at ho, List.nodup_nil, Nat.le_refl _, by split <;> rfl⟩
  | .node kd i kids, k => by
    simp only [mutT, specCount]
    by_cases hp : p.inplace kd = true
    · simp only [hp, ↓reduceIte, Bool.true_and]
      have ih := mutK_objs p m kids k
      by_cases hsp : (decide (m = .inst) && isSpec kd kids) = true
      · simp only [hsp, ↓reduceIte]
        have hm : m = .inst := by
          simp only [Bool.and_eq_true, decide_eq_true_eq] at hsp; exact hsp.1
        have hs : isSpec kd kids = true := by
          simp only [Bool.and_eq_true] at hsp; exact hsp.2
        refine ⟨?_, ?_, by omega, ?_⟩
        · intro o ho
          rcases List.mem_append.mp ho with ho | ho
          · have := ih.1 o ho; omega
          · simp at ho; omega
        · rw [List.nodup_append]
          refine ⟨ih.2.1, by simp, ?_⟩
          intro a ha b hb
          simp at hb
          have := ih.1 a ha; omega
        · simp only [List.length_append, List.length_cons, List.length_nil, hm, if_true, hs] at ih ⊢
          omega
      · simp only [hsp, Bool.false_eq_true, ↓reduceIte]
        refine ⟨ih.1, ih.2.1, ih.2.2.1, ?_⟩
        rw [ih.2.2.2]
        by_cases hm : m = .inst
        · have hs : isSpec kd kids = false := by
            simp only [hm, decide_true, Bool.true_and] at hsp
            simpa using hsp
          simp [hm, hs]
        · simp [hm]
    · simp only [hp, Bool.false_eq_true, ↓reduceIte, Bool.false_and]
      have ih := mutK_objs p m kids (k + 1)
      by_cases hm : m = .ser
      · simp only [hm, ↓reduceIte]
        rw [hm] at ih
        refine ⟨fun o ho => ?_, ih.2.1, by omega, ?_⟩
        · have := ih.1 o ho; omega
        · rw [ih.2.2.2]; simp
      · simp only [hm, ↓reduceIte]
        refine ⟨fun o ho => ?_, ih.2.1, by omega, ?_⟩
        · have := ih.1 o ho; omega
        · rw [ih.2.2.2]; simp
theorem mutK_objs (p : Policy) (m : Mode) :
    ∀ (ts : Kids) (k : Nat),
      (∀ o ∈ (mutK p m ts k).objs, k ≤ o ∧ o < (mutK p m ts k).next) ∧ (mutK p m ts k).objs.Nodup ∧
      k ≤ (mutK p m ts k).next ∧
      (mutK p m ts k).objs.length = (if m = .inst then specCountK p ts else 0)
  | [], k => by
    simp only [mutK, specCountK]
    refine ⟨by intro o ho; simp at ho, List.nodup_nil, Nat.le_refl _, by split <;> rfl⟩
  | (key, x) :: r, k => by
    have h1 := mutT_objs p m x k
    have h2 := mutK_objs p m r (mutT p m x k).next
    simp only [mutK, specCountK]
    refine ⟨?_, ?_, by omega, ?_⟩
    · intro o ho
      rcases List.mem_append.mp ho with ho | ho
      · have := h1.1 o ho; omega
      · have := h2.1 o ho; omega
    · rw [List.nodup_append]
      refine ⟨h1.2.1, h2.2.1, ?_⟩
      intro a ha b hb
      have := h1.1 a ha; have := h2.1 b hb; omega
    · rw [List.length_append, h1.2.2.2, h2.2.2.2]
      by_cases hm : m = .inst <;> simp [hm]
end

/-! ### the number of specs of a copy -/

def keysOf (ts : Kids) : List String := ts.map (fun kv => kv.1)

theorem isSpec_keys (kd : Kind) (a b : Kids) (h : keysOf a = keysOf b) : isSpec kd a = isSpec kd b := by
  have e : ∀ ts : Kids, ts.any (fun kv => kv.1 == "class_path") = (keysOf ts).any (fun s => s == "class_path") := by
    intro ts; simp [keysOf, List.any_map, Function.comp_def]
  simp only [isSpec, e, h]

theorem recreateK_keys_indep (p : Policy) (skip : List String) :
    ∀ (ts : Kids) (k k' : Nat), keysOf (recreateK p skip ts k).val = keysOf (recreateK p skip ts k').val
  | [], _, _ => by simp [recreateK]
  | (key, x) :: r, k, k' => by
    simp only [recreateK]
    by_cases hk : skip.contains key = true
    · simp only [hk, ↓reduceIte]
      exact recreateK_keys_indep p skip r k k'
    · simp only [hk, Bool.false_eq_true, ↓reduceIte, keysOf, List.map_cons, List.cons.injEq, true_and]
      exact recreateK_keys_indep p skip r _ _

theorem recreateK_keys_nil (p : Policy) :
    ∀ (ts : Kids) (k : Nat), keysOf (recreateK p [] ts k).val = keysOf ts
  | [], _ => by simp [recreateK]
  | (key, x) :: r, k => by
    simp only [recreateK, List.contains_nil, Bool.false_eq_true, ↓reduceIte, keysOf, List.map_cons, List.cons.injEq, true_and]
    exact recreateK_keys_nil p r _

mutual
theorem specCount_recreate_indep (p : Policy) (skip : List String) :
    ∀ (t : T) (k k' : Nat), specCount p (recreate p skip t k).val = specCount p (recreate p skip t k').val
  | .atom _, _, _ => by simp [recreate]
  | .node kd i kids, k, k' => by
    simp only [recreate]
    by_cases hr : p.recreated kd = true
    · by_cases hd : (decide (kd = .dictsub) && !p.subContent) = true
      · simp only [hr, hd, ↓reduceIte, specCount]
      simp only [hr, hd, Bool.false_eq_true, ↓reduceIte, specCount]
      rw [specCountK_recreate_indep p skip kids k k', isSpec_keys kd _ _ (recreateK_keys_indep p skip kids k k')]
    · simp only [hr, Bool.false_eq_true, ↓reduceIte]
theorem specCountK_recreate_indep (p : Policy) (skip : List String) :
    ∀ (ts : Kids) (k k' : Nat), specCountK p (recreateK p skip ts k).val = specCountK p (recreateK p skip ts k').val
  | [], _, _ => by simp [recreateK]
  | (key, x) :: r, k, k' => by
    simp only [recreateK]
    by_cases hk : skip.contains key = true
    · simp only [hk, ↓reduceIte]
      exact specCountK_recreate_indep p skip r k k'
    · simp only [hk, Bool.false_eq_true, ↓reduceIte, specCountK]
      rw [specCount_recreate_indep p skip x k k', specCountK_recreate_indep p skip r _ (recreate p skip x k').next]
end

theorem specCount_stripMeta (p : Policy) (mkeys : List String) (t : T) (k k' : Nat) :
    specCount p (stripMeta p mkeys t k).val = specCount p (stripMeta p mkeys t k').val := by
  unfold stripMeta
  split
  · rfl
  · exact specCount_recreate_indep p mkeys t k k'

mutual
theorem specCount_recreate (p : Policy) (hsc : p.subContent = true) :
    ∀ (t : T) (k : Nat), specCount p (recreate p [] t k).val = specCount p t
  | .atom _, _ => by simp [recreate]
  | .node kd i kids, k => by
    simp only [recreate]
    by_cases hr : p.recreated kd = true
    · simp only [hr, hsc, Bool.not_true, Bool.and_false, Bool.false_eq_true, ↓reduceIte, specCount]
      rw [specCountK_recreate p hsc kids k, isSpec_keys kd _ _ (recreateK_keys_nil p kids k)]
    · simp only [hr, Bool.false_eq_true, ↓reduceIte]
theorem specCountK_recreate (p : Policy) (hsc : p.subContent = true) :
    ∀ (ts : Kids) (k : Nat), specCountK p (recreateK p [] ts k).val = specCountK p ts
  | [], _ => by simp [recreateK]
  | (key, x) :: r, k => by
    simp only [recreateK, List.contains_nil, Bool.false_eq_true, ↓reduceIte, specCountK]
    rw [specCount_recreate p hsc x k, specCountK_recreate p hsc r _]
end

end Jap.Heap

/-
Restricted types with computed predicates (Core/AdaptRestr.lean): exactness of the restricted leaves in both
channels, `regex.match` versus `regex.search`, and the container types in the string channel.
-/
import Jap.Core.AdaptRestr
import Jap.Lemmas.AdaptStr
import Jap.Lemmas.AdaptIdem
namespace Jap.Adapt

/-! ### `match` and `search` -/

theorem matchAt_bol_pos (r : Re) (s : String) (i : Nat) (hi : i ≠ 0) : (Re.cat .bol r).matchAt s i = false := by
  simp [Re.matchAt, Re.ends, hi, dedupNat]

/-- a match at position 0 is a match somewhere -/
theorem accepts_searches (r : Re) (s : String) (h : r.accepts s = true) : r.searches s = true := by
  simp only [Re.searches, List.any_eq_true, List.mem_range]
  exact ⟨0, by omega, h⟩

/-- for a pattern that begins with `^`, `search` and `match` agree on every string -/
theorem searches_anchored (r : Re) (s : String) : (Re.cat .bol r).searches s = (Re.cat .bol r).accepts s := by
  rw [Bool.eq_iff_iff]
  constructor
  · intro h
    simp only [Re.searches, List.any_eq_true, List.mem_range] at h
    obtain ⟨i, _, hm⟩ := h
    by_cases hi : i = 0
    · subst hi; exact hm
    · rw [matchAt_bol_pos r s i hi] at hm; simp at hm
  · exact accepts_searches _ s

/-! ### the restricted leaf, value channel -/

/-- a restricted type accepts exactly the values that convert to the base type (`int(v)` / `float(v)` after the
    bool / non-integer checks; a `str` for a string type) and whose converted value satisfies the restriction -/
theorem rnum_exact (O : Oracle) (orig : Option String) (b : RBase) (k : Nat) (v w : Val) :
    adapt O false orig (.rnum b k) v = .ok w ↔ rnumConv O b v = some w ∧ O.rnumOk k w = true := by
  rw [adapt]
  unfold adaptRnum
  simp only [Bool.false_eq_true, if_false]
  cases hc : rnumConv O b v with
  | none => simp
  | some w' =>
    simp only
    by_cases hk : O.rnumOk k w' = true
    · simp only [hk, if_true, Except.ok.injEq, Option.some.injEq]
      constructor
      · intro h; subst h; exact ⟨rfl, hk⟩
      · intro h; exact h.1
    · simp only [hk, Bool.false_eq_true, if_false, Option.some.injEq]
      constructor
      · intro h; simp at h
      · rintro ⟨rfl, h2⟩; exact absurd h2 hk

theorem rnumConv_str (O : Oracle) (v w : Val) : rnumConv O .str v = some w ↔ ∃ s, v = .str s ∧ w = .str s := by
  cases v <;> simp [rnumConv]
  exact eq_comm

/-- a restricted STRING type with regular expression `r`: exactly the strings `regex.match` accepts, returned
    verbatim -/
theorem rstr_exact (O : Oracle) (tab : RTab) (orig : Option String) (k : Nat) (r : Re) (hk : tab k = some (.re r))
    (v w : Val) :
    adapt (O.withRestr tab) false orig (.rnum .str k) v = .ok w ↔ ∃ s, v = .str s ∧ w = .str s ∧ r.accepts s = true := by
  rw [rnum_exact, rnumConv_str]
  simp only [Oracle.withRestr, hk]
  constructor
  · rintro ⟨⟨s, rfl, rfl⟩, h⟩; exact ⟨s, rfl, rfl, by simpa [Restr.ok] using h⟩
  · rintro ⟨s, rfl, rfl, h⟩; exact ⟨⟨s, rfl, rfl⟩, by simpa [Restr.ok] using h⟩

/-- a restricted NUMBER type: exactly the values that convert and whose converted value satisfies the joined
    comparisons -/
theorem rnumber_exact (O : Oracle) (tab : RTab) (orig : Option String) (b : RBase) (k : Nat) (isOr : Bool)
    (rs : List (Cmp × Num)) (hk : tab k = some (.num isOr rs)) (v w : Val) :
    adapt (O.withRestr tab) false orig (.rnum b k) v = .ok w ↔
      rnumConv O b v = some w ∧ ∃ x, numOfVal w = some x ∧ numOk isOr rs x = true := by
  rw [rnum_exact]
  have hconv : rnumConv (O.withRestr tab) b v = rnumConv O b v := by
    cases b <;> cases v <;> rfl
  rw [hconv]
  simp only [Oracle.withRestr, hk, Restr.ok]
  constructor
  · rintro ⟨h1, h2⟩
    refine ⟨h1, ?_⟩
    cases hn : numOfVal w with
    | none => simp [hn] at h2
    | some x => exact ⟨x, rfl, by simpa [hn] using h2⟩
  · rintro ⟨h1, x, hx, h2⟩
    exact ⟨h1, by simp [hx, h2]⟩

/-! ### the restricted string leaf, string channel -/

theorem adapt_rstr_str (O : Oracle) (orig : Option String) (k : Nat) (s : String) :
    adapt O false orig (.rnum .str k) (.str s) = if O.rnumOk k (.str s) then .ok (.str s) else .error .value := by
  rw [adapt]; simp [adaptRnum, rnumConv]

theorem adapt_rstr_nonstr (O : Oracle) (orig : Option String) (k : Nat) (v : Val) (h : isStr v = false) :
    adapt O false orig (.rnum .str k) v = .error .value := by
  rw [adapt]
  cases v <;> simp [isStr] at h <;> simp [adaptRnum, rnumConv]

/-- **an argument of a restricted string type is judged on its text alone** — whatever the loader makes of the
    text (`null`, `[1]`, `1`): accepted exactly when the predicate holds for the text, returned verbatim -/
theorem checkType_rstr (O : Oracle) (k : Nat) (s : String) :
    checkType O (.rnum .str k) (.str s) = if O.rnumOk k (.str s) then .ok (.str s) else .error .type := by
  unfold checkType
  simp only [origOf]
  have hv : ∀ v, isValidString (.rnum .str k) v = false := by intro v; simp [isValidString]
  rcases parseValueOrConfig_str O s with h | h
  · rw [h, adapt_rstr_str]
    by_cases hp : O.rnumOk k (.str s) = true
    · simp [hp]
    · simp [hp, hv]
  · rw [adapt_rstr_nonstr O (some s) k _ h, adapt_rstr_str]
    by_cases hp : O.rnumOk k (.str s) = true
    · simp [hp]
    · simp [hp, hv]

/-! ### container types in the string channel

A container type never takes the argument text itself (the retry with the original string fails, the
`_is_valid_string` fallback does not apply): the text is accepted exactly when what the loader made of it is. -/

/-- the types whose branch of `adapt_typehints` refuses every `str` -/
def isContainerTy : Ty → Bool
  | .list _ | .dict _ _ | .tuple _ | .tupleVar _ | .set _ => true
  | _ => false

theorem container_rejects_str (O : Oracle) (orig : Option String) (t : Ty) (s : String) (h : isContainerTy t = true) :
    isOk (adapt O false orig t (.str s)) = false := by
  cases t <;> simp [isContainerTy] at h <;> simp [adapt, seqItems]

theorem checkType_container (O : Oracle) (t : Ty) (s : String) (h : isContainerTy t = true) :
    isOk (checkType O t (.str s)) = isOk (adapt O false (some s) t (parseValueOrConfig O (.str s))) := by
  rw [checkType_str_isOk, container_rejects_str O (some s) t s h]
  simp

/-! ### `_check_type` on values that are not strings (what `parse_object` and `validate` see for everything but text) -/

theorem checkType_nonstr_eq (O : Oracle) (t : Ty) (v w : Val) (h : isStr v = false) :
    checkType O t v = .ok w ↔ adapt O false .none t v = .ok w := by
  unfold checkType
  have h1 : origOf v = .none := by cases v <;> simp [isStr] at h <;> rfl
  have h2 : parseValueOrConfig O v = v := by cases v <;> simp [isStr] at h <;> rfl
  have h3 : isValidString t v = false := by simp [isValidString, h]
  simp only [h1, h2, h3]
  cases ha : adapt O false .none t v with
  | ok w' => simp
  | error e => cases e <;> simp

/-- an argument of a restricted string type: only a string gets through, and it is a fixed point of `_check_type` -/
theorem checkType_rstr_fixed (O : Oracle) (k : Nat) (v w : Val) (h : checkType O (.rnum .str k) v = .ok w) :
    checkType O (.rnum .str k) w = .ok w := by
  cases hv : isStr v with
  | false =>
    rw [checkType_nonstr_eq O _ v w hv, adapt_rstr_nonstr O .none k v hv] at h
    simp at h
  | true =>
    obtain ⟨s, rfl⟩ : ∃ s, v = .str s := by cases v <;> simp [isStr] at hv; exact ⟨_, rfl⟩
    rw [checkType_rstr] at h
    by_cases hp : O.rnumOk k (.str s) = true
    · simp only [hp, if_true, Except.ok.injEq] at h
      subst h
      rw [checkType_rstr]; simp [hp]
    · simp [hp] at h

/-! ### Enum and None leaves, exactly -/

theorem enum_exact (O : Oracle) (orig : Option String) (c : Nat) (ms : List String) (v w : Val) :
    adapt O false orig (.enum c ms) v = .ok w ↔
      (∃ n, v = .enum c n ∧ n ∈ ms ∧ w = .enum c n) ∨ (∃ s, v = .str s ∧ s ∈ ms ∧ w = .enum c s) := by
  rw [adapt]
  unfold adaptEnum
  simp only [Bool.false_eq_true, if_false]
  cases v with
  | enum c' n =>
    by_cases h : c = c' ∧ n ∈ ms
    · obtain ⟨rfl, hn⟩ := h
      simp only [hn, and_self, if_true, Except.ok.injEq]
      constructor
      · intro e; subst e; exact Or.inl ⟨n, rfl, hn, rfl⟩
      · rintro (⟨n', e1, _, e2⟩ | ⟨s, e1, _⟩)
        · cases e1; exact e2.symm
        · cases e1
    · simp only [h, if_false]
      constructor
      · intro e; cases e
      · rintro (⟨n', e1, hn', _⟩ | ⟨s, e1, _⟩)
        · cases e1; exact absurd ⟨rfl, hn'⟩ h
        · cases e1
  | str s =>
    by_cases h : s ∈ ms
    · simp only [h, if_true, Except.ok.injEq]
      constructor
      · intro e; subst e; exact Or.inr ⟨s, rfl, h, rfl⟩
      · rintro (⟨n, e1, _⟩ | ⟨s', e1, _, e2⟩)
        · cases e1
        · cases e1; exact e2.symm
    · simp only [h, if_false]
      constructor
      · intro e; cases e
      · rintro (⟨n, e1, _⟩ | ⟨s', e1, hs', _⟩)
        · cases e1
        · cases e1; exact absurd hs' h
  | tuple xs =>
    simp only
    constructor
    · intro e; split at e <;> cases e
    · rintro (⟨n, e1, _⟩ | ⟨s', e1, _⟩) <;> cases e1
  | _ =>
    simp only
    constructor
    · intro e; cases e
    · rintro (⟨n, e1, _⟩ | ⟨s', e1, _⟩) <;> cases e1

theorem none_exact (O : Oracle) (orig : Option String) (v w : Val) :
    adapt O false orig .none v = .ok w ↔ loadIfStr O v = .null ∧ w = .null := by
  rw [adapt]
  simp only [adaptLeaf]
  cases h : loadIfStr O v <;> simp [eq_comm]

/-! ### dictionary keys, exactly (finding C02-dict-key-unchecked) -/

/-- `Dict[str, V]`: the keys of the given dictionary are handed through untouched, each value is adapted -/
theorem dictStr_result (O : Oracle) (orig : Option String) (t : Ty) (kvs : List (DKey × Val)) (w : Val)
    (h : adapt O false orig (.dict .str t) (.dict kvs) = .ok w) :
    ∃ ys, w = .dict ys ∧
      F2 (fun (kx ky : DKey × Val) => kx.1 = ky.1 ∧ adapt O false .none t kx.2 = .ok ky.2) kvs ys := by
  simp only [adapt] at h
  split at h
  · simp at h
  · rename_i ys hz
    simp at h; subst h
    refine ⟨ys, rfl, ((allM_ok_iff _ kvs ys).mp hz).imp ?_⟩
    intro kx _ ky hky
    cases ha : adapt O false .none t kx.2 with
    | error e => simp [ha] at hky
    | ok y => simp [ha] at hky; subst hky; exact ⟨rfl, rfl⟩

theorem dictStr_keys (O : Oracle) (orig : Option String) (t : Ty) (kvs ys : List (DKey × Val))
    (h : adapt O false orig (.dict .str t) (.dict kvs) = .ok (.dict ys)) : ys.map Prod.fst = kvs.map Prod.fst := by
  obtain ⟨ys', he, hf⟩ := dictStr_result O orig t kvs _ h
  cases he
  exact hf.map_fst_eq (fun a b hab => hab.1)

/-- the result of a `Dict[str, V]` conforms strictly exactly when every key of the given dictionary is a string
    (values: under the hypotheses of `C02_sound_partial`) -/
theorem dictStr_conf_iff (O : Oracle) (orig : Option String) (t : Ty) (kvs : List (DKey × Val)) (w : Val)
    (hl : litStrOnly t = true) (hv : ∀ kv ∈ kvs, strKeys kv.2 = true)
    (h : adapt O false orig (.dict .str t) (.dict kvs) = .ok w) :
    conf O.rnumOk (.dict .str t) w = true ↔ ∀ kv ∈ kvs, kv.1.isStr = true := by
  obtain ⟨ys, rfl, hf⟩ := dictStr_result O orig t kvs w h
  have hval : ∀ ky ∈ ys, confL O.rnumOk false false t ky.2 = true :=
    hf.forall_right (fun kx hkx ky hk => sound_gen O false false t .none kx.2 ky.2 (fun _ => hl) (fun _ => hv kx hkx) hk.2)
  have hkeys := hf.map_fst_eq (fun a b hab => hab.1)
  have hconf : ∀ k : DKey, DKey.conf .str k = k.isStr := by intro k; cases k <;> rfl
  simp only [conf, confL, Bool.false_or, List.all_eq_true, Bool.and_eq_true, hconf]
  constructor
  · intro hall kv hkv
    have : kv.1 ∈ ys.map Prod.fst := by rw [hkeys]; exact List.mem_map_of_mem hkv
    obtain ⟨ky, hky, he⟩ := List.mem_map.mp this
    rw [← he]; exact (hall ky hky).1
  · intro hall ky hky
    have : ky.1 ∈ kvs.map Prod.fst := by rw [← hkeys]; exact List.mem_map_of_mem hky
    obtain ⟨kx, hkx, he⟩ := List.mem_map.mp this
    exact ⟨by rw [← he]; exact hall kx hkx, hval ky hky⟩

/-! ### Literal membership by `==`, exactly (finding C02-literal-pyeq) -/

/-- `l == w` in Python although `w` is not the member `l` itself -/
def Lit.confused (l : Lit) (w : Val) : Bool := pyEq l.toVal w && !l.same w

/-- … which happens exactly between the kinds bool / int / float on the same number -/
theorem Lit.confused_iff (l : Lit) (w : Val) :
    l.confused w = true ↔
      (match l, w with
       | .int i, .bool b => i = (if b then 1 else 0)
       | .int i, .flt r => fltAsInt r = some i
       | .bool b, .int i => (if b then 1 else 0) = i
       | .bool b, .flt r => fltAsInt r = some (if b then 1 else 0)
       | _, _ => False) := by
  cases l <;> cases w <;> simp [Lit.confused, Lit.toVal, pyEq, numOf, Lit.same]
  · rename_i i r; cases fltAsInt r with
    | none => simp
    | some j => simp; exact eq_comm
  · rename_i a b; cases a <;> cases b <;> simp
  · rename_i b r; cases fltAsInt r with
    | none => simp
    | some j => simp; exact eq_comm

theorem literal_result (O : Oracle) (orig : Option String) (ls : List Lit) (v w : Val)
    (h : adapt O false orig (.literal ls) v = .ok w) :
    conf O.rnumOk (.literal ls) w = true ∨ ∃ l ∈ ls, l.confused w = true := by
  rw [adapt] at h
  have hm := adaptLiteral_litMem O ls v w h
  by_cases hc : conf O.rnumOk (.literal ls) w = true
  · exact Or.inl hc
  · right
    simp only [litMem, List.any_eq_true] at hm
    obtain ⟨l, hl, he⟩ := hm
    refine ⟨l, hl, ?_⟩
    simp only [conf, confL, Bool.false_eq_true, if_false, List.any_eq_true, not_exists, not_and] at hc
    have := hc l hl
    simp [Lit.confused, he, this]

theorem literal_confused_accepted (O : Oracle) (orig : Option String) (ls : List Lit) (l : Lit) (w : Val)
    (hl : l ∈ ls) (hc : l.confused w = true) : adapt O false orig (.literal ls) w = .ok w := by
  rw [adapt]
  simp only [Lit.confused, Bool.and_eq_true] at hc
  have hm : litMem ls w = true := List.any_eq_true.mpr ⟨l, hl, hc.1⟩
  simp [adaptLiteral, hm]

end Jap.Adapt

/-
Restricted types with computed predicates (Core/AdaptRestr.lean): exactness of the restricted leaves in both
channels, `regex.match` versus `regex.search`, and the container types in the string channel.
-/
import Jap.Core.AdaptRestr
import Jap.Lemmas.AdaptStr
namespace Jap.Adapt

/-! ### `match` and `search` -/

theorem matchAt_bol_pos (r : Re) (s : String) (i : Nat) (hi : i ≠ 0) : (Re.cat .bol r).matchAt s i = false := by
  simp [Re.matchAt, Re.ends, hi, dedupNat]

/-- a match at position 0 is a match somewhere -/
theorem accepts_searches (r : Re) (s : String) (h : r.accepts s = true) : r.searches s = true := by
  simp only [Re.searches, List.any_eq_true, List.mem_range]
  exact ⟨0, by omega, h⟩

/-- for a pattern that begins with `^`, `search` and `match` agree on every string -/
theorem searches_anchored (r : Re) (s : String) : (Re.cat .bol r).searches s = (Re.cat .bol r).accepts s := by
  rw [Bool.eq_iff_iff]
  constructor
  · intro h
    simp only [Re.searches, List.any_eq_true, List.mem_range] at h
    obtain ⟨i, _, hm⟩ := h
    by_cases hi : i = 0
    · subst hi; exact hm
    · rw [matchAt_bol_pos r s i hi] at hm; simp at hm
  · exact accepts_searches _ s

/-! ### the restricted leaf, value channel -/

/-- a restricted type accepts exactly the values that convert to the base type (`int(v)` / `float(v)` after the
    bool / non-integer checks; a `str` for a string type) and whose converted value satisfies the restriction -/
theorem rnum_exact (O : Oracle) (orig : Option String) (b : RBase) (k : Nat) (v w : Val) :
    adapt O false orig (.rnum b k) v = .ok w ↔ rnumConv O b v = some w ∧ O.rnumOk k w = true := by
  rw [adapt]
  unfold adaptRnum
  simp only [Bool.false_eq_true, if_false]
  cases hc : rnumConv O b v with
  | none => simp
  | some w' =>
    simp only
    by_cases hk : O.rnumOk k w' = true
    · simp only [hk, if_true, Except.ok.injEq, Option.some.injEq]
      constructor
      · intro h; subst h; exact ⟨rfl, hk⟩
      · intro h; exact h.1
    · simp only [hk, Bool.false_eq_true, if_false, Option.some.injEq]
      constructor
      · intro h; simp at h
      · rintro ⟨rfl, h2⟩; exact absurd h2 hk

theorem rnumConv_str (O : Oracle) (v w : Val) : rnumConv O .str v = some w ↔ ∃ s, v = .str s ∧ w = .str s := by
  cases v <;> simp [rnumConv]
  exact eq_comm

/-- a restricted STRING type with regular expression `r`: exactly the strings `regex.match` accepts, returned
    verbatim -/
theorem rstr_exact (O : Oracle) (tab : RTab) (orig : Option String) (k : Nat) (r : Re) (hk : tab k = some (.re r))
    (v w : Val) :
    adapt (O.withRestr tab) false orig (.rnum .str k) v = .ok w ↔ ∃ s, v = .str s ∧ w = .str s ∧ r.accepts s = true := by
  rw [rnum_exact, rnumConv_str]
  simp only [Oracle.withRestr, hk]
  constructor
  · rintro ⟨⟨s, rfl, rfl⟩, h⟩; exact ⟨s, rfl, rfl, by simpa [Restr.ok] using h⟩
  · rintro ⟨s, rfl, rfl, h⟩; exact ⟨⟨s, rfl, rfl⟩, by simpa [Restr.ok] using h⟩

/-- a restricted NUMBER type: exactly the values that convert and whose converted value satisfies the joined
    comparisons -/
theorem rnumber_exact (O : Oracle) (tab : RTab) (orig : Option String) (b : RBase) (k : Nat) (isOr : Bool)
    (rs : List (Cmp × Num)) (hk : tab k = some (.num isOr rs)) (v w : Val) :
    adapt (O.withRestr tab) false orig (.rnum b k) v = .ok w ↔
      rnumConv O b v = some w ∧ ∃ x, numOfVal w = some x ∧ numOk isOr rs x = true := by
  rw [rnum_exact]
  have hconv : rnumConv (O.withRestr tab) b v = rnumConv O b v := by
    cases b <;> cases v <;> rfl
  rw [hconv]
  simp only [Oracle.withRestr, hk, Restr.ok]
  constructor
  · rintro ⟨h1, h2⟩
    refine ⟨h1, ?_⟩
    cases hn : numOfVal w with
    | none => simp [hn] at h2
    | some x => exact ⟨x, rfl, by simpa [hn] using h2⟩
  · rintro ⟨h1, x, hx, h2⟩
    exact ⟨h1, by simp [hx, h2]⟩

/-! ### the restricted string leaf, string channel -/

theorem adapt_rstr_str (O : Oracle) (orig : Option String) (k : Nat) (s : String) :
    adapt O false orig (.rnum .str k) (.str s) = if O.rnumOk k (.str s) then .ok (.str s) else .error .value := by
  rw [adapt]; simp [adaptRnum, rnumConv]

theorem adapt_rstr_nonstr (O : Oracle) (orig : Option String) (k : Nat) (v : Val) (h : isStr v = false) :
    adapt O false orig (.rnum .str k) v = .error .value := by
  rw [adapt]
  cases v <;> simp [isStr] at h <;> simp [adaptRnum, rnumConv]

/-- **an argument of a restricted string type is judged on its text alone** — whatever the loader makes of the
    text (`null`, `[1]`, `1`): accepted exactly when the predicate holds for the text, returned verbatim -/
theorem checkType_rstr (O : Oracle) (k : Nat) (s : String) :
    checkType O (.rnum .str k) (.str s) = if O.rnumOk k (.str s) then .ok (.str s) else .error .type := by
  unfold checkType
  simp only [origOf]
  have hv : ∀ v, isValidString (.rnum .str k) v = false := by intro v; simp [isValidString]
  rcases parseValueOrConfig_str O s with h | h
  · rw [h, adapt_rstr_str]
    by_cases hp : O.rnumOk k (.str s) = true
    · simp [hp]
    · simp [hp, hv]
  · rw [adapt_rstr_nonstr O (some s) k _ h, adapt_rstr_str]
    by_cases hp : O.rnumOk k (.str s) = true
    · simp [hp]
    · simp [hp, hv]

/-! ### container types in the string channel

A container type never takes the argument text itself (the retry with the original string fails, the
`_is_valid_string` fallback does not apply): the text is accepted exactly when what the loader made of it is. -/

/-- the types whose branch of `adapt_typehints` refuses every `str` -/
def isContainerTy : Ty → Bool
  | .list _ | .dict _ _ | .tuple _ | .tupleVar _ | .set _ => true
  | _ => false

theorem container_rejects_str (O : Oracle) (orig : Option String) (t : Ty) (s : String) (h : isContainerTy t = true) :
    isOk (adapt O false orig t (.str s)) = false := by
  cases t <;> simp [isContainerTy] at h <;> simp [adapt, seqItems]

theorem checkType_container (O : Oracle) (t : Ty) (s : String) (h : isContainerTy t = true) :
    isOk (checkType O t (.str s)) = isOk (adapt O false (some s) t (parseValueOrConfig O (.str s))) := by
  rw [checkType_str_isOk, container_rejects_str O (some s) t s h]
  simp

/-! ### `_check_type` on values that are not strings (what `parse_object` and `validate` see for everything but text) -/

theorem checkType_nonstr_eq (O : Oracle) (t : Ty) (v w : Val) (h : isStr v = false) :
    checkType O t v = .ok w ↔ adapt O false .none t v = .ok w := by
  unfold checkType
  have h1 : origOf v = .none := by cases v <;> simp [isStr] at h <;> rfl
  have h2 : parseValueOrConfig O v = v := by cases v <;> simp [isStr] at h <;> rfl
  have h3 : isValidString t v = false := by simp [isValidString, h]
  simp only [h1, h2, h3]
  cases ha : adapt O false .none t v with
  | ok w' => simp
  | error e => cases e <;> simp

/-- an argument of a restricted string type: only a string gets through, and it is a fixed point of `_check_type` -/
theorem checkType_rstr_fixed (O : Oracle) (k : Nat) (v w : Val) (h : checkType O (.rnum .str k) v = .ok w) :
    checkType O (.rnum .str k) w = .ok w := by
  cases hv : isStr v with
  | false =>
    rw [checkType_nonstr_eq O _ v w hv, adapt_rstr_nonstr O .none k v hv] at h
    simp at h
  | true =>
    obtain ⟨s, rfl⟩ : ∃ s, v = .str s := by cases v <;> simp [isStr] at hv; exact ⟨_, rfl⟩
    rw [checkType_rstr] at h
    by_cases hp : O.rnumOk k (.str s) = true
    · simp only [hp, if_true, Except.ok.injEq] at h
      subst h
      rw [checkType_rstr]; simp [hp]
    · simp [hp] at h

/-! ### Enum and None leaves, exactly -/

theorem enum_exact (O : Oracle) (orig : Option String) (c : Nat) (ms : List String) (v w : Val) :
    adapt O false orig (.enum c ms) v = .ok w ↔
      (∃ n, v = .enum c n ∧ n ∈ ms ∧ w = .enum c n) ∨ (∃ s, v = .str s ∧ s ∈ ms ∧ w = .enum c s) := by
  rw [adapt]
  unfold adaptEnum
  simp only [Bool.false_eq_true, if_false]
  cases v with
  | enum c' n =>
    by_cases h : c = c' ∧ n ∈ ms
    · obtain ⟨rfl, hn⟩ := h
      simp only [hn, and_self, if_true, Except.ok.injEq]
      constructor
      · intro e; subst e; exact Or.inl ⟨n, rfl, hn, rfl⟩
      · rintro (⟨n', e1, _, e2⟩ | ⟨s, e1, _⟩)
        · cases e1; exact e2.symm
        · cases e1
    · simp only [h, if_false]
      constructor
      · intro e; cases e
      · rintro (⟨n', e1, hn', _⟩ | ⟨s, e1, _⟩)
        · cases e1; exact absurd ⟨rfl, hn'⟩ h
        · cases e1
  | str s =>
    by_cases h : s ∈ ms
    · simp only [h, if_true, Except.ok.injEq]
      constructor
      · intro e; subst e; exact Or.inr ⟨s, rfl, h, rfl⟩
      · rintro (⟨n, e1, _⟩ | ⟨s', e1, _, e2⟩)
        · cases e1
        · cases e1; exact e2.symm
    · simp only [h, if_false]
      constructor
      · intro e; cases e
      · rintro (⟨n, e1, _⟩ | ⟨s', e1, hs', _⟩)
        · cases e1
        · cases e1; exact absurd hs' h
  | tuple xs =>
    simp only
    constructor
    · intro e; split at e <;> cases e
    · rintro (⟨n, e1, _⟩ | ⟨s', e1, _⟩) <;> cases e1
  | _ =>
    simp only
    constructor
    · intro e; cases e
    · rintro (⟨n, e1, _⟩ | ⟨s', e1, _⟩) <;> cases e1

theorem none_exact (O : Oracle) (orig : Option String) (v w : Val) :
    adapt O false orig .none v = .ok w ↔ loadIfStr O v = .null ∧ w = .null := by
  rw [adapt]
  simp only [adaptLeaf]
  cases h : loadIfStr O v <;> simp [eq_comm]

end Jap.Adapt

/-
Helper lemma for the `Decimal` codec of E8 (C20): whatever `roundDouble` returns is a dyadic rational whose
denominator divides 2^1074 (the spacing of the subnormal doubles).  Core Lean only.
-/
import Jap.Core.Typing
namespace Jap.Typing

theorem mkRat_pow2_den_dvd (m : Int) (k : Nat) (hk : k ≤ 1074) : (mkRat m (2 ^ k)).den ∣ 2 ^ 1074 := by
  rw [Rat.den_mkRat]
  have hne : (2 : Nat) ^ k ≠ 0 := Nat.ne_of_gt (Nat.pow_pos (by decide))
  simp only [hne, ↓reduceIte]
  exact Nat.dvd_trans (Nat.div_dvd_of_dvd (Nat.gcd_dvd_left _ _)) (Nat.pow_dvd_pow 2 hk)

theorem roundDouble_den {q r : Rat} (h : roundDouble q = .fin r) : r.den ∣ 2 ^ 1074 := by
  unfold roundDouble at h
  extract_lets a b e0 m0 e1 e n d mq r' m mag at h
  have he : (-e).toNat ≤ 1074 := by
    show (-(if e1 < -1074 then -1074 else e1)).toNat ≤ 1074
    split <;> omega
  have hmag : mag.den ∣ 2 ^ 1074 := by
    show (if e ≥ 0 then ((m * 2 ^ e.toNat : Nat) : Rat) else mkRat (m : Int) (2 ^ (-e).toNat)).den ∣ 2 ^ 1074
    split
    · rw [Rat.den_natCast]; exact Nat.one_dvd _
    · exact mkRat_pow2_den_dvd _ _ he
  split at h
  · cases h; exact Nat.one_dvd _
  · split at h
    · cases h
    · simp only [XNum.fin.injEq] at h
      subst h
      split
      · rw [Rat.neg_den]; exact hmag
      · exact hmag
end Jap.Typing

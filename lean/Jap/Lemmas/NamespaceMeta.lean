/-
Lemmas about the remaining Namespace surface (`Core/NamespaceMeta.lean`): keys/values vs items, `as_flat`,
`strip_meta`, `get_sorted_keys`.
-/
import Jap.Core.NamespaceMeta

namespace Jap.NS

/-! ### keys / values -/

theorem zip_fst_snd {α β} : ∀ l : List (α × β), (l.map (·.1)).zip (l.map (·.2)) = l
  | [] => rfl
  | (a, b) :: r => by simp [zip_fst_snd r]

theorem keys_zip_values (b : Bool) (root : KV) : (keys b root).zip (values b root) = items b root :=
  zip_fst_snd _

theorem keys_length (b : Bool) (root : KV) : (keys b root).length = (items b root).length := by
  simp [keys]

theorem values_length (b : Bool) (root : KV) : (values b root).length = (items b root).length := by
  simp [values]

theorem items_nil_of_not_nonEmpty (b : Bool) (root : KV) (h : nonEmpty root = false) : items b root = [] := by
  cases root with
  | nil => cases b <;> rfl
  | cons x r => simp [nonEmpty] at h

/-! ### as_flat -/

theorem mem_insertS {k : String} {v : V} : ∀ {acc : List (String × V)} {x : String × V},
    x ∈ insertS k v acc → x = (k, v) ∨ x ∈ acc
  | [], x, h => by simp [insertS] at h; exact Or.inl h
  | (k', v') :: r, x, h => by
    by_cases hk : k' = k
    · simp only [insertS, hk, if_true, List.mem_cons] at h
      rcases h with h | h
      · exact Or.inl h
      · exact Or.inr (List.mem_cons_of_mem _ h)
    · simp only [insertS, hk, if_false, List.mem_cons] at h
      rcases h with h | h
      · exact Or.inr (h ▸ List.mem_cons_self)
      · rcases mem_insertS h with h | h
        · exact Or.inl h
        · exact Or.inr (List.mem_cons_of_mem _ h)

theorem insertS_keys (k : String) (v : V) : ∀ acc : List (String × V),
    (insertS k v acc).map (·.1) = if k ∈ acc.map (·.1) then acc.map (·.1) else acc.map (·.1) ++ [k]
  | [] => by simp [insertS]
  | (k', v') :: r => by
    by_cases hk : k' = k
    · simp [insertS, hk]
    · have hk' : ¬ k = k' := fun e => hk e.symm
      simp only [insertS, hk, if_false, List.map_cons, insertS_keys k v r, List.mem_cons, hk', false_or]
      split <;> simp

theorem insertS_nodup (k : String) (v : V) (acc : List (String × V)) (h : (acc.map (·.1)).Nodup) :
    ((insertS k v acc).map (·.1)).Nodup := by
  rw [insertS_keys]
  split
  · exact h
  · rename_i hk
    exact List.nodup_append.mpr ⟨h, by simp, by
      intro a ha b hb
      simp at hb
      subst hb
      intro e
      exact hk (e ▸ ha)⟩

theorem insertS_key_mem (k : String) (v : V) (acc : List (String × V)) : k ∈ (insertS k v acc).map (·.1) := by
  rw [insertS_keys]; split
  · assumption
  · simp

theorem insertS_keys_mono (k : String) (v : V) (acc : List (String × V)) {a : String}
    (h : a ∈ acc.map (·.1)) : a ∈ (insertS k v acc).map (·.1) := by
  rw [insertS_keys]; split
  · exact h
  · exact List.mem_append_left _ h

/-- the fold of `as_flat` started from any accumulator -/
def flatFold (l : List (String × V)) (acc : List (String × V)) : List (String × V) :=
  l.foldl (fun acc kv => insertS kv.1 kv.2 acc) acc

theorem flatFold_mem : ∀ (l acc : List (String × V)) {x : String × V}, x ∈ flatFold l acc → x ∈ l ∨ x ∈ acc
  | [], _, _, h => Or.inr h
  | kv :: r, acc, x, h => by
    have := flatFold_mem r (insertS kv.1 kv.2 acc) (x := x) (by simpa [flatFold] using h)
    rcases this with h1 | h1
    · exact Or.inl (List.mem_cons_of_mem _ h1)
    · rcases mem_insertS h1 with h2 | h2
      · exact Or.inl (by rw [h2]; exact List.mem_cons_self)
      · exact Or.inr h2

theorem flatFold_nodup : ∀ (l acc : List (String × V)), (acc.map (·.1)).Nodup → ((flatFold l acc).map (·.1)).Nodup
  | [], _, h => h
  | kv :: r, acc, h => by
    simpa [flatFold] using flatFold_nodup r (insertS kv.1 kv.2 acc) (insertS_nodup _ _ _ h)

theorem flatFold_keys_acc : ∀ (l acc : List (String × V)) {a : String}, a ∈ acc.map (·.1) →
    a ∈ (flatFold l acc).map (·.1)
  | [], _, _, h => h
  | kv :: r, acc, a, h => by
    have := flatFold_keys_acc r (insertS kv.1 kv.2 acc) (insertS_keys_mono kv.1 kv.2 acc h)
    simpa [flatFold] using this

theorem flatFold_keys : ∀ (l acc : List (String × V)) {x : String × V}, x ∈ l → x.1 ∈ (flatFold l acc).map (·.1)
  | kv :: r, acc, x, h => by
    rcases List.mem_cons.mp h with h | h
    · subst h
      have := flatFold_keys_acc r (insertS x.1 x.2 acc) (insertS_key_mem x.1 x.2 acc)
      simpa [flatFold] using this
    · have := flatFold_keys r (insertS kv.1 kv.2 acc) h
      simpa [flatFold] using this

/-! ### strip_meta -/

mutual
/-- no skipped key at any depth (inside namespaces, dicts, lists and tuples) -/
def metaFreeV (metaKeys : List String) : V → Bool
  | .ns kvs => metaFreeKV metaKeys kvs
  | .dct kvs => metaFreeKV metaKeys kvs
  | .lst xs => metaFreeL metaKeys xs
  | .tup xs => metaFreeL metaKeys xs
  | .none => true
  | .atom _ => true
def metaFreeKV (metaKeys : List String) : KV → Bool
  | [] => true
  | (k, v) :: r => !isMetaName metaKeys k && metaFreeV metaKeys v && metaFreeKV metaKeys r
def metaFreeL (metaKeys : List String) : List V → Bool
  | [] => true
  | x :: r => metaFreeV metaKeys x && metaFreeL metaKeys r
end

mutual
theorem stripV_metaFree (m : List String) : ∀ v : V, metaFreeV m (stripV m v) = true
  | .ns kvs => by simp [stripV, metaFreeV, stripKV_metaFree m kvs]
  | .dct kvs => by simp [stripV, metaFreeV, stripKV_metaFree m kvs]
  | .lst xs => by simp [stripV, metaFreeV, stripL_metaFree m xs]
  | .tup xs => by simp [stripV, metaFreeV, stripL_metaFree m xs]
  | .none => by simp [stripV, metaFreeV]
  | .atom _ => by simp [stripV, metaFreeV]
theorem stripKV_metaFree (m : List String) : ∀ kvs : KV, metaFreeKV m (stripKV m kvs) = true
  | [] => by simp [stripKV, metaFreeKV]
  | (k, v) :: r => by
    by_cases hk : isMetaName m k = true
    · simp [stripKV, hk, stripKV_metaFree m r]
    · simp [stripKV, hk, metaFreeKV, stripV_metaFree m v, stripKV_metaFree m r]
theorem stripL_metaFree (m : List String) : ∀ xs : List V, metaFreeL m (stripL m xs) = true
  | [] => by simp [stripL, metaFreeL]
  | x :: r => by simp [stripL, metaFreeL, stripV_metaFree m x, stripL_metaFree m r]
end

mutual
theorem stripV_id (m : List String) : ∀ v : V, metaFreeV m v = true → stripV m v = v
  | .ns kvs, h => by simp [metaFreeV] at h; simp [stripV, stripKV_id m kvs h]
  | .dct kvs, h => by simp [metaFreeV] at h; simp [stripV, stripKV_id m kvs h]
  | .lst xs, h => by simp [metaFreeV] at h; simp [stripV, stripL_id m xs h]
  | .tup xs, h => by simp [metaFreeV] at h; simp [stripV, stripL_id m xs h]
  | .none, _ => by simp [stripV]
  | .atom _, _ => by simp [stripV]
theorem stripKV_id (m : List String) : ∀ kvs : KV, metaFreeKV m kvs = true → stripKV m kvs = kvs
  | [], _ => by simp [stripKV]
  | (k, v) :: r, h => by
    simp only [metaFreeKV, Bool.and_eq_true, Bool.not_eq_true'] at h
    simp [stripKV, h.1.1, stripV_id m v h.1.2, stripKV_id m r h.2]
theorem stripL_id (m : List String) : ∀ xs : List V, metaFreeL m xs = true → stripL m xs = xs
  | [], _ => by simp [stripL]
  | x :: r, h => by
    simp only [metaFreeL, Bool.and_eq_true] at h
    simp [stripL, stripV_id m x h.1, stripL_id m r h.2]
end

theorem stripKV_idem (m : List String) (kvs : KV) : stripKV m (stripKV m kvs) = stripKV m kvs :=
  stripKV_id m _ (stripKV_metaFree m kvs)

theorem lookup_stripKV_meta (m : List String) (k : SKey) (hk : isMetaName m k = true) :
    ∀ kvs : KV, lookup k (stripKV m kvs) = none
  | [] => by simp [stripKV, lookup]
  | (k', v) :: r => by
    by_cases h' : isMetaName m k' = true
    · simp [stripKV, h', lookup_stripKV_meta m k hk r]
    · have hne : k' ≠ k := fun e => h' (e ▸ hk)
      simp [stripKV, h', lookup, hne, lookup_stripKV_meta m k hk r]

theorem lookup_stripKV (m : List String) (k : SKey) (hk : isMetaName m k = false) :
    ∀ kvs : KV, lookup k (stripKV m kvs) = (lookup k kvs).map (stripV m)
  | [] => by simp [stripKV, lookup]
  | (k', v) :: r => by
    by_cases h' : isMetaName m k' = true
    · have hne : k' ≠ k := fun e => by rw [e, hk] at h'; cases h'
      simp [stripKV, h', lookup, hne, lookup_stripKV m k hk r]
    · by_cases e : k' = k
      · subst e
        simp [stripKV, hk, lookup]
      · simp [stripKV, h', lookup, e, lookup_stripKV m k hk r]

/-! ### get_sorted_keys -/

theorem deeperEq_trans (a b c : String) : deeperEq a b = true → deeperEq b c = true → deeperEq a c = true := by
  simp only [deeperEq, decide_eq_true_eq]; omega

theorem deeperEq_total (a b : String) : (deeperEq a b || deeperEq b a) = true := by
  simp only [deeperEq, Bool.or_eq_true, decide_eq_true_eq]; omega

theorem appendNew_prefix (acc : List String) (p : String) : acc <+: appendNew acc p := by
  unfold appendNew; split
  · exact List.prefix_refl _
  · exact List.prefix_append _ _

theorem foldl_appendNew_prefix : ∀ (ps acc : List String), acc <+: ps.foldl appendNew acc
  | [], _ => List.prefix_refl _
  | p :: r, acc => (appendNew_prefix acc p).trans (foldl_appendNew_prefix r _)

theorem addParents_prefix (keys0 : List String) : keys0 <+: addParents keys0 := by
  unfold addParents
  generalize (keys0.filter fun k => k.toList.contains '.') = ds
  suffices ∀ acc : List String, acc <+: ds.foldl (fun acc key => (parentsOf (splitDots key)).foldl appendNew acc) acc from this keys0
  induction ds with
  | nil => intro acc; exact List.prefix_refl _
  | cons d r ih => intro acc; exact (foldl_appendNew_prefix _ acc).trans (ih _)

theorem appendNew_nodup (acc : List String) (p : String) (h : acc.Nodup) : (appendNew acc p).Nodup := by
  unfold appendNew; split
  · exact h
  · rename_i hp
    exact List.nodup_append.mpr ⟨h, by simp, by
      intro a ha b hb
      simp at hb
      subst hb
      intro e
      apply hp
      simpa using (e ▸ ha)⟩

theorem foldl_appendNew_nodup : ∀ (ps acc : List String), acc.Nodup → (ps.foldl appendNew acc).Nodup
  | [], _, h => h
  | p :: r, acc, h => foldl_appendNew_nodup r _ (appendNew_nodup acc p h)

theorem addParents_nodup (keys0 : List String) (h : keys0.Nodup) : (addParents keys0).Nodup := by
  unfold addParents
  generalize (keys0.filter fun k => k.toList.contains '.') = ds
  suffices ∀ acc : List String, acc.Nodup → (ds.foldl (fun acc key => (parentsOf (splitDots key)).foldl appendNew acc) acc).Nodup from this keys0 h
  induction ds with
  | nil => intro acc h; exact h
  | cons d r ih => intro acc h; exact ih _ (foldl_appendNew_nodup _ acc h)

/-- the list that `get_sorted_keys` sorts -/
def unsortedKeys (metaKeys : List String) (branches : Bool) (root : KV) : List String :=
  let ks := (keys false root).filter fun k => !isMetaKey metaKeys k
  if branches then addParents ks else ks

theorem getSortedKeys_eq (m : List String) (b : Bool) (root : KV) :
    getSortedKeys m b root = (unsortedKeys m b root).mergeSort deeperEq := rfl

theorem getSortedKeys_sorted (m : List String) (b : Bool) (root : KV) :
    (getSortedKeys m b root).Pairwise (fun x y => depth x ≥ depth y) := by
  have := List.pairwise_mergeSort (le := deeperEq) deeperEq_trans deeperEq_total (unsortedKeys m b root)
  rw [getSortedKeys_eq]
  exact this.imp (by intro x y h; simpa [deeperEq] using h)

theorem getSortedKeys_perm (m : List String) (b : Bool) (root : KV) :
    (getSortedKeys m b root).Perm (unsortedKeys m b root) := by
  rw [getSortedKeys_eq]; exact List.mergeSort_perm _ _

/-- stability: two keys that are not in the wrong depth order keep their relative position -/
theorem getSortedKeys_stable (m : List String) (b : Bool) (root : KV) (x y : String)
    (hd : depth x ≥ depth y) (h : [x, y].Sublist (unsortedKeys m b root)) :
    [x, y].Sublist (getSortedKeys m b root) := by
  rw [getSortedKeys_eq]
  exact List.pair_sublist_mergeSort deeperEq_trans deeperEq_total (by simpa [deeperEq] using hd) h

end Jap.NS

/-
E9 (Resolver): on straight-line bodies (pops, then one forwarding call) the names the resolver
offers are exactly the names the call binding accepts — first for one callable, given the same
fact for the callee (`callable_exact`), then for every frame by induction on the measure.
-/
import Jap.Lemmas.ResolverFuel

namespace Jap.Resolver

def popUse (x : String × DVal) : Use := .pop x.1 x.2

def popInUse (x : String × DVal) : Use := .popIn x.1 x.2

theorem takePopIns_spec : ∀ {us : List Use} {ns : List (String × DVal)},
    takePopIns us = some ns → us = ns.map popInUse := by
  intro us
  induction us with
  | nil => intro ns h; simp only [takePopIns, Option.some.injEq] at h; subst h; rfl
  | cons u us ih =>
    intro ns h
    cases u with
    | popIn n d =>
      simp only [takePopIns] at h
      cases ht : takePopIns us with
      | none => simp [ht] at h
      | some ns' =>
        simp only [ht, Option.some.injEq] at h
        subst h
        rw [ih ht]
        rfl
    | pop n d => simp [takePopIns] at h
    | get n d => simp [takePopIns] at h
    | superCall frm k g => simp [takePopIns] at h
    | call t k g => simp [takePopIns] at h

theorem splitSL_spec : ∀ {us : List Use} {ps : List (String × DVal)} {f : Use} {ns : List (String × DVal)},
    splitSL us = some (ps, f, ns) → us = ps.map popUse ++ f :: ns.map popInUse ∧ f.isForward = true := by
  intro us
  induction us with
  | nil => intro ps f ns h; simp [splitSL] at h
  | cons u us ih =>
    intro ps f ns h
    cases u with
    | pop n d =>
      simp only [splitSL] at h
      cases hs : splitSL us with
      | none => simp [hs] at h
      | some pf =>
        obtain ⟨ps', f', ns'⟩ := pf
        simp only [hs, Option.some.injEq, Prod.mk.injEq] at h
        obtain ⟨rfl, rfl, rfl⟩ := h
        obtain ⟨h1, h2⟩ := ih hs
        exact ⟨by rw [h1]; simp [popUse], h2⟩
    | get n d => simp [splitSL] at h
    | popIn n d => simp [splitSL] at h
    | superCall frm k g =>
      simp only [splitSL] at h
      cases ht : takePopIns us with
      | none => simp [ht] at h
      | some ns' =>
        simp only [ht, Option.some.injEq, Prod.mk.injEq] at h
        obtain ⟨rfl, rfl, rfl⟩ := h
        exact ⟨by rw [takePopIns_spec ht]; rfl, rfl⟩
    | call t k g =>
      simp only [splitSL] at h
      cases ht : takePopIns us with
      | none => simp [ht] at h
      | some ns' =>
        simp only [ht, Option.some.injEq, Prod.mk.injEq] at h
        obtain ⟨rfl, rfl, rfl⟩ := h
        exact ⟨by rw [takePopIns_spec ht]; rfl, rfl⟩

def popList (x : String × DVal) : Bool × List Param := (true, [popParam x.1 x.2])

theorem collect_pops {rec : Frame → Out} {P : Prog} {wh : Where} (rest : List Use) :
    ∀ (ps : List (String × DVal)) (a : Acc),
      collect rec P wh (ps.map popUse ++ rest) a =
        collect rec P wh rest { a with lists := a.lists ++ ps.map popList } := by
  intro ps
  induction ps with
  | nil => intro a; simp
  | cons x ps ih =>
    intro a
    simp only [List.map_cons, List.cons_append, popUse, collect]
    rw [ih { a with lists := a.lists ++ [(true, [popParam x.1 x.2])] }]
    simp [popList, List.append_assoc]

/-- does this forwarding use feed the shared `removed_params` set? (not on the attribute-use path) -/
def updRemoved : Use → Bool
  | .call t _ _ => t.updatesRemoved
  | _ => true

theorem collect_popIns {rec : Frame → Out} {P : Prog} {wh : Where} :
    ∀ (ns : List (String × DVal)) (a : Acc),
      collect rec P wh (ns.map popInUse) a = .ok { a with lists := a.lists ++ ns.map popList } := by
  intro ns
  induction ns with
  | nil => intro a; simp [collect]
  | cons x ns ih =>
    intro a
    simp only [List.map_cons, popInUse, collect]
    have := ih { a with lists := a.lists ++ [(true, [popParam x.1 x.2])] }
    simp only [popInUse] at this
    rw [this]
    simp [popList, List.append_assoc]

/-- the accumulator after the pops nested in the call's argument list -/
def withNested (a : Acc) (ns : List (String × DVal)) : Acc := { a with lists := a.lists ++ ns.map popList }

theorem collect_forward {rec : Frame → Out} {P : Prog} {wh : Where} {f : Use} (hf : f.isForward = true)
    (ns : List (String × DVal)) (a : Acc) :
    collect rec P wh (f :: ns.map popInUse) a =
      match subFrame P wh f with
      | none => .ok (withNested (addForward a f.givenPos f.given [] (updRemoved f)) ns)
      | some fr =>
        match rec fr with
        | .ok r => .ok (withNested (addForward a f.givenPos f.given r (updRemoved f)) ns)
        | .crash => .crash
        | .nofuel => .nofuel := by
  cases f with
  | pop n d => cases hf
  | get n d => cases hf
  | popIn n d => cases hf
  | superCall frm k g =>
    simp only [collect, subFrame, Use.givenPos, Use.given, updRemoved]
    cases superFrame P wh frm with
    | none => simp only [collect_popIns, withNested]
    | some fr => cases hr : rec fr <;> simp only [hr, collect_popIns, withNested]
  | call t k g =>
    simp only [collect, subFrame, Use.givenPos, Use.given, updRemoved]
    cases targetFrame wh t with
    | none => simp only [collect_popIns, withNested]
    | some fr => cases hr : rec fr <;> simp only [hr, collect_popIns, withNested]

theorem runUses_pops {rec : Frame → String → Bool} {P : Prog} {wh : Where} {n : String} (rest : List Use) :
    ∀ (ps : List (String × DVal)) (pr : Bool),
      runUses rec P wh n (ps.map popUse ++ rest) pr =
        runUses rec P wh n rest (pr && !(ps.any (fun x => x.1 == n))) := by
  intro ps
  induction ps with
  | nil => intro pr; simp
  | cons x ps ih =>
    intro pr
    simp only [List.map_cons, List.cons_append, popUse, runUses]
    rw [ih (pr && x.1 != n)]
    congr 1
    simp only [List.any_cons, Bool.not_or, bne]
    cases pr <;> cases h : (x.1 == n) <;> simp

theorem nestedPops_map (ns : List (String × DVal)) : nestedPops (ns.map popInUse) = ns.map (·.1) := by
  induction ns with
  | nil => rfl
  | cons x ns ih => simp only [List.map_cons, popInUse, nestedPops]; rw [← ih]

theorem runUses_popIns {rec : Frame → String → Bool} {P : Prog} {wh : Where} {n : String} :
    ∀ (ns : List (String × DVal)) (pr : Bool), runUses rec P wh n (ns.map popInUse) pr = true := by
  intro ns
  induction ns with
  | nil => intro pr; rfl
  | cons x ns ih => intro pr; simp only [List.map_cons, popInUse, runUses]; exact ih _

theorem runUses_forward {rec : Frame → String → Bool} {P : Prog} {wh : Where} {n : String} {f : Use}
    (hf : f.isForward = true) (ns : List (String × DVal)) (pr : Bool) :
    runUses rec P wh n (f :: ns.map popInUse) pr =
      (if pr && !(ns.any (fun x => x.1 == n)) then forwardOK rec P wh n f f.givenPos f.given else true) := by
  have hc : decide (n ∈ ns.map (·.1)) = ns.any (fun x => x.1 == n) := by
    induction ns with
    | nil => simp
    | cons x ns ih =>
      simp only [List.map_cons, List.mem_cons, List.any_cons, ← ih, Bool.decide_or]
      congr 1
      by_cases h : n = x.1
      · simp [h]
      · have h' : ¬ x.1 = n := fun e => h e.symm
        simp [h, h']
  cases f with
  | pop n d => cases hf
  | get n d => cases hf
  | popIn n d => cases hf
  | superCall frm k g => simp [runUses, Use.givenPos, Use.given, nestedPops_map, runUses_popIns, hc]
  | call t k g => simp [runUses, Use.givenPos, Use.given, nestedPops_map, runUses_popIns, hc]

theorem execUses_noBranch {us : List GUse} (h : noBranch us = true) : execUses none us = liveUses us := by
  unfold execUses liveUses
  congr 1
  apply List.filter_congr
  intro g hg
  have := List.all_eq_true.1 h g hg
  cases hgg : g.guard with
  | always => simp [Guard.dead]
  | const b => cases b <;> simp [Guard.dead]
  | branch i => simp [hgg] at this

theorem branchIds_noBranch : ∀ {us : List GUse}, noBranch us = true → branchIds us = [] := by
  intro us
  induction us with
  | nil => intro _; rfl
  | cons g us ih =>
    intro h
    simp only [noBranch, List.all_cons, Bool.and_eq_true] at h
    have ih' := ih (by simpa [noBranch] using h.2)
    simp only [branchIds]
    cases hg : g.guard with
    | always => simpa using ih'
    | const b => simpa using ih'
    | branch i => simp [hg] at h

/-- the resolver's answer for a callable: its own parameters, then others with other names -/
theorem resolveCallable_shape {rec : Frame → Out} {P : Prog} {wh : Where} {c : Callable} {R : List Param}
    (h : resolveCallable rec P wh c = .ok R) :
    ∃ ext, R = c.params ++ ext ∧ ∀ p ∈ ext, p.name ∉ names c.params := by
  unfold resolveCallable at h
  split at h
  · simp only [Out.ok.injEq] at h
    exact ⟨[], by simp [h], by simp⟩
  · split at h
    · cases h
    · cases h
    · split at h
      · cases h
      · cases h
      · simp only [Out.ok.injEq] at h
        refine ⟨_, h.symm, ?_⟩
        intro p hp
        simp only [List.mem_filter, decide_eq_true_eq] at hp
        exact hp.2

theorem any_fst_eq {ps : List (String × DVal)} {n : String} :
    ps.any (fun x => x.1 == n) = true ↔ ∃ x ∈ ps, x.1 = n := by
  simp [List.any_eq_true]

theorem names_popLists {ps : List (String × DVal)} {n : String} :
    (∃ l ∈ ps.map popList, n ∈ names l.2) ↔ ∃ x ∈ ps, x.1 = n := by
  constructor
  · rintro ⟨l, hl, hn⟩
    obtain ⟨x, hx, rfl⟩ := List.mem_map.1 hl
    simp only [popList, names, popParam, List.map_cons, List.map_nil, List.mem_singleton] at hn
    exact ⟨x, hx, hn.symm⟩
  · rintro ⟨x, hx, rfl⟩
    exact ⟨popList x, List.mem_map.2 ⟨x, hx, rfl⟩, by simp [popList, names, popParam]⟩

theorem filter_take_posOrKw : ∀ (ps : List Param) (k : Nat),
    (ps.take k).all (fun p => decide (p.kind = .posOrKw)) = true →
    (ps.filter (fun p => p.kind = .posOrKw)).take k = ps.take k := by
  intro ps
  induction ps with
  | nil => intro k _; simp
  | cons p ps ih =>
    intro k hall
    cases k with
    | zero => simp
    | succ k =>
      simp only [List.take_succ_cons, List.all_cons, Bool.and_eq_true, decide_eq_true_eq] at hall
      simp only [List.filter_cons, hall.1, decide_true, ↓reduceIte, List.take_succ_cons]
      rw [ih k hall.2]

/-- positional binding: with `k` leading positional-or-keyword parameters the first `k` names are bound -/
theorem boundPositionally_eq {k : Nat} {c : Callable} (h : posOK k c = true) :
    boundPositionally k c = names (c.params.take k) := by
  simp only [posOK, Bool.and_eq_true, decide_eq_true_eq] at h
  unfold boundPositionally
  rw [filter_take_posOrKw _ _ h.2]

theorem posOK_le {k : Nat} {c : Callable} (h : posOK k c = true) : k ≤ c.params.length := by
  simp only [posOK, Bool.and_eq_true, decide_eq_true_eq] at h
  exact h.1

/-- dropping the first `k` own parameters = "is a name of `R`, and not bound positionally" -/
theorem mem_names_drop {own ext : List Param} {k : Nat} {n : String}
    (hnd : (names own).Nodup) (hk : k ≤ own.length) (hext : ∀ p ∈ ext, p.name ∉ names own) :
    n ∈ names ((own ++ ext).drop k) ↔ n ∈ names (own ++ ext) ∧ n ∉ names (own.take k) := by
  have hdrop : (own ++ ext).drop k = own.drop k ++ ext := by
    rw [List.drop_append_of_le_length hk]
  rw [hdrop, names_append, names_append]
  have hsplit : names own = names (own.take k) ++ names (own.drop k) := by
    rw [← names_append, List.take_append_drop]
  have hdisj : ∀ x, x ∈ names (own.take k) → x ∈ names (own.drop k) → False := by
    rw [hsplit] at hnd
    intro x h1 h2
    exact (List.nodup_append.1 hnd).2.2 x h1 x h2 rfl
  simp only [List.mem_append]
  constructor
  · rintro (h | h)
    · refine ⟨Or.inl (by rw [hsplit]; exact List.mem_append_right _ h), fun ht => hdisj n ht h⟩
    · refine ⟨Or.inr h, fun ht => ?_⟩
      obtain ⟨p, hp, rfl⟩ := mem_names.1 h
      exact hext p hp (by rw [hsplit]; exact List.mem_append_left _ ht)
  · rintro ⟨h | h, hnt⟩
    · rw [hsplit, List.mem_append] at h
      rcases h with h | h
      · exact absurd h hnt
      · exact Or.inl h
    · exact Or.inr h

/-- the resolver's half on a straight-line body: own parameters, pops (statements and those nested in the
    call's argument list), and what the one forwarding call keeps of its callee's parameters `R'`
    (`[]` when nothing is found behind the call) -/
theorem resolve_side {rec : Frame → Out} {P : Prog} {wh : Where}
    {c : Callable} {ps ns : List (String × DVal)} {f : Use}
    (hv : c.varkw = true) (hsl : splitSL (liveUses c.uses) = some (ps, f, ns))
    (hpg : ∀ x ∈ ps ++ ns, x.1 ∉ f.given)
    {R : List Param} (hR : resolveCallable rec P wh c = .ok R) :
    ∃ R', ((subFrame P wh f = none ∧ R' = []) ∨ ∃ fr, subFrame P wh f = some fr ∧ rec fr = .ok R') ∧
      ∀ n, n ∈ names R ↔
        n ∈ names c.params ∨ (∃ x ∈ ps ++ ns, x.1 = n) ∨ (n ∈ names (R'.drop f.givenPos) ∧ n ∉ f.given) := by
  obtain ⟨hus, hfw⟩ := splitSL_spec hsl
  unfold resolveCallable at hR
  simp only [hv, Bool.not_true, Bool.false_eq_true, ↓reduceIte] at hR
  rw [hus, collect_pops, collect_forward hfw] at hR
  simp only [List.nil_append] at hR
  -- the callee's list
  have hcal : ∃ R', ((subFrame P wh f = none ∧ R' = []) ∨ ∃ fr, subFrame P wh f = some fr ∧ rec fr = .ok R') ∧
      ∃ g, group (withNested (addForward ⟨List.map popList ps, []⟩ f.givenPos f.given R' (updRemoved f)) ns).lists = .ok g ∧
        R = c.params ++ ((g.filter (fun p => decide (p.name ∉ (addForward ⟨List.map popList ps, []⟩ f.givenPos f.given R' (updRemoved f)).removed))).filter
          (fun p => decide (p.name ∉ names c.params))) := by
    cases hsr : subFrame P wh f with
    | none =>
      rw [hsr] at hR
      simp only at hR
      refine ⟨[], Or.inl ⟨rfl, rfl⟩, ?_⟩
      cases hg : group (withNested (addForward ⟨List.map popList ps, []⟩ f.givenPos f.given [] (updRemoved f)) ns).lists with
      | crash => simp [hg] at hR
      | nofuel => simp [hg] at hR
      | ok g =>
        simp only [hg, Out.ok.injEq] at hR
        exact ⟨g, rfl, hR.symm⟩
    | some fr =>
      rw [hsr] at hR
      simp only at hR
      cases hrr : rec fr with
      | crash => simp [hrr] at hR
      | nofuel => simp [hrr] at hR
      | ok R' =>
        simp only [hrr] at hR
        refine ⟨R', Or.inr ⟨fr, rfl, hrr⟩, ?_⟩
        cases hg : group (withNested (addForward ⟨List.map popList ps, []⟩ f.givenPos f.given R' (updRemoved f)) ns).lists with
        | crash => simp [hg] at hR
        | nofuel => simp [hg] at hR
        | ok g =>
          simp only [hg, Out.ok.injEq] at hR
          exact ⟨g, rfl, hR.symm⟩
  obtain ⟨R', hsub, g, hg, hReq⟩ := hcal
  refine ⟨R', hsub, ?_⟩
  intro n
  have hgn := group_names hg n
  have hlists : (∃ l ∈ (withNested (addForward ⟨List.map popList ps, []⟩ f.givenPos f.given R' (updRemoved f)) ns).lists, n ∈ names l.2) ↔
      (∃ x ∈ ps ++ ns, x.1 = n) ∨ n ∈ names (removeGiven f.givenPos f.given R') := by
    have hsplit : (∃ x ∈ ps ++ ns, x.1 = n) ↔ (∃ x ∈ ps, x.1 = n) ∨ (∃ x ∈ ns, x.1 = n) := by
      constructor
      · rintro ⟨x, hx, h⟩
        rcases List.mem_append.1 hx with hx | hx
        · exact Or.inl ⟨x, hx, h⟩
        · exact Or.inr ⟨x, hx, h⟩
      · rintro (⟨x, hx, h⟩ | ⟨x, hx, h⟩)
        · exact ⟨x, List.mem_append_left _ hx, h⟩
        · exact ⟨x, List.mem_append_right _ hx, h⟩
    rw [hsplit]
    simp only [withNested, addForward]
    constructor
    · rintro ⟨l, hl, hn⟩
      rcases List.mem_append.1 hl with hl | hl
      · by_cases hke : (removeGiven f.givenPos f.given R').isEmpty = true
        · simp only [hke, ↓reduceIte] at hl
          exact Or.inl (Or.inl (names_popLists.1 ⟨l, hl, hn⟩))
        · simp only [hke, Bool.false_eq_true, ↓reduceIte] at hl
          rcases List.mem_append.1 hl with hl | hl
          · exact Or.inl (Or.inl (names_popLists.1 ⟨l, hl, hn⟩))
          · simp only [List.mem_singleton] at hl
            subst hl
            exact Or.inr hn
      · exact Or.inl (Or.inr (names_popLists.1 ⟨l, hl, hn⟩))
    · rintro ((h | h) | h)
      · obtain ⟨l, hl, hn⟩ := names_popLists.2 h
        refine ⟨l, List.mem_append_left _ ?_, hn⟩
        split
        · exact hl
        · exact List.mem_append_left _ hl
      · obtain ⟨l, hl, hn⟩ := names_popLists.2 h
        exact ⟨l, List.mem_append_right _ hl, hn⟩
      · have hne : (removeGiven f.givenPos f.given R').isEmpty = false := by
          cases hh : removeGiven f.givenPos f.given R' with
          | nil => rw [hh] at h; simp [names] at h
          | cons a b => rfl
        refine ⟨(false, removeGiven f.givenPos f.given R'), List.mem_append_left _ ?_, h⟩
        simp [hne]
  rw [hlists] at hgn
  have hkept : n ∈ names (removeGiven f.givenPos f.given R') ↔ n ∈ names (R'.drop f.givenPos) ∧ n ∉ f.given := by
    unfold removeGiven
    rw [mem_names_filter_notin]
  have hrem : n ∈ (addForward ⟨List.map popList ps, []⟩ f.givenPos f.given R' (updRemoved f)).removed →
      n ∈ names R' ∧ n ∈ f.given := by
    simp only [addForward]
    split <;> simp [List.mem_filter]
  rw [hReq, names_append, List.mem_append, mem_names_filter_notin, mem_names_filter_notin, hgn, hkept]
  constructor
  · rintro (h | ⟨⟨h, _⟩, _⟩)
    · exact Or.inl h
    · exact Or.inr h
  · rintro (h | h | h)
    · exact Or.inl h
    · by_cases hown : n ∈ names c.params
      · exact Or.inl hown
      · obtain ⟨x, hx, hxn⟩ := h
        refine Or.inr ⟨⟨Or.inl ⟨x, hx, hxn⟩, ?_⟩, hown⟩
        intro hr
        exact hpg x hx (hxn ▸ (hrem hr).2)
    · by_cases hown : n ∈ names c.params
      · exact Or.inl hown
      · exact Or.inr ⟨⟨Or.inr h, fun hh => h.2 (hrem hh).2⟩, hown⟩

/-- the interpreter's half on a straight-line body: the pops nested in the argument list are evaluated
    before the call binds, so they count like the pop statements before it -/
theorem accept_side {rec : Frame → String → Bool} {P : Prog} {wh : Where}
    {c : Callable} {ps ns : List (String × DVal)} {f : Use} {n : String}
    (hv : c.varkw = true) (hnb : noBranch c.uses = true)
    (hsl : splitSL (liveUses c.uses) = some (ps, f, ns)) :
    runCallable rec P wh c n =
      (if n ∈ names c.params then true
       else if (ps ++ ns).any (fun x => x.1 == n) then true
       else forwardOK rec P wh n f f.givenPos f.given) := by
  obtain ⟨hus, hfw⟩ := splitSL_spec hsl
  unfold runCallable
  rw [branchIds_noBranch hnb, execUses_noBranch hnb, hus, runUses_pops, runUses_forward hfw]
  simp only [hv, Bool.not_true, Bool.false_eq_true, ↓reduceIte, Bool.true_and, List.any_append]
  split
  · rfl
  · cases ps.any (fun x => x.1 == n) <;> cases ns.any (fun x => x.1 == n) <;> simp

/-- what the callee contributes on both sides of the iff -/
def CalleeMatch (rec_r : Frame → Out) (rec_a : Frame → String → Bool) (P : Prog) (wh_r wh_a : Where)
    (f : Use) (n : String) : Prop :=
  (subFrame P wh_r f = none ∧ callee P wh_a f = none) ∨
  (∃ fr, subFrame P wh_r f = some fr ∧ callee P wh_a f = none ∧ ∀ R', rec_r fr = .ok R' → R' = []) ∨
  ∃ fr c', subFrame P wh_r f = some fr ∧ callee P wh_a f = some (fr, c') ∧
    (names c'.params).Nodup ∧ posOK f.givenPos c' = true ∧
    ∀ R', rec_r fr = .ok R' →
      (n ∈ names R' ↔ rec_a fr n = true) ∧ ∃ ext, R' = c'.params ++ ext ∧ ∀ p ∈ ext, p.name ∉ names c'.params

/-- one straight-line callable: offered ⇔ accepted, given the same for the callee of its forwarding call -/
theorem callable_exact {rec_r : Frame → Out} {rec_a : Frame → String → Bool} {P : Prog} {wh_r wh_a : Where}
    {c : Callable} {ps ns : List (String × DVal)} {f : Use} {n : String}
    (hv : c.varkw = true) (hnb : noBranch c.uses = true)
    (hsl : splitSL (liveUses c.uses) = some (ps, f, ns))
    (hpg : ∀ x ∈ ps ++ ns, x.1 ∉ f.given)
    (hm : CalleeMatch rec_r rec_a P wh_r wh_a f n)
    {R : List Param} (hR : resolveCallable rec_r P wh_r c = .ok R) :
    n ∈ names R ↔ runCallable rec_a P wh_a c n = true := by
  obtain ⟨R', hsub, hnames⟩ := resolve_side hv hsl hpg hR
  rw [accept_side hv hnb hsl, hnames n]
  by_cases hown : n ∈ names c.params
  · simp [hown]
  · by_cases hp : (ps ++ ns).any (fun x => x.1 == n) = true
    · simp only [hown, hp, ↓reduceIte, false_or, iff_true]
      exact Or.inl (any_fst_eq.1 hp)
    · have hp' : ¬ ∃ x ∈ ps ++ ns, x.1 = n := fun h => hp (any_fst_eq.2 h)
      simp only [hown, hp, hp', false_or, Bool.false_eq_true, ↓reduceIte]
      have hempty : R' = [] → callee P wh_a f = none →
          (n ∈ names (List.drop f.givenPos R') ∧ n ∉ f.given ↔ forwardOK rec_a P wh_a n f f.givenPos f.given = true) := by
        intro h1 h2
        subst h1
        have : forwardOK rec_a P wh_a n f f.givenPos f.given = false := by
          unfold forwardOK
          rw [h2]
          split <;> rfl
        simp [this, names]
      rcases hm with ⟨hsr, hsa⟩ | ⟨fr, hsr, hsa, hnil⟩ | ⟨fr, c', hsr, hsa, hnd, hpos, hrec⟩
      · rcases hsub with ⟨_, h1⟩ | ⟨fr, h1, _⟩
        · exact hempty h1 hsa
        · rw [hsr] at h1; cases h1
      · rcases hsub with ⟨h1, _⟩ | ⟨fr', h1, h2⟩
        · rw [hsr] at h1; cases h1
        · rw [hsr] at h1
          simp only [Option.some.injEq] at h1
          subst h1
          exact hempty (hnil R' h2) hsa
      · rcases hsub with ⟨h1, _⟩ | ⟨fr', h1, h2⟩
        · rw [hsr] at h1; cases h1
        · rw [hsr] at h1
          simp only [Option.some.injEq] at h1
          subst h1
          obtain ⟨hiff, ext, hR', hext⟩ := hrec R' h2
          have hfo : forwardOK rec_a P wh_a n f f.givenPos f.given =
              (if n ∈ f.given then false else if n ∈ names (c'.params.take f.givenPos) then false else rec_a fr n) := by
            unfold forwardOK
            rw [hsa]
            simp only [boundPositionally_eq hpos]
          rw [hfo, hR', mem_names_drop hnd (posOK_le hpos) hext, ← hR']
          by_cases hgv : n ∈ f.given
          · simp [hgv]
          · by_cases hbp : n ∈ names (c'.params.take f.givenPos)
            · simp [hgv, hbp]
            · simp [hgv, hbp, hiff]

end Jap.Resolver

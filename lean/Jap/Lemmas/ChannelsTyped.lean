import Jap.Core.ChannelsTyped
/-!
Lemmas for the typed part of the Channels model (C05):
* `adapt_orig`: `orig_val` is irrelevant for a type without a `str` reachable from the top;
* `adapt_text`: at such a type, the option's text is adapted like the value both loaders read it as
  (a container value: the text itself is rejected).
-/
namespace Jap.Channels.Typed
open Jap.Channels

theorem noStrTop_isStr {t : Ty} (h : noStrTop t = true) : t.isStr = false := by
  cases t <;> simp_all [noStrTop, Ty.isStr]

theorem noStrTopAll_any : (ts : List Ty) → noStrTopAll ts = true → ts.any Ty.isStr = false
  | [], _ => rfl
  | t :: r, h => by
    simp only [noStrTopAll, Bool.and_eq_true] at h
    simp [List.any_cons, noStrTop_isStr h.1, noStrTopAll_any r h.2]

mutual
theorem adapt_orig (Y : String → PV) (o : Option String) :
    (t : Ty) → (x : PV) → noStrTop t = true → adapt Y o t x = adapt Y Option.none t x
  | .int, x, _ => by simp only [adapt]
  | .float, x, _ => by simp only [adapt]
  | .bool, x, _ => by simp only [adapt]
  | .none, x, _ => by simp only [adapt]
  | .str, x, h => by simp [noStrTop] at h
  | .enum _, x, _ => by simp only [adapt]
  | .list _, x, _ => by simp only [adapt, itemOrig, Jap.Gen.ChannelSrc.origResetList, if_true]
  | .dict _, x, _ => by simp only [adapt, itemOrig, Jap.Gen.ChannelSrc.origResetDict, if_true]
  | .tupleVar _, x, _ => by simp only [adapt, itemOrig, Jap.Gen.ChannelSrc.origResetTupleSet, if_true]
  | .tuple _, x, _ => by simp only [adapt, itemOrig, Jap.Gen.ChannelSrc.origResetTupleSet, if_true]
  | .union ts, x, h => by
    have hts : noStrTopAll ts = true := by simpa [noStrTop] using h
    simp only [adapt, tryM_orig Y o _ ts x hts, noStrTopAll_any ts hts, Bool.false_and]
    simp
  | .tdict names ts, x, h => by
    by_cases hf : Jap.Gen.ChannelSrc.origResetTypedDict = true
    · simp only [adapt, itemOrig, hf, if_true]
    · have hts : noStrTopAll ts = true := by simpa [noStrTop, hf] using h
      have e : (fun kv : String × PV => adaptField Y (itemOrig Jap.Gen.ChannelSrc.origResetTypedDict o) names ts kv.1 kv.2)
          = (fun kv : String × PV => adaptField Y (itemOrig Jap.Gen.ChannelSrc.origResetTypedDict Option.none) names ts kv.1 kv.2) := by
        funext kv
        simp only [itemOrig, hf, if_false, Bool.false_eq_true]
        exact adaptField_orig Y o names ts kv.1 kv.2 hts
      simp only [adapt, e]
theorem tryM_orig (Y : String → PV) (o : Option String) (p : Ty → Bool) :
    (ts : List Ty) → (x : PV) → noStrTopAll ts = true → tryM Y o p ts x = tryM Y Option.none p ts x
  | [], x, _ => by simp only [tryM]
  | t :: r, x, h => by
    simp only [noStrTopAll, Bool.and_eq_true] at h
    simp only [tryM, adapt_orig Y o t x h.1, tryM_orig Y o p r x h.2]
theorem adaptField_orig (Y : String → PV) (o : Option String) :
    (names : List String) → (ts : List Ty) → (k : String) → (x : PV) → noStrTopAll ts = true →
      adaptField Y o names ts k x = adaptField Y Option.none names ts k x
  | [], [], _, _, _ => by simp only [adaptField]
  | [], _ :: _, _, _, _ => by simp only [adaptField]
  | _ :: _, [], _, _, _ => by simp only [adaptField]
  | n :: ns, t :: r, k, x, h => by
    simp only [noStrTopAll, Bool.and_eq_true] at h
    simp only [adaptField, adapt_orig Y o t x h.1, adaptField_orig Y o ns r k x h.2]
end

/-! ## the option's text at a type without `str` at the top -/

def scalarLike : PV → Bool
  | .none => true
  | .bool _ => true
  | .int _ => true
  | .num _ => true
  | .fint _ => true
  | _ => false

theorem leafVal_nonstr (Y : String → PV) {v : PV} (h : v.isStr = false) : leafVal Y v = v := by
  cases v <;> simp_all [leafVal, PV.isStr]

theorem leafVal_text (Y : String → PV) {s : String} {v : PV} (hs : strip s.toList ≠ []) (hY : Y s = v) :
    leafVal Y (.str s) = v := by
  simp [leafVal, yload, hs, hY]

/-- a list / dict / TypedDict position rejects every scalar -/
theorem seqmap_rejects (Y : String → PV) (o : Option String) {t : Ty} {v : PV} (ht : t.isSeqOrMap = true) (hv : scalarLike v = true) :
    adapt Y o t v = Option.none := by
  cases t <;> simp [Ty.isSeqOrMap] at ht <;> cases v <;> simp [scalarLike] at hv <;> simp only [adapt]

theorem tryM_none_of (Y : String → PV) (o : Option String) (p : Ty → Bool) (v : PV) :
    (ts : List Ty) → (∀ t ∈ ts, p t = true → adapt Y o t v = Option.none) → tryM Y o p ts v = Option.none
  | [], _ => by simp only [tryM]
  | t :: r, h => by
    have ih := tryM_none_of Y o p v r (fun t' ht' => h t' (List.mem_cons_of_mem _ ht'))
    by_cases hp : p t = true
    · simp only [tryM, hp, if_true, h t (List.mem_cons_self ..) hp, ih]
    · simp only [tryM, hp, ih]; simp

theorem tryM_skip (Y : String → PV) (o : Option String) (p q : Ty → Bool) (v : PV) :
    (ts : List Ty) → (∀ t ∈ ts, q t = true → adapt Y o t v = Option.none) →
      tryM Y o p ts v = tryM Y o (fun t => p t && !q t) ts v
  | [], _ => by simp only [tryM]
  | t :: r, h => by
    have ih := tryM_skip Y o p q v r (fun t' ht' => h t' (List.mem_cons_of_mem _ ht'))
    by_cases hp : p t = true <;> by_cases hq : q t = true
    · simp [tryM, hp, hq, h t (List.mem_cons_self ..) hq, ih]
    · simp [tryM, hp, hq, ih]
    · simp [tryM, hp, hq, ih]
    · simp [tryM, hp, hq, ih]

section text
variable (Y : String → PV) (s : String) (v : PV)

mutual
theorem adapt_text (hs : strip s.toList ≠ []) (hY : Y s = v) (hv : v.isStr = false) :
    (t : Ty) → noStrTop t = true → noEnumName s t = true →
      adapt Y Option.none t (.str s) = if isContainerVal v then Option.none else adapt Y Option.none t v
  | .int, _, _ => by
    simp only [adapt, leafVal_text Y hs hY, leafVal_nonstr Y hv]; cases v <;> simp [isContainerVal]
  | .float, _, _ => by
    simp only [adapt, leafVal_text Y hs hY, leafVal_nonstr Y hv]; cases v <;> simp [isContainerVal]
  | .bool, _, _ => by
    simp only [adapt, leafVal_text Y hs hY, leafVal_nonstr Y hv]; cases v <;> simp [isContainerVal]
  | .none, _, _ => by
    simp only [adapt, leafVal_text Y hs hY, leafVal_nonstr Y hv]; cases v <;> simp [isContainerVal]
  | .str, h, _ => by simp [noStrTop] at h
  | .enum names, _, he => by
    have : names.contains s = false := by simpa [noEnumName] using he
    cases v <;> simp_all [adapt, isContainerVal, PV.isStr]
  | .list _, _, _ => by cases v <;> simp_all [adapt, isContainerVal, PV.isStr]
  | .dict _, _, _ => by cases v <;> simp_all [adapt, isContainerVal, PV.isStr]
  | .tupleVar _, _, _ => by cases v <;> simp_all [adapt, isContainerVal, PV.isStr]
  | .tuple _, _, _ => by cases v <;> simp_all [adapt, isContainerVal, PV.isStr]
  | .tdict _ _, _, _ => by cases v <;> simp_all [adapt, isContainerVal, PV.isStr]
  | .union ts, h, he => by
    have hts : noStrTopAll ts = true := by simpa [noStrTop] using h
    have hes : noEnumNameAll s ts = true := by simpa [noEnumName] using he
    have hany := noStrTopAll_any ts hts
    have hT := fun p => tryM_text hs hY hv p ts hts hes
    by_cases hc : isContainerVal v = true
    · simp only [adapt, hT, hc, if_true, hany, Bool.false_and]; simp
    · have hsc : scalarLike v = true := by cases v <;> simp_all [isContainerVal, scalarLike, PV.isStr]
      have hrej : ∀ t ∈ ts, t.isSeqOrMap = true → adapt Y Option.none t v = Option.none :=
        fun t _ ht => seqmap_rejects Y Option.none ht hsc
      have h1 : tryM Y Option.none (fun t => !t.isNone && t.isSeqOrMap) ts v = Option.none :=
        tryM_none_of Y Option.none _ v ts (fun t ht hp => hrej t ht (by simp at hp; exact hp.2))
      have h2 := tryM_skip Y Option.none (fun t => !t.isNone) (fun t => t.isSeqOrMap) v ts hrej
      simp only [adapt, hT, hc, hany, Bool.false_and, h1]
      cases v <;> simp_all [scalarLike]
theorem tryM_text (hs : strip s.toList ≠ []) (hY : Y s = v) (hv : v.isStr = false) (p : Ty → Bool) :
    (ts : List Ty) → noStrTopAll ts = true → noEnumNameAll s ts = true →
      tryM Y Option.none p ts (.str s) = if isContainerVal v then Option.none else tryM Y Option.none p ts v
  | [], _, _ => by simp [tryM]
  | t :: r, h, he => by
    simp only [noStrTopAll, Bool.and_eq_true] at h
    simp only [noEnumNameAll, Bool.and_eq_true] at he
    have e1 := adapt_text hs hY hv t h.1 he.1
    have e2 := tryM_text hs hY hv p r h.2 he.2
    by_cases hc : isContainerVal v = true
    · simp only [hc, if_true] at e1 e2 ⊢
      simp only [tryM, e1, e2]; simp
    · simp only [hc] at e1 e2 ⊢
      simp only [tryM, e1, e2]; simp
end
end text

/-! ## `_check_type`: text channel vs value channel -/

theorem optMatchId {α : Type} (x : Option α) : (match x with | some r => some r | Option.none => Option.none) = x := by
  cases x <;> rfl

theorem isValidString_noStr {t : Ty} (x : PV) (h : noStrTop t = true) : isValidString t x = false := by
  cases t with
  | union ts => simp [isValidString, Ty.isStr, noStrTopAll_any ts (by simpa [noStrTop] using h)]
  | str => simp [noStrTop] at h
  | _ => simp [isValidString, Ty.isStr]

theorem checkType_value (L Y : String → PV) (t : Ty) (v : PV) (hv : v.isStr = false) (ht : noStrTop t = true) :
    checkType L Y t v = adapt Y Option.none t v := by
  cases v <;> simp_all [PV.isStr, checkType, parseValue, origOf, isValidString_noStr _ ht] <;> (split <;> simp_all)

theorem typed_channels (L Y : String → PV) (t : Ty) (s : String) (v : PV)
    (ht : noStrTop t = true) (he : noEnumName s t = true) (hv : jsonTop v = true)
    (hs1 : strip s.toList ≠ []) (hs2 : strip s.toList ≠ ['-']) (hL : L s = v) (hY : Y s = v) :
    viaText L Y t s = viaValue L Y t v := by
  have hvs : v.isStr = false := by cases v <;> simp_all [jsonTop, PV.isStr]
  have e3 := adapt_text Y s v hs1 hY hvs t ht he
  have e1 := fun x => adapt_orig Y (some s) t x ht
  simp only [viaText, viaValue, checkType_value L Y t v hvs ht]
  simp only [checkType, origOf, parseValue, loadValue, hs1, hs2, hL, if_false, e1, e3, isValidString_noStr _ ht]
  cases v <;> simp [jsonTop] at hv <;>
    simp only [isContainerVal, if_true, if_false, Bool.false_eq_true] at e3 <;> simp only [e3] <;>
    (generalize adapt Y Option.none t _ = a; cases a <;> rfl)

/-- `parse_value_or_config` of a string returns the string itself or something that is not a string -/
theorem parseValue_str (L : String → PV) (s : String) :
    parseValue L (.str s) = .str s ∨ (parseValue L (.str s)).isStr = false := by
  simp only [parseValue]
  by_cases h : strip s.toList = []
  · simp [h]
  · simp only [h, if_false]
    cases loadValue L s <;> simp [PV.isStr]

/-- `parse_value_or_config` of a string: the string itself, None, a list or a dict -/
theorem parseValue_cases (L : String → PV) (s : String) :
    parseValue L (.str s) = .str s ∨ parseValue L (.str s) = .none
    ∨ (∃ xs, parseValue L (.str s) = .list xs) ∨ (∃ kvs, parseValue L (.str s) = .dict kvs) := by
  simp only [parseValue]
  by_cases h : strip s.toList = []
  · simp [h]
  · simp only [h, if_false, loadValue]
    by_cases h2 : strip s.toList = ['-']
    · simp [h2]
    · simp only [h2, if_false]
      cases L s <;> simp

def optStrTy : Ty := .union [.str, .none]

theorem optional_str_position (L Y : String → PV) (s : String)
    (hY : yload Y s ≠ .none) (hL : parseValue L (.str s) ≠ .none) :
    checkType L Y optStrTy (.str s) = some (.str s) := by
  rcases parseValue_cases L s with h | h | ⟨xs, h⟩ | ⟨kvs, h⟩
  · simp only [checkType, h, optStrTy, adapt, tryM, Ty.isNone, Ty.isSeqOrMap, origOf, leafVal]
    cases h' : yload Y s <;> simp_all
  · exact absurd h hL
  · simp [checkType, h, optStrTy, adapt, tryM, Ty.isNone, origOf, leafVal, Ty.isStr, PV.isStr]
  · simp [checkType, h, optStrTy, adapt, tryM, Ty.isNone, origOf, leafVal, Ty.isStr, PV.isStr]

end Jap.Channels.Typed

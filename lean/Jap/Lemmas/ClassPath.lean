import Jap.Core.ClassPath
/-!
Helper lemmas for C14 (model `Jap.ClassPath`): validity of init args with respect to a parameter list, its
preservation by `setKV` / `mergeArgs` / `keepArgs`, error propagation of `mergeArgs` and `finalizeArgsWith`,
and the log discipline of `inst` / `instArgs`.
-/
namespace Jap.ClassPath

/-! ### what "valid for that very class" means -/

/-- a stored value fits a parameter type: scalar parameters hold a literal the declared type accepts (`coerceScalar`:
    the declared type itself, or an int for a float) (class-typed parameters hold the result of the recursive
    adaptation; nothing more is claimed here) -/
def fits : PTy → Val → Prop
  | .scalar t, v => (coerceScalar t v).isSome = true
  | .optScalar t, v => isNone v = true ∨ (coerceScalar t v).isSome = true
  | .cls _, _ => True
  | .optCls _, _ => True

/-- every init arg is a parameter of `params` and fits its type -/
def ArgsValid (params : List IParam) (ia : KV) : Prop :=
  ∀ e ∈ ia, ∃ p, findParam params e.1 = some p ∧ fits p.ty e.2

theorem argsValid_nil (params : List IParam) : ArgsValid params [] := by
  intro e he; cases he

theorem coerceScalar_idem (t : String) (v y : Val) (h : coerceScalar t v = some y) : coerceScalar t y = some y := by
  cases v with
  | lit t' tok =>
    simp only [coerceScalar] at h
    split at h
    · rename_i ht
      cases h
      simp [coerceScalar, ht]
    · split at h
      · rename_i hf
        cases h
        have : t = "float" := by
          simp only [Bool.and_eq_true, beq_iff_eq] at hf
          exact hf.1
        subst this
        simp [coerceScalar]
      · cases h
  | spec _ _ _ => simp [coerceScalar] at h
  | bare _ => simp [coerceScalar] at h
  | nested _ _ => simp [coerceScalar] at h

theorem fits_of_adaptValue (rec : String → Option Val → Val → Except Err Val) (ty : PTy) (prev : Option Val)
    (v y : Val) (h : adaptValueWith rec ty prev v = .ok y) : fits ty y := by
  cases ty with
  | scalar t =>
    unfold adaptValueWith at h
    simp only at h
    split at h
    · rename_i y' hy
      cases h
      simp [fits, coerceScalar_idem t v y hy]
    · cases h
  | optScalar t =>
    unfold adaptValueWith at h
    simp only at h
    split at h
    · rename_i hn
      cases h
      exact Or.inl hn
    · split at h
      · rename_i y' hy
        cases h
        exact Or.inr (by simp [coerceScalar_idem t v y hy])
      · cases h
  | cls b => trivial
  | optCls b => trivial

theorem mem_setKV (k : String) (v : Val) : ∀ (kv : KV) (e : String × Val), e ∈ setKV k v kv → e = (k, v) ∨ e ∈ kv
  | [], e, h => by
    simp only [setKV, List.mem_singleton] at h
    exact Or.inl h
  | (k', v') :: r, e, h => by
    simp only [setKV] at h
    split at h
    · rename_i hk
      rcases List.mem_cons.mp h with h | h
      · left; rw [h, hk]
      · right; exact List.mem_cons_of_mem _ h
    · rcases List.mem_cons.mp h with h | h
      · right; rw [h]; exact List.mem_cons_self
      · rcases mem_setKV k v r e h with h | h
        · left; exact h
        · right; exact List.mem_cons_of_mem _ h

theorem argsValid_setKV (params : List IParam) (k : String) (v : Val) (kv : KV) (p : IParam)
    (hp : findParam params k = some p) (hf : fits p.ty v) (h : ArgsValid params kv) :
    ArgsValid params (setKV k v kv) := by
  intro e he
  rcases mem_setKV k v kv e he with rfl | he
  · exact ⟨p, hp, hf⟩
  · exact h e he

/-- `parse_object(init_args, cfg_base=prev_init_args)` keeps validity -/
theorem mergeArgs_valid (rec : String → Option Val → Val → Except Err Val) (params : List IParam) :
    ∀ (new acc ia : KV), ArgsValid params acc → mergeArgs rec params new acc = .ok ia → ArgsValid params ia
  | [], acc, ia, hv, h => by
    simp only [mergeArgs] at h
    cases h
    exact hv
  | (k, x) :: r, acc, ia, hv, h => by
    simp only [mergeArgs] at h
    split at h
    · cases h
    · rename_i p hp
      split at h
      · cases h
      · rename_i y hy
        exact mergeArgs_valid rec params r _ ia
          (argsValid_setKV params k y acc p hp (fits_of_adaptValue rec p.ty _ x y hy) hv) h

/-- `discard_init_args_on_class_path_change`: what survives is valid for the NEW class -/
theorem keepArgs_valid (rec : String → Option Val → Val → Except Err Val) (params : List IParam) (pia : KV) :
    ArgsValid params (keepArgs rec params pia) := by
  intro e' he'
  simp only [keepArgs, List.mem_filterMap] at he'
  obtain ⟨e, _, hk⟩ := he'
  split at hk
  · cases hk
  · rename_i p hp
    split at hk
    · cases hk
    · rename_i y hy
      have hf := fits_of_adaptValue rec p.ty none e.2 y hy
      cases hty : p.ty with
      | scalar t =>
        simp only [hty] at hk
        cases hk
        exact ⟨p, hp, hty ▸ hf⟩
      | optScalar t =>
        simp only [hty] at hk
        cases hk
        exact ⟨p, hp, hty ▸ hf⟩
      | cls b =>
        simp only [hty] at hk
        cases hk
        exact ⟨p, hp, by rw [hty]; trivial⟩
      | optCls b =>
        simp only [hty] at hk
        cases hk
        exact ⟨p, hp, by rw [hty]; trivial⟩

/-- every survivor comes from a previous init arg that the new class has a parameter for and accepts -/
theorem keepArgs_origin (rec : String → Option Val → Val → Except Err Val) (params : List IParam) (pia : KV) :
    ∀ e' ∈ keepArgs rec params pia, ∃ e ∈ pia, e'.1 = e.1 ∧
      ∃ p, findParam params e.1 = some p ∧ isOk (adaptValueWith rec p.ty none e.2) = true := by
  intro e' he'
  simp only [keepArgs, List.mem_filterMap] at he'
  obtain ⟨e, hmem, hk⟩ := he'
  refine ⟨e, hmem, ?_⟩
  split at hk
  · cases hk
  · rename_i p hp
    split at hk
    · cases hk
    · rename_i y hy
      have hkey : e'.1 = e.1 := by
        cases hty : p.ty <;> simp only [hty] at hk <;> cases hk <;> rfl
      exact ⟨hkey, p, hp, by simp [hy, isOk]⟩

theorem keepArgs_append (rec : String → Option Val → Val → Except Err Val) (params : List IParam) (a b : KV) :
    keepArgs rec params (a ++ b) = keepArgs rec params a ++ keepArgs rec params b := by
  simp [keepArgs]

theorem coerceScalar_none_of_isNone (t : String) (v : Val) (ht : t ≠ "NoneType") (h : isNone v = true) :
    coerceScalar t v = none := by
  cases v with
  | lit t' tok =>
    have : t' = "NoneType" := by
      unfold isNone at h
      split at h
      · rename_i heq; cases heq; rfl
      · cases h
    subst this
    have h1 : ("NoneType" == t) = false := by
      simp only [beq_eq_false_iff_ne, ne_eq]
      exact fun e => ht e.symm
    simp [coerceScalar, h1]
  | spec _ _ _ => rfl
  | bare _ => rfl
  | nested _ _ => rfl

/-- a `None` carried over from the previous class is discarded when the NEW class's parameter of that name is a
    non-Optional scalar: the entry contributes nothing to what is kept -/
theorem keepArgs_drops_none (rec : String → Option Val → Val → Except Err Val) (params : List IParam) (rest : KV)
    (e : String × Val) (p : IParam) (t : String) (hp : findParam params e.1 = some p) (hty : p.ty = .scalar t)
    (ht : t ≠ "NoneType") (hn : isNone e.2 = true) :
    keepArgs rec params (e :: rest) = keepArgs rec params rest := by
  simp [keepArgs, hp, hty, adaptValueWith, coerceScalar_none_of_isNone t e.2 ht hn]

/-- an init arg the new class has no parameter for contributes nothing to what is kept -/
theorem keepArgs_drops_unknown (rec : String → Option Val → Val → Except Err Val) (params : List IParam) (rest : KV)
    (e : String × Val) (hp : findParam params e.1 = none) :
    keepArgs rec params (e :: rest) = keepArgs rec params rest := by
  simp [keepArgs, hp]

/-- every key that is not a parameter of THIS class makes the merge fail -/
theorem mergeArgs_unknown (rec : String → Option Val → Val → Except Err Val) (params : List IParam) :
    ∀ (new acc : KV), (∃ e ∈ new, findParam params e.1 = none) → ∃ err, mergeArgs rec params new acc = .error err
  | [], _, ⟨e, he, _⟩ => by cases he
  | (k, x) :: r, acc, ⟨e, he, hn⟩ => by
    simp only [mergeArgs]
    split
    · exact ⟨_, rfl⟩
    · rename_i p hp
      split
      · exact ⟨_, rfl⟩
      · rcases List.mem_cons.mp he with rfl | he'
        · simp only at hn; rw [hn] at hp; cases hp
        · exact mergeArgs_unknown rec params r _ ⟨e, he', hn⟩

/-- a value for a scalar parameter that the declared type does not accept makes the merge fail -/
theorem mergeArgs_illTyped (rec : String → Option Val → Val → Except Err Val) (params : List IParam) :
    ∀ (new acc : KV),
      (∃ e ∈ new, ∃ p t, findParam params e.1 = some p ∧ p.ty = .scalar t ∧ coerceScalar t e.2 = none) →
      ∃ err, mergeArgs rec params new acc = .error err
  | [], _, ⟨e, he, _⟩ => by cases he
  | (k, x) :: r, acc, ⟨e, he, p, t, hp, hty, hbad⟩ => by
    simp only [mergeArgs]
    split
    · exact ⟨_, rfl⟩
    · rename_i p' hp'
      split
      · exact ⟨_, rfl⟩
      · rename_i y hy
        rcases List.mem_cons.mp he with rfl | he'
        · exfalso
          simp only at hp hbad
          rw [hp] at hp'
          cases hp'
          rw [hty] at hy
          simp [adaptValueWith, hbad] at hy
        · exact mergeArgs_illTyped rec params r _ ⟨e, he', p, t, hp, hty, hbad⟩

/-! ### the end of the parse -/

theorem finalizeArgs_keys (rec : Val → Except Err Val) (ia : KV) :
    ∀ (ps : List IParam) (out : KV), finalizeArgsWith rec ia ps = .ok out → out.map (·.1) = ps.map (·.name)
  | [], out, h => by simp only [finalizeArgsWith] at h; cases h; rfl
  | p :: ps, out, h => by
    simp only [finalizeArgsWith] at h
    split at h
    · cases h
    · split at h
      · cases h
      · rename_i rest hr
        cases h
        simp [finalizeArgs_keys rec ia ps rest hr]

theorem finalizeArgs_missing (rec : Val → Except Err Val) (ia : KV) :
    ∀ (ps : List IParam), (∃ p ∈ ps, p.dflt = none ∧ getKV p.name ia = none) →
      ∃ err, finalizeArgsWith rec ia ps = .error err
  | [], ⟨p, hp, _⟩ => by cases hp
  | q :: ps, ⟨p, hp, hd, hg⟩ => by
    simp only [finalizeArgsWith]
    rcases List.mem_cons.mp hp with rfl | hp'
    · simp [hg, hd]
    · split
      · exact ⟨_, rfl⟩
      · obtain ⟨err, he⟩ := finalizeArgs_missing rec ia ps ⟨p, hp', hd, hg⟩
        simp [he]

/-! ### instantiation: the log only grows, one entry per spec, references point backwards -/

mutual
/-- number of constructor calls a stored value asks for -/
def countSpecs : Val → Nat
  | .spec (some _) ia _ => countSpecsKV ia + 1
  | .spec none _ _ => 0
  | .lit _ _ => 0
  | .bare _ => 0
  | .nested _ _ => 0
def countSpecsKV : KV → Nat
  | [] => 0
  | (_, v) :: r => countSpecs v + countSpecsKV r
end

/-- every object reference of entry `j` points to an earlier entry -/
def Backward (log : List Ctor) : Prop :=
  ∀ j (hj : j < log.length), ∀ a ∈ (log[j]).args, ∀ i, a.2 = Arg.obj i → i < j

/-- an argument value refers only to entries that exist -/
def ArgInLog (a : Arg) (n : Nat) : Prop := ∀ i, a = Arg.obj i → i < n

theorem backward_append_one (log : List Ctor) (c : Ctor) (hb : Backward log)
    (hc : ∀ a ∈ c.args, ∀ i, a.2 = Arg.obj i → i < log.length) : Backward (log ++ [c]) := by
  intro j hj a ha i hi
  by_cases hlt : j < log.length
  · have : (log ++ [c])[j] = log[j] := List.getElem_append_left hlt
    rw [this] at ha
    exact hb j hlt a ha i hi
  · have hje : j = log.length := by
      simp only [List.length_append, List.length_singleton] at hj
      omega
    subst hje
    have : (log ++ [c])[log.length] = c := by simp
    rw [this] at ha
    exact hc a ha i hi

mutual
theorem inst_spec : ∀ (v : Val) (log : List Ctor), Backward log →
    ∃ new, (inst v log).1 = log ++ new ∧ new.length = countSpecs v ∧ Backward (inst v log).1
      ∧ ArgInLog (inst v log).2 (inst v log).1.length
  | .spec (some cp) ia dk, log, hb => by
    obtain ⟨new, h1, h2, h3, h4⟩ := instArgs_spec ia log hb
    refine ⟨new ++ [⟨cp, (instArgs ia log).2, dk.map (fun e => (e.1, rawArg e.2))⟩], ?_, ?_, ?_, ?_⟩
    · simp only [inst, h1, List.append_assoc]
    · simp [countSpecs, h2]
    · simp only [inst]
      exact backward_append_one _ _ h3 (fun a ha i hi => h4 a ha i hi)
    · intro i hi
      simp only [inst] at hi ⊢
      cases hi
      simp
  | .lit ty tok, log, hb => ⟨[], by simp [inst], by simp [countSpecs], by simpa [inst] using hb, by intro i hi; simp [inst] at hi⟩
  | .spec none ia dk, log, hb => ⟨[], by simp [inst], by simp [countSpecs], by simpa [inst] using hb, by intro i hi; simp [inst] at hi⟩
  | .bare kvs, log, hb => ⟨[], by simp [inst], by simp [countSpecs], by simpa [inst] using hb, by intro i hi; simp [inst] at hi⟩
  | .nested k v, log, hb => ⟨[], by simp [inst], by simp [countSpecs], by simpa [inst] using hb, by intro i hi; simp [inst] at hi⟩
theorem instArgs_spec : ∀ (ia : KV) (log : List Ctor), Backward log →
    ∃ new, (instArgs ia log).1 = log ++ new ∧ new.length = countSpecsKV ia ∧ Backward (instArgs ia log).1
      ∧ ∀ a ∈ (instArgs ia log).2, ∀ i, a.2 = Arg.obj i → i < (instArgs ia log).1.length
  | [], log, hb => ⟨[], by simp [instArgs], by simp [countSpecsKV], by simpa [instArgs] using hb, by intro a ha; simp [instArgs] at ha⟩
  | (k, v) :: r, log, hb => by
    obtain ⟨n1, a1, a2, a3, a4⟩ := inst_spec v log hb
    obtain ⟨n2, b1, b2, b3, b4⟩ := instArgs_spec r (inst v log).1 a3
    refine ⟨n1 ++ n2, ?_, ?_, ?_, ?_⟩
    · simp only [instArgs]
      rw [b1, a1, List.append_assoc]
    · simp [countSpecsKV, a2, b2]
    · simpa only [instArgs] using b3
    · intro a ha i hi
      simp only [instArgs, List.mem_cons] at ha ⊢
      rcases ha with rfl | ha
      · have := a4 i hi
        rw [b1]
        simp only [List.length_append]
        omega
      · exact b4 a ha i hi
end

mutual
/-- the log only grows -/
theorem inst_grows : ∀ (v : Val) (log : List Ctor), ∃ new, (inst v log).1 = log ++ new
  | .spec (some cp) ia dk, log => by
    obtain ⟨n, h⟩ := instArgs_grows ia log
    exact ⟨n ++ [⟨cp, (instArgs ia log).2, dk.map (fun e => (e.1, rawArg e.2))⟩], by simp only [inst, h, List.append_assoc]⟩
  | .lit _ _, log => ⟨[], by simp [inst]⟩
  | .spec none _ _, log => ⟨[], by simp [inst]⟩
  | .bare _, log => ⟨[], by simp [inst]⟩
  | .nested _ _, log => ⟨[], by simp [inst]⟩
theorem instArgs_grows : ∀ (ia : KV) (log : List Ctor), ∃ new, (instArgs ia log).1 = log ++ new
  | [], log => ⟨[], by simp [instArgs]⟩
  | (k, v) :: r, log => by
    obtain ⟨n1, h1⟩ := inst_grows v log
    obtain ⟨n2, h2⟩ := instArgs_grows r (inst v log).1
    refine ⟨n1 ++ n2, ?_⟩
    simp only [instArgs]
    rw [h2, h1, List.append_assoc]
end

/-- the keys of the constructor call are exactly the init_args keys, in order -/
theorem instArgs_keys : ∀ (ia : KV) (log : List Ctor), (instArgs ia log).2.map (·.1) = ia.map (·.1)
  | [], log => by simp [instArgs]
  | (k, v) :: r, log => by simp [instArgs, instArgs_keys r]

/-! ### short forms -/

/-- `adapt` sees the given value only through `subclass_spec_as_namespace` -/
theorem adapt_congr (E : ClassEnv) (fuel : Nat) (base : String) (prev : Option Val) (raw1 raw2 : Val)
    (h : ∀ pc, asNamespace pc raw1 = asNamespace pc raw2) :
    adapt E fuel base prev raw1 = adapt E fuel base prev raw2 := by
  cases fuel with
  | zero => rfl
  | succ n => simp only [adapt, h]

theorem resolveName_idem (E : ClassEnv) (base cp0 path : String) (hdot : ∀ c ∈ E.classes, isDotted c.path = true)
    (h : resolveName E base cp0 = .ok path) : resolveName E base path = .ok path := by
  unfold resolveName at h
  split at h
  · cases h
    rename_i hd
    simp [resolveName, hd]
  · rename_i hnd
    split at h
    · cases h
      rename_i hc
      simp only [resolveName, hnd, hc]
      rfl
    · rename_i p hc
      cases h
      have hm : path ∈ ((E.classes.filter (fun c => !c.abstract && c.name == cp0 && isSubclass E c.path base)).map (·.path)).eraseDups := by
        rw [hc]; exact List.mem_singleton.mpr rfl
      rw [List.mem_eraseDups] at hm
      obtain ⟨c, hcm, rfl⟩ := List.mem_map.mp hm
      have := hdot c (List.mem_filter.mp hcm).1
      simp [resolveName, this]
    · cases h

end Jap.ClassPath

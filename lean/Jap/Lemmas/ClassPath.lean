import Jap.Core.ClassPath
/-!
Helper lemmas for C14 (model `Jap.ClassPath`): validity of init args with respect to a parameter list, its
preservation by `setKV` / `mergeArgs` / `keepArgs`, error propagation of `mergeArgs` and `finalizeArgsWith`,
and the log discipline of `inst` / `instArgs`.
-/
namespace Jap.ClassPath

/-! ### what "valid for that very class" means -/

/-- a stored value fits a parameter type: scalar parameters hold a literal the declared type accepts (`coerceScalar`:
    the declared type itself, or an int for a float) (class-typed parameters hold the result of the recursive
    adaptation; nothing more is claimed here) -/
def fits : PTy → Val → Prop
  | .scalar t, v => (coerceScalar t v).isSome = true
  | .optScalar t, v => isNone v = true ∨ (coerceScalar t v).isSome = true
  | .cls _, _ => True
  | .optCls _, _ => True
  | .listOf _, _ => True
  | .dictOf _, _ => True

/-- every init arg is a parameter of `params` and fits its type -/
def ArgsValid (params : List IParam) (ia : KV) : Prop :=
  ∀ e ∈ ia, ∃ p, findParam params e.1 = some p ∧ fits p.ty e.2

theorem argsValid_nil (params : List IParam) : ArgsValid params [] := by
  intro e he; cases he

theorem coerceScalar_idem (t : String) (v y : Val) (h : coerceScalar t v = some y) : coerceScalar t y = some y := by
  cases v with
  | lit t' tok =>
    simp only [coerceScalar] at h
    split at h
    · rename_i ht
      cases h
      simp [coerceScalar, ht]
    · split at h
      · rename_i hf
        cases h
        have : t = "float" := by
          simp only [Bool.and_eq_true, beq_iff_eq] at hf
          exact hf.1
        subst this
        simp [coerceScalar]
      · cases h
  | spec _ _ _ => simp [coerceScalar] at h
  | bare _ => simp [coerceScalar] at h
  | nested _ _ => simp [coerceScalar] at h
  | lst _ => simp [coerceScalar] at h
  | dct _ => simp [coerceScalar] at h

theorem fits_of_adaptValue (rec : String → Option Val → Val → Except Err Val) (ty : PTy) (prev : Option Val)
    (v y : Val) (h : adaptValueWith rec ty prev v = .ok y) : fits ty y := by
  cases ty with
  | scalar t =>
    unfold adaptValueWith at h
    simp only at h
    split at h
    · rename_i y' hy
      cases h
      simp [fits, coerceScalar_idem t v y hy]
    · cases h
  | optScalar t =>
    unfold adaptValueWith at h
    simp only at h
    split at h
    · rename_i hn
      cases h
      exact Or.inl hn
    · split at h
      · rename_i y' hy
        cases h
        exact Or.inr (by simp [coerceScalar_idem t v y hy])
      · cases h
  | cls b => trivial
  | optCls b => trivial
  | listOf b => trivial
  | dictOf b => trivial

theorem mem_setKV (k : String) (v : Val) : ∀ (kv : KV) (e : String × Val), e ∈ setKV k v kv → e = (k, v) ∨ e ∈ kv
  | [], e, h => by
    simp only [setKV, List.mem_singleton] at h
    exact Or.inl h
  | (k', v') :: r, e, h => by
    simp only [setKV] at h
    split at h
    · rename_i hk
      rcases List.mem_cons.mp h with h | h
      · left; rw [h, hk]
      · right; exact List.mem_cons_of_mem _ h
    · rcases List.mem_cons.mp h with h | h
      · right; rw [h]; exact List.mem_cons_self
      · rcases mem_setKV k v r e h with h | h
        · left; exact h
        · right; exact List.mem_cons_of_mem _ h

theorem argsValid_setKV (params : List IParam) (k : String) (v : Val) (kv : KV) (p : IParam)
    (hp : findParam params k = some p) (hf : fits p.ty v) (h : ArgsValid params kv) :
    ArgsValid params (setKV k v kv) := by
  intro e he
  rcases mem_setKV k v kv e he with rfl | he
  · exact ⟨p, hp, hf⟩
  · exact h e he

/-- `parse_object(init_args, cfg_base=prev_init_args)` keeps validity -/
theorem mergeArgs_valid (rec : String → Option Val → Val → Except Err Val) (params : List IParam) :
    ∀ (new acc ia : KV), ArgsValid params acc → mergeArgs rec params new acc = .ok ia → ArgsValid params ia
  | [], acc, ia, hv, h => by
    simp only [mergeArgs] at h
    cases h
    exact hv
  | (k, x) :: r, acc, ia, hv, h => by
    simp only [mergeArgs] at h
    split at h
    · cases h
    · rename_i p hp
      split at h
      · cases h
      · rename_i y hy
        exact mergeArgs_valid rec params r _ ia
          (argsValid_setKV params k y acc p hp (fits_of_adaptValue rec p.ty _ x y hy) hv) h

/-- `discard_init_args_on_class_path_change`: what survives is valid for the NEW class -/
theorem keepArgs_valid (rec : String → Option Val → Val → Except Err Val) (params : List IParam) (pia : KV) :
    ArgsValid params (keepArgs rec params pia) := by
  intro e' he'
  simp only [keepArgs, List.mem_filterMap] at he'
  obtain ⟨e, _, hk⟩ := he'
  split at hk
  · cases hk
  · rename_i p hp
    split at hk
    · cases hk
    · rename_i y hy
      have hf := fits_of_adaptValue rec p.ty none e.2 y hy
      cases hty : p.ty with
      | scalar t =>
        simp only [hty] at hk
        cases hk
        exact ⟨p, hp, hty ▸ hf⟩
      | optScalar t =>
        simp only [hty] at hk
        cases hk
        exact ⟨p, hp, hty ▸ hf⟩
      | cls b =>
        simp only [hty] at hk
        cases hk
        exact ⟨p, hp, by rw [hty]; trivial⟩
      | optCls b =>
        simp only [hty] at hk
        cases hk
        exact ⟨p, hp, by rw [hty]; trivial⟩
      | listOf b =>
        simp only [hty] at hk
        cases hk
        exact ⟨p, hp, by rw [hty]; trivial⟩
      | dictOf b =>
        simp only [hty] at hk
        cases hk
        exact ⟨p, hp, by rw [hty]; trivial⟩

/-- every survivor comes from a previous init arg that the new class has a parameter for and accepts -/
theorem keepArgs_origin (rec : String → Option Val → Val → Except Err Val) (params : List IParam) (pia : KV) :
    ∀ e' ∈ keepArgs rec params pia, ∃ e ∈ pia, e'.1 = e.1 ∧
      ∃ p, findParam params e.1 = some p ∧ isOk (adaptValueWith rec p.ty none e.2) = true := by
  intro e' he'
  simp only [keepArgs, List.mem_filterMap] at he'
  obtain ⟨e, hmem, hk⟩ := he'
  refine ⟨e, hmem, ?_⟩
  split at hk
  · cases hk
  · rename_i p hp
    split at hk
    · cases hk
    · rename_i y hy
      have hkey : e'.1 = e.1 := by
        cases hty : p.ty <;> simp only [hty] at hk <;> cases hk <;> rfl
      exact ⟨hkey, p, hp, by simp [hy, isOk]⟩

theorem keepArgs_append (rec : String → Option Val → Val → Except Err Val) (params : List IParam) (a b : KV) :
    keepArgs rec params (a ++ b) = keepArgs rec params a ++ keepArgs rec params b := by
  simp [keepArgs]

theorem coerceScalar_none_of_isNone (t : String) (v : Val) (ht : t ≠ "NoneType") (h : isNone v = true) :
    coerceScalar t v = none := by
  cases v with
  | lit t' tok =>
    have : t' = "NoneType" := by
      unfold isNone at h
      split at h
      · rename_i heq; cases heq; rfl
      · cases h
    subst this
    have h1 : ("NoneType" == t) = false := by
      simp only [beq_eq_false_iff_ne, ne_eq]
      exact fun e => ht e.symm
    simp [coerceScalar, h1]
  | spec _ _ _ => rfl
  | bare _ => rfl
  | nested _ _ => rfl
  | lst _ => rfl
  | dct _ => rfl

/-- a `None` carried over from the previous class is discarded when the NEW class's parameter of that name is a
    non-Optional scalar: the entry contributes nothing to what is kept -/
theorem keepArgs_drops_none (rec : String → Option Val → Val → Except Err Val) (params : List IParam) (rest : KV)
    (e : String × Val) (p : IParam) (t : String) (hp : findParam params e.1 = some p) (hty : p.ty = .scalar t)
    (ht : t ≠ "NoneType") (hn : isNone e.2 = true) :
    keepArgs rec params (e :: rest) = keepArgs rec params rest := by
  simp [keepArgs, hp, hty, adaptValueWith, coerceScalar_none_of_isNone t e.2 ht hn]

/-- an init arg the new class has no parameter for contributes nothing to what is kept -/
theorem keepArgs_drops_unknown (rec : String → Option Val → Val → Except Err Val) (params : List IParam) (rest : KV)
    (e : String × Val) (hp : findParam params e.1 = none) :
    keepArgs rec params (e :: rest) = keepArgs rec params rest := by
  simp [keepArgs, hp]

/-- every key that is not a parameter of THIS class makes the merge fail -/
theorem mergeArgs_unknown (rec : String → Option Val → Val → Except Err Val) (params : List IParam) :
    ∀ (new acc : KV), (∃ e ∈ new, findParam params e.1 = none) → ∃ err, mergeArgs rec params new acc = .error err
  | [], _, ⟨e, he, _⟩ => by cases he
  | (k, x) :: r, acc, ⟨e, he, hn⟩ => by
    simp only [mergeArgs]
    split
    · exact ⟨_, rfl⟩
    · rename_i p hp
      split
      · exact ⟨_, rfl⟩
      · rcases List.mem_cons.mp he with rfl | he'
        · simp only at hn; rw [hn] at hp; cases hp
        · exact mergeArgs_unknown rec params r _ ⟨e, he', hn⟩

/-- a value for a scalar parameter that the declared type does not accept makes the merge fail -/
theorem mergeArgs_illTyped (rec : String → Option Val → Val → Except Err Val) (params : List IParam) :
    ∀ (new acc : KV),
      (∃ e ∈ new, ∃ p t, findParam params e.1 = some p ∧ p.ty = .scalar t ∧ coerceScalar t e.2 = none) →
      ∃ err, mergeArgs rec params new acc = .error err
  | [], _, ⟨e, he, _⟩ => by cases he
  | (k, x) :: r, acc, ⟨e, he, p, t, hp, hty, hbad⟩ => by
    simp only [mergeArgs]
    split
    · exact ⟨_, rfl⟩
    · rename_i p' hp'
      split
      · exact ⟨_, rfl⟩
      · rename_i y hy
        rcases List.mem_cons.mp he with rfl | he'
        · exfalso
          simp only at hp hbad
          rw [hp] at hp'
          cases hp'
          rw [hty] at hy
          simp [adaptValueWith, hbad] at hy
        · exact mergeArgs_illTyped rec params r _ ⟨e, he', p, t, hp, hty, hbad⟩

/-! ### the end of the parse -/

theorem finalizeArgs_keys (rec : KV → Val → Except Err Val) (fallback ia : KV) :
    ∀ (ps : List IParam) (out : KV), finalizeArgsWith rec fallback ia ps = .ok out → out.map (·.1) = ps.map (·.name)
  | [], out, h => by simp only [finalizeArgsWith] at h; cases h; rfl
  | p :: ps, out, h => by
    simp only [finalizeArgsWith] at h
    split at h
    · cases h
    · split at h
      · cases h
      · rename_i rest hr
        cases h
        simp [finalizeArgs_keys rec fallback ia ps rest hr]

theorem finalizeArgs_missing (rec : KV → Val → Except Err Val) (fallback ia : KV) :
    ∀ (ps : List IParam), (∃ p ∈ ps, p.dflt = none ∧ getKV p.name ia = none ∧ fallbackValue fallback p = none) →
      ∃ err, finalizeArgsWith rec fallback ia ps = .error err
  | [], ⟨p, hp, _⟩ => by cases hp
  | q :: ps, ⟨p, hp, hd, hg, hf⟩ => by
    simp only [finalizeArgsWith]
    rcases List.mem_cons.mp hp with rfl | hp'
    · simp [hg, hd, hf]
    · split
      · exact ⟨_, rfl⟩
      · obtain ⟨err, he⟩ := finalizeArgs_missing rec fallback ia ps ⟨p, hp', hd, hg, hf⟩
        simp [he]

/-! ### instantiation: the log only grows, one entry per spec, references point backwards -/

mutual
/-- number of constructor calls a stored value asks for -/
def countSpecs : Val → Nat
  | .spec (some _) ia _ => countSpecsKV ia + 1
  | .spec none _ _ => 0
  | .lit _ _ => 0
  | .bare _ => 0
  | .nested _ _ => 0
  | .lst xs => countSpecsList xs
  | .dct kvs => countSpecsKV kvs
def countSpecsKV : KV → Nat
  | [] => 0
  | (_, v) :: r => countSpecs v + countSpecsKV r
def countSpecsList : List Val → Nat
  | [] => 0
  | v :: r => countSpecs v + countSpecsList r
end

/-- the log indices an argument value refers to -/
def argRefs : Arg → List Nat
  | .obj i => [i]
  | .lst l => l.filterMap id
  | .dct l => l.filterMap (·.2)
  | .lit _ _ => []
  | .raw => []

/-- every object reference of entry `j` (directly, or inside a list / dict argument) points to an earlier entry -/
def Backward (log : List Ctor) : Prop :=
  ∀ j (hj : j < log.length), ∀ a ∈ (log[j]).args, ∀ i ∈ argRefs a.2, i < j

/-- an argument value refers only to entries that exist -/
def ArgInLog (a : Arg) (n : Nat) : Prop := ∀ i ∈ argRefs a, i < n

theorem backward_append_one (log : List Ctor) (c : Ctor) (hb : Backward log)
    (hc : ∀ a ∈ c.args, ∀ i ∈ argRefs a.2, i < log.length) : Backward (log ++ [c]) := by
  intro j hj a ha i hi
  by_cases hlt : j < log.length
  · have : (log ++ [c])[j] = log[j] := List.getElem_append_left hlt
    rw [this] at ha
    exact hb j hlt a ha i hi
  · have hje : j = log.length := by
      simp only [List.length_append, List.length_singleton] at hj
      omega
    subst hje
    have : (log ++ [c])[log.length] = c := by simp
    rw [this] at ha
    exact hc a ha i hi

theorem objIdx_mem_refs (a : Arg) (i : Nat) (h : objIdx a = some i) : i ∈ argRefs a := by
  cases a <;> simp [objIdx] at h
  subst h
  simp [argRefs]

mutual
theorem inst_spec : ∀ (v : Val) (log : List Ctor), Backward log →
    ∃ new, (inst v log).1 = log ++ new ∧ new.length = countSpecs v ∧ Backward (inst v log).1
      ∧ ArgInLog (inst v log).2 (inst v log).1.length
  | .spec (some cp) ia dk, log, hb => by
    obtain ⟨new, h1, h2, h3, h4⟩ := instArgs_spec ia log hb
    refine ⟨new ++ [⟨cp, (instArgs ia log).2, dk.map (fun e => (e.1, rawArg e.2))⟩], ?_, ?_, ?_, ?_⟩
    · simp only [inst, h1, List.append_assoc]
    · simp [countSpecs, h2]
    · simp only [inst]
      exact backward_append_one _ _ h3 (fun a ha i hi => h4 a ha i hi)
    · intro i hi
      simp only [inst, argRefs, List.mem_singleton] at hi ⊢
      subst hi
      simp
  | .lit ty tok, log, hb => ⟨[], by simp [inst], by simp [countSpecs], by simpa [inst] using hb, by intro i hi; simp [inst, argRefs] at hi⟩
  | .spec none ia dk, log, hb => ⟨[], by simp [inst], by simp [countSpecs], by simpa [inst] using hb, by intro i hi; simp [inst, argRefs] at hi⟩
  | .bare kvs, log, hb => ⟨[], by simp [inst], by simp [countSpecs], by simpa [inst] using hb, by intro i hi; simp [inst, argRefs] at hi⟩
  | .nested k v, log, hb => ⟨[], by simp [inst], by simp [countSpecs], by simpa [inst] using hb, by intro i hi; simp [inst, argRefs] at hi⟩
  | .lst xs, log, hb => by
    obtain ⟨new, h1, h2, h3, h4⟩ := instList_spec xs log hb
    refine ⟨new, by simp only [inst, h1], by simp [countSpecs, h2], by simpa only [inst] using h3, ?_⟩
    intro i hi
    simp only [inst, argRefs, List.mem_filterMap, id_eq, exists_eq_right] at hi ⊢
    exact h4 i hi
  | .dct kvs, log, hb => by
    obtain ⟨new, h1, h2, h3, h4⟩ := instDict_spec kvs log hb
    refine ⟨new, by simp only [inst, h1], by simp [countSpecs, h2], by simpa only [inst] using h3, ?_⟩
    intro i hi
    simp only [inst, argRefs, List.mem_filterMap] at hi ⊢
    obtain ⟨e, he, hei⟩ := hi
    exact h4 e he i hei
theorem instArgs_spec : ∀ (ia : KV) (log : List Ctor), Backward log →
    ∃ new, (instArgs ia log).1 = log ++ new ∧ new.length = countSpecsKV ia ∧ Backward (instArgs ia log).1
      ∧ ∀ a ∈ (instArgs ia log).2, ∀ i ∈ argRefs a.2, i < (instArgs ia log).1.length
  | [], log, hb => ⟨[], by simp [instArgs], by simp [countSpecsKV], by simpa [instArgs] using hb, by intro a ha; simp [instArgs] at ha⟩
  | (k, v) :: r, log, hb => by
    obtain ⟨n1, a1, a2, a3, a4⟩ := inst_spec v log hb
    obtain ⟨n2, b1, b2, b3, b4⟩ := instArgs_spec r (inst v log).1 a3
    refine ⟨n1 ++ n2, ?_, ?_, ?_, ?_⟩
    · simp only [instArgs]
      rw [b1, a1, List.append_assoc]
    · simp [countSpecsKV, a2, b2]
    · simpa only [instArgs] using b3
    · intro a ha i hi
      simp only [instArgs, List.mem_cons] at ha ⊢
      rcases ha with rfl | ha
      · have := a4 i hi
        rw [b1]
        simp only [List.length_append]
        omega
      · exact b4 a ha i hi
theorem instList_spec : ∀ (xs : List Val) (log : List Ctor), Backward log →
    ∃ new, (instList xs log).1 = log ++ new ∧ new.length = countSpecsList xs ∧ Backward (instList xs log).1
      ∧ ∀ i, some i ∈ (instList xs log).2 → i < (instList xs log).1.length
  | [], log, hb => ⟨[], by simp [instList], by simp [countSpecsList], by simpa [instList] using hb, by intro i hi; simp [instList] at hi⟩
  | v :: r, log, hb => by
    obtain ⟨n1, a1, a2, a3, a4⟩ := inst_spec v log hb
    obtain ⟨n2, b1, b2, b3, b4⟩ := instList_spec r (inst v log).1 a3
    refine ⟨n1 ++ n2, ?_, ?_, ?_, ?_⟩
    · simp only [instList]
      rw [b1, a1, List.append_assoc]
    · simp [countSpecsList, a2, b2]
    · simpa only [instList] using b3
    · intro i hi
      simp only [instList, List.mem_cons] at hi ⊢
      rcases hi with hi | hi
      · have := a4 i (objIdx_mem_refs _ _ hi.symm)
        rw [b1]
        simp only [List.length_append]
        omega
      · exact b4 i hi
theorem instDict_spec : ∀ (kvs : KV) (log : List Ctor), Backward log →
    ∃ new, (instDict kvs log).1 = log ++ new ∧ new.length = countSpecsKV kvs ∧ Backward (instDict kvs log).1
      ∧ ∀ e ∈ (instDict kvs log).2, ∀ i, e.2 = some i → i < (instDict kvs log).1.length
  | [], log, hb => ⟨[], by simp [instDict], by simp [countSpecsKV], by simpa [instDict] using hb, by intro e he; simp [instDict] at he⟩
  | (k, v) :: r, log, hb => by
    obtain ⟨n1, a1, a2, a3, a4⟩ := inst_spec v log hb
    obtain ⟨n2, b1, b2, b3, b4⟩ := instDict_spec r (inst v log).1 a3
    refine ⟨n1 ++ n2, ?_, ?_, ?_, ?_⟩
    · simp only [instDict]
      rw [b1, a1, List.append_assoc]
    · simp [countSpecsKV, a2, b2]
    · simpa only [instDict] using b3
    · intro e he i hi
      simp only [instDict, List.mem_cons] at he ⊢
      rcases he with rfl | he
      · have := a4 i (objIdx_mem_refs _ _ hi)
        rw [b1]
        simp only [List.length_append]
        omega
      · exact b4 e he i hi
end

mutual
/-- the log only grows -/
theorem inst_grows : ∀ (v : Val) (log : List Ctor), ∃ new, (inst v log).1 = log ++ new
  | .spec (some cp) ia dk, log => by
    obtain ⟨n, h⟩ := instArgs_grows ia log
    exact ⟨n ++ [⟨cp, (instArgs ia log).2, dk.map (fun e => (e.1, rawArg e.2))⟩], by simp only [inst, h, List.append_assoc]⟩
  | .lit _ _, log => ⟨[], by simp [inst]⟩
  | .spec none _ _, log => ⟨[], by simp [inst]⟩
  | .bare _, log => ⟨[], by simp [inst]⟩
  | .nested _ _, log => ⟨[], by simp [inst]⟩
  | .lst xs, log => by
    obtain ⟨n, h⟩ := instList_grows xs log
    exact ⟨n, by simp only [inst, h]⟩
  | .dct kvs, log => by
    obtain ⟨n, h⟩ := instDict_grows kvs log
    exact ⟨n, by simp only [inst, h]⟩
theorem instArgs_grows : ∀ (ia : KV) (log : List Ctor), ∃ new, (instArgs ia log).1 = log ++ new
  | [], log => ⟨[], by simp [instArgs]⟩
  | (k, v) :: r, log => by
    obtain ⟨n1, h1⟩ := inst_grows v log
    obtain ⟨n2, h2⟩ := instArgs_grows r (inst v log).1
    refine ⟨n1 ++ n2, ?_⟩
    simp only [instArgs]
    rw [h2, h1, List.append_assoc]
theorem instList_grows : ∀ (xs : List Val) (log : List Ctor), ∃ new, (instList xs log).1 = log ++ new
  | [], log => ⟨[], by simp [instList]⟩
  | v :: r, log => by
    obtain ⟨n1, h1⟩ := inst_grows v log
    obtain ⟨n2, h2⟩ := instList_grows r (inst v log).1
    refine ⟨n1 ++ n2, ?_⟩
    simp only [instList]
    rw [h2, h1, List.append_assoc]
theorem instDict_grows : ∀ (kvs : KV) (log : List Ctor), ∃ new, (instDict kvs log).1 = log ++ new
  | [], log => ⟨[], by simp [instDict]⟩
  | (k, v) :: r, log => by
    obtain ⟨n1, h1⟩ := inst_grows v log
    obtain ⟨n2, h2⟩ := instDict_grows r (inst v log).1
    refine ⟨n1 ++ n2, ?_⟩
    simp only [instDict]
    rw [h2, h1, List.append_assoc]
end

/-- the keys of the constructor call are exactly the init_args keys, in order -/
theorem instArgs_keys : ∀ (ia : KV) (log : List Ctor), (instArgs ia log).2.map (·.1) = ia.map (·.1)
  | [], log => by simp [instArgs]
  | (k, v) :: r, log => by simp [instArgs, instArgs_keys r]

/-! ### containers -/

/-- two lists of the same length whose members are related position by position -/
inductive Pointwise {α β : Type} (R : α → β → Prop) : List α → List β → Prop
  | nil : Pointwise R [] []
  | cons {a : α} {b : β} {as : List α} {bs : List β} : R a b → Pointwise R as bs → Pointwise R (a :: as) (b :: bs)

theorem Pointwise.length_eq {α β : Type} {R : α → β → Prop} : ∀ {l1 : List α} {l2 : List β}, Pointwise R l1 l2 → l1.length = l2.length
  | _, _, .nil => rfl
  | _, _, .cons _ t => by simp [t.length_eq]

theorem Pointwise.of_mem_right {α β : Type} {R : α → β → Prop} : ∀ {l1 : List α} {l2 : List β}, Pointwise R l1 l2 →
    ∀ y ∈ l2, ∃ x ∈ l1, R x y
  | _, _, .nil, y, hy => by cases hy
  | _, _, .cons (a := a) h t, y, hy => by
    rcases List.mem_cons.mp hy with rfl | hy'
    · exact ⟨a, List.mem_cons_self, h⟩
    · obtain ⟨x, hx, hr⟩ := t.of_mem_right y hy'
      exact ⟨x, List.mem_cons_of_mem _ hx, hr⟩

theorem Pointwise.map_left {α α' β : Type} (f : α → α') (R : α' → β → Prop) :
    ∀ (l : List α) (ys : List β), Pointwise R (l.map f) ys ↔ Pointwise (fun a y => R (f a) y) l ys
  | [], ys => by
    constructor
    · intro h; cases h; exact .nil
    · intro h; cases h; exact .nil
  | a :: r, ys => by
    constructor
    · intro h
      cases h with
      | cons hd tl => exact .cons hd ((Pointwise.map_left f R r _).mp tl)
    · intro h
      cases h with
      | cons hd tl => exact .cons hd ((Pointwise.map_left f R r _).mpr tl)

theorem dictPrev_nonempty (P : KV) (k : String) (hP : P ≠ []) : dictPrev (some (.dct P)) k = getKV k P := by
  cases P with
  | nil => exact absurd rfl hP
  | cons e r => rfl

/-- key by key: the result has the same keys in the same order, and the value at every key is the adaptation of the
    given value with the previous value OF THAT KEY -/
theorem adaptEntries_iff (rec : String → Option Val → Val → Except Err Val) (b : String) (prev : Option Val) :
    ∀ (kvs ys : KV), adaptEntries rec b prev kvs = .ok ys ↔
      Pointwise (fun kv y => y.1 = kv.1 ∧ rec b (dictPrev prev kv.1) kv.2 = .ok y.2) kvs ys
  | [], ys => by
    simp only [adaptEntries]
    constructor
    · intro h; cases h; exact Pointwise.nil
    · intro h; cases h; rfl
  | (k, v) :: r, ys => by
    simp only [adaptEntries]
    constructor
    · intro h
      split at h
      · cases h
      · rename_i y hy
        split at h
        · cases h
        · rename_i ys' hys
          cases h
          exact Pointwise.cons ⟨rfl, hy⟩ ((adaptEntries_iff rec b prev r ys').mp hys)
    · intro h
      cases h with
      | cons hd tl =>
        rename_i y ys'
        obtain ⟨hk, hy⟩ := hd
        have := (adaptEntries_iff rec b prev r ys').mpr tl
        simp only at hk hy
        simp only [hy, this]
        cases y
        simp only at hk
        subst hk
        rfl

/-- item by item with the given list of previous values -/
theorem adaptItems_iff (rec : String → Option Val → Val → Except Err Val) (b : String) :
    ∀ (xs : List Val) (ps : List (Option Val)) (ys : List Val), ps.length = xs.length →
      (adaptItems rec b ps xs = .ok ys ↔ Pointwise (fun (pv : Option Val × Val) y => rec b pv.1 pv.2 = .ok y) (ps.zip xs) ys)
  | [], ps, ys, hl => by
    have : ps = [] := by cases ps with | nil => rfl | cons _ _ => simp at hl
    subst this
    simp only [adaptItems, List.zip_nil_right]
    constructor
    · intro h; cases h; exact Pointwise.nil
    · intro h; cases h; rfl
  | v :: vs, ps, ys, hl => by
    cases ps with
    | nil => simp at hl
    | cons p ps' =>
      have hl' : ps'.length = vs.length := by simpa using hl
      simp only [adaptItems, List.head?_cons, Option.getD_some, List.tail_cons, List.zip_cons_cons]
      constructor
      · intro h
        split at h
        · cases h
        · rename_i y hy
          split at h
          · cases h
          · rename_i ys' hys
            cases h
            exact Pointwise.cons hy ((adaptItems_iff rec b vs ps' ys' hl').mp hys)
      · intro h
        cases h with
        | cons hd tl =>
          rename_i y ys'
          have := (adaptItems_iff rec b vs ps' ys' hl').mpr tl
          simp only at hd
          simp only [hd, this]

theorem listPrevs_length (prev : Option Val) (n : Nat) : (listPrevs prev n).length = n := by
  unfold listPrevs
  split
  · split
    · rename_i h; simp [h]
    · simp
  · simp

theorem inst_obj_bounds (v : Val) (log : List Ctor) (i : Nat) (h : objIdx (inst v log).2 = some i) :
    log.length ≤ i ∧ i < (inst v log).1.length := by
  cases v with
  | spec cp ia dk =>
    cases cp with
    | none => simp [inst, objIdx] at h
    | some c =>
      obtain ⟨n, hn⟩ := instArgs_grows ia log
      simp only [inst, objIdx, Option.some.injEq] at h
      subst h
      simp only [inst, List.length_append, List.length_singleton, hn]
      omega
  | lit _ _ => simp [inst, objIdx] at h
  | bare _ => simp [inst, objIdx] at h
  | nested _ _ => simp [inst, objIdx] at h
  | lst _ => simp [inst, objIdx] at h
  | dct _ => simp [inst, objIdx] at h

/-- the items of a list are built in list order: their log indices increase strictly -/
theorem instList_sorted : ∀ (xs : List Val) (log : List Ctor),
    List.Pairwise (· < ·) ((instList xs log).2.filterMap id) ∧ ∀ i ∈ (instList xs log).2.filterMap id, log.length ≤ i
  | [], log => by simp [instList]
  | v :: r, log => by
    obtain ⟨ih1, ih2⟩ := instList_sorted r (inst v log).1
    obtain ⟨n1, h1⟩ := inst_grows v log
    have hlen : log.length ≤ (inst v log).1.length := by rw [h1]; simp
    simp only [instList, List.filterMap_cons, id_eq]
    cases ho : objIdx (inst v log).2 with
    | none =>
      simp only
      exact ⟨ih1, fun i hi => Nat.le_trans hlen (ih2 i hi)⟩
    | some i0 =>
      obtain ⟨b1, b2⟩ := inst_obj_bounds v log i0 ho
      simp only [List.pairwise_cons, List.mem_cons]
      refine ⟨⟨fun j hj => ?_, ih1⟩, fun j hj => ?_⟩
      · have := ih2 j hj
        omega
      · rcases hj with rfl | hj
        · exact b1
        · exact Nat.le_trans hlen (ih2 j hj)

/-- the same for the values of a dict, in dict order -/
theorem instDict_sorted : ∀ (kvs : KV) (log : List Ctor),
    List.Pairwise (· < ·) ((instDict kvs log).2.filterMap (·.2)) ∧ ∀ i ∈ (instDict kvs log).2.filterMap (·.2), log.length ≤ i
  | [], log => by simp [instDict]
  | (k, v) :: r, log => by
    obtain ⟨ih1, ih2⟩ := instDict_sorted r (inst v log).1
    obtain ⟨n1, h1⟩ := inst_grows v log
    have hlen : log.length ≤ (inst v log).1.length := by rw [h1]; simp
    simp only [instDict, List.filterMap_cons]
    cases ho : objIdx (inst v log).2 with
    | none =>
      simp only
      exact ⟨ih1, fun i hi => Nat.le_trans hlen (ih2 i hi)⟩
    | some i0 =>
      obtain ⟨b1, b2⟩ := inst_obj_bounds v log i0 ho
      simp only [List.pairwise_cons, List.mem_cons]
      refine ⟨⟨fun j hj => ?_, ih1⟩, fun j hj => ?_⟩
      · have := ih2 j hj
        omega
      · rcases hj with rfl | hj
        · exact b1
        · exact Nat.le_trans hlen (ih2 j hj)

/-! ### short forms -/

/-- `adapt` sees the given value only through `subclass_spec_as_namespace` -/
theorem adapt_congr (E : ClassEnv) (fuel : Nat) (base : String) (prev : Option Val) (raw1 raw2 : Val)
    (h : ∀ pc, asNamespace pc raw1 = asNamespace pc raw2) :
    adapt E fuel base prev raw1 = adapt E fuel base prev raw2 := by
  cases fuel with
  | zero => rfl
  | succ n => simp only [adapt, h]

theorem resolveName_idem (E : ClassEnv) (base cp0 path : String) (hdot : ∀ c ∈ E.classes, isDotted c.path = true)
    (h : resolveName E base cp0 = .ok path) : resolveName E base path = .ok path := by
  unfold resolveName at h
  split at h
  · cases h
    rename_i hd
    simp [resolveName, hd]
  · rename_i hnd
    split at h
    · cases h
      rename_i hc
      simp only [resolveName, hnd, hc]
      rfl
    · rename_i p hc
      cases h
      have hm : path ∈ ((E.classes.filter (fun c => !c.abstract && c.name == cp0 && isSubclass E c.path base)).map (·.path)).eraseDups := by
        rw [hc]; exact List.mem_singleton.mpr rfl
      rw [List.mem_eraseDups] at hm
      obtain ⟨c, hcm, rfl⟩ := List.mem_map.mp hm
      have := hdot c (List.mem_filter.mp hcm).1
      simp [resolveName, this]
    · cases h

/-! ### dataclass fields: re-validating valid scalar fields succeeds -/

/-- the fields of the dataclass are scalars / Optional scalars (the model's domain for dataclass members) -/
def ScalarFields (fields : List IParam) : Prop :=
  ∀ p ∈ fields, ∃ t, p.ty = .scalar t ∨ p.ty = .optScalar t

theorem mergeArgs_ok_of_valid (rec : String → Option Val → Val → Except Err Val) (fields : List IParam)
    (hsc : ScalarFields fields) :
    ∀ (kv acc : KV), ArgsValid fields kv → ∃ r, mergeArgs rec fields kv acc = .ok r
  | [], acc, _ => ⟨acc, rfl⟩
  | (k, x) :: r, acc, hv => by
    obtain ⟨p, hp, hf⟩ := hv (k, x) List.mem_cons_self
    have hmem : p ∈ fields := List.mem_of_find?_eq_some hp
    have htail : ArgsValid fields r := fun e he => hv e (List.mem_cons_of_mem _ he)
    simp only [mergeArgs, hp]
    obtain ⟨t, ht | ht⟩ := hsc p hmem
    · rw [ht] at hf ⊢
      simp only [fits] at hf
      simp only [adaptValueWith]
      cases hc : coerceScalar t x with
      | none => simp [hc] at hf
      | some y => exact mergeArgs_ok_of_valid rec fields hsc r _ htail
    · rw [ht] at hf ⊢
      simp only [fits] at hf
      simp only [adaptValueWith]
      cases hn : isNone x with
      | true => simpa using mergeArgs_ok_of_valid rec fields hsc r _ htail
      | false =>
        simp only [hn, Bool.false_eq_true, false_or] at hf
        cases hc : coerceScalar t x with
        | none => simp [hc] at hf
        | some y => simpa using mergeArgs_ok_of_valid rec fields hsc r _ htail


end Jap.ClassPath

import Jap.Lemmas.Links
/-! The strip with the item branch (F70, 74a7bb8): no place holds a link target afterwards (C15). -/
namespace Jap.Links
open Jap.NS

theorem getK_nil (c : KV) : getK [] c = .none := by simp [getK]

/-- keys that do not diverge: one is a prefix of the other -/
theorem not_diverges : ∀ (d k : Key), diverges d k = false → (∃ r, k = d ++ r) ∨ (∃ r, d = k ++ r)
  | [], k, _ => Or.inl ⟨k, rfl⟩
  | _ :: _, [], _ => Or.inr ⟨_, rfl⟩
  | a :: d', b :: k', h => by
    by_cases e : a = b
    · subst e
      simp only [diverges, if_true] at h
      rcases not_diverges d' k' h with ⟨r, hr⟩ | ⟨r, hr⟩
      · exact Or.inl ⟨r, by simp [hr]⟩
      · exact Or.inr ⟨r, by simp [hr]⟩
    · simp [diverges, e] at h

/-- replacing a list by a list at `d`: a key that could not be read cannot be read afterwards -/
theorem getK_setK_list_none (d k : Key) (xs ys : List V) (c : KV) (hg : getK d c = some (.lst xs))
    (hk : getK k c = .none) : getK k (setK d (.lst ys) c) = .none := by
  have hd : d ≠ [] := by intro e; subst e; rw [getK_nil] at hg; cases hg
  cases hdv : diverges d k with
  | true => rw [getK_setK_frame d k _ c hdv]; exact hk
  | false =>
    rcases not_diverges d k hdv with ⟨r, hr⟩ | ⟨r, hr⟩
    · subst hr
      by_cases e : r = []
      · subst e; simp only [List.append_nil] at hk; rw [hk] at hg; cases hg
      · exact getK_below d r _ hd e _ (getK_setK_same d (.lst ys) c hd) (by intro sub e'; cases e')
    · subst hr
      by_cases e : r = []
      · subst e; simp only [List.append_nil] at hg; rw [hk] at hg; cases hg
      · by_cases ek : k = []
        · subst ek; exact getK_nil _
        · rw [getK_below_none k r c ek e hk] at hg; cases hg

/-- … and a list read at `k` afterwards is the new list (at `d`) or was there before -/
theorem getK_setK_list_lst (d k : Key) (xs ys items : List V) (c : KV) (hg : getK d c = some (.lst xs))
    (h : getK k (setK d (.lst ys) c) = some (.lst items)) : (k = d ∧ items = ys) ∨ getK k c = some (.lst items) := by
  have hd : d ≠ [] := by intro e; subst e; rw [getK_nil] at hg; cases hg
  cases hdv : diverges d k with
  | true => rw [getK_setK_frame d k _ c hdv] at h; exact Or.inr h
  | false =>
    rcases not_diverges d k hdv with ⟨r, hr⟩ | ⟨r, hr⟩
    · subst hr
      by_cases e : r = []
      · subst e
        simp only [List.append_nil] at h ⊢
        rw [getK_setK_same d _ c hd] at h
        cases h
        exact Or.inl ⟨by simp, rfl⟩
      · rw [getK_below d r _ hd e _ (getK_setK_same d (.lst ys) c hd) (by intro sub e'; cases e')] at h; cases h
    · subst hr
      by_cases e : r = []
      · subst e
        simp only [List.append_nil] at h hd ⊢
        rw [getK_setK_same k _ c hd] at h
        cases h
        exact Or.inl ⟨by simp, rfl⟩
      · by_cases ek : k = []
        · subst ek; rw [getK_nil] at h; cases h
        · obtain ⟨sub, hs⟩ := getK_setK_prefix k r (.lst ys) c ek e
          rw [hs] at h; cases h

/-! ### the items -/

theorem getK_stripItem_same (child : Key) (kvs : KV) : getK child (stripItem child kvs) = .none := by
  unfold stripItem
  simp only []
  split
  · split
    · exact getK_delKey_mono _ _ _ (getK_delKey_same child kvs)
    · exact getK_delKey_same child kvs
  · exact getK_delKey_same child kvs

theorem getK_stripItem_mono (child k : Key) (kvs : KV) (h : getK k kvs = .none) : getK k (stripItem child kvs) = .none := by
  unfold stripItem
  simp only []
  split
  · split
    · exact getK_delKey_mono _ _ _ (getK_delKey_mono child k kvs h)
    · exact getK_delKey_mono child k kvs h
  · exact getK_delKey_mono child k kvs h

theorem itemValues_stripItems_same (child : Key) : ∀ items : List V, itemValues child (stripItems child items) = []
  | [] => rfl
  | .ns kvs :: r => by simp [stripItems, itemValues, getK_stripItem_same, itemValues_stripItems_same child r]
  | .none :: r => by simp [stripItems, itemValues, itemValues_stripItems_same child r]
  | .atom _ :: r => by simp [stripItems, itemValues, itemValues_stripItems_same child r]
  | .lst _ :: r => by simp [stripItems, itemValues, itemValues_stripItems_same child r]
  | .tup _ :: r => by simp [stripItems, itemValues, itemValues_stripItems_same child r]
  | .dct _ :: r => by simp [stripItems, itemValues, itemValues_stripItems_same child r]

theorem itemValues_stripItems_mono (child k : Key) : ∀ items : List V, itemValues k items = [] →
    itemValues k (stripItems child items) = []
  | [], _ => rfl
  | .ns kvs :: r, h => by
    simp only [itemValues, List.append_eq_nil_iff] at h
    have hk : getK k kvs = .none := by
      cases hg : getK k kvs with
      | none => rfl
      | some v => rw [hg] at h; simp at h
    simp [stripItems, itemValues, getK_stripItem_mono child k kvs hk, itemValues_stripItems_mono child k r h.2]
  | .none :: r, h => by simpa [stripItems, itemValues] using itemValues_stripItems_mono child k r (by simpa [itemValues] using h)
  | .atom _ :: r, h => by simpa [stripItems, itemValues] using itemValues_stripItems_mono child k r (by simpa [itemValues] using h)
  | .lst _ :: r, h => by simpa [stripItems, itemValues] using itemValues_stripItems_mono child k r (by simpa [itemValues] using h)
  | .tup _ :: r, h => by simpa [stripItems, itemValues] using itemValues_stripItems_mono child k r (by simpa [itemValues] using h)
  | .dct _ :: r, h => by simpa [stripItems, itemValues] using itemValues_stripItems_mono child k r (by simpa [itemValues] using h)

/-! ### the invariant of one link through the strip -/

/-- no place of the configuration holds a value for the target of `l` -/
def Gone (l : Link) (c : KV) : Prop :=
  getK l.target c = .none ∧
  ∀ n, l.kind = .initArg n → ∀ items, getK (l.target.take n) c = some (.lst items) → itemValues (l.target.drop n) items = []

theorem Gone.targetValues {l : Link} {c : KV} (h : Gone l c) : targetValues l c = [] := by
  cases hk : l.kind with
  | plain => rw [targetValues_plain _ _ hk, h.1]; rfl
  | initArg n =>
    cases hd : getK (l.target.take n) c with
    | none => rw [targetValues_path l n _ hk (by intro items hg; rw [hd] at hg; cases hg), h.1]; rfl
    | some v =>
      by_cases hl' : ∃ items, v = .lst items
      · obtain ⟨items, rfl⟩ := hl'
        rw [targetValues_list l n _ items hk hd]
        exact h.2 n hk items hd
      · rw [targetValues_path l n _ hk (by intro items hg; rw [hd] at hg; cases hg; exact hl' ⟨_, rfl⟩), h.1]; rfl

theorem Gone.delTargetKey {l : Link} {c : KV} (h : Gone l c) (t : Key) : Gone l (delTargetKey t c) :=
  ⟨getK_delTargetKey_mono t _ c h.1, fun n hk items hg =>
    h.2 n hk items (getK_delTargetKey_leaf t _ c _ (by intro sub e; cases e) hg)⟩

theorem Gone.delInitTarget {l : Link} {c : KV} (h : Gone l c) (n' : Nat) (t' : Key) : Gone l (delInitTarget n' t' c) := by
  have h1 := h.delTargetKey t'
  unfold Links.delInitTarget
  simp only []
  split
  · rename_i items hg
    refine ⟨getK_setK_list_none _ _ items _ _ hg h1.1, fun n hk its hgi => ?_⟩
    rcases getK_setK_list_lst _ _ items _ its _ hg hgi with ⟨e, e2⟩ | hold
    · subst e2
      exact itemValues_stripItems_mono _ _ items (h1.2 n hk items (by rw [e]; exact hg))
    · exact h1.2 n hk its hold
  · exact h1

/-- the step of the link's own `linked_targets` entry -/
theorem gone_own (l : Link) (n : Nat) (hk : l.kind = .initArg n) (c : KV) (hne : l.target ≠ []) (hn : n < l.target.length) :
    Gone l (delInitTarget n l.target c) := by
  have hnone : getK l.target (delTargetKey l.target c) = .none := getK_delTargetKey_same l.target c
  unfold Links.delInitTarget
  simp only []
  split
  · rename_i items hg
    refine ⟨getK_setK_list_none _ _ items _ _ hg hnone, fun n2 hk2 its hgi => ?_⟩
    rw [hk] at hk2; cases hk2
    have hd : l.target.take n ≠ [] := by intro e; rw [e, getK_nil] at hg; cases hg
    rw [getK_setK_same _ _ _ hd] at hgi
    cases hgi
    exact itemValues_stripItems_same _ items
  · rename_i hnl
    refine ⟨hnone, fun n2 hk2 its hgi => ?_⟩
    rw [hk] at hk2; cases hk2
    exact absurd hgi (hnl its)

theorem gone_delInits (l : Link) (hne : l.target ≠ []) (hwf : ∀ n, l.kind = .initArg n → n < l.target.length) :
    ∀ (its : List (Nat × Key)) (c : KV),
    (Gone l c ∨ ∃ n, l.kind = .initArg n ∧ (n, l.target) ∈ its) → Gone l (delInits its c)
  | [], c, h => by
    rcases h with h | ⟨n, _, hm⟩
    · exact h
    · cases hm
  | nt :: r, c, h => by
    simp only [delInits]
    apply gone_delInits l hne hwf r
    rcases h with h | ⟨n, hk, hm⟩
    · exact Or.inl (h.delInitTarget nt.1 nt.2)
    · rcases List.mem_cons.mp hm with e | hm'
      · rw [← e]
        exact Or.inl (gone_own l n hk c hne (hwf n hk))
      · exact Or.inr ⟨n, hk, hm'⟩

theorem gone_delKeys {l : Link} : ∀ (ts : List Key) (c : KV), Gone l c → Gone l (delKeys ts c)
  | [], _, h => h
  | t :: r, c, h => gone_delKeys r _ (h.delTargetKey t)

/-- AFTER THE STRIP NO PLACE HOLDS A LINK TARGET: the key path, or the items of a list held by the dest -/
theorem gone_strip (p : Parser) (hi : Inv p) (cfg : KV) : ∀ l ∈ p.links, Gone l (stripLinkTargetKeys p cfg) := by
  intro l hl
  unfold stripLinkTargetKeys
  have hlinkk : ∀ k r, k ≠ [] → (⟨k, .link⟩ : Action) ∈ p.actions → getK (k ++ r) (delKeys (plainKeys p) cfg) = .none := by
    intro k r hk hm
    exact getK_delKeys_gone (plainKeys p) k r cfg
      (List.mem_map.mpr ⟨⟨k, .link⟩, List.mem_filter.mpr ⟨hm, rfl⟩, rfl⟩) hk
  apply gone_delInits l (hi.wf l hl).1 (hi.wf l hl).2
  cases hk : l.kind with
  | plain =>
    have := hlinkk l.target [] (hi.wf l hl).1 (hi.plainAct l hl hk)
    simp only [List.append_nil] at this
    exact Or.inl ⟨this, fun n hk2 => by rw [hk] at hk2; cases hk2⟩
  | initArg n =>
    have hn := (hi.wf l hl).2 n hk
    rcases hi.initAct l hl n hk with ⟨a, ha, hs, hd⟩ | hm
    · refine Or.inr ⟨n, rfl, ?_⟩
      unfold initKeys
      have hlen : a.dest.length = n := by rw [hd, List.length_take]; omega
      refine List.mem_flatMap.mpr ⟨a, List.mem_filter.mpr ⟨ha, hs⟩, List.mem_map.mpr ⟨l, List.mem_filter.mpr ⟨hl, ?_⟩, by rw [hlen]⟩⟩
      rw [hlen, hk, hd, isPrefix_take]
      simp
    · have hd0 := hlinkk (l.target.take n) [] (hi.dests _ hm) hm
      have ht := hlinkk (l.target.take n) (l.target.drop n) (hi.dests _ hm) hm
      simp only [List.append_nil] at hd0
      rw [List.take_append_drop] at ht
      exact Or.inl ⟨ht, fun n2 hk2 items hg => by
        rw [hk] at hk2; cases hk2
        rw [hd0] at hg; cases hg⟩

/-! ### frame -/

theorem getK_delInitTarget_frame (n : Nat) (t k : Key) (c : KV) (h : diverges t k = true) :
    getK k (delInitTarget n t c) = getK k c := by
  unfold delInitTarget
  simp only []
  split
  · rename_i items hg
    rw [getK_setK_list_frame (t.take n) (t.drop n) k items _ _ hg (by rw [List.take_append_drop]; exact h)]
    exact getK_delTargetKey_frame t k c h
  · exact getK_delTargetKey_frame t k c h

theorem getK_delInits_frame : ∀ (its : List (Nat × Key)) (k : Key) (c : KV), (∀ nt ∈ its, diverges nt.2 k = true) →
    getK k (delInits its c) = getK k c
  | [], _, _, _ => rfl
  | nt :: r, k, c, h => by
    simp only [delInits]
    rw [getK_delInits_frame r k _ (fun x hx => h x (List.mem_cons_of_mem _ hx))]
    exact getK_delInitTarget_frame nt.1 nt.2 k c (h nt List.mem_cons_self)

/-- the strip leaves every key that diverges from the link targets as it is -/
theorem getK_stripN_frame (p : Parser) (hi : Inv p) (cfg : KV) (k : Key)
    (hk : ∀ l ∈ p.links, diverges l.target k = true) : getK k (stripLinkTargetKeys p cfg) = getK k cfg := by
  unfold stripLinkTargetKeys
  rw [getK_delInits_frame (initKeys p) k _ ?_]
  · apply getK_delKeys_frame
    intro t ht
    obtain ⟨a, ha, hd⟩ := List.mem_map.mp ht
    obtain ⟨ha1, ha2⟩ := List.mem_filter.mp ha
    obtain ⟨l, hl, e⟩ := hi.linkActs a ha1 (by simpa using ha2)
    rw [← hd, ← e]; exact hk l hl
  · intro nt hnt
    unfold initKeys at hnt
    obtain ⟨a, _, hm⟩ := List.mem_flatMap.mp hnt
    obtain ⟨l, hl, e⟩ := List.mem_map.mp hm
    rw [← e]
    exact hk l (List.mem_filter.mp hl).1

end Jap.Links

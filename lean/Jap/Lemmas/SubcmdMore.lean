import Jap.Lemmas.Subcmd
/-!
More lemmas about the engine "Subcmd" (C17): `handle` at a node as an equation, required subcommands at any depth
(`missing_P`), the frame property (settings that are not about subcommands are never touched, for all flags),
`merge_config` on option values, the layer of a sub-parser, the command line (`argv_wins`), optional subcommands,
and the loaders of single sources.
-/
namespace Jap.Subcmd

/-! ## `handle` at a node as an equation (selected subcommand) -/

theorem handle_node_eq (lay : Mode → P → Cfg) (fl : Flags) (pre : List String) (i : Info) (h : SubHdr)
    (choices : List (String × P)) (cfg : Cfg) (n : String) (q : P)
    (hwf : wf (.node i (some h) choices) = true)
    (hm : fl.mode ≠ .none)
    (hfs : (fl.fail || fl.single) = true ∨ (explicitOf (lookup h.dest cfg)).isSome = true)
    (hch : choice h (names choices) cfg = some (.str n)) (hq : findP n choices = some q)
    (hs : okSec (lookup n cfg) = true) :
    handle lay fl pre (.node i (some h) choices) cfg =
      match handle lay fl (pre ++ [n]) q (merge (secOf (lookup n cfg)) (lay fl.mode q)) with
      | .error e => .error e
      | .ok inner1 => .ok (insert n (.sec inner1) (prunedK (subKeys (names choices) cfg) (.str n) (settled h (.str n) cfg))) := by
  obtain ⟨hd, hne, hnd, _⟩ := wf_node i h choices hwf
  have hn : n ∈ names choices := findP_names n q choices hq
  have hn0 : n ≠ "" := by
    intro e
    subst e
    simp at hne
    exact hne hn
  have hnd' : n ≠ h.dest := fun e => hd (e ▸ hn)
  have ht : (Val.str n).truthy = true := by simp [Val.truthy, hn0]
  have hv : validName (names choices) (.str n) = true := by simpa [validName] using hn
  rw [handle]
  obtain ⟨w, hg⟩ := getSub_some h _ fl pre cfg (.str n) hch ht hfs
  rw [hg]
  simp only [hv, Bool.not_true, Bool.and_false, Bool.false_eq_true, if_false, List.any_cons, List.any_nil,
    Bool.or_false, List.filterMap_cons, nameOf, List.filterMap_nil]
  rw [handleEach_single lay fl pre n choices _ hnd, hq]
  simp only [processOne]
  have hl : lookup n (prunedK (subKeys (names choices) cfg) (.str n) (settled h (.str n) cfg)) = lookup n cfg := by
    rw [lookup_prunedK]
    simp [isStr_self, lookup_settled_other h _ cfg n hnd']
  have hs' : okSec (lookup n (prunedK (subKeys (names choices) cfg) (.str n) (settled h (.str n) cfg))) = true := by
    rw [hl]; exact hs
  rw [hl, (checkSettings_okSec (pre ++ [n]) (lookup n cfg)).2 hs]
  simp only []
  rw [mergeLayer_ok fl.mode _ n _ hm hs', hl]
  simp only [lookup_insert_same, secOf_sec]
  cases handle lay fl (pre ++ [n]) q (merge (secOf (lookup n cfg)) (lay fl.mode q)) with
  | error e => rfl
  | ok inner1 =>
    simp only []
    unfold writeBack
    simp [isSecAt_insert, Val.isSec, insert_insert]

/-- `handle` at a node when nothing can be selected -/
theorem handle_node_none (lay : Mode → P → Cfg) (fl : Flags) (pre : List String) (i : Info) (h : SubHdr)
    (choices : List (String × P)) (cfg : Cfg) (hch : choice h (names choices) cfg = .none) :
    handle lay fl pre (.node i (some h) choices) cfg =
      if fl.fail && h.required then .error (.nosub (pre ++ [h.dest])) else .ok cfg := by
  rw [handle, getSub_none h _ fl pre cfg hch]
  by_cases hr : (fl.fail && h.required) = true
  · simp [hr]
  · simp only [hr, Bool.false_eq_true, if_false, List.any_nil, List.filterMap_nil]
    exact handleEach_nil lay fl pre choices cfg


/-! ## required subcommands -/

mutual
/-- following the selection rule down the tree one reaches a parser whose subcommand is required and for which the
    rule selects nothing -/
def missingReq (lay : Mode → P → Cfg) (mode : Mode) : P → Cfg → Bool
  | .node _ .none _, _ => false
  | .node _ (some h) choices, cfg =>
    match choice h (names choices) cfg with
    | .none => h.required
    | some (.str n) => missingIn lay mode choices n cfg
    | some _ => false
def missingIn (lay : Mode → P → Cfg) (mode : Mode) : List (String × P) → String → Cfg → Bool
  | [], _, _ => false
  | (m, q) :: rest, n, cfg =>
    if m = n then missingReq lay mode q (merge (secOf (lookup n cfg)) (lay mode q)) else missingIn lay mode rest n cfg
end

theorem missingIn_eq (lay : Mode → P → Cfg) (mode : Mode) (n : String) (cfg : Cfg) : ∀ (choices : List (String × P)),
    missingIn lay mode choices n cfg = match findP n choices with
      | .none => false
      | some q => missingReq lay mode q (merge (secOf (lookup n cfg)) (lay mode q))
  | [] => by simp [missingIn, findP]
  | (m, q) :: rest => by
    by_cases hm : m = n
    · simp [missingIn, findP, hm]
    · simp [missingIn, findP, hm, missingIn_eq lay mode n cfg rest]

mutual
theorem missing_P : ∀ (p : P) (lay : Mode → P → Cfg) (fl : Flags) (pre : List String) (cfg : Cfg),
    wf p = true → fl.fail = true → fl.mode ≠ .none → clean lay fl.mode p cfg = true →
    missingReq lay fl.mode p cfg = true → ∃ key, handle lay fl pre p cfg = .error (.nosub (pre ++ key))
  | .node i .none ch, lay, fl, pre, cfg, _, _, _, _, hmiss => by
    rw [missingReq] at hmiss
    cases hmiss
  | .node i (some h) choices, lay, fl, pre, cfg, hwf, hf, hm, hcl, hmiss => by
    obtain ⟨hd, hne, hnd, hwl⟩ := wf_node i h choices hwf
    rw [clean] at hcl
    simp only [Bool.and_eq_true] at hcl
    obtain ⟨hca, hci⟩ := hcl
    unfold cleanAt at hca
    simp only [Bool.and_eq_true, List.all_eq_true] at hca
    rw [missingReq] at hmiss
    cases hch : choice h (names choices) cfg with
    | none =>
      simp only [hch] at hmiss
      refine ⟨[h.dest], ?_⟩
      rw [handle_node_none lay fl pre i h choices cfg hch]
      simp [hf, hmiss]
    | some v =>
      cases v with
      | str n =>
        simp only [hch] at hmiss
        rw [missingIn_eq] at hmiss
        cases hq : findP n choices with
        | none => simp [hq] at hmiss
        | some q =>
          simp only [hq] at hmiss
          have hn : n ∈ names choices := findP_names n q choices hq
          have hwq := wfL_find n q choices hwl hq
          have hcq := cleanIn_find lay fl.mode n q cfg choices hci hq
          obtain ⟨key, hk⟩ := missing_L choices n q hq lay fl (pre ++ [n]) _ hwq hf hm hcq hmiss
          refine ⟨n :: key, ?_⟩
          rw [handle_node_eq lay fl pre i h choices cfg n q hwf hm (Or.inl (by simp [hf])) hch hq (hca.2 n hn), hk]
          simp
      | none => simp [hch] at hmiss
      | int _ => simp [hch] at hmiss
      | sec _ => simp [hch] at hmiss
theorem missing_L : ∀ (choices : List (String × P)) (n : String) (q : P), findP n choices = some q →
    ∀ (lay : Mode → P → Cfg) (fl : Flags) (pre : List String) (cfg : Cfg),
    wf q = true → fl.fail = true → fl.mode ≠ .none → clean lay fl.mode q cfg = true →
    missingReq lay fl.mode q cfg = true → ∃ key, handle lay fl pre q cfg = .error (.nosub (pre ++ key))
  | [], n, q, h => by simp [findP] at h
  | (m, q') :: rest, n, q, h => by
    by_cases hm : m = n
    · simp [findP, hm] at h
      subst h
      exact missing_P q'
    · simp [findP, hm] at h
      exact missing_L rest n q h
end


/-! ## frame: settings that are not about subcommands are never touched (any flags, any configuration) -/

theorem getSubCore_frame (h : SubHdr) (ns : List String) (fl : Flags) (cfg : Cfg)
    (k : String) (hk1 : k ≠ h.dest) (hk2 : ¬ k ∈ ns) :
    lookup k (getSubCore h ns fl cfg).cfg = lookup k cfg := by
  have hkeys : ∀ (f : String → Bool), ¬ k ∈ (subKeys ns cfg).filter f := by
    intro f e
    exact hk2 ((mem_subKeys ns cfg k).1 (List.mem_filter.1 e).1).1
  have h1 : ∀ (b : Bool) (v : Val), lookup k (if b = true then insert h.dest v cfg else cfg) = lookup k cfg := by
    intro b v
    cases b
    · simp
    · simp [lookup_insert_other _ _ _ _ hk1]
  have key : ∀ (c : Cfg) (b : Bool) (f : String → Bool), lookup k c = lookup k cfg →
      lookup k (if b = true then eraseAll ((subKeys ns cfg).filter f) c else c) = lookup k cfg := by
    intro c b f hc
    cases b
    · simpa using hc
    · simp only [if_true, lookup_eraseAll, hkeys f, if_false]
      exact hc
  unfold getSubCore
  simp only []
  apply key
  apply h1

theorem getSub_cfg (h : SubHdr) (ns : List String) (fl : Flags) (pre : List String) (cfg : Cfg) (r : GetRes)
    (hok : getSub h ns fl pre cfg = .ok r) : r.cfg = (getSubCore h ns fl cfg).cfg := by
  unfold getSub at hok
  simp only [] at hok
  split at hok
  · cases hok
  · split at hok
    · split at hok
      · cases hok; rfl
      · split at hok
        · cases hok
        · cases hok; rfl
    · cases hok; rfl

theorem getSub_frame (h : SubHdr) (ns : List String) (fl : Flags) (pre : List String) (cfg : Cfg) (r : GetRes)
    (hok : getSub h ns fl pre cfg = .ok r) (k : String) (hk1 : k ≠ h.dest) (hk2 : ¬ k ∈ ns) :
    lookup k r.cfg = lookup k cfg := by
  rw [getSub_cfg h ns fl pre cfg r hok]
  exact getSubCore_frame h ns fl cfg k hk1 hk2

theorem mergeLayer_frame (mode : Mode) (L : Cfg) (n : String) (c c' : Cfg) (hok : mergeLayer mode L n c = .ok c')
    (k : String) (hk : k ≠ n) : lookup k c' = lookup k c := by
  unfold mergeLayer at hok
  cases mode with
  | none => cases hok; rfl
  | dflt =>
    simp only [] at hok
    split at hok
    · cases hok; exact lookup_insert_other _ _ _ _ hk
    · split at hok
      · cases hok
      · cases hok; exact lookup_insert_other _ _ _ _ hk
    · cases hok; exact lookup_insert_other _ _ _ _ hk
  | env =>
    simp only [] at hok
    split at hok
    · cases hok; exact lookup_insert_other _ _ _ _ hk
    · split at hok
      · cases hok
      · cases hok; exact lookup_insert_other _ _ _ _ hk
    · cases hok; exact lookup_insert_other _ _ _ _ hk

theorem writeBack_frame (n : String) (inner c : Cfg) (k : String) (hk : k ≠ n) :
    lookup k (writeBack n inner c) = lookup k c := by
  unfold writeBack
  split
  · exact lookup_insert_other _ _ _ _ hk
  · rfl

theorem handleEach_frame (lay : Mode → P → Cfg) (fl : Flags) (pre : List String) (todo : List String) (k : String) :
    ∀ (choices : List (String × P)) (cfg c' : Cfg), ¬ k ∈ names choices →
      handleEach lay fl pre choices todo cfg = .ok c' → lookup k c' = lookup k cfg
  | [], cfg, c', _, hok => by
    rw [handleEach] at hok
    cases hok; rfl
  | (m, q) :: rest, cfg, c', hk, hok => by
    have hkm : k ≠ m := fun e => hk (by simp [names, e])
    have hkr : ¬ k ∈ names rest := fun e => hk (by simp [names] at e ⊢; exact Or.inr e)
    rw [handleEach] at hok
    split at hok
    · cases hcs : checkSettings (pre ++ [m]) (lookup m cfg) with
      | error e => simp [hcs] at hok
      | ok u =>
        simp only [hcs] at hok
        cases hml : mergeLayer fl.mode (lay fl.mode q) m cfg with
        | error e => simp [hml] at hok
        | ok cfg1 =>
          simp only [hml] at hok
          cases hin : handle lay fl (pre ++ [m]) q (secOf (lookup m cfg1)) with
          | error e => simp [hin] at hok
          | ok inner =>
            simp only [hin] at hok
            rw [handleEach_frame lay fl pre todo k rest _ c' hkr hok, writeBack_frame m inner cfg1 k hkm]
            exact mergeLayer_frame fl.mode _ m cfg cfg1 hml k hkm
    · exact handleEach_frame lay fl pre todo k rest cfg c' hkr hok

/-- `handle_subcommands` leaves every setting that is not the subcommand key or a subcommand section as it is -/
theorem handle_frame (lay : Mode → P → Cfg) (fl : Flags) (pre : List String) (i : Info) (h : SubHdr)
    (choices : List (String × P)) (cfg c1 : Cfg) (hok : handle lay fl pre (.node i (some h) choices) cfg = .ok c1)
    (k : String) (hk1 : k ≠ h.dest) (hk2 : ¬ k ∈ names choices) : lookup k c1 = lookup k cfg := by
  rw [handle] at hok
  cases hg : getSub h (names choices) fl pre cfg with
  | error e => simp [hg] at hok
  | ok r =>
    simp only [hg] at hok
    split at hok
    · cases hok
    · rw [handleEach_frame lay fl pre _ k choices r.cfg c1 hk2 hok]
      exact getSub_frame h _ fl pre cfg r hg k hk1 hk2

theorem sweepIn_frame (single : Bool) (n : String) (k : String) :
    ∀ (choices : List (String × P)) (cfg c' : Cfg), ¬ k ∈ names choices →
      sweepIn single choices n cfg = .ok c' → lookup k c' = lookup k cfg
  | [], cfg, c', _, hok => by
    rw [sweepIn] at hok
    cases hok; rfl
  | (m, q) :: rest, cfg, c', hk, hok => by
    have hkm : k ≠ m := fun e => hk (by simp [names, e])
    have hkr : ¬ k ∈ names rest := fun e => hk (by simp [names] at e ⊢; exact Or.inr e)
    rw [sweepIn] at hok
    split at hok
    · rename_i hmn
      subst hmn
      split at hok
      · split at hok
        · cases hok
        · cases hok; exact lookup_insert_other _ _ _ _ hkm
      · split at hok
        · cases hok; rfl
        · cases hok
    · exact sweepIn_frame single n k rest cfg c' hkr hok

theorem sweep_frame (single : Bool) (i : Info) (h : SubHdr) (choices : List (String × P)) (cfg c2 : Cfg)
    (hok : sweep single (.node i (some h) choices) cfg = .ok c2)
    (k : String) (hk1 : k ≠ h.dest) (hk2 : ¬ k ∈ names choices) : lookup k c2 = lookup k cfg := by
  rw [sweep] at hok
  cases hg : getSub h (names choices) ⟨false, single, .none⟩ [] cfg with
  | error e => simp [hg] at hok
  | ok r =>
    have hf := getSub_frame h _ _ [] cfg r hg k hk1 hk2
    simp only [hg] at hok
    split at hok
    · cases hok; exact hf
    · split at hok
      · split at hok
        · split at hok
          · rw [sweepIn_frame single _ k choices r.cfg c2 hk2 hok]; exact hf
          · cases hok
        · cases hok; exact hf
      · cases hok; exact hf


/-! ## `merge_config`: the given value wins, else the value below -/

def keysOf (c : Cfg) : List String := c.map (·.1)

/-- the key holds an option value (not a nested namespace) or nothing -/
def leafAt (k : String) (c : Cfg) : Bool :=
  match lookup k c with
  | some (.sec _) => false
  | _ => true

theorem lookup_mergeV_other (k0 k : String) (v : Val) (to : Cfg) (hk : k ≠ k0) :
    lookup k (mergeV k0 v to) = lookup k to := by
  cases v with
  | sec s =>
    rw [mergeV]
    split
    · exact lookup_insert_other _ _ _ _ hk
    · rfl
  | none => rw [mergeV]; exact lookup_insert_other _ _ _ _ hk
  | int i => rw [mergeV]; exact lookup_insert_other _ _ _ _ hk
  | str x => rw [mergeV]; exact lookup_insert_other _ _ _ _ hk

theorem lookup_none_of_not_mem (k : String) : ∀ (c : Cfg), ¬ k ∈ keysOf c → lookup k c = .none
  | [], _ => rfl
  | (k', v) :: r, h => by
    have h1 : k' ≠ k := fun e => h (by simp [keysOf, e])
    have h2 : ¬ k ∈ keysOf r := fun e => h (by simp [keysOf] at e ⊢; exact Or.inr e)
    simp [lookup, h1, lookup_none_of_not_mem k r h2]

/-- a key at which `frm` holds an option value gets that value; a key that `frm` does not have keeps the value of `to` -/
theorem lookup_merge_leaf (k : String) : ∀ (frm to : Cfg), (keysOf frm).Nodup → leafAt k frm = true →
    lookup k (merge frm to) = match lookup k frm with
      | some v => some v
      | .none => lookup k to
  | [], to, _, _ => by rw [merge]; simp [lookup]
  | (k0, v0) :: r, to, hnd, hl => by
    have hnd' : (keysOf r).Nodup := by simp [keysOf] at hnd ⊢; exact hnd.2
    have hk0 : ¬ k0 ∈ keysOf r := by simp [keysOf] at hnd ⊢; exact hnd.1
    rw [merge]
    by_cases hk : k0 = k
    · subst hk
      have hr : lookup k0 r = .none := lookup_none_of_not_mem k0 r hk0
      have hlr : leafAt k0 r = true := by simp [leafAt, hr]
      rw [lookup_merge_leaf k0 r _ hnd' hlr, hr]
      simp only [lookup, if_true]
      cases v0 with
      | sec s => simp [leafAt, lookup] at hl
      | none => rw [mergeV]; exact lookup_insert_same _ _ _
      | int i => rw [mergeV]; exact lookup_insert_same _ _ _
      | str x => rw [mergeV]; exact lookup_insert_same _ _ _
    · have hlr : leafAt k r = true := by simpa [leafAt, lookup, hk] using hl
      rw [lookup_merge_leaf k r _ hnd' hlr]
      simp only [lookup, hk, if_false]
      cases lookup k r with
      | some v => rfl
      | none => exact lookup_mergeV_other k0 k v0 to (Ne.symm hk)

/-! ## the result of `_parse_common` decomposed -/

theorem parseCommon_ok (lay : Mode → P → Cfg) (fl : Flags) (validate : Bool) (p : P) (cfg r : Cfg)
    (hok : parseCommon lay fl true validate p cfg = .ok r) :
    ∃ c1, handle lay fl [] p cfg = .ok c1 ∧ sweep fl.single p c1 = .ok r := by
  unfold parseCommon at hok
  cases h1 : handle lay fl [] p cfg with
  | error e => simp [h1] at hok
  | ok c1 =>
    simp only [h1, if_true] at hok
    cases h2 : sweep fl.single p c1 with
    | error e => simp [h2] at hok
    | ok c2 =>
      simp only [h2] at hok
      refine ⟨c1, rfl, ?_⟩
      rw [h2]
      cases validate
      · simp at hok; rw [hok]
      · simp only [if_true] at hok
        cases h3 : checkReq fl.single [] p c2 with
        | error e => simp [h3] at hok
        | ok u => simp [h3] at hok; rw [hok]

/-! ## the layer of a sub-parser: its own settings are its environment over its defaults -/

def ownKey (p : P) (k : String) : Prop :=
  match p.sub with
  | .none => True
  | some h => k ≠ h.dest ∧ ¬ k ∈ names p.choices

theorem parseCommon_frame (lay : Mode → P → Cfg) (fl : Flags) (validate : Bool) (p : P) (cfg r : Cfg)
    (hok : parseCommon lay fl true validate p cfg = .ok r) (k : String) (hk : ownKey p k) :
    lookup k r = lookup k cfg := by
  obtain ⟨c1, h1, h2⟩ := parseCommon_ok lay fl validate p cfg r hok
  cases p with
  | node i s choices =>
    cases s with
    | none =>
      rw [handle_leaf] at h1
      cases h1
      rw [sweep_leaf] at h2
      cases h2
      rfl
    | some h =>
      simp only [ownKey, P.sub, P.choices] at hk
      rw [sweep_frame fl.single i h choices c1 r h2 k hk.1 hk.2]
      exact handle_frame lay fl [] i h choices cfg c1 h1 k hk.1 hk.2

theorem layFuel_own (fuel : Nat) (single : Bool) (mode : Mode) (q : P) (k : String) (hk : ownKey q k) :
    lookup k (layFuel fuel single mode q) = lookup k (baseOf mode q) := by
  cases mode with
  | none => cases fuel <;> rfl
  | dflt => cases fuel <;> rfl
  | env =>
    cases fuel with
    | zero => rfl
    | succ f =>
      rw [layFuel]
      simp only [baseOf]
      cases hp : parseCommon (layFuel f single) ⟨false, single, .env⟩ true false q (merge q.info.envc q.info.dflt) with
      | error e => rfl
      | ok c => exact parseCommon_frame _ _ false q _ c hp k hk


/-! ## a name stored under the subcommand key decides -/

theorem explicit_wins (lay : Mode → P → Cfg) (fl : Flags) (pre : List String) (i : Info) (h : SubHdr)
    (choices : List (String × P)) (cfg c1 c2 : Cfg) (n : String) (q : P)
    (hwf : wf (.node i (some h) choices) = true) (hm : fl.mode ≠ .none)
    (hd : lookup h.dest cfg = some (.str n)) (hq : findP n choices = some q) (hs : okSec (lookup n cfg) = true)
    (h1 : handle lay fl pre (.node i (some h) choices) cfg = .ok c1)
    (h2 : sweep fl.single (.node i (some h) choices) c1 = .ok c2) :
    lookup h.dest c2 = some (.str n) ∧ isSecAt n c2 = true := by
  obtain ⟨hdn, hne, _, _⟩ := wf_node i h choices hwf
  have hn : n ∈ names choices := findP_names n q choices hq
  have hn0 : n ≠ "" := by
    intro e
    subst e
    simp at hne
    exact hne hn
  have hnd' : n ≠ h.dest := fun e => hdn (e ▸ hn)
  have hch := choice_explicit h (names choices) cfg n hd
  rw [handle_node_eq lay fl pre i h choices cfg n q hwf hm (Or.inr (by simp [hd, explicitOf])) hch hq hs] at h1
  cases hin : handle lay fl (pre ++ [n]) q (merge (secOf (lookup n cfg)) (lay fl.mode q)) with
  | error e => rw [hin] at h1; cases h1
  | ok inner1 =>
    rw [hin] at h1
    cases h1
    have hres := fun inner2 k => lookup_result h (names choices) cfg n inner1 inner2 k hdn hn hch
    have hdest1 : lookup h.dest
        (insert n (.sec inner1) (prunedK (subKeys (names choices) cfg) (.str n) (settled h (.str n) cfg))) = some (.str n) := by
      rw [lookup_insert_other _ _ _ _ (Ne.symm hnd'), lookup_prunedK]
      have : ¬ h.dest ∈ subKeys (names choices) cfg := fun e => hdn ((mem_subKeys _ _ _).1 e).1
      simp only [this, false_and, and_false, if_false]
      exact lookup_dest_settled h _ cfg _ hch
    obtain ⟨inner2, _, hc2⟩ := sweep_node_shape fl.single i h choices _ c2 n q inner1 hdest1 hn0 hq
      (lookup_insert_same _ _ _) h2
    subst hc2
    refine ⟨(hres inner2 h.dest).2.1 rfl, ?_⟩
    simp [isSecAt, (hres inner2 n).1 rfl, Val.isSec]

theorem argvCall_ok (lay : Mode → P → Cfg) (single : Bool) (mode : Mode) (h : SubHdr) (n : String) (av : Argv) (q : P) :
    ∀ (choices : List (String × P)) (cfg c1 : Cfg), findP n choices = some q → n ≠ h.dest →
      argvCall lay single mode h choices n av cfg = .ok c1 →
      lookup h.dest c1 = some (.str n) ∧ isSecAt n c1 = true
  | [], _, _, hq, _, _ => by simp [findP] at hq
  | (m, q') :: rest, cfg, c1, hq, hnd, hok => by
    rw [argvCall] at hok
    by_cases hm : m = n
    · simp only [hm, if_true] at hok
      have key : ∀ (s : Cfg), lookup h.dest (insert n (.sec s) (insert h.dest (.str n) cfg)) = some (.str n) ∧
          isSecAt n (insert n (.sec s) (insert h.dest (.str n) cfg)) = true := by
        intro s
        refine ⟨?_, by simp [isSecAt, lookup_insert_same, Val.isSec]⟩
        rw [lookup_insert_other _ _ _ _ (Ne.symm hnd)]
        exact lookup_insert_same _ _ _
      split at hok
      · split at hok
        · cases hok
        · cases hok; exact key _
      · split at hok
        · cases hok
        · cases hok; exact key _
      · cases hok
      · split at hok
        · cases hok
        · cases hok; exact key _
    · simp only [hm, if_false] at hok
      simp [findP, hm] at hq
      exact argvCall_ok lay single mode h n av q rest cfg c1 hq hnd hok

/-- the subcommand written on the command line is the one selected, whatever the configs and the environment say -/
theorem argv_wins (lay : Mode → P → Cfg) (single : Bool) (mode : Mode) (validate : Bool) (i : Info) (h : SubHdr)
    (choices : List (String × P)) (items : List (Bool × Cfg)) (n : String) (rest : Argv) (ns r : Cfg) (q : P)
    (hwf : wf (.node i (some h) choices) = true) (hm : mode ≠ .none) (hq : findP n choices = some q)
    (hok : parseArgs lay single mode validate (.node i (some h) choices) (.mk items (some (n, rest))) ns = .ok r) :
    lookup h.dest r = some (.str n) ∧ isSecAt n r = true := by
  obtain ⟨hdn, _, _, _⟩ := wf_node i h choices hwf
  have hn : n ∈ names choices := findP_names n q choices hq
  have hnd' : n ≠ h.dest := fun e => hdn (e ▸ hn)
  rw [parseArgs] at hok
  cases h0 : applyItems (.node i (some h) choices) items (merge ns (baseOf mode (.node i (some h) choices))) with
  | error e => simp [h0] at hok
  | ok c0 =>
    simp only [h0] at hok
    cases ha : argvCall lay single mode h choices n rest c0 with
    | error e => simp [ha] at hok
    | ok c1 =>
      simp only [ha] at hok
      obtain ⟨hd1, hs1⟩ := argvCall_ok lay single mode h n rest q choices c0 c1 hq hnd' ha
      obtain ⟨cA, hA, hB⟩ := parseCommon_ok lay ⟨true, single, mode⟩ validate _ c1 r hok
      have hs : okSec (lookup n c1) = true := by
        unfold isSecAt at hs1
        cases hl : lookup n c1 with
        | none => simp [hl] at hs1
        | some v => cases v <;> simp_all [okSec, Val.isSec]
      exact explicit_wins lay ⟨true, single, mode⟩ [] i h choices c1 cA r n q hwf hm hd1 hq hs hA hB

/-! ## an optional subcommand for which nothing can be determined -/

theorem optional_none (lay : Mode → P → Cfg) (fl : Flags) (links validate : Bool) (i : Info) (h : SubHdr)
    (choices : List (String × P)) (cfg : Cfg)
    (hch : choice h (names choices) cfg = .none) (hr : h.required = false) :
    parseCommon lay fl links validate (.node i (some h) choices) cfg = .ok cfg := by
  unfold parseCommon
  rw [handle_node_none lay fl [] i h choices cfg hch]
  simp only [hr, Bool.and_false, Bool.false_eq_true, if_false]
  have hs := sweep_node_none fl.single i h choices cfg hch
  have hc : checkReq fl.single [] (.node i (some h) choices) cfg = .ok () := by
    rw [checkReq, getSub_none h _ _ [] cfg hch]
    simp [hr]
  cases links <;> cases validate <;> simp [hs, hc]


/-! ## sources that are loaded on their own: when they keep their sections -/

theorem isSecAt_writeBack (n : String) (inner c : Cfg) (k : String) :
    isSecAt k (writeBack n inner c) = isSecAt k c := by
  unfold writeBack
  by_cases hs : isSecAt n c = true
  · simp only [hs, if_true, isSecAt_insert]
    by_cases hk : k = n
    · subst hk; simp [Val.isSec, hs]
    · simp [hk]
  · simp [hs]

theorem handleEach_isSec (lay : Mode → P → Cfg) (fl : Flags) (pre : List String) (todo : List String) (k : String)
    (hm : fl.mode = .none) :
    ∀ (choices : List (String × P)) (cfg c' : Cfg),
      handleEach lay fl pre choices todo cfg = .ok c' → isSecAt k c' = isSecAt k cfg
  | [], cfg, c', hok => by
    rw [handleEach] at hok
    cases hok; rfl
  | (m, q) :: rest, cfg, c', hok => by
    rw [handleEach] at hok
    split at hok
    · simp only [hm, mergeLayer] at hok
      cases hcs : checkSettings (pre ++ [m]) (lookup m cfg) with
      | error e => simp [hcs] at hok
      | ok u =>
        simp only [hcs] at hok
        cases hin : handle lay fl (pre ++ [m]) q (secOf (lookup m cfg)) with
        | error e => simp [hin] at hok
        | ok inner =>
          simp only [hin] at hok
          rw [handleEach_isSec lay fl pre todo k hm rest _ c' hok, isSecAt_writeBack]
    · exact handleEach_isSec lay fl pre todo k hm rest cfg c' hok

/-- a config source keeps all its sections when it does not itself name a subcommand, or holds at most one section -/
def quiet (h : SubHdr) (ns : List String) (tree : Cfg) : Bool :=
  (explicitOf (lookup h.dest tree)).isNone || decide ((subKeys ns tree).length ≤ 1)

theorem getSubCore_quiet (h : SubHdr) (ns : List String) (mode : Mode) (tree : Cfg) (hq : quiet h ns tree = true) :
    (getSubCore h ns ⟨false, false, mode⟩ tree).cfg = tree := by
  unfold getSubCore
  simp only [Bool.or_self, Bool.and_false, Bool.false_eq_true, if_false]
  unfold quiet at hq
  simp only [Bool.or_eq_true, decide_eq_true_eq] at hq
  rcases hq with hq | hq
  · have : explicitOf (lookup h.dest tree) = .none := by
      cases he : explicitOf (lookup h.dest tree) with
      | none => rfl
      | some v => simp [he] at hq
    simp [this, truthyO]
  · have : ¬ (subKeys ns tree).length > 1 := by omega
    simp [this]

theorem loadCfgArg_keeps (i : Info) (h : SubHdr) (choices : List (String × P)) (tree t : Cfg)
    (hq : quiet h (names choices) tree = true)
    (hok : loadCfgArg (.node i (some h) choices) tree = .ok t) (k : String) :
    isSecAt k t = isSecAt k tree := by
  unfold loadCfgArg parseCommon at hok
  cases h1 : handle (fun _ _ => []) ⟨false, false, .none⟩ [] (.node i (some h) choices) tree with
  | error e => simp [h1] at hok
  | ok c1 =>
    simp only [h1, Bool.false_eq_true, if_false] at hok
    cases hok
    rw [handle] at h1
    cases hg : getSub h (names choices) ⟨false, false, .none⟩ [] tree with
    | error e => simp [hg] at h1
    | ok r =>
      simp only [hg] at h1
      have hc := getSub_cfg h _ _ [] tree r hg
      rw [getSubCore_quiet h _ .none tree hq] at hc
      split at h1
      · cases h1
      · rw [handleEach_isSec _ _ [] _ k rfl choices r.cfg _ h1, hc]

end Jap.Subcmd

namespace Jap.Subcmd

/-! ## vocabulary of the property statements -/

/-- the final stage of every parse method: `_parse_common` with `fail_no_subcommand=True`, links applied, validation on -/
def finalParse (lay : Mode → P → Cfg) (single : Bool) (mode : Mode) (p : P) (cfg : Cfg) : Except Err Cfg :=
  parseCommon lay ⟨true, single, mode⟩ true true p cfg

/-- `a` over `b` at key `k` -/
def over (a b : Cfg) (k : String) : Option Val :=
  match lookup k a with
  | some v => some v
  | .none => lookup k b

theorem complete_own (lay : Mode → P → Cfg) (mode : Mode) (q : P) (c r : Cfg) (k : String)
    (hc : complete lay mode q c r) (hk : ownKey q k) : lookup k r = lookup k c := by
  cases q with
  | node i s choices =>
    cases s with
    | none => rw [complete] at hc; rw [hc]
    | some h =>
      rw [complete] at hc
      simp only [ownKey, P.sub, P.choices] at hk
      exact hc.1 k hk.1 hk.2

theorem choice_first (h : SubHdr) (ns : List String) (cfg : Cfg) (n : String)
    (he : explicitOf (lookup h.dest cfg) = .none) (hc : choice h ns cfg = some (.str n)) :
    isSecAt n cfg = true ∧ ∃ before after, ns = before ++ n :: after ∧ ∀ m ∈ before, isSecAt m cfg = false := by
  unfold choice at hc
  simp only [he, subKeys, List.head?_filter] at hc
  cases hf : ns.find? (fun k => isSecAt k cfg) with
  | none => simp [hf] at hc
  | some a =>
    simp only [hf, Option.map_some, Option.some.injEq, Val.str.injEq] at hc
    subst hc
    obtain ⟨hp, as, bs, hns, hall⟩ := List.find?_eq_some_iff_append.1 hf
    exact ⟨hp, as, bs, hns, fun m hm => by simpa using hall m hm⟩


/-! ## without `fail_no_subcommand` the required-subcommand error cannot occur (fix f6d3709: default config files) -/

theorem getSub_nofail (h : SubHdr) (ns : List String) (single : Bool) (mode : Mode) (pre : List String) (cfg : Cfg) :
    getSub h ns ⟨false, single, mode⟩ pre cfg =
      if (getSubCore h ns ⟨false, single, mode⟩ cfg).sub.isSome && !validNameO ns (getSubCore h ns ⟨false, single, mode⟩ cfg).sub
      then .error (.badname (pre ++ [h.dest])) else .ok (getSubCore h ns ⟨false, single, mode⟩ cfg) := by
  simp [getSub]

theorem mergeLayer_err (mode : Mode) (L : Cfg) (n : String) (c : Cfg) (e : Err) (h : mergeLayer mode L n c = .error e) :
    e = .crash := by
  unfold mergeLayer at h
  cases mode with
  | none => cases h
  | dflt =>
    simp only [] at h
    split at h
    · cases h
    · split at h
      · cases h; rfl
      · cases h
    · cases h
  | env =>
    simp only [] at h
    split at h
    · cases h
    · split at h
      · cases h; rfl
      · cases h
    · cases h

theorem checkSettings_err (key : List String) (o : Option Val) (e : Err) (h : checkSettings key o = .error e) :
    e = .badsec key := by
  cases o with
  | none => simp [checkSettings] at h
  | some v => cases v <;> simp_all [checkSettings]

mutual
theorem handle_nofail_P : ∀ (p : P) (lay : Mode → P → Cfg) (single : Bool) (mode : Mode) (pre : List String) (cfg : Cfg) (e : Err),
    handle lay ⟨false, single, mode⟩ pre p cfg = .error e → ∀ k, e ≠ .nosub k
  | .node i .none ch, lay, single, mode, pre, cfg, e, h => by rw [handle_leaf] at h; cases h
  | .node i (some hd) choices, lay, single, mode, pre, cfg, e, h => by
    rw [handle, getSub_nofail] at h
    by_cases hb : ((getSubCore hd (names choices) ⟨false, single, mode⟩ cfg).sub.isSome &&
        !validNameO (names choices) (getSubCore hd (names choices) ⟨false, single, mode⟩ cfg).sub) = true
    · rw [if_pos hb] at h; cases h; intro k hk; cases hk
    · rw [if_neg hb] at h
      simp only [] at h
      split at h
      · cases h; intro k hk; cases hk
      · exact handle_nofail_L choices lay single mode pre _ _ e h
theorem handle_nofail_L : ∀ (choices : List (String × P)) (lay : Mode → P → Cfg) (single : Bool) (mode : Mode) (pre : List String)
    (todo : List String) (cfg : Cfg) (e : Err),
    handleEach lay ⟨false, single, mode⟩ pre choices todo cfg = .error e → ∀ k, e ≠ .nosub k
  | [], lay, single, mode, pre, todo, cfg, e, h => by rw [handleEach] at h; cases h
  | (m, q) :: rest, lay, single, mode, pre, todo, cfg, e, h => by
    rw [handleEach] at h
    split at h
    · cases hcs : checkSettings (pre ++ [m]) (lookup m cfg) with
      | error e' =>
        simp only [hcs] at h
        cases h
        rw [checkSettings_err _ _ _ hcs]
        intro k hk; cases hk
      | ok u =>
        simp only [hcs] at h
        cases hml : mergeLayer mode (lay mode q) m cfg with
        | error e' =>
          simp only [hml] at h
          cases h
          rw [mergeLayer_err _ _ _ _ _ hml]
          intro k hk; cases hk
        | ok cfg1 =>
          simp only [hml] at h
          cases hin : handle lay ⟨false, single, mode⟩ (pre ++ [m]) q (secOf (lookup m cfg1)) with
          | error e' =>
            simp only [hin] at h
            cases h
            exact handle_nofail_P q lay single mode _ _ _ hin
          | ok inner =>
            simp only [hin] at h
            exact handle_nofail_L rest lay single mode pre todo _ e h
    · exact handle_nofail_L rest lay single mode pre todo cfg e h
end

mutual
theorem sweep_err_P : ∀ (p : P) (single : Bool) (cfg : Cfg) (e : Err), sweep single p cfg = .error e → ∀ k, e ≠ .nosub k
  | .node i .none ch, single, cfg, e, h => by rw [sweep_leaf] at h; cases h
  | .node i (some hd) choices, single, cfg, e, h => by
    rw [sweep, getSub_nofail] at h
    by_cases hb : ((getSubCore hd (names choices) ⟨false, single, .none⟩ cfg).sub.isSome &&
        !validNameO (names choices) (getSubCore hd (names choices) ⟨false, single, .none⟩ cfg).sub) = true
    · rw [if_pos hb] at h; cases h; intro k hk; cases hk
    · rw [if_neg hb] at h
      simp only [] at h
      split at h
      · cases h
      · split at h
        · split at h
          · split at h
            · exact sweep_err_L choices single _ _ e h
            · cases h; intro k hk; cases hk
          · cases h
        · cases h
theorem sweep_err_L : ∀ (choices : List (String × P)) (single : Bool) (n : String) (cfg : Cfg) (e : Err),
    sweepIn single choices n cfg = .error e → ∀ k, e ≠ .nosub k
  | [], single, n, cfg, e, h => by rw [sweepIn] at h; cases h
  | (m, q) :: rest, single, n, cfg, e, h => by
    rw [sweepIn] at h
    split at h
    · split at h
      · rename_i kvs _
        cases hs : sweep single q kvs with
        | error e' =>
          simp only [hs] at h
          cases h
          exact sweep_err_P q single _ _ hs
        | ok inner => simp [hs] at h
      · split at h
        · cases h
        · cases h; intro k hk; cases hk
    · exact sweep_err_L rest single n cfg e h
end

/-- loading a default config file (`get_defaults`) can never produce the "expected <subcommand> to be one of" error -/
theorem applyDefaultCfg_never_requires (single : Bool) (p : P) (tree cfg : Cfg) (key : List String) :
    applyDefaultCfg single p tree cfg ≠ .error (.nosub key) := by
  intro h
  unfold applyDefaultCfg parseCommon at h
  cases h1 : handle (fun _ _ => []) ⟨false, single, .none⟩ [] p (merge tree cfg) with
  | error e =>
    simp only [h1] at h
    cases h
    exact handle_nofail_P p _ single .none [] _ _ h1 key rfl
  | ok c1 =>
    simp only [h1, if_true] at h
    cases h2 : sweep single p c1 with
    | error e =>
      simp only [h2] at h
      cases h
      exact sweep_err_P p single _ _ h2 key rfl
    | ok c2 => simp [h2] at h

end Jap.Subcmd

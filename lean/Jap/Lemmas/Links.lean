import Jap.Core.Links
import Jap.Lemmas.NamespaceSpec
/-!
Lemmas for C15: divergence of keys, frame laws of `setK`/`delKey`/`setTargetValue`, the invariants of
`addLink`, the one-pass analysis of `applyParsingLinks`, stripping.
-/
namespace Jap.Links
open Jap.NS

/-! ### keys -/

/-- the keys differ at some position: neither is a prefix of the other -/
def diverges : Key → Key → Bool
  | a :: p, b :: q => if a = b then diverges p q else true
  | _, _ => false

theorem diverges_symm : ∀ (k k' : Key), diverges k k' = diverges k' k
  | [], [] => rfl
  | [], _ :: _ => rfl
  | _ :: _, [] => rfl
  | a :: p, b :: q => by
    by_cases h : a = b
    · subst h; simp [diverges, diverges_symm p q]
    · have h' : ¬ b = a := fun e => h e.symm
      simp [diverges, h, h']

theorem diverges_spec : ∀ (k' k : Key), diverges k' k = true →
    ∃ c a b p q, k' = c ++ a :: p ∧ k = c ++ b :: q ∧ a ≠ b
  | [], _, h => by simp [diverges] at h
  | _ :: _, [], h => by simp [diverges] at h
  | a :: p, b :: q, h => by
    by_cases e : a = b
    · subst e
      simp only [diverges, if_true] at h
      obtain ⟨c, x, y, p', q', h1, h2, h3⟩ := diverges_spec p q h
      exact ⟨a :: c, x, y, p', q', by simp [h1], by simp [h2], h3⟩
    · exact ⟨[], a, b, p, q, rfl, rfl, e⟩

theorem diverges_irrefl : ∀ k : Key, diverges k k = false
  | [] => rfl
  | a :: p => by simp [diverges, diverges_irrefl p]

theorem diverges_ne {k k' : Key} (h : diverges k k' = true) : k ≠ k' := by
  intro e; subst e; simp [diverges_irrefl] at h

theorem diverges_append_left : ∀ (c k k' : Key), diverges (c ++ k) (c ++ k') = diverges k k'
  | [], _, _ => rfl
  | a :: c, k, k' => by simp [diverges, diverges_append_left c k k']

/-- a key that diverges from `p ++ [a]` diverges from `p` or extends `p` by another segment -/
theorem diverges_snoc : ∀ (p : Key) (a : SKey) (k : Key), diverges (p ++ [a]) k = true →
    diverges p k = true ∨ ∃ b q, k = p ++ b :: q ∧ b ≠ a
  | [], a, [], h => by simp [diverges] at h
  | [], a, b :: q, h => by
    by_cases e : a = b
    · subst e; simp [diverges] at h
    · exact Or.inr ⟨b, q, rfl, fun e' => e e'.symm⟩
  | x :: p, a, [], h => by simp [diverges] at h
  | x :: p, a, y :: q, h => by
    by_cases e : x = y
    · subst e
      simp only [List.cons_append, diverges, if_true] at h
      rcases diverges_snoc p a q h with h1 | ⟨b, q', h1, h2⟩
      · exact Or.inl (by simp [diverges, h1])
      · exact Or.inr ⟨b, q', by simp [h1], h2⟩
    · exact Or.inl (by simp [diverges, e])

/-- divergence from a key is inherited by its extensions -/
theorem diverges_extend : ∀ (k t r : Key), diverges k t = true → diverges k (t ++ r) = true
  | [], _, _, h => by simp [diverges] at h
  | _ :: _, [], _, h => by simp [diverges] at h
  | a :: p, b :: q, r, h => by
    by_cases e : a = b
    · subst e
      simp only [diverges, if_true] at h
      simp [diverges, diverges_extend p q r h]
    · simp [diverges, e]

/-! ### reading below a key -/

theorem getK_append : ∀ (c r : Key) (kvs : KV), c ≠ [] → r ≠ [] →
    getK (c ++ r) kvs = match getK c kvs with
      | some (.ns sub) => getK r sub
      | _ => .none
  | [], _, _, h, _ => absurd rfl h
  | [s], r, kvs, _, hr => by
    simp only [List.singleton_append]
    rw [getK_cons s r hr]
    simp only [getK]
    cases lookup s kvs with
    | none => rfl
    | some w => cases w <;> rfl
  | s :: t :: rest, r, kvs, _, hr => by
    have hne : (t :: rest) ++ r ≠ [] := by simp
    simp only [List.cons_append] at hne ⊢
    rw [getK_cons s (t :: (rest ++ r)) hne, getK_cons s (t :: rest) (by simp)]
    cases hl : lookup s kvs with
    | none => rfl
    | some w =>
      cases w with
      | ns sub =>
        have := getK_append (t :: rest) r sub (by simp) hr
        simpa using this
      | none => rfl
      | atom _ => rfl
      | lst _ => rfl
      | tup _ => rfl
      | dct _ => rfl

/-- nothing can be read below a value that is not a namespace -/
theorem getK_below (c r : Key) (kvs : KV) (hc : c ≠ []) (hr : r ≠ []) (v : V)
    (h : getK c kvs = some v) (hv : ∀ sub, v ≠ .ns sub) : getK (c ++ r) kvs = .none := by
  rw [getK_append c r kvs hc hr, h]
  cases v with
  | ns sub => exact absurd rfl (hv sub)
  | none => rfl
  | atom _ => rfl
  | lst _ => rfl
  | tup _ => rfl
  | dct _ => rfl

theorem getK_below_none (c r : Key) (kvs : KV) (hc : c ≠ []) (hr : r ≠ [])
    (h : getK c kvs = .none) : getK (c ++ r) kvs = .none := by
  rw [getK_append c r kvs hc hr, h]

/-! ### writes -/

theorem getK_setK_frame (t k : Key) (v : V) (kvs : KV) (h : diverges t k = true) :
    getK k (setK t v kvs) = getK k kvs := by
  obtain ⟨c, a, b, p, q, h1, h2, h3⟩ := diverges_spec t k h
  subst h1; subst h2
  exact getK_setK_diverge c a b p q v kvs h3

/-- writing the value a key already holds changes nothing -/
theorem setK_of_getK : ∀ (k : Key) (v : V) (kvs : KV), getK k kvs = some v → setK k v kvs = kvs
  | [], _, _, _ => rfl
  | [leaf], v, kvs, h => by
    simp only [getK] at h
    simp only [setK]
    exact insert_lookup_self leaf v kvs h
  | s :: t :: rest, v, kvs, h => by
    simp only [getK] at h
    cases hl : lookup s kvs with
    | none => simp [hl] at h
    | some w =>
      cases w with
      | ns sub =>
        simp only [hl] at h
        simp only [setK, hl]
        rw [setK_of_getK (t :: rest) v sub h]
        exact insert_lookup_self s _ kvs hl
      | none => simp [hl] at h
      | atom _ => simp [hl] at h
      | lst _ => simp [hl] at h
      | tup _ => simp [hl] at h
      | dct _ => simp [hl] at h

/-! ### deletion -/

theorem lookup_eraseAll_self (k : SKey) : ∀ kvs : KV, lookup k (eraseAll k kvs) = .none
  | [] => rfl
  | (k', v') :: r => by
    by_cases e : k' = k
    · simp [eraseAll, List.filter, e] ; exact lookup_eraseAll_self k r
    · have : (k' != k) = true := by simp [e]
      simp only [eraseAll, List.filter, this, lookup, e, if_false]
      exact lookup_eraseAll_self k r

theorem lookup_eraseAll_other {k k' : SKey} (h : k' ≠ k) : ∀ kvs : KV, lookup k' (eraseAll k kvs) = lookup k' kvs
  | [] => rfl
  | (k'', v'') :: r => by
    by_cases e : k'' = k
    · subst e
      have hne : ¬ k'' = k' := fun e' => h e'.symm
      simp only [eraseAll, List.filter, bne_self_eq_false, lookup, hne, if_false]
      exact lookup_eraseAll_other h r
    · have : (k'' != k) = true := by simp [e]
      simp only [eraseAll, List.filter, this, lookup]
      by_cases e2 : k'' = k'
      · simp [e2]
      · simp only [e2, if_false]
        exact lookup_eraseAll_other h r

theorem delKey_cons (s : SKey) (q : Key) (hq : q ≠ []) (kvs : KV) :
    delKey (s :: q) kvs =
      match lookup s kvs with
      | some (.ns sub) => insert s (.ns (delKey q sub)) kvs
      | _ => kvs := by
  cases q with
  | nil => exact absurd rfl hq
  | cons t rest =>
    cases hl : lookup s kvs with
    | none => simp [delKey, hl]
    | some w => cases w <;> simp [delKey, hl]

/-- after the deletion the key is gone -/
theorem getK_delKey_same : ∀ (k : Key) (kvs : KV), getK k (delKey k kvs) = .none
  | [], _ => rfl
  | [leaf], kvs => by simp only [delKey, getK]; exact lookup_eraseAll_self leaf kvs
  | s :: t :: rest, kvs => by
    simp only [delKey]
    cases hl : lookup s kvs with
    | none => simp [getK, hl]
    | some w =>
      cases w with
      | ns sub => simp [getK, lookup_insert_same, getK_delKey_same (t :: rest) sub]
      | none => simp [getK, hl]
      | atom _ => simp [getK, hl]
      | lst _ => simp [getK, hl]
      | tup _ => simp [getK, hl]
      | dct _ => simp [getK, hl]

/-- a deletion never makes a key readable -/
theorem getK_delKey_mono : ∀ (t k : Key) (kvs : KV), getK k kvs = .none → getK k (delKey t kvs) = .none
  | [], _, _, h => h
  | _, [], _, _ => rfl
  | [l], [x], kvs, h => by
    simp only [getK] at h
    simp only [delKey, getK]
    by_cases e : x = l
    · subst e; exact lookup_eraseAll_self x kvs
    · rw [lookup_eraseAll_other e]; exact h
  | [l], x :: y :: q, kvs, h => by
    simp only [delKey]
    rw [getK_cons x (y :: q) (by simp)] at h ⊢
    by_cases e : x = l
    · subst e; rw [lookup_eraseAll_self]
    · rw [lookup_eraseAll_other e]; exact h
  | s :: t :: rest, [x], kvs, h => by
    simp only [getK] at h
    rw [delKey_cons s (t :: rest) (by simp)]
    cases hl : lookup s kvs with
    | none => simpa [getK] using h
    | some w =>
      cases w with
      | ns sub =>
        simp only [getK]
        by_cases e : x = s
        · subst e; rw [hl] at h; cases h
        · rw [lookup_insert_other _ e]; exact h
      | none => simpa [getK] using h
      | atom _ => simpa [getK] using h
      | lst _ => simpa [getK] using h
      | tup _ => simpa [getK] using h
      | dct _ => simpa [getK] using h
  | s :: t :: rest, x :: y :: q, kvs, h => by
    rw [delKey_cons s (t :: rest) (by simp)]
    cases hl : lookup s kvs with
    | none => exact h
    | some w =>
      cases w with
      | ns sub =>
        rw [getK_cons x (y :: q) (by simp)] at h ⊢
        by_cases e : x = s
        · subst e
          rw [lookup_insert_same]
          rw [hl] at h
          exact getK_delKey_mono (t :: rest) (y :: q) sub h
        · rw [lookup_insert_other _ e]; exact h
      | none => exact h
      | atom _ => exact h
      | lst _ => exact h
      | tup _ => exact h
      | dct _ => exact h

/-- frame: a key that branches off is not affected by a deletion -/
theorem getK_delKey_diverge : ∀ (c : Key) (a b : SKey) (p q : Key) (kvs : KV),
    a ≠ b → getK (c ++ b :: q) (delKey (c ++ a :: p) kvs) = getK (c ++ b :: q) kvs
  | [], a, b, p, q, kvs, hab => by
    have hba : b ≠ a := Ne.symm hab
    simp only [List.nil_append]
    cases p with
    | nil =>
      simp only [delKey]
      cases q with
      | nil => simp only [getK]; exact lookup_eraseAll_other hba kvs
      | cons q1 qs =>
        rw [getK_cons b (q1 :: qs) (by simp), getK_cons b (q1 :: qs) (by simp), lookup_eraseAll_other hba]
    | cons p1 ps =>
      rw [delKey_cons a (p1 :: ps) (by simp)]
      cases hl : lookup a kvs with
      | none => rfl
      | some w =>
        cases w with
        | ns sub =>
          cases q with
          | nil => simp only [getK]; exact lookup_insert_other _ hba kvs
          | cons q1 qs =>
            rw [getK_cons b (q1 :: qs) (by simp), getK_cons b (q1 :: qs) (by simp), lookup_insert_other _ hba]
        | none => rfl
        | atom _ => rfl
        | lst _ => rfl
        | tup _ => rfl
        | dct _ => rfl
  | s :: c, a, b, p, q, kvs, hab => by
    have hne1 : c ++ a :: p ≠ [] := by simp
    have hne2 : c ++ b :: q ≠ [] := by simp
    simp only [List.cons_append]
    rw [delKey_cons s (c ++ a :: p) hne1, getK_cons s (c ++ b :: q) hne2, getK_cons s (c ++ b :: q) hne2]
    cases hl : lookup s kvs with
    | none => simp [hl]
    | some w =>
      cases w with
      | ns sub =>
        simp only [lookup_insert_same]
        exact getK_delKey_diverge c a b p q sub hab
      | none => simp [hl]
      | atom _ => simp [hl]
      | lst _ => simp [hl]
      | tup _ => simp [hl]
      | dct _ => simp [hl]

theorem getK_delKey_frame (t k : Key) (kvs : KV) (h : diverges t k = true) :
    getK k (delKey t kvs) = getK k kvs := by
  obtain ⟨c, a, b, p, q, h1, h2, h3⟩ := diverges_spec t k h
  subst h1; subst h2
  exact getK_delKey_diverge c a b p q kvs h3

/-! ### `del_target_key` and the whole strip -/

theorem getK_delTargetKey_mono (t k : Key) (kvs : KV) (h : getK k kvs = .none) :
    getK k (delTargetKey t kvs) = .none := by
  have h1 := getK_delKey_mono t k kvs h
  unfold delTargetKey
  simp only []
  split
  · exact h1
  · split
    · split
      · exact getK_delKey_mono _ _ _ h1
      · exact h1
    · exact h1

theorem getK_delTargetKey_same (t : Key) (kvs : KV) : getK t (delTargetKey t kvs) = .none := by
  have h1 := getK_delKey_same t kvs
  unfold delTargetKey
  simp only []
  split
  · exact h1
  · split
    · split
      · exact getK_delKey_mono _ _ _ h1
      · exact h1
    · exact h1

theorem getK_delTargetKey_frame (t k : Key) (kvs : KV) (h : diverges t k = true) :
    getK k (delTargetKey t kvs) = getK k kvs := by
  have h1 := getK_delKey_frame t k kvs h
  unfold delTargetKey
  simp only []
  split
  · exact h1
  · rename_i hlen
    split
    · rename_i v hv
      split
      · rename_i hf
        rw [← h1]
        have htne : t ≠ [] := by intro e; subst e; simp at hlen
        have hp : t.dropLast ≠ [] := by
          intro e
          have := congrArg List.length e
          simp at this
          omega
        have hsplit := List.dropLast_concat_getLast htne
        rw [← hsplit] at h
        rcases diverges_snoc t.dropLast (t.getLast htne) k h with hd | ⟨b, q, hk, _⟩
        · exact getK_delKey_frame _ _ _ hd
        · subst hk
          rw [getK_below_none t.dropLast (b :: q) _ hp (by simp) (getK_delKey_same _ _)]
          rw [getK_append t.dropLast (b :: q) _ hp (by simp), hv]
          cases v with
          | ns sub =>
            cases sub with
            | nil => exact (getK_nil (b :: q)).symm
            | cons kv rest => simp [falsy] at hf
          | none => rfl
          | atom _ => rfl
          | lst _ => rfl
          | tup _ => rfl
          | dct _ => rfl
      · exact h1
    · exact h1

theorem getK_delKeys_mono : ∀ (ts : List Key) (k : Key) (kvs : KV), getK k kvs = .none → getK k (delKeys ts kvs) = .none
  | [], _, _, h => h
  | t :: r, k, kvs, h => getK_delKeys_mono r k _ (getK_delTargetKey_mono t k kvs h)

theorem getK_delKeys_frame : ∀ (ts : List Key) (k : Key) (kvs : KV), (∀ t ∈ ts, diverges t k = true) →
    getK k (delKeys ts kvs) = getK k kvs
  | [], _, _, _ => rfl
  | t :: r, k, kvs, h => by
    simp only [delKeys]
    rw [getK_delKeys_frame r k _ (fun x hx => h x (List.mem_cons_of_mem _ hx))]
    exact getK_delTargetKey_frame t k kvs (h t List.mem_cons_self)

/-- after the strip nothing can be read at or below a stripped key -/
theorem getK_delKeys_gone : ∀ (ts : List Key) (t r : Key) (kvs : KV), t ∈ ts → t ≠ [] →
    getK (t ++ r) (delKeys ts kvs) = .none
  | [], _, _, _, h, _ => by cases h
  | x :: rest, t, r, kvs, h, hne => by
    simp only [delKeys]
    rcases List.mem_cons.mp h with e | h'
    · subst e
      apply getK_delKeys_mono
      cases r with
      | nil => simpa using getK_delTargetKey_same t kvs
      | cons r1 rs => exact getK_below_none t (r1 :: rs) _ hne (by simp) (getK_delTargetKey_same t kvs)
    · exact getK_delKeys_gone rest t r _ h' hne

/-! ### `set_target_value` -/

theorem diverges_nil_right : ∀ k : Key, diverges k [] = false
  | [] => rfl
  | _ :: _ => rfl

theorem diverges_append_cases : ∀ (d c k : Key), diverges (d ++ c) k = true →
    diverges d k = true ∨ ∃ r, r ≠ [] ∧ k = d ++ r
  | [], c, [], h => by simp [diverges_nil_right] at h
  | [], _, y :: k', _ => Or.inr ⟨y :: k', by simp, rfl⟩
  | x :: d', c, [], h => by simp [diverges] at h
  | x :: d', c, y :: k', h => by
    by_cases e : x = y
    · subst e
      simp only [List.cons_append, diverges, if_true] at h
      rcases diverges_append_cases d' c k' h with h1 | ⟨r, hr, hk⟩
      · exact Or.inl (by simp [diverges, h1])
      · exact Or.inr ⟨r, hr, by simp [hk]⟩
    · exact Or.inl (by simp [diverges, e])

/-- replacing a list by a list at `d` is invisible from every key that diverges from a key below `d` -/
theorem getK_setK_list_frame (d c k : Key) (xs ys : List V) (cfg : KV)
    (hg : getK d cfg = some (.lst xs)) (h : diverges (d ++ c) k = true) :
    getK k (setK d (.lst ys) cfg) = getK k cfg := by
  have hd : d ≠ [] := by intro e; subst e; simp [getK] at hg
  rcases diverges_append_cases d c k h with h1 | ⟨r, hr, hk⟩
  · exact getK_setK_frame d k _ cfg h1
  · subst hk
    rw [getK_below d r cfg hd hr _ hg (by intro sub e; cases e)]
    exact getK_below d r _ hd hr _ (getK_setK_same d (.lst ys) cfg hd) (by intro sub e; cases e)

/-- frame law of `set_target_value`: only keys at, above or below the target can change -/
theorem getK_setTargetValue_frame (l : Link) (v : V) (cfg : KV) (k : Key) (h : diverges l.target k = true) :
    getK k (setTargetValue l v cfg) = getK k cfg := by
  unfold setTargetValue
  cases hk : l.kind with
  | plain => exact getK_setK_frame _ _ _ _ h
  | initArg n =>
    simp only []
    have hpath : getK k (if (getK l.target cfg).isSome then setK l.target v cfg else cfg) = getK k cfg := by
      split
      · exact getK_setK_frame _ _ _ _ h
      · rfl
    split
    · rename_i items hg
      split
      · have h' : diverges (l.target.take n ++ l.target.drop n) k = true := by rw [List.take_append_drop]; exact h
        exact getK_setK_list_frame _ _ _ _ _ cfg hg h'
      · exact hpath
    · exact hpath

/-! ### reading the sources -/

/-- the arguments a link would receive from `cfg` (`none`: a source is absent) -/
def argsOf (cfg : KV) : List Src → Option (List V)
  | [] => some []
  | s :: r =>
    match getK s.key cfg, argsOf cfg r with
    | some v, some vs => some (coerceArg s v :: vs)
    | _, _ => .none

theorem argsOf_congr (a b : KV) : ∀ (srcs : List Src), (∀ s ∈ srcs, getK s.key a = getK s.key b) →
    argsOf a srcs = argsOf b srcs
  | [], _ => rfl
  | s :: r, h => by
    simp only [argsOf]
    rw [h s List.mem_cons_self, argsOf_congr a b r (fun x hx => h x (List.mem_cons_of_mem _ hx))]

theorem readSources_congr (E : Env) (a b : KV) : ∀ (srcs : List Src), (∀ s ∈ srcs, getK s.key a = getK s.key b) →
    readSources E a srcs = readSources E b srcs
  | [], _ => rfl
  | s :: r, h => by
    simp only [readSources]
    rw [h s List.mem_cons_self, readSources_congr E a b r (fun x hx => h x (List.mem_cons_of_mem _ hx))]

/-- when the loop over the sources delivers arguments they are the values held by the namespace … -/
theorem readSources_some (E : Env) (cfg : KV) : ∀ (srcs : List Src) (args : List V),
    readSources E cfg srcs = .ok (some args) → argsOf cfg srcs = some args
  | [], args, h => by simp only [readSources] at h; cases h; rfl
  | s :: r, args, h => by
    simp only [readSources] at h
    cases hg : getK s.key cfg with
    | none =>
      simp only [hg] at h
      split at h <;> cases h
    | some v =>
      simp only [hg] at h
      split at h
      · cases h
      · cases hr : readSources E cfg r with
        | error e => simp [hr] at h
        | ok o =>
          cases o with
          | none => simp [hr] at h
          | some vs =>
            simp only [hr] at h
            cases h
            simp [argsOf, hg, readSources_some E cfg r vs hr]

/-- … and a link is skipped only when a source is absent -/
theorem readSources_none (E : Env) (cfg : KV) : ∀ (srcs : List Src),
    readSources E cfg srcs = .ok .none → argsOf cfg srcs = .none
  | [], h => by simp [readSources] at h
  | s :: r, h => by
    simp only [readSources] at h
    cases hg : getK s.key cfg with
    | none => simp [argsOf, hg]
    | some v =>
      simp only [hg] at h
      split at h
      · cases h
      · cases hr : readSources E cfg r with
        | error e => simp [hr] at h
        | ok o =>
          cases o with
          | none => simp [argsOf, hg, readSources_none E cfg r hr]
          | some vs => simp [hr] at h

/-! ### one link -/

theorem anyHas_nil : ∀ items : List V, anyHas [] items = false
  | [] => rfl
  | .ns kvs :: r => by simp [anyHas, getK, anyHas_nil r]
  | .none :: r => by simp [anyHas, anyHas_nil r]
  | .atom _ :: r => by simp [anyHas, anyHas_nil r]
  | .lst _ :: r => by simp [anyHas, anyHas_nil r]
  | .tup _ :: r => by simp [anyHas, anyHas_nil r]
  | .dct _ :: r => by simp [anyHas, anyHas_nil r]

/-- what the target path holds after `set_target_value` -/
theorem getK_setTargetValue_target (l : Link) (v : V) (cfg : KV) :
    (∀ w, getK l.target (setTargetValue l v cfg) = some w → w = v) ∧
    (l.kind = .plain → l.target ≠ [] → getK l.target (setTargetValue l v cfg) = some v) := by
  unfold setTargetValue
  cases hk : l.kind with
  | plain =>
    refine ⟨fun w hw => ?_, fun _ hne => getK_setK_same _ _ _ hne⟩
    by_cases hne : l.target = []
    · rw [hne] at hw; simp [getK] at hw
    · simp only [] at hw
      rw [getK_setK_same _ _ _ hne] at hw
      cases hw; rfl
  | initArg n =>
    refine ⟨fun w hw => ?_, fun h => by cases h⟩
    simp only [] at hw
    have hpath : ∀ w, getK l.target (if (getK l.target cfg).isSome then setK l.target v cfg else cfg) = some w → w = v := by
      intro w hw
      split at hw
      · rename_i hs
        have hne : l.target ≠ [] := by intro e; rw [e] at hs; simp [getK] at hs
        rw [getK_setK_same _ _ _ hne] at hw
        cases hw; rfl
      · rename_i hs
        rw [hw] at hs
        simp at hs
    split at hw
    · rename_i items hg
      split at hw
      · rename_i ha
        have hd : l.target.take n ≠ [] := by intro e; rw [e] at hg; simp [getK] at hg
        have hc : l.target.drop n ≠ [] := by intro e; rw [e, anyHas_nil] at ha; cases ha
        have := getK_below (l.target.take n) (l.target.drop n) _ hd hc _
          (getK_setK_same (l.target.take n) (.lst (setInItems (l.target.drop n) v items)) cfg hd) (by intro sub e; cases e)
        rw [List.take_append_drop] at this
        rw [this] at hw
        cases hw
      · exact hpath w hw
    · exact hpath w hw

theorem applyLink_frame (E : Env) (l : Link) (cfg cfg1 : KV) (h : applyLink E l cfg = .ok cfg1)
    (k : Key) (hk : diverges l.target k = true) : getK k cfg1 = getK k cfg := by
  unfold applyLink at h
  split at h
  · cases h
  · cases h; rfl
  · split at h
    · cases h
    · cases h
      exact getK_setTargetValue_frame l _ cfg k hk

theorem applyLink_value (E : Env) (l : Link) (cfg cfg1 : KV) (h : applyLink E l cfg = .ok cfg1)
    (args : List V) (ha : argsOf cfg l.sources = some args) :
    ∃ v, linkValue E l args = .ok v ∧ cfg1 = setTargetValue l v cfg := by
  unfold applyLink at h
  split at h
  · cases h
  · rename_i hr
    rw [readSources_none E cfg _ hr] at ha
    cases ha
  · rename_i args' hr
    have := readSources_some E cfg _ _ hr
    rw [this] at ha
    cases ha
    split at h
    · cases h
    · rename_i v hv
      cases h
      exact ⟨v, hv, rfl⟩

/-- a skipped link leaves the namespace as it is -/
theorem applyLink_skip (E : Env) (l : Link) (cfg cfg1 : KV) (h : applyLink E l cfg = .ok cfg1)
    (ha : argsOf cfg l.sources = .none) : cfg1 = cfg := by
  unfold applyLink at h
  split at h
  · cases h
  · cases h; rfl
  · rename_i args' hr
    rw [readSources_some E cfg _ _ hr] at ha
    cases ha

/-! ### the pass over all links -/

/-- every target diverges from every source key, its own link's included -/
def SrcIndep (ls : List Link) : Prop := ∀ l ∈ ls, ∀ l' ∈ ls, ∀ s ∈ l'.sources, diverges l.target s.key = true

/-- the targets diverge pairwise -/
def TgtIndep (ls : List Link) : Prop := ls.Pairwise (fun l l' => diverges l.target l'.target = true)

theorem SrcIndep.tail {l : Link} {r : List Link} (h : SrcIndep (l :: r)) : SrcIndep r :=
  fun a ha b hb s hs => h a (List.mem_cons_of_mem _ ha) b (List.mem_cons_of_mem _ hb) s hs

/-- what a successful pass over `ls` guarantees, in terms of the namespace it started from -/
theorem apply_inv (E : Env) : ∀ (ls : List Link) (cfg cfg' : KV),
    applyParsingLinks E ls cfg = .ok cfg' → SrcIndep ls → TgtIndep ls →
    (∀ k, (∀ l ∈ ls, diverges l.target k = true) → getK k cfg' = getK k cfg) ∧
    (∀ l ∈ ls, ∀ args, argsOf cfg l.sources = some args →
      ∃ v, linkValue E l args = .ok v ∧ (∀ w, getK l.target cfg' = some w → w = v) ∧
        (l.kind = .plain → l.target ≠ [] → getK l.target cfg' = some v))
  | [], cfg, cfg', h, _, _ => by
    simp only [applyParsingLinks] at h
    cases h
    exact ⟨fun _ _ => rfl, fun l hl => by cases hl⟩
  | l0 :: r, cfg, cfg', h, hST, hTT => by
    simp only [applyParsingLinks] at h
    cases h1 : applyLink E l0 cfg with
    | error e => simp [h1] at h
    | ok cfg1 =>
      simp only [h1] at h
      have hTT' := List.pairwise_cons.mp hTT
      obtain ⟨ihF, ihV⟩ := apply_inv E r cfg1 cfg' h hST.tail hTT'.2
      refine ⟨fun k hk => ?_, fun l hl args ha => ?_⟩
      · rw [ihF k (fun x hx => hk x (List.mem_cons_of_mem _ hx))]
        exact applyLink_frame E l0 cfg cfg1 h1 k (hk l0 List.mem_cons_self)
      · rcases List.mem_cons.mp hl with e | hl'
        · subst e
          obtain ⟨v, hv, hc⟩ := applyLink_value E l cfg cfg1 h1 args ha
          have hstable : getK l.target cfg' = getK l.target cfg1 :=
            ihF l.target (fun x hx => by rw [diverges_symm]; exact hTT'.1 x hx)
          have ht := getK_setTargetValue_target l v cfg
          rw [← hc] at ht
          refine ⟨v, hv, fun w hw => ht.1 w (by rw [← hstable]; exact hw), fun hp hne => ?_⟩
          rw [hstable]; exact ht.2 hp hne
        · have hsame : argsOf cfg1 l.sources = argsOf cfg l.sources :=
            argsOf_congr cfg1 cfg l.sources (fun s hs =>
              applyLink_frame E l0 cfg cfg1 h1 s.key (hST l0 List.mem_cons_self l hl s hs))
          exact ihV l hl' args (by rw [hsame]; exact ha)

/-! ### targets inside the items of a list -/

/-- a write strictly below `d` leaves a namespace at `d` -/
theorem getK_setK_prefix : ∀ (d r : Key) (v : V) (cfg : KV), d ≠ [] → r ≠ [] →
    ∃ sub, getK d (setK (d ++ r) v cfg) = some (.ns sub)
  | [], _, _, _, h, _ => absurd rfl h
  | [s], r, v, cfg, _, hr => by
    simp only [List.singleton_append]
    rw [setK_cons s r hr]
    cases hl : lookup s cfg with
    | none => exact ⟨_, lookup_insert_same _ _ _⟩
    | some w => cases w <;> exact ⟨_, lookup_insert_same _ _ _⟩
  | s :: t :: rest, r, v, cfg, _, hr => by
    have hne : (t :: rest) ++ r ≠ [] := by simp
    simp only [List.cons_append] at hne ⊢
    rw [setK_cons s _ hne]
    cases hl : lookup s cfg with
    | none =>
      obtain ⟨sub, h⟩ := getK_setK_prefix (t :: rest) r v [] (by simp) hr
      exact ⟨sub, by simpa [getK, lookup_insert_same] using h⟩
    | some w =>
      cases w with
      | ns sub0 =>
        obtain ⟨sub, h⟩ := getK_setK_prefix (t :: rest) r v sub0 (by simp) hr
        exact ⟨sub, by simpa [getK, lookup_insert_same] using h⟩
      | none =>
        obtain ⟨sub, h⟩ := getK_setK_prefix (t :: rest) r v [] (by simp) hr
        exact ⟨sub, by simpa [getK, lookup_insert_same] using h⟩
      | atom _ =>
        obtain ⟨sub, h⟩ := getK_setK_prefix (t :: rest) r v [] (by simp) hr
        exact ⟨sub, by simpa [getK, lookup_insert_same] using h⟩
      | lst _ =>
        obtain ⟨sub, h⟩ := getK_setK_prefix (t :: rest) r v [] (by simp) hr
        exact ⟨sub, by simpa [getK, lookup_insert_same] using h⟩
      | tup _ =>
        obtain ⟨sub, h⟩ := getK_setK_prefix (t :: rest) r v [] (by simp) hr
        exact ⟨sub, by simpa [getK, lookup_insert_same] using h⟩
      | dct _ =>
        obtain ⟨sub, h⟩ := getK_setK_prefix (t :: rest) r v [] (by simp) hr
        exact ⟨sub, by simpa [getK, lookup_insert_same] using h⟩

theorem itemValues_setInItems_frame (c' c : Key) (v' : V) (h : diverges c' c = true) :
    ∀ items : List V, itemValues c (setInItems c' v' items) = itemValues c items
  | [] => rfl
  | .ns kvs :: r => by
    simp only [setInItems]
    split
    · simp [itemValues, getK_setK_frame c' c v' kvs h, itemValues_setInItems_frame c' c v' h r]
    · simp [itemValues, itemValues_setInItems_frame c' c v' h r]
  | .none :: r => by simp [setInItems, itemValues, itemValues_setInItems_frame c' c v' h r]
  | .atom _ :: r => by simp [setInItems, itemValues, itemValues_setInItems_frame c' c v' h r]
  | .lst _ :: r => by simp [setInItems, itemValues, itemValues_setInItems_frame c' c v' h r]
  | .tup _ :: r => by simp [setInItems, itemValues, itemValues_setInItems_frame c' c v' h r]
  | .dct _ :: r => by simp [setInItems, itemValues, itemValues_setInItems_frame c' c v' h r]

/-- after the loop over the items every item that has the key holds the value -/
theorem itemValues_setInItems_own (c : Key) (v : V) (hc : c ≠ []) :
    ∀ items : List V, ∀ w ∈ itemValues c (setInItems c v items), w = v
  | [], w, hw => by simp [setInItems, itemValues] at hw
  | .ns kvs :: r, w, hw => by
    simp only [setInItems] at hw
    split at hw
    · simp only [itemValues, getK_setK_same c v kvs hc, Option.toList_some, List.singleton_append, List.mem_cons] at hw
      rcases hw with e | hw
      · exact e
      · exact itemValues_setInItems_own c v hc r w hw
    · rename_i hs
      have hn : getK c kvs = .none := by
        cases hg : getK c kvs with
        | none => rfl
        | some x => simp [hg] at hs
      simp only [itemValues, hn, Option.toList_none, List.nil_append] at hw
      exact itemValues_setInItems_own c v hc r w hw
  | .none :: r, w, hw => by simp only [setInItems, itemValues] at hw; exact itemValues_setInItems_own c v hc r w hw
  | .atom _ :: r, w, hw => by simp only [setInItems, itemValues] at hw; exact itemValues_setInItems_own c v hc r w hw
  | .lst _ :: r, w, hw => by simp only [setInItems, itemValues] at hw; exact itemValues_setInItems_own c v hc r w hw
  | .tup _ :: r, w, hw => by simp only [setInItems, itemValues] at hw; exact itemValues_setInItems_own c v hc r w hw
  | .dct _ :: r, w, hw => by simp only [setInItems, itemValues] at hw; exact itemValues_setInItems_own c v hc r w hw

/-- the loop changes nothing when every item already holds the value -/
theorem setInItems_id (c : Key) (v : V) : ∀ items : List V, (∀ w ∈ itemValues c items, w = v) →
    setInItems c v items = items
  | [], _ => rfl
  | .ns kvs :: r, h => by
    have hr : ∀ w ∈ itemValues c r, w = v := fun w hw => h w (by simp [itemValues, hw])
    simp only [setInItems, setInItems_id c v r hr]
    split
    · rename_i hs
      cases hg : getK c kvs with
      | none => simp [hg] at hs
      | some x =>
        have : x = v := h x (by simp [itemValues, hg])
        subst this
        rw [setK_of_getK c x kvs hg]
    · rfl
  | .none :: r, h => by simp only [setInItems]; rw [setInItems_id c v r (fun w hw => h w (by simpa [itemValues] using hw))]
  | .atom _ :: r, h => by simp only [setInItems]; rw [setInItems_id c v r (fun w hw => h w (by simpa [itemValues] using hw))]
  | .lst _ :: r, h => by simp only [setInItems]; rw [setInItems_id c v r (fun w hw => h w (by simpa [itemValues] using hw))]
  | .tup _ :: r, h => by simp only [setInItems]; rw [setInItems_id c v r (fun w hw => h w (by simpa [itemValues] using hw))]
  | .dct _ :: r, h => by simp only [setInItems]; rw [setInItems_id c v r (fun w hw => h w (by simpa [itemValues] using hw))]

theorem itemValues_of_not_anyHas (c : Key) : ∀ items : List V, anyHas c items = false → itemValues c items = []
  | [], _ => rfl
  | .ns kvs :: r, h => by
    simp only [anyHas, Bool.or_eq_false_iff] at h
    have hn : getK c kvs = .none := by
      cases hg : getK c kvs with
      | none => rfl
      | some x => simp [hg] at h
    simp [itemValues, hn, itemValues_of_not_anyHas c r h.2]
  | .none :: r, h => by simp only [anyHas] at h; simp [itemValues, itemValues_of_not_anyHas c r h]
  | .atom _ :: r, h => by simp only [anyHas] at h; simp [itemValues, itemValues_of_not_anyHas c r h]
  | .lst _ :: r, h => by simp only [anyHas] at h; simp [itemValues, itemValues_of_not_anyHas c r h]
  | .tup _ :: r, h => by simp only [anyHas] at h; simp [itemValues, itemValues_of_not_anyHas c r h]
  | .dct _ :: r, h => by simp only [anyHas] at h; simp [itemValues, itemValues_of_not_anyHas c r h]

theorem itemValues_nil : ∀ items : List V, itemValues [] items = []
  | [] => rfl
  | .ns kvs :: r => by simp [itemValues, getK, itemValues_nil r]
  | .none :: r => by simp [itemValues, itemValues_nil r]
  | .atom _ :: r => by simp [itemValues, itemValues_nil r]
  | .lst _ :: r => by simp [itemValues, itemValues_nil r]
  | .tup _ :: r => by simp [itemValues, itemValues_nil r]
  | .dct _ :: r => by simp [itemValues, itemValues_nil r]

/-! ### every place that holds the target -/

theorem targetValues_plain (l : Link) (cfg : KV) (hk : l.kind = .plain) :
    targetValues l cfg = (getK l.target cfg).toList := by
  simp [targetValues, hk]

theorem targetValues_list (l : Link) (n : Nat) (cfg : KV) (items : List V) (hk : l.kind = .initArg n)
    (hg : getK (l.target.take n) cfg = some (.lst items)) :
    targetValues l cfg = itemValues (l.target.drop n) items := by
  simp [targetValues, hk, hg]

theorem targetValues_path (l : Link) (n : Nat) (cfg : KV) (hk : l.kind = .initArg n)
    (hnl : ∀ items, getK (l.target.take n) cfg ≠ some (.lst items)) :
    targetValues l cfg = (getK l.target cfg).toList := by
  unfold targetValues
  rw [hk]
  simp only []    -- the catch-all equation of the match is discharged with `hnl`

/-- the three things `set_target_value` can do -/
theorem setTargetValue_shape (l : Link) (v : V) (cfg : KV) :
    setTargetValue l v cfg = cfg ∨ setTargetValue l v cfg = setK l.target v cfg ∨
    ∃ n items, l.kind = .initArg n ∧ getK (l.target.take n) cfg = some (.lst items) ∧
      anyHas (l.target.drop n) items = true ∧
      setTargetValue l v cfg = setK (l.target.take n) (.lst (setInItems (l.target.drop n) v items)) cfg := by
  unfold setTargetValue
  cases hk : l.kind with
  | plain => exact Or.inr (Or.inl rfl)
  | initArg n =>
    simp only []
    have hpath : (if (getK l.target cfg).isSome then setK l.target v cfg else cfg) = cfg ∨
        (if (getK l.target cfg).isSome then setK l.target v cfg else cfg) = setK l.target v cfg := by
      split
      · exact Or.inr rfl
      · exact Or.inl rfl
    split
    · rename_i items hg
      split
      · rename_i ha
        exact Or.inr (Or.inr ⟨n, items, rfl, hg, ha, rfl⟩)
      · rcases hpath with h | h
        · exact Or.inl h
        · exact Or.inr (Or.inl h)
    · rcases hpath with h | h
      · exact Or.inl h
      · exact Or.inr (Or.inl h)

theorem getK_ne_nil {k : Key} {cfg : KV} {v : V} (h : getK k cfg = some v) : k ≠ [] := by
  intro e; subst e; simp [getK] at h

/-- after `set_target_value` every place that holds the target holds the value -/
theorem targetValues_own (l : Link) (v : V) (cfg : KV) : ∀ w ∈ targetValues l (setTargetValue l v cfg), w = v := by
  intro w hw
  have hpathOK : ∀ w, getK l.target (setTargetValue l v cfg) = some w → w = v :=
    (getK_setTargetValue_target l v cfg).1
  cases hk : l.kind with
  | plain =>
    rw [targetValues_plain l _ hk] at hw
    exact hpathOK w (by simpa using hw)
  | initArg n =>
    by_cases hl : ∃ items2, getK (l.target.take n) (setTargetValue l v cfg) = some (.lst items2)
    · obtain ⟨items2, hg2⟩ := hl
      rw [targetValues_list l n _ items2 hk hg2] at hw
      have hd : l.target.take n ≠ [] := getK_ne_nil hg2
      rcases setTargetValue_shape l v cfg with hs | hs | ⟨n', items, hk', hg, ha, hs⟩
      · -- nothing written: the dest already held this list, and no item has the key
        rw [hs] at hg2
        have : setTargetValue l v cfg = cfg := hs
        unfold setTargetValue at this
        simp only [hk, hg2] at this
        by_cases ha : anyHas (l.target.drop n) items2 = true
        · -- then something would have been written, and the items hold the value
          simp only [ha, if_true] at this
          have hc : l.target.drop n ≠ [] := by intro e; rw [e, anyHas_nil] at ha; cases ha
          have h2 := getK_setK_same (l.target.take n) (.lst (setInItems (l.target.drop n) v items2)) cfg hd
          rw [this, hg2] at h2
          simp only [Option.some.injEq, V.lst.injEq] at h2
          rw [h2] at hw
          exact itemValues_setInItems_own _ v hc items2 w hw
        · have ha' : anyHas (l.target.drop n) items2 = false := by
            cases hb : anyHas (l.target.drop n) items2 with
            | true => exact absurd hb ha
            | false => rfl
          rw [itemValues_of_not_anyHas _ items2 ha'] at hw
          cases hw
      · -- the path was written
        rw [hs] at hg2
        by_cases hc : l.target.drop n = []
        · rw [hc, itemValues_nil] at hw; cases hw
        · obtain ⟨sub, hsub⟩ := getK_setK_prefix (l.target.take n) (l.target.drop n) v cfg hd hc
          rw [List.take_append_drop] at hsub
          rw [hsub] at hg2
          cases hg2
      · -- the items were written
        rw [hk] at hk'
        cases hk'
        rw [hs, getK_setK_same _ _ _ hd] at hg2
        cases hg2
        have hc : l.target.drop n ≠ [] := by intro e; rw [e, anyHas_nil] at ha; cases ha
        exact itemValues_setInItems_own _ v hc items w hw
    · rw [targetValues_path l n _ hk (fun items hg => hl ⟨items, hg⟩)] at hw
      exact hpathOK w (by simpa using hw)

theorem diverges_prefix : ∀ (d r : Key), diverges d (d ++ r) = false
  | [], [] => rfl
  | [], _ :: _ => rfl
  | a :: d, r => by simp [diverges, diverges_prefix d r]

theorem mem_targetValues_of_getK (l : Link) (n : Nat) (cfg : KV) (w : V) (hk : l.kind = .initArg n)
    (hc : l.target.drop n ≠ []) (hw : getK l.target cfg = some w) : w ∈ targetValues l cfg := by
  by_cases hl : ∃ items, getK (l.target.take n) cfg = some (.lst items)
  · obtain ⟨items, hg⟩ := hl
    have hd := getK_ne_nil hg
    have := getK_below (l.target.take n) (l.target.drop n) cfg hd hc _ hg (by intro sub e; cases e)
    rw [List.take_append_drop] at this
    rw [this] at hw; cases hw
  · rw [targetValues_path l n cfg hk (fun items hg => hl ⟨items, hg⟩), hw]; simp

/-- the places that hold the target of `l` only depend on what is read at its dest and at its path -/
theorem targetValues_congr (l : Link) (n : Nat) (a b : KV) (hk : l.kind = .initArg n)
    (h1 : getK l.target a = getK l.target b) (h2 : getK (l.target.take n) a = getK (l.target.take n) b) :
    targetValues l a = targetValues l b := by
  simp only [targetValues, hk, h1, h2]

/-- a write of another link whose target diverges adds no value at the places of `l`'s target -/
theorem targetValues_frame (l l' : Link) (v' : V) (cfg : KV) (h : diverges l'.target l.target = true) :
    ∀ w ∈ targetValues l (setTargetValue l' v' cfg), w ∈ targetValues l cfg := by
  intro w hw
  have F1 : getK l.target (setTargetValue l' v' cfg) = getK l.target cfg :=
    getK_setTargetValue_frame l' v' cfg _ h
  cases hk : l.kind with
  | plain =>
    rw [targetValues_plain _ _ hk] at hw ⊢
    rw [← F1]; exact hw
  | initArg n =>
    by_cases hA : diverges l'.target (l.target.take n) = true
    · rw [targetValues_congr l n _ cfg hk F1 (getK_setTargetValue_frame l' v' cfg _ hA)] at hw
      exact hw
    · have hsplit : l.target.take n ++ l.target.drop n = l.target := List.take_append_drop n _
      have h' : diverges (l.target.take n ++ l.target.drop n) l'.target = true := by
        rw [hsplit, diverges_symm]; exact h
      rcases diverges_append_cases _ _ _ h' with h1 | ⟨r, hr, hk'⟩
      · rw [diverges_symm] at h1; exact absurd h1 hA
      · have hc : l.target.drop n ≠ [] := by
          intro e
          rw [e, List.append_nil, hk', diverges_prefix] at h'
          cases h'
        have hrc : diverges r (l.target.drop n) = true := by
          have := h
          rw [← hsplit, hk', diverges_append_left] at this
          exact this
        by_cases hd : l.target.take n = []
        · have hnl : ∀ (c : KV) items, getK (l.target.take n) c ≠ some (.lst items) := by
            intro c items hg; rw [hd] at hg; simp [getK] at hg
          rw [targetValues_path l n _ hk (hnl _)] at hw ⊢
          rw [← F1]; exact hw
        · -- both configurations, whenever the dest is not a list in either
          have hboth : (∀ items, getK (l.target.take n) (setTargetValue l' v' cfg) ≠ some (.lst items)) →
              w ∈ targetValues l cfg := by
            intro hn2
            rw [targetValues_path l n _ hk hn2] at hw
            exact mem_targetValues_of_getK l n cfg w hk hc (by rw [← F1]; simpa using hw)
          -- the case where `l'` rewrites the items of the very list `l` points into
          have hsame : ∀ n' items', l'.kind = .initArg n' → l'.target.take n' = l.target.take n →
              getK (l'.target.take n') cfg = some (.lst items') →
              setTargetValue l' v' cfg = setK (l'.target.take n') (.lst (setInItems (l'.target.drop n') v' items')) cfg →
              w ∈ targetValues l cfg := by
            intro n' items' _ hdd hg' hs
            have hcr : l'.target.drop n' = r := by
              have e : l'.target.take n' ++ l'.target.drop n' = l.target.take n ++ r := by
                rw [List.take_append_drop, hk']
              rw [hdd] at e
              exact List.append_cancel_left e
            rw [hs, hdd] at hw
            rw [hdd] at hg'
            rw [targetValues_list l n _ _ hk (getK_setK_same _ _ cfg hd), hcr,
              itemValues_setInItems_frame r _ v' hrc] at hw
            rw [targetValues_list l n cfg items' hk hg']
            exact hw
          rcases setTargetValue_shape l' v' cfg with hs | hs | ⟨n', items', hk2, hg', _, hs⟩
          · rw [hs] at hw; exact hw
          · apply hboth
            intro items hg
            rw [hs, hk'] at hg
            obtain ⟨sub, hsub⟩ := getK_setK_prefix (l.target.take n) r v' cfg hd hr
            rw [hsub] at hg; cases hg
          · have e : l'.target.take n' ++ l'.target.drop n' = l.target.take n ++ r := by
              rw [List.take_append_drop, hk']
            have hd' : l'.target.take n' ≠ [] := getK_ne_nil hg'
            rcases List.append_eq_append_iff.mp e with ⟨a', e1, _⟩ | ⟨c'', e1, _⟩
            · by_cases ha : a' = []
              · rw [ha, List.append_nil] at e1
                exact hsame n' items' hk2 e1.symm hg' hs
              · apply hboth
                intro items hg
                rw [hs, e1] at hg
                have := getK_below (l'.target.take n') a' _ hd' ha _
                  (getK_setK_same (l'.target.take n') (.lst (setInItems (l'.target.drop n') v' items')) cfg hd')
                  (by intro sub e; cases e)
                rw [this] at hg; cases hg
            · by_cases hc2 : c'' = []
              · rw [hc2, List.append_nil] at e1
                exact hsame n' items' hk2 e1 hg' hs
              · apply hboth
                intro items hg
                rw [hs, e1] at hg
                obtain ⟨sub, hsub⟩ := getK_setK_prefix (l.target.take n) c''
                  (.lst (setInItems (l'.target.drop n') v' items')) cfg hd hc2
                rw [hsub] at hg; cases hg

/-! ### the pass, continued: every place of the target; fixed point; order -/

theorem applyLink_cases (E : Env) (l : Link) (cfg cfg1 : KV) (h : applyLink E l cfg = .ok cfg1) :
    (argsOf cfg l.sources = .none ∧ cfg1 = cfg) ∨
    ∃ args v, argsOf cfg l.sources = some args ∧ linkValue E l args = .ok v ∧ cfg1 = setTargetValue l v cfg := by
  cases ha : argsOf cfg l.sources with
  | none => exact Or.inl ⟨rfl, applyLink_skip E l cfg cfg1 h ha⟩
  | some args =>
    obtain ⟨v, hv, hc⟩ := applyLink_value E l cfg cfg1 h args ha
    exact Or.inr ⟨args, v, rfl, hv, hc⟩

theorem applyLink_targetValues_frame (E : Env) (l l' : Link) (cfg cfg1 : KV) (h : applyLink E l' cfg = .ok cfg1)
    (hd : diverges l'.target l.target = true) : ∀ w ∈ targetValues l cfg1, w ∈ targetValues l cfg := by
  rcases applyLink_cases E l' cfg cfg1 h with ⟨_, hc⟩ | ⟨args, v, _, _, hc⟩
  · rw [hc]; exact fun w hw => hw
  · rw [hc]; exact targetValues_frame l l' v cfg hd

theorem apply_targetValues_frame (E : Env) (l : Link) : ∀ (r : List Link) (cfg cfg' : KV),
    applyParsingLinks E r cfg = .ok cfg' → (∀ l' ∈ r, diverges l'.target l.target = true) →
    ∀ w ∈ targetValues l cfg', w ∈ targetValues l cfg
  | [], cfg, cfg', h, _ => by simp only [applyParsingLinks] at h; cases h; exact fun w hw => hw
  | l0 :: r, cfg, cfg', h, hd => by
    simp only [applyParsingLinks] at h
    cases h1 : applyLink E l0 cfg with
    | error e => simp [h1] at h
    | ok cfg1 =>
      simp only [h1] at h
      intro w hw
      exact applyLink_targetValues_frame E l l0 cfg cfg1 h1 (hd l0 List.mem_cons_self) w
        (apply_targetValues_frame E l r cfg1 cfg' h (fun x hx => hd x (List.mem_cons_of_mem _ hx)) w hw)

/-- the list form of the invariant: after the pass, every place that holds the target of a link holds the value
    computed from the sources as they stood before (hence, by the frame part, after) the pass -/
theorem apply_inv_all (E : Env) : ∀ (ls : List Link) (cfg cfg' : KV),
    applyParsingLinks E ls cfg = .ok cfg' → SrcIndep ls → TgtIndep ls →
    ∀ l ∈ ls, ∀ args, argsOf cfg l.sources = some args →
      ∃ v, linkValue E l args = .ok v ∧ ∀ w ∈ targetValues l cfg', w = v
  | [], _, _, _, _, _ => fun l hl => by cases hl
  | l0 :: r, cfg, cfg', h, hST, hTT => by
    simp only [applyParsingLinks] at h
    cases h1 : applyLink E l0 cfg with
    | error e => simp [h1] at h
    | ok cfg1 =>
      simp only [h1] at h
      have hTT' := List.pairwise_cons.mp hTT
      intro l hl args ha
      rcases List.mem_cons.mp hl with e | hl'
      · subst e
        obtain ⟨v, hv, hc⟩ := applyLink_value E l cfg cfg1 h1 args ha
        refine ⟨v, hv, fun w hw => ?_⟩
        have := apply_targetValues_frame E l r cfg1 cfg' h (fun x hx => by rw [diverges_symm]; exact hTT'.1 x hx) w hw
        rw [hc] at this
        exact targetValues_own l v cfg w this
      · have hsame : argsOf cfg1 l.sources = argsOf cfg l.sources :=
          argsOf_congr cfg1 cfg l.sources (fun s hs =>
            applyLink_frame E l0 cfg cfg1 h1 s.key (hST l0 List.mem_cons_self l hl s hs))
        exact apply_inv_all E r cfg1 cfg' h hST.tail hTT'.2 l hl' args (by rw [hsame]; exact ha)

/-- the sources read the same before and after the pass -/
theorem apply_sources_stable (E : Env) (ls : List Link) (cfg cfg' : KV)
    (h : applyParsingLinks E ls cfg = .ok cfg') (hST : SrcIndep ls) (hTT : TgtIndep ls) :
    ∀ l ∈ ls, ∀ s ∈ l.sources, getK s.key cfg' = getK s.key cfg :=
  fun l hl s hs => (apply_inv E ls cfg cfg' h hST hTT).1 s.key (fun x hx => hST x hx l hl s hs)

/-- well-formed links: a non-empty target, a non-empty `init_args.…` part -/
def WfLink (l : Link) : Prop := l.target ≠ [] ∧ ∀ n, l.kind = .initArg n → n < l.target.length

theorem setTargetValue_id (l : Link) (v : V) (cfg : KV) (hwf : WfLink l)
    (h1 : ∀ w ∈ targetValues l cfg, w = v) (h2 : l.kind = .plain → getK l.target cfg = some v) :
    setTargetValue l v cfg = cfg := by
  unfold setTargetValue
  cases hk : l.kind with
  | plain => exact setK_of_getK _ _ _ (h2 hk)
  | initArg n =>
    simp only []
    have hc : l.target.drop n ≠ [] := by
      intro e
      have := congrArg List.length e
      have hn := hwf.2 n hk
      simp at this
      omega
    split
    · rename_i items hg
      rw [targetValues_list l n cfg items hk hg] at h1
      have hd := getK_ne_nil hg
      split
      · rw [setInItems_id _ v items h1]
        exact setK_of_getK _ _ _ hg
      · have := getK_below (l.target.take n) (l.target.drop n) cfg hd hc _ hg (by intro sub e; cases e)
        rw [List.take_append_drop] at this
        simp [this]
    · rename_i hnl
      rw [targetValues_path l n cfg hk (fun items hg => hnl items hg)] at h1
      split
      · rename_i hs
        cases hg : getK l.target cfg with
        | none => simp [hg] at hs
        | some w =>
          have : w = v := h1 w (by simp [hg])
          subst this
          exact setK_of_getK _ _ _ hg
      · rfl

theorem applyAll_of_each (E : Env) (c : KV) : ∀ ls : List Link, (∀ l ∈ ls, applyLink E l c = .ok c) →
    applyParsingLinks E ls c = .ok c
  | [], _ => rfl
  | l :: r, h => by
    simp only [applyParsingLinks, h l List.mem_cons_self]
    exact applyAll_of_each E c r (fun x hx => h x (List.mem_cons_of_mem _ hx))

/-- a second pass changes nothing: one pass reaches the fixed point -/
theorem apply_fixed (E : Env) : ∀ (ls : List Link) (cfg cfg' : KV),
    applyParsingLinks E ls cfg = .ok cfg' → SrcIndep ls → TgtIndep ls → (∀ l ∈ ls, WfLink l) →
    ∀ l ∈ ls, applyLink E l cfg' = .ok cfg'
  | [], _, _, _, _, _, _ => fun l hl => by cases hl
  | l0 :: r, cfg, cfg', h, hST, hTT, hwf => by
    have hall := apply_inv_all E (l0 :: r) cfg cfg' h hST hTT
    have hinv := apply_inv E (l0 :: r) cfg cfg' h hST hTT
    have hsrc := apply_sources_stable E (l0 :: r) cfg cfg' h hST hTT
    simp only [applyParsingLinks] at h
    cases h1 : applyLink E l0 cfg with
    | error e => simp [h1] at h
    | ok cfg1 =>
      simp only [h1] at h
      have hTT' := List.pairwise_cons.mp hTT
      intro l hl
      rcases List.mem_cons.mp hl with e | hl'
      · subst e
        have hrs : readSources E cfg' l.sources = readSources E cfg l.sources :=
          readSources_congr E cfg' cfg l.sources (hsrc l hl)
        unfold applyLink at h1 ⊢
        rw [hrs]
        split at h1
        · cases h1
        · rfl
        · rename_i args hr
          split at h1
          · cases h1
          · rename_i v hv
            have ha := readSources_some E cfg _ _ hr
            obtain ⟨v', hv', hw⟩ := hall l hl args ha
            rw [hv] at hv'; cases hv'
            obtain ⟨v'', hv'', _, hp⟩ := hinv.2 l hl args ha
            rw [hv] at hv''; cases hv''
            rw [setTargetValue_id l v cfg' (hwf l hl) hw (fun hk => hp hk (hwf l hl).1)]
      · -- a later link: the pass over the rest started from cfg1
        exact apply_fixed E r cfg1 cfg' h hST.tail hTT'.2 (fun x hx => hwf x (List.mem_cons_of_mem _ hx)) l hl'

/-! ### `link_arguments`: what an accepted sequence of calls guarantees -/

theorem addLink_ok (p p' : Parser) (srcs : List Key) (co : List Bool) (t : Key) (fn : Option Nat)
    (h : addLink p srcs co t fn = .ok p') :
    ∃ ssrc ta,
      (existingTargets p).contains t = false ∧
      srcs.any (fun s => (existingTargets p).contains s) = false ∧
      srcs.contains t = false ∧
      (existingSources p).contains t = false ∧
      resolveSources p.actions srcs co = some ssrc ∧ findParent p.actions t = some ta ∧
      (ta.kind.isSubT = true → ta.dest ≠ t → isStrictPrefix (ta.dest ++ [initArgs]) t = true) ∧
      p' = { actions := if (!ta.kind.isSubT || ta.dest == t) then replaceAction ta ⟨t, .link⟩ p.actions else p.actions,
             optActs := if (!ta.kind.isSubT || ta.dest == t) then redirectOpts ta ⟨t, .link⟩ p.optActs else p.optActs,
             required := p.required.filter (· != t),
             links := p.links ++ [⟨ssrc, t, fn, if (!ta.kind.isSubT || ta.dest == t) then .plain else .initArg ta.dest.length⟩] } := by
  unfold addLink at h
  split at h
  · cases h
  · split at h
    · cases h
    · split at h
      · cases h
      · split at h
        · cases h
        · split at h
          · cases h
          · split at h
            · rename_i ssrc ta hs ht
              simp only [] at h
              split at h
              · cases h
              · rename_i hbad
                cases h
                refine ⟨ssrc, ta, ?_, ?_, ?_, ?_, hs, ht, ?_, rfl⟩
                · simp_all
                · simp_all
                · simp_all
                · simp_all
                · intro h1 h2
                  simp [h1, h2] at hbad
                  exact hbad
            · cases h

theorem isPrefix_spec : ∀ (d k : Key), isPrefix d k = true → ∃ r, k = d ++ r
  | [], k, _ => ⟨k, rfl⟩
  | _ :: _, [], h => by simp [isPrefix] at h
  | a :: d, b :: k, h => by
    simp only [isPrefix, Bool.and_eq_true, beq_iff_eq] at h
    obtain ⟨r, hr⟩ := isPrefix_spec d k h.2
    exact ⟨r, by simp [h.1, hr]⟩

theorem isPrefix_append : ∀ (d r : Key), isPrefix d (d ++ r) = true
  | [], _ => rfl
  | a :: d, r => by simp [isPrefix, isPrefix_append d r]

theorem findAction_some (acts : List Action) (k : Key) (a : Action) (h : findAction acts k = some a) :
    a ∈ acts ∧ a.kind ≠ .link ∧ a.dest = k := by
  unfold findAction at h
  have h1 := List.mem_of_find?_eq_some h
  have h2 := List.find?_some h
  simp only [Bool.and_eq_true, bne_iff_ne, ne_eq, beq_iff_eq] at h2
  exact ⟨h1, h2.1, h2.2⟩

theorem findParentFrom_some (acts : List Action) (k : Key) (a : Action) : ∀ n : Nat,
    findParentFrom acts k n = some a → a ∈ acts ∧ a.kind ≠ .link ∧ ∃ r, k = a.dest ++ r
  | 0, h => by simp [findParentFrom] at h
  | n+1, h => by
    simp only [findParentFrom] at h
    cases hf : findAction acts (k.take (n+1)) with
    | some b =>
      simp only [hf] at h
      cases h
      obtain ⟨h1, h2, h3⟩ := findAction_some acts _ a hf
      exact ⟨h1, h2, k.drop (n+1), by rw [h3, List.take_append_drop]⟩
    | none =>
      simp only [hf] at h
      exact findParentFrom_some acts k a n h

theorem findParent_some (acts : List Action) (k : Key) (a : Action) (h : findParent acts k = some a) :
    a ∈ acts ∧ a.kind ≠ .link ∧ ∃ r, k = a.dest ++ r := by
  unfold findParent at h
  cases hf : findAction acts k with
  | some b =>
    simp only [hf] at h
    cases h
    obtain ⟨h1, h2, h3⟩ := findAction_some acts _ a hf
    exact ⟨h1, h2, [], by simp [h3]⟩
  | none =>
    simp only [hf] at h
    exact findParentFrom_some acts k a _ h

theorem resolveSources_keys (acts : List Action) : ∀ (ks : List Key) (cs : List Bool) (ssrc : List Src),
    resolveSources acts ks cs = some ssrc → ssrc.map (·.key) = ks
  | [], _, ssrc, h => by simp only [resolveSources] at h; cases h; rfl
  | k :: r, cs, ssrc, h => by
    simp only [resolveSources] at h
    split at h
    · rename_i a rest _ hr
      cases h
      simp [resolveSources_keys acts r cs.tail rest hr]
    · cases h

theorem mem_replaceAction_of_ne (old new a : Action) : ∀ acts : List Action, a ∈ acts → a ≠ old →
    a ∈ replaceAction old new acts
  | [], h, _ => by cases h
  | b :: r, h, hne => by
    simp only [replaceAction]
    by_cases e : b = old
    · simp only [e, if_true]
      rcases List.mem_cons.mp h with e' | h'
      · exact absurd (e'.trans e) hne
      · exact List.mem_cons_of_mem _ h'
    · simp only [e, if_false]
      rcases List.mem_cons.mp h with e' | h'
      · exact e' ▸ List.mem_cons_self
      · exact List.mem_cons_of_mem _ (mem_replaceAction_of_ne old new a r h' hne)

theorem mem_replaceAction_new (old new : Action) : ∀ acts : List Action, old ∈ acts → new ∈ replaceAction old new acts
  | [], h => by cases h
  | b :: r, h => by
    simp only [replaceAction]
    by_cases e : b = old
    · simp [e]
    · simp only [e, if_false]
      rcases List.mem_cons.mp h with e' | h'
      · exact absurd e'.symm e
      · exact List.mem_cons_of_mem _ (mem_replaceAction_new old new r h')

theorem mem_of_mem_replaceAction (old new a : Action) : ∀ acts : List Action, a ∈ replaceAction old new acts →
    a = new ∨ a ∈ acts
  | [], h => by simp [replaceAction] at h
  | b :: r, h => by
    simp only [replaceAction] at h
    by_cases e : b = old
    · simp only [e, if_true] at h
      rcases List.mem_cons.mp h with e' | h'
      · exact Or.inl e'
      · exact Or.inr (List.mem_cons_of_mem _ h')
    · simp only [e, if_false] at h
      rcases List.mem_cons.mp h with e' | h'
      · exact Or.inr (e' ▸ List.mem_cons_self)
      · rcases mem_of_mem_replaceAction old new a r h' with h1 | h1
        · exact Or.inl h1
        · exact Or.inr (List.mem_cons_of_mem _ h1)

/-- the relation `_initial_input_checks` establishes between any two links of a parser -/
def Unchained (l l' : Link) : Prop :=
  l.target ≠ l'.target ∧ l.target ∉ l'.sources.map (·.key) ∧ l'.target ∉ l.sources.map (·.key)

/-- the invariants of a parser all of whose links were registered through `addLink` -/
structure Inv (p : Parser) : Prop where
  noChain : p.links.Pairwise Unchained
  noSelf : ∀ l ∈ p.links, l.target ∉ l.sources.map (·.key)
  wf : ∀ l ∈ p.links, WfLink l
  notReq : ∀ l ∈ p.links, l.target ∉ p.required
  plainAct : ∀ l ∈ p.links, l.kind = .plain → (⟨l.target, .link⟩ : Action) ∈ p.actions
  initAct : ∀ l ∈ p.links, ∀ n, l.kind = .initArg n →
    (∃ a ∈ p.actions, a.kind.isSubT = true ∧ a.dest = l.target.take n) ∨ (⟨l.target.take n, .link⟩ : Action) ∈ p.actions
  dests : ∀ a ∈ p.actions, a.dest ≠ []
  linkActs : ∀ a ∈ p.actions, a.kind = .link → ∃ l ∈ p.links, l.target = a.dest
  optOK : ∀ oa ∈ p.optActs, oa.2 ∈ p.actions

theorem Inv.init (p : Parser) (h : p.links = []) (hd : ∀ a ∈ p.actions, a.dest ≠ [])
    (hl : ∀ a ∈ p.actions, a.kind ≠ .link) (ho : ∀ oa ∈ p.optActs, oa.2 ∈ p.actions) : Inv p :=
  { noChain := by rw [h]; exact List.Pairwise.nil
    noSelf := by rw [h]; intro l hl; cases hl
    wf := by rw [h]; intro l hl; cases hl
    notReq := by rw [h]; intro l hl; cases hl
    plainAct := by rw [h]; intro l hl; cases hl
    initAct := by rw [h]; intro l hl; cases hl
    dests := hd
    linkActs := fun a ha hk => absurd hk (hl a ha)
    optOK := ho }

theorem take_of_append (d r : Key) : (d ++ r).take d.length = d := by simp

theorem Inv.step (p p' : Parser) (srcs : List Key) (co : List Bool) (t : Key) (fn : Option Nat)
    (hi : Inv p) (h : addLink p srcs co t fn = .ok p') : Inv p' := by
  obtain ⟨ssrc, ta, hT, hS, hOwn, hTS, hrs, hfp, hsub, hp'⟩ := addLink_ok p p' srcs co t fn h
  obtain ⟨hta, htk, r, htr⟩ := findParent_some p.actions t ta hfp
  have hkeys := resolveSources_keys p.actions srcs co ssrc hrs
  have htne : t ≠ [] := by
    intro e
    rw [e] at htr
    have := hi.dests ta hta
    cases hd : ta.dest with
    | nil => exact this hd
    | cons x xs => rw [hd] at htr; cases htr
  subst hp'
  -- facts about links already present
  have holdT : ∀ l ∈ p.links, l.target ≠ t := by
    intro l hl e
    have : t ∈ existingTargets p := by
      unfold existingTargets; exact List.mem_map.mpr ⟨l, hl, e⟩
    simp [List.contains_eq_mem, this] at hT
  have holdS : ∀ l ∈ p.links, l.target ∉ srcs := by
    intro l hl hm
    have : l.target ∈ existingTargets p := by
      unfold existingTargets; exact List.mem_map.mpr ⟨l, hl, rfl⟩
    simp only [List.any_eq_false, List.contains_eq_mem, decide_eq_true_eq] at hS
    exact hS _ hm this
  have holdTS : ∀ l ∈ p.links, t ∉ l.sources.map (·.key) := by
    intro l hl hm
    have : t ∈ existingSources p := by
      unfold existingSources; exact List.mem_flatMap.mpr ⟨l, hl, hm⟩
    simp [List.contains_eq_mem, this] at hTS
  refine ⟨?_, ?_, ?_, ?_, ?_, ?_, ?_, ?_, ?_⟩
  · -- no chains
    simp only []
    rw [List.pairwise_append]
    refine ⟨hi.noChain, List.pairwise_singleton _ _, ?_⟩
    intro a ha b hb
    simp only [List.mem_singleton] at hb
    subst hb
    exact ⟨holdT a ha, by simp only []; rw [hkeys]; exact holdS a ha, by simp only []; exact holdTS a ha⟩
  · -- no link has its target among its own sources
    intro l hl
    simp only [List.mem_append, List.mem_singleton] at hl
    rcases hl with hl | hl
    · exact hi.noSelf l hl
    · subst hl
      simp only []
      rw [hkeys]
      simpa [List.contains_eq_mem] using hOwn
  · -- well-formed
    intro l hl
    simp only [List.mem_append, List.mem_singleton] at hl
    rcases hl with hl | hl
    · exact hi.wf l hl
    · subst hl
      refine ⟨htne, ?_⟩
      intro n hk
      simp only [] at hk
      split at hk
      · cases hk
      · rename_i hrep
        cases hk
        simp only [Bool.or_eq_true, Bool.not_eq_true', beq_iff_eq, not_or, Bool.not_eq_false] at hrep
        have := hsub hrep.1 hrep.2
        simp only [isStrictPrefix, Bool.and_eq_true, decide_eq_true_eq, List.length_append, List.length_cons,
          List.length_nil] at this
        simp only []
        omega
  · -- not required
    intro l hl
    simp only [List.mem_append, List.mem_singleton] at hl
    simp only [List.mem_filter, bne_iff_ne, ne_eq, not_and, Decidable.not_not]
    rcases hl with hl | hl
    · intro hm; exact absurd hm (hi.notReq l hl)
    · subst hl; intro _; rfl
  · -- plain targets stand in the action list
    intro l hl hk
    simp only [List.mem_append, List.mem_singleton] at hl
    rcases hl with hl | hl
    · have hm := hi.plainAct l hl hk
      simp only []
      split
      · exact mem_replaceAction_of_ne ta _ _ p.actions hm (by intro e; rw [← e] at htk; exact htk rfl)
      · exact hm
    · subst hl
      simp only [] at hk ⊢
      split at hk
      · rename_i hrep
        simp only [hrep, if_true]
        exact mem_replaceAction_new ta _ p.actions hta
      · cases hk
  · -- init_args targets keep their subclass action, or it became a link action
    intro l hl n hk
    simp only [List.mem_append, List.mem_singleton] at hl
    rcases hl with hl | hl
    · rcases hi.initAct l hl n hk with ⟨a, ha, hs, hd⟩ | hm
      · simp only []
        split
        · rename_i hrep
          by_cases e : a = ta
          · subst e
            simp only [hs, Bool.not_true, Bool.false_or, beq_iff_eq] at hrep
            right
            rw [← hd, hrep]
            exact mem_replaceAction_new a _ p.actions hta
          · exact Or.inl ⟨a, mem_replaceAction_of_ne ta _ a p.actions ha e, hs, hd⟩
        · exact Or.inl ⟨a, ha, hs, hd⟩
      · right
        simp only []
        split
        · exact mem_replaceAction_of_ne ta _ _ p.actions hm (by intro e; rw [← e] at htk; exact htk rfl)
        · exact hm
    · subst hl
      simp only [] at hk ⊢
      split at hk
      · cases hk
      · rename_i hrep
        cases hk
        simp only [hrep]
        simp only [Bool.or_eq_true, Bool.not_eq_true', beq_iff_eq, not_or, Bool.not_eq_false] at hrep
        exact Or.inl ⟨ta, hta, hrep.1, by rw [htr, take_of_append]⟩
  · -- dests stay non-empty
    intro a ha
    simp only [] at ha
    split at ha
    · rcases mem_of_mem_replaceAction ta _ a p.actions ha with e | h'
      · rw [e]; exact htne
      · exact hi.dests a h'
    · exact hi.dests a ha
  · -- every link action is the target of a link
    intro a ha hk
    simp only [] at ha ⊢
    have hold : ∀ x : Link, a ∈ p.actions → ∃ l ∈ p.links ++ [x], l.target = a.dest := by
      intro x h'
      obtain ⟨l, hl, e⟩ := hi.linkActs a h' hk
      exact ⟨l, List.mem_append_left _ hl, e⟩
    split at ha
    · rcases mem_of_mem_replaceAction ta _ a p.actions ha with e | h'
      · exact ⟨_, List.mem_append_right _ List.mem_cons_self, by rw [e]⟩
      · exact hold _ h'
    · exact hold _ ha
  · -- no option string reaches an action that is not in the parser any more
    intro oa hoa
    simp only [] at hoa ⊢
    split at hoa
    · rename_i hrep
      simp only [hrep, if_true]
      unfold redirectOpts at hoa
      obtain ⟨ob, hob, e⟩ := List.mem_map.mp hoa
      by_cases hb : ob.2 = ta
      · simp only [hb, if_true] at e
        rw [← e]
        exact mem_replaceAction_new ta _ p.actions hta
      · simp only [hb, if_false] at e
        rw [← e]
        exact mem_replaceAction_of_ne ta _ ob.2 p.actions (hi.optOK ob hob) hb
    · rename_i hrep
      simp only [hrep]
      exact hi.optOK oa hoa

/-- one accepted call that replaces the target action `ta`: every option string that reached `ta` now reaches the link
    action, and no entry of `_option_string_actions` refers to `ta` any more -/
theorem addLink_redirects (p p' : Parser) (srcs : List Key) (co : List Bool) (t : Key) (fn : Option Nat)
    (h : addLink p srcs co t fn = .ok p') :
    ∃ ta, findParent p.actions t = some ta ∧
      ((!ta.kind.isSubT || ta.dest == t) = true →
        (∀ o, (o, ta) ∈ p.optActs → (o, (⟨t, .link⟩ : Action)) ∈ p'.optActs) ∧ (∀ oa ∈ p'.optActs, oa.2 ≠ ta)) ∧
      (∀ o t', (o, (⟨t', .link⟩ : Action)) ∈ p.optActs → (o, (⟨t', .link⟩ : Action)) ∈ p'.optActs) := by
  obtain ⟨ssrc, ta, _, _, _, _, _, hfp, _, hp'⟩ := addLink_ok p p' srcs co t fn h
  obtain ⟨_, htk, _, _⟩ := findParent_some p.actions t ta hfp
  subst hp'
  refine ⟨ta, hfp, fun hrep => ⟨fun o ho => ?_, fun oa hoa => ?_⟩, fun o t' ho => ?_⟩
  · simp only [hrep, if_true]
    unfold redirectOpts
    exact List.mem_map.mpr ⟨(o, ta), ho, by simp⟩
  · simp only [hrep, if_true] at hoa
    unfold redirectOpts at hoa
    obtain ⟨ob, _, e⟩ := List.mem_map.mp hoa
    by_cases hb : ob.2 = ta
    · simp only [hb, if_true] at e
      rw [← e]
      intro e'
      rw [← e'] at htk
      exact htk rfl
    · simp only [hb, if_false] at e
      rw [← e]; exact hb
  · simp only []
    split
    · unfold redirectOpts
      refine List.mem_map.mpr ⟨(o, ⟨t', .link⟩), ho, ?_⟩
      have : (⟨t', .link⟩ : Action) ≠ ta := by
        intro e; rw [← e] at htk; exact htk rfl
      simp [this]
    · exact ho

theorem redirectOpts_keys (a b : Action) (opts : List (String × Action)) :
    (redirectOpts a b opts).map (·.1) = opts.map (·.1) := by
  unfold redirectOpts
  rw [List.map_map]
  apply List.map_congr_left
  intro oa _
  by_cases e : oa.2 = a <;> simp [e]

theorem addLink_optKeys (p p' : Parser) (srcs : List Key) (co : List Bool) (t : Key) (fn : Option Nat)
    (h : addLink p srcs co t fn = .ok p') : p'.optActs.map (·.1) = p.optActs.map (·.1) := by
  obtain ⟨ssrc, ta, _, _, _, _, _, _, _, hp'⟩ := addLink_ok p p' srcs co t fn h
  subst hp'
  simp only []
  split
  · exact redirectOpts_keys _ _ _
  · rfl

theorem addLinks_opts : ∀ (reqs : List LinkReq) (p p' : Parser), addLinks p reqs = .ok p' →
    p'.optActs.map (·.1) = p.optActs.map (·.1) ∧
    ∀ o t', (o, (⟨t', .link⟩ : Action)) ∈ p.optActs → (o, (⟨t', .link⟩ : Action)) ∈ p'.optActs
  | [], p, p', h => by simp only [addLinks] at h; cases h; exact ⟨rfl, fun _ _ h => h⟩
  | r :: rest, p, p', h => by
    simp only [addLinks] at h
    cases h1 : addLink p r.sources r.coerce r.target r.fn with
    | error e => simp [h1] at h
    | ok p1 =>
      simp only [h1] at h
      obtain ⟨ih1, ih2⟩ := addLinks_opts rest p1 p' h
      obtain ⟨_, _, _, hpres⟩ := addLink_redirects p p1 _ _ _ _ h1
      exact ⟨by rw [ih1, addLink_optKeys p p1 _ _ _ _ h1], fun o t' ho => ih2 o t' (hpres o t' ho)⟩

theorem addLinks_append : ∀ (pre : List LinkReq) (r : LinkReq) (post : List LinkReq) (p0 p : Parser),
    addLinks p0 (pre ++ r :: post) = .ok p →
    ∃ p1 p2, addLinks p0 pre = .ok p1 ∧ addLink p1 r.sources r.coerce r.target r.fn = .ok p2 ∧ addLinks p2 post = .ok p
  | [], r, post, p0, p, h => by
    simp only [List.nil_append, addLinks] at h
    cases h1 : addLink p0 r.sources r.coerce r.target r.fn with
    | error e => simp [h1] at h
    | ok p2 => simp only [h1] at h; exact ⟨p0, p2, rfl, h1, h⟩
  | q :: pre, r, post, p0, p, h => by
    simp only [List.cons_append, addLinks] at h
    cases h1 : addLink p0 q.sources q.coerce q.target q.fn with
    | error e => simp [h1] at h
    | ok pa =>
      simp only [h1] at h
      obtain ⟨p1, p2, h2, h3, h4⟩ := addLinks_append pre r post pa p h
      exact ⟨p1, p2, by simp only [addLinks, h1]; exact h2, h3, h4⟩

theorem find_of_nodup_keys : ∀ (opts : List (String × Action)) (o : String) (a : Action),
    (opts.map (·.1)).Nodup → (o, a) ∈ opts → opts.find? (fun oa => oa.1 == o) = some (o, a)
  | [], _, _, _, h => by cases h
  | x :: r, o, a, hn, h => by
    simp only [List.map_cons, List.nodup_cons] at hn
    rcases List.mem_cons.mp h with e | h'
    · subst e; simp [List.find?]
    · have hne : x.1 ≠ o := by
        intro e
        apply hn.1
        rw [e]
        exact List.mem_map.mpr ⟨(o, a), h', rfl⟩
      have hb : (x.1 == o) = false := by simp [hne]
      simp only [List.find?, hb]
      exact find_of_nodup_keys r o a hn.2 h'

theorem Inv.steps : ∀ (reqs : List LinkReq) (p p' : Parser), Inv p → addLinks p reqs = .ok p' → Inv p'
  | [], p, p', hi, h => by simp only [addLinks] at h; cases h; exact hi
  | r :: rest, p, p', hi, h => by
    simp only [addLinks] at h
    cases h1 : addLink p r.sources r.coerce r.target r.fn with
    | error e => simp [h1] at h
    | ok p1 =>
      simp only [h1] at h
      exact Inv.steps rest p1 p' (Inv.step p p1 _ _ _ _ hi h1) h

/-! ### from the checks of `link_arguments` to independence -/

/-- the keys a link set mentions -/
def linkKeys (ls : List Link) : List Key := ls.flatMap (fun l => l.target :: l.sources.map (·.key))

/-- no target is a proper dotted prefix or extension of another key of the link set (open finding C15-nested-chain
    is the complement) -/
def nonNested (ls : List Link) : Bool :=
  ls.all fun l => (linkKeys ls).all fun k => l.target == k || diverges l.target k

/-- no link has its target among its own sources (what `_initial_input_checks` lacked before ba94f2f) -/
def noSelf (ls : List Link) : Bool := ls.all fun l => !(l.sources.map (·.key)).contains l.target

theorem Unchained.symm {l l' : Link} (h : Unchained l l') : Unchained l' l :=
  ⟨fun e => h.1 e.symm, h.2.2, h.2.1⟩

theorem pairwise_mem {α} {R : α → α → Prop} (hs : ∀ {a b}, R a b → R b a) : ∀ (ls : List α), ls.Pairwise R →
    ∀ a ∈ ls, ∀ b ∈ ls, a ≠ b → R a b
  | [], _, a, ha, _, _, _ => by cases ha
  | x :: r, h, a, ha, b, hb, hne => by
    obtain ⟨h1, h2⟩ := List.pairwise_cons.mp h
    rcases List.mem_cons.mp ha with ea | ha'
    · rcases List.mem_cons.mp hb with eb | hb'
      · exact absurd (ea.trans eb.symm) hne
      · rw [ea]; exact h1 b hb'
    · rcases List.mem_cons.mp hb with eb | hb'
      · rw [eb]; exact hs (h1 a ha')
      · exact pairwise_mem hs r h2 a ha' b hb' hne

theorem mem_linkKeys_target {ls : List Link} {l : Link} (h : l ∈ ls) : l.target ∈ linkKeys ls :=
  List.mem_flatMap.mpr ⟨l, h, List.mem_cons_self⟩

theorem mem_linkKeys_source {ls : List Link} {l : Link} {s : Src} (h : l ∈ ls) (hs : s ∈ l.sources) :
    s.key ∈ linkKeys ls :=
  List.mem_flatMap.mpr ⟨l, h, List.mem_cons_of_mem _ (List.mem_map.mpr ⟨s, hs, rfl⟩)⟩

theorem nonNested_spec {ls : List Link} (h : nonNested ls = true) {l : Link} {k : Key} (hl : l ∈ ls)
    (hk : k ∈ linkKeys ls) : l.target = k ∨ diverges l.target k = true := by
  unfold nonNested at h
  simp only [List.all_eq_true, Bool.or_eq_true, beq_iff_eq] at h
  exact h l hl k hk

/-- an accepted link set without nested keys is independent -/
theorem indep_of_unchained (ls : List Link) (hu : ls.Pairwise Unchained)
    (hs : ∀ l ∈ ls, l.target ∉ l.sources.map (·.key)) (hn : nonNested ls = true) : SrcIndep ls ∧ TgtIndep ls := by
  constructor
  · intro l hl l' hl' s hs'
    rcases nonNested_spec hn hl (mem_linkKeys_source hl' hs') with e | hd
    · exfalso
      by_cases el : l = l'
      · subst el
        exact hs l hl (e ▸ List.mem_map.mpr ⟨s, hs', rfl⟩)
      · have := pairwise_mem (fun h => Unchained.symm h) ls hu l hl l' hl' el
        exact this.2.1 (e ▸ List.mem_map.mpr ⟨s, hs', rfl⟩)
    · exact hd
  · unfold TgtIndep
    refine List.Pairwise.imp_of_mem ?_ hu
    intro a b ha hb hab
    rcases nonNested_spec hn ha (mem_linkKeys_target hb) with e | hd
    · exact absurd e hab.1
    · exact hd

/-! ### success of the pass only depends on the sources -/

def linkOk (E : Env) (l : Link) (cfg : KV) : Bool :=
  match readSources E cfg l.sources with
  | .error _ => false
  | .ok .none => true
  | .ok (some args) =>
    match linkValue E l args with
    | .ok _ => true
    | .error _ => false

theorem linkOk_congr (E : Env) (l : Link) (a b : KV) (h : ∀ s ∈ l.sources, getK s.key a = getK s.key b) :
    linkOk E l a = linkOk E l b := by
  unfold linkOk
  rw [readSources_congr E a b l.sources h]

theorem applyLink_ok_iff (E : Env) (l : Link) (cfg : KV) : (∃ c, applyLink E l cfg = .ok c) ↔ linkOk E l cfg = true := by
  unfold applyLink linkOk
  cases readSources E cfg l.sources with
  | error e => simp
  | ok o =>
    cases o with
    | none => simp
    | some args =>
      cases hv : linkValue E l args with
      | error e => simp [hv]
      | ok v => simp [hv]

theorem apply_each_ok (E : Env) : ∀ (ls : List Link) (cfg cfg' : KV),
    applyParsingLinks E ls cfg = .ok cfg' → SrcIndep ls → ∀ l ∈ ls, linkOk E l cfg = true
  | [], _, _, _, _ => fun l hl => by cases hl
  | l0 :: r, cfg, cfg', h, hST => by
    simp only [applyParsingLinks] at h
    cases h1 : applyLink E l0 cfg with
    | error e => simp [h1] at h
    | ok cfg1 =>
      simp only [h1] at h
      intro l hl
      rcases List.mem_cons.mp hl with e | hl'
      · subst e; exact (applyLink_ok_iff E l cfg).mp ⟨cfg1, h1⟩
      · rw [← linkOk_congr E l cfg1 cfg (fun s hs =>
          applyLink_frame E l0 cfg cfg1 h1 s.key (hST l0 List.mem_cons_self l hl s hs))]
        exact apply_each_ok E r cfg1 cfg' h hST.tail l hl'

theorem apply_ok_of_each (E : Env) : ∀ (ls : List Link) (cfg : KV), SrcIndep ls →
    (∀ l ∈ ls, linkOk E l cfg = true) → ∃ cfg', applyParsingLinks E ls cfg = .ok cfg'
  | [], cfg, _, _ => ⟨cfg, rfl⟩
  | l0 :: r, cfg, hST, h => by
    obtain ⟨cfg1, h1⟩ := (applyLink_ok_iff E l0 cfg).mpr (h l0 List.mem_cons_self)
    have : ∀ l ∈ r, linkOk E l cfg1 = true := by
      intro l hl
      rw [linkOk_congr E l cfg1 cfg (fun s hs =>
        applyLink_frame E l0 cfg cfg1 h1 s.key (hST l0 List.mem_cons_self l (List.mem_cons_of_mem _ hl) s hs))]
      exact h l (List.mem_cons_of_mem _ hl)
    obtain ⟨cfg', h'⟩ := apply_ok_of_each E r cfg1 hST.tail this
    exact ⟨cfg', by simp only [applyParsingLinks, h1]; exact h'⟩

theorem SrcIndep.perm {ls ls' : List Link} (hp : ls'.Perm ls) (h : SrcIndep ls) : SrcIndep ls' :=
  fun l hl l' hl' s hs => h l (hp.mem_iff.mp hl) l' (hp.mem_iff.mp hl') s hs

theorem TgtIndep.perm {ls ls' : List Link} (hp : ls'.Perm ls) (h : TgtIndep ls) : TgtIndep ls' := by
  unfold TgtIndep at h ⊢
  exact (List.Perm.pairwise_iff (R := fun l l' : Link => diverges l.target l'.target = true)
    (fun {x y} hxy => by rw [diverges_symm]; exact hxy) hp).mpr h

/-! ### parse -/

theorem parseCommon_ok (E : Env) (p : Parser) (c0 c : KV) (h : parseCommon E p c0 = .ok c) :
    applyParsingLinks E p.links c0 = .ok c ∧ E.valid c = true ∧ validateRequired p.required c = true := by
  unfold parseCommon at h
  split at h
  · cases h
  · rename_i c' hc
    split at h
    · cases h
    · split at h
      · cases h
      · cases h
        rename_i h1 h2
        simp only [Bool.not_eq_true', Bool.not_eq_false] at h1 h2
        exact ⟨hc, by simpa using h1, by simpa using h2⟩

theorem parse_ok (E : Env) (p : Parser) (inputs : List Input) (cfg : KV) (h : parse E p inputs = .ok cfg) :
    ∃ c0, feedAll p inputs [] = .ok c0 ∧ parseCommon E p c0 = .ok cfg := by
  unfold parse at h
  split at h
  · cases h
  · rename_i c0 hc
    exact ⟨c0, hc, h⟩

/-- the option of a plain target makes every parse fail, whatever else is given -/
theorem feedAll_linkCall (p : Parser) : ∀ (inputs : List Input) (c : KV),
    (∃ i ∈ inputs, isPlainTarget p i.key = true ∧ i.chan = .argv) → feedAll p inputs c = .error .linkCall
  | [], _, ⟨i, hi, _⟩ => by cases hi
  | j :: r, c, ⟨i, hi, hp, hc⟩ => by
    simp only [feedAll]
    cases hf : feed p c j with
    | error e =>
      unfold feed at hf
      split at hf
      · split at hf
        · simp [actionCall, Except.map] at hf; rw [← hf]
        · cases hf
        · cases hf
      · cases hf
    | ok c' =>
      simp only []
      rcases List.mem_cons.mp hi with e | hi'
      · subst e
        unfold feed at hf
        simp only [hp, if_true, hc] at hf
        simp [actionCall, Except.map] at hf
      · exact feedAll_linkCall p r c' ⟨i, hi', hp, hc⟩

/-! ### the strip reaches every target -/

theorem isPrefix_take (n : Nat) (k : Key) : isPrefix (k.take n) k = true := by
  have := isPrefix_append (k.take n) (k.drop n)
  rw [List.take_append_drop] at this
  exact this

/-- every link target is, or lies below, a key deleted by `strip_link_target_keys` -/
theorem covered (p : Parser) (hi : Inv p) : ∀ l ∈ p.links, ∃ t ∈ stripKeys p, t ≠ [] ∧ ∃ r, l.target = t ++ r := by
  intro l hl
  have hlink : ∀ k, (⟨k, .link⟩ : Action) ∈ p.actions → k ∈ stripKeys p := by
    intro k hk
    unfold stripKeys
    exact List.mem_append_left _ (List.mem_map.mpr ⟨⟨k, .link⟩, List.mem_filter.mpr ⟨hk, rfl⟩, rfl⟩)
  cases hk : l.kind with
  | plain => exact ⟨l.target, hlink _ (hi.plainAct l hl hk), (hi.wf l hl).1, [], by simp⟩
  | initArg n =>
    have hn := (hi.wf l hl).2 n hk
    rcases hi.initAct l hl n hk with ⟨a, ha, hs, hd⟩ | hm
    · refine ⟨l.target, ?_, (hi.wf l hl).1, [], by simp⟩
      unfold stripKeys
      apply List.mem_append_right
      refine List.mem_flatMap.mpr ⟨a, List.mem_filter.mpr ⟨ha, hs⟩, List.mem_map.mpr ⟨l, List.mem_filter.mpr ⟨hl, ?_⟩, rfl⟩⟩
      have hlen : a.dest.length = n := by rw [hd, List.length_take]; omega
      rw [hlen, hk, hd, isPrefix_take]
      simp
    · exact ⟨l.target.take n, hlink _ hm, hi.dests _ hm, l.target.drop n, (List.take_append_drop n _).symm⟩

/-- … and nothing else is deleted -/
theorem stripKeys_targets (p : Parser) (hi : Inv p) : ∀ t ∈ stripKeys p, ∃ l ∈ p.links, l.target = t := by
  intro t ht
  unfold stripKeys at ht
  rcases List.mem_append.mp ht with h1 | h1
  · obtain ⟨a, ha, hd⟩ := List.mem_map.mp h1
    obtain ⟨ha1, ha2⟩ := List.mem_filter.mp ha
    obtain ⟨l, hl, e⟩ := hi.linkActs a ha1 (by simpa using ha2)
    exact ⟨l, hl, by rw [e, hd]⟩
  · obtain ⟨a, _, hm⟩ := List.mem_flatMap.mp h1
    obtain ⟨l, hl, e⟩ := List.mem_map.mp hm
    exact ⟨l, (List.mem_filter.mp hl).1, e⟩

/-- the strip leaves every key that diverges from the link targets as it is -/
theorem getK_strip_frame (p : Parser) (hi : Inv p) (cfg : KV) (k : Key)
    (hk : ∀ l ∈ p.links, diverges l.target k = true) : getK k (stripLinkTargetKeysOld p cfg) = getK k cfg := by
  apply getK_delKeys_frame
  intro t ht
  obtain ⟨l, hl, e⟩ := stripKeys_targets p hi t ht
  rw [← e]; exact hk l hl

/-- the path of a link target cannot be read after the strip -/
theorem getK_strip_target (p : Parser) (hi : Inv p) (cfg : KV) : ∀ l ∈ p.links,
    getK l.target (stripLinkTargetKeysOld p cfg) = .none := by
  intro l hl
  obtain ⟨t, ht, hne, r, hr⟩ := covered p hi l hl
  rw [hr]
  exact getK_delKeys_gone (stripKeys p) t r cfg ht hne

/-- deletions do not create values: a leaf value read after a deletion was there before -/
theorem getK_delKey_leaf : ∀ (t k : Key) (kvs : KV) (v : V), (∀ sub, v ≠ .ns sub) →
    getK k (delKey t kvs) = some v → getK k kvs = some v
  | [], _, _, _, _, h => h
  | _ :: _, [], _, _, _, h => by simp [getK] at h
  | [l], [x], kvs, v, _, h => by
    simp only [delKey, getK] at h ⊢
    by_cases e : x = l
    · subst e; rw [lookup_eraseAll_self] at h; cases h
    · rw [lookup_eraseAll_other e] at h; exact h
  | [l], x :: y :: q, kvs, v, _, h => by
    simp only [delKey] at h
    rw [getK_cons x (y :: q) (by simp)] at h ⊢
    by_cases e : x = l
    · subst e; rw [lookup_eraseAll_self] at h; cases h
    · rw [lookup_eraseAll_other e] at h; exact h
  | s :: t :: rest, [x], kvs, v, hv, h => by
    rw [delKey_cons s (t :: rest) (by simp)] at h
    cases hl : lookup s kvs with
    | none => simpa [hl] using h
    | some w =>
      cases w with
      | ns sub =>
        simp only [hl, getK] at h ⊢
        by_cases e : x = s
        · subst e
          rw [lookup_insert_same] at h
          cases h
          exact absurd rfl (hv _)
        · rw [lookup_insert_other _ e] at h; exact h
      | none => simpa [hl] using h
      | atom _ => simpa [hl] using h
      | lst _ => simpa [hl] using h
      | tup _ => simpa [hl] using h
      | dct _ => simpa [hl] using h
  | s :: t :: rest, x :: y :: q, kvs, v, hv, h => by
    rw [delKey_cons s (t :: rest) (by simp)] at h
    cases hl : lookup s kvs with
    | none => simpa [hl] using h
    | some w =>
      cases w with
      | ns sub =>
        simp only [hl] at h
        rw [getK_cons x (y :: q) (by simp)] at h ⊢
        by_cases e : x = s
        · subst e
          rw [lookup_insert_same] at h
          rw [hl]
          exact getK_delKey_leaf (t :: rest) (y :: q) sub v hv h
        · rw [lookup_insert_other _ e] at h; exact h
      | none => simpa [hl] using h
      | atom _ => simpa [hl] using h
      | lst _ => simpa [hl] using h
      | tup _ => simpa [hl] using h
      | dct _ => simpa [hl] using h

theorem getK_delTargetKey_leaf (t k : Key) (kvs : KV) (v : V) (hv : ∀ sub, v ≠ .ns sub)
    (h : getK k (delTargetKey t kvs) = some v) : getK k kvs = some v := by
  unfold delTargetKey at h
  simp only [] at h
  split at h
  · exact getK_delKey_leaf t k kvs v hv h
  · split at h
    · split at h
      · exact getK_delKey_leaf t k kvs v hv (getK_delKey_leaf _ k _ v hv h)
      · exact getK_delKey_leaf t k kvs v hv h
    · exact getK_delKey_leaf t k kvs v hv h

theorem getK_delKeys_leaf : ∀ (ts : List Key) (k : Key) (kvs : KV) (v : V), (∀ sub, v ≠ .ns sub) →
    getK k (delKeys ts kvs) = some v → getK k kvs = some v
  | [], _, _, _, _, h => h
  | t :: r, k, kvs, v, hv, h =>
    getK_delTargetKey_leaf t k kvs v hv (getK_delKeys_leaf r k _ v hv h)

/-- when the dest of an `init_args` target does not hold a list, no place holds the target after the strip -/
theorem targetValues_strip (p : Parser) (hi : Inv p) (cfg : KV) : ∀ l ∈ p.links,
    (∀ n, l.kind = .initArg n → ∀ items, getK (l.target.take n) cfg ≠ some (.lst items)) →
    targetValues l (stripLinkTargetKeysOld p cfg) = [] := by
  intro l hl hnl
  have hgone := getK_strip_target p hi cfg l hl
  cases hk : l.kind with
  | plain => rw [targetValues_plain _ _ hk, hgone]; rfl
  | initArg n =>
    rw [targetValues_path l n _ hk ?_, hgone]; rfl
    intro items hg
    exact hnl n hk items (getK_delKeys_leaf (stripKeys p) _ cfg _ (by intro sub e; cases e) hg)

/-! ### `delKey` is `Jap.NS.delK` on namespaces with unique names -/

theorem eraseAll_of_not_mem (k : SKey) : ∀ kvs : KV, k ∉ keysOf kvs → eraseAll k kvs = kvs
  | [], _ => rfl
  | (k', v) :: r, h => by
    have h1 : k' ≠ k := by intro e; apply h; simp [keysOf, e]
    have h2 : k ∉ keysOf r := by intro e; apply h; simp [keysOf] at e ⊢; exact Or.inr e
    have : (k' != k) = true := by simp [h1]
    simp only [eraseAll, List.filter, this]
    congr 1
    exact eraseAll_of_not_mem k r h2

theorem eraseAll_eq_erase (k : SKey) : ∀ kvs : KV, (keysOf kvs).Nodup → eraseAll k kvs = erase k kvs
  | [], _ => rfl
  | (k', v) :: r, h => by
    simp only [keysOf, List.map_cons, List.nodup_cons] at h
    by_cases e : k' = k
    · subst e
      simp only [eraseAll, List.filter, bne_self_eq_false, erase, if_true]
      exact eraseAll_of_not_mem k' r h.1
    · have : (k' != k) = true := by simp [e]
      simp only [eraseAll, List.filter, this, erase, e, if_false]
      congr 1
      exact eraseAll_eq_erase k r h.2

theorem delKey_eq_delK : ∀ (k : Key) (kvs : KV), uniqKV kvs → delKey k kvs = delK k kvs
  | [], _, _ => rfl
  | [leaf], kvs, hu => by
    simp only [delKey, delK]
    exact eraseAll_eq_erase leaf kvs (uniqKV_nodup kvs hu)
  | s :: t :: rest, kvs, hu => by
    simp only [delKey, delK]
    cases hl : lookup s kvs with
    | none => rfl
    | some w =>
      cases w with
      | ns sub =>
        have hsub : uniqKV sub := by
          have := uniq_lookup s kvs _ hu hl
          simpa [uniqV] using this
        simp only [delKey_eq_delK (t :: rest) sub hsub]
      | none => rfl
      | atom _ => rfl
      | lst _ => rfl
      | tup _ => rfl
      | dct _ => rfl

/-! ### ordinary sources are present after a successful pass; re-parse; order -/

theorem readSources_present (E : Env) (cfg : KV) : ∀ (srcs : List Src), (∀ s ∈ srcs, s.sub = false) →
    (∀ e, readSources E cfg srcs ≠ .error e) → ∃ args, argsOf cfg srcs = some args
  | [], _, _ => ⟨[], rfl⟩
  | s :: r, hsub, hne => by
    simp only [readSources] at hne
    cases hg : getK s.key cfg with
    | none =>
      simp only [hg, hsub s List.mem_cons_self] at hne
      exact absurd rfl (hne .missingSource)
    | some v =>
      simp only [hg] at hne
      have hr : ∀ e, readSources E cfg r ≠ .error e := by
        intro e he
        apply hne e
        by_cases hc : E.chk s.key v = true
        · simp [hc, he]
        · simp at hc
          simp [hc] at hne
      obtain ⟨args, ha⟩ := readSources_present E cfg r (fun x hx => hsub x (List.mem_cons_of_mem _ hx)) hr
      exact ⟨coerceArg s v :: args, by simp [argsOf, hg, ha]⟩

theorem linkOk_present (E : Env) (l : Link) (cfg : KV) (h : linkOk E l cfg = true)
    (hsub : ∀ s ∈ l.sources, s.sub = false) : ∃ args, argsOf cfg l.sources = some args := by
  apply readSources_present E cfg l.sources hsub
  intro e he
  unfold linkOk at h
  rw [he] at h
  cases h

/-- the link step of a re-parse: started from any namespace `d` that agrees with the parsed configuration off the
    link targets, the pass succeeds and rebuilds the targets -/
theorem reparse_links (E : Env) (ls : List Link) (cfg0 cfg d : KV)
    (h : applyParsingLinks E ls cfg0 = .ok cfg) (hST : SrcIndep ls) (hTT : TgtIndep ls)
    (hload : ∀ k, (∀ l ∈ ls, diverges l.target k = true) → getK k d = getK k cfg) :
    ∃ cfg2, applyParsingLinks E ls d = .ok cfg2 ∧
      (∀ k, (∀ l ∈ ls, diverges l.target k = true) → getK k cfg2 = getK k cfg) ∧
      (∀ l ∈ ls, ∀ args, argsOf cfg l.sources = some args → ∃ v, linkValue E l args = .ok v ∧
        (∀ w ∈ targetValues l cfg, w = v) ∧ (∀ w ∈ targetValues l cfg2, w = v) ∧
        (l.kind = .plain → l.target ≠ [] → getK l.target cfg2 = getK l.target cfg)) := by
  have hsrc0 := apply_sources_stable E ls cfg0 cfg h hST hTT
  have hsrcd : ∀ l ∈ ls, ∀ s ∈ l.sources, getK s.key d = getK s.key cfg0 := by
    intro l hl s hs
    rw [hload s.key (fun x hx => hST x hx l hl s hs), hsrc0 l hl s hs]
  have hok : ∀ l ∈ ls, linkOk E l d = true := by
    intro l hl
    rw [linkOk_congr E l d cfg0 (hsrcd l hl)]
    exact apply_each_ok E ls cfg0 cfg h hST l hl
  obtain ⟨cfg2, h2⟩ := apply_ok_of_each E ls d hST hok
  have inv1 := apply_inv E ls cfg0 cfg h hST hTT
  have inv2 := apply_inv E ls d cfg2 h2 hST hTT
  refine ⟨cfg2, h2, fun k hk => by rw [inv2.1 k hk, hload k hk], ?_⟩
  intro l hl args ha
  have ha0 : argsOf cfg0 l.sources = some args := by
    rw [← argsOf_congr cfg cfg0 l.sources (hsrc0 l hl)]; exact ha
  have had : argsOf d l.sources = some args := by
    rw [argsOf_congr d cfg0 l.sources (hsrcd l hl)]; exact ha0
  obtain ⟨v, hv, hw1⟩ := apply_inv_all E ls cfg0 cfg h hST hTT l hl args ha0
  obtain ⟨v2, hv2, hw2⟩ := apply_inv_all E ls d cfg2 h2 hST hTT l hl args had
  rw [hv] at hv2; cases hv2
  obtain ⟨v3, hv3, _, hp1⟩ := inv1.2 l hl args ha0
  rw [hv] at hv3; cases hv3
  obtain ⟨v4, hv4, _, hp2⟩ := inv2.2 l hl args had
  rw [hv] at hv4; cases hv4
  exact ⟨v, hv, hw1, hw2, fun hk hne => by rw [hp1 hk hne, hp2 hk hne]⟩

/-- the pass in any other order succeeds as well and obeys the same equations -/
theorem apply_perm (E : Env) (ls ls' : List Link) (cfg c1 : KV) (hp : ls'.Perm ls)
    (h : applyParsingLinks E ls cfg = .ok c1) (hST : SrcIndep ls) (hTT : TgtIndep ls) :
    ∃ c2, applyParsingLinks E ls' cfg = .ok c2 ∧
      (∀ k, (∀ l ∈ ls, diverges l.target k = true) → getK k c2 = getK k c1) ∧
      (∀ l ∈ ls, ∀ args, argsOf cfg l.sources = some args → ∃ v, linkValue E l args = .ok v ∧
        (∀ w ∈ targetValues l c1, w = v) ∧ (∀ w ∈ targetValues l c2, w = v) ∧
        (l.kind = .plain → l.target ≠ [] → getK l.target c2 = getK l.target c1)) := by
  have hST' := SrcIndep.perm hp hST
  have hTT' := TgtIndep.perm hp hTT
  have hok : ∀ l ∈ ls', linkOk E l cfg = true :=
    fun l hl => apply_each_ok E ls cfg c1 h hST l (hp.mem_iff.mp hl)
  obtain ⟨c2, h2⟩ := apply_ok_of_each E ls' cfg hST' hok
  have inv1 := apply_inv E ls cfg c1 h hST hTT
  have inv2 := apply_inv E ls' cfg c2 h2 hST' hTT'
  refine ⟨c2, h2, fun k hk => ?_, ?_⟩
  · rw [inv1.1 k hk, inv2.1 k (fun l hl => hk l (hp.mem_iff.mp hl))]
  · intro l hl args ha
    have hl' := hp.mem_iff.mpr hl
    obtain ⟨v, hv, hw1⟩ := apply_inv_all E ls cfg c1 h hST hTT l hl args ha
    obtain ⟨v2, hv2, hw2⟩ := apply_inv_all E ls' cfg c2 h2 hST' hTT' l hl' args ha
    rw [hv] at hv2; cases hv2
    obtain ⟨v3, hv3, _, hp1⟩ := inv1.2 l hl args ha
    rw [hv] at hv3; cases hv3
    obtain ⟨v4, hv4, _, hp2⟩ := inv2.2 l hl' args ha
    rw [hv] at hv4; cases hv4
    exact ⟨v, hv, hw1, hw2, fun hk hne => by rw [hp1 hk hne, hp2 hk hne]⟩

end Jap.Links

import Jap.Lemmas.HeapSafe
/-!
Lemmas for E11 (C08), part 5: `Held p k t` (= `Safe p t` and `IdsLt k t`) is preserved by every operation, for the
value it hands out; hence in a history every operation writes only identities made after everything the caller
holds AT THAT MOMENT — its own objects and the results of all earlier operations.
-/
namespace Jap.Heap

structure Held (p : Policy) (k : Nat) (t : T) : Prop where
  safe : Safe p t
  lt : IdsLt k t

structure HeldK (p : Policy) (k : Nat) (ts : Kids) : Prop where
  safe : SafeK p ts
  lt : IdsLtK k ts

/-- what the preservation proofs need of the policy -/
structure PolOk (p : Policy) : Prop where
  list : p.recreated .list = true
  ns : p.recreated .ns = true
  nsIn : p.inplace .ns = true

theorem Held.mono {p : Policy} {k k' : Nat} {t : T} (h : Held p k t) (hk : k ≤ k') : Held p k' t := ⟨h.safe, h.lt.mono hk⟩
theorem HeldK.mono {p : Policy} {k k' : Nat} {ts : Kids} (h : HeldK p k ts) (hk : k ≤ k') : HeldK p k' ts := ⟨h.safe, h.lt.mono hk⟩
theorem Held_atom (p : Policy) (k n : Nat) : Held p k (.atom n) := ⟨Safe_atom p n, IdsLt_atom k n⟩

theorem recreate_held (p : Policy) (skip : List String) (t : T) (k : Nat) (h : Held p k t) :
    Held p (recreate p skip t k).next (recreate p skip t k).val ∧ k ≤ (recreate p skip t k).next :=
  ⟨⟨recreate_safe p skip t k h.safe, (recreate_lt p skip t k h.lt).1⟩, (recreate_lt p skip t k h.lt).2⟩

theorem copyIf_held (p : Policy) (skip : List String) (b : Bool) (t : T) (k : Nat) (h : Held p k t) :
    Held p (copyIf b (recreate p skip) t k).next (copyIf b (recreate p skip) t k).val ∧ k ≤ (copyIf b (recreate p skip) t k).next := by
  unfold copyIf
  split
  · exact recreate_held p skip t k h
  · exact ⟨h, Nat.le_refl _⟩

theorem stripMeta_held (p : Policy) (mkeys : List String) (t : T) (k : Nat) (h : Held p k t) :
    Held p (stripMeta p mkeys t k).next (stripMeta p mkeys t k).val ∧ k ≤ (stripMeta p mkeys t k).next := by
  unfold stripMeta
  split
  · exact ⟨h, Nat.le_refl _⟩
  · exact recreate_held p mkeys t k h

theorem mutT_held (p : Policy) (hp : PolOk p) (m : Mode) (t : T) (k : Nat) (h : Held p k t) :
    Held p (mutT p m t k).next (mutT p m t k).val ∧ k ≤ (mutT p m t k).next :=
  ⟨⟨mutT_safe p m hp.list t k h.safe, (mutT_lt p m t k h.lt).1⟩, (mutT_lt p m t k h.lt).2⟩

theorem update_held (p : Policy) (hp : PolOk p) (to src : T) (k : Nat) (ht : Held p k to) (hs : Held p k src) :
    Held p (update to src k).next (update to src k).val ∧ k ≤ (update to src k).next :=
  ⟨⟨update_safe p hp.ns to src k ht.safe hs.safe, (update_lt to src k ht.lt hs.lt).1⟩, (update_lt to src k ht.lt hs.lt).2⟩

theorem mergeConfig_held (p : Policy) (hp : PolOk p) (cs : Sites) (src to : T) (k : Nat) (hs : Held p k src) (ht : Held p k to) :
    Held p (mergeConfig p cs src to k).next (mergeConfig p cs src to k).val ∧ k ≤ (mergeConfig p cs src to k).next := by
  have h1 : Held p (copyIf cs.mergeFrom (clone p) src k).next (copyIf cs.mergeFrom (clone p) src k).val ∧ k ≤ (copyIf cs.mergeFrom (clone p) src k).next :=
    copyIf_held p [] cs.mergeFrom src k hs
  have h2 : Held p (copyIf cs.mergeTo (clone p) to (copyIf cs.mergeFrom (clone p) src k).next).next
      (copyIf cs.mergeTo (clone p) to (copyIf cs.mergeFrom (clone p) src k).next).val ∧
      (copyIf cs.mergeFrom (clone p) src k).next ≤ (copyIf cs.mergeTo (clone p) to (copyIf cs.mergeFrom (clone p) src k).next).next :=
    copyIf_held p [] cs.mergeTo to _ (ht.mono h1.2)
  have h3 := update_held p hp _ _ _ h2.1 (h1.1.mono h2.2)
  simp only [mergeConfig]
  exact ⟨h3.1, by omega⟩

theorem stripUnknown_held (p : Policy) (hp : PolOk p) (cs : Sites) (known : List String) (t : T) (k : Nat) (h : Held p k t) :
    Held p (stripUnknown p cs known t k).next (stripUnknown p cs known t k).val ∧ k ≤ (stripUnknown p cs known t k).next := by
  have hc : Held p (copyIf cs.stripUnknown (clone p) t k).next (copyIf cs.stripUnknown (clone p) t k).val ∧ k ≤ (copyIf cs.stripUnknown (clone p) t k).next :=
    copyIf_held p [] cs.stripUnknown t k h
  simp only [stripUnknown]
  generalize copyIf cs.stripUnknown (clone p) t k = c at hc ⊢
  cases hv : c.val with
  | atom n => exact ⟨Held_atom p _ n, hc.2⟩
  | node kd i kids =>
    have hh := hc.1
    rw [hv] at hh
    have hlt := IdsLt_node.mp hh.lt
    refine ⟨⟨?_, IdsLt_node.mpr ⟨hlt.1, delK_lt known c.next kids i "" hlt.2⟩⟩, hc.2⟩
    by_cases hr : p.recreated kd = true
    · exact Safe_node_rec hr (delK_safe p hp.ns known kids i "" hh.safe.kids)
    · have hr' : p.recreated kd = false := by simpa using hr
      have hn := hh.safe.nonrec hr'
      refine Safe_node_nonrec hr' hn.1 ?_
      exact delK_nomut p known kids i "" hn.2

theorem instantiate_held (p : Policy) (hp : PolOk p) (cs : Sites) (mkeys : List String) (t : T) (k : Nat) (h : Held p k t) :
    Held p (instantiate p cs mkeys t k).next (instantiate p cs mkeys t k).val ∧ k ≤ (instantiate p cs mkeys t k).next := by
  have hc : Held p (copyIf cs.instantiate (stripMeta p mkeys) t k).next (copyIf cs.instantiate (stripMeta p mkeys) t k).val ∧
      k ≤ (copyIf cs.instantiate (stripMeta p mkeys) t k).next := by
    unfold copyIf
    split
    · exact stripMeta_held p mkeys t k h
    · exact ⟨h, Nat.le_refl _⟩
  have hm := mutT_held p hp .inst _ _ hc.1
  simp only [instantiate, instMut]
  exact ⟨hm.1, by omega⟩

theorem getDefaultsK_held (p : Policy) (cs : Sites) :
    ∀ (ds : Kids) (k : Nat), HeldK p k ds →
      HeldK p (getDefaultsK p cs ds k).next (getDefaultsK p cs ds k).val ∧ k ≤ (getDefaultsK p cs ds k).next
  | [], k, _ => by simp only [getDefaultsK]; exact ⟨⟨SafeK_nil p, IdsLtK_nil _⟩, Nat.le_refl _⟩
  | (dest, d) :: r, k, h => by
    have hs := SafeK_cons.mp h.safe
    have hl := IdsLtK_cons.mp h.lt
    have h1 := copyIf_held p [] cs.getDefaults d k ⟨hs.1, hl.1⟩
    have h2 := getDefaultsK_held p cs r (copyIf cs.getDefaults (recreate p []) d k).next ⟨hs.2, hl.2.mono h1.2⟩
    simp only [getDefaultsK]
    exact ⟨⟨SafeK_cons.mpr ⟨h1.1.safe, h2.1.safe⟩, IdsLtK_cons.mpr ⟨h1.1.lt.mono h2.2, h2.1.lt⟩⟩, by omega⟩

theorem getDefaults_held (p : Policy) (hp : PolOk p) (cs : Sites) (ds : Kids) (k : Nat) (h : HeldK p k ds) :
    Held p (getDefaults p cs ds k).next (getDefaults p cs ds k).val ∧ k ≤ (getDefaults p cs ds k).next := by
  have h1 := getDefaultsK_held p cs ds k h
  have hroot : Held p ((getDefaultsK p cs ds k).next + 1) (.node .ns (getDefaultsK p cs ds k).next (getDefaultsK p cs ds k).val) :=
    ⟨Safe_node_rec hp.ns h1.1.safe, IdsLt_node.mpr ⟨Nat.lt_succ_self _, h1.1.lt.mono (Nat.le_succ _)⟩⟩
  have h2 := mutT_held p hp .adapt _ _ hroot
  simp only [getDefaults, adaptMut]
  exact ⟨h2.1, by omega⟩

theorem poDefaults_held (p : Policy) (hp : PolOk p) (cs : Sites) (ds : Kids) (base : Option T) (k : Nat)
    (hds : HeldK p k ds) (hbase : ∀ b, base = some b → Held p k b) :
    Held p (poDefaults p cs ds base k).next (poDefaults p cs ds base k).val ∧ k ≤ (poDefaults p cs ds base k).next := by
  have hd := getDefaults_held p hp cs ds k hds
  cases base with
  | none => simpa only [poDefaults] using hd
  | some b =>
    have hm := mergeConfig_held p hp { cs with mergeFrom := cs.mergeFrom && cs.parseObjectBase } b (getDefaults p cs ds k).val
      (getDefaults p cs ds k).next ((hbase b rfl).mono hd.2) hd.1
    simp only [poDefaults]
    exact ⟨hm.1, by omega⟩

theorem nsOfDict_held (p : Policy) (hp : PolOk p) (o : R T) (h : Held p o.next o.val) :
    Held p (nsOfDict o).next (nsOfDict o).val ∧ o.next ≤ (nsOfDict o).next := by
  unfold nsOfDict
  split
  · rename_i j kids heq
    have hh : Held p o.next (.node .dict j kids) := heq ▸ h
    exact ⟨⟨Safe_node_rec hp.ns hh.safe.kids, IdsLt_node.mpr ⟨Nat.lt_succ_self _, (IdsLt_node.mp hh.lt).2.mono (Nat.le_succ _)⟩⟩, Nat.le_succ _⟩
  · exact ⟨h, Nat.le_refl _⟩

theorem parseObject_held (p : Policy) (hp : PolOk p) (cs : Sites) (ds : Kids) (base : Option T) (obj : T) (k : Nat)
    (hds : HeldK p k ds) (hbase : ∀ b, base = some b → Held p k b) (hobj : Held p k obj) :
    Held p (parseObject p cs ds base obj k).next (parseObject p cs ds base obj k).val ∧ k ≤ (parseObject p cs ds base obj k).next := by
  have hd1 := poDefaults_held p hp cs ds base k hds hbase
  simp only [parseObject]
  generalize poDefaults p cs ds base k = d0 at hd1 ⊢
  have hda := mutT_held p hp .adapt d0.val d0.next hd1.1
  replace hd1 : Held p (adaptMut p d0.val d0.next).next (adaptMut p d0.val d0.next).val ∧ k ≤ (adaptMut p d0.val d0.next).next :=
    ⟨hda.1, Nat.le_trans hd1.2 hda.2⟩
  generalize adaptMut p d0.val d0.next = d1 at hd1 ⊢
  have ho := copyIf_held p [] cs.parseObject obj d1.next (hobj.mono hd1.2)
  generalize copyIf cs.parseObject (recreate p []) obj d1.next = o at ho ⊢
  have hn := nsOfDict_held p hp o ho.1
  generalize nsOfDict o = asNs at hn ⊢
  have ha := mutT_held p hp .adapt asNs.val asNs.next hn.1
  have hk2 : d1.next ≤ (adaptMut p asNs.val asNs.next).next := by
    have := ho.2; have := hn.2; have := ha.2; simp only [adaptMut]; omega
  have hmg := mergeConfig_held p hp cs (adaptMut p asNs.val asNs.next).val d1.val (adaptMut p asNs.val asNs.next).next
    ha.1 (hd1.1.mono hk2)
  have hv := (validate_spec p cs (fun _ => True) (mergeConfig p cs (adaptMut p asNs.val asNs.next).val d1.val (adaptMut p asNs.val asNs.next).next).val
    (mergeConfig p cs (adaptMut p asNs.val asNs.next).val d1.val (adaptMut p asNs.val asNs.next).next).next
    (Or.inr (ownTrue p _)) (freshTrue _)).2.2
  exact ⟨hmg.1.mono hv, by have := hd1.2; have := hmg.2; omega⟩

theorem mergeNsOpt_held (p : Policy) (hp : PolOk p) (cs : Sites) (ns : Option T) (d : M T) (h : Held p d.next d.val)
    (hns : ∀ n, ns = some n → Held p d.next n) :
    Held p (mergeNsOpt p cs ns d).next (mergeNsOpt p cs ns d).val ∧ d.next ≤ (mergeNsOpt p cs ns d).next := by
  cases ns with
  | none => exact ⟨h, Nat.le_refl _⟩
  | some n => exact mergeConfig_held p hp _ n d.val d.next (hns n rfl) h

theorem parseArgs_held (p : Policy) (hp : PolOk p) (cs : Sites) (ds : Kids) (ns : Option T) (argv : T) (k : Nat)
    (hds : HeldK p k ds) (hns : ∀ n, ns = some n → Held p k n) :
    Held p (parseArgs p cs ds ns argv k).next (parseArgs p cs ds ns argv k).val ∧ k ≤ (parseArgs p cs ds ns argv k).next := by
  have hd := getDefaults_held p hp cs ds k hds
  have hm := mergeNsOpt_held p hp cs ns (getDefaults p cs ds k) hd.1 (fun n hn => (hns n hn).mono hd.2)
  simp only [parseArgs]
  generalize mergeNsOpt p cs ns (getDefaults p cs ds k) = m at hm ⊢
  have hak : m.next ≤ (copyIf cs.parseArgsArgs copyArgv argv m.next).next := by
    unfold copyIf
    split
    · cases argv with
      | atom n => exact Nat.le_refl _
      | node kd i kids => exact Nat.le_succ _
    · exact Nat.le_refl _
  generalize copyIf cs.parseArgsArgs copyArgv argv m.next = a at hak ⊢
  have had := mutT_held p hp .adapt m.val a.next (hm.1.mono hak)
  have hv := (validate_spec p cs (fun _ => True) (adaptMut p m.val a.next).val (adaptMut p m.val a.next).next
    (Or.inr (ownTrue p _)) (freshTrue _)).2.2
  exact ⟨had.1.mono hv, by have := hd.2; have := hm.2; have := had.2; simp only [adaptMut] at *; omega⟩

theorem parseText_held (p : Policy) (hp : PolOk p) (cs : Sites) (ds : Kids) (shape : T) (k : Nat)
    (hds : HeldK p k ds) (hshape : Safe p shape) :
    Held p (parseText p cs ds shape k).next (parseText p cs ds shape k).val ∧ k ≤ (parseText p cs ds shape k).next := by
  have hl := freshen_lt shape k
  have h := parseObject_held p hp { cs with parseObject := false } ds none (freshen shape k).val (freshen shape k).next
    (hds.mono hl.2) (fun b hb => by cases hb) ⟨freshen_safe p shape k hshape, hl.1⟩
  simp only [parseText]
  exact ⟨h.1, by omega⟩

theorem stripUnknownAny_held (p : Policy) (hp : PolOk p) (cs : Sites) (known : List String) (t : T) (k : Nat) (h : Held p k t) :
    Held p (stripUnknownAny p cs known t k).next (stripUnknownAny p cs known t k).val ∧ k ≤ (stripUnknownAny p cs known t k).next := by
  unfold stripUnknownAny
  split
  · exact stripUnknown_held p hp cs known _ k h
  · exact ⟨h, Nat.le_refl _⟩

theorem instantiateAny_held (p : Policy) (hp : PolOk p) (cs : Sites) (mkeys : List String) (t : T) (k : Nat) (h : Held p k t) :
    Held p (instantiateAny p cs mkeys t k).next (instantiateAny p cs mkeys t k).val ∧ k ≤ (instantiateAny p cs mkeys t k).next := by
  unfold instantiateAny
  split
  · exact instantiate_held p hp cs mkeys _ k h
  · exact ⟨h, Nat.le_refl _⟩

theorem save_le (p : Policy) (cs : Sites) (mkeys : List String) (mf : Bool) (t : T) (k : Nat) :
    k ≤ (save p cs mkeys mf t k).next := by
  unfold save
  cases mf with
  | false =>
    simp only [Bool.false_eq_true, ↓reduceIte]
    split
    · exact dump_le p cs mkeys t k
    · exact (mutT_spec p .adapt (fun _ => True) t k (ownTrue p t) (freshTrue k)).2.2
  | true =>
    simp only [↓reduceIte]
    have hc : k ≤ (copyIf cs.saveCfg (clone p) t k).next :=
      (copyIf_clone_spec p [] (fun _ => True) cs.saveCfg t k (Or.inr (ownTrue p t)) (freshTrue k)).2
    generalize copyIf cs.saveCfg (clone p) t k = c at hc ⊢
    have hs := (stripMeta_own p mkeys (fun _ => True) c.val c.next (ownTrue p _) (freshTrue _)).2
    generalize stripMeta p mkeys c.val c.next = sm at hs ⊢
    have hv := (validate_spec p cs (fun _ => True) sm.val sm.next (Or.inr (ownTrue p _)) (freshTrue _)).2.2
    generalize validate p cs sm.val sm.next = v at hv ⊢
    have hw := (mutT_spec p .adapt (fun _ => True) c.val v.next (ownTrue p _) (freshTrue _)).2.2
    have hd := dump_le p cs mkeys (adaptMut p c.val v.next).val (adaptMut p c.val v.next).next
    simp only [adaptMut] at *
    omega

/-! ### histories -/

/-- everything the caller holds and every declared default is outside the finding class and older than the counter -/
def StHeld (p : Policy) (s : St) : Prop := (∀ t ∈ s.env, Held p s.k t) ∧ HeldK p s.k s.defaults

theorem StHeld.get {p : Policy} {s : St} (h : StHeld p s) (n : Nat) : Held p s.k (s.get n) := by
  unfold St.get
  by_cases hn : n < s.env.length
  · have : s.env.getD n (.atom 0) = s.env[n] := by simp [List.getD, hn]
    rw [this]
    exact h.1 _ (List.getElem_mem hn)
  · have : s.env.getD n (.atom 0) = .atom 0 := by simp [List.getD, Nat.le_of_not_lt hn]
    rw [this]
    exact Held_atom p _ 0

theorem StHeld.after {p : Policy} {s : St} (h : StHeld p s) (ds : Kids) (b : Bool) (v : T) (k' : Nat)
    (hds : HeldK p k' ds) (hv : b = true → Held p k' v) (hk : s.k ≤ k') :
    StHeld p { defaults := ds, env := if b then s.env ++ [v] else s.env, k := k' } := by
  refine ⟨?_, hds⟩
  intro t ht
  cases b with
  | false => exact (h.1 t ht).mono hk
  | true =>
    simp only [↓reduceIte, List.mem_append, List.mem_singleton] at ht
    rcases ht with ht | ht
    · exact (h.1 t ht).mono hk
    · subst ht; exact hv rfl

theorem HeldK_insertK {p : Policy} {k : Nat} {key : String} {v : T} {to : Kids} (hv : Held p k v) (ht : HeldK p k to) :
    HeldK p k (insertK key v to) := ⟨SafeK_insertK hv.safe ht.safe, IdsLtK_insertK hv.lt ht.lt⟩

/-- the state after any operation is again `StHeld` -/
theorem Op.next_held (p : Policy) (hp : PolOk p) (cs : Sites) (mkeys : List String) (s : St) (op : Op)
    (h : StHeld p s) (hshape : op.shapeSafe p = true) : StHeld p (op.next p cs mkeys s) := by
  have tk : ∀ (r : M T), s.k ≤ r.next → HeldK p r.next s.defaults := fun r hr => h.2.mono hr
  cases op with
  | dump a =>
    exact StHeld.after h _ false _ _ (tk _ (dump_le p cs mkeys _ _)) (fun hb => by cases hb) (dump_le p cs mkeys _ _)
  | validate a =>
    have hk := (validate_spec p cs (fun _ => True) (s.get a) s.k (Or.inr (ownTrue p _)) (freshTrue _)).2.2
    exact StHeld.after h _ false _ _ (tk _ hk) (fun hb => by cases hb) hk
  | validateBranch b a =>
    have hk := (validateBranch_spec p cs (fun _ => True) b (s.get a) s.k (Or.inr (ownTrue p _)) (freshTrue _)).2.2
    exact StHeld.after h _ false _ _ (tk _ hk) (fun hb => by cases hb) hk
  | merge src to =>
    have hm := mergeConfig_held p hp cs (s.get src) (s.get to) s.k (h.get src) (h.get to)
    exact StHeld.after h _ true _ _ (tk _ hm.2) (fun _ => hm.1) hm.2
  | stripUnknown known a =>
    have hm := stripUnknownAny_held p hp cs known (s.get a) s.k (h.get a)
    exact StHeld.after h _ true _ _ (tk _ hm.2) (fun _ => hm.1) hm.2
  | instantiate a =>
    have hm := instantiateAny_held p hp cs mkeys (s.get a) s.k (h.get a)
    exact StHeld.after h _ true _ _ (tk _ hm.2) (fun _ => hm.1) hm.2
  | parseObject o b =>
    have hb : ∀ x, s.getOpt b = some x → Held p s.k x := by
      intro x hx
      cases b with
      | none => simp [St.getOpt] at hx
      | some n => simp only [St.getOpt, Option.some.injEq] at hx; subst hx; exact h.get n
    have hm := parseObject_held p hp cs s.defaults (s.getOpt b) (s.get o) s.k h.2 hb (h.get o)
    exact StHeld.after h _ true _ _ (tk _ hm.2) (fun _ => hm.1) hm.2
  | parseArgs av ns =>
    have hb : ∀ x, s.getOpt ns = some x → Held p s.k x := by
      intro x hx
      cases ns with
      | none => simp [St.getOpt] at hx
      | some n => simp only [St.getOpt, Option.some.injEq] at hx; subst hx; exact h.get n
    have hm := parseArgs_held p hp cs s.defaults (s.getOpt ns) (s.get av) s.k h.2 hb
    exact StHeld.after h _ true _ _ (tk _ hm.2) (fun _ => hm.1) hm.2
  | parseText shape =>
    have hsafe : Safe p shape := by
      simp only [Op.shapeSafe, safe, List.isEmpty_iff] at hshape; exact hshape
    have hm := parseText_held p hp cs s.defaults shape s.k h.2 hsafe
    exact StHeld.after h _ true _ _ (tk _ hm.2) (fun _ => hm.1) hm.2
  | save mf a =>
    have hk := save_le p cs mkeys mf (s.get a) s.k
    exact StHeld.after h _ false _ _ (tk _ hk) (fun hb => by cases hb) hk
  | getDefaults =>
    have hm := getDefaults_held p hp cs s.defaults s.k h.2
    exact StHeld.after h _ true _ _ (tk _ hm.2) (fun _ => hm.1) hm.2
  | setDefault dest a =>
    exact StHeld.after h _ false _ _ (HeldK_insertK (h.get a) h.2) (fun hb => by cases hb) (Nat.le_refl _)

theorem idsL_lt {p : Policy} {k : Nat} : ∀ (ts : List T), (∀ t ∈ ts, Held p k t) → ∀ j ∈ idsL ts, j < k
  | [], _ => by intro j hj; simp [idsL] at hj
  | t :: r, h => by
    intro j hj
    simp only [idsL, List.mem_append] at hj
    rcases hj with hj | hj
    · exact (h t (List.mem_cons_self)).lt j hj
    · exact idsL_lt r (fun x hx => h x (List.mem_cons_of_mem _ hx)) j hj

theorem StHeld.ids_lt {p : Policy} {s : St} (h : StHeld p s) : ∀ j ∈ s.ids, j < s.k := by
  intro j hj
  simp only [St.ids, List.mem_append] at hj
  rcases hj with hj | hj
  · exact idsL_lt s.env h.1 j hj
  · exact h.2.lt j hj

/-- `StHeld` is an instance of the invariant of the history theorem, for "made after the counter" -/
theorem StHeld.inv {p : Policy} {s : St} (h : StHeld p s) : Inv p (fun w => s.k ≤ w) s := by
  refine ⟨?_, ?_, fun j hj => hj⟩
  · intro t ht i hi
    have := (h.1 t ht).safe
    unfold Safe at this
    rw [this] at hi; simp at hi
  · intro i hi
    have := h.2.safe
    unfold SafeK at this
    rw [this] at hi; simp at hi

/-- every operation of a history writes only identities made after everything held when it starts -/
theorem traceHist_fresh (p : Policy) (hp : PolOk p) (cs : Sites) (mkeys : List String) (hse : p.stripEmpty = true) (hso : SitesOk cs) :
    ∀ (ops : List Op) (s : St), StHeld p s → ops.all (fun op => op.shapeSafe p) = true →
      ∀ sw ∈ traceHist p cs mkeys ops s, StHeld p sw.1 ∧ ∀ w ∈ sw.2, sw.1.k ≤ w
  | [], _, _, _ => by intro sw hsw; simp [traceHist] at hsw
  | op :: rest, s, h, hops => by
    simp only [List.all_cons, Bool.and_eq_true] at hops
    intro sw hsw
    simp only [traceHist, List.mem_cons] at hsw
    rcases hsw with hsw | hsw
    · subst hsw
      exact ⟨h, (Op.step_spec p cs mkeys (fun w => s.k ≤ w) hp.nsIn hse hso s op h.inv).1⟩
    · exact traceHist_fresh p hp cs mkeys hse hso rest _ (Op.next_held p hp cs mkeys s op h hops.1) hops.2 sw hsw

end Jap.Heap

/-
Monotonicity ("a member that rejected the raw value rejects the converted one") and idempotence of the adapter
model, value channel (`orig = none`, `serialize = false`).

`uSafe t`: the types allowed inside Union members: no `Any`, no `Set`, no `Dict[int, _]`, `Literal` with
string members only, no restricted NUMBER type and no registered type (restricted STRING types are allowed).  `good t`: every Union member inside `t` is `uSafe`; outside Unions anything goes.
-/
import Jap.Lemmas.AdaptShape
namespace Jap.Adapt

mutual
def uSafe : Ty → Bool
  | .str | .int | .float | .bool | .none => true
  | .enum _ _ => true
  | .literal ls => ls.all Lit.isStr
  | .list t => uSafe t
  | .tupleVar t => uSafe t
  | .dict k t => (match k with | .str => true | .int => false) && uSafe t
  | .tuple ts => uSafeAll ts
  | .union ts => uSafeAll ts
  | .any => false
  | .set _ => false
  | .rnum b _ => (match b with | .str => true | _ => false)   -- restricted STRING types are fine (only the text itself gets
                                                             -- through); restricted NUMBER types are not: `C10_idem_fails_rnum_union`
  | .reg _ => false
def uSafeAll : List Ty → Bool
  | [] => true
  | t :: ts => uSafe t && uSafeAll ts
end

mutual
def good : Ty → Bool
  | .union ts => uSafeAll ts
  | .list t => good t
  | .tupleVar t => good t
  | .set t => good t
  | .dict _ t => good t
  | .tuple ts => goodAll ts
  | _ => true
def goodAll : List Ty → Bool
  | [] => true
  | t :: ts => good t && goodAll ts
end

theorem uSafeAll_mem {ts : List Ty} (h : uSafeAll ts = true) : ∀ t ∈ ts, uSafe t = true := by
  induction ts with
  | nil => simp
  | cons a as ih =>
    simp only [uSafeAll, Bool.and_eq_true] at h
    intro t ht
    rcases List.mem_cons.mp ht with rfl | ht
    · exact h.1
    · exact ih h.2 t ht

theorem goodAll_mem {ts : List Ty} (h : goodAll ts = true) : ∀ t ∈ ts, good t = true := by
  induction ts with
  | nil => simp
  | cons a as ih =>
    simp only [goodAll, Bool.and_eq_true] at h
    intro t ht
    rcases List.mem_cons.mp ht with rfl | ht
    · exact h.1
    · exact ih h.2 t ht

mutual
theorem uSafe_good : ∀ t : Ty, uSafe t = true → good t = true
  | .str, _ | .int, _ | .float, _ | .bool, _ | .none, _ | .enum _ _, _ | .literal _, _ | .any, _ => by simp [good]
  | .set _, h => by simp [uSafe] at h
  | .rnum _ _, _ => by simp [good]
  | .reg _, h => by simp [uSafe] at h
  | .list t, h => by simp only [uSafe] at h; simp only [good]; exact uSafe_good t h
  | .tupleVar t, h => by simp only [uSafe] at h; simp only [good]; exact uSafe_good t h
  | .dict k t, h => by simp only [uSafe, Bool.and_eq_true] at h; simp only [good]; exact uSafe_good t h.2
  | .tuple ts, h => by simp only [uSafe] at h; simp only [good]; exact uSafeAll_goodAll ts h
  | .union ts, h => by simp only [uSafe] at h; simp only [good]; exact h
theorem uSafeAll_goodAll : ∀ ts : List Ty, uSafeAll ts = true → goodAll ts = true
  | [], _ => rfl
  | t :: ts, h => by
    simp only [uSafeAll, Bool.and_eq_true] at h
    simp only [goodAll, Bool.and_eq_true]
    exact ⟨uSafe_good t h.1, uSafeAll_goodAll ts h.2⟩
end

/-! ### what a non-Union `uSafe` adapter can turn a value into -/

def scalarNonStr : Val → Bool
  | .null | .bool _ | .int _ | .flt _ => true
  | _ => false

inductive Shape (O : Oracle) : Val → Val → Prop
  | same (v) : Shape O v v
  | load (s L) : loadIfStr O (.str s) = L → scalarNonStr L = true → Shape O (.str s) L
  | flt (v i r) : loadIfStr O v = .int i → toFlt O i = some r → Shape O v (.flt r)
  | enum (s c) : Shape O (.str s) (.enum c s)
  | seqList (v xs ys) : seqItems v = some xs → Shape O v (.list ys)
  | seqTuple (v xs ys) : seqItems v = some xs → Shape O v (.tuple ys)
  | dict (kvs ys) : Shape O (.dict kvs) (.dict ys)

theorem loadIfStr_nonstr (O : Oracle) (v : Val) (h : isStr v = false) : loadIfStr O v = v := by
  cases v <;> simp [isStr] at h <;> rfl

theorem loadIfStr_cases (O : Oracle) (v L : Val) (h : loadIfStr O v = L) : (∃ s, v = .str s) ∨ v = L := by
  cases v <;> first | exact Or.inl ⟨_, rfl⟩ | exact Or.inr h

theorem shape_of_load (O : Oracle) (v L : Val) (h : loadIfStr O v = L) (hs : scalarNonStr L = true) : Shape O v L := by
  rcases loadIfStr_cases O v L h with ⟨s, rfl⟩ | rfl
  · exact .load s L h hs
  · exact .same _

theorem leaf_shape (O : Oracle) (l : Leaf) (v w : Val) (h : adaptLeaf O l v = .ok w) : Shape O v w := by
  cases l <;> simp only [adaptLeaf] at h
  · cases v <;> simp at h; subst h; exact .same _
  · split at h <;> simp at h
    subst h; rename_i i hi
    exact shape_of_load O v _ hi rfl
  · have h' : adaptLeaf O .float v = .ok w := by simpa only [adaptLeaf] using h
    obtain ⟨r, rfl, hr | ⟨i, hi, hf⟩⟩ := adaptLeaf_float_ok O v w h'
    · exact shape_of_load O v _ hr rfl
    · exact .flt v i r hi hf
  · split at h <;> simp at h
    subst h; rename_i b hb
    exact shape_of_load O v _ hb rfl
  · split at h <;> simp at h
    subst h; rename_i hn
    exact shape_of_load O v _ hn rfl

theorem strlit_same (O : Oracle) (ls : List Lit) (hs : ls.all Lit.isStr = true) (v w : Val)
    (h : adaptLiteral O ls v = .ok w) : w = v := by
  have hl : litLeaves ls = [] := by
    unfold litLeaves
    have h1 : ls.any Lit.isInt = false := by
      rw [List.any_eq_false]; intro l hl
      have := List.all_eq_true.mp hs l hl
      cases l <;> simp [Lit.isStr] at this <;> simp [Lit.isInt]
    have h2 : ls.any Lit.isBool = false := by
      rw [List.any_eq_false]; intro l hl
      have := List.all_eq_true.mp hs l hl
      cases l <;> simp [Lit.isStr] at this <;> simp [Lit.isBool]
    simp [h1, h2]
  unfold adaptLiteral at h
  simp only [hl] at h
  by_cases hc : (!litMem ls v && isStr v) = true
  · simp [hc] at h
  · have hc' : (!litMem ls v && isStr v) = false := by simpa using hc
    simp only [hc', Bool.false_eq_true, if_false] at h
    by_cases hm : litMem ls v = true
    · simp [hm] at h; exact h.symm
    · simp [hm] at h

theorem enum_shape (O : Oracle) (c : Nat) (ms : List String) (v w : Val) (h : adaptEnum false c ms v = .ok w) :
    Shape O v w := by
  unfold adaptEnum at h
  simp only [Bool.false_eq_true, if_false] at h
  cases v with
  | str s => simp only at h; split at h <;> simp at h; subst h; exact .enum s c
  | enum c' n => simp only at h; split at h <;> simp at h; subst h; exact .same _
  | tuple xs => simp only at h; split at h <;> simp at h
  | _ => simp at h

/-! ### scalar-like consumers reject the converted value when they rejected the raw one -/

theorem seqItems_scalar {v : Val} {xs : List Val} (h : seqItems v = some xs) :
    isStr v = false ∧ scalarNonStr v = false ∧ (∀ c n, v ≠ .enum c n) ∧ (∀ kvs, v ≠ .dict kvs) := by
  cases v <;> simp [seqItems] at h <;> simp [isStr, scalarNonStr]

theorem leaf_mono (O : Oracle) (l : Leaf) (v w : Val) (hs : Shape O v w) (e : Err)
    (h : adaptLeaf O l v = .error e) : ∃ e', adaptLeaf O l w = .error e' := by
  cases hs with
  | same => exact ⟨e, h⟩
  | load s _ hL hsc =>
    have hn : loadIfStr O w = w := by cases w <;> simp [scalarNonStr] at hsc <;> rfl
    cases l <;> simp only [adaptLeaf] at h ⊢
    · simp at h
    all_goals (rw [hn]; rw [hL] at h; exact ⟨e, h⟩)
  | flt v i r hi hf =>
    cases l <;> simp only [adaptLeaf] at h ⊢
    · cases v <;> simp [loadIfStr] at hi ⊢
    · rw [hi] at h; simp at h
    · rw [hi] at h; simp [hf] at h
    · simp [loadIfStr]
    · simp [loadIfStr]
  | enum s c =>
    cases l <;> simp only [adaptLeaf] at h ⊢
    · simp at h
    all_goals simp [loadIfStr]
  | seqList v xs ys hx =>
    cases l <;> simp [adaptLeaf, loadIfStr]
  | seqTuple v xs ys hx =>
    cases l <;> simp [adaptLeaf, loadIfStr]
  | dict kvs ys =>
    cases l <;> simp [adaptLeaf, loadIfStr]

theorem enum_mono (O : Oracle) (c : Nat) (ms : List String) (v w : Val) (hs : Shape O v w) (e : Err)
    (h : adaptEnum false c ms v = .error e) : ∃ e', adaptEnum false c ms w = .error e' := by
  cases hs with
  | same => exact ⟨e, h⟩
  | load s _ hL hsc => cases w <;> simp [scalarNonStr] at hsc <;> simp [adaptEnum]
  | flt v i r hi hf => simp [adaptEnum]
  | enum s c' =>
    simp only [adaptEnum, Bool.false_eq_true, if_false] at h ⊢
    split at h
    · simp at h
    · rename_i hns
      have : ¬ (c = c' ∧ s ∈ ms) := fun hh => hns hh.2
      simp [this]
  | seqList v xs ys hx => simp [adaptEnum]
  | seqTuple v xs ys hx =>
    simp only [adaptEnum, Bool.false_eq_true, if_false]
    split <;> simp
  | dict kvs ys => simp [adaptEnum]

theorem strlit_reject_nonstr (O : Oracle) (ls : List Lit) (hs : ls.all Lit.isStr = true) (w : Val) (hw : isStr w = false) :
    adaptLiteral O ls w = .error .value := by
  have hm : litMem ls w = false := by
    simp only [litMem, List.any_eq_false]
    intro l hl
    have := List.all_eq_true.mp hs l hl
    cases l <;> simp [Lit.isStr] at this
    cases w <;> simp [isStr] at hw <;> simp [Lit.toVal, pyEq]
  unfold adaptLiteral
  simp [hm, hw]

theorem strlit_mono (O : Oracle) (ls : List Lit) (hl : ls.all Lit.isStr = true) (v w : Val) (hs : Shape O v w) (e : Err)
    (h : adaptLiteral O ls v = .error e) : ∃ e', adaptLiteral O ls w = .error e' := by
  cases hs with
  | same => exact ⟨e, h⟩
  | load s _ hL hsc => exact ⟨_, strlit_reject_nonstr O ls hl w (by cases w <;> simp [scalarNonStr] at hsc <;> rfl)⟩
  | flt v i r hi hf => exact ⟨_, strlit_reject_nonstr O ls hl _ rfl⟩
  | enum s c => exact ⟨_, strlit_reject_nonstr O ls hl _ rfl⟩
  | seqList v xs ys hx => exact ⟨_, strlit_reject_nonstr O ls hl _ rfl⟩
  | seqTuple v xs ys hx => exact ⟨_, strlit_reject_nonstr O ls hl _ rfl⟩
  | dict kvs ys => exact ⟨_, strlit_reject_nonstr O ls hl _ rfl⟩


/-! ### rejection by container consumers, in closed form -/

theorem isErr_iff {α : Type} (r : Except Err α) : (∃ e, r = .error e) ↔ isOk r = false := (isOk_false_iff r).symm

theorem seqLike_reject (O : Oracle) (t1 : Ty) (u : Val) (mk : List Val → Val)
    (r : Except Err Val)
    (hr : r = match seqItems u with
      | .none => .error .value
      | some xs => match allM (fun x => adapt O false .none t1 x) xs with
        | .error e => .error e
        | .ok ys => .ok (mk ys)) :
    (∃ e, r = .error e) ↔ seqItems u = .none ∨ ∃ xs, seqItems u = some xs ∧ ∃ x ∈ xs, ∃ e, adapt O false .none t1 x = .error e := by
  subst hr
  cases hs : seqItems u with
  | none => simp
  | some xs =>
    simp only [Option.some.injEq, exists_eq_left', false_or, reduceCtorEq]
    rw [← allM_error_iff]
    cases allM (fun x => adapt O false .none t1 x) xs <;> simp

theorem list_reject (O : Oracle) (t1 : Ty) (u : Val) :
    (∃ e, adapt O false .none (.list t1) u = .error e) ↔
      seqItems u = .none ∨ ∃ xs, seqItems u = some xs ∧ ∃ x ∈ xs, ∃ e, adapt O false .none t1 x = .error e := by
  rw [adapt]
  exact seqLike_reject O t1 u .list _ rfl

theorem tupleVar_reject (O : Oracle) (t1 : Ty) (u : Val) :
    (∃ e, adapt O false .none (.tupleVar t1) u = .error e) ↔
      seqItems u = .none ∨ ∃ xs, seqItems u = some xs ∧ ∃ x ∈ xs, ∃ e, adapt O false .none t1 x = .error e := by
  rw [adapt]
  simp only [Bool.false_eq_true, if_false]
  exact seqLike_reject O t1 u .tuple _ rfl

theorem tuple_reject (O : Oracle) (ts : List Ty) (u : Val) :
    (∃ e, adapt O false .none (.tuple ts) u = .error e) ↔
      seqItems u = .none ∨ ∃ xs, seqItems u = some xs ∧
        (xs.length ≠ ts.length ∨ ∃ tx ∈ ts.zip xs, ∃ e, adapt O false .none tx.1 tx.2 = .error e) := by
  rw [isErr_iff]
  cases hs : seqItems u with
  | none => simp [adapt, hs]
  | some xs =>
    have := tuple_isOk_iff O .none ts u xs hs
    simp only [Option.some.injEq, exists_eq_left', false_or, reduceCtorEq]
    rw [← Bool.not_eq_true, this]
    constructor
    · intro h
      by_cases hl : xs.length = ts.length
      · refine Or.inr (Classical.byContradiction fun hne => h ⟨hl, fun tx hm => ?_⟩)
        refine Classical.byContradiction fun hx => hne ⟨tx, hm, (isErr_iff _).mpr (by simpa using hx)⟩
      · exact Or.inl hl
    · rintro (h | ⟨tx, hm, he⟩) ⟨hl, hall⟩
      · exact h hl
      · have := hall tx hm
        rw [(isErr_iff _).mp he] at this
        simp at this

theorem dictStr_reject (O : Oracle) (t1 : Ty) (u : Val) :
    (∃ e, adapt O false .none (.dict .str t1) u = .error e) ↔
      (∀ kvs, u ≠ .dict kvs) ∨ ∃ kvs, u = .dict kvs ∧ ∃ kv ∈ kvs, ∃ e, adapt O false .none t1 kv.2 = .error e := by
  rw [isErr_iff]
  cases u with
  | dict kvs =>
    rw [dictStr_isOk, List.all_eq_false]
    simp only [ne_eq, Val.dict.injEq, forall_eq', not_true_eq_false, false_or, exists_eq_left']
    constructor
    · rintro ⟨kv, hm, h⟩; exact ⟨kv, hm, (isErr_iff _).mpr (by simpa using h)⟩
    · rintro ⟨kv, hm, h⟩; exact ⟨kv, hm, by simp [(isErr_iff _).mp h]⟩
  | _ => simp [adapt]

/-! ### what container producers do -/

/-- element-wise relation between the items before and after a container adapter of type `t` -/
def Elem (O : Oracle) (t : Ty) (x y : Val) : Prop :=
  ∃ tA, sizeOf tA < sizeOf t ∧ uSafe tA = true ∧ adapt O false .none tA x = .ok y

theorem F2_of_zip {β : Type} {R : Ty × Val → β → Prop} {S : Val → β → Prop} :
    ∀ (ts : List Ty) (xs : List Val) (ys : List β), xs.length = ts.length →
      F2 R (ts.zip xs) ys → (∀ tx ∈ ts.zip xs, ∀ y, R tx y → S tx.2 y) → F2 S xs ys
  | [], [], ys, _, h, _ => by cases h; exact .nil
  | [], _ :: _, _, hl, _, _ => by simp at hl
  | _ :: _, [], _, hl, _, _ => by simp at hl
  | t :: ts, x :: xs, ys, hl, h, hi => by
    simp only [List.zip_cons_cons] at h hi
    cases h with
    | cons h1 h2 =>
      exact .cons (hi (t, x) List.mem_cons_self _ h1)
        (F2_of_zip ts xs _ (by simpa using hl) h2 (fun tx hm => hi tx (List.mem_cons_of_mem _ hm)))

theorem seq_producer (O : Oracle) (t : Ty) (v w : Val) (hu : uSafe t = true)
    (hk : (∃ t1, t = .list t1) ∨ (∃ t1, t = .tupleVar t1) ∨ (∃ ts, t = .tuple ts))
    (h : adapt O false .none t v = .ok w) :
    ∃ xs ys, seqItems v = some xs ∧ seqItems w = some ys ∧ F2 (Elem O t) xs ys := by
  rcases hk with ⟨t1, rfl⟩ | ⟨t1, rfl⟩ | ⟨ts, rfl⟩
  · rw [adapt] at h
    cases hs : seqItems v with
    | none => simp [hs] at h
    | some xs =>
      simp only [hs] at h
      cases hz : allM (fun x => adapt O false .none t1 x) xs with
      | error e => simp [hz] at h
      | ok ys =>
        simp [hz] at h; subst h
        refine ⟨xs, ys, rfl, rfl, ((allM_ok_iff _ xs ys).mp hz).imp ?_⟩
        intro x _ y hy
        exact ⟨t1, by simp, by simpa [uSafe] using hu, hy⟩
  · rw [adapt] at h
    cases hs : seqItems v with
    | none => simp [hs] at h
    | some xs =>
      simp only [hs] at h
      cases hz : allM (fun x => adapt O false .none t1 x) xs with
      | error e => simp [hz] at h
      | ok ys =>
        simp [hz] at h; subst h
        refine ⟨xs, ys, rfl, rfl, ((allM_ok_iff _ xs ys).mp hz).imp ?_⟩
        intro x _ y hy
        exact ⟨t1, by simp, by simpa [uSafe] using hu, hy⟩
  · rw [adapt] at h
    cases hs : seqItems v with
    | none => simp [hs] at h
    | some xs =>
      simp only [hs] at h
      split at h
      · simp at h
      · cases hz : adaptZip O false ts xs with
        | error e => simp [hz] at h
        | ok ys =>
          simp [hz] at h; subst h
          obtain ⟨hf, hl⟩ := adaptZip_F2 O false ts xs ys hz
          refine ⟨xs, ys, rfl, rfl, F2_of_zip ts xs ys hl hf ?_⟩
          intro tx hm y hy
          have htm : tx.1 ∈ ts := (List.of_mem_zip hm).1
          have hlt : sizeOf tx.1 < sizeOf ts := List.sizeOf_lt_of_mem htm
          exact ⟨tx.1, by simp; omega, uSafeAll_mem (by simpa [uSafe] using hu) _ htm, hy⟩

theorem dict_producer (O : Oracle) (t1 : Ty) (v w : Val) (hu : uSafe (.dict .str t1) = true)
    (h : adapt O false .none (.dict .str t1) v = .ok w) :
    ∃ kvs ys, v = .dict kvs ∧ w = .dict ys ∧
      F2 (fun (a b : DKey × Val) => Elem O (.dict .str t1) a.2 b.2) kvs ys := by
  cases v with
  | dict kvs =>
    simp only [adapt] at h
    have h' : (match allM (fun (kx : DKey × Val) =>
        match adapt O false .none t1 kx.2 with
        | .error e => (.error e : Except Err (DKey × Val))
        | .ok y => .ok (kx.1, y)) kvs with
      | .error e => (.error e : Except Err Val)
      | .ok ys => .ok (.dict ys)) = .ok w := h
    clear h
    cases hz : allM (fun (kx : DKey × Val) =>
        match adapt O false .none t1 kx.2 with
        | .error e => (.error e : Except Err (DKey × Val))
        | .ok y => .ok (kx.1, y)) kvs with
    | error e => simp [hz] at h'
    | ok ys =>
      simp [hz] at h'; subst h'
      refine ⟨kvs, ys, rfl, rfl, ((allM_ok_iff _ kvs ys).mp hz).imp ?_⟩
      intro kx _ ky hky
      cases ha : adapt O false .none t1 kx.2 with
      | error e => simp [ha] at hky
      | ok y =>
        simp [ha] at hky; subst hky
        exact ⟨t1, by simp, by simpa [uSafe] using hu, ha⟩
  | _ => simp [adapt] at h

theorem F2.exists_right {α β : Type} {R : α → β → Prop} {xs : List α} {ys : List β} (h : F2 R xs ys) :
    ∀ x ∈ xs, ∃ y ∈ ys, R x y := by
  induction h with
  | nil => simp
  | @cons a b as bs hab _ ih =>
    intro x hx
    rcases List.mem_cons.mp hx with rfl | hx
    · exact ⟨b, List.mem_cons_self, hab⟩
    · obtain ⟨y, hy, hr⟩ := ih x hx
      exact ⟨y, List.mem_cons_of_mem _ hy, hr⟩

theorem F2.zip_right {α β γ : Type} {R : α → β → Prop} {xs : List α} {ys : List β} (h : F2 R xs ys) :
    ∀ (ts : List γ), ∀ tx ∈ ts.zip xs, ∃ y, (tx.1, y) ∈ ts.zip ys ∧ R tx.2 y := by
  induction h with
  | nil => intro ts tx hm; simp at hm
  | @cons a b as bs hab _ ih =>
    intro ts tx hm
    cases ts with
    | nil => simp at hm
    | cons t ts =>
      simp only [List.zip_cons_cons, List.mem_cons] at hm
      rcases hm with rfl | hm
      · exact ⟨b, by simp, hab⟩
      · obtain ⟨y, hy, hr⟩ := ih ts tx hm
        exact ⟨y, by simp [hy], hr⟩


/-! ### the shape of what any `uSafe` adapter returns -/

/-- a restricted string type returns its input (only a `str` that satisfies the predicate gets through) -/
theorem rstr_same (O : Oracle) (b : RBase) (k : Nat) (v w : Val) (hu : uSafe (.rnum b k) = true)
    (h : adapt O false .none (.rnum b k) v = .ok w) : w = v := by
  cases b <;> simp [uSafe] at hu
  rw [adapt] at h
  cases v <;> simp [adaptRnum, rnumConv] at h
  split at h <;> simp at h
  exact h.symm

/-- what a restricted string type rejected, it rejects after any `Shape`-conversion -/
theorem rstr_mono (O : Oracle) (b : RBase) (k : Nat) (v w : Val) (hu : uSafe (.rnum b k) = true) (hs : Shape O v w) (e : Err)
    (h2 : adapt O false .none (.rnum b k) v = .error e) : ∃ e', adapt O false .none (.rnum b k) w = .error e' := by
  cases b <;> simp [uSafe] at hu
  cases w with
  | str s =>
    cases hs with
    | same => exact ⟨e, h2⟩
    | load s' L hl hsc => simp [scalarNonStr] at hsc
  | _ => exact ⟨.value, by rw [adapt]; simp [adaptRnum, rnumConv]⟩

theorem producer_shape (O : Oracle) : ∀ (t : Ty) (v w : Val), uSafe t = true →
    adapt O false .none t v = .ok w → Shape O v w
  | .any, _, _, hu, _ => by simp [uSafe] at hu
  | .set _, _, _, hu, _ => by simp [uSafe] at hu
  | .rnum b k, v, w, hu, h => by have := rstr_same O b k v w hu h; subst this; exact .same _
  | .reg _, _, _, hu, _ => by simp [uSafe] at hu
  | .str, v, w, _, h => by rw [adapt] at h; exact leaf_shape O .str v w h
  | .int, v, w, _, h => by rw [adapt] at h; exact leaf_shape O .int v w h
  | .float, v, w, _, h => by rw [adapt] at h; exact leaf_shape O .float v w h
  | .bool, v, w, _, h => by rw [adapt] at h; exact leaf_shape O .bool v w h
  | .none, v, w, _, h => by rw [adapt] at h; exact leaf_shape O .none v w h
  | .enum c ms, v, w, _, h => by rw [adapt] at h; exact enum_shape O c ms v w h
  | .literal ls, v, w, hu, h => by
    rw [adapt] at h
    have := strlit_same O ls (by simpa [uSafe] using hu) v w h
    subst this; exact .same _
  | .list t1, v, w, hu, h => by
    obtain ⟨xs, ys, hx, hy, _⟩ := seq_producer O (.list t1) v w hu (Or.inl ⟨t1, rfl⟩) h
    rw [adapt, hx] at h
    cases hz : allM (fun x => adapt O false .none t1 x) xs with
    | error e => simp [hz] at h
    | ok ys' => simp [hz] at h; subst h; exact .seqList v xs ys' hx
  | .tupleVar t1, v, w, hu, h => by
    obtain ⟨xs, ys, hx, hy, _⟩ := seq_producer O (.tupleVar t1) v w hu (Or.inr (Or.inl ⟨t1, rfl⟩)) h
    rw [adapt, hx] at h
    cases hz : allM (fun x => adapt O false .none t1 x) xs with
    | error e => simp [hz] at h
    | ok ys' => simp [hz] at h; subst h; exact .seqTuple v xs ys' hx
  | .tuple ts, v, w, hu, h => by
    obtain ⟨xs, ys, hx, hy, _⟩ := seq_producer O (.tuple ts) v w hu (Or.inr (Or.inr ⟨ts, rfl⟩)) h
    rw [adapt, hx] at h
    simp only at h
    split at h
    · simp at h
    · cases hz : adaptZip O false ts xs with
      | error e => simp [hz] at h
      | ok ys' => simp [hz] at h; subst h; exact .seqTuple v xs ys' hx
  | .dict k t1, v, w, hu, h => by
    cases k with
    | int => simp [uSafe] at hu
    | str =>
      obtain ⟨kvs, ys, rfl, rfl, _⟩ := dict_producer O t1 v w hu h
      exact .dict kvs ys
  | .union ts, v, w, hu, h => by
    obtain ⟨t, hm, ht⟩ := union_ok_member O false ts v w h
    have hlt : sizeOf t < sizeOf ts := List.sizeOf_lt_of_mem hm
    exact producer_shape O t v w (uSafeAll_mem (by simpa [uSafe] using hu) t hm) ht
termination_by t => sizeOf t
decreasing_by all_goals simp_wf <;> omega

/-! ### what kind of thing an adapter returns -/

def ElemU (O : Oracle) (n : Nat) (x y : Val) : Prop :=
  ∃ tA, sizeOf tA < n ∧ uSafe tA = true ∧ adapt O false .none tA x = .ok y

inductive Kind (O : Oracle) (n : Nat) (v w : Val) : Prop
  | same : w = v → Kind O n v w
  | scalar : seqItems w = .none → (∀ kvs, w ≠ .dict kvs) → Kind O n v w
  | seq (xs ys) : seqItems v = some xs → seqItems w = some ys → F2 (ElemU O n) xs ys → Kind O n v w
  | dict (kvs ys) : v = .dict kvs → w = .dict ys → F2 (fun (a b : DKey × Val) => ElemU O n a.2 b.2) kvs ys → Kind O n v w

theorem Kind.mono_size {O : Oracle} {n m : Nat} {v w : Val} (h : Kind O n v w) (hnm : n ≤ m) : Kind O m v w := by
  cases h with
  | same h => exact .same h
  | scalar h1 h2 => exact .scalar h1 h2
  | seq xs ys h1 h2 hf =>
    exact .seq xs ys h1 h2 (hf.imp (fun x _ y ⟨tA, hlt, hu, ha⟩ => ⟨tA, Nat.lt_of_lt_of_le hlt hnm, hu, ha⟩))
  | dict kvs ys h1 h2 hf =>
    exact .dict kvs ys h1 h2 (hf.imp (fun x _ y ⟨tA, hlt, hu, ha⟩ => ⟨tA, Nat.lt_of_lt_of_le hlt hnm, hu, ha⟩))

theorem leaf_kind (O : Oracle) (n : Nat) (l : Leaf) (v w : Val) (h : adaptLeaf O l v = .ok w) : Kind O n v w := by
  cases l <;> simp only [adaptLeaf] at h
  · cases v <;> simp at h; subst h; exact .same rfl
  · split at h <;> simp at h; subst h; exact .scalar (by simp [seqItems]) (by simp)
  · have h' : adaptLeaf O .float v = .ok w := by simpa only [adaptLeaf] using h
    obtain ⟨r, rfl, _⟩ := adaptLeaf_float_ok O v w h'
    exact .scalar (by simp [seqItems]) (by simp)
  · split at h <;> simp at h; subst h; exact .scalar (by simp [seqItems]) (by simp)
  · split at h <;> simp at h; subst h; exact .scalar (by simp [seqItems]) (by simp)

theorem enum_kind (O : Oracle) (n : Nat) (c : Nat) (ms : List String) (v w : Val) (h : adaptEnum false c ms v = .ok w) :
    Kind O n v w := by
  unfold adaptEnum at h
  simp only [Bool.false_eq_true, if_false] at h
  cases v with
  | str s => simp only at h; split at h <;> simp at h; subst h; exact .scalar (by simp [seqItems]) (by simp)
  | enum c' n' => simp only at h; split at h <;> simp at h; subst h; exact .same rfl
  | tuple xs => simp only at h; split at h <;> simp at h
  | _ => simp at h

theorem producer_kind (O : Oracle) : ∀ (t : Ty) (v w : Val), uSafe t = true →
    adapt O false .none t v = .ok w → Kind O (sizeOf t) v w
  | .any, _, _, hu, _ => by simp [uSafe] at hu
  | .set _, _, _, hu, _ => by simp [uSafe] at hu
  | .rnum b k, v, w, hu, h => .same (rstr_same O b k v w hu h)
  | .reg _, _, _, hu, _ => by simp [uSafe] at hu
  | .str, v, w, _, h => by rw [adapt] at h; exact leaf_kind O _ .str v w h
  | .int, v, w, _, h => by rw [adapt] at h; exact leaf_kind O _ .int v w h
  | .float, v, w, _, h => by rw [adapt] at h; exact leaf_kind O _ .float v w h
  | .bool, v, w, _, h => by rw [adapt] at h; exact leaf_kind O _ .bool v w h
  | .none, v, w, _, h => by rw [adapt] at h; exact leaf_kind O _ .none v w h
  | .enum c ms, v, w, _, h => by rw [adapt] at h; exact enum_kind O _ c ms v w h
  | .literal ls, v, w, hu, h => by
    rw [adapt] at h
    exact .same (strlit_same O ls (by simpa [uSafe] using hu) v w h)
  | .list t1, v, w, hu, h => by
    obtain ⟨xs, ys, hx, hy, hf⟩ := seq_producer O (.list t1) v w hu (Or.inl ⟨t1, rfl⟩) h
    exact .seq xs ys hx hy hf
  | .tupleVar t1, v, w, hu, h => by
    obtain ⟨xs, ys, hx, hy, hf⟩ := seq_producer O (.tupleVar t1) v w hu (Or.inr (Or.inl ⟨t1, rfl⟩)) h
    exact .seq xs ys hx hy hf
  | .tuple ts, v, w, hu, h => by
    obtain ⟨xs, ys, hx, hy, hf⟩ := seq_producer O (.tuple ts) v w hu (Or.inr (Or.inr ⟨ts, rfl⟩)) h
    exact .seq xs ys hx hy hf
  | .dict k t1, v, w, hu, h => by
    cases k with
    | int => simp [uSafe] at hu
    | str =>
      obtain ⟨kvs, ys, h1, h2, hf⟩ := dict_producer O t1 v w hu h
      exact .dict kvs ys h1 h2 hf
  | .union ts, v, w, hu, h => by
    obtain ⟨t, hm, ht⟩ := union_ok_member O false ts v w h
    have hlt : sizeOf t < sizeOf ts := List.sizeOf_lt_of_mem hm
    exact (producer_kind O t v w (uSafeAll_mem (by simpa [uSafe] using hu) t hm) ht).mono_size (by simp; omega)
termination_by t => sizeOf t
decreasing_by all_goals simp_wf <;> omega

theorem seqItems_not_dict {w : Val} {ys : List Val} (h : seqItems w = some ys) : ∀ kvs, w ≠ .dict kvs := by
  cases w <;> simp [seqItems] at h <;> simp

/-! ### monotonicity -/

/-- **monotonicity**: an adapter that rejected the raw value also rejects what another adapter made of it -/
theorem mono (O : Oracle) : ∀ (t t' : Ty) (v w : Val) (e : Err), uSafe t = true → uSafe t' = true →
    adapt O false .none t v = .ok w → adapt O false .none t' v = .error e →
    ∃ e', adapt O false .none t' w = .error e'
  | t, .union ts', v, w, e, hu, hu', h1, h2 => by
    have hall := union_members_error O false .none ts' v e h2
    rw [isErr_iff, union_isOk]
    simp only [rescued, Option.isSome_none, Bool.false_and, Bool.or_false, List.any_eq_false]
    intro tj hj
    have hlt : sizeOf tj < sizeOf ts' := List.sizeOf_lt_of_mem hj
    obtain ⟨ej, hej⟩ := hall tj hj
    obtain ⟨e', he'⟩ := mono O t tj v w ej hu (uSafeAll_mem (by simpa [uSafe] using hu') tj hj) h1 hej
    simp [he']
  | t, .any, _, _, _, _, hu', _, _ => by simp [uSafe] at hu'
  | t, .set _, _, _, _, _, hu', _, _ => by simp [uSafe] at hu'
  | t, .rnum b k, v, w, e, hu, hu', h1, h2 => rstr_mono O b k v w hu' (producer_shape O t v w hu h1) e h2
  | t, .reg _, _, _, _, _, hu', _, _ => by simp [uSafe] at hu'
  | t, .str, v, w, e, hu, _, h1, h2 => by
    rw [adapt] at h2 ⊢; exact leaf_mono O .str v w (producer_shape O t v w hu h1) e h2
  | t, .int, v, w, e, hu, _, h1, h2 => by
    rw [adapt] at h2 ⊢; exact leaf_mono O .int v w (producer_shape O t v w hu h1) e h2
  | t, .float, v, w, e, hu, _, h1, h2 => by
    rw [adapt] at h2 ⊢; exact leaf_mono O .float v w (producer_shape O t v w hu h1) e h2
  | t, .bool, v, w, e, hu, _, h1, h2 => by
    rw [adapt] at h2 ⊢; exact leaf_mono O .bool v w (producer_shape O t v w hu h1) e h2
  | t, .none, v, w, e, hu, _, h1, h2 => by
    rw [adapt] at h2 ⊢; exact leaf_mono O .none v w (producer_shape O t v w hu h1) e h2
  | t, .enum c ms, v, w, e, hu, _, h1, h2 => by
    rw [adapt] at h2 ⊢; exact enum_mono O c ms v w (producer_shape O t v w hu h1) e h2
  | t, .literal ls, v, w, e, hu, hu', h1, h2 => by
    rw [adapt] at h2 ⊢
    exact strlit_mono O ls (by simpa [uSafe] using hu') v w (producer_shape O t v w hu h1) e h2
  -- container consumers
  | t, .list t1', v, w, e, hu, hu', h1, h2 => by
    cases producer_kind O t v w hu h1 with
    | same h => subst h; exact ⟨e, h2⟩
    | scalar hn _ => exact (list_reject O t1' w).mpr (Or.inl hn)
    | dict kvs ys hv hw hf => subst hw; exact (list_reject O t1' _).mpr (Or.inl rfl)
    | seq xs ys hx hy hf =>
      rcases (list_reject O t1' v).mp ⟨e, h2⟩ with hn | ⟨xs', hx', x, hxm, ex, hex⟩
      · rw [hn] at hx; simp at hx
      · rw [hx] at hx'; simp at hx'; subst hx'
        obtain ⟨y, hym, tA, hlt, huA, hA⟩ := hf.exists_right x hxm
        obtain ⟨e', he'⟩ := mono O tA t1' x y ex huA (by simpa [uSafe] using hu') hA hex
        exact (list_reject O t1' w).mpr (Or.inr ⟨ys, hy, y, hym, e', he'⟩)
  | t, .tupleVar t1', v, w, e, hu, hu', h1, h2 => by
    cases producer_kind O t v w hu h1 with
    | same h => subst h; exact ⟨e, h2⟩
    | scalar hn _ => exact (tupleVar_reject O t1' w).mpr (Or.inl hn)
    | dict kvs ys hv hw hf => subst hw; exact (tupleVar_reject O t1' _).mpr (Or.inl rfl)
    | seq xs ys hx hy hf =>
      rcases (tupleVar_reject O t1' v).mp ⟨e, h2⟩ with hn | ⟨xs', hx', x, hxm, ex, hex⟩
      · rw [hn] at hx; simp at hx
      · rw [hx] at hx'; simp at hx'; subst hx'
        obtain ⟨y, hym, tA, hlt, huA, hA⟩ := hf.exists_right x hxm
        obtain ⟨e', he'⟩ := mono O tA t1' x y ex huA (by simpa [uSafe] using hu') hA hex
        exact (tupleVar_reject O t1' w).mpr (Or.inr ⟨ys, hy, y, hym, e', he'⟩)
  | t, .tuple ts', v, w, e, hu, hu', h1, h2 => by
    cases producer_kind O t v w hu h1 with
    | same h => subst h; exact ⟨e, h2⟩
    | scalar hn _ => exact (tuple_reject O ts' w).mpr (Or.inl hn)
    | dict kvs ys hv hw hf => subst hw; exact (tuple_reject O ts' _).mpr (Or.inl rfl)
    | seq xs ys hx hy hf =>
      rcases (tuple_reject O ts' v).mp ⟨e, h2⟩ with hn | ⟨xs', hx', hlen | ⟨tx, htx, ex, hex⟩⟩
      · rw [hn] at hx; simp at hx
      · rw [hx] at hx'; simp at hx'; subst hx'
        exact (tuple_reject O ts' w).mpr (Or.inr ⟨ys, hy, Or.inl (by rw [hf.length]; exact hlen)⟩)
      · rw [hx] at hx'; simp at hx'; subst hx'
        obtain ⟨y, hym, tA, hlt, huA, hA⟩ := hf.zip_right ts' tx htx
        have htm : tx.1 ∈ ts' := (List.of_mem_zip htx).1
        have hlt' : sizeOf tx.1 < sizeOf ts' := List.sizeOf_lt_of_mem htm
        obtain ⟨e', he'⟩ := mono O tA tx.1 tx.2 y ex huA (uSafeAll_mem (by simpa [uSafe] using hu') _ htm) hA hex
        exact (tuple_reject O ts' w).mpr (Or.inr ⟨ys, hy, Or.inr ⟨(tx.1, y), hym, e', he'⟩⟩)
  | t, .dict k' t1', v, w, e, hu, hu', h1, h2 => by
    cases k' with
    | int => simp [uSafe] at hu'
    | str =>
      cases producer_kind O t v w hu h1 with
      | same h => subst h; exact ⟨e, h2⟩
      | scalar _ hn => exact (dictStr_reject O t1' w).mpr (Or.inl hn)
      | seq xs ys hx hy hf => exact (dictStr_reject O t1' w).mpr (Or.inl (seqItems_not_dict hy))
      | dict kvs ys hv hw hf =>
        subst hv; subst hw
        rcases (dictStr_reject O t1' _).mp ⟨e, h2⟩ with hn | ⟨kvs', hk', kv, hkm, ex, hex⟩
        · exact absurd rfl (hn kvs)
        · simp at hk'; subst hk'
          obtain ⟨ky, hym, tA, hlt, huA, hA⟩ := hf.exists_right kv hkm
          obtain ⟨e', he'⟩ := mono O tA t1' kv.2 ky.2 ex huA (by simpa [uSafe] using hu') hA hex
          exact (dictStr_reject O t1' _).mpr (Or.inr ⟨ys, rfl, ky, hym, e', he'⟩)
termination_by t t' => sizeOf t + sizeOf t'
decreasing_by all_goals simp_wf <;> omega


/-! ### idempotence: helper lemmas -/

theorem allM_fix {α : Type} (f : α → Except Err α) : ∀ (L : List α), (∀ y ∈ L, f y = .ok y) → allM f L = .ok L
  | [], _ => rfl
  | y :: L, h => by
    simp [allM, h y List.mem_cons_self, allM_fix f L (fun z hz => h z (List.mem_cons_of_mem _ hz))]

theorem leaf_idem (O : Oracle) (l : Leaf) (v w : Val) (h : adaptLeaf O l v = .ok w) : adaptLeaf O l w = .ok w := by
  cases l <;> simp only [adaptLeaf] at h
  · cases v <;> simp at h; subst h; simp [adaptLeaf]
  · split at h <;> simp at h; subst h; simp [adaptLeaf, loadIfStr]
  · have h' : adaptLeaf O .float v = .ok w := by simpa only [adaptLeaf] using h
    obtain ⟨r, rfl, _⟩ := adaptLeaf_float_ok O v w h'
    simp [adaptLeaf, loadIfStr]
  · split at h <;> simp at h; subst h; simp [adaptLeaf, loadIfStr]
  · split at h <;> simp at h; subst h; simp [adaptLeaf, loadIfStr]

theorem literal_idem (O : Oracle) (ls : List Lit) (v w : Val) (h : adaptLiteral O ls v = .ok w) :
    adaptLiteral O ls w = .ok w := by
  have hm := adaptLiteral_litMem O ls v w h
  unfold adaptLiteral
  simp [hm]

theorem enum_idem (c : Nat) (ms : List String) (v w : Val) (h : adaptEnum false c ms v = .ok w) :
    adaptEnum false c ms w = .ok w := by
  unfold adaptEnum at h
  simp only [Bool.false_eq_true, if_false] at h
  cases v with
  | str s =>
    simp only at h; split at h <;> simp at h
    subst h; rename_i hs; simp [adaptEnum, hs]
  | enum c' n =>
    simp only at h; split at h <;> simp at h
    subst h; rename_i hn; simp [adaptEnum, hn]
  | tuple xs => simp only at h; split at h <;> simp at h
  | _ => simp at h

theorem any_idem (O : Oracle) (v : Val) : adaptAny O false (adaptAny O false v) = adaptAny O false v := by
  cases v with
  | str s =>
    simp only [adaptAny]
    by_cases hb : isBlank s = true
    · simp [hb, adaptAny]
    · simp only [hb, Bool.false_eq_true, if_false]
      cases hl : O.loadAny s with
      | none => simp [adaptAny, hb, hl]
      | some w => cases w <;> simp [adaptAny, hb, hl]
  | _ => simp [adaptAny]

/-! `set(...)` applied twice -/

def PNE (L : List Val) : Prop := L.Pairwise (fun x y => pyEq x y = false)

theorem pne_setInsert {acc : List Val} (y : Val) (h : PNE acc) : PNE (setInsert acc y) := by
  unfold setInsert
  split
  · exact h
  · rename_i hn
    unfold PNE
    rw [List.pairwise_append]
    refine ⟨h, List.pairwise_singleton _ _, ?_⟩
    intro a ha b hb
    simp only [List.mem_singleton] at hb; subst hb
    simp only [List.any_eq_true, not_exists, not_and, Bool.not_eq_true] at hn
    exact hn a ha

theorem pne_foldl : ∀ (ys acc : List Val), PNE acc → PNE (ys.foldl setInsert acc)
  | [], _, h => h
  | y :: ys, acc, h => pne_foldl ys _ (pne_setInsert y h)

theorem foldl_setInsert_fix : ∀ (L acc : List Val), PNE (acc ++ L) → L.foldl setInsert acc = acc ++ L
  | [], acc, _ => by simp
  | y :: L, acc, h => by
    have hy : setInsert acc y = acc ++ [y] := by
      unfold setInsert
      have : acc.any (fun x => pyEq x y) = false := by
        rw [List.any_eq_false]
        intro x hx
        unfold PNE at h
        rw [List.pairwise_append] at h
        simp [h.2.2 x hx y List.mem_cons_self]
      simp [this]
    simp only [List.foldl_cons, hy]
    rw [foldl_setInsert_fix L (acc ++ [y]) (by simpa using h)]
    simp

theorem pySet_idem (ys : List Val) : pySet (pySet ys) = pySet ys := by
  have h : PNE (pySet ys) := pne_foldl ys [] List.Pairwise.nil
  unfold pySet at h ⊢
  rw [foldl_setInsert_fix _ [] (by simpa using h)]
  simp

/-! the key cast applied twice -/

def KNE (L : List (DKey × Val)) : Prop := L.Pairwise (fun a b => a.1 ≠ b.1)

theorem dictInsert_fresh (k : DKey) (v : Val) : ∀ (l : List (DKey × Val)), (∀ kv ∈ l, kv.1 ≠ k) → dictInsert k v l = l ++ [(k, v)]
  | [], _ => rfl
  | (k', v') :: r, h => by
    have hk : ¬ k' = k := h (k', v') List.mem_cons_self
    simp [dictInsert, hk, dictInsert_fresh k v r (fun kv hkv => h kv (List.mem_cons_of_mem _ hkv))]

theorem dictInsert_keys (k : DKey) (v : Val) : ∀ (l : List (DKey × Val)),
    (dictInsert k v l).map Prod.fst = if k ∈ l.map Prod.fst then l.map Prod.fst else l.map Prod.fst ++ [k]
  | [] => by simp [dictInsert]
  | (k', v') :: r => by
    by_cases hk : k' = k
    · subst hk; simp [dictInsert]
    · have ih := dictInsert_keys k v r
      have hk' : ¬ k = k' := fun h => hk h.symm
      simp only [dictInsert, hk, if_false, List.map_cons, ih, List.mem_cons, hk', false_or]
      split <;> simp

theorem kne_iff_nodup (L : List (DKey × Val)) : KNE L ↔ (L.map Prod.fst).Nodup := by
  unfold KNE List.Nodup
  rw [List.pairwise_map]

theorem kne_dictInsert (k : DKey) (v : Val) (l : List (DKey × Val)) (h : KNE l) : KNE (dictInsert k v l) := by
  rw [kne_iff_nodup] at h ⊢
  rw [dictInsert_keys]
  split
  · exact h
  · rename_i hn
    rw [List.nodup_append]
    refine ⟨h, by simp, ?_⟩
    intro a ha b hb
    simp only [List.mem_singleton] at hb; subst hb
    intro hab; subst hab; exact hn ha

theorem castKeys_kne (O : Oracle) : ∀ (kvs acc r : List (DKey × Val)),
    castKeys O false kvs acc = .ok r → KNE acc → KNE r
  | [], acc, r, h, ha => by simp [castKeys] at h; subst h; exact ha
  | (k, v) :: rest, acc, r, h, ha => by
    simp only [castKeys, Bool.false_eq_true, if_false] at h
    cases k with
    | int i => exact castKeys_kne O rest _ r h (kne_dictInsert _ _ _ ha)
    | str s =>
      simp only at h
      cases hi : O.intOf s with
      | none => simp [hi] at h
      | some i => simp only [hi] at h; exact castKeys_kne O rest _ r h (kne_dictInsert _ _ _ ha)

theorem castKeys_fix (O : Oracle) : ∀ (L acc : List (DKey × Val)), (∀ kv ∈ L, kv.1.isInt = true) → KNE (acc ++ L) →
    castKeys O false L acc = .ok (acc ++ L)
  | [], acc, _, _ => by simp [castKeys]
  | (k, v) :: L, acc, hi, hk => by
    have hki := hi (k, v) List.mem_cons_self
    cases k with
    | str s => simp [DKey.isInt] at hki
    | int i =>
      simp only [castKeys, Bool.false_eq_true, if_false]
      have hfresh : ∀ kv ∈ acc, kv.1 ≠ DKey.int i := by
        intro kv hkv
        unfold KNE at hk
        rw [List.pairwise_append] at hk
        exact hk.2.2 kv hkv (.int i, v) List.mem_cons_self
      rw [dictInsert_fresh _ _ acc hfresh]
      rw [castKeys_fix O L (acc ++ [(DKey.int i, v)]) (fun kv hkv => hi kv (List.mem_cons_of_mem _ hkv)) (by simpa using hk)]
      simp

theorem F2.map_fst_eq {α β : Type} {R : α × β → α × β → Prop} {xs ys : List (α × β)} (h : F2 R xs ys)
    (hr : ∀ a b, R a b → a.1 = b.1) : ys.map Prod.fst = xs.map Prod.fst := by
  induction h with
  | nil => rfl
  | @cons a b as bs hab _ ih => simp [ih, hr a b hab]

/-! ### the sorted member list when the value changes from a string to a non-string -/

theorem findSome?_filter_of_none {α β : Type} (f : α → Option β) (p : α → Bool) :
    ∀ (L : List α), (∀ t ∈ L, p t = false → f t = none) → L.findSome? f = (L.filter p).findSome? f
  | [], _ => rfl
  | t :: L, h => by
    have ih := findSome?_filter_of_none f p L (fun t ht => h t (List.mem_cons_of_mem _ ht))
    by_cases hp : p t = true
    · simp [List.filter_cons, hp, List.findSome?_cons, ih]
    · have hp' : p t = false := by simpa using hp
      simp [List.filter_cons, hp', List.findSome?_cons, h t List.mem_cons_self hp', ih]

def notSM (t : Ty) : Bool := !isSeqOrMap t

theorem sorted_filter_notSM (u : Val) (ts : List Ty) :
    (sortedMembers u id ts).filter notSM = ts.filter isNoneTy ++ ts.filter (fun t => !isNoneTy t && !isSeqOrMap t) := by
  simp only [sortedMembers, id, List.filter_append, List.filter_filter]
  have e1 : ts.filter (fun a => notSM a && cls1 u a) = ts.filter isNoneTy := by
    apply List.filter_congr; intro t _
    cases t <;> simp [notSM, cls1, isNoneTy, isSeqOrMap]
  have e2 : ts.filter (fun a => notSM a && cls2 u a) = [] := by
    rw [List.filter_eq_nil_iff]; intro t _
    simp only [notSM, cls2]
    cases isSeqOrMap t <;> simp
  have e3 : ts.filter (fun a => notSM a && cls3 u a) = ts.filter (fun t => !isNoneTy t && !isSeqOrMap t) := by
    apply List.filter_congr; intro t _
    simp only [notSM, cls3]
    cases isSeqOrMap t <;> cases isNoneTy t <;> cases isStr u <;> simp
  rw [e1, e2, e3]; simp

theorem seqOrMap_rejects_str (O : Oracle) (t : Ty) (s : String) (h : isSeqOrMap t = true) :
    ∃ e, adapt O false .none t (.str s) = .error e := by
  cases t <;> simp [isSeqOrMap] at h
  · exact ⟨.value, by simp [adapt, seqItems]⟩
  · exact ⟨.value, by simp [adapt]⟩

theorem shape_isStr {O : Oracle} {v w : Val} (hs : Shape O v w) (hw : isStr w = true) : w = v := by
  cases hs with
  | same => rfl
  | load s _ hL hsc => cases w <;> simp [scalarNonStr] at hsc <;> simp [isStr] at hw
  | flt v i r hi hf => simp [isStr] at hw
  | enum s c => simp [isStr] at hw
  | seqList v xs ys hx => simp [isStr] at hw
  | seqTuple v xs ys hx => simp [isStr] at hw
  | dict kvs ys => simp [isStr] at hw


theorem adaptZip_idem (O : Oracle) : ∀ (ts : List Ty) (xs ys : List Val), adaptZip O false ts xs = .ok ys →
    (∀ t ∈ ts, ∀ x y, adapt O false .none t x = .ok y → adapt O false .none t y = .ok y) →
    adaptZip O false ts ys = .ok ys
  | [], [], ys, h, _ => by simp [adaptZip] at h; subst h; rfl
  | [], _ :: _, ys, h, _ => by simp [adaptZip] at h
  | _ :: _, [], ys, h, _ => by simp [adaptZip] at h
  | t :: ts, x :: xs, ys, h, hi => by
    simp only [adaptZip] at h
    cases hx : adapt O false .none t x with
    | error e => simp [hx] at h
    | ok y =>
      cases hxs : adaptZip O false ts xs with
      | error e => simp [hx, hxs] at h
      | ok ys' =>
        simp [hx, hxs] at h; subst h
        simp [adaptZip, hi t List.mem_cons_self x y hx,
          adaptZip_idem O ts xs ys' hxs (fun t' ht' => hi t' (List.mem_cons_of_mem _ ht'))]

theorem hashableAll_sub {L ys : List Val} (h : hashableAll ys = true) (hs : ∀ y ∈ L, y ∈ ys) : hashableAll L = true := by
  rw [hashableAll_iff] at h ⊢
  exact fun y hy => h y (hs y hy)

/-- **idempotence**: adapting an adapted value returns it unchanged (value channel) -/
theorem idem (O : Oracle) : ∀ (t : Ty) (v w : Val), good t = true →
    adapt O false .none t v = .ok w → adapt O false .none t w = .ok w
  | .any, v, w, _, h => by
    simp only [adapt, Except.ok.injEq] at h ⊢
    subst h; exact any_idem O v
  | .literal ls, v, w, _, h => by rw [adapt] at h ⊢; exact literal_idem O ls v w h
  | .str, v, w, _, h => by rw [adapt] at h ⊢; exact leaf_idem O .str v w h
  | .int, v, w, _, h => by rw [adapt] at h ⊢; exact leaf_idem O .int v w h
  | .float, v, w, _, h => by rw [adapt] at h ⊢; exact leaf_idem O .float v w h
  | .bool, v, w, _, h => by rw [adapt] at h ⊢; exact leaf_idem O .bool v w h
  | .none, v, w, _, h => by rw [adapt] at h ⊢; exact leaf_idem O .none v w h
  | .enum c ms, v, w, _, h => by rw [adapt] at h ⊢; exact enum_idem c ms v w h
  | .rnum b k, v, w, _, h => by
    rw [adapt] at h ⊢
    obtain ⟨h1, h2, _⟩ := adaptRnum_ok O b k v w h
    simp [adaptRnum, rnumConv_fix O b w h1, h2]
  | .reg k, v, w, _, h => by
    rw [adapt] at h ⊢
    obtain ⟨r, rfl⟩ := adaptReg_ok O k v w h
    exact adaptReg_obj O k r
  | .list t1, v, w, hg, h => by
    rw [adapt] at h
    cases hs : seqItems v with
    | none => simp [hs] at h
    | some xs =>
      simp only [hs] at h
      cases hz : allM (fun x => adapt O false .none t1 x) xs with
      | error e => simp [hz] at h
      | ok ys =>
        simp [hz] at h; subst h
        have hfix : allM (fun x => adapt O false .none t1 x) ys = .ok ys :=
          allM_fix _ ys (((allM_ok_iff _ xs ys).mp hz).forall_right
            (fun x _ y hy => idem O t1 x y (by simpa [good] using hg) hy))
        rw [adapt]; simp [seqItems, hfix]
  | .tupleVar t1, v, w, hg, h => by
    rw [adapt] at h
    cases hs : seqItems v with
    | none => simp [hs] at h
    | some xs =>
      simp only [hs] at h
      cases hz : allM (fun x => adapt O false .none t1 x) xs with
      | error e => simp [hz] at h
      | ok ys =>
        simp [hz] at h; subst h
        have hfix : allM (fun x => adapt O false .none t1 x) ys = .ok ys :=
          allM_fix _ ys (((allM_ok_iff _ xs ys).mp hz).forall_right
            (fun x _ y hy => idem O t1 x y (by simpa [good] using hg) hy))
        rw [adapt]; simp [seqItems, hfix]
  | .set t1, v, w, hg, h => by
    rw [adapt] at h
    cases hs : seqItems v with
    | none => simp [hs] at h
    | some xs =>
      simp only [hs] at h
      cases hz : allM (fun x => adapt O false .none t1 x) xs with
      | error e => simp [hz] at h
      | ok ys =>
        simp only [hz, Bool.false_eq_true, if_false] at h
        split at h
        · rename_i hh
          simp at h; subst h
          have hel : ∀ y ∈ pySet ys, adapt O false .none t1 y = .ok y := fun y hy =>
            ((allM_ok_iff _ xs ys).mp hz).forall_right
              (fun x _ y hy => idem O t1 x y (by simpa [good] using hg) hy) y (mem_pySet hy)
          have hfix : allM (fun x => adapt O false .none t1 x) (pySet ys) = .ok (pySet ys) := allM_fix _ _ hel
          have hh' : hashableAll (pySet ys) = true := hashableAll_sub hh (fun y hy => mem_pySet hy)
          rw [adapt]; simp [seqItems, hfix, hh', pySet_idem]
        · simp at h
  | .tuple ts, v, w, hg, h => by
    rw [adapt] at h
    cases hs : seqItems v with
    | none => simp [hs] at h
    | some xs =>
      simp only [hs] at h
      split at h
      · simp at h
      · rename_i hlen
        cases hz : adaptZip O false ts xs with
        | error e => simp [hz] at h
        | ok ys =>
          simp [hz] at h; subst h
          have hl : ys.length = ts.length := by
            have := (adaptZip_F2 O false ts xs ys hz)
            rw [this.1.length]; simp [List.length_zip, this.2]
          have hfix := adaptZip_idem O ts xs ys hz (fun t ht x y hxy => by
            have hlt : sizeOf t < sizeOf ts := List.sizeOf_lt_of_mem ht
            exact idem O t x y (goodAll_mem (by simpa [good] using hg) t ht) hxy)
          rw [adapt]; simp [seqItems, hl, hfix]
  | .dict k t1, v, w, hg, h => by
    cases v with
    | dict kvs =>
      have hg1 : good t1 = true := by simpa [good] using hg
      -- the element-wise part, for whatever list the key cast produced
      have main : ∀ kvs' : List (DKey × Val),
          (match allM (fun (kx : DKey × Val) =>
              match adapt O false .none t1 kx.2 with
              | .error e => (.error e : Except Err (DKey × Val))
              | .ok y => .ok (kx.1, y)) kvs' with
            | .error e => (.error e : Except Err Val)
            | .ok ys => .ok (.dict ys)) = .ok w →
          ∃ ys, w = .dict ys ∧ ys.map Prod.fst = kvs'.map Prod.fst ∧
            allM (fun (kx : DKey × Val) =>
              match adapt O false .none t1 kx.2 with
              | .error e => (.error e : Except Err (DKey × Val))
              | .ok y => .ok (kx.1, y)) ys = .ok ys := by
        intro kvs' h
        cases hz : allM (fun (kx : DKey × Val) =>
            match adapt O false .none t1 kx.2 with
            | .error e => (.error e : Except Err (DKey × Val))
            | .ok y => .ok (kx.1, y)) kvs' with
        | error e => simp [hz] at h
        | ok ys =>
          simp [hz] at h; subst h
          have hf := (allM_ok_iff _ kvs' ys).mp hz
          refine ⟨ys, rfl, hf.map_fst_eq ?_, allM_fix _ ys (hf.forall_right ?_)⟩
          · intro a b hab
            cases ha : adapt O false .none t1 a.2 with
            | error e => simp [ha] at hab
            | ok y => simp [ha] at hab; subst hab; rfl
          · intro a _ b hab
            cases ha : adapt O false .none t1 a.2 with
            | error e => simp [ha] at hab
            | ok y =>
              simp [ha] at hab; subst hab
              simp [idem O t1 a.2 y hg1 ha]
      cases k with
      | str =>
        simp only [adapt] at h
        obtain ⟨ys, rfl, _, hfix⟩ := main kvs h
        simp only [adapt]
        show (match allM (fun (kx : DKey × Val) =>
              match adapt O false .none t1 kx.2 with
              | .error e => (.error e : Except Err (DKey × Val))
              | .ok y => .ok (kx.1, y)) ys with
            | .error e => (.error e : Except Err Val)
            | .ok ys => .ok (.dict ys)) = .ok (.dict ys)
        rw [hfix]
      | int =>
        simp only [adapt] at h
        cases hc : castKeys O false kvs [] with
        | error e => simp [hc] at h
        | ok kvs' =>
          simp only [hc] at h
          obtain ⟨ys, rfl, hkeys, hfix⟩ := main kvs' h
          have hint : ∀ kv ∈ ys, kv.1.isInt = true := by
            intro kv hkv
            have : kv.1 ∈ ys.map Prod.fst := List.mem_map_of_mem hkv
            rw [hkeys] at this
            obtain ⟨kv0, hm0, he0⟩ := List.mem_map.mp this
            rw [← he0]
            exact (castKeys_spec O kvs [] kvs' hc (by simp) kv0 hm0).1
          have hkne : KNE ys := by
            rw [kne_iff_nodup, hkeys, ← kne_iff_nodup]
            exact castKeys_kne O kvs [] kvs' hc List.Pairwise.nil
          have hcf := castKeys_fix O ys [] hint (by simpa using hkne)
          simp only [adapt, hcf, List.nil_append]
          show (match allM (fun (kx : DKey × Val) =>
                match adapt O false .none t1 kx.2 with
                | .error e => (.error e : Except Err (DKey × Val))
                | .ok y => .ok (kx.1, y)) ys with
              | .error e => (.error e : Except Err Val)
              | .ok ys => .ok (.dict ys)) = .ok (.dict ys)
          rw [hfix]
    | _ => simp [adapt] at h
  | .union ts, v, w, hg, h => by
    have hu : uSafeAll ts = true := by simpa [good] using hg
    have huU : uSafe (.union ts) = true := by simpa [uSafe] using hu
    have h1 := h
    rw [adapt_union_eq] at h1
    cases hf : (sortedMembers v id ts).findSome? (fun t => okOf (adapt O false .none t v)) with
    | none => simp [hf, rescued] at h1
    | some w' =>
      simp [hf] at h1; subst h1
      obtain ⟨A, m, B, hS, hm, hA⟩ := List.findSome?_eq_some_iff.mp hf
      have hm' := okOf_eq_some.mp hm
      have hmem : m ∈ ts := (mem_sortedMembers v ts m).mp (by rw [hS]; simp)
      have hlt : sizeOf m < sizeOf ts := List.sizeOf_lt_of_mem hmem
      have hmw : adapt O false .none m w' = .ok w' := idem O m v w' (uSafe_good m (uSafeAll_mem hu m hmem)) hm'
      have ha : ∀ t ∈ ts, (∃ e, adapt O false .none t v = .error e) → okOf (adapt O false .none t w') = .none := by
        intro t ht ⟨e, he⟩
        obtain ⟨e', he'⟩ := mono O (.union ts) t v w' e huU (uSafeAll_mem hu t ht) h he
        simp [he']
      have hSv : (sortedMembers v id ts).findSome? (fun t => okOf (adapt O false .none t w')) = some w' := by
        rw [hS, List.findSome?_append]
        have hAn : A.findSome? (fun t => okOf (adapt O false .none t w')) = .none := by
          rw [List.findSome?_eq_none_iff]; intro t ht
          have htm : t ∈ ts := (mem_sortedMembers v ts t).mp (by rw [hS]; simp [ht])
          exact ha t htm (okOf_eq_none.mp (hA t ht))
        simp [hAn, List.findSome?_cons, hmw]
      rw [adapt_union_eq]
      suffices hSw : (sortedMembers w' id ts).findSome? (fun t => okOf (adapt O false .none t w')) = some w' by
        simp [hSw]
      by_cases hsw : isStr w' = isStr v
      · have : sortedMembers w' id ts = sortedMembers v id ts := by
          simp [sortedMembers, cls1, cls2, cls3, hsw]
        rw [this]; exact hSv
      · have hshape := producer_shape O (.union ts) v w' huU h
        have hw : isStr w' = false := by
          cases hw : isStr w' with
          | false => rfl
          | true => have := shape_isStr hshape hw; subst this; simp at hsw
        have hv : isStr v = true := by
          cases hv : isStr v with
          | true => rfl
          | false => simp [hw, hv] at hsw
        obtain ⟨s, rfl⟩ : ∃ s, v = .str s := by
          cases v <;> simp [isStr] at hv; exact ⟨_, rfl⟩
        have hnone : ∀ u : Val, ∀ t ∈ sortedMembers u id ts, notSM t = false →
            okOf (adapt O false .none t w') = .none := by
          intro u t ht hn
          have htm := (mem_sortedMembers u ts t).mp ht
          have hsm : isSeqOrMap t = true := by simpa [notSM] using hn
          exact ha t htm (seqOrMap_rejects_str O t s hsm)
        rw [findSome?_filter_of_none _ notSM _ (hnone w'), sorted_filter_notSM,
          ← sorted_filter_notSM (.str s), ← findSome?_filter_of_none _ notSM _ (hnone (.str s))]
        exact hSv
termination_by t => sizeOf t
decreasing_by all_goals simp_wf <;> omega

end Jap.Adapt
